#!/usr/bin/env python3
"""Builds MANIFEST.json from checks/*.json (one per claimed property) so that
adding a property never means hand-editing a shared file."""
import glob, json, os
ROOT = os.path.dirname(os.path.dirname(os.path.abspath(__file__)))
props = [json.loads(l)["id"] for l in open(os.path.join(ROOT, "properties.jsonl"))]
checks = []
claimed = set()
for p in sorted(glob.glob(os.path.join(ROOT, "checks", "C*.json"))):
    c = json.load(open(p))
    if not isinstance(c, dict) or "id" not in c:
        continue  # auxiliary reviewed data of a check (e.g. checks/C09-sites.json), not a check configuration
    pid = c["id"]
    claimed.add(pid)
    checks.append({
        "property_id": pid,
        "quick_cmd": f"./check {pid} --tier quick",
        "thorough_cmd": f"./check {pid} --tier thorough",
        "evidence_file": f"evidence/{pid}.json",
        "replay_cmd_template": f"./check {pid} --replay {{path}}",
        "engine": "lean4-proof+correspondence",
        "level_claimed": {"category": c["level"], "text": c.get("level_text", ""), "design_ref": c.get("design_ref", f"DESIGN.md §4 {pid}")},
        "level_note": c.get("level_note", ""),
        "technique": c.get("technique", "Lean 4 theorems about a model tied to the source by translator + correspondence"),
    })
pending = json.load(open(os.path.join(ROOT, "checks", "unclaimed.json")))
na = [{"property_id": p, "reason": pending.get(p, "check not built yet in this session (no technical obstacle; see DESIGN.md §4)")} for p in props if p not in claimed]
hooks = json.load(open(os.path.join(ROOT, "checks", "hooks.json")))
m = {
    "version": 1,
    "setup_cmd": "./setup.sh",
    "hooks": hooks,
    "engines": [{"name": "lean4-proof+correspondence", "path": "check",
                 "serves_properties": sorted(claimed),
                 "kind_free_text": "Lean 4 theorems (lean/AikenVerif/Props) about models tied to /repo by tools/translate.py (regenerated tables) and by a Rust harness that diffs the real code against the native Lean driver"}],
    "checks": checks,
    "not_applicable": na,
    "notes": "See DESIGN.md. known_findings.jsonl lists recorded findings and fixed defects.",
}
json.dump(m, open(os.path.join(ROOT, "MANIFEST.json"), "w"), indent=1)
print("MANIFEST.json:", len(checks), "checks,", len(na), "unclaimed")
