#!/usr/bin/env python3
"""Resolve the predictable merge conflicts of an agent branch:
lean/Main.lean, harness/src/main.rs, lean/AikenVerif.lean (union of registrations),
MANIFEST.json (regenerated).  Usage: tools/resolve_merge.py <branch>"""
import re, subprocess, sys, os
ROOT = os.path.dirname(os.path.dirname(os.path.abspath(__file__)))
branch = sys.argv[1]
def show(ref, path):
    return subprocess.check_output(["git", "-C", ROOT, "show", f"{ref}:{path}"]).decode()
def write(path, s):
    open(os.path.join(ROOT, path), "w").write(s)

# --- lean/Main.lean
ours, theirs = show("HEAD", "lean/Main.lean"), show(branch, "lean/Main.lean")
for imp in re.findall(r"^import \S+$", theirs, flags=re.M):
    if imp not in ours:
        ours = re.sub(r"(^import \S+\n)(?!import)", lambda m: m.group(1) + imp + "\n", ours, count=1, flags=re.M)
for m in re.finditer(r'^  \| "([^"]+)" => (?:\(st, )?(Drivers\.[\w.]+ [^\n()]*?)\)?$', theirs, flags=re.M):
    name, call = m.group(1), m.group(2)
    if f'| "{name}" =>' not in ours:
        ours = ours.replace('  | _ => (st, "unknown-subcommand")', f'  | "{name}" => (st, {call})\n  | _ => (st, "unknown-subcommand")')
write("lean/Main.lean", ours)

# --- harness/src/main.rs
ours, theirs = show("HEAD", "harness/src/main.rs"), show(branch, "harness/src/main.rs")
mods = sorted(set(re.findall(r"^mod \w+;$", ours, flags=re.M)) | set(re.findall(r"^mod \w+;$", theirs, flags=re.M)))
first = re.search(r"^mod \w+;$", ours, flags=re.M).start()
body = re.sub(r"^mod \w+;\n", "", ours, flags=re.M)
ours = body[:first] + "\n".join(mods) + "\n" + body[first:]
for m in re.finditer(r'^        ("[\w-]+" => [^\n]+,)$', theirs, flags=re.M):
    arm = m.group(1)
    key = arm.split(" =>")[0]
    if key + " =>" not in ours:
        ours = ours.replace("        other => {\n            eprintln!(\"unknown sub-command", "        " + arm + "\n        other => {\n            eprintln!(\"unknown sub-command", 1)
write("harness/src/main.rs", ours)

# --- lean/AikenVerif.lean
ours, theirs = show("HEAD", "lean/AikenVerif.lean"), show(branch, "lean/AikenVerif.lean")
for imp in re.findall(r"^import \S+$", theirs, flags=re.M):
    if imp not in ours:
        ours = ours.rstrip("\n") + "\n" + imp + "\n"
write("lean/AikenVerif.lean", ours)

# --- tools/translate.py GENERATORS: report only
subprocess.call([sys.executable, os.path.join(ROOT, "tools", "mkmanifest.py")])
print("resolved Main.lean, main.rs, AikenVerif.lean, MANIFEST.json — review other conflicts by hand")
