#!/bin/bash
# tools/seeded_confirm.sh <PROPERTY-ID> <dir with patch.diff + demo.rs [+ PLACE]> [crate for tests/ placement]
# PLACE (optional) lines:  append <file>            -> demo.rs is appended to <file>
#                          file <dest>              -> demo.rs is copied to <dest>
#                          modline <file> <text…>   -> <text> is appended to <file>
#                          inmod <file>             -> demo.rs is inserted before the final `}` of <file>
#                          cmd <test command…>      -> how to run the demo (default: cargo test -p <crate> --test seeded_demo)
set -u
ID=$1; DIR=$2; CRATE=${3:-uplc}
W=/tmp/confirm
place() {
  if [ -f $DIR/PLACE ]; then
    while read -r kind a rest; do
      case $kind in
        append) cat $DIR/demo.rs >> $W/$a ;;
        file) mkdir -p $(dirname $W/$a); cp $DIR/demo.rs $W/$a ;;
        modline) echo "$rest" >> $W/$a ;;
        inmod) head -n -1 $W/$a > $W/$a.tmp; cat $DIR/demo.rs >> $W/$a.tmp; echo "}" >> $W/$a.tmp; mv $W/$a.tmp $W/$a ;;
      esac
    done < $DIR/PLACE
  else
    mkdir -p $W/crates/$CRATE/tests && cp $DIR/demo.rs $W/crates/$CRATE/tests/seeded_demo.rs
  fi
}
CMD="cargo test -p $CRATE --test seeded_demo --offline"
if [ -f $DIR/PLACE ] && grep -q "^cmd " $DIR/PLACE; then CMD=$(grep "^cmd " $DIR/PLACE | head -1 | cut -d' ' -f2-); fi
cd $W && git checkout -q -- . && git clean -qfd -e target && git checkout -q --detach $(git -C /repo rev-parse HEAD)
place
echo "== demo on clean tree (must pass): $CMD"
$CMD 2>&1 | tail -4
CLEAN_RC=${PIPESTATUS[0]}
git checkout -q -- . && git clean -qfd -e target
git apply $DIR/patch.diff || { echo "PATCH DOES NOT APPLY"; exit 3; }
echo "== existing suite with the patch (must pass)"
cargo nextest run --workspace --no-fail-fast --tool-config-file pb:/w/lib/nextest.toml --profile pb --test-threads 8 --offline 2>&1 | tail -3
SUITE_RC=${PIPESTATUS[0]}
place
echo "== demo with the patch (must fail)"
$CMD 2>&1 | tail -6
PATCH_RC=${PIPESTATUS[0]}
git checkout -q -- . && git clean -qfd -e target
echo "== ./check $ID with the patch applied to /repo"
cd /repo && git apply $DIR/patch.diff
cd /verif && ./check $ID > /tmp/confirm-check.log 2>&1
CHECK_RC=$?
grep -c "^VIOLATION" /tmp/confirm-check.log
grep "^VIOLATION\|^# " /tmp/confirm-check.log | head -6 | cut -c1-220
git -C /repo checkout -- .
echo "SUMMARY id=$ID dir=$DIR demo_clean_rc=$CLEAN_RC demo_patched_rc=$PATCH_RC suite_rc=$SUITE_RC check_rc=$CHECK_RC"
