#!/bin/bash
# tools/seeded_confirm.sh <PROPERTY-ID> <dir with patch.diff + demo.rs> <crate for the demo test, e.g. uplc>
# 1. in the scratch worktree /tmp/confirm (clean checkout of /repo HEAD): demo passes without the patch,
#    fails with it, and the whole existing suite passes with it;
# 2. on /repo: apply the patch, run ./check <ID>, undo the patch.  Prints a summary.
set -u
ID=$1; DIR=$2; CRATE=${3:-uplc}
W=/tmp/confirm
cd $W && git checkout -q -- . && git clean -qfd -e target && git checkout -q --detach $(git -C /repo rev-parse HEAD)
mkdir -p crates/$CRATE/tests && cp $DIR/demo.rs crates/$CRATE/tests/seeded_demo.rs
echo "== demo on clean tree (must pass)"
cargo test -p $CRATE --test seeded_demo --offline 2>&1 | tail -4
CLEAN_RC=${PIPESTATUS[0]}
git apply $DIR/patch.diff || { echo "PATCH DOES NOT APPLY"; exit 3; }
echo "== demo with the patch (must fail)"
cargo test -p $CRATE --test seeded_demo --offline 2>&1 | tail -6
PATCH_RC=${PIPESTATUS[0]}
rm -f crates/$CRATE/tests/seeded_demo.rs
echo "== existing suite with the patch (must pass)"
cargo nextest run --workspace --no-fail-fast --tool-config-file pb:/w/lib/nextest.toml --profile pb --test-threads 8 --offline 2>&1 | tail -3
SUITE_RC=${PIPESTATUS[0]}
git checkout -q -- . && git clean -qfd -e target
echo "== ./check $ID with the patch applied to /repo"
cd /repo && git apply $DIR/patch.diff
cd /verif && ./check $ID > /tmp/confirm-check.log 2>&1
CHECK_RC=$?
grep -c "^VIOLATION" /tmp/confirm-check.log
grep "^VIOLATION\|^# " /tmp/confirm-check.log | head -6 | cut -c1-220
git -C /repo checkout -- .
echo "SUMMARY id=$ID dir=$DIR demo_clean_rc=$CLEAN_RC demo_patched_rc=$PATCH_RC suite_rc=$SUITE_RC check_rc=$CHECK_RC"
