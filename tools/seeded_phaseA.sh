#!/bin/bash
# tools/seeded_phaseA.sh <PROPERTY-ID> <dir with patch.diff + demo.rs [+ PLACE]> <crate> <scratch worktree>
# scratch-worktree half of the confirmation of a seeded change: demo on the clean tree (must pass), the
# 861-test suite with the patch (must pass), demo with the patch (must fail).  Nothing under /repo or /verif
# is touched, so several lanes (different scratch worktrees) can run side by side.
set -u
ID=$1; DIR=$2; CRATE=${3:-uplc}; W=$4
place() {
  if [ -f $DIR/PLACE ]; then
    while read -r kind a rest; do
      case $kind in
        append) cat $DIR/demo.rs >> $W/$a ;;
        file) mkdir -p $(dirname $W/$a); cp $DIR/demo.rs $W/$a ;;
        modline) echo "$rest" >> $W/$a ;;
        inmod) head -n -1 $W/$a > $W/$a.tmp; cat $DIR/demo.rs >> $W/$a.tmp; echo "}" >> $W/$a.tmp; mv $W/$a.tmp $W/$a ;;
      esac
    done < $DIR/PLACE
  else
    mkdir -p $W/crates/$CRATE/tests && cp $DIR/demo.rs $W/crates/$CRATE/tests/seeded_demo.rs
  fi
}
CMD="cargo test -p $CRATE --test seeded_demo --offline"
if [ -f $DIR/PLACE ] && grep -q "^cmd " $DIR/PLACE; then CMD=$(grep "^cmd " $DIR/PLACE | head -1 | cut -d' ' -f2-); fi
cd $W && git checkout -q -- . && git clean -qfd -e target && git checkout -q --detach $(git -C /repo rev-parse HEAD)
place
$CMD > $W.demo-clean.log 2>&1; CLEAN_RC=$?
git checkout -q -- . && git clean -qfd -e target
git apply $DIR/patch.diff || { echo "SUMMARY-A id=$ID dir=$DIR PATCH-DOES-NOT-APPLY"; exit 3; }
cargo nextest run --workspace --no-fail-fast --tool-config-file pb:/w/lib/nextest.toml --profile pb --test-threads 6 --offline > $W.suite.log 2>&1; SUITE_RC=$?
place
$CMD > $W.demo-patched.log 2>&1; PATCH_RC=$?
git checkout -q -- . && git clean -qfd -e target
echo "SUMMARY-A id=$ID dir=$DIR demo_clean_rc=$CLEAN_RC suite_rc=$SUITE_RC demo_patched_rc=$PATCH_RC suite=$(grep -o '[0-9]* tests run: [0-9]* passed' $W.suite.log | tail -1)"
