#!/bin/bash
# tools/seeded_phaseB.sh <PROPERTY-ID> <dir with patch.diff>: the patch applied to /repo, ./check, patch undone
set -u
ID=$1; DIR=$2
cd /repo && git apply $DIR/patch.diff || { echo "SUMMARY-B id=$ID dir=$DIR PATCH-DOES-NOT-APPLY"; exit 3; }
cd /verif && ./check $ID > /tmp/confirm-check-$ID.log 2>&1; RC=$?
git -C /repo checkout -- .
echo "SUMMARY-B id=$ID dir=$DIR check_rc=$RC violations=$(grep -c '^VIOLATION' /tmp/confirm-check-$ID.log) first=$(grep '^# ' /tmp/confirm-check-$ID.log | head -1 | cut -c1-140)"
