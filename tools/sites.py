#!/usr/bin/env python3
"""Fail-closed inventory of hash-map ITERATION sites on aiken's compile path (C09).

Iterating a `HashMap`/`HashSet` visits entries in an order that depends on the
per-instance random hash seed; if such an order reaches the emitted program, the
blueprint or a hash, builds stop being reproducible.  `IndexMap` iterates in
insertion order (deterministic *given* a deterministic insertion order), so its
sites are inventoried too.

    tools/sites.py            human-readable report, exit 1 if a site is unreviewed
    tools/sites.py --json     {"sites":[…], "problems":[…]} on stdout (used by `verif-harness c09-sites`)
    tools/sites.py --update   add new sites to checks/C09-sites.json with class UNREVIEWED

A site is keyed by (file, enclosing fn, normalised expression, occurrence index)
so that moving code around inside a function does not disturb it, while a new
iteration, or an iteration over a different receiver, is a new key.  Every key
must be present in the reviewed inventory `checks/C09-sites.json` with one of

    sorted-after          the collected items are sorted (or put in a BTreeMap/BTreeSet) before use
                          -> justified by theorem C09.sort_after_collect
    commutative-fold      the iteration feeds an order-insensitive reduction (set/map insertion,
                          any/all/count/sum/min/max, membership, per-entry in-place update)
                          -> justified by theorem C09.fold_perm_invariant
    indexmap-ordered      IndexMap/Vec: iteration order = insertion order, which is itself deterministic
    not-on-output-path    diagnostics, LSP, docs, test-only code, or a value that never reaches the output
    not-a-hash-map        false positive of the name-based receiver resolution (the receiver is a Vec/slice/Option here)

and a one-line justification.  Fail-closed: a file that is missing, a `HashMap`/
`HashSet`/`IndexMap` token in a syntactic position the scanner does not know, or
a site without a reviewed classification is reported as a problem.
"""
import json
import os
import re
import sys

ROOT = os.path.dirname(os.path.dirname(os.path.abspath(__file__)))
REPO = os.environ.get("VERIF_REPO_OVERRIDE", os.path.join(ROOT, "repo"))
INVENTORY = os.path.join(ROOT, "checks", "C09-sites.json")

FILES = [
    "crates/aiken-lang/src/gen_uplc.rs",
    "crates/aiken-lang/src/gen_uplc/interner.rs",
    "crates/aiken-lang/src/gen_uplc/builder.rs",
    "crates/aiken-lang/src/gen_uplc/decision_tree.rs",
    "crates/aiken-lang/src/lib.rs",
    "crates/uplc/src/optimize/interner.rs",
    "crates/uplc/src/optimize/shrinker.rs",
    "crates/aiken-project/src/lib.rs",
    "crates/aiken-project/src/module.rs",
    "crates/aiken-project/src/blueprint/mod.rs",
    "crates/aiken-project/src/blueprint/memo_program.rs",
    "crates/aiken-project/src/blueprint/definitions.rs",
    "crates/aiken-project/src/blueprint/validator.rs",
    "crates/aiken-project/src/blueprint/schema.rs",
]

CLASSES = {"sorted-after", "commutative-fold", "indexmap-ordered", "not-on-output-path", "not-a-hash-map"}
MAPTY = r"(?:HashMap|HashSet|IndexMap|IndexSet)"
ITER_METHODS = ["iter", "iter_mut", "into_iter", "keys", "values", "values_mut", "into_keys", "into_values",
                "drain", "par_iter", "par_iter_mut", "into_par_iter", "par_drain", "retain"]


class Closed(Exception):
    pass


def strip_comments_and_strings(src):
    """same length as src: comments and string/char literal contents replaced by spaces"""
    out = []
    i, n = 0, len(src)
    while i < n:
        c = src[i]
        if src.startswith("//", i):
            j = src.find("\n", i)
            j = n if j < 0 else j
            out.append(" " * (j - i))
            i = j
        elif src.startswith("/*", i):
            depth, j = 1, i + 2
            while j < n and depth:
                if src.startswith("/*", j):
                    depth += 1
                    j += 2
                elif src.startswith("*/", j):
                    depth -= 1
                    j += 2
                else:
                    j += 1
            out.append("".join(ch if ch == "\n" else " " for ch in src[i:j]))
            i = j
        elif c == '"' or (c == "r" and re.match(r'r#*"', src[i:])):
            if c == "r":
                m = re.match(r'r(#*)"', src[i:])
                hashes = m.group(1)
                end = src.find('"' + hashes, i + len(m.group(0)))
                j = n if end < 0 else end + 1 + len(hashes)
            else:
                j = i + 1
                while j < n and src[j] != '"':
                    j += 2 if src[j] == "\\" else 1
                j += 1
            out.append('"' + "".join(ch if ch == "\n" else " " for ch in src[i + 1:j - 1]) + '"' if j - i >= 2 else src[i:j])
            i = j
        elif c == "'":
            m = re.match(r"'(?:\\.[^']*|[^'\\])'", src[i:])
            if m:
                out.append("' '" + " " * (len(m.group(0)) - 3) if len(m.group(0)) >= 3 else m.group(0))
                i += len(m.group(0))
            else:
                out.append(c)  # lifetime
                i += 1
        else:
            out.append(c)
            i += 1
    text = "".join(out)
    if len(text) != len(src):
        raise Closed("internal: comment stripper changed the length")
    return text


def functions(text):
    """[(name, body_start, body_end)] for every fn with a body, innermost lookup later"""
    out = []
    for m in re.finditer(r"\bfn\s+([A-Za-z_][A-Za-z0-9_]*)", text):
        i = m.end()
        depth_par = 0
        # find the opening brace of the body (skip the signature; a `;` first means no body)
        j = i
        n = len(text)
        angle = 0
        while j < n:
            ch = text[j]
            if ch in "([":
                depth_par += 1
            elif ch in ")]":
                depth_par -= 1
            elif ch == "{" and depth_par == 0:
                break
            elif ch == ";" and depth_par == 0:
                j = -1
                break
            j += 1
        if j < 0 or j >= n:
            continue
        depth, k = 0, j
        while k < n:
            if text[k] == "{":
                depth += 1
            elif text[k] == "}":
                depth -= 1
                if depth == 0:
                    break
            k += 1
        out.append((m.group(1), m.start(), j, k))
    return out


def enclosing(fns, pos):
    best = None
    for (name, start, b0, b1) in fns:
        if b0 <= pos <= b1 and (best is None or b0 > best[2]):
            best = (name, start, b0, b1)
    return best


def impl_type_at(text, pos):
    best = None
    for m in re.finditer(r"^impl(?:<[^>]*>)?\s+(?:[^{;]+?\s+for\s+)?(?:&\s*(?:'\w+\s+)?)?([A-Za-z_][A-Za-z0-9_]*)", text, re.M):
        if m.start() < pos:
            best = m.group(1)
    return best


def scan_declarations(texts):
    """global knowledge: wrapper types, map-typed field names, fns returning maps"""
    wrappers, fields, ret_fns = set(), {}, set()
    for f, t in texts.items():
        for m in re.finditer(r"struct\s+(\w+)\s*\(\s*(?:pub\s+)?(" + MAPTY + r")\s*<", t):
            wrappers.add(m.group(1))
    ty = r"(?:" + MAPTY + ("|" + "|".join(sorted(wrappers)) if wrappers else "") + r")\b"
    for f, t in texts.items():
        # struct fields / params / lets with an explicit map type
        for m in re.finditer(r"\b(?:pub\s+)?([a-z_][a-z0-9_]*)\s*:\s*(?:&\s*(?:'\w+\s+)?(?:mut\s+)?)?(?:Option<\s*)?(?:&\s*(?:'\w+\s+)?(?:mut\s+)?)?" + ty, t):
            fields.setdefault(m.group(1), set()).add(f)
        for m in re.finditer(r"\bfn\s+(\w+)[^{;]*?->\s*[^{;]*?" + ty, t):
            ret_fns.add(m.group(1))
    return wrappers, ty, fields, ret_fns


def check_known_positions(f, text, ty_names):
    """every map-type token must sit in a position we understand"""
    problems = []
    for m in re.finditer(r"\b" + MAPTY + r"\b", text):
        line_start = text.rfind("\n", 0, m.start()) + 1
        line_end = text.find("\n", m.end())
        line = text[line_start: line_end if line_end >= 0 else len(text)]
        before = text[max(0, m.start() - 120): m.start()]
        after = text[m.end(): m.end() + 40]
        ok = (
            re.match(r"\s*(?:pub\s+)?use\b", line) is not None
            or re.search(r"\buse\s+[^;]*$", text[max(0, m.start() - 400): m.start()]) is not None  # inside a multi-line use
            or re.match(r"\s*(<|::)", after) is not None           # a type with parameters or a constructor call
            or re.search(r"(:|->|&|<|\(|,|=|\bmut|\bfor)\s*$", before) is not None
        )
        if not ok:
            problems.append((f, text.count("\n", 0, m.start()) + 1, line.strip()[:100]))
    return problems


def local_map_names(body, ty, ret_fns):
    names = set()
    for m in re.finditer(r"\blet\s+(?:mut\s+)?([a-z_][a-z0-9_]*)\s*(?::\s*([^=;]+?))?\s*=\s*([^;]*?);", body, re.S):
        name, annot, init = m.group(1), m.group(2) or "", m.group(3)
        if re.search(ty, annot) or re.search(MAPTY + r"\s*(?:::<[^>]*>)?\s*::\s*(?:new|with_capacity|from|default|from_iter)\b", init) \
                or re.search(r"collect::<\s*" + ty, init) \
                or re.search(r"^\s*" + ty, init.strip()) \
                or any(re.search(r"\b" + re.escape(fn) + r"\s*\(", init) for fn in ret_fns if len(fn) > 3):
            names.add(name)
    # `let Foo { a, b } = …` is not resolved: fields are caught through the global field set
    return names


def param_map_names(sig, ty):
    names = set()
    for m in re.finditer(r"\b(?:mut\s+)?([a-z_][a-z0-9_]*)\s*:\s*([^,)]+(?:<[^)]*>)?)", sig):
        if re.search(ty, m.group(2)):
            names.add(m.group(1))
    return names


RECV = r"((?:[A-Za-z_][A-Za-z0-9_]*|self|\d+)(?:\s*\.\s*(?:[A-Za-z_][A-Za-z0-9_]*|\d+)|\s*\[[^\]]*\]|\s*\(\s*\))*)"


def find_sites():
    texts = {}
    for f in FILES:
        p = os.path.join(REPO, f)
        if not os.path.exists(p):
            raise Closed(f"compile-path file missing: {f}")
        texts[f] = strip_comments_and_strings(open(p).read())
    decl_texts = dict(texts)
    for crate in ("aiken-lang", "aiken-project", "uplc"):
        base = os.path.join(REPO, "crates", crate, "src")
        for dirpath, _dirs, files in os.walk(base):
            for fn in files:
                if fn.endswith(".rs"):
                    full = os.path.join(dirpath, fn)
                    rel = os.path.relpath(full, REPO)
                    if rel not in decl_texts:
                        decl_texts[rel] = strip_comments_and_strings(open(full).read())
    # map-typed field names / wrapper types / map-returning fns are collected over the three crates
    wrappers, ty, fields, ret_fns = scan_declarations(decl_texts)
    unknown = []
    for f, t in texts.items():
        unknown += check_known_positions(f, t, ty)
    sites = []
    for f, t in texts.items():
        fns = functions(t)
        # test modules are not on the compile path
        test_mod = re.search(r"#\[cfg\(test\)\]\s*mod\s+\w+\s*\{", t)
        test_from = test_mod.start() if test_mod else len(t)
        cache = {}
        # usage-inferred map names (closure parameters and destructured tuples carry no type):
        # a name on which a map-only method is called somewhere in this file
        used_as_map = set(m.group(1) for m in re.finditer(
            r"\b([a-z_][a-z0-9_]*)\s*\.\s*(?:contains_key|entry|keys|values|values_mut|into_values|into_keys)\s*\(", t))
        used_as_map -= {"self"}

        def scope_names(pos):
            enc = enclosing(fns, pos)
            if enc is None:
                return "<top>", set()
            name, start, b0, b1 = enc
            if (b0, b1) not in cache:
                # names visible in nested closures/fns too: take every enclosing fn
                names = set()
                for (n2, s2, c0, c1) in fns:
                    if c0 <= b0 and b1 <= c1:
                        names |= local_map_names(t[c0:c1], ty, ret_fns) | param_map_names(t[s2:c0], ty)
                cache[(b0, b1)] = names
            return name, cache[(b0, b1)]

        found = []
        # method-style iteration
        for m in re.finditer(RECV + r"\s*\.\s*(" + "|".join(ITER_METHODS) + r")\s*\(", t):
            recv, meth = re.sub(r"\s+", "", m.group(1)), m.group(2)
            found.append((m.start(), recv, f"{recv}.{meth}()"))
        # for loops
        for m in re.finditer(r"\bfor\s+[^{};]*?\s+in\s+(&\s*(?:mut\s+)?)?" + RECV + r"\s*\{", t):
            recv = re.sub(r"\s+", "", m.group(2))
            amp = re.sub(r"\s+", " ", m.group(1) or "").strip()
            if re.search(r"\.(?:" + "|".join(ITER_METHODS) + r")\(\)$", recv):
                continue  # `for x in m.values()`: the method-call site at the same place covers it
            found.append((m.start(), recv, f"for _ in {amp}{recv}"))
        # consuming a map into something else
        for m in re.finditer(r"\.\s*extend\s*\(\s*" + RECV + r"\s*\)", t):
            recv = re.sub(r"\s+", "", m.group(1))
            found.append((m.start(), recv, f"extend({recv})"))
        for pos, recv, expr in sorted(found):
            if pos >= test_from:
                continue
            fn_name, locals_ = scope_names(pos)
            parts = [p for p in re.split(r"\.", re.sub(r"\[[^\]]*\]|\(\)", "", recv)) if p]
            last = parts[-1]
            is_map = False
            meth = expr.rsplit(".", 1)[-1] if "." in expr else ""
            if meth in ("keys()", "values()", "values_mut()", "into_keys()", "into_values()"):
                is_map = True  # map-only methods: always a site (a BTreeMap is classified not-a-hash-map)
            elif len(parts) == 1:
                is_map = last in locals_ or last in used_as_map
            else:
                if last.isdigit():
                    is_map = impl_type_at(t, pos) in wrappers and parts[0] == "self" and len(parts) == 2
                else:
                    is_map = last in fields
            # a method call in the chain returning a map (e.g. `foo().iter()`): resolved by name
            mcall = re.search(r"([A-Za-z_][A-Za-z0-9_]*)\(\)$", recv)
            if mcall and mcall.group(1) in ret_fns:
                is_map = True
            if not is_map:
                continue
            line = t.count("\n", 0, pos) + 1
            sites.append({"file": f, "fn": fn_name, "expr": expr, "line": line})
    # occurrence index
    counts = {}
    for s in sites:
        k = (s["file"], s["fn"], s["expr"])
        s["occ"] = counts.get(k, 0)
        counts[k] = s["occ"] + 1
        s["key"] = f"{s['file']}::{s['fn']}::{s['expr']}#{s['occ']}"
    return sites, unknown


def load_inventory():
    if not os.path.exists(INVENTORY):
        return {}
    doc = json.load(open(INVENTORY))
    return {e["key"]: e for e in doc.get("sites", [])}


def main():
    mode = sys.argv[1] if len(sys.argv) > 1 else ""
    problems = []
    try:
        sites, unknown = find_sites()
    except Closed as e:
        sites, unknown = [], []
        problems.append({"key": "scanner", "what": f"tools/sites.py cannot read the source: {e}"})
    for (f, line, text) in unknown:
        problems.append({"key": f"unknown-position:{f}:{text}", "what": f"hash-map type in a position the scanner does not understand ({f}:{line}: {text})"})
    inv = load_inventory()
    if mode == "--update":
        out = []
        for s in sites:
            e = inv.get(s["key"], {})
            out.append({"key": s["key"], "line_when_reviewed": e.get("line_when_reviewed", s["line"]),
                        "class": e.get("class", "UNREVIEWED"), "why": e.get("why", "")})
        json.dump({"comment": "reviewed inventory of hash-map iteration sites on the compile path (tools/sites.py); classes: " + ", ".join(sorted(CLASSES)),
                   "sites": out}, open(INVENTORY, "w"), indent=1)
        print(f"{len(out)} sites written, {sum(1 for o in out if o['class'] == 'UNREVIEWED')} unreviewed")
        return 0
    seen = set()
    for s in sites:
        seen.add(s["key"])
        e = inv.get(s["key"])
        if e is None:
            s["class"] = "unreviewed"
            problems.append({"key": s["key"], "what": f"hash-map iteration site not in the reviewed inventory: {s['file']}:{s['line']} in fn {s['fn']}: {s['expr']}", "site": s})
        elif e.get("class") not in CLASSES or not e.get("why"):
            s["class"] = "unreviewed"
            problems.append({"key": s["key"], "what": f"site listed but not classified: {s['file']}:{s['line']} in fn {s['fn']}: {s['expr']}", "site": s})
        else:
            s["class"] = e["class"]
            s["why"] = e["why"]
    stale = [k for k in inv if k not in seen]
    doc = {"sites": sites, "problems": problems, "stale": stale}
    if mode == "--json":
        print(json.dumps(doc))
        return 0
    by = {}
    for s in sites:
        by[s["class"]] = by.get(s["class"], 0) + 1
    print(f"{len(sites)} iteration sites in {len(FILES)} files: " + ", ".join(f"{k}={v}" for k, v in sorted(by.items())))
    for p in problems:
        print("PROBLEM", p["what"])
    for k in stale:
        print("note: inventory entry no longer matches a site:", k)
    return 1 if problems else 0


if __name__ == "__main__":
    sys.exit(main())
