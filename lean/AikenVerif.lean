-- root of the library: every theorem module (setup.sh builds this target)
import AikenVerif.Props.C15
import AikenVerif.Props.C07
