-- root of the library: every theorem module (setup.sh builds this target)
import AikenVerif.Props.C15
import AikenVerif.Props.C03
import AikenVerif.Props.C05
import AikenVerif.Props.C16
import AikenVerif.Props.C08
import AikenVerif.Props.C20
import AikenVerif.Props.C11
import AikenVerif.Props.C12
import AikenVerif.Props.C18
import AikenVerif.Props.C01
import AikenVerif.Props.C02
import AikenVerif.Props.C06
import AikenVerif.Props.C14
