-- root of the library: every theorem module (setup.sh builds this target)
import AikenVerif.Props.C15
import AikenVerif.Props.C03
import AikenVerif.Props.C05
import AikenVerif.Props.C16
import AikenVerif.Props.C08
import AikenVerif.Props.C20
import AikenVerif.Props.C11
import AikenVerif.Props.C12
import AikenVerif.Props.C18
import AikenVerif.Props.C19
import AikenVerif.Props.C13
import AikenVerif.Props.C10
import AikenVerif.Props.C04
import AikenVerif.Props.C07
import AikenVerif.Props.C17
import AikenVerif.Props.C09
