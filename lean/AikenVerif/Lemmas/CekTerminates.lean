import AikenVerif.Lemmas.CekThreshold
/-!
Termination of the budgeted machine.  With a strictly positive CPU price on every machine step the
run of `machine.rs` halts for EVERY term, budget and slippage: the measure

  `mu a = cpu budget left · (slippage + 1) + (slippage − steps counted but not yet spent)`

strictly decreases on every `compute` transition (either one more step is counted, or the batch is
spent and the budget drops by at least the price of the step just counted), never increases on a
`return` transition (builtin prices are non-negative), and between two `compute` transitions the
context only shrinks.
-/
namespace AikenVerif
open Gen

/-- prices are non-negative and every machine step costs at least one CPU unit (true of every
ledger cost model; checked on the cost models the real evaluator is run with by `c10-eval`) -/
structure PosCosts (cm : CostModel) (sem : Sem) : Prop where
  nonneg : NonnegCosts cm sem
  stepPos : ∀ k : StepKind, k ≠ .startUp → 1 ≤ (stepCostOf cm k).cpu

/-- the termination measure of the accounting state -/
def mu (S : Nat) (a : Acct) : Nat := a.budget.cpu.toNat * (S + 1) + (S - a.counts.getD 9 0)

/-- `compute` states come first; a `return` state is ranked by its context -/
def rank : State → Nat
  | .compute _ _ _ => 0
  | .ret ctx _ => ctx.length + 1

theorem mu_le_of (S : Nat) (a a' : Acct) (hc : a'.counts = a.counts) (hb : a'.budget.cpu ≤ a.budget.cpu) :
    mu S a' ≤ mu S a := by
  unfold mu
  rw [hc]
  have : a'.budget.cpu.toNat ≤ a.budget.cpu.toNat := by omega
  have := Nat.mul_le_mul_right (S + 1) this
  omega

theorem pendingFrom_cpu_ge (cm : CostModel) (sem : Sem) (hn : NonnegCosts cm sem) (c : List Nat) :
    ∀ n i j, i ≤ j → j < i + n →
      (kindCost cm j).cpu * ((c.getD j 0 : Nat) : Int) ≤ (pendingFrom cm c n i).cpu := by
  intro n
  induction n with
  | zero => intro i j h1 h2; omega
  | succ n ih =>
    intro i j h1 h2
    have hrest := pendingFrom_nonneg cm sem hn c n (i + 1)
    have hhead := Int.mul_nonneg (hn.step i).2 (Int.natCast_nonneg (c.getD i 0))
    simp only [pendingFrom, ExBudget.add, ExBudget.scale, ExBudget.le, ExBudget.zero] at *
    by_cases hj : j = i
    · subst hj; omega
    · have := ih (i + 1) j (by omega) (by omega)
      omega

theorem stepAndMaybeSpend_mu (cfg : Config) (hp : PosCosts cfg.costs cfg.sem) (a a' : Acct) (k : StepKind)
    (hk : k ≠ .startUp) (hl : a.counts.length = 10) (h : stepAndMaybeSpend cfg a k = .ok a') :
    a'.counts.length = 10 ∧ mu cfg.slippage a' < mu cfg.slippage a := by
  have ht : k.tag < 9 := tag_lt k hk
  unfold stepAndMaybeSpend at h
  simp only at h
  split at h
  · -- the batch is spent
    have hlen : ({ a with counts := (a.counts.modify k.tag (· + 1)).modify (a.counts.length - 1) (· + 1) } : Acct).counts.length = 10 := by
      simp [hl]
    obtain ⟨hb, hl', hz⟩ := spendUnbudgeted_ok cfg.costs _ a' hlen h
    have hnn := spendUnbudgeted_nonneg cfg.costs _ a' hlen h
    refine ⟨hl', ?_⟩
    have hpa := pending_after_count cfg.costs a k hk hl
    have hp0 := pendingFrom_nonneg cfg.costs cfg.sem hp.nonneg a.counts 9 0
    have hpos := hp.stepPos k hk
    simp only [eff, pending, ExBudget.sub] at hb
    rw [hpa] at hb
    simp only [pending, ExBudget.add, ExBudget.le, ExBudget.zero] at hb hp0
    have hcpu : a'.budget.cpu = a.budget.cpu - ((pendingFrom cfg.costs a.counts 9 0).cpu + (stepCostOf cfg.costs k).cpu) := by
      rw [hb]
    have hx : a'.budget.cpu.toNat + 1 ≤ a.budget.cpu.toNat := by
      have := hnn.2
      omega
    unfold mu
    rw [hz 9]
    have h1 := Nat.mul_le_mul_right (cfg.slippage + 1) hx
    rw [Nat.add_mul] at h1
    omega
  · -- one more step counted
    rename_i hns
    cases h
    refine ⟨by simp [hl], ?_⟩
    have hcnt : ((a.counts.modify k.tag (· + 1)).modify (a.counts.length - 1) (· + 1)).getD 9 0 = a.counts.getD 9 0 + 1 := by
      rw [getD_modify]
      have h1 : (9 = a.counts.length - 1 ∧ a.counts.length - 1 < (a.counts.modify k.tag (· + 1)).length) := by
        simp [hl]
      simp only [h1, and_self, if_true]
      rw [getD_modify]
      have h2 : ¬ (a.counts.length - 1 = k.tag ∧ k.tag < a.counts.length) := by omega
      rw [if_neg h2]
    have hlast : a.counts.length - 1 = 9 := by omega
    rw [hlast] at hns
    rw [hlast] at hcnt
    unfold mu
    simp only
    rw [hlast, hcnt]
    rw [hcnt] at hns
    omega

theorem chargeStep_mu (cfg : Config) (hp : PosCosts cfg.costs cfg.sem) (a a' : Acct) (t : NTerm)
    (hl : a.counts.length = 10) (h : chargeStep cfg a (termKind t) = .ok a') (ht : t ≠ .error) :
    a'.counts.length = 10 ∧ mu cfg.slippage a' < mu cfg.slippage a := by
  cases hk : termKind t with
  | none => cases t <;> simp [termKind, termSteps] at hk; exact absurd rfl ht
  | some k =>
    rw [hk] at h
    exact stepAndMaybeSpend_mu cfg hp a a' k (termKind_ne_startUp t k hk) hl h

theorem evalBuiltinApp_mu (cfg : Config) (hp : PosCosts cfg.costs cfg.sem) (a a' : Acct) (b : Builtin)
    (args : List Value) (v : Value) (h : evalBuiltinApp cfg a b args = .ok (a', v)) :
    a'.counts = a.counts ∧ mu cfg.slippage a' ≤ mu cfg.slippage a := by
  unfold evalBuiltinApp at h
  cases hc : builtinCost cfg.costs cfg.sem b args with
  | ok c =>
    rw [hc] at h
    simp only [Outcome.ofRes, Outcome.bind_ok'] at h
    cases hs : spendBudget a c with
    | ok a1 =>
      rw [hs] at h
      simp only [Outcome.bind_ok'] at h
      cases hcall : callBuiltin cfg.sem b args with
      | ok v' =>
        rw [hcall] at h
        simp only [Outcome.bind_ok', Outcome.pure_eq] at h
        cases h
        obtain ⟨h1, h2, _⟩ := spendBudget_ok a a' c hs
        refine ⟨h2, mu_le_of _ _ _ h2 ?_⟩
        have := (hp.nonneg.builtin b args c hc).2
        simp only [h1, ExBudget.sub, ExBudget.zero] at this ⊢
        omega
      | err => rw [hcall] at h; cases h
      | panic => rw [hcall] at h; cases h
      | unmodelled => rw [hcall] at h; cases h
    | fail => rw [hs] at h; cases h
    | oob => rw [hs] at h; cases h
    | panic => rw [hs] at h; cases h
    | unmodelled => rw [hs] at h; cases h
  | err => rw [hc] at h; cases h
  | panic => rw [hc] at h; cases h
  | unmodelled => rw [hc] at h; cases h

/-- what a transition must achieve: the counter array keeps its shape and the pair
(`mu`, `rank`) decreases lexicographically -/
def Decreases (S : Nat) (a : Acct) (s : State) (a' : Acct) (s' : State) : Prop :=
  a'.counts.length = 10 ∧ (mu S a' < mu S a ∨ (mu S a' ≤ mu S a ∧ rank s' < rank s))

theorem ofOutcome_next {o : Outcome (Acct × State)} {a' : Acct} {s' : State}
    (h : StepResult.ofOutcome o = .next a' s') : o = .ok (a', s') := by
  cases o with
  | ok p => obtain ⟨a, s⟩ := p; simp only [StepResult.ofOutcome] at h; cases h; rfl
  | fail => cases h
  | oob => cases h
  | panic => cases h
  | unmodelled => cases h

theorem bind_eq_ok {α β} {x : Outcome α} {f : α → Outcome β} {r : β} (h : (x >>= f) = .ok r) :
    ∃ a, x = .ok a ∧ f a = .ok r := by
  cases x with
  | ok a => exact ⟨a, rfl, h⟩
  | fail => cases h
  | oob => cases h
  | panic => cases h
  | unmodelled => cases h

theorem applyEvaluate_dec (cfg : Config) (hp : PosCosts cfg.costs cfg.sem) (a a' : Acct) (fr : Frame) (ctx : Ctx)
    (fn arg v : Value) (s' : State) (hl : a.counts.length = 10)
    (h : applyEvaluate cfg a ctx fn arg = .ok (a', s')) :
    Decreases cfg.slippage a (.ret (fr :: ctx) v) a' s' := by
  cases fn with
  | lam _ body env =>
    simp only [applyEvaluate] at h
    cases h
    exact ⟨hl, Or.inr ⟨Nat.le_refl _, by simp [rank]⟩⟩
  | builtin b forces args =>
    simp only [applyEvaluate] at h
    split at h
    · split at h
      · obtain ⟨p, he, hr⟩ := bind_eq_ok h
        obtain ⟨a1, r⟩ := p
        simp only [Outcome.pure_eq] at hr
        cases hr
        obtain ⟨hc, hm⟩ := evalBuiltinApp_mu cfg hp a a' b _ r he
        exact ⟨by rw [hc]; exact hl, Or.inr ⟨hm, by simp [rank]⟩⟩
      · cases h
        exact ⟨hl, Or.inr ⟨Nat.le_refl _, by simp [rank]⟩⟩
    · cases h
  | con _ => simp [applyEvaluate] at h
  | delay _ _ => simp [applyEvaluate] at h
  | constr _ _ => simp [applyEvaluate] at h

theorem forceEvaluate_dec (cfg : Config) (hp : PosCosts cfg.costs cfg.sem) (a a' : Acct) (ctx : Ctx)
    (v : Value) (s' : State) (hl : a.counts.length = 10)
    (h : forceEvaluate cfg a ctx v = .ok (a', s')) :
    Decreases cfg.slippage a (.ret (.force :: ctx) v) a' s' := by
  cases v with
  | delay body env =>
    simp only [forceEvaluate] at h
    cases h
    exact ⟨hl, Or.inr ⟨Nat.le_refl _, by simp [rank]⟩⟩
  | builtin b forces args =>
    simp only [forceEvaluate] at h
    split at h
    · split at h
      · obtain ⟨p, he, hr⟩ := bind_eq_ok h
        obtain ⟨a1, r⟩ := p
        simp only [Outcome.pure_eq] at hr
        cases hr
        obtain ⟨hc, hm⟩ := evalBuiltinApp_mu cfg hp a a' b _ r he
        exact ⟨by rw [hc]; exact hl, Or.inr ⟨hm, by simp [rank]⟩⟩
      · cases h
        exact ⟨hl, Or.inr ⟨Nat.le_refl _, by simp [rank]⟩⟩
    · cases h
  | con _ => simp [forceEvaluate] at h
  | lam _ _ _ => simp [forceEvaluate] at h
  | constr _ _ => simp [forceEvaluate] at h

/-- every transition that continues the run decreases the measure -/
theorem step_decreases (cfg : Config) (hp : PosCosts cfg.costs cfg.sem) (a a' : Acct) (s s' : State)
    (hl : a.counts.length = 10) (h : step cfg a s = .next a' s') :
    Decreases cfg.slippage a s a' s' := by
  cases s with
  | compute ctx env t =>
    simp only [step] at h
    have h := ofOutcome_next h
    -- every arm is `chargeStep` followed by a cost-free action
    have key : ∀ a1, chargeStep cfg a (termKind t) = .ok a1 → t ≠ .error → a' = a1 →
        Decreases cfg.slippage a (.compute ctx env t) a' s' := by
      intro a1 hc hne hEq
      subst hEq
      obtain ⟨h1, h2⟩ := chargeStep_mu cfg hp a a' t hl hc hne
      exact ⟨h1, Or.inl h2⟩
    cases t with
    | var n =>
      simp only [computeStep] at h
      change (chargeStep cfg a (termKind (.var n)) >>= _) = _ at h
      obtain ⟨a1, hc, hr⟩ := bind_eq_ok h
      obtain ⟨v, _, hr⟩ := bind_eq_ok hr
      simp only [Outcome.pure_eq] at hr
      cases hr
      exact key a' hc (by simp) rfl
    | delay body =>
      simp only [computeStep] at h
      change (chargeStep cfg a (termKind (.delay body)) >>= _) = _ at h
      obtain ⟨a1, hc, hr⟩ := bind_eq_ok h
      simp only [Outcome.pure_eq] at hr
      cases hr
      exact key a' hc (by simp) rfl
    | lam n body =>
      simp only [computeStep] at h
      change (chargeStep cfg a (termKind (.lam n body)) >>= _) = _ at h
      obtain ⟨a1, hc, hr⟩ := bind_eq_ok h
      simp only [Outcome.pure_eq] at hr
      cases hr
      exact key a' hc (by simp) rfl
    | app f x =>
      simp only [computeStep] at h
      change (chargeStep cfg a (termKind (.app f x)) >>= _) = _ at h
      obtain ⟨a1, hc, hr⟩ := bind_eq_ok h
      simp only [Outcome.pure_eq] at hr
      cases hr
      exact key a' hc (by simp) rfl
    | const c =>
      simp only [computeStep] at h
      change (chargeStep cfg a (termKind (.const c)) >>= _) = _ at h
      obtain ⟨a1, hc, hr⟩ := bind_eq_ok h
      simp only [Outcome.pure_eq] at hr
      cases hr
      exact key a' hc (by simp) rfl
    | force body =>
      simp only [computeStep] at h
      change (chargeStep cfg a (termKind (.force body)) >>= _) = _ at h
      obtain ⟨a1, hc, hr⟩ := bind_eq_ok h
      simp only [Outcome.pure_eq] at hr
      cases hr
      exact key a' hc (by simp) rfl
    | error =>
      simp only [computeStep] at h
      change (chargeStep cfg a (termKind .error) >>= _) = _ at h
      obtain ⟨a1, _, hr⟩ := bind_eq_ok h
      cases hr
    | builtin b =>
      simp only [computeStep] at h
      change (chargeStep cfg a (termKind (.builtin b)) >>= _) = _ at h
      obtain ⟨a1, hc, hr⟩ := bind_eq_ok h
      simp only [Outcome.pure_eq] at hr
      cases hr
      exact key a' hc (by simp) rfl
    | constr tag fields =>
      simp only [computeStep] at h
      change (chargeStep cfg a (termKind (.constr tag fields)) >>= _) = _ at h
      obtain ⟨a1, hc, hr⟩ := bind_eq_ok h
      cases fields with
      | nil =>
        simp only [Outcome.pure_eq] at hr
        cases hr
        exact key a' hc (by simp) rfl
      | cons f fs =>
        simp only [Outcome.pure_eq] at hr
        cases hr
        exact key a' hc (by simp) rfl
    | case scrut branches =>
      simp only [computeStep] at h
      change (chargeStep cfg a (termKind (.case scrut branches)) >>= _) = _ at h
      obtain ⟨a1, hc, hr⟩ := bind_eq_ok h
      simp only [Outcome.pure_eq] at hr
      cases hr
      exact key a' hc (by simp) rfl
  | ret ctx v =>
    cases ctx with
    | nil =>
      simp only [step] at h
      split at h <;> cases h
    | cons fr ctx =>
      simp only [step] at h
      have h := ofOutcome_next h
      have same : ∀ (s1 : State), a' = a → rank s1 < rank (.ret (fr :: ctx) v) → s' = s1 →
          Decreases cfg.slippage a (.ret (fr :: ctx) v) a' s' := by
        intro s1 ha hr hs
        subst ha; subst hs
        exact ⟨hl, Or.inr ⟨Nat.le_refl _, hr⟩⟩
      cases fr with
      | force => exact forceEvaluate_dec cfg hp a a' ctx v s' hl h
      | awaitArg fn => exact applyEvaluate_dec cfg hp a a' _ ctx fn v v s' hl h
      | awaitFunValue arg => exact applyEvaluate_dec cfg hp a a' _ ctx v arg v s' hl h
      | awaitFunTerm argEnv arg =>
        simp only [returnStep] at h
        cases h
        exact same _ rfl (by simp [rank]) rfl
      | constr env tag todo done =>
        cases todo with
        | nil =>
          simp only [returnStep] at h
          cases h
          exact same _ rfl (by simp [rank]) rfl
        | cons nxt rest =>
          simp only [returnStep] at h
          cases h
          exact same _ rfl (by simp [rank]) rfl
      | cases env branches =>
        simp only [returnStep] at h
        cases v with
        | constr tag fields =>
          dsimp only at h
          cases hb : branches[tag]? with
          | none => rw [hb] at h; cases h
          | some t =>
            rw [hb] at h
            cases h
            exact same _ rfl (by simp [rank]) rfl
        | con c =>
          dsimp only at h
          split at h
          · cases h
          · split at h
            · cases h
            · split at h
              · cases h
              · split at h
                · cases h
                  exact same _ rfl (by simp [rank]) rfl
                · cases h
        | delay _ _ => cases h
        | lam _ _ _ => cases h
        | builtin _ _ _ => cases h

/-- the run from any state halts: some amount of fuel is enough -/
theorem runFrom_halts (cfg : Config) (hp : PosCosts cfg.costs cfg.sem) :
    ∀ (m r : Nat) (a : Acct) (s : State), mu cfg.slippage a = m → a.counts.length = 10 → rank s = r →
      ∃ fuel, runFrom cfg fuel a s ≠ .outOfFuel := by
  intro m
  induction m using Nat.strongRecOn with
  | ind m ihm =>
    intro r
    induction r using Nat.strongRecOn with
    | ind r ihr =>
      intro a s hm hl hr
      cases hst : step cfg a s with
      | next a' s' =>
        obtain ⟨hl', hd⟩ := step_decreases cfg hp a a' s s' hl hst
        have : ∃ fuel, runFrom cfg fuel a' s' ≠ .outOfFuel := by
          rcases hd with hlt | ⟨hle, hrk⟩
          · exact ihm (mu cfg.slippage a') (by omega) (rank s') a' s' rfl hl' rfl
          · rcases Nat.lt_or_eq_of_le hle with hlt | heq
            · exact ihm (mu cfg.slippage a') (by omega) (rank s') a' s' rfl hl' rfl
            · exact ihr (rank s') (by omega) a' s' (by omega) hl' rfl
        obtain ⟨fuel, hf⟩ := this
        exact ⟨fuel + 1, by simp only [runFrom, hst]; exact hf⟩
      | done a' t => exact ⟨1, by simp [runFrom, hst]⟩
      | fail => exact ⟨1, by simp [runFrom, hst]⟩
      | oob => exact ⟨1, by simp [runFrom, hst]⟩
      | panic => exact ⟨1, by simp [runFrom, hst]⟩
      | unmodelled => exact ⟨1, by simp [runFrom, hst]⟩

theorem mem_allKinds (k : StepKind) : k ∈ allKinds := by cases k <;> simp [allKinds]

theorem kindOK_sound (cm : CostModel) (k : StepKind) (h : kindOK cm k = true) :
    0 ≤ (stepCostOf cm k).mem ∧ 0 ≤ (stepCostOf cm k).cpu ∧ (k ≠ .startUp → 1 ≤ (stepCostOf cm k).cpu) := by
  unfold kindOK at h
  unfold stepCostOf
  cases hc : cm.machineCost k with
  | none => rw [hc] at h; cases h
  | some c =>
    rw [hc] at h
    simp only [Bool.and_eq_true, Bool.or_eq_true, decide_eq_true_eq, beq_iff_eq] at h
    obtain ⟨⟨h1, h2⟩, h3⟩ := h
    refine ⟨h1, h2, ?_⟩
    intro hk
    rcases h3 with h3 | h3
    · exact absurd h3 hk
    · exact h3

theorem stepsPositive_sound (cm : CostModel) (h : stepsPositive cm = true) :
    (∀ k : StepKind, k ≠ .startUp → 1 ≤ (stepCostOf cm k).cpu) ∧ (∀ i, ExBudget.le .zero (kindCost cm i)) := by
  have hall : ∀ k, kindOK cm k = true := fun k => List.all_eq_true.mp h k (mem_allKinds k)
  constructor
  · intro k hk; exact (kindOK_sound cm k (hall k)).2.2 hk
  · intro i
    unfold kindCost
    cases hk : StepKind.ofTag i with
    | none => simp [ExBudget.le, ExBudget.zero]
    | some k =>
      have := kindOK_sound cm k (hall k)
      simp only [stepCostOf] at this
      simp only [ExBudget.le, ExBudget.zero]
      exact ⟨this.1, this.2.1⟩

/-- `PosCosts` from the decidable check on the step prices and non-negative builtin prices -/
theorem posCosts_of (cm : CostModel) (sem : Sem) (h : stepsPositive cm = true)
    (hb : ∀ b args c, builtinCost cm sem b args = .ok c → ExBudget.le .zero c) : PosCosts cm sem :=
  ⟨⟨(stepsPositive_sound cm h).2, hb⟩, (stepsPositive_sound cm h).1⟩

end AikenVerif
