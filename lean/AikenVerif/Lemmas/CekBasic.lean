import AikenVerif.Model.Spec
/-! Helper lemmas relating the impl model's representation choices to the specification's. -/
namespace AikenVerif
open Gen

theorem sig_eq (b : Builtin) : Spec.sig b = Spec.mkSig b.forceCount b.arity := by
  cases b <;> rfl

theorem arity_pos (b : Builtin) : 0 < b.arity := by
  cases b <;> decide

/-- `env[len - i]` with the `checked_sub` guard is "the i-th most recent binding" -/
theorem lookupVar_eq (env : List Value) (n : NamedDeBruijn) :
    lookupVar env n = (match Spec.lookup env n.index with | some v => .ok v | none => .fail) := by
  unfold lookupVar Spec.lookup
  by_cases h0 : n.index = 0
  · simp [h0]
  · by_cases hle : n.index ≤ env.length
    · simp only [hle, if_true, h0, if_false]
      have : env.reverse[n.index - 1]? = env[env.length - n.index]? := by
        rw [List.getElem?_reverse (by omega)]
        congr 1; omega
      rw [this]
      cases env[env.length - n.index]? <;> rfl
    · simp only [hle, if_false, h0]
      have : env.reverse[n.index - 1]? = none := by
        apply List.getElem?_eq_none; simp; omega
      rw [this]

theorem transferArgStack_eq (fields : List Value) (ctx : Ctx) :
    transferArgStack fields ctx = Spec.pushArgs fields ctx := by
  unfold transferArgStack Spec.pushArgs
  induction fields generalizing ctx with
  | nil => rfl
  | cons v vs ih =>
    simp only [List.reverse_cons, List.foldl_append, List.foldl_cons, List.foldl_nil, List.map_cons,
      List.cons_append]
    rw [ih]

mutual
  theorem substEnv_eq (d : Nat) (env : List NTerm) (t : NTerm) :
      substEnv d env t = Spec.subst d env t := by
    cases t with
    | var n =>
      unfold substEnv Spec.subst
      by_cases h : d ≥ n.index
      · have : n.index ≤ d := h
        simp [h]
      · have h' : ¬ n.index ≤ d := h
        simp only [h, if_false, h']
        by_cases hk : n.index - d ≤ env.length
        · simp only [hk, if_true]
          have : env.reverse[n.index - d - 1]? = env[env.length - (n.index - d)]? := by
            rw [List.getElem?_reverse (by omega)]
            congr 1; omega
          rw [this]
          cases env[env.length - (n.index - d)]? <;> rfl
        · simp only [hk, if_false]
          have : env.reverse[n.index - d - 1]? = none := by
            apply List.getElem?_eq_none; simp; omega
          rw [this]
    | lam n body => simp only [substEnv, Spec.subst]; rw [substEnv_eq]
    | app f a => simp only [substEnv, Spec.subst]; rw [substEnv_eq, substEnv_eq]
    | delay t => simp only [substEnv, Spec.subst]; rw [substEnv_eq]
    | force t => simp only [substEnv, Spec.subst]; rw [substEnv_eq]
    | constr tag fs => simp only [substEnv, Spec.subst]; rw [substEnvList_eq]
    | case s bs => simp only [substEnv, Spec.subst]; rw [substEnv_eq, substEnvList_eq]
    | error => simp [substEnv, Spec.subst]
    | builtin b => simp [substEnv, Spec.subst]
    | const c => simp [substEnv, Spec.subst]
  theorem substEnvList_eq (d : Nat) (env : List NTerm) (ts : List NTerm) :
      substEnv.substEnvList d env ts = Spec.subst.substList d env ts := by
    cases ts with
    | nil => simp [substEnv.substEnvList, Spec.subst.substList]
    | cons t ts =>
      simp only [substEnv.substEnvList, Spec.subst.substList]
      rw [substEnv_eq, substEnvList_eq]
end

mutual
  theorem valueAsTerm_eq (v : Value) : valueAsTerm v = Spec.discharge v := by
    cases v with
    | con c => simp [valueAsTerm, Spec.discharge]
    | delay body env =>
      simp only [valueAsTerm, Spec.discharge, substEnv]
      rw [valueAsTermList_eq, substEnv_eq]
    | lam n body env =>
      simp only [valueAsTerm, Spec.discharge, substEnv]
      rw [valueAsTermList_eq, substEnv_eq]
    | builtin b f args =>
      simp only [valueAsTerm, Spec.discharge]
      rw [valueAsTermList_eq]
    | constr tag fs =>
      simp only [valueAsTerm, Spec.discharge]
      rw [valueAsTermList_eq]
  theorem valueAsTermList_eq (vs : List Value) : valueAsTermList vs = Spec.dischargeList vs := by
    cases vs with
    | nil => simp [valueAsTermList, Spec.dischargeList]
    | cons v vs =>
      simp only [valueAsTermList, Spec.dischargeList]
      rw [valueAsTerm_eq, valueAsTermList_eq]
end

end AikenVerif
