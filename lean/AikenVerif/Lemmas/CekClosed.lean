import AikenVerif.Lemmas.CekRefine
/-! Closedness: evaluating a closed term keeps every closure closed, and the term read back at the
end has no free variable (captured variables are substituted under every term former). -/
namespace AikenVerif
open Gen

mutual
  /-- every variable refers to one of the `d` enclosing binders (indices are 1-based) -/
  def Term.closedAt (d : Nat) : NTerm → Bool
    | .var n => decide (1 ≤ n.index) && decide (n.index ≤ d)
    | .lam _ b => Term.closedAt (d + 1) b
    | .app f a => Term.closedAt d f && Term.closedAt d a
    | .delay t => Term.closedAt d t
    | .force t => Term.closedAt d t
    | .constr _ fs => Term.closedAtList d fs
    | .case s bs => Term.closedAt d s && Term.closedAtList d bs
    | .error => true
    | .builtin _ => true
    | .const _ => true
  def Term.closedAtList (d : Nat) : List NTerm → Bool
    | [] => true
    | t :: ts => Term.closedAt d t && Term.closedAtList d ts
end

mutual
  def Value.closed : Value → Bool
    | .con _ => true
    | .delay body env => Term.closedAt env.length body && Value.closedList env
    | .lam _ body env => Term.closedAt (env.length + 1) body && Value.closedList env
    | .builtin _ _ args => Value.closedList args
    | .constr _ fs => Value.closedList fs
  def Value.closedList : List Value → Bool
    | [] => true
    | v :: vs => v.closed && Value.closedList vs
end

def Frame.closed : Frame → Bool
  | .awaitArg fn => fn.closed
  | .awaitFunTerm env t => Value.closedList env && Term.closedAt env.length t
  | .awaitFunValue v => v.closed
  | .force => true
  | .constr env _ todo done => Value.closedList env && Term.closedAtList env.length todo && Value.closedList done
  | .cases env bs => Value.closedList env && Term.closedAtList env.length bs

def State.closed : State → Bool
  | .compute ctx env t => ctx.all Frame.closed && Value.closedList env && Term.closedAt env.length t
  | .ret ctx v => ctx.all Frame.closed && v.closed

theorem closedList_iff (vs : List Value) : Value.closedList vs = true ↔ ∀ v ∈ vs, v.closed = true := by
  induction vs with
  | nil => simp [Value.closedList]
  | cons v vs ih => simp [Value.closedList, ih]

theorem closedList_append (xs ys : List Value) :
    Value.closedList (xs ++ ys) = (Value.closedList xs && Value.closedList ys) := by
  induction xs with
  | nil => simp [Value.closedList]
  | cons x xs ih => simp [Value.closedList, ih, Bool.and_assoc]

theorem closedAtList_iff (d : Nat) (ts : List NTerm) :
    Term.closedAtList d ts = true ↔ ∀ t ∈ ts, Term.closedAt d t = true := by
  induction ts with
  | nil => simp [Term.closedAtList]
  | cons t ts ih => simp [Term.closedAtList, ih]

mutual
  theorem closedAt_mono (d e : Nat) (h : d ≤ e) (t : NTerm) (ht : Term.closedAt d t = true) :
      Term.closedAt e t = true := by
    cases t with
    | var n => simp only [Term.closedAt, Bool.and_eq_true, decide_eq_true_eq] at ht ⊢; omega
    | lam n b => simp only [Term.closedAt] at ht ⊢; exact closedAt_mono (d + 1) (e + 1) (by omega) b ht
    | app f a =>
      simp only [Term.closedAt, Bool.and_eq_true] at ht ⊢
      exact ⟨closedAt_mono d e h f ht.1, closedAt_mono d e h a ht.2⟩
    | delay t => simp only [Term.closedAt] at ht ⊢; exact closedAt_mono d e h t ht
    | force t => simp only [Term.closedAt] at ht ⊢; exact closedAt_mono d e h t ht
    | constr tag fs => simp only [Term.closedAt] at ht ⊢; exact closedAtList_mono d e h fs ht
    | case s bs =>
      simp only [Term.closedAt, Bool.and_eq_true] at ht ⊢
      exact ⟨closedAt_mono d e h s ht.1, closedAtList_mono d e h bs ht.2⟩
    | error => rfl
    | builtin _ => rfl
    | const _ => rfl
  theorem closedAtList_mono (d e : Nat) (h : d ≤ e) (ts : List NTerm) (ht : Term.closedAtList d ts = true) :
      Term.closedAtList e ts = true := by
    cases ts with
    | nil => rfl
    | cons t ts =>
      simp only [Term.closedAtList, Bool.and_eq_true] at ht ⊢
      exact ⟨closedAt_mono d e h t ht.1, closedAtList_mono d e h ts ht.2⟩
end

mutual
  /-- substituting closed terms for the variables beyond the `d` local binders closes the term -/
  theorem substEnv_closed (d : Nat) (env : List NTerm) (henv : ∀ t ∈ env, Term.closedAt 0 t = true)
      (t : NTerm) (ht : Term.closedAt (d + env.length) t = true) : Term.closedAt d (substEnv d env t) = true := by
    cases t with
    | var n =>
      simp only [Term.closedAt, Bool.and_eq_true, decide_eq_true_eq] at ht
      unfold substEnv
      split
      · rename_i h
        simp only [Term.closedAt, Bool.and_eq_true, decide_eq_true_eq]
        exact ⟨ht.1, h⟩
      · rename_i h
        have hk : n.index - d ≤ env.length := by omega
        simp only [hk, if_true]
        have hlt : env.length - (n.index - d) < env.length := by omega
        rw [List.getElem?_eq_getElem hlt]
        exact closedAt_mono 0 d (by omega) _ (henv _ (List.getElem_mem hlt))
    | lam n b =>
      simp only [substEnv, Term.closedAt] at ht ⊢
      exact substEnv_closed (d + 1) env henv b (by rw [show d + 1 + env.length = d + env.length + 1 by omega]; exact ht)
    | app f a =>
      simp only [substEnv, Term.closedAt, Bool.and_eq_true] at ht ⊢
      exact ⟨substEnv_closed d env henv f ht.1, substEnv_closed d env henv a ht.2⟩
    | delay t => simp only [substEnv, Term.closedAt] at ht ⊢; exact substEnv_closed d env henv t ht
    | force t => simp only [substEnv, Term.closedAt] at ht ⊢; exact substEnv_closed d env henv t ht
    | constr tag fs => simp only [substEnv, Term.closedAt] at ht ⊢; exact substEnvList_closed d env henv fs ht
    | case s bs =>
      simp only [substEnv, Term.closedAt, Bool.and_eq_true] at ht ⊢
      exact ⟨substEnv_closed d env henv s ht.1, substEnvList_closed d env henv bs ht.2⟩
    | error => simp [substEnv, Term.closedAt]
    | builtin _ => simp [substEnv, Term.closedAt]
    | const _ => simp [substEnv, Term.closedAt]
  theorem substEnvList_closed (d : Nat) (env : List NTerm) (henv : ∀ t ∈ env, Term.closedAt 0 t = true)
      (ts : List NTerm) (ht : Term.closedAtList (d + env.length) ts = true) :
      Term.closedAtList d (substEnv.substEnvList d env ts) = true := by
    cases ts with
    | nil => rfl
    | cons t ts =>
      simp only [substEnv.substEnvList, Term.closedAtList, Bool.and_eq_true] at ht ⊢
      exact ⟨substEnv_closed d env henv t ht.1, substEnvList_closed d env henv ts ht.2⟩
end

theorem valueAsTermList_length (vs : List Value) : (valueAsTermList vs).length = vs.length := by
  induction vs with
  | nil => rfl
  | cons v vs ih => simp [valueAsTermList, ih]

theorem forceN_closed (n : Nat) (t : NTerm) (h : Term.closedAt 0 t = true) : Term.closedAt 0 (forceN n t) = true := by
  induction n generalizing t with
  | zero => exact h
  | succ n ih => simp only [forceN]; exact ih (.force t) (by simpa [Term.closedAt] using h)

theorem applyAll_closed (t : NTerm) (as : List NTerm) (ht : Term.closedAt 0 t = true)
    (has : ∀ a ∈ as, Term.closedAt 0 a = true) : Term.closedAt 0 (applyAll t as) = true := by
  induction as generalizing t with
  | nil => exact ht
  | cons a as ih =>
    simp only [applyAll]
    apply ih
    · simp [Term.closedAt, ht, has a (by simp)]
    · intro b hb; exact has b (by simp [hb])

mutual
  /-- **discharge closes**: a closed value reads back as a closed term -/
  theorem valueAsTerm_closed (v : Value) (hv : v.closed = true) : Term.closedAt 0 (valueAsTerm v) = true := by
    cases v with
    | con c => rfl
    | delay body env =>
      simp only [Value.closed, Bool.and_eq_true] at hv
      simp only [valueAsTerm, substEnv, Term.closedAt]
      apply substEnv_closed 0 _ (valueAsTermList_closed env hv.2)
      rw [valueAsTermList_length]; simpa using hv.1
    | lam n body env =>
      simp only [Value.closed, Bool.and_eq_true] at hv
      simp only [valueAsTerm, substEnv, Term.closedAt]
      apply substEnv_closed 1 _ (valueAsTermList_closed env hv.2)
      rw [valueAsTermList_length, Nat.add_comm]; exact hv.1
    | builtin b forces args =>
      simp only [Value.closed] at hv
      simp only [valueAsTerm]
      exact applyAll_closed _ _ (forceN_closed _ _ rfl) (valueAsTermList_closed args hv)
    | constr tag fs =>
      simp only [Value.closed] at hv
      simp only [valueAsTerm, Term.closedAt]
      exact (closedAtList_iff 0 _).2 (valueAsTermList_closed fs hv)
  theorem valueAsTermList_closed (vs : List Value) (hv : Value.closedList vs = true) :
      ∀ t ∈ valueAsTermList vs, Term.closedAt 0 t = true := by
    cases vs with
    | nil => intro t ht; simp [valueAsTermList] at ht
    | cons v vs =>
      simp only [Value.closedList, Bool.and_eq_true] at hv
      intro t ht
      simp only [valueAsTermList, List.mem_cons] at ht
      rcases ht with rfl | ht
      · exact valueAsTerm_closed v hv.1
      · exact valueAsTermList_closed vs hv.2 t ht
end

end AikenVerif

namespace AikenVerif
open Gen

theorem closed_of_getElem? {vs : List Value} {i : Nat} {v : Value} (h : Value.closedList vs = true)
    (hv : vs[i]? = some v) : v.closed = true :=
  (closedList_iff vs).1 h v (List.mem_of_getElem? hv)

theorem callBuiltin_closed (sem : Sem) (b : Builtin) (args : List Value) (v : Value)
    (ha : Value.closedList args = true) (h : callBuiltin sem b args = .ok v) : v.closed = true := by
  unfold callBuiltin at h
  cases hc : callBuiltinCore sem b args with
  | ok o =>
    rw [hc] at h
    cases o with
    | con c => simp [Res.bind] at h; subst h; rfl
    | arg i =>
      simp only [Res.bind, getArgB] at h
      cases hi : args[i]? with
      | none => rw [hi] at h; cases h
      | some x => rw [hi] at h; cases h; exact closed_of_getElem? ha hi
  | err => rw [hc] at h; cases h
  | panic => rw [hc] at h; cases h
  | unmodelled => rw [hc] at h; cases h

def StepClosed : StepResult → Prop
  | .next _ s' => s'.closed = true
  | .done _ t => Term.closedAt 0 t = true
  | _ => True

theorem evalBuiltinApp_closed (cfg : Config) (a : Acct) (b : Builtin) (args : List Value)
    (hw : Value.closedList args = true) :
    match evalBuiltinApp cfg a b args with
    | .ok (_, v) => v.closed = true
    | _ => True := by
  unfold evalBuiltinApp
  cases builtinCost cfg.costs cfg.sem b args with
  | ok c =>
    simp only [Outcome.ofRes, Outcome.bind_ok']
    cases spendBudget a c with
    | ok a' =>
      simp only [Outcome.bind_ok']
      cases hcall : callBuiltin cfg.sem b args with
      | ok v => simp only [Outcome.ofRes, Outcome.bind_ok', Outcome.pure_eq]; exact callBuiltin_closed cfg.sem b args v hw hcall
      | err => simp [Outcome.ofRes]
      | panic => simp [Outcome.ofRes]
      | unmodelled => simp [Outcome.ofRes]
    | oob => simp
    | fail => simp
    | panic => simp
    | unmodelled => simp
  | err => simp [Outcome.ofRes]
  | panic => simp [Outcome.ofRes]
  | unmodelled => simp [Outcome.ofRes]

theorem builtinApp_closed (cfg : Config) (a : Acct) (ctx : Ctx) (b : Builtin) (forces : Nat) (args : List Value)
    (hctx : ctx.all Frame.closed = true) (hw : Value.closedList args = true) :
    StepClosed (.ofOutcome
      (if args.length = b.arity then
        (evalBuiltinApp cfg a b args >>= fun (p : Acct × Value) => pure (p.1, State.ret ctx p.2))
       else .ok (a, .ret ctx (.builtin b forces args)))) := by
  by_cases hl : args.length = b.arity
  · simp only [hl, if_true]
    have := evalBuiltinApp_closed cfg a b args hw
    revert this
    cases evalBuiltinApp cfg a b args with
    | ok p =>
      obtain ⟨a', v⟩ := p
      intro hv
      simp only [Outcome.bind_ok', Outcome.pure_eq, StepResult.ofOutcome, StepClosed, State.closed, hctx, hv, Bool.and_self]
    | fail => intro _; simp [StepResult.ofOutcome, StepClosed]
    | oob => intro _; simp [StepResult.ofOutcome, StepClosed]
    | panic => intro _; simp [StepResult.ofOutcome, StepClosed]
    | unmodelled => intro _; simp [StepResult.ofOutcome, StepClosed]
  · simp only [hl, if_false, StepResult.ofOutcome, StepClosed, State.closed, hctx, Value.closed, hw, Bool.and_self]

theorem pushArgs_closed (fields : List Value) (ctx : Ctx) (hf : Value.closedList fields = true)
    (hc : ctx.all Frame.closed = true) : (Spec.pushArgs fields ctx).all Frame.closed = true := by
  unfold Spec.pushArgs
  rw [List.all_append, hc, Bool.and_true, List.all_map, List.all_eq_true]
  intro v hv
  exact (closedList_iff fields).1 hf v hv

theorem caseOnConst_fields_closed (c : Const) (tag : Nat) (fields : List Value) (m : Option Nat)
    (h : caseOnConst c = some (tag, fields, m)) : Value.closedList fields = true := by
  cases c with
  | list t xs => cases xs <;> simp [caseOnConst] at h <;> obtain ⟨_, rfl, _⟩ := h <;> simp [Value.closedList, Value.closed]
  | pair _ _ x y => simp [caseOnConst] at h; obtain ⟨_, rfl, _⟩ := h; simp [Value.closedList, Value.closed]
  | unit => simp [caseOnConst] at h; obtain ⟨_, rfl, _⟩ := h; rfl
  | bool b => cases b <;> simp [caseOnConst] at h <;> obtain ⟨_, rfl, _⟩ := h <;> rfl
  | integer i =>
    simp only [caseOnConst] at h
    split at h
    · cases h
    · simp at h; obtain ⟨_, rfl, _⟩ := h; rfl
  | bytestring _ => simp [caseOnConst] at h
  | string _ => simp [caseOnConst] at h
  | data _ => simp [caseOnConst] at h
  | g1 _ => simp [caseOnConst] at h
  | g2 _ => simp [caseOnConst] at h
  | ml _ => simp [caseOnConst] at h

theorem applyEvaluate_closed (cfg : Config) (a : Acct) (ctx : Ctx) (fn arg : Value)
    (hctx : ctx.all Frame.closed = true) (hfn : fn.closed = true) (harg : arg.closed = true) :
    StepClosed (.ofOutcome (applyEvaluate cfg a ctx fn arg)) := by
  cases fn with
  | lam n body env =>
    simp only [Value.closed, Bool.and_eq_true] at hfn
    simp [applyEvaluate, StepResult.ofOutcome, StepClosed, State.closed, hctx, closedList_append, hfn.1, hfn.2,
      Value.closedList, harg]
  | builtin b forces args =>
    simp only [Value.closed] at hfn
    simp only [applyEvaluate]
    split
    · exact builtinApp_closed cfg a ctx b forces (args ++ [arg]) hctx
        (by simp [closedList_append, hfn, Value.closedList, harg])
    · simp [StepResult.ofOutcome, StepClosed]
  | con c => simp [applyEvaluate, StepResult.ofOutcome, StepClosed]
  | delay _ _ => simp [applyEvaluate, StepResult.ofOutcome, StepClosed]
  | constr _ _ => simp [applyEvaluate, StepResult.ofOutcome, StepClosed]

theorem forceEvaluate_closed (cfg : Config) (a : Acct) (ctx : Ctx) (v : Value)
    (hctx : ctx.all Frame.closed = true) (hv : v.closed = true) :
    StepClosed (.ofOutcome (forceEvaluate cfg a ctx v)) := by
  cases v with
  | delay body env =>
    simp only [Value.closed, Bool.and_eq_true] at hv
    simp [forceEvaluate, StepResult.ofOutcome, StepClosed, State.closed, hctx, hv.1, hv.2]
  | builtin b forces args =>
    simp only [Value.closed] at hv
    simp only [forceEvaluate]
    split
    · exact builtinApp_closed cfg a ctx b (forces + 1) args hctx hv
    · simp [StepResult.ofOutcome, StepClosed]
  | con c => simp [forceEvaluate, StepResult.ofOutcome, StepClosed]
  | lam _ _ _ => simp [forceEvaluate, StepResult.ofOutcome, StepClosed]
  | constr _ _ => simp [forceEvaluate, StepResult.ofOutcome, StepClosed]

theorem charge_then' (cfg : Config) (a : Acct) (k : Option StepKind)
    (f : Acct → Outcome (Acct × State)) (P : StepResult → Prop)
    (hoob : P .oob) (hun : P .unmodelled) (hfail : P .fail) (hpanic : P .panic)
    (hf : ∀ a', P (.ofOutcome (f a'))) :
    P (.ofOutcome (chargeStep cfg a k >>= f)) := by
  cases chargeStep cfg a k with
  | ok a' => exact hf a'
  | oob => exact hoob
  | unmodelled => exact hun
  | fail => exact hfail
  | panic => exact hpanic

theorem step_closed (cfg : Config) (a : Acct) (s : State) (hc : s.closed = true) : StepClosed (step cfg a s) := by
  cases s with
  | compute ctx env t =>
    simp only [State.closed, Bool.and_eq_true] at hc
    obtain ⟨⟨hctx, henv⟩, ht⟩ := hc
    cases t with
    | var n =>
      simp only [step, computeStep]
      apply charge_then' cfg a _ _ StepClosed trivial trivial trivial trivial
      intro a'
      rw [lookupVar_eq]
      cases h : Spec.lookup env n.index with
      | some v =>
        have hv : v.closed = true := by
          unfold Spec.lookup at h
          split at h
          · cases h
          · exact (closedList_iff env).1 henv v (by simpa using List.mem_of_getElem? h)
        simp [StepResult.ofOutcome, StepClosed, State.closed, hctx, hv]
      | none => simp [StepResult.ofOutcome, StepClosed]
    | delay body =>
      simp only [step, computeStep]
      apply charge_then' cfg a _ _ StepClosed trivial trivial trivial trivial
      intro a'
      simp only [Term.closedAt] at ht
      simp [StepResult.ofOutcome, StepClosed, State.closed, hctx, Value.closed, henv, ht]
    | lam n body =>
      simp only [step, computeStep]
      apply charge_then' cfg a _ _ StepClosed trivial trivial trivial trivial
      intro a'
      simp only [Term.closedAt] at ht
      simp [StepResult.ofOutcome, StepClosed, State.closed, hctx, Value.closed, henv, ht]
    | app f x =>
      simp only [step, computeStep]
      apply charge_then' cfg a _ _ StepClosed trivial trivial trivial trivial
      intro a'
      simp only [Term.closedAt, Bool.and_eq_true] at ht
      simp [StepResult.ofOutcome, StepClosed, State.closed, hctx, Frame.closed, henv, ht.1, ht.2]
    | const c =>
      simp only [step, computeStep]
      apply charge_then' cfg a _ _ StepClosed trivial trivial trivial trivial
      intro a'
      simp [StepResult.ofOutcome, StepClosed, State.closed, hctx, Value.closed]
    | force body =>
      simp only [step, computeStep]
      apply charge_then' cfg a _ _ StepClosed trivial trivial trivial trivial
      intro a'
      simp only [Term.closedAt] at ht
      simp [StepResult.ofOutcome, StepClosed, State.closed, hctx, Frame.closed, henv, ht]
    | error =>
      simp only [step, computeStep]
      apply charge_then' cfg a _ _ StepClosed trivial trivial trivial trivial
      intro a'
      simp [StepResult.ofOutcome, StepClosed]
    | builtin b =>
      simp only [step, computeStep]
      apply charge_then' cfg a _ _ StepClosed trivial trivial trivial trivial
      intro a'
      simp [StepResult.ofOutcome, StepClosed, State.closed, hctx, Value.closed, Value.closedList]
    | constr tag fields =>
      simp only [step, computeStep]
      apply charge_then' cfg a _ _ StepClosed trivial trivial trivial trivial
      intro a'
      simp only [Term.closedAt] at ht
      cases fields with
      | nil => simp [StepResult.ofOutcome, StepClosed, State.closed, hctx, Value.closed, Value.closedList]
      | cons m ms =>
        simp only [Term.closedAtList, Bool.and_eq_true] at ht
        simp [StepResult.ofOutcome, StepClosed, State.closed, hctx, Frame.closed, henv, ht.1, ht.2, Value.closedList]
    | case scrut branches =>
      simp only [step, computeStep]
      apply charge_then' cfg a _ _ StepClosed trivial trivial trivial trivial
      intro a'
      simp only [Term.closedAt, Bool.and_eq_true] at ht
      simp [StepResult.ofOutcome, StepClosed, State.closed, hctx, Frame.closed, henv, ht.1, ht.2]
  | ret ctx v =>
    simp only [State.closed, Bool.and_eq_true] at hc
    obtain ⟨hctx, hv⟩ := hc
    cases ctx with
    | nil =>
      simp only [step]
      generalize (if a.counts.getD (a.counts.length - 1) 0 > 0 then spendUnbudgeted cfg.costs a else Outcome.ok a) = fl
      cases fl with
      | ok a' => simp only [StepClosed]; exact valueAsTerm_closed v hv
      | oob => trivial
      | unmodelled => trivial
      | fail => trivial
      | panic => trivial
    | cons fr ctx =>
      simp only [List.all_cons, Bool.and_eq_true] at hctx
      obtain ⟨hfr, hctx⟩ := hctx
      simp only [step, returnStep]
      cases fr with
      | force => exact forceEvaluate_closed cfg a ctx v hctx hv
      | awaitFunTerm argEnv arg =>
        simp only [Frame.closed, Bool.and_eq_true] at hfr
        simp [StepResult.ofOutcome, StepClosed, State.closed, hctx, Frame.closed, hv, hfr.1, hfr.2]
      | awaitArg fn =>
        simp only [Frame.closed] at hfr
        exact applyEvaluate_closed cfg a ctx fn v hctx hfr hv
      | awaitFunValue arg =>
        simp only [Frame.closed] at hfr
        exact applyEvaluate_closed cfg a ctx v arg hctx hv hfr
      | constr env tag todo done =>
        simp only [Frame.closed, Bool.and_eq_true] at hfr
        obtain ⟨⟨henv, htodo⟩, hdone⟩ := hfr
        cases todo with
        | nil =>
          simp [StepResult.ofOutcome, StepClosed, State.closed, hctx, Value.closed, closedList_append, hdone,
            Value.closedList, hv]
        | cons m ms =>
          simp only [Term.closedAtList, Bool.and_eq_true] at htodo
          simp [StepResult.ofOutcome, StepClosed, State.closed, hctx, Frame.closed, henv, htodo.1, htodo.2,
            closedList_append, hdone, Value.closedList, hv]
      | cases env branches =>
        simp only [Frame.closed, Bool.and_eq_true] at hfr
        obtain ⟨henv, hbr⟩ := hfr
        cases v with
        | constr tag fields =>
          simp only [Value.closed] at hv
          dsimp only
          cases hb : branches[tag]? with
          | none => simp [StepResult.ofOutcome, StepClosed]
          | some t =>
            simp only [StepResult.ofOutcome, StepClosed, transferArgStack_eq]
            have htc := (closedAtList_iff env.length branches).1 hbr t (List.mem_of_getElem? hb)
            simp [State.closed, pushArgs_closed fields ctx hv hctx, henv, htc]
        | con c =>
          dsimp only
          split
          · simp [StepResult.ofOutcome, StepClosed]
          · cases hco : caseOnConst c with
            | none => simp [StepResult.ofOutcome, StepClosed]
            | some p =>
              obtain ⟨tag, fields, maxB⟩ := p
              have hfw := caseOnConst_fields_closed c tag fields maxB hco
              simp only
              split
              · simp [StepResult.ofOutcome, StepClosed]
              · cases hb : branches[tag]? with
                | none => simp [StepResult.ofOutcome, StepClosed]
                | some t =>
                  simp only [StepResult.ofOutcome, StepClosed, transferArgStack_eq]
                  have htc := (closedAtList_iff env.length branches).1 hbr t (List.mem_of_getElem? hb)
                  simp [State.closed, pushArgs_closed fields ctx hfw hctx, henv, htc]
        | delay _ _ => simp [StepResult.ofOutcome, StepClosed]
        | lam _ _ _ => simp [StepResult.ofOutcome, StepClosed]
        | builtin _ _ _ => simp [StepResult.ofOutcome, StepClosed]

end AikenVerif
