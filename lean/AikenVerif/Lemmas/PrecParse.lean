import AikenVerif.Lemmas.Prec
/-!
C13 helper lemmas, part 2: the parser side.  `stops h rest` = the continuation `rest`
cannot be absorbed by any loop of the tower up to height `h`.
-/
namespace AikenVerif.Prec
open AikenVerif.Gen.Prec

def stops (h : Nat) : List Tok → Prop
  | .op b :: _ => h < b.tower + 1
  | .pipe :: _ => h < towerLevels + 1
  | _ => True

theorem stops_mono {h h' : Nat} (hle : h ≤ h') (ts : List Tok) (hs : stops h' ts) : stops h ts := by
  cases ts with
  | nil => trivial
  | cons t tl =>
    cases t <;> simp only [stops] at hs ⊢ <;> omega

theorem Expr.size_pos : ∀ e : Expr, 0 < e.size
  | .atom _ => by simp [Expr.size]
  | .un _ _ => by simp [Expr.size]
  | .bin _ _ _ => by simp [Expr.size]
  | .pipe _ _ => by simp [Expr.size]

/-! ## `repeated()` -/

theorem tailP_stop {σ : Type} (sep : Tok → Option σ) (next : Parser) (g : Nat) (ts : List Tok)
    (h : ∀ t tl, ts = t :: tl → sep t = none) : tailP sep next g ts = ([], ts) := by
  cases g with
  | zero => simp [tailP]
  | succ g =>
    cases ts with
    | nil => simp [tailP]
    | cons t tl =>
      have := h t tl rfl
      simp [tailP, this]

theorem tailP_items {σ : Type} (sep : Tok → Option σ) (next : Parser) (sepTok : σ → Tok)
    (rd : Expr → List Tok) (Stop : List Tok → Prop) :
    ∀ (items : List (σ × Expr)) (g : Nat) (rest : List Tok),
      (∀ it ∈ items, sep (sepTok it.1) = some it.1) →
      (∀ it ∈ items, ∀ ts, Stop (sepTok it.1 :: ts)) →
      (∀ it ∈ items, ∀ rest', Stop rest' → next (rd it.2 ++ rest') = some (it.2, rest')) →
      Stop rest → (∀ t tl, rest = t :: tl → sep t = none) → items.length ≤ g →
      tailP sep next g (items.flatMap (fun it => sepTok it.1 :: rd it.2) ++ rest) = (items, rest)
  | [], g, rest, _, _, _, _, hr, _ => by
    simpa using tailP_stop sep next g rest hr
  | it :: more, g, rest, h1, h2, h3, hs, hr, hg => by
    cases g with
    | zero => simp at hg
    | succ g =>
      have ih := tailP_items sep next sepTok rd Stop more g rest
        (fun x hx => h1 x (List.mem_cons_of_mem _ hx))
        (fun x hx => h2 x (List.mem_cons_of_mem _ hx))
        (fun x hx => h3 x (List.mem_cons_of_mem _ hx)) hs hr (by simpa using hg)
      have hstop : Stop (more.flatMap (fun it => sepTok it.1 :: rd it.2) ++ rest) := by
        cases more with
        | nil => simpa using hs
        | cons m ms =>
          simp only [List.flatMap_cons, List.cons_append]
          exact h2 m (by simp) _
      have hn := h3 it (by simp) _ hstop
      have hsep := h1 it (by simp)
      simp only [List.flatMap_cons, List.cons_append, List.append_assoc, tailP, hsep, hn, ih]

theorem flatMap_length_le {α : Type} (f : α → List Tok) (hf : ∀ a, 0 < (f a).length) :
    ∀ xs : List α, xs.length ≤ (xs.flatMap f).length
  | [] => by simp
  | x :: xs => by
    have := flatMap_length_le f hf xs
    have := hf x
    simp only [List.flatMap_cons, List.length_append, List.length_cons]
    omega

/-! ## lifting a parse through the tower -/

theorem levelP_of_next (next : Parser) (t : Nat) (ts rest : List Tok) (e : Expr)
    (hn : next ts = some (e, rest)) (hs : stops (t + 1) rest) : levelP next t ts = some (e, rest) := by
  have hstop : tailP (levelSep t) next rest.length rest = ([], rest) :=
    tailP_stop _ _ _ _ (by
      intro tk tl h
      subst h
      cases tk with
      | op b =>
        simp only [stops] at hs
        simp only [levelSep]
        rw [if_neg (by omega)]
      | _ => rfl)
  unfold levelP
  simp only [hn, hstop]
  cases levelRight t <;> simp [combineLeft, combineRight]

theorem towerP_lift (rec : Parser) (ts rest : List Tok) (e : Expr) (h : Nat)
    (hp : towerP rec h ts = some (e, rest)) :
    ∀ d, stops (h + d) rest → towerP rec (h + d) ts = some (e, rest)
  | 0, _ => hp
  | d + 1, hs => by
    show levelP (towerP rec (h + d)) (h + d) ts = _
    exact levelP_of_next _ _ _ _ _ (towerP_lift rec ts rest e h hp d (stops_mono (by omega) _ hs)) hs

theorem towerP_lift' (rec : Parser) (ts rest : List Tok) (e : Expr) (h h' : Nat) (hle : h ≤ h')
    (hp : towerP rec h ts = some (e, rest)) (hs : stops h' rest) : towerP rec h' ts = some (e, rest) := by
  obtain ⟨d, rfl⟩ := Nat.exists_eq_add_of_le hle
  exact towerP_lift rec ts rest e h hp d hs

theorem pipeP_of_next (next : Parser) (ts rest : List Tok) (e : Expr)
    (hn : next ts = some (e, rest)) (hs : stops (towerLevels + 1) rest) : pipeP next ts = some (e, rest) := by
  have hstop : tailP pipeSep next rest.length rest = ([], rest) :=
    tailP_stop _ _ _ _ (by
      intro tk tl h
      subst h
      cases tk with
      | pipe => simp [stops] at hs
      | _ => rfl)
  unfold pipeP
  simp [hn, hstop]

end AikenVerif.Prec
