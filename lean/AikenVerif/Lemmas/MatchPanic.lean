import AikenVerif.Model.MatchPanic
import AikenVerif.Lemmas.MatchMissing
/-!
On well-typed inputs `Matrix::is_useful` never reaches its `unreachable!` / index panics and
terminates: `isUsefulX fuel M v = ok (isUseful M v)` for every large enough `fuel`.
-/
namespace AikenVerif.Match

theorem filterMapX_ok (f : Row → Out (Option Row)) (g : Row → Option Row) (M : Matrix)
    (h : ∀ r ∈ M, f r = .ok (g r)) : filterMapX f M = .ok (M.filterMap g) := by
  induction M with
  | nil => simp [filterMapX]
  | cons r M ih =>
    have h1 := h r List.mem_cons_self
    have h2 := ih (fun r' hr' => h r' (List.mem_cons_of_mem _ hr'))
    simp only [filterMapX, h1, List.filterMap_cons]
    cases g r with
    | none => simp only [h2]
    | some r' => simp only [h2]

theorem filterMapX_ctor_ok {sg : Sig} {M : Matrix} {t : Nat} {ts : List Ty} (c a : Nat)
    (hM : Matrix.hasTy sg M (.data t :: ts) = true) :
    filterMapX (specRowCtorX c a) M = .ok (specCtor c a M) := by
  apply filterMapX_ok
  intro r hr
  have hrt := Matrix.hasTy_mem hM hr
  match r, hrt with
  | [], hrt => simp [Pat.hasTyL] at hrt
  | .lit l :: rest, hrt =>
    simp only [Pat.hasTyL, Bool.and_eq_true] at hrt
    cases l <;> simp [Pat.hasTy] at hrt
  | .wild :: rest, _ => simp [specRowCtorX, specRowCtor]
  | .ctor c' alts args :: rest, _ => simp [specRowCtorX, specRowCtor]

theorem filterMapX_lit_ok {sg : Sig} {M : Matrix} {t0 : Ty} {ts : List Ty} (l : Lit)
    (hl : Pat.hasTy sg (.lit l) t0 = true) (hM : Matrix.hasTy sg M (t0 :: ts) = true) :
    filterMapX (specRowLitX l) M = .ok (specLit l M) := by
  have ht0 : ∀ c alts args, Pat.hasTy sg (.ctor c alts args) t0 = false := by
    intro c alts args
    cases l <;> cases t0 <;> simp_all [Pat.hasTy]
  apply filterMapX_ok
  intro r hr
  have hrt := Matrix.hasTy_mem hM hr
  match r, hrt with
  | [], hrt => simp [Pat.hasTyL] at hrt
  | .ctor c alts args :: rest, hrt =>
    simp only [Pat.hasTyL, Bool.and_eq_true] at hrt
    rw [ht0] at hrt; cases hrt.1
  | .wild :: rest, _ => simp [specRowLitX, specRowLit]
  | .lit l' :: rest, _ => simp [specRowLitX, specRowLit]

theorem allNonEmpty_of_hasTy {sg : Sig} {M : Matrix} {t0 : Ty} {ts : List Ty}
    (hM : Matrix.hasTy sg M (t0 :: ts) = true) : allNonEmpty M = true := by
  simp only [allNonEmpty, List.all_eq_true]
  intro r hr
  have := Matrix.hasTy_mem hM hr
  cases r with
  | nil => simp [Pat.hasTyL] at this
  | cons p r => simp

/-- `any` over alternatives that each succeed from some fuel on -/
theorem anyX_ok (g : Nat → Nat × Nat → Out Bool) (h : Nat × Nat → Bool) (alts : Alts)
    (H : ∀ alt ∈ alts, ∃ n, ∀ fuel, n ≤ fuel → g fuel alt = .ok (h alt)) :
    ∃ n, ∀ fuel, n ≤ fuel → anyX (g fuel) alts = .ok (alts.any h) := by
  induction alts with
  | nil => exact ⟨0, fun _ _ => by simp [anyX]⟩
  | cons a as ih =>
    obtain ⟨n1, h1⟩ := H a List.mem_cons_self
    obtain ⟨n2, h2⟩ := ih (fun alt ha => H alt (List.mem_cons_of_mem _ ha))
    refine ⟨max n1 n2, ?_⟩
    intro fuel hf
    have e1 := h1 fuel (Nat.le_trans (Nat.le_max_left _ _) hf)
    have e2 := h2 fuel (Nat.le_trans (Nat.le_max_right _ _) hf)
    simp only [anyX, e1, List.any_cons]
    cases h a with
    | true => simp
    | false => simp [e2]

theorem isUsefulX_ok {sg : Sig} (hs : Sig.ok sg = true) (M : Matrix) (v : Row) :
    ∀ ts, Matrix.hasTy sg M ts = true → Pat.hasTyL sg v ts = true →
      ∃ n, ∀ fuel, n ≤ fuel → isUsefulX fuel M v = .ok (isUseful M v) := by
  induction M, v using isUseful.induct with
  | case1 M v hM =>
    intro ts _ _
    refine ⟨1, ?_⟩
    intro fuel hf
    obtain ⟨k, e⟩ : ∃ k, fuel = k + 1 := ⟨fuel - 1, by omega⟩
    subst e
    simp [isUsefulX, hM, isUseful_empty hM]
  | case2 M hM =>
    intro ts _ _
    refine ⟨1, ?_⟩
    intro fuel hf
    obtain ⟨k, e⟩ : ∃ k, fuel = k + 1 := ⟨fuel - 1, by omega⟩
    subst e
    simp [isUsefulX, hM, isUseful_nil_row hM]
  | case3 M hM c alts args rest ih =>
    intro ts hMt hvt
    cases ts with
    | nil => simp [Pat.hasTyL] at hvt
    | cons t0 ts =>
      simp only [Pat.hasTyL, Bool.and_eq_true] at hvt
      obtain ⟨t, d, tys, e1, hd, _, hl, hargs⟩ := Pat.hasTy_ctor hvt.1
      subst e1
      have hlen : args.length = tys.length := Pat.hasTyL_length hargs
      have hMt' := specCtor_hasTy hMt hd hl
      rw [← hlen] at hMt'
      obtain ⟨n, hn⟩ := ih (tys ++ ts) hMt' (by rw [Pat.hasTyL_append hlen]; simp [hargs, hvt.2])
      refine ⟨n + 1, ?_⟩
      intro fuel hf
      obtain ⟨k, e⟩ : ∃ k, fuel = k + 1 := ⟨fuel - 1, by omega⟩
      subst e
      simp only [isUsefulX, hM, if_false, filterMapX_ctor_ok c args.length hMt, isUseful_ctor hM]
      exact hn k (by omega)
  | case4 M hM rest hc ih =>
    intro ts hMt hvt
    cases ts with
    | nil => simp [Pat.hasTyL] at hvt
    | cons t0 ts =>
      simp only [Pat.hasTyL, Bool.and_eq_true] at hvt
      obtain ⟨n, hn⟩ := ih ts (specWild_hasTy hMt) hvt.2
      refine ⟨n + 1, ?_⟩
      intro fuel hf
      obtain ⟨k, e⟩ : ∃ k, fuel = k + 1 := ⟨fuel - 1, by omega⟩
      subst e
      simp only [isUsefulX, hM, if_false, allNonEmpty_of_hasTy hMt, Bool.not_true, Bool.false_eq_true,
        hc, isUseful_wild_none hM rest hc]
      exact hn k (by omega)
  | case5 M hM rest alts hc ih =>
    intro ts hMt hvt
    cases ts with
    | nil => simp [Pat.hasTyL] at hvt
    | cons t0 ts =>
      simp only [Pat.hasTyL, Bool.and_eq_true] at hvt
      obtain ⟨t, d, e1, hd, ha⟩ := isComplete_some_typed hMt hc
      subst e1
      have H : ∀ alt ∈ alts, ∃ n, ∀ fuel, n ≤ fuel →
          (match filterMapX (specRowCtorX alt.1 alt.2) M with
            | .ok M' => isUsefulX fuel M' (wilds alt.2 ++ rest)
            | .panic => .panic
            | .fuel => .fuel) =
          .ok (isUseful (specCtor alt.1 alt.2 M) (wilds alt.2 ++ rest)) := by
        intro alt halt
        rw [ha] at halt
        obtain ⟨tys, hl, hlen⟩ := declAlts_mem_lookup (Sig.ok_get hs hd).1 halt
        obtain ⟨c, a⟩ := alt
        simp only at hl hlen
        subst hlen
        obtain ⟨n, hn⟩ := ih (c, tys.length) (tys ++ ts) (specCtor_hasTy hMt hd hl)
          (by rw [Pat.hasTyL_append (by simp)]; simp [Pat.hasTyL_wilds, hvt.2])
        refine ⟨n, ?_⟩
        intro fuel hf
        simp only [filterMapX_ctor_ok c tys.length hMt]
        exact hn fuel hf
      obtain ⟨n, hn⟩ := anyX_ok
        (fun fuel alt =>
          match filterMapX (specRowCtorX alt.1 alt.2) M with
          | .ok M' => isUsefulX fuel M' (wilds alt.2 ++ rest)
          | .panic => .panic
          | .fuel => .fuel)
        (fun alt => isUseful (specCtor alt.1 alt.2 M) (wilds alt.2 ++ rest)) alts H
      refine ⟨n + 1, ?_⟩
      intro fuel hf
      obtain ⟨k, e⟩ : ∃ k, fuel = k + 1 := ⟨fuel - 1, by omega⟩
      subst e
      simp only [isUsefulX, hM, if_false, allNonEmpty_of_hasTy hMt, Bool.not_true, Bool.false_eq_true,
        hc, isUseful_wild_some hM rest hc]
      exact hn k (by omega)
  | case6 M hM l rest ih =>
    intro ts hMt hvt
    cases ts with
    | nil => simp [Pat.hasTyL] at hvt
    | cons t0 ts =>
      simp only [Pat.hasTyL, Bool.and_eq_true] at hvt
      obtain ⟨n, hn⟩ := ih ts (specLit_hasTy l hMt) hvt.2
      refine ⟨n + 1, ?_⟩
      intro fuel hf
      obtain ⟨k, e⟩ : ∃ k, fuel = k + 1 := ⟨fuel - 1, by omega⟩
      subst e
      simp only [isUsefulX, hM, if_false, filterMapX_lit_ok l hvt.1 hMt, isUseful_lit hM]
      exact hn k (by omega)

/-! ### the missing-pattern report never contains a literal (`Pattern::pretty`'s `unreachable!`) -/

theorem Pat.litFreeL_take_drop (k : Nat) (r : Row) (h : Pat.litFreeL r = true) :
    Pat.litFreeL (r.take k) = true ∧ Pat.litFreeL (r.drop k) = true := by
  induction r generalizing k with
  | nil => simp [Pat.litFreeL]
  | cons p r ih =>
    simp only [Pat.litFreeL, Bool.and_eq_true] at h
    cases k with
    | zero => simp [Pat.litFreeL, h.1, h.2]
    | succ k =>
      obtain ⟨h1, h2⟩ := ih k h.2
      simp [Pat.litFreeL, h.1, h1, h2]

/-- whatever the matrix, no reported row contains a literal pattern -/
theorem collectMissing_litFree (M : Matrix) (n : Nat) :
    ∀ p ∈ collectMissing M n, Pat.litFreeL p = true := by
  induction M, n using collectMissing.induct with
  | case1 M n hM =>
    intro p hp
    rw [collectMissing_empty hM] at hp
    simp only [List.mem_singleton] at hp
    subst hp
    exact Pat.litFreeL_wilds n
  | case2 M hM => intro p hp; rw [collectMissing_zero hM] at hp; cases hp
  | case3 M n hM hn hc ih =>
    intro p hp
    rw [collectMissing_nil hM hn hc] at hp
    simp only [List.mem_map] at hp
    obtain ⟨p', hp', e⟩ := hp
    subst e
    simp [Pat.litFreeL, Pat.litFree, ih p' hp']
  | case4 M n hM hn k alts rest hc hlt ih =>
    intro p hp
    rw [collectMissing_lt hM hn hc hlt] at hp
    simp only [List.mem_flatMap, List.mem_map, List.mem_filterMap] at hp
    obtain ⟨p', hp', q, ⟨alt, _, hq⟩, e⟩ := hp
    subst e
    obtain ⟨eq, _⟩ := isMissing_some hq
    subst eq
    simp [Pat.litFreeL, Pat.litFree, Pat.litFreeL_wilds, ih p' hp']
  | case5 M n hM hn k alts rest hc hlt ih =>
    intro p hp
    rw [collectMissing_ge hM hn hc hlt] at hp
    simp only [List.mem_flatMap, List.mem_map] at hp
    obtain ⟨alt, _, p', hp', e⟩ := hp
    subst e
    obtain ⟨h1, h2⟩ := Pat.litFreeL_take_drop alt.2 p' (ih alt p' hp')
    simp [recoverCtor, Pat.litFreeL, Pat.litFree, h1, h2]

end AikenVerif.Match
