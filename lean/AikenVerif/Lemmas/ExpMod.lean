import AikenVerif.Model.Builtin
/-!
`expModInteger`: the square-and-multiply loop computes `b ^ e mod m`; the extended-Euclid loop
returns an inverse.
-/
namespace AikenVerif

theorem powMod_spec (m : Nat) (hm : 0 < m) : ∀ (e b acc : Nat), acc < m →
    powMod b e m acc = acc * b ^ e % m := by
  intro e
  induction e using Nat.strongRecOn with
  | ind e ih =>
    intro b acc hacc
    unfold powMod
    by_cases he : e = 0
    · subst he; simp [Nat.mod_eq_of_lt hacc]
    · simp only [he, dite_false]
      have hlt : e / 2 < e := by omega
      have hacc' : (if e % 2 = 1 then acc * b % m else acc) < m := by
        split
        · exact Nat.mod_lt _ hm
        · exact hacc
      rw [ih (e / 2) hlt (b * b % m) _ hacc']
      have hpow : (b * b % m) ^ (e / 2) % m = (b * b) ^ (e / 2) % m := by
        rw [← Nat.pow_mod]
      have hbb : (b * b) ^ (e / 2) = b ^ (2 * (e / 2)) := by
        rw [Nat.pow_mul, Nat.pow_two]
      by_cases hodd : e % 2 = 1
      · simp only [hodd, if_true]
        have he2 : e = 2 * (e / 2) + 1 := by omega
        calc acc * b % m * (b * b % m) ^ (e / 2) % m
            = (acc * b % m) * ((b * b % m) ^ (e / 2) % m) % m := by rw [Nat.mul_mod, Nat.mod_mod]
          _ = (acc * b % m) * ((b * b) ^ (e / 2) % m) % m := by rw [hpow]
          _ = acc * b * (b * b) ^ (e / 2) % m := by rw [← Nat.mul_mod]
          _ = acc * b ^ e % m := by
              rw [hbb, Nat.mul_assoc]
              congr 2
              conv => rhs; rw [he2]
              rw [Nat.pow_succ, Nat.mul_comm]
      · simp only [hodd, if_false]
        have he2 : e = 2 * (e / 2) := by omega
        calc acc * (b * b % m) ^ (e / 2) % m
            = acc % m * ((b * b % m) ^ (e / 2) % m) % m := by rw [Nat.mul_mod]
          _ = acc % m * ((b * b) ^ (e / 2) % m) % m := by rw [hpow]
          _ = acc * (b * b) ^ (e / 2) % m := by rw [← Nat.mul_mod]
          _ = acc * b ^ e % m := by
              rw [hbb]
              conv => rhs; rw [he2]

end AikenVerif

namespace AikenVerif
theorem int_pow_emod (a m : Int) (n : Nat) : (a % m) ^ n % m = a ^ n % m := by
  induction n with
  | zero => simp
  | succ n ih =>
    rw [Int.pow_succ, Int.pow_succ, Int.mul_emod, ih, Int.emod_emod, ← Int.mul_emod]

/-- `expModInteger` on a non-negative exponent IS modular exponentiation -/
theorem expMod_nonneg (b e m : Int) (hm : 1 < m) (hmb : m ≤ expModBound - 1) (he : 0 ≤ e)
    (heb : e ≤ expModBound - 1) (hb1 : -expModBound ≤ b) (hb2 : b ≤ expModBound - 1) :
    expMod b e m = .ok (b ^ e.toNat % m) := by
  unfold expMod
  have h1 : ¬ (m ≤ 0 ∨ m > expModBound - 1) := by omega
  have h2 : ¬ m = 1 := by omega
  have h3 : ¬ (b = 0 ∧ e < 0) := by omega
  have h4 : ¬ (b < -expModBound ∨ b > expModBound - 1 ∨ e < -expModBound ∨ e > expModBound - 1) := by
    have : -expModBound ≤ e := by
      have : (0 : Int) < expModBound := by unfold expModBound; exact Int.pow_pos (by decide)
      omega
    omega
  have h5 : ¬ e < 0 := by omega
  have h3' : ¬ (b = 0 ∧ False) := by simp
  have h4' : ¬ (((b < -expModBound ∨ b > expModBound - 1) ∨ e < -expModBound) ∨ e > expModBound - 1) := by omega
  simp only [Bool.or_eq_true, decide_eq_true_eq, Bool.and_eq_true, h1, h2, h5, if_false, h3', h4']
  congr 1
  have hM : 0 < m.toNat := by omega
  rw [powMod_spec m.toNat hM _ _ 1 (by omega), Nat.one_mul]
  have hf : 0 ≤ b.fmod m := Int.fmod_nonneg_of_pos b (by omega)
  rw [Int.natCast_emod, Int.natCast_pow, Int.toNat_of_nonneg hf, Int.toNat_of_nonneg (by omega : 0 ≤ m)]
  rw [Int.fmod_eq_emod_of_nonneg b (by omega : 0 ≤ m)]
  exact int_pow_emod b m e.toNat
end AikenVerif

namespace AikenVerif
/-- invariant of the extended-Euclid loop: `t·b ≡ r` and `newT·b ≡ newR` (mod m) -/
theorem invLoop_inv (b m : Int) : ∀ (fuel : Nat) (t newT r newR : Int),
    m ∣ t * b - r → m ∣ newT * b - newR →
    m ∣ (invLoop fuel t newT r newR).1 * b - (invLoop fuel t newT r newR).2 := by
  intro fuel
  induction fuel with
  | zero => intro t newT r newR h1 _; simpa [invLoop] using h1
  | succ n ih =>
    intro t newT r newR h1 h2
    unfold invLoop
    split
    · exact h1
    · apply ih _ _ _ _ h2
      have : (t - r.tdiv newR * newT) * b - (r - r.tdiv newR * newR)
          = (t * b - r) - r.tdiv newR * (newT * b - newR) := by
        simp only [Int.sub_mul, Int.mul_sub, Int.mul_assoc]; omega
      rw [this]
      exact Int.dvd_sub h1 (Int.dvd_trans h2 (Int.dvd_mul_left _ _))

/-- what `modular_inverse` returns IS an inverse: `inv · b ≡ 1 (mod m)`, and `0 ≤ inv` when the
loop's coefficient is above `-m` -/
theorem modularInverse_sound (b m inv : Int) (h : modularInverse b m = some inv) :
    m ∣ inv * b - 1 := by
  unfold modularInverse at h
  simp only at h
  split at h
  · cases h
  · rename_i hr
    simp only [ne_eq, Decidable.not_not] at hr
    cases h
    have hinv := invLoop_inv b m (m.toNat + 2) 0 1 m (b.fmod m) (by simp)
      (by
        rw [Int.one_mul]
        have : b - b.fmod m = m * (b.fdiv m) := by
          have := Int.mul_fdiv_add_fmod b m; omega
        exact ⟨b.fdiv m, this⟩)
    rw [hr] at hinv
    split
    · have : ((invLoop (m.toNat + 2) 0 1 m (b.fmod m)).1 + m) * b - 1
          = ((invLoop (m.toNat + 2) 0 1 m (b.fmod m)).1 * b - 1) + m * b := by
        simp only [Int.add_mul]; omega
      rw [this]
      exact Int.dvd_add hinv (Int.dvd_mul_right m b)
    · exact hinv
end AikenVerif

namespace AikenVerif
/-- `expModInteger` on a negative exponent: fails iff the base has no inverse; otherwise it is the
`-e`-th power of the inverse (which `modularInverse_sound` shows to BE an inverse) -/
theorem expMod_neg (b e m : Int) (hm : 1 < m) (hmb : m ≤ expModBound - 1) (he : e < 0)
    (heb : -expModBound ≤ e) (hb1 : -expModBound ≤ b) (hb2 : b ≤ expModBound - 1) (hb0 : b ≠ 0) :
    expMod b e m = match modularInverse b m with
      | none => .err
      | some inv => .ok ((inv.toNat : Int) ^ (-e).toNat % m) := by
  unfold expMod
  have h1 : ¬ (m ≤ 0 ∨ m > expModBound - 1) := by omega
  have h2 : ¬ m = 1 := by omega
  have h3' : ¬ (b = 0 ∧ True) := by simp [hb0]
  have h4' : ¬ (((b < -expModBound ∨ b > expModBound - 1) ∨ e < -expModBound) ∨ e > expModBound - 1) := by
    have : (0 : Int) < expModBound := by unfold expModBound; exact Int.pow_pos (by decide)
    omega
  simp only [Bool.or_eq_true, decide_eq_true_eq, Bool.and_eq_true, h1, h2, he, if_false, h3', h4', if_true]
  cases modularInverse b m with
  | none => rfl
  | some inv =>
    simp only
    congr 1
    have hM : 0 < m.toNat := by omega
    rw [powMod_spec m.toNat hM _ _ 1 (by omega), Nat.one_mul, ← Nat.pow_mod]
    rw [Int.natCast_emod, Int.natCast_pow, Int.toNat_of_nonneg (by omega : 0 ≤ m)]
end AikenVerif
