import AikenVerif.Lemmas.MatchMissing
/-!
The driver loop of `Environment::check_exhaustiveness` (C07) in terms of `isUseful` and
`collectMissing`, and source patterns (`bind`) vs matrix patterns (`simplify`).
-/
namespace AikenVerif.Match

/-- the clause patterns as a one-column matrix -/
def rowsOf (cs : List Pat) : Matrix := cs.map (fun p => [p])

theorem rowsOf_append (a b : List Pat) : rowsOf (a ++ b) = rowsOf a ++ rowsOf b := by
  simp [rowsOf]

theorem rowsOf_matches (cs : List Pat) (x : Val) :
    (∃ r ∈ rowsOf cs, pmatchL r [x] = true) ↔ ∃ p ∈ cs, pmatch p x = true := by
  simp only [rowsOf, List.mem_map]
  constructor
  · rintro ⟨r, ⟨p, hp, e⟩, hm⟩
    subst e
    exact ⟨p, hp, by simpa [pmatchL] using hm⟩
  · rintro ⟨p, hp, hm⟩
    exact ⟨[p], ⟨p, hp, rfl⟩, by simpa [pmatchL] using hm⟩

theorem rowsOf_unmatched (cs : List Pat) (x : Val) :
    (∀ r ∈ rowsOf cs, pmatchL r [x] = false) ↔ ∀ p ∈ cs, pmatch p x = false := by
  simp only [rowsOf, List.mem_map]
  constructor
  · intro h p hp
    simpa [pmatchL] using h [p] ⟨p, hp, rfl⟩
  · rintro h r ⟨p, hp, e⟩
    subst e
    simpa [pmatchL] using h p hp

theorem rowsOf_hasTy {sg : Sig} {cs : List Pat} {t : Ty} (h : ∀ p ∈ cs, Pat.hasTy sg p t = true) :
    Matrix.hasTy sg (rowsOf cs) [t] = true := by
  apply Matrix.hasTy_of_forall
  intro r hr
  simp only [rowsOf, List.mem_map] at hr
  obtain ⟨p, hp, e⟩ := hr
  subst e
  simp [Pat.hasTyL, h p hp]

theorem flatten_eq_nil_of_length {M : Matrix} (h : ∀ r ∈ M, r.length = 1) :
    M.flatten = [] ↔ M = [] := by
  constructor
  · intro hf
    cases M with
    | nil => rfl
    | cons r M =>
      have := h r List.mem_cons_self
      cases r with
      | nil => simp at this
      | cons p r => simp at hf
  · intro e; subst e; rfl

theorem mem_flatten_of_length {M : Matrix} (h : ∀ r ∈ M, r.length = 1) (q : Pat) :
    q ∈ M.flatten ↔ [q] ∈ M := by
  simp only [List.mem_flatten]
  constructor
  · rintro ⟨r, hr, hq⟩
    have := h r hr
    match r, this with
    | [p], _ => simp at hq; subst hq; exact hr
  · intro hr; exact ⟨[q], hr, by simp⟩

theorem Val.hasTyL_singleton {sg : Sig} {vs : List Val} {t : Ty} (h : Val.hasTyL sg vs [t] = true) :
    ∃ x, vs = [x] ∧ Val.hasTy sg x t = true := by
  match vs, h with
  | [x], h => exact ⟨x, rfl, by simpa [Val.hasTyL] using h⟩
  | [], h => simp [Val.hasTyL] at h
  | _ :: _ :: _, h => simp [Val.hasTyL] at h

/-- the loop accepts iff every clause is useful w.r.t. the earlier ones and nothing is missing -/
theorem checkLoop_ok (cs : List Pat) : ∀ (M : Matrix) (i : Nat),
    checkLoop M i cs = .ok ↔
      (∀ k (h : k < cs.length), isUseful (M ++ rowsOf (cs.take k)) [cs[k]] = true) ∧
        collectMissing (M ++ rowsOf cs) 1 = [] := by
  induction cs with
  | nil =>
    intro M i
    have hall : ∀ k (h : k < ([] : List Pat).length),
        isUseful (M ++ rowsOf (([] : List Pat).take k)) [([] : List Pat)[k]] = true := by
      intro k h; simp at h
    simp only [checkLoop, rowsOf, List.map_nil, List.append_nil]
    rw [← flatten_eq_nil_of_length (collectMissing_length M 1)]
    split
    · rename_i h; simp only [true_iff]; exact ⟨hall, h⟩
    · rename_i h; simp only [reduceCtorEq, false_iff]; intro hc; exact h hc.2
  | cons p ps ih =>
    intro M i
    simp only [checkLoop]
    split
    · rename_i hu
      rw [ih (M ++ [[p]]) (i + 1)]
      constructor
      · rintro ⟨h1, h2⟩
        refine ⟨?_, by simpa [rowsOf, List.append_assoc] using h2⟩
        intro k hk
        cases k with
        | zero => simpa [rowsOf] using hu
        | succ k =>
          have := h1 k (by simpa using hk)
          simpa [rowsOf, List.append_assoc] using this
      · rintro ⟨h1, h2⟩
        refine ⟨?_, by simpa [rowsOf, List.append_assoc] using h2⟩
        intro k hk
        have := h1 (k + 1) (by simpa using hk)
        simpa [rowsOf, List.append_assoc] using this
    · rename_i hu
      simp only [reduceCtorEq, false_iff, not_and]
      intro h1
      have := h1 0 (by simp)
      simp only [rowsOf, List.take_zero, List.map_nil, List.append_nil, List.getElem_cons_zero] at this
      exact absurd this hu

/-- the loop reports `redundant k` only for a clause that is not useful w.r.t. the earlier ones -/
theorem checkLoop_redundant (cs : List Pat) : ∀ (M : Matrix) (i k : Nat),
    checkLoop M i cs = .redundant k →
      ∃ j, k = i + j ∧ ∃ h : j < cs.length, isUseful (M ++ rowsOf (cs.take j)) [cs[j]] = false := by
  induction cs with
  | nil =>
    intro M i k h
    simp only [checkLoop] at h
    split at h <;> cases h
  | cons p ps ih =>
    intro M i k h
    simp only [checkLoop] at h
    split at h
    · obtain ⟨j, e, hj, hu⟩ := ih _ _ _ h
      refine ⟨j + 1, by omega, by simpa using hj, ?_⟩
      simpa [rowsOf, List.append_assoc] using hu
    · rename_i hu
      cases h
      exact ⟨0, rfl, by simp, by simpa [rowsOf] using hu⟩

/-- the loop reports `notExhaustive ms` with `ms` the flattened non-empty missing matrix -/
theorem checkLoop_notExhaustive (cs : List Pat) : ∀ (M : Matrix) (i : Nat) (ms : List Pat),
    checkLoop M i cs = .notExhaustive ms →
      ms ≠ [] ∧ ms = (collectMissing (M ++ rowsOf cs) 1).flatten := by
  induction cs with
  | nil =>
    intro M i ms h
    simp only [checkLoop] at h
    split at h
    · cases h
    · rename_i hne
      cases h
      refine ⟨hne, ?_⟩
      simp only [rowsOf, List.map_nil, List.append_nil]
  | cons p ps ih =>
    intro M i ms h
    simp only [checkLoop] at h
    split at h
    · have := ih _ _ _ h
      simpa [rowsOf, List.append_assoc] using this
    · cases h

/-! ### source patterns -/

mutual
theorem bind_isSome : ∀ (p : SPat) (v : Val), (bind p v).isSome = pmatch (simplify p) v
  | .var _, _ => by simp [bind, simplify, pmatch]
  | .discard, _ => by simp [bind, simplify, pmatch]
  | .as_ _ p, v => by simp [bind, simplify, bind_isSome p v]
  | .lit l, .lit l' => by
    simp only [bind, simplify, pmatch]
    split <;> simp_all
  | .lit _, .ctor _ _ => by simp [bind, simplify, pmatch]
  | .ctor _ _ _, .lit _ => by simp [bind, simplify, pmatch]
  | .ctor c _ ps, .ctor c' vs => by
    simp only [bind, simplify, pmatch]
    split
    · rename_i e; simp [e, bindL_isSome ps vs]
    · rename_i e; simp [e]
theorem bindL_isSome : ∀ (ps : List SPat) (vs : List Val), (bindL ps vs).isSome = pmatchL (simplifyL ps) vs
  | [], [] => by simp [bindL, simplifyL, pmatchL]
  | [], _ :: _ => by simp [bindL, simplifyL, pmatchL]
  | _ :: _, [] => by simp [bindL, simplifyL, pmatchL]
  | p :: ps, v :: vs => by
    have h1 := bind_isSome p v
    have h2 := bindL_isSome ps vs
    simp only [bindL, simplifyL, pmatchL]
    cases hb : bind p v with
    | none => rw [hb] at h1; simp at h1; simp [h1]
    | some b =>
      rw [hb] at h1; simp at h1
      simp [h1, ← h2]
end

theorem subAt_append (π : List Nat) (k : Nat) (root : Val) {c : Nat} {vs : List Val}
    (h : subAt π root = some (.ctor c vs)) : subAt (π ++ [k]) root = vs[k]? := by
  induction π generalizing root with
  | nil =>
    simp only [subAt, Option.some.injEq] at h
    subst h
    simp only [List.nil_append, subAt]
    cases vs[k]? <;> rfl
  | cons j π ih =>
    cases root with
    | lit l => simp [subAt] at h
    | ctor c' ws =>
      simp only [subAt, List.cons_append] at h ⊢
      cases hw : ws[j]? with
      | none => rw [hw] at h; cases h
      | some w => rw [hw] at h; exact ih w h

mutual
/-- every variable is bound to the sub-value at its occurrence path -/
theorem bind_paths : ∀ (p : SPat) (v root : Val) (π : List Nat) (bs : List (Nat × Val)),
    subAt π root = some v → bind p v = some bs →
      (varPaths p π).map (fun xp => (xp.1, subAt xp.2 root)) = bs.map (fun b => (b.1, some b.2))
  | .var x, v, root, π, bs, hs, hb => by
    simp only [bind, Option.some.injEq] at hb; subst hb
    simp [varPaths, hs]
  | .discard, v, root, π, bs, hs, hb => by
    simp only [bind, Option.some.injEq] at hb; subst hb
    simp [varPaths]
  | .as_ x p, v, root, π, bs, hs, hb => by
    simp only [bind] at hb
    cases hp : bind p v with
    | none => rw [hp] at hb; cases hb
    | some bs' =>
      rw [hp] at hb
      simp only [Option.map_some, Option.some.injEq] at hb; subst hb
      simp [varPaths, hs, bind_paths p v root π bs' hs hp]
  | .lit l, .lit l', root, π, bs, hs, hb => by
    simp only [bind] at hb
    split at hb
    · cases hb; simp [varPaths]
    · cases hb
  | .lit _, .ctor _ _, root, π, bs, hs, hb => by simp [bind] at hb
  | .ctor _ _ _, .lit _, root, π, bs, hs, hb => by simp [bind] at hb
  | .ctor c _ ps, .ctor c' vs, root, π, bs, hs, hb => by
    simp only [bind] at hb
    split at hb
    · simp only [varPaths]
      exact bindL_paths ps vs root π 0 bs c' vs (by simp) hs hb
    · cases hb
theorem bindL_paths : ∀ (ps : List SPat) (ws : List Val) (root : Val) (π : List Nat) (k : Nat)
    (bs : List (Nat × Val)) (c : Nat) (vs : List Val),
    ws = vs.drop k → subAt π root = some (.ctor c vs) → bindL ps ws = some bs →
      (varPathsL ps π k).map (fun xp => (xp.1, subAt xp.2 root)) = bs.map (fun b => (b.1, some b.2))
  | [], [], root, π, k, bs, c, vs, _, _, hb => by
    simp only [bindL, Option.some.injEq] at hb; subst hb
    simp [varPathsL]
  | [], _ :: _, root, π, k, bs, c, vs, _, _, hb => by simp [bindL] at hb
  | _ :: _, [], root, π, k, bs, c, vs, _, _, hb => by simp [bindL] at hb
  | p :: ps, w :: ws, root, π, k, bs, c, vs, hd, hs, hb => by
    simp only [bindL] at hb
    cases hp : bind p w with
    | none => rw [hp] at hb; cases hb
    | some b =>
      rw [hp] at hb
      cases hps : bindL ps ws with
      | none => rw [hps] at hb; cases hb
      | some bs' =>
        rw [hps] at hb
        simp only [Option.map_some, Option.some.injEq] at hb; subst hb
        have hk : vs[k]? = some w := by
          have := congrArg (fun l => l[0]?) hd
          simpa [List.getElem?_drop] using this.symm
        have hsub : subAt (π ++ [k]) root = some w := by rw [subAt_append π k root hs, hk]
        have hd' : ws = vs.drop (k + 1) := by
          have := congrArg (fun l => l.drop 1) hd
          simpa [List.drop_drop, Nat.add_comm] using this
        simp only [varPathsL, List.map_append]
        rw [bind_paths p w root (π ++ [k]) b hsub hp,
          bindL_paths ps ws root π (k + 1) bs' c vs hd' hs hps]
end

/-- looking a parameter up by name in a leaf that contains it and has distinct names finds it -/
theorem find_assign {leaf : List Assign} (hd : (leaf.map (·.1)).Nodup) {p : Assign} (hp : p ∈ leaf) :
    leaf.find? (fun a => a.1 == p.1) = some p := by
  induction leaf with
  | nil => cases hp
  | cons a leaf ih =>
    simp only [List.map_cons, List.nodup_cons] at hd
    simp only [List.mem_cons] at hp
    rcases hp with e | hp
    · subst e; simp [List.find?_cons]
    · have hne : ¬ a.1 = p.1 := by
        intro e
        apply hd.1
        rw [e]
        exact List.mem_map.mpr ⟨p, hp, rfl⟩
      simp [List.find?_cons, hne, ih hd.2 hp]

theorem reorderArgs_eq {params leaf : List Assign} (hd : (leaf.map (·.1)).Nodup)
    (hsub : ∀ p ∈ params, p ∈ leaf) : reorderArgs params leaf = params := by
  simp only [reorderArgs]
  conv => rhs; rw [← List.map_id params]
  apply List.map_congr_left
  intro p hp
  simp [find_assign hd (hsub p hp)]

theorem zip_map_self {α β γ : Type} (l : List α) (f : α → β) (g : α → γ) :
    (l.map f).zip (l.map g) = l.map (fun a => (f a, g a)) := by
  induction l with
  | nil => rfl
  | cons a l ih => simp [ih]

theorem simplifyL_eq_map (ps : List SPat) : simplifyL ps = ps.map simplify := by
  induction ps with
  | nil => simp [simplifyL]
  | cons p ps ih => simp [simplifyL, ih]

theorem firstBindFrom_index (i : Nat) (cs : List SPat) (x : Val) :
    (firstBindFrom i cs x).map (·.1) = firstMatchFrom i (cs.map simplify) x := by
  induction cs generalizing i with
  | nil => simp [firstBindFrom, firstMatchFrom]
  | cons p ps ih =>
    have h := bind_isSome p x
    simp only [firstBindFrom, List.map_cons, firstMatchFrom]
    cases hb : bind p x with
    | none => rw [hb] at h; simp at h; simp [h, ih]
    | some b => rw [hb] at h; simp at h; simp [h]

end AikenVerif.Match
