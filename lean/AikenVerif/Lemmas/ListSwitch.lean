import AikenVerif.Model.ListSwitch
/-!
The list-length dispatch of a compiled `when` (C07): with the cases selected by length
(`dispatchFixed`), a list of length `L` is handled by exactly the rows whose list pattern
admits length `L`, in source order.
-/
namespace AikenVerif.ListSwitch

/-- row shape `rc` belongs to the case matrix of `c` -/
def compat : LCase → LCase → Bool
  | .wild, .wild => false
  | .wild, _ => true
  | .tail t, .list k => decide (t ≤ k)
  | .tail t, .tail k => decide (t ≤ k)
  | .list n, .list k => decide (n = k)
  | _, _ => false

def sel (c : LCase) (pre : List Row) : List Nat := (pre.filter (fun r => compat r.1 c)).map (·.2)
def wildsOf (pre : List Row) : List Nat := (pre.filter (fun r => decide (r.1 = .wild))).map (·.2)
def keys (cs : Cases) : List LCase := cs.map (·.1)

/-- `c` is a case that a row of shape `rc` creates / is pushed to -/
def inU (nt wt : Option Nat) (rc c : LCase) : Prop :=
  match rc with
  | .wild => False
  | .list n => c = .list n
  | .tail t =>
    (∃ k m, c = .list k ∧ nt = some m ∧ t ≤ k ∧ k ≤ m) ∨ (∃ k m, c = .tail k ∧ wt = some m ∧ t ≤ k ∧ k ≤ m)

def bounded (nt wt : Option Nat) : LCase → Prop
  | .wild => False
  | .list k => ∃ m, nt = some m ∧ k ≤ m
  | .tail k => ∃ m, wt = some m ∧ k ≤ m

/-! ### the bounds -/

theorem longestNoTail_ge {rows : List Row} {n i : Nat} (h : (LCase.list n, i) ∈ rows) :
    ∃ m, longestNoTail rows = some m ∧ n ≤ m := by
  induction rows with
  | nil => cases h
  | cons r rows ih =>
    obtain ⟨rc, j⟩ := r
    simp only [List.mem_cons, Prod.mk.injEq] at h
    cases rc with
    | wild =>
      rcases h with h | h
      · cases h.1
      · simpa [longestNoTail] using ih h
    | tail t =>
      rcases h with h | h
      · cases h.1
      · simpa [longestNoTail] using ih h
    | list n' =>
      simp only [longestNoTail]
      rcases h with h | h
      · cases h.1
        cases longestNoTail rows with
        | none => exact ⟨n, rfl, Nat.le_refl _⟩
        | some m => exact ⟨max n m, rfl, Nat.le_max_left _ _⟩
      · obtain ⟨m, hm, hle⟩ := ih h
        rw [hm]
        exact ⟨max n' m, rfl, Nat.le_trans hle (Nat.le_max_right _ _)⟩

theorem longestWithTail_ge {rows : List Row} {n i : Nat} (h : (LCase.tail n, i) ∈ rows) :
    ∃ m, longestWithTail rows = some m ∧ n ≤ m := by
  induction rows with
  | nil => cases h
  | cons r rows ih =>
    obtain ⟨rc, j⟩ := r
    simp only [List.mem_cons, Prod.mk.injEq] at h
    cases rc with
    | wild =>
      rcases h with h | h
      · cases h.1
      · simpa [longestWithTail] using ih h
    | list t =>
      rcases h with h | h
      · cases h.1
      · simpa [longestWithTail] using ih h
    | tail n' =>
      simp only [longestWithTail]
      rcases h with h | h
      · cases h.1
        cases longestWithTail rows with
        | none => exact ⟨n, rfl, Nat.le_refl _⟩
        | some m => exact ⟨max n m, rfl, Nat.le_max_left _ _⟩
      · obtain ⟨m, hm, hle⟩ := ih h
        rw [hm]
        exact ⟨max n' m, rfl, Nat.le_trans hle (Nat.le_max_right _ _)⟩

/-! ### `addTo` -/

theorem addTo_keys (c : LCase) (i : Nat) (d : List Nat) (cs : Cases) (c' : LCase) :
    c' ∈ keys (addTo c i d cs) ↔ c' = c ∨ c' ∈ keys cs := by
  induction cs with
  | nil => simp [addTo, keys]
  | cons x cs ih =>
    obtain ⟨c0, rs0⟩ := x
    simp only [addTo]
    split
    · rename_i e; subst e
      simp only [keys, List.map_cons, List.mem_cons]
      constructor
      · rintro (h | h)
        · right; left; exact h
        · right; right; exact h
      · rintro (h | h | h)
        · left; exact h
        · left; exact h
        · right; exact h
    · simp only [keys, List.map_cons, List.mem_cons] at ih ⊢
      rw [ih]
      constructor
      · rintro (h | h | h)
        · right; left; exact h
        · left; exact h
        · right; right; exact h
      · rintro (h | h | h)
        · right; left; exact h
        · left; exact h
        · right; right; exact h

theorem addTo_nodup (c : LCase) (i : Nat) (d : List Nat) (cs : Cases) (h : (keys cs).Nodup) :
    (keys (addTo c i d cs)).Nodup := by
  induction cs with
  | nil => simp [addTo, keys]
  | cons x cs ih =>
    obtain ⟨c0, rs0⟩ := x
    simp only [keys, List.map_cons, List.nodup_cons] at h
    simp only [addTo]
    split
    · simp only [keys, List.map_cons, List.nodup_cons]; exact h
    · rename_i hne
      simp only [keys, List.map_cons, List.nodup_cons]
      refine ⟨?_, ih h.2⟩
      intro hm
      have := (addTo_keys c i d cs c0).mp hm
      rcases this with e | e
      · exact hne e
      · exact h.1 e

/-- entries after `addTo`: the entry of `c` gets `i` appended (it starts from the default rows
if it is new), the others are unchanged -/
theorem addTo_mem (c : LCase) (i : Nat) (d : List Nat) (cs : Cases) (hn : (keys cs).Nodup)
    {c' : LCase} {rs : List Nat} (h : (c', rs) ∈ addTo c i d cs) :
    (c' ≠ c ∧ (c', rs) ∈ cs) ∨
      (c' = c ∧ ((∃ rs0, (c, rs0) ∈ cs ∧ rs = rs0 ++ [i]) ∨ (c ∉ keys cs ∧ rs = d ++ [i]))) := by
  induction cs with
  | nil =>
    simp only [addTo, List.mem_singleton, Prod.mk.injEq] at h
    right; exact ⟨h.1, Or.inr ⟨by simp [keys], h.2⟩⟩
  | cons x cs ih =>
    obtain ⟨c0, rs0⟩ := x
    simp only [keys, List.map_cons, List.nodup_cons] at hn
    simp only [addTo] at h
    split at h
    · rename_i e; subst e
      simp only [List.mem_cons, Prod.mk.injEq] at h
      rcases h with h | h
      · right; exact ⟨h.1, Or.inl ⟨rs0, by simp, h.2⟩⟩
      · left
        refine ⟨?_, List.mem_cons_of_mem _ h⟩
        intro e; subst e
        exact hn.1 (List.mem_map.mpr ⟨_, h, rfl⟩)
    · rename_i hne
      simp only [List.mem_cons, Prod.mk.injEq] at h
      rcases h with h | h
      · left
        refine ⟨?_, by simp [h.1, h.2]⟩
        rw [h.1]; exact hne
      · rcases ih hn.2 h with ⟨h1, h2⟩ | ⟨h1, h2⟩
        · left; exact ⟨h1, List.mem_cons_of_mem _ h2⟩
        · right
          refine ⟨h1, ?_⟩
          rcases h2 with ⟨rs1, h3, h4⟩ | ⟨h3, h4⟩
          · left; exact ⟨rs1, List.mem_cons_of_mem _ h3, h4⟩
          · right
            refine ⟨?_, h4⟩
            simp only [keys, List.map_cons, List.mem_cons, not_or]
            exact ⟨fun e => hne e.symm, h3⟩

/-- pushing one row into the cases `ks` (distinct), given that the row has not been pushed to
them yet (`done`) -/
theorem foldAdd (i : Nat) (d : List Nat) (old : LCase → List Nat) :
    ∀ (ks : List LCase) (cs : Cases) (done : List LCase),
      ks.Nodup → (∀ c ∈ ks, c ∉ done) → (keys cs).Nodup →
      (∀ c rs, (c, rs) ∈ cs → rs = old c ++ (if c ∈ done then [i] else [])) →
      (∀ c ∈ ks, c ∉ keys cs → old c = d) →
      let cs' := ks.foldl (fun cs k => addTo k i d cs) cs
      (keys cs').Nodup ∧ (∀ c, c ∈ keys cs' ↔ c ∈ keys cs ∨ c ∈ ks) ∧
        (∀ c rs, (c, rs) ∈ cs' → rs = old c ++ (if c ∈ done ++ ks then [i] else [])) := by
  intro ks
  induction ks with
  | nil =>
    intro cs done _ _ hn hJ _
    refine ⟨hn, fun c => by simp, ?_⟩
    simpa using hJ
  | cons k ks ih =>
    intro cs done hks hdone hn hJ hnew
    simp only [List.nodup_cons] at hks
    simp only [List.foldl_cons]
    have hk_nd : k ∉ done := hdone k List.mem_cons_self
    have hJ' : ∀ c rs, (c, rs) ∈ addTo k i d cs → rs = old c ++ (if c ∈ done ++ [k] then [i] else []) := by
      intro c rs hm
      rcases addTo_mem k i d cs hn hm with ⟨h1, h2⟩ | ⟨h1, h2⟩
      · have := hJ c rs h2
        rw [this]
        have : (c ∈ done ++ [k]) ↔ c ∈ done := by simp [h1]
        simp only [this]
      · subst h1
        have hin : c ∈ done ++ [c] := by simp
        simp only [hin, if_true]
        rcases h2 with ⟨rs0, h3, h4⟩ | ⟨h3, h4⟩
        · have := hJ c rs0 h3
          simp only [hk_nd, if_false, List.append_nil] at this
          rw [h4, this]
        · rw [h4, hnew c List.mem_cons_self h3]
    have := ih (addTo k i d cs) (done ++ [k]) hks.2
      (by
        intro c hc hcd
        simp only [List.mem_append, List.mem_singleton] at hcd
        rcases hcd with h | h
        · exact hdone c (List.mem_cons_of_mem _ hc) h
        · subst h; exact hks.1 hc)
      (addTo_nodup k i d cs hn) hJ'
      (by
        intro c hc hnk
        apply hnew c (List.mem_cons_of_mem _ hc)
        intro hck
        exact hnk ((addTo_keys k i d cs c).mpr (Or.inr hck)))
    obtain ⟨h1, h2, h3⟩ := this
    refine ⟨h1, ?_, ?_⟩
    · intro c
      rw [h2 c, addTo_keys]
      simp only [List.mem_cons]
      constructor
      · rintro ((h | h) | h)
        · right; left; exact h
        · left; exact h
        · right; right; exact h
      · rintro (h | h | h)
        · left; right; exact h
        · left; left; exact h
        · right; exact h
    · intro c rs hm
      have := h3 c rs hm
      simpa [List.append_assoc] using this

/-! ### the invariant of the fold in `do_build_tree` -/

structure Inv (nt wt : Option Nat) (pre : List Row) (st : List Nat × Cases) : Prop where
  dflt : st.1 = wildsOf pre
  ent : ∀ c rs, (c, rs) ∈ st.2 → rs = sel c pre
  nd : (keys st.2).Nodup
  ex : ∀ r ∈ pre, ∀ c, inU nt wt r.1 c → c ∈ keys st.2
  bd : ∀ c ∈ keys st.2, bounded nt wt c

def rowBounded (nt wt : Option Nat) (r : Row) : Prop :=
  match r.1 with
  | .wild => True
  | c => bounded nt wt c

theorem sel_append (c : LCase) (pre : List Row) (r : Row) :
    sel c (pre ++ [r]) = sel c pre ++ (if compat r.1 c then [r.2] else []) := by
  simp only [sel, List.filter_append, List.map_append]
  by_cases h : compat r.1 c = true <;> simp [List.filter_cons, h]

theorem wildsOf_append (pre : List Row) (r : Row) :
    wildsOf (pre ++ [r]) = wildsOf pre ++ (if r.1 = .wild then [r.2] else []) := by
  simp only [wildsOf, List.filter_append, List.map_append]
  by_cases h : r.1 = .wild <;> simp [List.filter_cons, h]

theorem compat_inU {nt wt : Option Nat} {rc c : LCase} (hne : rc ≠ .wild) (hb : bounded nt wt c)
    (h : compat rc c = true) : inU nt wt rc c := by
  cases rc with
  | wild => exact absurd rfl hne
  | list n =>
    cases c with
    | wild => simp [compat] at h
    | tail k => simp [compat] at h
    | list k => simp only [compat, decide_eq_true_eq] at h; subst h; rfl
  | tail t =>
    cases c with
    | wild => simp [compat] at h
    | list k =>
      simp only [compat, decide_eq_true_eq] at h
      obtain ⟨m, hm, hk⟩ := hb
      exact Or.inl ⟨k, m, rfl, hm, h, hk⟩
    | tail k =>
      simp only [compat, decide_eq_true_eq] at h
      obtain ⟨m, hm, hk⟩ := hb
      exact Or.inr ⟨k, m, rfl, hm, h, hk⟩

theorem inU_compat {nt wt : Option Nat} {rc c : LCase} (h : inU nt wt rc c) : compat rc c = true := by
  cases rc with
  | wild => cases h
  | list n => simp only [inU] at h; subst h; simp [compat]
  | tail t =>
    rcases h with ⟨k, m, e, _, h1, _⟩ | ⟨k, m, e, _, h1, _⟩ <;> subst e <;> simp [compat, h1]

theorem inU_bounded {nt wt : Option Nat} {rc c : LCase} (hr : rowBounded nt wt (rc, 0))
    (h : inU nt wt rc c) : bounded nt wt c := by
  cases rc with
  | wild => cases h
  | list n => simp only [inU] at h; subst h; exact hr
  | tail t =>
    rcases h with ⟨k, m, e, hm, _, h2⟩ | ⟨k, m, e, hm, _, h2⟩ <;> subst e <;> exact ⟨m, hm, h2⟩

/-- a case that does not exist yet has, so far, only the wildcard rows -/
theorem sel_eq_wilds {nt wt : Option Nat} {pre : List Row} {st : List Nat × Cases}
    (inv : Inv nt wt pre st) {c : LCase} (hb : bounded nt wt c) (hn : c ∉ keys st.2) :
    sel c pre = st.1 := by
  rw [inv.dflt]
  simp only [sel, wildsOf]
  congr 1
  apply List.filter_congr
  intro r hr
  by_cases hw : r.1 = .wild
  · rw [hw]
    cases c with
    | wild => cases hb
    | list k => simp [compat]
    | tail k => simp [compat]
  · simp only [hw, decide_false]
    cases hc : compat r.1 c with
    | false => rfl
    | true => exact absurd (inv.ex r hr c (compat_inU hw hb hc)) hn

theorem upto_mem (frm to k : Nat) : k ∈ upto frm to ↔ frm ≤ k ∧ k ≤ to := by
  simp only [upto, List.mem_range'_1]
  omega

/-- the cases a `[.., ..tail]` row of length `t` is pushed to -/
def tailKeys (nt wt : Option Nat) (t : Nat) : List LCase :=
  (match nt with | some m => (upto t m).map LCase.list | none => []) ++
    (match wt with | some m => (upto t m).map LCase.tail | none => [])

theorem tailKeys_mem (nt wt : Option Nat) (t : Nat) (c : LCase) :
    c ∈ tailKeys nt wt t ↔ inU nt wt (.tail t) c := by
  simp only [tailKeys, List.mem_append, inU]
  constructor
  · rintro (h | h)
    · cases nt with
      | none => simp at h
      | some m =>
        simp only [List.mem_map] at h
        obtain ⟨k, hk, e⟩ := h
        rw [upto_mem] at hk
        exact Or.inl ⟨k, m, e.symm, rfl, hk.1, hk.2⟩
    · cases wt with
      | none => simp at h
      | some m =>
        simp only [List.mem_map] at h
        obtain ⟨k, hk, e⟩ := h
        rw [upto_mem] at hk
        exact Or.inr ⟨k, m, e.symm, rfl, hk.1, hk.2⟩
  · rintro (⟨k, m, e, hm, h1, h2⟩ | ⟨k, m, e, hm, h1, h2⟩)
    · left; subst hm; subst e
      simp only [List.mem_map]
      exact ⟨k, (upto_mem t m k).mpr ⟨h1, h2⟩, rfl⟩
    · right; subst hm; subst e
      simp only [List.mem_map]
      exact ⟨k, (upto_mem t m k).mpr ⟨h1, h2⟩, rfl⟩

theorem tailKeys_nodup (nt wt : Option Nat) (t : Nat) : (tailKeys nt wt t).Nodup := by
  simp only [tailKeys]
  apply List.nodup_append.mpr
  refine ⟨?_, ?_, ?_⟩
  · cases nt with
    | none => simp
    | some m =>
      exact List.Pairwise.map LCase.list (fun a b h e => h (by cases e; rfl)) List.nodup_range'
  · cases wt with
    | none => simp
    | some m =>
      exact List.Pairwise.map LCase.tail (fun a b h e => h (by cases e; rfl)) List.nodup_range'
  · intro a ha b hb e
    subst e
    cases nt with
    | none => simp at ha
    | some m =>
      simp only [List.mem_map] at ha
      obtain ⟨k, _, e⟩ := ha
      subst e
      cases wt with
      | none => simp at hb
      | some m' => simp at hb

theorem step_tail_eq (nt wt : Option Nat) (st : List Nat × Cases) (t i : Nat) :
    step nt wt st (.tail t, i) =
      (st.1, (tailKeys nt wt t).foldl (fun cs c => addTo c i st.1 cs) st.2) := by
  simp only [step, tailKeys, List.foldl_append]
  cases nt <;> cases wt <;> simp [List.foldl_map]

theorem step_inv {nt wt : Option Nat} {pre : List Row} {st : List Nat × Cases}
    (inv : Inv nt wt pre st) (row : Row) (hrow : rowBounded nt wt row) :
    Inv nt wt (pre ++ [row]) (step nt wt st row) := by
  obtain ⟨rc, i⟩ := row
  -- the common part of the two non-wildcard cases
  have hpush : ∀ (ks : List LCase), ks.Nodup → (∀ c, c ∈ ks ↔ inU nt wt rc c) → rc ≠ .wild →
      Inv nt wt (pre ++ [(rc, i)]) (st.1, ks.foldl (fun cs c => addTo c i st.1 cs) st.2) := by
    intro ks hks hmem hne
    have hb' : rowBounded nt wt (rc, 0) := by
      simp only [rowBounded] at hrow ⊢; exact hrow
    obtain ⟨h1, h2, h3⟩ := foldAdd i st.1 (fun c => sel c pre) ks st.2 [] hks (by simp) inv.nd
      (by intro c rs h; simpa using inv.ent c rs h)
      (by
        intro c hc hn
        exact sel_eq_wilds inv (inU_bounded hb' ((hmem c).mp hc)) hn)
    have hbd : ∀ c, c ∈ keys (ks.foldl (fun cs c => addTo c i st.1 cs) st.2) → bounded nt wt c := by
      intro c hc
      rcases (h2 c).mp hc with h | h
      · exact inv.bd c h
      · exact inU_bounded hb' ((hmem c).mp h)
    refine ⟨?_, ?_, h1, ?_, hbd⟩
    · simp only
      rw [wildsOf_append, inv.dflt]
      simp [hne]
    · intro c rs hm
      have hcb : bounded nt wt c := hbd c (List.mem_map.mpr ⟨_, hm, rfl⟩)
      rw [sel_append, h3 c rs hm]
      simp only [List.nil_append]
      by_cases hc : c ∈ ks
      · simp [hc, inU_compat ((hmem c).mp hc)]
      · have : compat rc c = false := by
          cases hcc : compat rc c with
          | false => rfl
          | true => exact absurd ((hmem c).mpr (compat_inU hne hcb hcc)) hc
        simp [hc, this]
    · intro r hr c hu
      simp only [List.mem_append, List.mem_singleton] at hr
      rw [h2 c]
      rcases hr with hr | hr
      · left; exact inv.ex r hr c hu
      · subst hr; right; exact (hmem c).mpr hu
  cases rc with
  | wild =>
    simp only [step]
    refine ⟨?_, ?_, ?_, ?_, ?_⟩
    · simp only
      rw [wildsOf_append, inv.dflt]; simp
    · intro c rs hm
      simp only [List.mem_map, Prod.mk.injEq] at hm
      obtain ⟨⟨c0, rs0⟩, hm0, e1, e2⟩ := hm
      simp only at e1 e2
      subst e1; subst e2
      have hcb := inv.bd c0 (List.mem_map.mpr ⟨_, hm0, rfl⟩)
      rw [sel_append, inv.ent c0 rs0 hm0]
      cases c0 with
      | wild => cases hcb
      | list k => simp [compat]
      | tail k => simp [compat]
    · have : keys (st.2.map (fun c => (c.1, c.2 ++ [i]))) = keys st.2 := by
        simp [keys, List.map_map, Function.comp_def]
      rw [this]; exact inv.nd
    · intro r hr c hu
      have : keys (st.2.map (fun c => (c.1, c.2 ++ [i]))) = keys st.2 := by
        simp [keys, List.map_map, Function.comp_def]
      rw [this]
      simp only [List.mem_append, List.mem_singleton] at hr
      rcases hr with hr | hr
      · exact inv.ex r hr c hu
      · subst hr; cases hu
    · intro c hc
      have : keys (st.2.map (fun c => (c.1, c.2 ++ [i]))) = keys st.2 := by
        simp [keys, List.map_map, Function.comp_def]
      rw [this] at hc
      exact inv.bd c hc
  | list n =>
    have := hpush [.list n] (by simp) (by intro c; simp [inU]) (by intro e; cases e)
    simpa [step] using this
  | tail t =>
    rw [step_tail_eq]
    exact hpush (tailKeys nt wt t) (tailKeys_nodup nt wt t) (tailKeys_mem nt wt t) (by intro e; cases e)

theorem foldl_inv {nt wt : Option Nat} (rest : List Row) :
    ∀ (pre : List Row) (st : List Nat × Cases), Inv nt wt pre st →
      (∀ r ∈ rest, rowBounded nt wt r) → Inv nt wt (pre ++ rest) (rest.foldl (step nt wt) st) := by
  induction rest with
  | nil => intro pre st inv _; simpa using inv
  | cons r rest ih =>
    intro pre st inv hb
    simp only [List.foldl_cons]
    have := ih (pre ++ [r]) (step nt wt st r) (step_inv inv r (hb r List.mem_cons_self))
      (fun r' h => hb r' (List.mem_cons_of_mem _ h))
    simpa [List.append_assoc] using this

theorem split_inv (rows : List Row) :
    Inv (longestNoTail rows) (longestWithTail rows) rows (split rows) := by
  have h0 : Inv (longestNoTail rows) (longestWithTail rows) [] ([], []) := by
    refine ⟨?_, ?_, ?_, ?_, ?_⟩
    · simp [wildsOf]
    · intro c rs h; cases h
    · simp [keys]
    · intro r h; cases h
    · intro c h; simp [keys] at h
  have := foldl_inv (nt := longestNoTail rows) (wt := longestWithTail rows) rows [] ([], []) h0
    (by
      intro r hr
      obtain ⟨rc, i⟩ := r
      cases rc with
      | wild => simp [rowBounded]
      | list n => exact longestNoTail_ge hr
      | tail t => exact longestWithTail_ge hr)
  simpa [split] using this

/-! ### the selection in `handle_decision_tree` -/

theorem findList_some {L : Nat} {cs : Cases} {c : LCase × List Nat} (h : findList L cs = some c) :
    c.1 = .list L ∧ c ∈ cs := by
  induction cs with
  | nil => simp [findList] at h
  | cons x cs ih =>
    simp only [findList] at h
    split at h
    · rename_i e; cases h; exact ⟨e, List.mem_cons_self⟩
    · obtain ⟨h1, h2⟩ := ih h
      exact ⟨h1, List.mem_cons_of_mem _ h2⟩

theorem findList_none {L : Nat} {cs : Cases} (h : findList L cs = none) : .list L ∉ keys cs := by
  induction cs with
  | nil => simp [keys]
  | cons x cs ih =>
    simp only [findList] at h
    split at h
    · cases h
    · rename_i hne
      simp only [keys, List.map_cons, List.mem_cons, not_or]
      exact ⟨fun e => hne e.symm, ih h⟩

theorem maxTail_some {l : Cases} {b : LCase × List Nat} (h : maxTail l = some b) :
    b ∈ l ∧ ∀ c ∈ l, tailLen c.1 ≤ tailLen b.1 := by
  induction l generalizing b with
  | nil => simp [maxTail] at h
  | cons x l ih =>
    simp only [maxTail] at h
    cases hm : maxTail l with
    | none =>
      rw [hm] at h
      simp only [Option.some.injEq] at h; subst h
      have : l = [] := by
        cases l with
        | nil => rfl
        | cons y l' =>
          simp only [maxTail] at hm
          split at hm
          · split at hm <;> cases hm
          · cases hm
      subst this
      exact ⟨List.mem_cons_self, by intro c hc; simp at hc; subst hc; exact Nat.le_refl _⟩
    | some b0 =>
      rw [hm] at h
      obtain ⟨h1, h2⟩ := ih hm
      simp only at h
      split at h
      · rename_i hgt
        cases h
        refine ⟨List.mem_cons_self, ?_⟩
        intro c hc
        simp only [List.mem_cons] at hc
        rcases hc with e | hc
        · subst e; exact Nat.le_refl _
        · have := h2 c hc; omega
      · rename_i hgt
        cases h
        refine ⟨List.mem_cons_of_mem _ h1, ?_⟩
        intro c hc
        simp only [List.mem_cons] at hc
        rcases hc with e | hc
        · subst e; omega
        · exact h2 c hc

theorem maxTail_none {l : Cases} (h : maxTail l = none) : l = [] := by
  cases l with
  | nil => rfl
  | cons y l' =>
    simp only [maxTail] at h
    split at h
    · split at h <;> cases h
    · cases h

def lpStep (longest : Nat) (c : LCase × List Nat) : Nat :=
  match c.1 with
  | .list i => if longest < i then i else longest
  | .tail i => if longest < i then i - 1 else longest
  | .wild => longest

theorem longestPattern_eq (cs : Cases) : longestPattern cs = cs.foldl lpStep 0 := rfl

theorem lpStep_ge (acc : Nat) (c : LCase × List Nat) : acc ≤ lpStep acc c := by
  obtain ⟨c0, rs⟩ := c
  cases c0 <;> simp only [lpStep] <;> (try split) <;> omega

theorem lpStep_list (acc i : Nat) (rs : List Nat) : i ≤ lpStep acc (.list i, rs) := by
  simp only [lpStep]; split <;> omega

theorem lpStep_tail (acc i : Nat) (rs : List Nat) : i - 1 ≤ lpStep acc (.tail i, rs) := by
  simp only [lpStep]; split <;> omega

theorem foldl_lpStep (cs : Cases) : ∀ acc,
    acc ≤ cs.foldl lpStep acc ∧
      ∀ c ∈ keys cs, (∀ i, c = .list i → i ≤ cs.foldl lpStep acc) ∧
        (∀ i, c = .tail i → i - 1 ≤ cs.foldl lpStep acc) := by
  induction cs with
  | nil => intro acc; simp [keys]
  | cons x cs ih =>
    intro acc
    obtain ⟨c0, rs0⟩ := x
    simp only [List.foldl_cons]
    obtain ⟨h1, h2⟩ := ih (lpStep acc (c0, rs0))
    refine ⟨Nat.le_trans (lpStep_ge acc _) h1, ?_⟩
    intro c hc
    simp only [keys, List.map_cons, List.mem_cons] at hc
    rcases hc with e | hc
    · subst e
      constructor
      · intro i e; subst e; exact Nat.le_trans (lpStep_list acc i rs0) h1
      · intro i e; subst e; exact Nat.le_trans (lpStep_tail acc i rs0) h1
    · exact h2 c hc

/-- `longest_pattern` dominates every case: `List(i)` by `i`, `ListWithTail(i)` by `i - 1` -/
theorem longestPattern_ge (cs : Cases) :
    ∀ c ∈ keys cs, (∀ i, c = .list i → i ≤ longestPattern cs) ∧
      (∀ i, c = .tail i → i - 1 ≤ longestPattern cs) := by
  intro c hc
  rw [longestPattern_eq]
  exact (foldl_lpStep cs 0).2 c hc

theorem compat_list_admits (rc : LCase) (L : Nat) : compat rc (.list L) = rc.admits L := by
  cases rc <;> simp [compat, LCase.admits]

theorem isTail_iff (c : LCase) : isTail c = true ↔ ∃ k, c = .tail k := by
  cases c <;> simp [isTail]

/-- **the fixed dispatch is correct**: a list of length `L` is handled by exactly the rows whose
list pattern admits length `L`, in source order -/
theorem dispatchFixed_eq (rows : List Row) (L : Nat) :
    dispatchFixed rows L = (rows.filter (fun r => r.1.admits L)).map (·.2) := by
  have inv := split_inv rows
  have hlist : ∀ i, (LCase.list L, i) ∈ rows → LCase.list L ∈ keys (split rows).2 := by
    intro i hi; exact inv.ex _ hi _ rfl
  have htail : ∀ t i, (LCase.tail t, i) ∈ rows → LCase.tail t ∈ keys (split rows).2 := by
    intro t i hi
    obtain ⟨m, hm, hle⟩ := longestWithTail_ge hi
    exact inv.ex _ hi _ (Or.inr ⟨t, m, rfl, hm, Nat.le_refl _, hle⟩)
  have hLP := longestPattern_ge (split rows).2
  -- a tail key is an element of the filtered tail cases
  have htails : ∀ t, LCase.tail t ∈ keys (split rows).2 →
      ∃ rs, (LCase.tail t, rs) ∈ (split rows).2.filter (fun c => isTail c.1) := by
    intro t ht
    simp only [keys, List.mem_map] at ht
    obtain ⟨⟨c, rs⟩, hm, e⟩ := ht
    simp only at e; subst e
    exact ⟨rs, List.mem_filter.mpr ⟨hm, by simp [isTail]⟩⟩
  simp only [dispatchFixed]
  split
  · -- L ≤ longest_pattern
    rename_i hle
    cases hf : findList L (split rows).2 with
    | some c =>
      try simp only
      obtain ⟨h1, h2⟩ := findList_some hf
      obtain ⟨c1, rs⟩ := c
      simp only at h1; subst h1
      rw [inv.ent _ _ h2]
      simp only [sel]
      congr 1
      apply List.filter_congr
      intro r _
      exact compat_list_admits r.1 L
    | none =>
      try simp only
      have hnl := findList_none hf
      cases hm : maxTail (((split rows).2.filter (fun c => isTail c.1)).filter (fun c => decide (tailLen c.1 ≤ L))) with
      | some b =>
        try simp only
        obtain ⟨hb1, hb2⟩ := maxTail_some hm
        obtain ⟨hb3, hb4⟩ := List.mem_filter.mp hb1
        obtain ⟨hb5, hb6⟩ := List.mem_filter.mp hb3
        obtain ⟨bc, brs⟩ := b
        obtain ⟨m, e⟩ := (isTail_iff bc).mp hb6
        subst e
        have hb4 : m ≤ L := of_decide_eq_true hb4
        rw [inv.ent _ _ hb5]
        simp only [sel]
        congr 1
        apply List.filter_congr
        intro r hr
        obtain ⟨rc, i⟩ := r
        cases rc with
        | wild => simp [compat, LCase.admits]
        | list n =>
          simp only [compat, LCase.admits]
          by_cases e : n = L
          · subst e; exact absurd (hlist i hr) hnl
          · simp [e]
        | tail t =>
          simp only [compat, LCase.admits]
          by_cases ht : t ≤ L
          · obtain ⟨rs, hrs⟩ := htails t (htail t i hr)
            have := hb2 (LCase.tail t, rs) (List.mem_filter.mpr ⟨hrs, by simp [tailLen, ht]⟩)
            simp only [tailLen] at this
            simp [ht, this]
          · have : ¬ t ≤ m := by omega
            simp [ht, this]
      | none =>
        try simp only
        have hnil := maxTail_none hm
        rw [inv.dflt]
        simp only [wildsOf]
        congr 1
        apply List.filter_congr
        intro r hr
        obtain ⟨rc, i⟩ := r
        cases rc with
        | wild => simp [LCase.admits]
        | list n =>
          simp only [LCase.admits]
          by_cases e : n = L
          · subst e; exact absurd (hlist i hr) hnl
          · simp [e]
        | tail t =>
          simp only [LCase.admits]
          by_cases ht : t ≤ L
          · obtain ⟨rs, hrs⟩ := htails t (htail t i hr)
            have : (LCase.tail t, rs) ∈ ((split rows).2.filter (fun c => isTail c.1)).filter
                (fun c => decide (tailLen c.1 ≤ L)) :=
              List.mem_filter.mpr ⟨hrs, by simp [tailLen, ht]⟩
            rw [hnil] at this; cases this
          · simp [ht]
  · -- L > longest_pattern
    rename_i hgt
    have hnl : ∀ i, (LCase.list L, i) ∉ rows := by
      intro i hi
      have := (hLP _ (hlist i hi)).1 L rfl
      omega
    cases hm : maxTail ((split rows).2.filter (fun c => isTail c.1)) with
    | some b =>
      try simp only
      obtain ⟨hb1, hb2⟩ := maxTail_some hm
      obtain ⟨hb5, hb6⟩ := List.mem_filter.mp hb1
      obtain ⟨bc, brs⟩ := b
      obtain ⟨m, e⟩ := (isTail_iff bc).mp hb6
      subst e
      have hmL : m ≤ L := by
        have := (hLP _ (List.mem_map.mpr ⟨_, hb5, rfl⟩)).2 m rfl
        omega
      rw [inv.ent _ _ hb5]
      simp only [sel]
      congr 1
      apply List.filter_congr
      intro r hr
      obtain ⟨rc, i⟩ := r
      cases rc with
      | wild => simp [compat, LCase.admits]
      | list n =>
        simp only [compat, LCase.admits]
        by_cases e : n = L
        · subst e; exact absurd hr (hnl i)
        · simp [e]
      | tail t =>
        simp only [compat, LCase.admits]
        obtain ⟨rs, hrs⟩ := htails t (htail t i hr)
        have := hb2 (LCase.tail t, rs) hrs
        simp only [tailLen] at this
        have : t ≤ L := by omega
        simp [*]
    | none =>
      try simp only
      have hnil := maxTail_none hm
      rw [inv.dflt]
      simp only [wildsOf]
      congr 1
      apply List.filter_congr
      intro r hr
      obtain ⟨rc, i⟩ := r
      cases rc with
      | wild => simp [LCase.admits]
      | list n =>
        simp only [LCase.admits]
        by_cases e : n = L
        · subst e; exact absurd hr (hnl i)
        · simp [e]
      | tail t =>
        obtain ⟨rs, hrs⟩ := htails t (htail t i hr)
        rw [hnil] at hrs; cases hrs

end AikenVerif.ListSwitch
