import AikenVerif.Lemmas.ShrinkSimplify
/-!
The PRNG protocol: a replayed PRNG hands out the recorded choices in order, a seeded PRNG records
what it hands out, and therefore replaying the recorded choices regenerates the value.
Verdict lemmas.
-/
namespace AikenVerif.Shrink

variable {α : Type}

theorem draw_replayed {S : SeedSys} (pre : Choices) : ∀ rest : Choices,
    Prng.draw (S := S) (.replayed rest.length (pre ++ rest).reverse) =
      match rest with
      | [] => none
      | b :: rest' => some (b, .replayed rest'.length (pre ++ rest).reverse)
  | [] => by simp [Prng.draw]
  | b :: rest' => by
    have h : (pre ++ b :: rest').reverse[rest'.length]? = some b := by
      rw [List.getElem?_reverse (by simp; omega)]
      simp only [List.length_append, List.length_cons]
      rw [show pre.length + (rest'.length + 1) - 1 - rest'.length = pre.length by omega]
      simp
    simp [Prng.draw, h]

theorem sample_replayed {S : SeedSys} : ∀ (g : Gen α) (pre rest : Choices),
    (g.sample (S := S) (.replayed rest.length (pre ++ rest).reverse)).map (·.2) = g.replay rest
  | .done none, _, _ => by simp [Gen.sample, Gen.replay]
  | .done (some a), _, _ => by simp [Gen.sample, Gen.replay]
  | .read k, pre, [] => by simp [Gen.sample, Gen.replay, Prng.draw]
  | .read k, pre, b :: rest' => by
    unfold Gen.sample
    rw [draw_replayed pre (b :: rest')]
    simp only [Gen.replay]
    have := sample_replayed (S := S) (k b) (pre ++ [b]) rest'
    rw [List.append_assoc] at this
    exact this

theorem sample_fromChoices {S : SeedSys} (g : Gen α) (cs : Choices) :
    (g.sample (S := S) (Prng.fromChoices cs)).map (·.2) = g.replay cs := by
  have := sample_replayed (S := S) g [] cs
  simpa [Prng.fromChoices] using this

theorem sample_seeded {S : SeedSys} : ∀ (g : Gen α) (seed : S.σ) (acc : Choices) (p' : Prng S) (a : α),
    g.sample (.seeded seed acc) = some (p', a) →
      ∃ drawn seed', p' = .seeded seed' (drawn.reverse ++ acc) ∧ g.replay drawn = some a
  | .done none, _, _, _, _, h => by simp [Gen.sample] at h
  | .done (some a₀), seed, acc, p', a, h => by
    simp only [Gen.sample, Option.some.injEq, Prod.mk.injEq] at h
    exact ⟨[], seed, by simp [← h.1], by simp [Gen.replay, h.2]⟩
  | .read k, seed, acc, p', a, h => by
    simp only [Gen.sample, Prng.draw] at h
    have ⟨drawn, seed', h1, h2⟩ := sample_seeded (k (S.byte seed)) (S.next seed) (S.byte seed :: acc) p' a h
    exact ⟨S.byte seed :: drawn, seed', by simp [h1], by simp [Gen.replay, h2]⟩

theorem replay_append : ∀ (g : Gen α) (p s : Choices) (a : α),
    g.replay p = some a → g.replay (p ++ s) = some a
  | .done r, _, _, _, h => by simpa [Gen.replay] using h
  | .read k, [], _, _, h => by simp [Gen.replay] at h
  | .read k, b :: p, s, a, h => by
    simp only [Gen.replay, List.cons_append] at *
    exact replay_append (k b) p s a h

/-- the closure of `run_once`, seen through `replay` -/
theorem runOf_eq (S : SeedSys) (g : Gen α) (keep : α → Bool) (cs : Choices) :
    runOf S g keep cs =
      match g.replay cs with
      | none => .invalid
      | some a => if keep a then .keep a else .ignore := by
  unfold runOf
  rw [← sample_fromChoices (S := S) g cs]
  cases g.sample (S := S) (Prng.fromChoices cs) with
  | none => rfl
  | some pa => rfl

theorem runOf_keep (S : SeedSys) (g : Gen α) (keep : α → Bool) (cs : Choices) (a : α) :
    runOf S g keep cs = .keep a ↔ (g.replay cs = some a ∧ keep a = true) := by
  rw [runOf_eq]
  cases h : g.replay cs with
  | none => simp
  | some b =>
    simp only
    by_cases hk : keep b = true
    · simp only [hk, if_true, Status.keep.injEq, Option.some.injEq]
      constructor
      · intro h; subst h; exact ⟨rfl, hk⟩
      · intro h; exact h.1
    · simp only [hk, Option.some.injEq]
      constructor
      · intro h; simp at h
      · intro h; rw [h.1] at hk; exact absurd h.2 hk

/-! ### verdicts -/

theorem runNTimes_spec (otf : OnTestFailure) : ∀ fs : List Bool,
    isSuccess otf (runNTimes otf fs).1 = verdictSpec otf fs
  | [] => by cases otf <;> rfl
  | f :: fs => by
    have ih := runNTimes_spec otf fs
    cases otf <;> cases f <;>
      simp_all [runNTimes, keepCounterexample, isSuccess, verdictSpec]

theorem runNTimes_iterations (otf : OnTestFailure) : ∀ fs : List Bool,
    (runNTimes otf fs).2 ≤ fs.length ∧
    ((runNTimes otf fs).1 = false → (runNTimes otf fs).2 = fs.length)
  | [] => by simp [runNTimes]
  | f :: fs => by
    have ih := runNTimes_iterations otf fs
    unfold runNTimes
    split
    · simp
    · simp only [List.length_cons]
      exact ⟨by omega, fun h => by rw [ih.2 h]⟩

end AikenVerif.Shrink
