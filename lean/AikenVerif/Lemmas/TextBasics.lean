import AikenVerif.Model.Text
/-! Helper lemmas for C15: numbers, hex, string escapes (character level). -/
namespace AikenVerif.Text
open AikenVerif.Gen.TextTables

-- ------------------------------------------------------------------ characters
theorem digitChar_toNat : ∀ d, d < 10 → (digitChar d).toNat = 48 + d := by decide

theorem digitChar_isDigit : ∀ d, d < 10 → isDigit (digitChar d) = true := by decide

theorem digitChar_isIdentChar : ∀ d, d < 10 → isIdentChar (digitChar d) = true := by decide

theorem isDigit_ne_minus {c : Char} (h : isDigit c = true) : c ≠ '-' := by
  rintro rfl; revert h; decide

theorem isDigit_ne_plus {c : Char} (h : isDigit c = true) : c ≠ '+' := by
  rintro rfl; revert h; decide

theorem isDigit_ne_dot {c : Char} (h : isDigit c = true) : c ≠ '.' := by
  rintro rfl; revert h; decide

theorem takeWhile_all {α} (p : α → Bool) (l : List α) (h : ∀ x ∈ l, p x = true) : l.takeWhile p = l := by
  induction l with
  | nil => rfl
  | cons a l ih => simp [List.takeWhile, h a (by simp), ih (fun x hx => h x (by simp [hx]))]

theorem dropWhile_all {α} (p : α → Bool) (l : List α) (h : ∀ x ∈ l, p x = true) : l.dropWhile p = [] := by
  induction l with
  | nil => rfl
  | cons a l ih => simp [List.dropWhile, h a (by simp), ih (fun x hx => h x (by simp [hx]))]

-- ------------------------------------------------------------------ decimal numbers
theorem digitsLE_lt (n : Nat) : ∀ d ∈ digitsLE n, d < 10 := by
  fun_induction digitsLE n with
  | case1 n h => intro d hd; simp at hd; omega
  | case2 n h ih =>
    intro d hd
    simp at hd
    rcases hd with rfl | hd
    · omega
    · exact ih d hd

theorem digitsLE_ne_nil (n : Nat) : digitsLE n ≠ [] := by
  unfold digitsLE; split <;> simp

theorem natChars_ne_nil (n : Nat) : natChars n ≠ [] := by
  simp [natChars, digitsLE_ne_nil]

theorem natChars_all_digit (n : Nat) : ∀ c ∈ natChars n, isDigit c = true := by
  intro c hc
  simp [natChars] at hc
  obtain ⟨d, hd, rfl⟩ := hc
  exact digitChar_isDigit d (digitsLE_lt n d hd)

theorem digitsVal_append_single (cs : List Char) (c : Char) :
    digitsVal (cs ++ [c]) = digitsVal cs * 10 + (c.toNat - 48) := by
  simp [digitsVal, List.foldl_append]

theorem natChars_step (n : Nat) (h : ¬ n < 10) : natChars n = natChars (n / 10) ++ [digitChar (n % 10)] := by
  rw [natChars, digitsLE]
  simp [h, natChars]

theorem natChars_small (n : Nat) (h : n < 10) : natChars n = [digitChar n] := by
  rw [natChars, digitsLE]
  simp [h]

theorem digitsVal_natChars (n : Nat) : digitsVal (natChars n) = n := by
  induction n using Nat.strongRecOn with
  | _ n ih =>
    by_cases h : n < 10
    · rw [natChars_small n h]
      simp [digitsVal, digitChar_toNat n h]
    · rw [natChars_step n h, digitsVal_append_single, ih (n / 10) (by omega),
        digitChar_toNat _ (by omega)]
      omega

theorem allDigits_natChars (n : Nat) : allDigits (natChars n) = true := by
  simp only [allDigits, Bool.and_eq_true, Bool.not_eq_true', List.all_eq_true]
  refine ⟨?_, natChars_all_digit n⟩
  cases h : natChars n with
  | nil => exact absurd h (natChars_ne_nil n)
  | cons => rfl

/-- `number_roundtrip`, unsigned part (`decimal()` is a 64-bit `usize`) -/
theorem parseDecimal_natChars (n : Nat) (h : n < 2 ^ 64) : parseDecimal (natChars n) = some n := by
  simp [parseDecimal, allDigits_natChars, digitsVal_natChars, h]

theorem natChars_head (n : Nat) : ∃ c cs, natChars n = c :: cs ∧ isDigit c = true := by
  cases h : natChars n with
  | nil => exact absurd h (natChars_ne_nil n)
  | cons c cs => exact ⟨c, cs, rfl, natChars_all_digit n c (by simp [h])⟩

theorem bigUintParse_natChars (n : Nat) : bigUintParse (natChars n) = some n := by
  obtain ⟨c, cs, hc, hd⟩ := natChars_head n
  have hp : c ≠ '+' := isDigit_ne_plus hd
  have := allDigits_natChars n
  have hv := digitsVal_natChars n
  rw [hc] at this hv ⊢
  unfold bigUintParse
  split
  · rename_i heq; simp at heq; exact absurd heq.1 hp
  · rename_i heq; simp at heq; exact absurd heq.1 hp
  · simp [this, hv]

theorem bigIntParse_natChars (n : Nat) : bigIntParse (natChars n) = some (Int.ofNat n) := by
  obtain ⟨c, cs, hc, hd⟩ := natChars_head n
  have hm : c ≠ '-' := isDigit_ne_minus hd
  have hb := bigUintParse_natChars n
  rw [hc] at hb ⊢
  unfold bigIntParse
  split
  · rename_i heq; simp at heq; exact absurd heq.1 hm
  · rename_i heq; simp at heq; exact absurd heq.1 hm
  · simp [hb]

theorem isNumberWord_natChars (n : Nat) : isNumberWord (natChars n) = true := by
  obtain ⟨c, cs, hc, hd⟩ := natChars_head n
  have := allDigits_natChars n
  rw [hc] at this ⊢
  have h1 : (c == '-') = false := by simpa using isDigit_ne_minus hd
  have h2 : (c == '+') = false := by simpa using isDigit_ne_plus hd
  simp [isNumberWord, List.dropWhile, h1, h2, this]

/-- `number_roundtrip`: `BigInt::to_string` is read back by `big_number()` -/
theorem parseBigNumber_intChars (i : Int) : parseBigNumber (intChars i) = some i := by
  cases i with
  | ofNat n =>
    obtain ⟨c, cs, hc, hd⟩ := natChars_head n
    have hm : c ≠ '-' := isDigit_ne_minus hd
    have h1 := isNumberWord_natChars n
    have h2 := bigIntParse_natChars n
    simp only [intChars]
    rw [hc] at h1 h2 ⊢
    unfold parseBigNumber
    rw [if_pos h1]
    split
    · rename_i heq; simp at heq; exact absurd heq.1 hm
    · exact h2
  | negSucc n =>
    have h1 := isNumberWord_natChars (n + 1)
    have h2 := bigIntParse_natChars (n + 1)
    simp only [intChars]
    unfold parseBigNumber
    have : isNumberWord ('-' :: natChars (n + 1)) = true := by
      simpa [isNumberWord, List.dropWhile] using h1
    rw [if_pos this]
    simp [h2]
    rfl

theorem intChars_head (i : Int) : ∃ c cs, intChars i = c :: cs ∧ (isDigit c = true ∨ c = '-') := by
  cases i with
  | ofNat n =>
    obtain ⟨c, cs, hc, hd⟩ := natChars_head n
    exact ⟨c, cs, hc, Or.inl hd⟩
  | negSucc n => exact ⟨'-', _, rfl, Or.inr rfl⟩

-- ------------------------------------------------------------------ version
theorem splitOnDot_digits (ds : List Char) (hds : ∀ c ∈ ds, isDigit c = true) (acc rest : List Char) :
    splitOnDot acc (ds ++ '.' :: rest) = (acc.reverse ++ ds) :: splitOnDot [] rest := by
  induction ds generalizing acc with
  | nil => simp [splitOnDot]
  | cons d ds ih =>
    have hd : d ≠ '.' := isDigit_ne_dot (hds d (by simp))
    simp only [List.cons_append, splitOnDot]
    have : (d == '.') = false := by simpa using hd
    rw [this]
    simp only [Bool.false_eq_true, if_false]
    rw [ih (fun c hc => hds c (by simp [hc]))]
    simp

theorem splitOnDot_digits_end (ds : List Char) (hds : ∀ c ∈ ds, isDigit c = true) (acc : List Char) :
    splitOnDot acc ds = [acc.reverse ++ ds] := by
  induction ds generalizing acc with
  | nil => simp [splitOnDot]
  | cons d ds ih =>
    have hd : d ≠ '.' := isDigit_ne_dot (hds d (by simp))
    simp only [splitOnDot]
    have : (d == '.') = false := by simpa using hd
    rw [this]
    simp only [Bool.false_eq_true, if_false]
    rw [ih (fun c hc => hds c (by simp [hc]))]
    simp

theorem parseVersion_versionChars (v : Nat × Nat × Nat)
    (h1 : v.1 < 2 ^ 64) (h2 : v.2.1 < 2 ^ 64) (h3 : v.2.2 < 2 ^ 64) :
    parseVersion (versionChars v) = some v := by
  obtain ⟨a, b, c⟩ := v
  have e : splitOnDot [] (versionChars (a, b, c)) = [natChars a, natChars b, natChars c] := by
    have e0 : versionChars (a, b, c) = natChars a ++ '.' :: (natChars b ++ '.' :: natChars c) := by
      simp [versionChars]
    rw [e0]
    rw [splitOnDot_digits _ (natChars_all_digit a), splitOnDot_digits _ (natChars_all_digit b),
      splitOnDot_digits_end _ (natChars_all_digit c)]
    simp
  simp at h1 h2 h3
  simp [parseVersion, e, parseDecimal_natChars, h1, h2, h3]

-- ------------------------------------------------------------------ hex
theorem hexVal_hexLower : ∀ n, n < 16 → hexVal (hexLower n) = some n := by decide

theorem hexLower_isIdentChar : ∀ n, n < 16 → isIdentChar (hexLower n) = true := by decide

theorem hexLower_plain : ∀ n, n < 16 → hexLower n ≠ '\\' ∧ hexLower n ≠ '"' := by decide

/-- bytes / hex round trip: `hex::decode (hex::encode b) = b` -/
theorem hexDecode_hexChars (b : Bytes) : hexDecode (hexChars b) = some b := by
  induction b with
  | nil => rfl
  | cons x b ih =>
    have hx : x.toNat < 256 := x.toNat_lt
    have e : hexChars (x :: b) = hexLower (x.toNat / 16) :: hexLower (x.toNat % 16) :: hexChars b := by
      simp [hexChars]
    rw [e, hexDecode, hexVal_hexLower _ (by omega), hexVal_hexLower _ (by omega)]
    simp only [hexChars] at ih
    simp only [hexChars, ih]
    have : x.toNat / 16 * 16 + x.toNat % 16 = x.toNat := by omega
    simp [this]

theorem hexChars_all_ident (b : Bytes) : (hexChars b).all isIdentChar = true := by
  simp only [List.all_eq_true, hexChars, List.mem_flatMap]
  rintro c ⟨x, -, hc⟩
  have hx : x.toNat < 256 := x.toNat_lt
  simp at hc
  rcases hc with rfl | rfl
  · exact hexLower_isIdentChar _ (by omega)
  · exact hexLower_isIdentChar _ (by omega)

theorem parseBlsWord_blsWord (b : Bytes) : parseBlsWord (blsWord b) = some b := by
  simp [parseBlsWord, blsWord, hexChars_all_ident, hexDecode_hexChars]

-- ------------------------------------------------------------------ string escapes
theorem character_plain (f : Nat) (c : Char) (tail : List Char) (h1 : c ≠ '\\') (h2 : c ≠ '"') :
    character f (c :: tail) = some (c, tail) := by
  cases f <;> simp [character, charStep, h1, h2]

theorem character_simple (f : Nat) (k e : Char) (tail : List Char) (h : simpleEscape k = some e) :
    character f ('\\' :: k :: tail) = some (e, tail) := by
  cases f <;> simp [character, charStep, h]

theorem simpleEscape_x : simpleEscape 'x' = none := by decide

theorem character_hex (f : Nat) (a b : Nat) (ha : a < 16) (hb : b < 16) (tail : List Char) :
    character (f + 1) ('\\' :: 'x' :: hexLower a :: hexLower b :: tail) = some (Char.ofNat (a * 16 + b), tail) := by
  have h1 := character_plain f (hexLower a) (hexLower b :: tail) (hexLower_plain a ha).1 (hexLower_plain a ha).2
  have h2 := character_plain f (hexLower b) tail (hexLower_plain b hb).1 (hexLower_plain b hb).2
  simp [character, charStep, hexEscape, simpleEscape_x, h1, h2, hexVal_hexLower a ha, hexVal_hexLower b hb]

theorem simpleEscape_table :
    simpleEscape 't' = some '\t' ∧ simpleEscape 'r' = some '\r' ∧ simpleEscape 'n' = some '\n' ∧
    simpleEscape '\'' = some '\'' ∧ simpleEscape '"' = some '"' ∧ simpleEscape '\\' = some '\\' := by
  decide

theorem char_eq_of_toNat {c : Char} {n : Nat} (h : c.toNat = n) : c = Char.ofNat n := by
  subst h; exact (Char.ofNat_toNat c).symm

/-- one escaped ASCII character is read back by `character()` -/
theorem character_ascii (f : Nat) (c : Char) (hc : c.toNat < 128) (tail : List Char) :
    character (f + 1) (asciiEscapeDefault c.toNat ++ tail) = some (c, tail) := by
  obtain ⟨ht, hr, hn, hq, hdq, hb⟩ := simpleEscape_table
  unfold asciiEscapeDefault
  split
  · rename_i h; rw [char_eq_of_toNat h]; exact character_simple _ _ _ _ ht
  split
  · rename_i h; rw [char_eq_of_toNat h]; exact character_simple _ _ _ _ hr
  split
  · rename_i h; rw [char_eq_of_toNat h]; exact character_simple _ _ _ _ hn
  split
  · rename_i h; rw [char_eq_of_toNat h]; exact character_simple _ _ _ _ hq
  split
  · rename_i h; rw [char_eq_of_toNat h]; exact character_simple _ _ _ _ hdq
  split
  · rename_i h; rw [char_eq_of_toNat h]; exact character_simple _ _ _ _ hb
  split
  · rename_i h1 h2 h3 h4 h5 h6 h
    rw [Char.ofNat_toNat]
    apply character_plain
    · intro e; rw [e] at h6; exact h6 (by decide)
    · intro e; rw [e] at h5; exact h5 (by decide)
  · have := character_hex f (c.toNat / 16) (c.toNat % 16) (by omega) (by omega) tail
    simp only [List.cons_append, List.nil_append]
    rw [this]
    have e : c.toNat / 16 * 16 + c.toNat % 16 = c.toNat := by omega
    rw [e, Char.ofNat_toNat]

theorem escapeMode_fixed : stringEscapeMode = .asciiEscapeDefaultElseRaw := by decide

/-- one escaped character (as pretty.rs escapes it) is read back by `character()` -/
theorem character_escapeChar (f : Nat) (c : Char) (tail : List Char) :
    character (f + 1) (escapeChar stringEscapeMode c ++ tail) = some (c, tail) := by
  rw [escapeMode_fixed]
  simp only [escapeChar]
  split
  · rename_i h; exact character_ascii f c h tail
  · rename_i h
    apply character_plain
    · intro e; rw [e] at h; exact h (by decide)
    · intro e; rw [e] at h; exact h (by decide)

theorem escapeChar_length_pos (c : Char) : 1 ≤ (escapeChar stringEscapeMode c).length := by
  rw [escapeMode_fixed]
  simp only [escapeChar, asciiEscapeDefault]
  repeat' split
  all_goals simp

/-- reading an escaped string up to the closing quote -/
theorem unescapeQ_escape (s : List Char) (rest : List Char) (fuel : Nat) (hf : s.length + 1 ≤ fuel) :
    unescapeQ fuel (escape s ++ '"' :: rest) = some (s, rest) := by
  induction s generalizing fuel with
  | nil =>
    obtain ⟨f, rfl⟩ : ∃ f, fuel = f + 1 := ⟨fuel - 1, by simp at hf; omega⟩
    simp [escape, escapeWith, unescapeQ, character, charStep]
  | cons c s ih =>
    obtain ⟨f, rfl⟩ : ∃ f, fuel = f + 1 := ⟨fuel - 1, by simp at hf; omega⟩
    have e : escape (c :: s) ++ '"' :: rest = escapeChar stringEscapeMode c ++ (escape s ++ '"' :: rest) := by
      simp [escape, escapeWith]
    rw [e]
    simp only [unescapeQ]
    have hl := escapeChar_length_pos c
    obtain ⟨g, hg⟩ : ∃ g, (escapeChar stringEscapeMode c ++ (escape s ++ '"' :: rest)).length = g + 1 := by
      refine ⟨(escapeChar stringEscapeMode c ++ (escape s ++ '"' :: rest)).length - 1, ?_⟩
      simp; omega
    rw [hg, character_escapeChar g c]
    simp at hf
    simp [ih f (by omega)]

theorem escape_length (s : List Char) : s.length ≤ (escape s).length := by
  induction s with
  | nil => simp [escape, escapeWith]
  | cons c s ih =>
    have := escapeChar_length_pos c
    simp [escape, escapeWith] at ih ⊢
    omega

/-- `string_escape_roundtrip` -/
theorem unescape_escape (s : List Char) : unescape (escape s) = some s := by
  unfold unescape
  rw [unescapeQ_escape s [] _ (by have := escape_length s; omega)]

/-- the escaped text contains no raw new-line, carriage return or double quote outside an escape … in
particular a string token never spans lines -/
theorem asciiEscapeDefault_no_newline : ∀ n, n < 128 → '\n' ∉ asciiEscapeDefault n := by decide

theorem escape_no_newline' (s : List Char) : '\n' ∉ escape s := by
  unfold escape escapeWith
  rw [escapeMode_fixed]
  simp only [List.mem_flatMap, not_exists, not_and]
  intro c _
  simp only [escapeChar]
  split
  · rename_i h; exact asciiEscapeDefault_no_newline _ h
  · rename_i h
    simp only [List.mem_singleton]
    intro e; rw [← e] at h; exact h (by decide)

end AikenVerif.Text
