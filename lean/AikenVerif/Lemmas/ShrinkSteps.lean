import AikenVerif.Lemmas.ShrinkOrder
/-!
Every pass of `simplify` changes the counterexample only through `consider`, and only with
candidates that are `≤` the current choices in shortlex order.  `Steps run s t` records that;
each loop is shown (a) to terminate with `ok` within a stated fuel, (b) never to panic, and
(c) to be a `Steps`.  All invariants of `simplify` are then proved once, by induction on `Steps`.
-/
namespace AikenVerif.Shrink

variable {α : Type} (run : Choices → Status α)

/-! ### `consider` -/

theorem consider_cases (s : CE α) (c : Choices) :
    ((consider run s c).1 = true ∧ (consider run s c).2.choices = c) ∨
    ((consider run s c).1 = false ∧ (consider run s c).2.choices = s.choices ∧
      (consider run s c).2.value = s.value) := by
  unfold consider
  split
  · left; simp_all
  · split
    · split
      · left; simp
      · right; simp
    · right; simp

theorem consider_true {s s' : CE α} {c : Choices} (h : consider run s c = (true, s')) :
    s'.choices = c := by
  rcases consider_cases run s c with ⟨_, h2⟩ | ⟨h1, _⟩
  · rw [h] at h2; exact h2
  · rw [h] at h1; simp at h1

theorem consider_false {s s' : CE α} {c : Choices} (h : consider run s c = (false, s')) :
    s'.choices = s.choices := by
  rcases consider_cases run s c with ⟨h1, _⟩ | ⟨_, h2, _⟩
  · rw [h] at h1; simp at h1
  · rw [h] at h2; exact h2

/-! ### `Steps` -/

inductive Steps : CE α → CE α → Prop where
  | refl (s : CE α) : Steps s s
  | step (s : CE α) (c : Choices) (t : CE α) :
      shortlexLe c s.choices = true → Steps (consider run s c).2 t → Steps s t

theorem Steps.trans {s t u : CE α} (h1 : Steps run s t) (h2 : Steps run t u) : Steps run s u := by
  induction h1 with
  | refl => exact h2
  | step s c t hc _ ih => exact Steps.step s c _ hc (ih h2)

theorem Steps.one (s : CE α) (c : Choices) (h : shortlexLe c s.choices = true) :
    Steps run s (consider run s c).2 :=
  Steps.step s c _ h (Steps.refl _)

theorem Steps.one' {s s' : CE α} {c : Choices} {b : Bool} (h : shortlexLe c s.choices = true)
    (hc : consider run s c = (b, s')) : Steps run s s' := by
  have := Steps.one run s c h
  rw [hc] at this; exact this

/-- `never_larger`, in its inductive form -/
theorem Steps.le {s t : CE α} (h : Steps run s t) : shortlexLe t.choices s.choices = true := by
  induction h with
  | refl => exact shortlexLe_refl _
  | step s c t hc _ ih =>
    rcases consider_cases run s c with ⟨_, h2⟩ | ⟨_, h2, _⟩
    · rw [h2] at ih; exact shortlexLe_trans ih hc
    · rw [h2] at ih; exact ih

theorem Steps.length_le {s t : CE α} (h : Steps run s t) : t.choices.length ≤ s.choices.length :=
  shortlexLe_length (Steps.le run h)

/-! ### `replace` -/

theorem applyIvs_length : ∀ (ivs : List (Nat × UInt8)) (cs cs' : Choices),
    applyIvs cs ivs = some cs' → cs'.length = cs.length
  | [], cs, cs', h => by simp [applyIvs] at h; rw [← h]
  | (i, v) :: rest, cs, cs', h => by
    unfold applyIvs at h
    split at h
    · simp at h
    · have := applyIvs_length rest _ _ h
      simpa using this

theorem replace_length (s : CE α) (ivs : List (Nat × UInt8)) :
    (replace run s ivs).2.choices.length = s.choices.length := by
  unfold replace
  split
  · rfl
  · rename_i cs h
    rcases consider_cases run s cs with ⟨_, h2⟩ | ⟨_, h2, _⟩
    · rw [h2]; exact applyIvs_length _ _ _ h
    · rw [h2]

theorem replace_steps (s : CE α) (ivs : List (Nat × UInt8))
    (h : ∀ cs', applyIvs s.choices ivs = some cs' → lexLe cs' s.choices = true) :
    Steps run s (replace run s ivs).2 := by
  unfold replace
  split
  · exact Steps.refl _
  · rename_i cs hcs
    exact Steps.one run s cs (shortlexLe_of_lexLe (applyIvs_length _ _ _ hcs) (h cs hcs))

theorem replace_true {s s' : CE α} {ivs : List (Nat × UInt8)} (h : replace run s ivs = (true, s')) :
    applyIvs s.choices ivs = some s'.choices := by
  unfold replace at h
  split at h
  · simp at h
  · rename_i cs hcs
    rw [hcs, consider_true run h]

theorem replace_false {s s' : CE α} {ivs : List (Nat × UInt8)} (h : replace run s ivs = (false, s')) :
    s'.choices = s.choices := by
  unfold replace at h
  split at h
  · simp at h; rw [← h]
  · exact consider_false run h

/-! ### `binary_search_replace` -/

/-- what the two closures handed to `binary_search_replace` have in common: writing a value `v`
strictly below the current value at position `i` gives a lexicographically smaller sequence whose
position `i` holds `v` -/
def BsOk (f : UInt8 → List (Nat × UInt8)) (i : Nat) : Prop :=
  ∀ (cs cs' : Choices) (v w : UInt8), applyIvs cs (f v) = some cs' → cs[i]? = some w → v < w →
    lexLe cs' cs = true ∧ cs'[i]? = some v

theorem bsOk_single (i : Nat) : BsOk (fun v => [(i, v)]) i := by
  intro cs cs' v w h hw hv
  simp only [applyIvs] at h
  split at h
  · simp at h
  · simp only [Option.some.injEq] at h
    subst h
    refine ⟨lexLe_set cs i v w hw (UInt8.le_iff_toNat_le.mpr ?_), ?_⟩
    · simp only [UInt8.lt_iff_toNat_lt] at hv; omega
    · rename_i hlt
      simp only [ge_iff_le, Nat.not_le] at hlt
      simp [List.getElem?_set_self hlt]

theorem bsOk_pair (i j : Nat) (iv jv : UInt8) (hij : i < j) : BsOk (pairIvs i j iv jv) i := by
  intro cs cs' v w h hw hv
  simp only [pairIvs, applyIvs] at h
  split at h
  · simp at h
  · split at h
    · simp at h
    · simp only [Option.some.injEq] at h
      subst h
      rename_i hi hj
      simp only [ge_iff_le, Nat.not_le, List.length_set] at hi hj
      have hi' : ((cs.set i v).set j (jv + (iv - v)))[i]? = some v := by
        rw [List.getElem?_set_ne (by omega)]
        simp [List.getElem?_set_self hi]
      refine ⟨lexLe_set_lt cs _ i v w hw hv (by simp) hi' ?_, hi'⟩
      intro j' hj'
      rw [List.getElem?_set_ne (by omega), List.getElem?_set_ne (by omega)]

theorem bsLoop_ok {f : UInt8 → List (Nat × UInt8)} {i : Nat} (hf : BsOk f i) :
    ∀ (fuel : Nat) (lo hi : UInt8) (s : CE α) (w : UInt8), s.choices[i]? = some w → hi ≤ w →
      lo.toNat < 255 → lo ≤ hi → hi.toNat - lo.toNat < fuel →
      ∃ s', bsLoop run f fuel lo hi s = .ok s' ∧ Steps run s s' ∧
        s'.choices.length = s.choices.length
  | 0, _, _, _, _, _, _, _, _, h => by omega
  | fuel + 1, lo, hi, s, w, hw, hhi, hlo, hle, hfuel => by
    unfold bsLoop
    split
    · rename_i hlt
      have ⟨hm1, hm2⟩ := mid_bounds lo hi hlo hle hlt
      have hmw : lo + (hi - lo) / 2 < w := by
        simp only [UInt8.lt_iff_toNat_lt, UInt8.le_iff_toNat_le] at *; omega
      have hsteps : Steps run s (replace run s (f (lo + (hi - lo) / 2))).2 :=
        replace_steps run s _ (fun cs' hcs' => (hf _ _ _ _ hcs' hw hmw).1)
      have hlen := replace_length run s (f (lo + (hi - lo) / 2))
      dsimp only
      rcases hr : replace run s (f (lo + (hi - lo) / 2)) with ⟨b, s₁⟩
      rw [hr] at hsteps hlen
      simp only at hsteps hlen
      cases b
      · -- rejected: lo := mid
        have hch := replace_false run hr
        have ⟨s', h1, h2, h3⟩ := bsLoop_ok hf fuel (lo + (hi - lo) / 2) hi s₁ w (by rw [hch]; exact hw) hhi
          (by simp only [UInt8.lt_iff_toNat_lt] at hm2; have := hi.toNat_lt; omega)
          (by simp only [UInt8.lt_iff_toNat_lt, UInt8.le_iff_toNat_le] at *; omega)
          (by simp only [UInt8.lt_iff_toNat_lt] at hm1 hm2; omega)
        exact ⟨s', h1, Steps.trans run hsteps h2, by rw [h3, hlen]⟩
      · -- accepted: hi := mid, and position i now holds mid
        have hch := replace_true run hr
        have hi' := (hf _ _ _ _ hch hw hmw).2
        have ⟨s', h1, h2, h3⟩ := bsLoop_ok hf fuel lo (lo + (hi - lo) / 2) s₁ _ hi'
          (by simp only [UInt8.le_iff_toNat_le]; omega) hlo
          (by simp only [UInt8.lt_iff_toNat_lt, UInt8.le_iff_toNat_le] at *; omega)
          (by simp only [UInt8.lt_iff_toNat_lt] at hm1 hm2; omega)
        exact ⟨s', h1, Steps.trans run hsteps h2, by rw [h3, hlen]⟩
    · exact ⟨s, rfl, Steps.refl _, rfl⟩

theorem binarySearchReplace_ok {f : UInt8 → List (Nat × UInt8)} {i : Nat} (hf : BsOk f i)
    (F : Nat) (hF : 256 ≤ F) (hi : UInt8) (s : CE α) (w : UInt8)
    (hw : s.choices[i]? = some w) (hhi : hi ≤ w)
    (h0 : ∀ cs', applyIvs s.choices (f 0) = some cs' → lexLe cs' s.choices = true) :
    ∃ s', binarySearchReplace run f F 0 hi s = .ok s' ∧ Steps run s s' ∧
      s'.choices.length = s.choices.length := by
  unfold binarySearchReplace
  have hsteps := replace_steps run s (f 0) h0
  have hlen := replace_length run s (f 0)
  rcases hr : replace run s (f 0) with ⟨b, s₁⟩
  rw [hr] at hsteps hlen
  simp only at hsteps hlen
  cases b
  · have hch := replace_false run hr
    have ⟨s', h1, h2, h3⟩ := bsLoop_ok run hf F 0 hi s₁ w (by rw [hch]; exact hw) hhi
      (by simp) (u8_zero_le hi) (by have := hi.toNat_lt; omega)
    exact ⟨s', h1, Steps.trans run hsteps h2, by rw [h3, hlen]⟩
  · exact ⟨s₁, rfl, hsteps, hlen⟩

end AikenVerif.Shrink
