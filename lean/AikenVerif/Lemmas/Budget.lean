import AikenVerif.Model.Budget
/-!
Helper lemmas for C19: budget arithmetic, the cons/append equations of the
redeemer loop, association-list lookups under permutation, sorting.
-/
namespace AikenVerif.Budget

/-! ## budget arithmetic -/
namespace ExBudget

@[ext] theorem ext' {a b : ExBudget} (h1 : a.cpu = b.cpu) (h2 : a.mem = b.mem) : a = b := by
  cases a; cases b; simp_all

@[simp] theorem add_cpu (a b : ExBudget) : (a + b).cpu = a.cpu + b.cpu := rfl
@[simp] theorem add_mem (a b : ExBudget) : (a + b).mem = a.mem + b.mem := rfl
@[simp] theorem sub_cpu (a b : ExBudget) : (a - b).cpu = a.cpu - b.cpu := rfl
@[simp] theorem sub_mem (a b : ExBudget) : (a - b).mem = a.mem - b.mem := rfl
@[simp] theorem zero_cpu : zero.cpu = 0 := rfl
@[simp] theorem zero_mem : zero.mem = 0 := rfl
theorem le_def (a b : ExBudget) : a ≤ b ↔ a.cpu ≤ b.cpu ∧ a.mem ≤ b.mem := Iff.rfl

@[simp] theorem sub_zero (b : ExBudget) : b - zero = b := by ext <;> simp
@[simp] theorem total_nil : total [] = zero := rfl
@[simp] theorem total_cons (c : ExBudget) (cs : List ExBudget) : total (c :: cs) = c + total cs := rfl
theorem sub_sub (b c d : ExBudget) : b - c - d = b - (c + d) := by ext <;> simp <;> omega

theorem total_append (xs ys : List ExBudget) : total (xs ++ ys) = total xs + total ys := by
  induction xs with
  | nil => ext <;> simp
  | cons x xs ih => ext <;> simp [ih] <;> omega

theorem total_perm {xs ys : List ExBudget} (h : xs.Perm ys) : total xs = total ys := by
  induction h with
  | nil => rfl
  | cons x _ ih => simp [ih]
  | swap x y l => ext <;> simp <;> omega
  | trans _ _ ih1 ih2 => exact ih1.trans ih2

end ExBudget

theorem asI64_asU64 (x : Int) (h1 : -9223372036854775808 ≤ x) (h2 : x < 9223372036854775808) :
    asI64 (asU64 x) = x := by
  unfold asI64 asU64
  have hnn : 0 ≤ x % 18446744073709551616 := Int.emod_nonneg _ (by decide)
  rw [Int.toNat_of_nonneg hnn]
  by_cases hx : 0 ≤ x
  · have : x % 18446744073709551616 = x := Int.emod_eq_of_lt hx (by omega)
    rw [this]
    have : x.toNat < 9223372036854775808 := by omega
    simp [this]
  · have : x % 18446744073709551616 = x + 18446744073709551616 := by omega
    rw [this]
    have : ¬ (x + 18446744073709551616).toNat < 9223372036854775808 := by omega
    simp [this]

/-! ## the loop -/
section loop
variable {ρ ε : Type} (eval : ρ → ExBudget → Except ε ExBudget)

@[simp] theorem units_nil : units ([] : List (ρ × ExBudget)) = [] := rfl
@[simp] theorem units_cons (p : ρ × ExBudget) (us : List (ρ × ExBudget)) :
    units (p :: us) = p.2 :: units us := rfl

/-- the start index only shifts the reported position -/
theorem loopFrom_succ (k : Nat) (rs : List ρ) (b : ExBudget) :
    loopFrom eval (k + 1) rs b =
      match loopFrom eval k rs b with
      | .error (j, e) => .error (j + 1, e)
      | .ok us => .ok us := by
  induction rs generalizing k b with
  | nil => rfl
  | cons r rs ih =>
    simp only [loopFrom]
    cases h : eval r b with
    | error e => rfl
    | ok c =>
      simp only []
      rw [ih (k + 1) (b - c)]
      cases loopFrom eval (k + 1) rs (b - c) with
      | error f => rfl
      | ok us => rfl

@[simp] theorem loop_nil (b : ExBudget) : loop eval [] b = .ok [] := rfl

/-- the loop, one iteration at a time -/
theorem loop_cons (r : ρ) (rs : List ρ) (b : ExBudget) :
    loop eval (r :: rs) b =
      match eval r b with
      | .error e => .error (0, e)
      | .ok c =>
        match loop eval rs (b - c) with
        | .error (j, e) => .error (j + 1, e)
        | .ok us => .ok ((r, c) :: us) := by
  unfold loop
  simp only [loopFrom]
  cases h : eval r b with
  | error e => rfl
  | ok c =>
    simp only [Nat.zero_add]
    rw [loopFrom_succ eval 0 rs (b - c)]
    cases loopFrom eval 0 rs (b - c) with
    | error f => rfl
    | ok us => rfl

end loop

/-! ## association lists -/
section tables
variable {κ ν : Type} [BEq κ] [LawfulBEq κ]

omit [BEq κ] [LawfulBEq κ] in
theorem functional_of_nodup_keys {es : List (κ × ν)} (h : (es.map (·.1)).Nodup) : Functional es := by
  induction es with
  | nil => intro a ha; cases ha
  | cons e es ih =>
    simp only [List.map_cons, List.nodup_cons] at h
    intro a ha b hb hab
    simp only [List.mem_cons] at ha hb
    rcases ha with rfl | ha <;> rcases hb with rfl | hb
    · rfl
    · exact absurd (hab ▸ List.mem_map_of_mem (f := (·.1)) hb) h.1
    · exact absurd (hab ▸ List.mem_map_of_mem (f := (·.1)) ha) h.1
    · exact ih h.2 a ha b hb hab

omit [BEq κ] [LawfulBEq κ] in
theorem Functional.perm {es es' : List (κ × ν)} (h : es.Perm es') (hf : Functional es) : Functional es' :=
  fun a ha b hb => hf a (h.mem_iff.mpr ha) b (h.mem_iff.mpr hb)

theorem find_key_eq_some_iff {es : List (κ × ν)} (hf : Functional es) (k : κ) (v : ν) :
    (es.find? (fun e => e.1 == k)).map (·.2) = some v ↔ (k, v) ∈ es := by
  constructor
  · intro h
    cases hfind : es.find? (fun e => e.1 == k) with
    | none => simp [hfind] at h
    | some e =>
      simp [hfind] at h
      have hp := List.find?_some hfind
      have hm := List.mem_of_find?_eq_some hfind
      have hk : e.1 = k := by simpa using hp
      have : e = (k, v) := by cases e; simp_all
      exact this ▸ hm
  · intro hm
    cases hfind : es.find? (fun e => e.1 == k) with
    | none =>
      have := List.find?_eq_none.mp hfind (k, v) hm
      simp at this
    | some e =>
      have hp := List.find?_some hfind
      have hm' := List.mem_of_find?_eq_some hfind
      have hk : e.1 = k := by simpa using hp
      have := hf e hm' (k, v) hm hk
      simp [this]

theorem firstGet_eq_some_iff {es : List (κ × ν)} (hf : Functional es) (k : κ) (v : ν) :
    firstGet es k = some v ↔ (k, v) ∈ es := find_key_eq_some_iff hf k v

theorem tableGet_eq_some_iff {es : List (κ × ν)} (hf : Functional es) (k : κ) (v : ν) :
    tableGet es k = some v ↔ (k, v) ∈ es := by
  have hr : Functional es.reverse := Functional.perm (List.reverse_perm es).symm hf
  unfold tableGet
  rw [find_key_eq_some_iff hr k v, List.mem_reverse]

end tables

/-! ## sorting -/

/-- sorting with a total order gives a list that depends only on the multiset -/
theorem mergeSort_eq_of_perm {α : Type} (le : α → α → Bool)
    (trans : ∀ a b c, le a b = true → le b c = true → le a c = true)
    (total : ∀ a b, (le a b || le b a) = true)
    (antisymm : ∀ a b, le a b = true → le b a = true → a = b)
    {l l' : List α} (h : l.Perm l') : l.mergeSort le = l'.mergeSort le := by
  apply List.Perm.eq_of_pairwise (le := fun a b => le a b = true)
  · intro a b _ _ hab hba; exact antisymm a b hab hba
  · exact List.pairwise_mergeSort trans total l
  · exact List.pairwise_mergeSort trans total l'
  · exact (List.mergeSort_perm l le).trans (h.trans (List.mergeSort_perm l' le).symm)

theorem TxIn.le_trans (a b c : TxIn) : TxIn.le a b = true → TxIn.le b c = true → TxIn.le a c = true := by
  unfold TxIn.le; simp; omega
theorem TxIn.le_total (a b : TxIn) : (TxIn.le a b || TxIn.le b a) = true := by
  unfold TxIn.le; simp; omega
theorem TxIn.le_antisymm (a b : TxIn) : TxIn.le a b = true → TxIn.le b a = true → a = b := by
  unfold TxIn.le; simp
  intro h1 h2
  apply Prod.ext <;> omega

theorem Tag.rank_inj (a b : Tag) : a.rank = b.rank ↔ a = b := by
  cases a <;> cases b <;> simp [Tag.rank]

theorem redeemerKeyLe_iff (a b : Tag × Nat) :
    redeemerKeyLe a b = true ↔ (if a.1.rank = b.1.rank then a.2 ≤ b.2 else a.1.rank ≤ b.1.rank) := by
  unfold redeemerKeyLe
  by_cases h : a.1 = b.1
  · simp [h]
  · have : ¬ a.1.rank = b.1.rank := fun hr => h ((Tag.rank_inj _ _).mp hr)
    simp [h, this]

theorem redeemerKeyLe_trans (a b c : Tag × Nat) :
    redeemerKeyLe a b = true → redeemerKeyLe b c = true → redeemerKeyLe a c = true := by
  simp only [redeemerKeyLe_iff]
  split <;> split <;> split <;> omega
theorem redeemerKeyLe_total (a b : Tag × Nat) : (redeemerKeyLe a b || redeemerKeyLe b a) = true := by
  simp only [Bool.or_eq_true, redeemerKeyLe_iff]
  split <;> split <;> omega
theorem redeemerKeyLe_antisymm (a b : Tag × Nat) :
    redeemerKeyLe a b = true → redeemerKeyLe b a = true → a = b := by
  simp only [redeemerKeyLe_iff]
  intro h1 h2
  have hr : a.1.rank = b.1.rank := by
    split at h1 <;> split at h2 <;> omega
  have hi : a.2 = b.2 := by
    rw [if_pos hr] at h1; rw [if_pos hr.symm] at h2; omega
  exact Prod.ext ((Tag.rank_inj _ _).mp hr) hi

end AikenVerif.Budget
