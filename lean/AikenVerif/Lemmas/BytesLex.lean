import AikenVerif.Model.Builtin
/-! byte-string comparison = lexicographic order -/
namespace AikenVerif
open Bytes'

/-- the comparison of `lessThanByteString` IS the lexicographic order on byte lists -/
theorem bytes_lt_iff_lex : ∀ a b : Bytes, Bytes'.lt a b = true ↔ a < b
  | [], [] => by simp [Bytes'.lt]
  | [], _ :: _ => by simp [Bytes'.lt]
  | _ :: _, [] => by simp [Bytes'.lt]
  | x :: xs, y :: ys => by
    have ih := bytes_lt_iff_lex xs ys
    simp only [Bytes'.lt, List.cons_lt_cons_iff]
    by_cases h1 : x < y
    · simp [h1]
    · by_cases h2 : y < x
      · have hne : x ≠ y := by intro h; subst h; exact h1 h2
        simp [h1, h2, hne]
      · have heq : x = y := by
          have := UInt8.le_antisymm (UInt8.not_lt.mp h2) (UInt8.not_lt.mp h1)
          exact this
        subst heq
        simp [h1, ih]

theorem bytes_le_iff_lex (a b : Bytes) : Bytes'.le a b = true ↔ a ≤ b := by
  unfold Bytes'.le
  rw [Bool.not_eq_true', ← Bool.not_eq_true, bytes_lt_iff_lex]
  exact List.not_lt.symm

end AikenVerif
