import AikenVerif.Lemmas.FlatPrim
/-!
Helper lemmas for M-FLAT, part 2: byte strings, UTF-8, generic lists, type tags
and constants.
-/
namespace AikenVerif.Flat
open AikenVerif.Gen.FlatTags

-- ------------------------------------------------------------------ byte blocks
theorem blockBits_nil : blockBits [] = natBits 8 0 := by rw [blockBits]; simp

theorem blockBits_cons (b : Bytes) (h : b ≠ []) :
    blockBits b = natBits 8 (min 255 b.length) ++ bitsOfBytes (b.take 255) ++ blockBits (b.drop 255) := by
  rw [blockBits]; simp [h]

theorem blockBits_length_pos (b : Bytes) : 8 ≤ (blockBits b).length := by
  by_cases h : b = []
  · subst h; rw [blockBits_nil]; simp
  · rw [blockBits_cons b h]; simp only [List.length_append, natBits_length]; omega

theorem decBlocksGo_blockBits : ∀ (f : Nat) (b : Bytes) (n : Nat) (rest : Bits),
    (blockBits b).length < 8 * f →
    decBlocksGo f ⟨n, blockBits b ++ rest⟩ = .ok (b, ⟨n + (blockBits b).length, rest⟩)
  | 0, b, n, rest, h => by omega
  | f + 1, b, n, rest, h => by
    by_cases hb : b = []
    · subst hb
      rw [blockBits_nil]
      simp only [decBlocksGo, Dec.bind, decBits8_natBits 0 n rest (by omega), if_true, natBits_length]
    · rw [blockBits_cons b hb] at h ⊢
      have hlen0 : b.length ≠ 0 := fun h0 => hb (List.eq_nil_of_length_eq_zero h0)
      have hmin : min 255 b.length ≠ 0 := by omega
      have htl : (b.take 255).length = min 255 b.length := by simp
      have hpos := blockBits_length_pos (b.drop 255)
      have hfuel : (blockBits (b.drop 255)).length < 8 * f := by
        simp only [List.length_append, natBits_length, bitsOfBytes_length] at h; omega
      have ih := decBlocksGo_blockBits f (b.drop 255) (n + 8 + 8 * min 255 b.length) rest hfuel
      have hnot : ¬ ((bitsOfBytes (b.take 255) ++ (blockBits (b.drop 255) ++ rest)).length
          < 8 * (min 255 b.length + 1)) := by
        simp only [List.length_append, bitsOfBytes_length, htl]; omega
      have htake : (bitsOfBytes (b.take 255) ++ (blockBits (b.drop 255) ++ rest)).take (8 * min 255 b.length)
          = bitsOfBytes (b.take 255) := by
        rw [List.take_append_of_le_length (by simp [htl])]
        exact List.take_of_length_le (by simp [htl])
      have hdrop : (bitsOfBytes (b.take 255) ++ (blockBits (b.drop 255) ++ rest)).drop (8 * min 255 b.length)
          = blockBits (b.drop 255) ++ rest := by
        rw [List.drop_append_of_le_length (by simp [htl])]
        rw [List.drop_of_length_le (by simp [htl])]; rfl
      simp only [decBlocksGo, Dec.bind, List.append_assoc,
        decBits8_natBits (min 255 b.length) n _ (by omega), hmin, if_false, hnot, htake, hdrop, ih,
        bytesOfBits_bitsOfBytes, List.take_append_drop]
      simp only [List.length_append, natBits_length, bitsOfBytes_length, htl]
      congr 3; omega

theorem rt_bytes (b : Bytes) : RT (bytesE b) decBytes b := by
  intro n rest
  have hf := rt_filler n (Enc.lit (blockBits b) (n + (fillerE n).length) ++ rest)
  have hal := filler_aligned n
  simp only [bytesE, Enc.seq, Enc.lit, List.append_assoc, decBytes, Dec.bind] at hf ⊢
  rw [hf]
  simp only [hal, ne_eq, not_true_eq_false, if_false]
  rw [decBlocksGo_blockBits _ b _ rest (by simp only [List.length_append]; omega)]
  simp [Nat.add_assoc]

-- ------------------------------------------------------------------ UTF-8
theorem utf8Dec_utf8Enc (s : String) : utf8Dec (utf8Enc s) = some s := by
  unfold utf8Dec utf8Enc
  have h : (ByteArray.mk s.toUTF8.data.toList.toArray) = s.toUTF8 := by
    cases s.toUTF8; simp
  rw [h]
  simp [String.fromUTF8?, s.isValidUTF8, String.fromUTF8]

theorem rt_utf8 (s : String) : RT (bytesE (utf8Enc s)) decUtf8 s := by
  intro n rest
  simp only [decUtf8, Dec.bind, rt_bytes (utf8Enc s) n rest, utf8Dec_utf8Enc, Dec.pure]

-- ------------------------------------------------------------------ lists
theorem listE_length_ge {α : Type} (e : α → Enc) : ∀ (xs : List α) (n : Nat), xs.length < (listE e xs n).length
  | [], n => by simp [listE, Enc.lit]
  | x :: xs, n => by
    have := listE_length_ge e xs (n + 1 + (e x (n + 1)).length)
    simp only [listE, Enc.seq, Enc.lit, List.length_append, List.length_cons, List.length_nil, Nat.zero_add] at this ⊢
    omega

/-- `decode_list_with` reads back what `encode_list_with` wrote, if the item
decoder reads back every item -/
theorem rt_list {α : Type} (e : α → Enc) (d : Dec α) : ∀ (xs : List α) (k : Nat), xs.length < k →
    (∀ x ∈ xs, RT (e x) d x) → RT (listE e xs) (decList d k) xs
  | [], k + 1, _, _ => by
    intro n rest
    simp [listE, Enc.lit, decList, Dec.bind, decBit, Dec.pure]
  | x :: xs, k + 1, hk, hx => by
    have ih := rt_list e d xs k (by simpa using hk) (fun y hy => hx y (List.mem_cons_of_mem _ hy))
    have h1 := hx x (List.mem_cons_self ..)
    have : RT (Enc.lit [true] ⊕ e x ⊕ listE e xs)
        ((decBit.bind fun b => if b then d.bind fun x => (decList d k).bind fun xs => Dec.pure (x :: xs) else Dec.pure [])) (x :: xs) := by
      apply RT.bind (rt_bit true)
      simp only [if_true]
      exact RT.bind h1 (RT.bind_pure _ ih)
    exact this
  | _, 0, hk, _ => by omega

-- ------------------------------------------------------------------ tag lists
theorem rt_tagList (tags : List Nat) (h : ∀ t ∈ tags, t < 2 ^ constTagWidth) :
    RT (tagListE tags) decTagList tags := by
  intro n rest
  have hlen := listE_length_ge (fun t => Enc.lit (natBits constTagWidth t)) tags n
  have := rt_list (fun t => Enc.lit (natBits constTagWidth t)) (decBits constTagWidth) tags
    ((tagListE tags n ++ rest).length + 1)
    (by simp only [tagListE, List.length_append]; omega)
    (fun t ht => rt_bits constTagWidth t (h t ht)) n rest
  simpa [decTagList, tagListE] using this

-- ------------------------------------------------------------------ types
theorem stripPrefix_append (p r : List Nat) : stripPrefix p (p ++ r) = some r := by
  induction p with
  | nil => rfl
  | cons x xs ih => simp [stripPrefix, ih]

/-- every arm of `decode_type` is found by the tags `encode_type` writes for it -/
theorem matchTypeArm_enc (c : TyCtor) (r : List Nat) :
    matchTypeArm typeDecArms (typeEncTags c ++ r) = some (c, r) := by
  cases c <;> rfl

def tySize : Ty → Nat
  | .list t => tySize t + 1
  | .pair a b => tySize a + tySize b + 1
  | _ => 1

theorem tySize_le_tags : ∀ t : Ty, tySize t ≤ (tyTags t).length
  | .list t => by have := tySize_le_tags t; simp [tySize, tyTags, typeEncTags]; omega
  | .pair a b => by
    have := tySize_le_tags a; have := tySize_le_tags b
    simp [tySize, tyTags, typeEncTags]; omega
  | .integer | .bytestring | .string | .unit | .bool | .data | .g1 | .g2 | .ml => by
    simp [tySize, tyTags, typeEncTags]

/-- `decode_type` reads back what `encode_type` wrote -/
theorem decTy_tyTags : ∀ (t : Ty) (f : Nat) (r : List Nat), tySize t ≤ f →
    decTy f (tyTags t ++ r) = .ok (t, r)
  | t, 0, r, h => by cases t <;> simp [tySize] at h
  | .list t, f + 1, r, h => by
    have ih := decTy_tyTags t f r (by simp [tySize] at h; omega)
    simp only [tyTags, List.append_assoc, decTy, matchTypeArm_enc, ih]
  | .pair a b, f + 1, r, h => by
    have iha := decTy_tyTags a f (tyTags b ++ r) (by simp [tySize] at h; omega)
    have ihb := decTy_tyTags b f r (by simp [tySize] at h; omega)
    simp only [tyTags, List.append_assoc, decTy, matchTypeArm_enc, iha, ihb]
  | .integer, f + 1, r, _ => by simp only [tyTags, decTy, matchTypeArm_enc]
  | .bytestring, f + 1, r, _ => by simp only [tyTags, decTy, matchTypeArm_enc]
  | .string, f + 1, r, _ => by simp only [tyTags, decTy, matchTypeArm_enc]
  | .unit, f + 1, r, _ => by simp only [tyTags, decTy, matchTypeArm_enc]
  | .bool, f + 1, r, _ => by simp only [tyTags, decTy, matchTypeArm_enc]
  | .data, f + 1, r, _ => by simp only [tyTags, decTy, matchTypeArm_enc]
  | .g1, f + 1, r, _ => by simp only [tyTags, decTy, matchTypeArm_enc]
  | .g2, f + 1, r, _ => by simp only [tyTags, decTy, matchTypeArm_enc]
  | .ml, f + 1, r, _ => by simp only [tyTags, decTy, matchTypeArm_enc]

/-- every type tag fits the tag width -/
theorem tyTags_lt : ∀ (t : Ty), ∀ x ∈ tyTags t, x < 2 ^ constTagWidth
  | .list t => by
    intro x hx
    simp only [tyTags, List.mem_append] at hx
    rcases hx with hx | hx
    · revert x; decide
    · exact tyTags_lt t x hx
  | .pair a b => by
    intro x hx
    simp only [tyTags, List.mem_append] at hx
    rcases hx with (hx | hx) | hx
    · revert x; decide
    · exact tyTags_lt a x hx
    · exact tyTags_lt b x hx
  | .integer | .bytestring | .string | .unit | .bool | .data | .g1 | .g2 | .ml => by decide

/-- can a constant of this type be a top-level constant (`impl Decode for Constant`
has an `Ok` arm for its tag list) -/
def topTy : Ty → Bool
  | .g1 | .g2 | .ml => false
  | _ => true

theorem constTags_lt (t : Ty) : ∀ x ∈ constTags t, x < 2 ^ constTagWidth := by
  cases t with
  | list t =>
    intro x hx
    simp only [constTags, List.mem_append] at hx
    rcases hx with hx | hx
    · revert x; decide
    · exact tyTags_lt t x hx
  | pair a b =>
    intro x hx
    simp only [constTags, List.mem_append] at hx
    rcases hx with (hx | hx) | hx
    · revert x; decide
    · exact tyTags_lt a x hx
    · exact tyTags_lt b x hx
  | _ => decide

/-- the tag list `Constant::encode` writes denotes the constant's type -/
theorem decConstTy_constTags (t : Ty) (h : topTy t = true) : decConstTy (constTags t) = .ok t := by
  cases t with
  | list t =>
    have hm : matchConstArm constDecArms (constEncTags .list ++ tyTags t) = some (some .list, tyTags t) := rfl
    have hd := decTy_tyTags t ((tyTags t).length + 1) [] (by have := tySize_le_tags t; omega)
    simp only [List.append_nil] at hd
    simp only [constTags, decConstTy, hm, hd]
  | pair a b =>
    have hm : matchConstArm constDecArms (constEncTags .pair ++ tyTags a ++ tyTags b)
        = some (some .pair, tyTags a ++ tyTags b) := rfl
    have hda := decTy_tyTags a ((tyTags a ++ tyTags b).length + 1) (tyTags b)
      (by have := tySize_le_tags a; simp only [List.length_append]; omega)
    have hdb := decTy_tyTags b ((tyTags b).length + 1) [] (by have := tySize_le_tags b; omega)
    simp only [List.append_nil] at hdb
    simp only [constTags, decConstTy, hm, hda, hdb]
  | g1 => simp [topTy] at h
  | g2 => simp [topTy] at h
  | ml => simp [topTy] at h
  | _ => rfl

end AikenVerif.Flat
