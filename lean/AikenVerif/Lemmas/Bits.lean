import AikenVerif.Model.Builtin
/-!
Bit-level lemmas for C04: regrouping bits into bytes round-trips, rotation is invertible, a written
bit reads back.
-/
namespace AikenVerif
namespace Bytes'

theorem bitsToNat_byteBits_all : ∀ n, n < 256 →
    bitsToNat ([7, 6, 5, 4, 3, 2, 1, 0].map (fun i => (n >>> i) % 2 == 1)) = n := by
  decide +kernel

theorem bitsToNat_byteBits_nat (n : Nat) (h : n < 256) :
    bitsToNat ([7, 6, 5, 4, 3, 2, 1, 0].map (fun i => (n >>> i) % 2 == 1)) = n :=
  bitsToNat_byteBits_all n h

theorem ofNat_bitsToNat_byteBits (b : UInt8) : UInt8.ofNat (bitsToNat (byteBits b)) = b := by
  unfold byteBits
  rw [bitsToNat_byteBits_nat b.toNat (UInt8.toNat_lt b)]
  simp

theorem ofBits_toBits : ∀ bs : Bytes, ofBits (toBits bs) = bs := by
  intro bs
  induction bs with
  | nil => rfl
  | cons b bs ih =>
    have : toBits (b :: bs) = byteBits b ++ toBits bs := by simp [toBits]
    rw [this]
    have hb : byteBits b = [(b.toNat >>> 7) % 2 == 1, (b.toNat >>> 6) % 2 == 1, (b.toNat >>> 5) % 2 == 1,
        (b.toNat >>> 4) % 2 == 1, (b.toNat >>> 3) % 2 == 1, (b.toNat >>> 2) % 2 == 1,
        (b.toNat >>> 1) % 2 == 1, (b.toNat >>> 0) % 2 == 1] := rfl
    have hob := ofNat_bitsToNat_byteBits b
    rw [hb] at hob ⊢
    simp only [List.cons_append, List.nil_append, ofBits]
    rw [hob, ih]

theorem byteBits_ofNat_bitsToNat : ∀ a b c d e f g h : Bool,
    byteBits (UInt8.ofNat (bitsToNat [a, b, c, d, e, f, g, h])) = [a, b, c, d, e, f, g, h] := by
  decide

theorem toBits_length (bs : Bytes) : (toBits bs).length = 8 * bs.length := by
  induction bs with
  | nil => rfl
  | cons b bs ih =>
    have : toBits (b :: bs) = byteBits b ++ toBits bs := by simp [toBits]
    rw [this, List.length_append, ih]
    simp [byteBits]; omega

/-- bit lists whose length is a multiple of 8 survive regrouping into bytes -/
theorem toBits_ofBits : ∀ (k : Nat) (l : List Bool), l.length = 8 * k → toBits (ofBits l) = l := by
  intro k
  induction k with
  | zero => intro l h; have : l = [] := List.length_eq_zero_iff.mp (by omega); subst this; rfl
  | succ k ih =>
    intro l h
    match l, h with
    | a :: b :: c :: d :: e :: f :: g :: hh :: rest, h =>
      simp only [ofBits]
      have : toBits (UInt8.ofNat (bitsToNat [a, b, c, d, e, f, g, hh]) :: ofBits rest)
          = byteBits (UInt8.ofNat (bitsToNat [a, b, c, d, e, f, g, hh])) ++ toBits (ofBits rest) := by
        simp [toBits]
      rw [this, byteBits_ofNat_bitsToNat, ih rest (by simp at h; omega)]
      rfl
    | [], h => simp at h
    | [_], h => simp at h; omega
    | [_, _], h => simp at h; omega
    | [_, _, _], h => simp at h; omega
    | [_, _, _, _], h => simp at h; omega
    | [_, _, _, _, _], h => simp at h; omega
    | [_, _, _, _, _, _], h => simp at h; omega
    | [_, _, _, _, _, _, _], h => simp at h; omega

end Bytes'
end AikenVerif

namespace AikenVerif
open Bytes'

/-- left rotation of a bit list -/
def rotBits (l : List Bool) (n : Nat) : List Bool := l.drop n ++ l.take n

theorem rotBits_length (l : List Bool) (n : Nat) : (rotBits l n).length = l.length := by
  simp [rotBits]; omega

theorem rotBits_zero (l : List Bool) : rotBits l 0 = l := by simp [rotBits]

theorem rotBits_inverse (l : List Bool) (n : Nat) (_h : n ≤ l.length) :
    rotBits (rotBits l n) (l.length - n) = l := by
  unfold rotBits
  have h1 : (l.drop n).length = l.length - n := List.length_drop
  have hd : (l.drop n ++ l.take n).drop (l.length - n) = l.take n := by
    rw [← h1]; exact List.drop_left
  have ht : (l.drop n ++ l.take n).take (l.length - n) = l.drop n := by
    rw [← h1]; exact List.take_left
  rw [hd, ht]; exact List.take_append_drop n l

/-- what `rotateByteString` returns (the model of `runtime.rs`, restated as a function) -/
def rotl (bs : Bytes) (k : Int) : Bytes :=
  if bs.isEmpty then bs else ofBits (rotBits (toBits bs) (k.fmod (bs.length * 8 : Nat)).toNat)

theorem ofBits_length : ∀ (k : Nat) (l : List Bool), l.length = 8 * k → (ofBits l).length = k := by
  intro k
  induction k with
  | zero => intro l h; have : l = [] := List.length_eq_zero_iff.mp (by omega); subst this; rfl
  | succ k ih =>
    intro l h
    match l, h with
    | a :: b :: c :: d :: e :: f :: g :: hh :: rest, h =>
      simp only [ofBits, List.length_cons]
      rw [ih rest (by simp at h; omega)]
    | [], h => simp at h
    | [_], h => simp at h; omega
    | [_, _], h => simp at h; omega
    | [_, _, _], h => simp at h; omega
    | [_, _, _, _], h => simp at h; omega
    | [_, _, _, _, _], h => simp at h; omega
    | [_, _, _, _, _, _], h => simp at h; omega
    | [_, _, _, _, _, _, _], h => simp at h; omega

theorem rotl_length (bs : Bytes) (k : Int) : (rotl bs k).length = bs.length := by
  unfold rotl
  split
  · rfl
  · exact ofBits_length bs.length _ (by rw [rotBits_length, toBits_length])

/-- rotating by `k` and then by `-k` gives the byte string back, for EVERY `k` (any size, any sign) -/
theorem rotl_inverse (bs : Bytes) (k : Int) : rotl (rotl bs k) (-k) = bs := by
  by_cases he : bs.isEmpty
  · simp [rotl, he]
  · have hne : bs ≠ [] := by intro h; simp [h] at he
    have hlen : 0 < bs.length := List.length_pos_iff.mpr hne
    have hl' := rotl_length bs k
    have he' : ¬ (rotl bs k).isEmpty := by
      intro h
      have : (rotl bs k) = [] := by simpa using h
      rw [this] at hl'; simp at hl'; omega
    rw [rotl, if_neg he', hl']
    rw [rotl, if_neg he]
    set_option maxRecDepth 2000 in
    have hL : (0 : Int) < ((bs.length * 8 : Nat) : Int) := by omega
    generalize hn : (k.fmod ((bs.length * 8 : Nat) : Int)).toNat = n
    have hn0 : 0 ≤ k.fmod ((bs.length * 8 : Nat) : Int) := Int.fmod_nonneg_of_pos k hL
    have hnlt : k.fmod ((bs.length * 8 : Nat) : Int) < ((bs.length * 8 : Nat) : Int) := Int.fmod_lt_of_pos k hL
    have hnle : n ≤ (toBits bs).length := by rw [toBits_length]; omega
    rw [toBits_ofBits bs.length _ (by rw [rotBits_length, toBits_length])]
    -- the second amount is `L - n` (or 0 when n = 0)
    have hm : ((-k).fmod ((bs.length * 8 : Nat) : Int)).toNat = if n = 0 then 0 else (toBits bs).length - n := by
      rw [toBits_length]
      have hk : k.fmod ((bs.length * 8 : Nat) : Int) = (n : Int) := by omega
      rw [Int.fmod_eq_emod_of_nonneg _ (by omega)] at hk ⊢
      by_cases h0 : n = 0
      · subst h0
        simp only [if_true]
        have : ((bs.length * 8 : Nat) : Int) ∣ k := Int.dvd_of_emod_eq_zero (by simpa using hk)
        have : ((bs.length * 8 : Nat) : Int) ∣ -k := Int.dvd_neg.mpr this
        rw [Int.emod_eq_zero_of_dvd this]; rfl
      · simp only [h0, if_false]
        have : (-k) % ((bs.length * 8 : Nat) : Int) = ((bs.length * 8 : Nat) : Int) - (n : Int) := by
          have hkd := Int.emod_add_mul_ediv k ((bs.length * 8 : Nat) : Int)
          have : -k = (((bs.length * 8 : Nat) : Int) - n) + ((bs.length * 8 : Nat) : Int) * (-(k / ((bs.length * 8 : Nat) : Int)) - 1) := by
            rw [hk] at hkd
            rw [Int.mul_sub, Int.mul_neg, Int.mul_one]; omega
          rw [this, Int.add_mul_emod_self_left]
          exact Int.emod_eq_of_lt (by omega) (by omega)
        rw [this]; omega
    rw [hm]
    by_cases h0 : n = 0
    · subst h0
      simp only [if_true, rotBits_zero]
      exact ofBits_toBits bs
    · simp only [h0, if_false]
      rw [rotBits_inverse _ _ hnle]
      exact ofBits_toBits bs
end AikenVerif

namespace AikenVerif
open Bytes'

theorem bit_set_clear_all : ∀ n, n < 256 → ∀ j, j < 8 →
    (((UInt8.ofNat n ||| UInt8.ofNat (1 <<< j)).toNat >>> j) % 2 == 1) = true ∧
    (((UInt8.ofNat n &&& ~~~ UInt8.ofNat (1 <<< j)).toNat >>> j) % 2 == 1) = false := by
  decide +kernel

theorem bit_set_clear (b : UInt8) (j : Nat) (hj : j < 8) :
    (((b ||| UInt8.ofNat (1 <<< j)).toNat >>> j) % 2 == 1) = true ∧
    (((b &&& ~~~ UInt8.ofNat (1 <<< j)).toNat >>> j) % 2 == 1) = false := by
  have := bit_set_clear_all b.toNat (UInt8.toNat_lt b) j hj
  simpa using this

/-- the byte string `writeBits bs [i] v` produces, and reading bit `i` of it back -/
theorem writeBit_then_readBit (v : Bool) (bs : Bytes) (i : Int) (h0 : 0 ≤ i) (h1 : i < (bs.length * 8 : Nat)) :
    ∃ bs', writeBitsLoop v [.integer i] bs = .ok bs' ∧ bs'.length = bs.length ∧
      ∃ byte, bs'[bs'.length - 1 - i.toNat / 8]? = some byte ∧ ((byte.toNat >>> (i.toNat % 8)) % 2 == 1) = v := by
  have hc : ¬ (i < 0 ∨ i ≥ ((bs.length * 8 : Nat) : Int)) := by omega
  have hw : writeBitsLoop v [.integer i] bs = .ok (bs.modify (bs.length - 1 - i.toNat / 8)
      (fun b => if v then b ||| UInt8.ofNat (1 <<< (i.toNat % 8)) else b &&& (~~~ UInt8.ofNat (1 <<< (i.toNat % 8))))) := by
    simp only [writeBitsLoop, Bool.or_eq_true, decide_eq_true_eq, hc, if_false]
  refine ⟨_, hw, by simp, ?_⟩
  have hidx : bs.length - 1 - i.toNat / 8 < bs.length := by omega
  simp only [List.length_modify, List.getElem?_modify, if_true]
  rw [List.getElem?_eq_getElem hidx]
  refine ⟨_, rfl, ?_⟩
  have hj : i.toNat % 8 < 8 := Nat.mod_lt _ (by decide)
  have := bit_set_clear (bs[bs.length - 1 - i.toNat / 8]) (i.toNat % 8) hj
  cases v
  · simpa using this.2
  · simpa using this.1
end AikenVerif
