import AikenVerif.Lemmas.ShrinkSimplify
/-!
Fuel independence: once a loop ends with `ok`, more fuel (for it and for the loops inside it)
gives the same result.  Hence `simplify run F s` is the same for every `F ≥ fuelBound s.choices`.
-/
namespace AikenVerif.Shrink

variable {α : Type} (run : Choices → Status α)

theorem bsLoop_mono (f : UInt8 → List (Nat × UInt8)) :
    ∀ (fuel fuel' : Nat) (lo hi : UInt8) (s s' : CE α), fuel ≤ fuel' →
      bsLoop run f fuel lo hi s = .ok s' → bsLoop run f fuel' lo hi s = .ok s'
  | 0, _, _, _, _, _, _, h => by simp [bsLoop] at h
  | n + 1, 0, _, _, _, _, hle, _ => by omega
  | n + 1, m + 1, lo, hi, s, s', hle, h => by
    unfold bsLoop at h ⊢
    split
    · rename_i hc
      rw [if_pos hc] at h
      dsimp only at h ⊢
      rcases hr : replace run s (f (lo + (hi - lo) / 2)) with ⟨b, s₁⟩
      rw [hr] at h
      cases b
      · exact bsLoop_mono f n m _ _ _ _ (by omega) h
      · exact bsLoop_mono f n m _ _ _ _ (by omega) h
    · rename_i hc
      rw [if_neg hc] at h
      exact h

theorem binarySearchReplace_mono (f : UInt8 → List (Nat × UInt8)) (F F' : Nat) (hF : F ≤ F')
    (lo hi : UInt8) (s s' : CE α) (h : binarySearchReplace run f F lo hi s = .ok s') :
    binarySearchReplace run f F' lo hi s = .ok s' := by
  unfold binarySearchReplace at h ⊢
  rcases hr : replace run s (f lo) with ⟨b, s₁⟩
  rw [hr] at h
  cases b
  · exact bsLoop_mono run f F F' _ _ _ _ hF h
  · exact h

theorem deleteLoop_mono (k : Nat) :
    ∀ (fuel fuel' i : Nat) (s s' : CE α), fuel ≤ fuel' →
      deleteLoop run k fuel i s = .ok s' → deleteLoop run k fuel' i s = .ok s'
  | 0, _, _, _, _, _, h => by simp [deleteLoop] at h
  | n + 1, 0, _, _, _, hle, _ => by omega
  | n + 1, m + 1, i, s, s', hle, h => by
    have ih := fun i s s' => deleteLoop_mono k n m i s s' (by omega)
    unfold deleteLoop at h ⊢
    split
    · rename_i hc
      rw [if_pos hc] at h
      split
      · rename_i h0; rw [if_pos h0] at h; exact h
      · rename_i h0; rw [if_neg h0] at h; exact ih _ _ _ h
    · rename_i hc
      rw [if_neg hc] at h
      dsimp only at h ⊢
      rcases hr : consider run s (deleteCand s.choices i k) with ⟨b, s₁⟩
      rw [hr] at h
      cases b
      · simp only at h ⊢
        split
        · rename_i hpos
          rw [if_pos hpos] at h
          rcases hb : (deleteCand s.choices i k)[i - 1]? with _ | b
          · rw [hb] at h; simp at h
          · rw [hb] at h
            simp only at h ⊢
            split
            · rename_i hbp
              rw [if_pos hbp] at h
              rcases hr₂ : consider run s₁ ((deleteCand s.choices i k).set (i - 1) (b - 1))
                with ⟨b₂, s₂⟩
              rw [hr₂] at h
              cases b₂
              · exact ih _ _ _ h
              · exact ih _ _ _ h
            · rename_i hbp
              rw [if_neg hbp] at h
              exact ih _ _ _ h
        · rename_i hpos
          rw [if_neg hpos] at h
          exact h
      · exact ih _ _ _ h

theorem zeroLoop_mono (k : Nat) :
    ∀ (fuel fuel' i : Nat) (s s' : CE α), fuel ≤ fuel' →
      zeroLoop run k fuel i s = .ok s' → zeroLoop run k fuel' i s = .ok s'
  | 0, _, _, _, _, _, h => by simp [zeroLoop] at h
  | n + 1, 0, _, _, _, hle, _ => by omega
  | n + 1, m + 1, i, s, s', hle, h => by
    have ih := fun i s s' => zeroLoop_mono k n m i s s' (by omega)
    unfold zeroLoop at h ⊢
    split
    · rename_i hc
      rw [if_pos hc] at h
      rcases hr : replace run s (zeroIvs i k) with ⟨b, s₁⟩
      rw [hr] at h
      cases b
      · exact ih _ _ _ h
      · exact ih _ _ _ h
    · rename_i hc
      rw [if_neg hc] at h
      exact h

theorem minLoop_mono (F F' : Nat) (hF : F ≤ F') :
    ∀ (fuel fuel' i : Nat) (s s' : CE α), fuel ≤ fuel' →
      minLoop run F fuel i s = .ok s' → minLoop run F' fuel' i s = .ok s'
  | 0, _, _, _, _, _, h => by simp [minLoop] at h
  | n + 1, 0, _, _, _, hle, _ => by omega
  | n + 1, m + 1, i, s, s', hle, h => by
    have ih := fun i s s' => minLoop_mono F F' hF n m i s s' (by omega)
    unfold minLoop at h ⊢
    rcases hg : s.choices[i]? with _ | hi
    · rw [hg] at h; simp at h
    · rw [hg] at h
      simp only at h ⊢
      rcases hb : binarySearchReplace run (fun v => [(i, v)]) F 0 hi s with s₁ | _ | _
      · rw [hb] at h
        rw [binarySearchReplace_mono run _ F F' hF _ _ _ _ hb]
        simp only at h ⊢
        split
        · rename_i h0; rw [if_pos h0] at h; exact h
        · rename_i h0; rw [if_neg h0] at h; exact ih _ _ _ h
      · rw [hb] at h; simp at h
      · rw [hb] at h; simp at h

theorem sortLoop_mono (k : Nat) :
    ∀ (fuel fuel' i : Nat) (s s' : CE α), fuel ≤ fuel' →
      sortLoop run k fuel i s = .ok s' → sortLoop run k fuel' i s = .ok s'
  | 0, _, _, _, _, _, h => by simp [sortLoop] at h
  | n + 1, 0, _, _, _, hle, _ => by omega
  | n + 1, m + 1, i, s, s', hle, h => by
    have ih := fun i s s' => sortLoop_mono k n m i s s' (by omega)
    unfold sortLoop at h ⊢
    split
    · rename_i hc
      rw [if_pos hc] at h
      split
      · rename_i hp; rw [if_pos hp] at h; simp at h
      · rename_i hp; rw [if_neg hp] at h; exact ih _ _ _ h
    · rename_i hc
      rw [if_neg hc] at h
      exact h

theorem pairLoop_mono (F F' k : Nat) (hF : F ≤ F') :
    ∀ (fuel fuel' j : Nat) (s s' : CE α), fuel ≤ fuel' →
      pairLoop run F k fuel j s = .ok s' → pairLoop run F' k fuel' j s = .ok s'
  | 0, _, _, _, _, _, h => by simp [pairLoop] at h
  | n + 1, 0, _, _, _, hle, _ => by omega
  | n + 1, m + 1, j, s, s', hle, h => by
    have ih := fun j s s' => pairLoop_mono F F' k hF n m j s s' (by omega)
    unfold pairLoop at h ⊢
    split
    · rename_i hc
      rw [if_pos hc] at h
      dsimp only at h ⊢
      rcases hgi : s.choices[j - k]? with _ | ci
      · rw [hgi] at h; simp at h
      · rcases hgj : s.choices[j]? with _ | cj
        · rw [hgi, hgj] at h; simp at h
        · rw [hgi, hgj] at h
          simp only at h ⊢
          generalize (if ci > cj then (replace run s [(j - k, cj), (j, ci)]).2 else s) = s₁ at h ⊢
          rcases hgi₁ : s₁.choices[j - k]? with _ | iv
          · rw [hgi₁] at h; simp at h
          · rcases hgj₁ : s₁.choices[j]? with _ | jv
            · rw [hgi₁, hgj₁] at h; simp at h
            · rw [hgi₁, hgj₁] at h
              simp only at h ⊢
              by_cases hcond : (decide (iv > 0) && decide (jv ≤ 255 - iv)) = true
              · rw [if_pos hcond] at h ⊢
                rcases hb : binarySearchReplace run (pairIvs (j - k) j iv jv) F 0 iv s₁
                  with s₂ | _ | _
                · rw [hb] at h
                  rw [binarySearchReplace_mono run _ F F' hF _ _ _ _ hb]
                  exact ih _ _ _ h
                · rw [hb] at h; simp at h
                · rw [hb] at h; simp at h
              · rw [if_neg hcond] at h ⊢
                exact ih _ _ _ h
    · rename_i hc
      rw [if_neg hc] at h
      exact h

theorem bind_ok {σ τ : Type} {r : Res σ} {f : σ → Res τ} {t : τ} (h : r.bind f = .ok t) :
    ∃ s, r = .ok s ∧ f s = .ok t := by
  cases r with
  | ok s => exact ⟨s, rfl, h⟩
  | outOfFuel => simp [Res.bind] at h
  | panic => simp [Res.bind] at h

theorem deletePass_mono (F F' k : Nat) (hF : F ≤ F') (s s' : CE α)
    (h : deletePass run F k s = .ok s') : deletePass run F' k s = .ok s' := by
  unfold deletePass at h ⊢
  split
  · rename_i hc; rw [if_pos hc] at h; exact h
  · rename_i hc; rw [if_neg hc] at h; exact deleteLoop_mono run k F F' _ _ _ hF h

theorem zeroPass_mono (F F' k : Nat) (hF : F ≤ F') (s s' : CE α)
    (h : zeroPass run F k s = .ok s') : zeroPass run F' k s = .ok s' :=
  zeroLoop_mono run k F F' _ _ _ hF h

theorem minPass_mono (F F' : Nat) (hF : F ≤ F') (s s' : CE α)
    (h : minPass run F s = .ok s') : minPass run F' s = .ok s' := by
  unfold minPass at h ⊢
  split
  · rename_i hc; rw [if_pos hc] at h; exact h
  · rename_i hc; rw [if_neg hc] at h; exact minLoop_mono run F F' hF F F' _ _ _ hF h

theorem sortPass_mono (F F' k : Nat) (hF : F ≤ F') (s s' : CE α)
    (h : sortPass run F k s = .ok s') : sortPass run F' k s = .ok s' := by
  unfold sortPass at h ⊢
  split
  · rename_i hc; rw [if_pos hc] at h; exact h
  · rename_i hc; rw [if_neg hc] at h; exact sortLoop_mono run k F F' _ _ _ hF h

theorem pairPass_mono (F F' k : Nat) (hF : F ≤ F') (s s' : CE α)
    (h : pairPass run F k s = .ok s') : pairPass run F' k s = .ok s' := by
  unfold pairPass at h ⊢
  split
  · rename_i hc; rw [if_pos hc] at h; exact h
  · rename_i hc; rw [if_neg hc] at h; exact pairLoop_mono run F F' k hF F F' _ _ _ hF h

theorem onePass_mono (F F' : Nat) (hF : F ≤ F') (s s' : CE α)
    (h : onePass run F s = .ok s') : onePass run F' s = .ok s' := by
  unfold onePass at h ⊢
  obtain ⟨s1, e1, h⟩ := bind_ok h
  obtain ⟨s2, e2, h⟩ := bind_ok h
  obtain ⟨s3, e3, h⟩ := bind_ok h
  obtain ⟨s4, e4, h⟩ := bind_ok h
  rw [deletePass_mono run F F' 8 hF _ _ e1]; simp only [Res.bind]
  rw [deletePass_mono run F F' 4 hF _ _ e2]; simp only [Res.bind]
  rw [deletePass_mono run F F' 2 hF _ _ e3]; simp only [Res.bind]
  rw [deletePass_mono run F F' 1 hF _ _ e4]; simp only [Res.bind]
  split
  · rename_i hc; rw [if_pos hc] at h; exact h
  · rename_i hc
    rw [if_neg hc] at h
    obtain ⟨z1, f1, h⟩ := bind_ok h
    obtain ⟨z2, f2, h⟩ := bind_ok h
    obtain ⟨z3, f3, h⟩ := bind_ok h
    obtain ⟨z4, f4, h⟩ := bind_ok h
    obtain ⟨z5, f5, h⟩ := bind_ok h
    obtain ⟨z6, f6, h⟩ := bind_ok h
    obtain ⟨z7, f7, h⟩ := bind_ok h
    obtain ⟨z8, f8, h⟩ := bind_ok h
    rw [zeroPass_mono run F F' 8 hF _ _ f1]; simp only [Res.bind]
    rw [zeroPass_mono run F F' 4 hF _ _ f2]; simp only [Res.bind]
    rw [zeroPass_mono run F F' 2 hF _ _ f3]; simp only [Res.bind]
    rw [minPass_mono run F F' hF _ _ f4]; simp only [Res.bind]
    rw [sortPass_mono run F F' 8 hF _ _ f5]; simp only [Res.bind]
    rw [sortPass_mono run F F' 4 hF _ _ f6]; simp only [Res.bind]
    rw [sortPass_mono run F F' 2 hF _ _ f7]; simp only [Res.bind]
    rw [pairPass_mono run F F' 2 hF _ _ f8]; simp only [Res.bind]
    exact pairPass_mono run F F' 1 hF _ _ h

theorem simplifyLoop_mono (F F' : Nat) (hF : F ≤ F') :
    ∀ (fuel fuel' : Nat) (s s' : CE α), fuel ≤ fuel' →
      simplifyLoop run F fuel s = .ok s' → simplifyLoop run F' fuel' s = .ok s'
  | 0, _, _, _, _, h => by simp [simplifyLoop] at h
  | n + 1, 0, _, _, hle, _ => by omega
  | n + 1, m + 1, s, s', hle, h => by
    unfold simplifyLoop at h ⊢
    rcases hp : onePass run F s with s₁ | _ | _
    · rw [hp] at h
      rw [onePass_mono run F F' hF _ _ hp]
      simp only at h ⊢
      split
      · rename_i hc; rw [if_pos hc] at h; exact h
      · rename_i hc; rw [if_neg hc] at h
        exact simplifyLoop_mono F F' hF n m _ _ (by omega) h
    · rw [hp] at h; simp at h
    · rw [hp] at h; simp at h

/-- more fuel never changes a result -/
theorem simplify_mono (F F' : Nat) (hF : F ≤ F') (s s' : CE α)
    (h : simplify run F s = .ok s') : simplify run F' s = .ok s' :=
  simplifyLoop_mono run F F' hF F F' s s' hF h

end AikenVerif.Shrink
