import AikenVerif.Lemmas.CekRefine
/-!
Budget accounting: the batched, slippage-driven spending of `machine.rs` charges exactly the ledger
cost of the transitions taken.  `eff` (effective budget) = remaining budget minus the cost of the
steps counted but not yet spent.
-/
namespace AikenVerif
open Gen

namespace ExBudget
def zero : ExBudget := ⟨0, 0⟩
def add (x y : ExBudget) : ExBudget := ⟨x.mem + y.mem, x.cpu + y.cpu⟩
def sub (x y : ExBudget) : ExBudget := ⟨x.mem - y.mem, x.cpu - y.cpu⟩
def scale (x : ExBudget) (n : Nat) : ExBudget := ⟨x.mem * (n : Int), x.cpu * (n : Int)⟩
@[ext] theorem ext' {x y : ExBudget} (h1 : x.mem = y.mem) (h2 : x.cpu = y.cpu) : x = y := by
  cases x; cases y; simp_all
end ExBudget

/-- cost of the step kind whose `u8` tag is `i` (what `spend_unbudgeted_steps` uses for counter `i`) -/
def kindCost (cm : CostModel) (i : Nat) : ExBudget :=
  match StepKind.ofTag i with
  | some k => (cm.machineCost k).getD .zero
  | none => .zero

/-- cost of the steps counted in `counts[i .. i+n)` -/
def pendingFrom (cm : CostModel) (counts : List Nat) : Nat → Nat → ExBudget
  | 0, _ => .zero
  | n + 1, i => ((kindCost cm i).scale (counts.getD i 0)).add (pendingFrom cm counts n (i + 1))

def pending (cm : CostModel) (a : Acct) : ExBudget := pendingFrom cm a.counts 9 0

/-- effective budget -/
def eff (cm : CostModel) (a : Acct) : ExBudget := a.budget.sub (pending cm a)

theorem pendingFrom_congr (cm : CostModel) (c1 c2 : List Nat) : ∀ (n i : Nat),
    (∀ j, i ≤ j → j < i + n → c1.getD j 0 = c2.getD j 0) → pendingFrom cm c1 n i = pendingFrom cm c2 n i := by
  intro n
  induction n with
  | zero => intro i _; rfl
  | succ n ih =>
    intro i h
    simp only [pendingFrom]
    rw [h i (Nat.le_refl _) (by omega), ih (i + 1) (fun j h1 h2 => h j (by omega) (by omega))]

theorem pendingFrom_zero (cm : CostModel) (c : List Nat) : ∀ (n i : Nat),
    (∀ j, i ≤ j → j < i + n → c.getD j 0 = 0) → pendingFrom cm c n i = .zero := by
  intro n
  induction n with
  | zero => intro i _; rfl
  | succ n ih =>
    intro i h
    simp only [pendingFrom]
    rw [h i (Nat.le_refl _) (by omega), ih (i + 1) (fun j h1 h2 => h j (by omega) (by omega))]
    simp [ExBudget.scale, ExBudget.add, ExBudget.zero]

theorem getD_set (c : List Nat) (i j v : Nat) :
    (c.set i v).getD j 0 = if j = i ∧ i < c.length then v else c.getD j 0 := by
  simp only [List.getD_eq_getElem?_getD, List.getElem?_set]
  by_cases h : i = j
  · subst h
    by_cases hl : i < c.length
    · simp [hl]
    · simp [hl]
  · have : ¬ (j = i ∧ i < c.length) := by intro h'; exact h h'.1.symm
    simp [h, this]

theorem getD_modify (c : List Nat) (i j : Nat) (f : Nat → Nat) :
    (c.modify i f).getD j 0 = if j = i ∧ i < c.length then f (c.getD i 0) else c.getD j 0 := by
  simp only [List.getD_eq_getElem?_getD, List.getElem?_modify]
  by_cases h : i = j
  · subst h
    by_cases hl : i < c.length
    · have : c[i]? = some c[i] := List.getElem?_eq_getElem hl
      simp [hl, this]
    · have : c[i]? = none := List.getElem?_eq_none (by omega)
      simp [hl, this]
  · have : ¬ (j = i ∧ i < c.length) := by intro h'; exact h h'.1.symm
    simp [h, this]

/-- the loop of `spend_unbudgeted_steps`: spends the pending cost of the counters it visits and zeroes them -/
theorem spendLoop_ok (cm : CostModel) : ∀ (n i : Nat) (a a' : Acct), i + n ≤ a.counts.length →
    spendLoop cm n i a = .ok a' →
      a'.budget = a.budget.sub (pendingFrom cm a.counts n i) ∧
      a'.counts.length = a.counts.length ∧
      (∀ j, i ≤ j → j < i + n → a'.counts.getD j 0 = 0) ∧
      (∀ j, (j < i ∨ i + n ≤ j) → a'.counts.getD j 0 = a.counts.getD j 0) := by
  intro n
  induction n with
  | zero =>
    intro i a a' _ h
    simp only [spendLoop] at h
    cases h
    refine ⟨?_, rfl, ?_, ?_⟩
    · simp [pendingFrom, ExBudget.sub, ExBudget.zero]
    · intro j h1 h2; omega
    · intro j _; rfl
  | succ n ih =>
    intro i a a' hlen h
    simp only [spendLoop] at h
    cases hk : StepKind.ofTag i with
    | none => rw [hk] at h; cases h
    | some k =>
      rw [hk] at h
      simp only at h
      cases hmc : cm.machineCost k with
      | none => rw [hmc] at h; cases h
      | some c =>
        rw [hmc] at h
        simp only at h
        have hkc : kindCost cm i = c := by simp [kindCost, hk, hmc]
        cases hsp : spendBudget a ⟨c.mem * ((a.counts.getD i 0 : Nat) : Int), c.cpu * ((a.counts.getD i 0 : Nat) : Int)⟩ with
        | ok a1 =>
          rw [hsp] at h
          simp only [Outcome.bind] at h
          have hsb : a1.budget = a.budget.sub ((kindCost cm i).scale (a.counts.getD i 0)) ∧ a1.counts = a.counts := by
            unfold spendBudget at hsp
            simp only at hsp
            split at hsp
            · cases hsp
            · cases hsp; simp [ExBudget.sub, ExBudget.scale, hkc]
          have := ih (i + 1) { a1 with counts := a1.counts.set i 0 } a' (by simp [hsb.2]; omega) h
          obtain ⟨h1, h2, h3, h4⟩ := this
          simp only at h1 h2 h3 h4
          refine ⟨?_, ?_, ?_, ?_⟩
          · rw [h1, hsb.1]
            simp only [pendingFrom]
            rw [pendingFrom_congr cm (a1.counts.set i 0) a.counts n (i + 1) (by
              intro j hj1 hj2
              rw [getD_set, hsb.2]
              have : ¬ (j = i ∧ i < a.counts.length) := by omega
              simp [this])]
            simp only [ExBudget.sub, ExBudget.add]
            ext <;> simp <;> omega
          · rw [h2]; simp [hsb.2]
          · intro j hj1 hj2
            by_cases hji : j = i
            · subst hji
              rw [h4 j (Or.inl (by omega)), getD_set]
              simp [hsb.2]; omega
            · exact h3 j (by omega) (by omega)
          · intro j hj
            rw [h4 j (by omega), getD_set, hsb.2]
            have : ¬ (j = i ∧ i < a.counts.length) := by omega
            simp [this]
        | fail => rw [hsp] at h; cases h
        | oob => rw [hsp] at h; cases h
        | panic => rw [hsp] at h; cases h
        | unmodelled => rw [hsp] at h; cases h

end AikenVerif

namespace AikenVerif
open Gen

theorem spendUnbudgeted_ok (cm : CostModel) (a a' : Acct) (hl : a.counts.length = 10)
    (h : spendUnbudgeted cm a = .ok a') :
    a'.budget = eff cm a ∧ a'.counts.length = 10 ∧ (∀ j, a'.counts.getD j 0 = 0) := by
  unfold spendUnbudgeted at h
  cases hs : spendLoop cm (a.counts.length - 1) 0 a with
  | ok a1 =>
    rw [hs] at h
    simp only [Outcome.bind] at h
    cases h
    rw [hl] at hs
    obtain ⟨h1, h2, h3, h4⟩ := spendLoop_ok cm 9 0 a a1 (by omega) hs
    refine ⟨by simpa [eff, pending] using h1, by simp [h2, hl], ?_⟩
    intro j
    rw [getD_set]
    by_cases hj : j < 9
    · have : ¬ (j = a1.counts.length - 1 ∧ a1.counts.length - 1 < a1.counts.length) := by omega
      simp only [this, if_false]
      exact h3 j (by omega) (by omega)
    · by_cases hj9 : j = 9
      · subst hj9; simp [h2, hl]
      · have : ¬ (j = a1.counts.length - 1 ∧ a1.counts.length - 1 < a1.counts.length) := by omega
        simp only [this, if_false]
        rw [List.getD_eq_getElem?_getD, List.getElem?_eq_none (by omega)]; rfl
  | fail => rw [hs] at h; cases h
  | oob => rw [hs] at h; cases h
  | panic => rw [hs] at h; cases h
  | unmodelled => rw [hs] at h; cases h

theorem pending_of_zero (cm : CostModel) (a : Acct) (h : ∀ j, a.counts.getD j 0 = 0) : pending cm a = .zero :=
  pendingFrom_zero cm a.counts 9 0 (fun j _ _ => h j)

/-- counting one more step of kind-tag `t < 9` raises the pending cost by that kind's cost -/
theorem pendingFrom_bump (cm : CostModel) (c : List Nat) (t : Nat) (ht : t < c.length) : ∀ (n i : Nat),
    pendingFrom cm (c.modify t (· + 1)) n i =
      if i ≤ t ∧ t < i + n then (pendingFrom cm c n i).add (kindCost cm t) else pendingFrom cm c n i := by
  intro n
  induction n with
  | zero => intro i; simp [pendingFrom]; omega
  | succ n ih =>
    intro i
    simp only [pendingFrom]
    rw [ih (i + 1), getD_modify]
    by_cases hit : i = t
    · subst hit
      have h1 : ¬ (i + 1 ≤ i ∧ i < i + 1 + n) := by omega
      have h2 : (i ≤ i ∧ i < i + (n + 1)) := by omega
      simp only [h1, h2, if_false, if_true, ht, and_self]
      ext <;> simp [ExBudget.add, ExBudget.scale, Int.mul_add] <;> omega
    · have h0 : ¬ (i = t ∧ t < c.length) := by omega
      simp only [h0, if_false]
      by_cases hr : (i + 1 ≤ t ∧ t < i + 1 + n)
      · have h2 : (i ≤ t ∧ t < i + (n + 1)) := by omega
        simp only [hr, h2, if_true, and_self]
        ext <;> simp [ExBudget.add] <;> omega
      · have h2 : ¬ (i ≤ t ∧ t < i + (n + 1)) := by omega
        simp only [hr, h2, if_false]

end AikenVerif

namespace AikenVerif
open Gen

def NonNeg (b : ExBudget) : Prop := 0 ≤ b.mem ∧ 0 ≤ b.cpu

/-- accounting invariant: counter array shape; "total counter zero ⇒ nothing pending"; budget ≥ 0 -/
structure AcctInv (cm : CostModel) (a : Acct) : Prop where
  len : a.counts.length = 10
  zero : a.counts.getD 9 0 = 0 → pending cm a = .zero
  nonneg : NonNeg a.budget

theorem spendBudget_ok (a a' : Acct) (c : ExBudget) (h : spendBudget a c = .ok a') :
    a'.budget = a.budget.sub c ∧ a'.counts = a.counts ∧ NonNeg a'.budget := by
  unfold spendBudget at h
  simp only at h
  split at h
  · cases h
  · rename_i hneg
    cases h
    simp only [ExBudget.sub, NonNeg, true_and]
    simp only [Bool.or_eq_true, decide_eq_true_eq, not_or, Int.not_lt] at hneg
    exact hneg

theorem spendLoop_nonneg (cm : CostModel) : ∀ (n i : Nat) (a a' : Acct),
    spendLoop cm n i a = .ok a' → (NonNeg a.budget ∨ 0 < n) → NonNeg a'.budget := by
  intro n
  induction n with
  | zero =>
    intro i a a' h hn
    simp only [spendLoop] at h
    cases h
    rcases hn with h | h
    · exact h
    · omega
  | succ n ih =>
    intro i a a' h _
    simp only [spendLoop] at h
    cases hk : StepKind.ofTag i with
    | none => rw [hk] at h; cases h
    | some k =>
      rw [hk] at h
      simp only at h
      cases hmc : cm.machineCost k with
      | none => rw [hmc] at h; cases h
      | some c =>
        rw [hmc] at h
        simp only at h
        cases hsp : spendBudget a ⟨c.mem * ((a.counts.getD i 0 : Nat) : Int), c.cpu * ((a.counts.getD i 0 : Nat) : Int)⟩ with
        | ok a1 =>
          rw [hsp] at h
          simp only [Outcome.bind] at h
          exact ih (i + 1) _ a' h (Or.inl (spendBudget_ok _ _ _ hsp).2.2)
        | fail => rw [hsp] at h; cases h
        | oob => rw [hsp] at h; cases h
        | panic => rw [hsp] at h; cases h
        | unmodelled => rw [hsp] at h; cases h

theorem spendUnbudgeted_nonneg (cm : CostModel) (a a' : Acct) (hl : a.counts.length = 10)
    (h : spendUnbudgeted cm a = .ok a') : NonNeg a'.budget := by
  unfold spendUnbudgeted at h
  cases hs : spendLoop cm (a.counts.length - 1) 0 a with
  | ok a1 =>
    rw [hs] at h
    simp only [Outcome.bind] at h
    cases h
    exact spendLoop_nonneg cm _ 0 a a1 hs (Or.inr (by omega))
  | fail => rw [hs] at h; cases h
  | oob => rw [hs] at h; cases h
  | panic => rw [hs] at h; cases h
  | unmodelled => rw [hs] at h; cases h

theorem ofTag_tag (k : StepKind) (h : k ≠ .startUp) : StepKind.ofTag k.tag = some k := by
  cases k <;> first | (exact absurd rfl h) | rfl

/-- ledger cost of one machine step of kind `k` -/
def stepCostOf (cm : CostModel) (k : StepKind) : ExBudget := (cm.machineCost k).getD .zero

theorem kindCost_tag (cm : CostModel) (k : StepKind) (h : k ≠ .startUp) : kindCost cm k.tag = stepCostOf cm k := by
  simp [kindCost, ofTag_tag k h, stepCostOf]

/-- `step_and_maybe_spend`: whatever the slippage, the effective budget drops by exactly the step's cost -/
theorem stepAndMaybeSpend_eff (cfg : Config) (a a' : Acct) (k : StepKind) (hk : k ≠ .startUp)
    (hi : AcctInv cfg.costs a) (h : stepAndMaybeSpend cfg a k = .ok a') :
    eff cfg.costs a' = (eff cfg.costs a).sub (stepCostOf cfg.costs k) ∧ AcctInv cfg.costs a' := by
  have hlen := hi.len
  have ht : k.tag < 9 := tag_lt k hk
  unfold stepAndMaybeSpend at h
  simp only at h
  -- the counters after counting this step
  have hc9 : ((a.counts.modify k.tag (· + 1)).modify (a.counts.length - 1) (· + 1)).length = 10 := by simp [hlen]
  have hpend : pendingFrom cfg.costs ((a.counts.modify k.tag (· + 1)).modify (a.counts.length - 1) (· + 1)) 9 0
      = (pending cfg.costs a).add (stepCostOf cfg.costs k) := by
    rw [pendingFrom_congr cfg.costs _ (a.counts.modify k.tag (· + 1)) 9 0 (by
      intro j _ hj
      rw [getD_modify]
      have : ¬ (j = a.counts.length - 1 ∧ a.counts.length - 1 < (a.counts.modify k.tag (· + 1)).length) := by
        simp [hlen]; omega
      simp only [this, if_false])]
    rw [pendingFrom_bump cfg.costs a.counts k.tag (by omega) 9 0]
    have : (0 ≤ k.tag ∧ k.tag < 0 + 9) := by omega
    simp only [this, if_true, and_self, kindCost_tag cfg.costs k hk, pending]
  split at h
  · -- flush
    have hl' : ({ a with counts := (a.counts.modify k.tag (· + 1)).modify (a.counts.length - 1) (· + 1) } : Acct).counts.length = 10 := hc9
    obtain ⟨h1, h2, h3⟩ := spendUnbudgeted_ok cfg.costs _ a' hl' h
    have hnn := spendUnbudgeted_nonneg cfg.costs _ a' hl' h
    have hp0 : pending cfg.costs a' = .zero := pending_of_zero cfg.costs a' h3
    refine ⟨?_, ⟨h2, fun _ => hp0, hnn⟩⟩
    have he : eff cfg.costs a' = a'.budget := by
      simp only [eff, hp0]; ext <;> simp [ExBudget.sub, ExBudget.zero]
    rw [he, h1]
    simp only [eff, pending, hpend]
    ext <;> simp [ExBudget.sub, ExBudget.add] <;> omega
  · cases h
    refine ⟨?_, ⟨hc9, ?_, hi.nonneg⟩⟩
    · simp only [eff, pending, hpend]
      ext <;> simp [ExBudget.sub, ExBudget.add] <;> omega
    · intro h0
      exfalso
      rw [getD_modify] at h0
      have : (9 = a.counts.length - 1 ∧ a.counts.length - 1 < (a.counts.modify k.tag (· + 1)).length) := by
        simp [hlen]
      simp only [this, if_true, and_self] at h0
      omega

end AikenVerif

namespace AikenVerif
open Gen

def optStepCost (cm : CostModel) : Option StepKind → ExBudget
  | some k => stepCostOf cm k
  | none => .zero

/-- the step kind `Machine::compute` charges for a term (generated table `termSteps`) -/
def termKind : NTerm → Option StepKind
  | .var _ => termSteps.var_
  | .delay _ => termSteps.delay_
  | .lam _ _ => termSteps.lambda_
  | .app _ _ => termSteps.apply_
  | .const _ => termSteps.constant_
  | .force _ => termSteps.force_
  | .error => termSteps.error_
  | .builtin _ => termSteps.builtin_
  | .constr _ _ => termSteps.constr_
  | .case _ _ => termSteps.case_

theorem termKind_ne_startUp (t : NTerm) (k : StepKind) (h : termKind t = some k) : k ≠ .startUp := by
  cases t <;> simp [termKind, termSteps] at h <;> subst h <;> decide

/-- cost of the builtin call (if any) triggered by applying `fn` to `arg` -/
def applyCharge (cm : CostModel) (sem : Sem) (fn arg : Value) : ExBudget :=
  match fn with
  | .builtin b forces args =>
    if (decide (args.length ≠ b.arity) && !decide (forces < b.forceCount)) = true then
      if (args ++ [arg]).length = b.arity then
        match builtinCost cm sem b (args ++ [arg]) with
        | .ok c => c
        | _ => .zero
      else .zero
    else .zero
  | _ => .zero

def forceCharge (cm : CostModel) (sem : Sem) (v : Value) : ExBudget :=
  match v with
  | .builtin b forces args =>
    if forces < b.forceCount then
      if args.length = b.arity then
        match builtinCost cm sem b args with
        | .ok c => c
        | _ => .zero
      else .zero
    else .zero
  | _ => .zero

/-- THE LEDGER: what the cost model charges for the transition out of state `s` — the step cost of
the term former being computed, or the costing function of the builtin being called, applied to the
sizes of its arguments.  Independent of budget and slippage. -/
def stepCharge (cm : CostModel) (sem : Sem) : State → ExBudget
  | .compute _ _ t => optStepCost cm (termKind t)
  | .ret (.awaitArg fn :: _) v => applyCharge cm sem fn v
  | .ret (.awaitFunValue arg :: _) v => applyCharge cm sem v arg
  | .ret (.force :: _) v => forceCharge cm sem v
  | _ => .zero

theorem chargeStep_eff (cfg : Config) (a a' : Acct) (ko : Option StepKind)
    (hk : ∀ k, ko = some k → k ≠ .startUp) (hi : AcctInv cfg.costs a) (h : chargeStep cfg a ko = .ok a') :
    eff cfg.costs a' = (eff cfg.costs a).sub (optStepCost cfg.costs ko) ∧ AcctInv cfg.costs a' := by
  cases ko with
  | none =>
    simp only [chargeStep] at h
    cases h
    refine ⟨?_, hi⟩
    ext <;> simp [optStepCost, ExBudget.sub, ExBudget.zero]
  | some k => exact stepAndMaybeSpend_eff cfg a a' k (hk k rfl) hi h

theorem evalBuiltinApp_eff (cfg : Config) (a a' : Acct) (b : Builtin) (args : List Value) (v : Value)
    (hi : AcctInv cfg.costs a) (h : evalBuiltinApp cfg a b args = .ok (a', v)) :
    ∃ c, builtinCost cfg.costs cfg.sem b args = .ok c ∧
      eff cfg.costs a' = (eff cfg.costs a).sub c ∧ AcctInv cfg.costs a' := by
  unfold evalBuiltinApp at h
  cases hc : builtinCost cfg.costs cfg.sem b args with
  | ok c =>
    rw [hc] at h
    simp only [Outcome.ofRes, Outcome.bind_ok'] at h
    cases hs : spendBudget a c with
    | ok a1 =>
      rw [hs] at h
      simp only [Outcome.bind_ok'] at h
      cases hcall : callBuiltin cfg.sem b args with
      | ok v' =>
        rw [hcall] at h
        simp only [Outcome.ofRes, Outcome.bind_ok', Outcome.pure_eq] at h
        cases h
        obtain ⟨h1, h2, h3⟩ := spendBudget_ok a a' c hs
        refine ⟨c, rfl, ?_, ⟨by rw [h2]; exact hi.len, ?_, h3⟩⟩
        · simp only [eff, pending, h1, h2]
          ext <;> simp [ExBudget.sub] <;> omega
        · intro h0
          rw [h2] at h0
          have := hi.zero h0
          simpa [pending, h2] using this
      | err => rw [hcall] at h; cases h
      | panic => rw [hcall] at h; cases h
      | unmodelled => rw [hcall] at h; cases h
    | fail => rw [hs] at h; cases h
    | oob => rw [hs] at h; cases h
    | panic => rw [hs] at h; cases h
    | unmodelled => rw [hs] at h; cases h
  | err => rw [hc] at h; cases h
  | panic => rw [hc] at h; cases h
  | unmodelled => rw [hc] at h; cases h

theorem sub_zero' (x : ExBudget) : x.sub .zero = x := by
  ext <;> simp [ExBudget.sub, ExBudget.zero]

end AikenVerif

namespace AikenVerif
open Gen

def OutcomeCharged (cfg : Config) (a : Acct) (charge : ExBudget) : Outcome (Acct × State) → Prop
  | .ok (a', _) => eff cfg.costs a' = (eff cfg.costs a).sub charge ∧ AcctInv cfg.costs a'
  | _ => True

theorem applyEvaluate_charged (cfg : Config) (a : Acct) (ctx : Ctx) (fn arg : Value) (hi : AcctInv cfg.costs a) :
    OutcomeCharged cfg a (applyCharge cfg.costs cfg.sem fn arg) (applyEvaluate cfg a ctx fn arg) := by
  cases fn with
  | lam n body env => simp [applyEvaluate, OutcomeCharged, applyCharge, sub_zero', hi]
  | builtin b forces args =>
    simp only [applyEvaluate, applyCharge]
    by_cases hc : (decide (args.length ≠ b.arity) && !decide (forces < b.forceCount)) = true
    · simp only [hc, if_true]
      by_cases hl : (args ++ [arg]).length = b.arity
      · simp only [hl, if_true]
        cases he : evalBuiltinApp cfg a b (args ++ [arg]) with
        | ok p =>
          obtain ⟨a', v⟩ := p
          obtain ⟨c, hcost, h1, h2⟩ := evalBuiltinApp_eff cfg a a' b (args ++ [arg]) v hi he
          simp only [hcost, Outcome.bind_ok', Outcome.pure_eq, OutcomeCharged]
          exact ⟨h1, h2⟩
        | fail => simp [OutcomeCharged]
        | oob => simp [OutcomeCharged]
        | panic => simp [OutcomeCharged]
        | unmodelled => simp [OutcomeCharged]
      · simp only [hl, if_false, OutcomeCharged, sub_zero']
        exact ⟨trivial, hi⟩
    · simp only [hc, if_false, OutcomeCharged, Bool.false_eq_true]
  | con c => simp [applyEvaluate, OutcomeCharged]
  | delay _ _ => simp [applyEvaluate, OutcomeCharged]
  | constr _ _ => simp [applyEvaluate, OutcomeCharged]

theorem forceEvaluate_charged (cfg : Config) (a : Acct) (ctx : Ctx) (v : Value) (hi : AcctInv cfg.costs a) :
    OutcomeCharged cfg a (forceCharge cfg.costs cfg.sem v) (forceEvaluate cfg a ctx v) := by
  cases v with
  | delay body env => simp [forceEvaluate, OutcomeCharged, forceCharge, sub_zero', hi]
  | builtin b forces args =>
    simp only [forceEvaluate, forceCharge]
    by_cases hf : forces < b.forceCount
    · simp only [hf, if_true]
      by_cases hl : args.length = b.arity
      · simp only [hl, if_true]
        cases he : evalBuiltinApp cfg a b args with
        | ok p =>
          obtain ⟨a', v⟩ := p
          obtain ⟨c, hcost, h1, h2⟩ := evalBuiltinApp_eff cfg a a' b args v hi he
          simp only [hcost, Outcome.bind_ok', Outcome.pure_eq, OutcomeCharged]
          exact ⟨h1, h2⟩
        | fail => simp [OutcomeCharged]
        | oob => simp [OutcomeCharged]
        | panic => simp [OutcomeCharged]
        | unmodelled => simp [OutcomeCharged]
      · simp only [hl, if_false, OutcomeCharged, sub_zero']
        exact ⟨trivial, hi⟩
    · simp only [hf, if_false, OutcomeCharged]
  | con c => simp [forceEvaluate, OutcomeCharged]
  | lam _ _ _ => simp [forceEvaluate, OutcomeCharged]
  | constr _ _ => simp [forceEvaluate, OutcomeCharged]

/-- what one transition does to the effective budget -/
def StepCharged (cfg : Config) (a : Acct) (s : State) : StepResult → Prop
  | .next a' _ => eff cfg.costs a' = (eff cfg.costs a).sub (stepCharge cfg.costs cfg.sem s) ∧ AcctInv cfg.costs a'
  | .done a' _ => a'.budget = eff cfg.costs a ∧ NonNeg a'.budget
  | _ => True

theorem ofOutcome_charged (cfg : Config) (a : Acct) (s : State) (o : Outcome (Acct × State))
    (h : OutcomeCharged cfg a (stepCharge cfg.costs cfg.sem s) o) : StepCharged cfg a s (.ofOutcome o) := by
  cases o with
  | ok p => obtain ⟨a', s'⟩ := p; exact h
  | fail => trivial
  | oob => trivial
  | panic => trivial
  | unmodelled => trivial

/-- a compute step: charge the term former's step kind, then a cost-free action -/
theorem compute_charged (cfg : Config) (a : Acct) (ctx : Ctx) (env : List Value) (t : NTerm)
    (hi : AcctInv cfg.costs a) (f : Acct → Outcome (Acct × State))
    (hf : ∀ a1, match f a1 with | .ok (a2, _) => a2 = a1 | _ => True) :
    OutcomeCharged cfg a (stepCharge cfg.costs cfg.sem (.compute ctx env t)) (chargeStep cfg a (termKind t) >>= f) := by
  cases hcs : chargeStep cfg a (termKind t) with
  | ok a1 =>
    obtain ⟨h1, h2⟩ := chargeStep_eff cfg a a1 (termKind t) (termKind_ne_startUp t) hi hcs
    simp only [Outcome.bind_ok']
    have := hf a1
    revert this
    cases f a1 with
    | ok p => obtain ⟨a2, s2⟩ := p; intro h; subst h; exact ⟨h1, h2⟩
    | fail => intro _; trivial
    | oob => intro _; trivial
    | panic => intro _; trivial
    | unmodelled => intro _; trivial
  | fail => trivial
  | oob => trivial
  | panic => trivial
  | unmodelled => trivial

theorem step_charged (cfg : Config) (a : Acct) (s : State) (hi : AcctInv cfg.costs a) :
    StepCharged cfg a s (step cfg a s) := by
  cases s with
  | compute ctx env t =>
    simp only [step]
    apply ofOutcome_charged
    cases t with
    | var n =>
      simp only [computeStep]
      apply compute_charged cfg a ctx env (.var n) hi
      intro a1
      cases lookupVar env n <;> simp
    | delay body => simp only [computeStep]; apply compute_charged cfg a ctx env (.delay body) hi; intro a1; simp
    | lam n body => simp only [computeStep]; apply compute_charged cfg a ctx env (.lam n body) hi; intro a1; simp
    | app f x => simp only [computeStep]; apply compute_charged cfg a ctx env (.app f x) hi; intro a1; simp
    | const c => simp only [computeStep]; apply compute_charged cfg a ctx env (.const c) hi; intro a1; simp
    | force body => simp only [computeStep]; apply compute_charged cfg a ctx env (.force body) hi; intro a1; simp
    | error => simp only [computeStep]; apply compute_charged cfg a ctx env .error hi; intro a1; simp
    | builtin b => simp only [computeStep]; apply compute_charged cfg a ctx env (.builtin b) hi; intro a1; simp
    | constr tag fields =>
      simp only [computeStep]
      apply compute_charged cfg a ctx env (.constr tag fields) hi
      intro a1
      cases fields <;> simp
    | case scrut branches => simp only [computeStep]; apply compute_charged cfg a ctx env (.case scrut branches) hi; intro a1; simp
  | ret ctx v =>
    cases ctx with
    | nil =>
      simp only [step]
      by_cases hz : a.counts.getD (a.counts.length - 1) 0 > 0
      · simp only [hz, if_true]
        cases hs : spendUnbudgeted cfg.costs a with
        | ok a' =>
          obtain ⟨h1, _, _⟩ := spendUnbudgeted_ok cfg.costs a a' hi.len hs
          exact ⟨h1, spendUnbudgeted_nonneg cfg.costs a a' hi.len hs⟩
        | fail => trivial
        | oob => trivial
        | panic => trivial
        | unmodelled => trivial
      · simp only [hz, if_false]
        have h9 : a.counts.length - 1 = 9 := by rw [hi.len]
        have h0 : a.counts.getD 9 0 = 0 := by rw [h9] at hz; omega
        refine ⟨?_, hi.nonneg⟩
        simp [eff, hi.zero h0, sub_zero']
    | cons fr ctx =>
      simp only [step]
      apply ofOutcome_charged
      cases fr with
      | force => exact forceEvaluate_charged cfg a ctx v hi
      | awaitFunTerm argEnv arg => simp [returnStep, OutcomeCharged, stepCharge, sub_zero', hi]
      | awaitArg fn => exact applyEvaluate_charged cfg a ctx fn v hi
      | awaitFunValue arg => exact applyEvaluate_charged cfg a ctx v arg hi
      | constr env tag todo done =>
        cases todo <;> simp [returnStep, OutcomeCharged, stepCharge, sub_zero', hi]
      | cases env branches =>
        simp only [returnStep, stepCharge, sub_zero']
        cases v with
        | constr tag fields => dsimp only; cases branches[tag]? <;> simp [OutcomeCharged, hi, sub_zero']
        | con c =>
          dsimp only
          split
          · trivial
          · split
            · trivial
            · split
              · trivial
              · split <;> simp [OutcomeCharged, hi, sub_zero']
        | delay _ _ => trivial
        | lam _ _ _ => trivial
        | builtin _ _ _ => trivial

end AikenVerif
