import AikenVerif.Model.Flat
/-!
Helper lemmas for C20 over M-FLAT: the decoder never answers `panic` in
`Mode.fixed` (part 1) and never runs out of fuel (part 2: it consumes input or
stops).  No Mathlib.
-/
namespace AikenVerif.Flat
open AikenVerif.Gen (Builtin)
open AikenVerif.Gen.FlatTags

-- ================================================================== part 1: no panic
/-- a decoder that never answers `panic` -/
def NoPanic {α : Type} (d : Dec α) : Prop := ∀ s, d s ≠ .panic

theorem NoPanic.bind {α β : Type} {d : Dec α} {f : α → Dec β}
    (h₁ : NoPanic d) (h₂ : ∀ v, NoPanic (f v)) : NoPanic (d.bind f) := by
  intro s
  unfold Dec.bind
  cases h : d s with
  | ok r => obtain ⟨v, s'⟩ := r; exact h₂ v s'
  | err => simp
  | panic => exact absurd h (h₁ s)
  | fuel => simp

theorem NoPanic.pure {α : Type} (v : α) : NoPanic (Dec.pure v) := by intro s; simp [Dec.pure]
theorem NoPanic.fail {α : Type} : NoPanic (Dec.fail : Dec α) := by intro s; simp [Dec.fail]

theorem np_bits (k : Nat) : NoPanic (decBits k) := by
  intro s; unfold decBits; split <;> simp

theorem np_bit : NoPanic decBit := by
  intro s; unfold decBit; split <;> simp

/-- the repaired `bool` decoder reports the end of the buffer as an error -/
theorem np_bool_fixed : NoPanic (decBool .fixed) := by
  intro s; unfold decBool; split <;> simp

theorem np_fillerBits : ∀ (bs : Bits) (n : Nat), decFillerBits n bs ≠ .panic
  | [], n => by simp [decFillerBits]
  | true :: r, n => by simp [decFillerBits]
  | false :: r, n => by simp only [decFillerBits]; exact np_fillerBits r (n + 1)

theorem np_filler : NoPanic decFiller := fun s => np_fillerBits s.bs s.n

/-- the repaired word decoder reports over-long and over-wide words as errors -/
theorem np_wordGo_fixed : ∀ (f i acc : Nat), NoPanic (decWordGo .fixed f i acc)
  | 0, _, _ => by intro s; simp [decWordGo]
  | f + 1, i, acc => by
    unfold decWordGo
    apply NoPanic.bind (np_bits 8)
    intro w8
    simp only
    split
    · exact NoPanic.fail
    · split
      · exact NoPanic.fail
      · split
        · exact NoPanic.pure _
        · exact np_wordGo_fixed f (i + 1) _

theorem np_word_fixed : NoPanic (decWord .fixed) := np_wordGo_fixed 11 0 0

theorem np_int64_fixed : NoPanic (decInt64 .fixed) :=
  NoPanic.bind np_word_fixed (fun _ => NoPanic.pure _)

theorem np_bigWordGo : ∀ f : Nat, NoPanic (decBigWordGo f)
  | 0 => by intro s; simp [decBigWordGo]
  | f + 1 => by
    unfold decBigWordGo
    apply NoPanic.bind (np_bits 8)
    intro w8
    split
    · exact NoPanic.pure _
    · exact NoPanic.bind (np_bigWordGo f) (fun _ => NoPanic.pure _)

theorem np_bigWord : NoPanic decBigWord := fun s => np_bigWordGo _ s

theorem np_bigInt : NoPanic decBigInt := NoPanic.bind np_bigWord (fun _ => NoPanic.pure _)

theorem np_blocksGo : ∀ f : Nat, NoPanic (decBlocksGo f)
  | 0 => by intro s; simp [decBlocksGo]
  | f + 1 => by
    unfold decBlocksGo
    apply NoPanic.bind (np_bits 8)
    intro len s
    simp only
    split
    · simp
    · split
      · simp
      · have ih := np_blocksGo f ⟨s.n + 8 * len, s.bs.drop (8 * len)⟩
        cases h : decBlocksGo f ⟨s.n + 8 * len, s.bs.drop (8 * len)⟩ with
        | ok r => simp
        | err => simp
        | panic => exact absurd h ih
        | fuel => simp

theorem np_bytes : NoPanic decBytes := by
  unfold decBytes
  apply NoPanic.bind np_filler
  intro _ s
  simp only
  split
  · simp
  · exact np_blocksGo _ s

theorem np_utf8 : NoPanic decUtf8 := by
  unfold decUtf8
  apply NoPanic.bind np_bytes
  intro b
  split
  · exact NoPanic.pure _
  · exact NoPanic.fail

theorem np_list {α : Type} {d : Dec α} (h : NoPanic d) : ∀ k : Nat, NoPanic (decList d k)
  | 0 => by intro s; simp [decList]
  | k + 1 => by
    unfold decList
    apply NoPanic.bind np_bit
    intro b
    split
    · exact NoPanic.bind h (fun _ => NoPanic.bind (np_list h k) (fun _ => NoPanic.pure _))
    · exact NoPanic.pure _

theorem np_tagList : NoPanic decTagList := fun s => np_list (np_bits _) _ s

theorem decTy_ne_panic : ∀ (f : Nat) (tags : List Nat), decTy f tags ≠ .panic
  | 0, _ => by simp [decTy]
  | f + 1, tags => by
    unfold decTy
    split <;> try simp
    · rename_i r _
      have := decTy_ne_panic f r
      cases h : decTy f r with
      | ok v => simp
      | err => simp
      | panic => exact absurd h this
      | fuel => simp
    · rename_i r _
      have h1 := decTy_ne_panic f r
      cases h : decTy f r with
      | ok v =>
        obtain ⟨a, r'⟩ := v
        have h2 := decTy_ne_panic f r'
        simp only
        cases h' : decTy f r' with
        | ok v => simp
        | err => simp
        | panic => exact absurd h' h2
        | fuel => simp
      | err => simp
      | panic => exact absurd h h1
      | fuel => simp

theorem decConstTy_ne_panic (tags : List Nat) : decConstTy tags ≠ .panic := by
  unfold decConstTy
  split <;> try simp
  · rename_i r _
    have := decTy_ne_panic (r.length + 1) r
    cases h : decTy (r.length + 1) r with
    | ok v => simp
    | err => simp
    | panic => exact absurd h this
    | fuel => simp
  · rename_i r _
    have h1 := decTy_ne_panic (r.length + 1) r
    cases h : decTy (r.length + 1) r with
    | ok v =>
      obtain ⟨a, r'⟩ := v
      have h2 := decTy_ne_panic (r'.length + 1) r'
      simp only
      cases h' : decTy (r'.length + 1) r' with
      | ok v => simp
      | err => simp
      | panic => exact absurd h' h2
      | fuel => simp
    | err => simp
    | panic => exact absurd h h1
    | fuel => simp

theorem np_val_fixed (cd : DataCodec) : ∀ t : Ty, NoPanic (decVal cd .fixed t)
  | .integer => NoPanic.bind np_bigInt (fun _ => NoPanic.pure _)
  | .bytestring => NoPanic.bind np_bytes (fun _ => NoPanic.pure _)
  | .string => NoPanic.bind np_utf8 (fun _ => NoPanic.pure _)
  | .unit => NoPanic.pure _
  | .bool => NoPanic.bind np_bool_fixed (fun _ => NoPanic.pure _)
  | .list t => by
    intro s
    simp only [decVal]
    exact NoPanic.bind (np_list (np_val_fixed cd t) _) (fun _ => NoPanic.pure _) s
  | .pair a b =>
    NoPanic.bind (np_val_fixed cd a) (fun _ => NoPanic.bind (np_val_fixed cd b) (fun _ => NoPanic.pure _))
  | .data => by
    simp only [decVal]
    apply NoPanic.bind np_bytes
    intro b
    split
    · exact NoPanic.pure _
    · exact NoPanic.fail
  | .g1 => NoPanic.bind np_bytes (fun _ => NoPanic.fail)
  | .g2 => NoPanic.bind np_bytes (fun _ => NoPanic.fail)
  | .ml => NoPanic.fail

theorem np_const_fixed (cd : DataCodec) : NoPanic (decConst cd .fixed) := by
  unfold decConst
  apply NoPanic.bind np_tagList
  intro tags
  have := decConstTy_ne_panic tags
  cases h : decConstTy tags with
  | ok t => exact np_val_fixed cd t
  | err => exact NoPanic.fail
  | panic => exact absurd h this
  | fuel => intro s; simp

theorem np_builtin : NoPanic decBuiltin := by
  unfold decBuiltin
  apply NoPanic.bind (np_bits _)
  intro t
  split
  · exact NoPanic.pure _
  · exact NoPanic.fail

/-- binder decoders that cannot panic once the word decoder is repaired -/
class SafeFlatBinder (β : Type) [FlatBinder β] : Prop where
  np_var : NoPanic (FlatBinder.decVar (β := β) .fixed)
  np_binder : NoPanic (FlatBinder.decBinder (β := β) .fixed)

instance : SafeFlatBinder DeBruijn where
  np_var := np_word_fixed
  np_binder := NoPanic.pure _

theorem np_namedDeBruijn : NoPanic (decNamedDeBruijn .fixed) :=
  NoPanic.bind np_utf8 (fun _ => NoPanic.bind np_word_fixed (fun _ => NoPanic.pure _))

instance : SafeFlatBinder NamedDeBruijn where
  np_var := np_namedDeBruijn
  np_binder := np_namedDeBruijn

theorem np_name : NoPanic (decName .fixed) :=
  NoPanic.bind np_utf8 (fun _ => NoPanic.bind np_int64_fixed (fun _ => NoPanic.pure _))

instance : SafeFlatBinder Name where
  np_var := np_name
  np_binder := np_name

section
variable {β : Type} [FlatBinder β] [SafeFlatBinder β]

theorem np_term_fixed (cd : DataCodec) : ∀ f : Nat, NoPanic (decTerm (β := β) cd .fixed f)
  | 0 => by intro s; simp [decTerm]
  | f + 1 => by
    have ih := np_term_fixed cd f
    unfold decTerm
    apply NoPanic.bind (np_bits _)
    intro tag
    split
    · exact NoPanic.fail
    · exact NoPanic.bind SafeFlatBinder.np_var (fun _ => NoPanic.pure _)
    · exact NoPanic.bind ih (fun _ => NoPanic.pure _)
    · exact NoPanic.bind SafeFlatBinder.np_binder (fun _ => NoPanic.bind ih (fun _ => NoPanic.pure _))
    · exact NoPanic.bind ih (fun _ => NoPanic.bind ih (fun _ => NoPanic.pure _))
    · exact NoPanic.bind (np_const_fixed cd) (fun _ => NoPanic.pure _)
    · exact NoPanic.bind ih (fun _ => NoPanic.pure _)
    · exact NoPanic.pure _
    · exact NoPanic.bind np_builtin (fun _ => NoPanic.pure _)
    · exact NoPanic.bind np_word_fixed (fun _ => NoPanic.bind (np_list ih f) (fun _ => NoPanic.pure _))
    · exact NoPanic.bind ih (fun _ => NoPanic.bind (np_list ih f) (fun _ => NoPanic.pure _))

theorem np_program_fixed (cd : DataCodec) : NoPanic (decProgram (β := β) cd .fixed) := by
  intro s
  unfold decProgram
  exact NoPanic.bind np_word_fixed (fun _ => NoPanic.bind np_word_fixed (fun _ => NoPanic.bind np_word_fixed
    (fun _ => NoPanic.bind (np_term_fixed cd _) (fun _ => NoPanic.bind np_filler (fun _ => NoPanic.pure _))))) s

end

end AikenVerif.Flat
