import AikenVerif.Model.Flat
import Mathlib.Tactic.Ring
import Mathlib.Tactic.Linarith
/-!
Helper lemmas for M-FLAT, part 1: bits, the round-trip combinators, and the
primitives (fixed-width fields, filler, words, zig-zag, byte blocks, UTF-8, lists).
-/
namespace AikenVerif.Flat

-- ------------------------------------------------------------------ bits
@[simp] theorem natBits_length (k v : Nat) : (natBits k v).length = k := by
  induction k with
  | zero => rfl
  | succ k ih => simp [natBits, ih]

theorem bitsNat_natBits (k v : Nat) : bitsNat (natBits k v) = v % 2 ^ k := by
  induction k with
  | zero => simp [natBits, bitsNat, Nat.mod_one]
  | succ k ih =>
    simp only [natBits, bitsNat, natBits_length, ih]
    have h2 : v / 2 ^ k % 2 = 0 ∨ v / 2 ^ k % 2 = 1 := by omega
    rw [Nat.pow_succ, Nat.mod_mul]
    rcases h2 with h | h <;> simp [h, Nat.add_comm]

theorem bitsNat_lt (bs : Bits) : bitsNat bs < 2 ^ bs.length := by
  induction bs with
  | nil => simp [bitsNat]
  | cons b bs ih =>
    simp only [bitsNat, List.length_cons, Nat.pow_succ]
    cases b <;> simp <;> omega

theorem byteBits_ofNat_bitsNat (b7 b6 b5 b4 b3 b2 b1 b0 : Bool) :
    byteBits (UInt8.ofNat (bitsNat [b7, b6, b5, b4, b3, b2, b1, b0])) = [b7, b6, b5, b4, b3, b2, b1, b0] := by
  revert b7 b6 b5 b4 b3 b2 b1 b0; decide

theorem byteBits_eq (x : UInt8) : ∃ b7 b6 b5 b4 b3 b2 b1 b0, byteBits x = [b7, b6, b5, b4, b3, b2, b1, b0] :=
  ⟨_, _, _, _, _, _, _, _, rfl⟩

theorem ofNat_bitsNat_byteBits (x : UInt8) : UInt8.ofNat (bitsNat (byteBits x)) = x := by
  unfold byteBits
  rw [bitsNat_natBits]
  have : x.toNat < 256 := x.toNat_lt
  rw [Nat.mod_eq_of_lt (by simpa using this)]
  simp

theorem bytesOfBits_byteBits_append (x : UInt8) (r : Bits) :
    bytesOfBits (byteBits x ++ r) = x :: bytesOfBits r := by
  have h := ofNat_bitsNat_byteBits x
  obtain ⟨b7, b6, b5, b4, b3, b2, b1, b0, hb⟩ := byteBits_eq x
  rw [hb] at h ⊢
  simp only [List.cons_append, List.nil_append, bytesOfBits, h]

@[simp] theorem bytesOfBits_bitsOfBytes_append (b : Bytes) (r : Bits) :
    bytesOfBits (bitsOfBytes b ++ r) = b ++ bytesOfBits r := by
  induction b with
  | nil => simp [bitsOfBytes]
  | cons x xs ih =>
    have : bitsOfBytes (x :: xs) = byteBits x ++ bitsOfBytes xs := by simp [bitsOfBytes]
    rw [this, List.append_assoc, bytesOfBits_byteBits_append, ih]; rfl

@[simp] theorem bytesOfBits_nil : bytesOfBits [] = [] := rfl

@[simp] theorem bytesOfBits_bitsOfBytes (b : Bytes) : bytesOfBits (bitsOfBytes b) = b := by
  have := bytesOfBits_bitsOfBytes_append b []
  simpa using this

@[simp] theorem bitsOfBytes_length (b : Bytes) : (bitsOfBytes b).length = 8 * b.length := by
  induction b with
  | nil => rfl
  | cons x xs ih =>
    have : bitsOfBytes (x :: xs) = byteBits x ++ bitsOfBytes xs := by simp [bitsOfBytes]
    rw [this, List.length_append, ih]; simp [byteBits]; omega

theorem bitsOfBytes_append (a b : Bytes) : bitsOfBytes (a ++ b) = bitsOfBytes a ++ bitsOfBytes b := by
  simp [bitsOfBytes]

/-- on whole bytes, `bitsOfBytes` inverts `bytesOfBits` -/
theorem bitsOfBytes_bytesOfBits : ∀ (k : Nat) (bits : Bits), bits.length = 8 * k →
    bitsOfBytes (bytesOfBits bits) = bits
  | 0, bits, h => by
    have : bits = [] := List.eq_nil_of_length_eq_zero (by omega)
    subst this; rfl
  | k + 1, bits, h => by
    match bits, h with
    | b7 :: b6 :: b5 :: b4 :: b3 :: b2 :: b1 :: b0 :: rest, h =>
      have hr : rest.length = 8 * k := by simp at h; omega
      have ih := bitsOfBytes_bytesOfBits k rest hr
      simp only [bytesOfBits]
      have : bitsOfBytes (UInt8.ofNat (bitsNat [b7, b6, b5, b4, b3, b2, b1, b0]) :: bytesOfBits rest)
          = byteBits (UInt8.ofNat (bitsNat [b7, b6, b5, b4, b3, b2, b1, b0])) ++ bitsOfBytes (bytesOfBits rest) := by
        simp [bitsOfBytes]
      rw [this, byteBits_ofNat_bitsNat, ih]; rfl

-- ------------------------------------------------------------------ round-trip combinators
/-- decoder `d` reads back `v` from what encoder `e` wrote, at any position and
in front of any continuation, and leaves exactly the continuation -/
def RT {α : Type} (e : Enc) (d : Dec α) (v : α) : Prop :=
  ∀ n rest, d ⟨n, e n ++ rest⟩ = .ok (v, ⟨n + (e n).length, rest⟩)

theorem RT.bind {α β : Type} {e₁ e₂ : Enc} {d : Dec α} {f : α → Dec β} {v : α} {w : β}
    (h₁ : RT e₁ d v) (h₂ : RT e₂ (f v) w) : RT (e₁ ⊕ e₂) (d.bind f) w := by
  intro n rest
  simp only [Enc.seq, List.append_assoc, Dec.bind, h₁ n, h₂ (n + (e₁ n).length), List.length_append,
    Nat.add_assoc]

theorem RT.bind_pure {α β : Type} {e : Enc} {d : Dec α} {v : α} (g : α → β)
    (h : RT e d v) : RT e (d.bind fun x => Dec.pure (g x)) (g v) := by
  intro n rest
  simp only [Dec.bind, h n, Dec.pure]

theorem RT.pure {α : Type} (v : α) : RT (Enc.lit []) (Dec.pure v) v := by
  intro n rest; simp [Enc.lit, Dec.pure]

/-- a decoder that ends in `pure` after an encoder that writes nothing more -/
theorem RT.of_eq {α : Type} {e e' : Enc} {d : Dec α} {v : α} (h : RT e d v) (he : e' = e) : RT e' d v := he ▸ h

-- ------------------------------------------------------------------ fixed-width fields
theorem rt_bits (k v : Nat) (hv : v < 2 ^ k) : RT (Enc.lit (natBits k v)) (decBits k) v := by
  intro n rest
  simp only [Enc.lit, decBits, List.length_append, natBits_length]
  rw [if_neg (by omega)]
  have h1 : (natBits k v ++ rest).take k = natBits k v := by
    rw [List.take_append_of_le_length (by simp)]; simp [List.take_of_length_le]
  have h2 : (natBits k v ++ rest).drop k = rest := by
    rw [List.drop_append_of_le_length (by simp)]; simp [List.drop_of_length_le]
  rw [h1, h2, bitsNat_natBits, Nat.mod_eq_of_lt hv]

theorem rt_bit (b : Bool) : RT (Enc.lit [b]) decBit b := by
  intro n rest; simp [Enc.lit, decBit]

theorem rt_bool (m : Mode) (b : Bool) : RT (Enc.lit [b]) (decBool m) b := by
  intro n rest; simp [Enc.lit, decBool]

-- ------------------------------------------------------------------ filler
theorem decFillerBits_replicate (k n : Nat) (rest : Bits) :
    decFillerBits n (List.replicate k false ++ true :: rest) = .ok ((), ⟨n + k + 1, rest⟩) := by
  induction k generalizing n with
  | zero => simp [decFillerBits]
  | succ k ih =>
    simp only [List.replicate_succ, List.cons_append, decFillerBits, ih]
    congr 3; omega

theorem rt_filler : RT fillerE decFiller () := by
  intro n rest
  simp only [fillerE, decFiller, List.append_assoc, List.cons_append, List.nil_append,
    decFillerBits_replicate, List.length_append, List.length_replicate, List.length_cons, List.length_nil]
  congr 3

/-- after a filler the position is a byte boundary -/
theorem filler_aligned (n : Nat) : (n + (fillerE n).length) % 8 = 0 := by
  simp [fillerE]; omega

-- ------------------------------------------------------------------ words
theorem wordBits_lt (w : Nat) (h : w < 128) : wordBits w = natBits 8 w := by
  rw [wordBits]; simp [h]

theorem wordBits_ge (w : Nat) (h : ¬ w < 128) :
    wordBits w = natBits 8 (128 + w % 128) ++ wordBits (w / 128) := by
  rw [wordBits]; simp [h]

theorem wordBits_length_pos (w : Nat) : 8 ≤ (wordBits w).length := by
  by_cases h : w < 128
  · rw [wordBits_lt w h]; simp
  · rw [wordBits_ge w h]; simp

theorem decBits8_natBits (v n : Nat) (rest : Bits) (hv : v < 256) :
    decBits 8 ⟨n, natBits 8 v ++ rest⟩ = .ok (v, ⟨n + 8, rest⟩) := by
  have := rt_bits 8 v (by simpa using hv) n rest
  simpa [Enc.lit] using this

/-- `big_word` reads back what `big_word` wrote -/
theorem decBigWordGo_wordBits : ∀ (f w n : Nat) (rest : Bits), (wordBits w).length < 8 * f →
    decBigWordGo f ⟨n, wordBits w ++ rest⟩ = .ok (w, ⟨n + (wordBits w).length, rest⟩)
  | 0, w, n, rest, h => by omega
  | f + 1, w, n, rest, h => by
    by_cases hw : w < 128
    · rw [wordBits_lt w hw]
      simp only [decBigWordGo, Dec.bind, decBits8_natBits w n rest (by omega), hw, if_true, Dec.pure,
        natBits_length]
    · rw [wordBits_ge w hw] at h ⊢
      have hlen : (wordBits (w / 128)).length < 8 * f := by
        simp only [List.length_append, natBits_length] at h; omega
      have ih := decBigWordGo_wordBits f (w / 128) (n + 8) rest hlen
      have h1 : ¬ (128 + w % 128 < 128) := by omega
      simp only [decBigWordGo, Dec.bind, List.append_assoc,
        decBits8_natBits (128 + w % 128) n _ (by omega), h1, if_false, ih, Dec.pure,
        List.length_append, natBits_length]
      congr 3
      · omega
      · omega

theorem rt_bigWord (w : Nat) : RT (Enc.lit (wordBits w)) decBigWord w := by
  intro n rest
  simp only [Enc.lit, decBigWord]
  apply decBigWordGo_wordBits
  simp only [List.length_append]; omega

theorem unzigzag_zigzag (i : Int) : unzigzag (zigzag i) = i := by
  cases i with
  | ofNat n => simp [zigzag, unzigzag]
  | negSucc n =>
    have h2 : (2 * n + 1) / 2 = n := by omega
    simp [zigzag, unzigzag, h2]

theorem rt_bigInt (i : Int) : RT (Enc.lit (wordBits (zigzag i))) decBigInt i := by
  have := RT.bind_pure unzigzag (rt_bigWord (zigzag i))
  rw [unzigzag_zigzag] at this
  exact this

/-- `usize` words: group `i`, in both modes, as long as the value fits 64 bits -/
theorem decWordGo_wordBits (m : Mode) : ∀ (f w i acc n : Nat) (rest : Bits),
    f + i = 11 → 7 * i < 64 → w * 2 ^ (7 * i) < 2 ^ 64 →
    decWordGo m f i acc ⟨n, wordBits w ++ rest⟩ = .ok (acc + w * 2 ^ (7 * i), ⟨n + (wordBits w).length, rest⟩)
  | 0, w, i, acc, n, rest, hf, hi, hw => by omega
  | f + 1, w, i, acc, n, rest, hf, hi, hw => by
    have hi' : ¬ (64 ≤ 7 * i) := by omega
    have hpos : 0 < 2 ^ (7 * i) := Nat.two_pow_pos _
    by_cases hw128 : w < 128
    · rw [wordBits_lt w hw128]
      have hmod : w % 128 = w := Nat.mod_eq_of_lt hw128
      have hfit : ¬ (m = .fixed ∧ 2 ^ 64 ≤ w * 2 ^ (7 * i)) := by
        intro h; omega
      simp only [decWordGo, Dec.bind, decBits8_natBits w n rest (by omega), usizeBits, hi', if_false, hmod,
        hfit, hw128, if_true, Dec.pure, natBits_length, Nat.mod_eq_of_lt hw]
    · rw [wordBits_ge w hw128]
      have hdm : w = w % 128 + 128 * (w / 128) := by omega
      have hq : 1 ≤ w / 128 := by omega
      have hpow : 2 ^ (7 * (i + 1)) = 128 * 2 ^ (7 * i) := by
        rw [show 7 * (i + 1) = 7 + 7 * i by ring, Nat.pow_add]
      have hsplit : w * 2 ^ (7 * i) = (w % 128) * 2 ^ (7 * i) + (w / 128) * 2 ^ (7 * (i + 1)) := by
        rw [hpow]; conv_lhs => rw [hdm]
        ring
      have hhi : (w / 128) * 2 ^ (7 * (i + 1)) < 2 ^ 64 := by omega
      have hlo : (w % 128) * 2 ^ (7 * i) < 2 ^ 64 := by omega
      have hi1 : 7 * (i + 1) < 64 := by
        have : 2 ^ (7 * (i + 1)) < 2 ^ 64 := by
          calc 2 ^ (7 * (i + 1)) ≤ (w / 128) * 2 ^ (7 * (i + 1)) := Nat.le_mul_of_pos_left _ hq
            _ < 2 ^ 64 := hhi
        exact (Nat.pow_lt_pow_iff_right (by decide)).mp this
      have ih := decWordGo_wordBits m f (w / 128) (i + 1) (acc + (w % 128) * 2 ^ (7 * i)) (n + 8) rest
        (by omega) hi1 hhi
      have hmod : (128 + w % 128) % 128 = w % 128 := by omega
      have hfit : ¬ (m = .fixed ∧ 2 ^ 64 ≤ (w % 128) * 2 ^ (7 * i)) := by
        intro h; omega
      have h1 : ¬ (128 + w % 128 < 128) := by omega
      simp only [decWordGo, Dec.bind, List.append_assoc, decBits8_natBits (128 + w % 128) n _ (by omega),
        usizeBits, hi', if_false, hmod, hfit, h1, Nat.mod_eq_of_lt hlo, ih, List.length_append,
        natBits_length]
      rw [hsplit, Nat.add_assoc acc, Nat.add_assoc n]

theorem rt_word (m : Mode) (w : Nat) (hw : w < 2 ^ 64) : RT (Enc.lit (wordBits w)) (decWord m) w := by
  intro n rest
  have := decWordGo_wordBits m 11 w 0 0 n rest rfl (by decide) (by simpa using hw)
  simpa [Enc.lit, decWord] using this

theorem zigzag_lt (u : Int) (h : fitsIsize u = true) : zigzag u < 2 ^ 64 := by
  simp only [fitsIsize, Bool.and_eq_true, decide_eq_true_eq] at h
  cases u with
  | ofNat n => simp only [zigzag]; have : (n : Int) < 2 ^ 63 := h.2; omega
  | negSucc n =>
    simp only [zigzag]
    have : -(2 ^ 63 : Int) ≤ Int.negSucc n := h.1
    have : (n : Int) + 1 ≤ 2 ^ 63 := by rw [Int.negSucc_eq] at this; omega
    omega

theorem rt_int64 (m : Mode) (u : Int) (h : fitsIsize u = true) :
    RT (Enc.lit (wordBits (zigzag u))) (decInt64 m) u := by
  have := RT.bind_pure unzigzag (rt_word m (zigzag u) (zigzag_lt u h))
  rw [unzigzag_zigzag] at this
  exact this

end AikenVerif.Flat
