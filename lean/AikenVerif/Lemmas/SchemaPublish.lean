import AikenVerif.Lemmas.Schema
/-! The generator (`collect` → `prune` → `replaceAll`) produces a faithful table. -/
namespace AikenVerif.Blueprint

theorem refs_flatMap_eq (fs : List ATy) : (refs fs).flatMap (declRefs (α := DSchema)) = fs :=
  flatMap_declRefs_refs fs

theorem mem_flatMap_ctor_refs {cs : List (Nat × List ATy)} {k : ATy}
    (h : k ∈ (cs.map (fun c => (c.1, refs c.2))).flatMap (fun c => c.2.flatMap declRefs)) :
    k ∈ cs.flatMap (·.2) := by
  induction cs with
  | nil => simp at h
  | cons c cs ih =>
    simp only [List.map_cons, List.flatMap_cons, List.mem_append] at h ⊢
    rcases h with h | h
    · left; rw [refs_flatMap_eq] at h; exact h
    · right; exact ih h

/-- everything a generated schema refers to was visited by `do_from_type` -/
theorem schemaOf_refs_children {decls : Decls} {t : ATy} {s : Schema}
    (h : schemaOf decls t = some s) : ∀ k ∈ s.refs, k ∈ childTypes decls t := by
  intro k hk
  cases t with
  | list t =>
    by_cases hp : ∃ a b, t = .pair a b
    · obtain ⟨a, b, rfl⟩ := hp
      simp [schemaOf] at h; subst h
      simp [Schema.refs, declRefs] at hk
      simp [childTypes]; rcases hk with rfl | rfl <;> simp
    · have hs : schemaOf decls (.list t) = some (.data (.list (.ref t))) := by
        cases t <;> first | (exfalso; exact hp ⟨_, _, rfl⟩) | simp [schemaOf]
      have hc : childTypes decls (.list t) = [t] := by
        cases t <;> first | (exfalso; exact hp ⟨_, _, rfl⟩) | simp [childTypes]
      rw [hs] at h; cases h
      simp [Schema.refs, declRefs] at hk
      rw [hc]; simp [hk]
  | adt n args =>
    simp only [schemaOf] at h
    simp only [childTypes]
    cases hsh : adtShape decls n args with
    | undeclared => simp [hsh] at h
    | record fs =>
      simp [hsh] at h; subst h
      simp only [Schema.refs, refs_flatMap_eq] at hk
      exact hk
    | variants cs =>
      simp [hsh] at h; subst h
      simp only [Schema.refs] at hk
      exact mem_flatMap_ctor_refs hk
  | option t => simp [schemaOf] at h; subst h; simp_all [Schema.refs, declRefs, childTypes]
  | pair a b => simp [schemaOf] at h; subst h; simp_all [Schema.refs, declRefs, childTypes]
  | tuple ts =>
    simp [schemaOf] at h; subst h
    simp only [Schema.refs, refs_flatMap_eq] at hk
    simpa [childTypes] using hk
  | var i => simp [schemaOf] at h
  | _ => simp [schemaOf] at h; subst h; simp [Schema.refs] at hk

/-- invariant of the registration loop -/
structure CInv (decls : Decls) (params work : List ATy) (seen : Table) : Prop where
  sound : ∀ e ∈ seen, schemaOf decls e.1 = some e.2
  closed : ∀ e ∈ seen, ∀ k ∈ e.2.refs, (∃ s', (k, s') ∈ seen) ∨ k ∈ work
  roots : ∀ p ∈ params, (∃ s', (p, s') ∈ seen) ∨ p ∈ work

theorem collect_inv {decls : Decls} {params : List ATy} :
    ∀ (fuel : Nat) (work : List ATy) (seen out : Table),
      collect decls fuel work seen = some out → CInv decls params work seen →
      CInv decls params [] out := by
  intro fuel
  induction fuel with
  | zero =>
    intro work seen out h inv
    cases work with
    | nil => simp [collect] at h; subst h; exact inv
    | cons t rest => simp [collect] at h
  | succ fuel ih =>
    intro work seen out h inv
    cases work with
    | nil => simp [collect] at h; subst h; exact inv
    | cons t rest =>
      simp only [collect] at h
      cases hg : seen.get t with
      | some s0 =>
        simp only [hg] at h
        refine ih rest seen out h ⟨inv.sound, ?_, ?_⟩
        · intro e he k hk
          rcases inv.closed e he k hk with h1 | h1
          · exact .inl h1
          · rcases List.mem_cons.mp h1 with rfl | h2
            · exact .inl ⟨s0, Table.mem_of_get hg⟩
            · exact .inr h2
        · intro p hp
          rcases inv.roots p hp with h1 | h1
          · exact .inl h1
          · rcases List.mem_cons.mp h1 with rfl | h2
            · exact .inl ⟨s0, Table.mem_of_get hg⟩
            · exact .inr h2
      | none =>
        simp only [hg] at h
        cases hs : schemaOf decls t with
        | none => simp [hs] at h
        | some s =>
          simp only [hs] at h
          refine ih _ _ out h ⟨?_, ?_, ?_⟩
          · intro e he
            rcases List.mem_cons.mp he with rfl | he
            · exact hs
            · exact inv.sound e he
          · intro e he k hk
            rcases List.mem_cons.mp he with rfl | he
            · exact .inr (List.mem_append_left _ (schemaOf_refs_children hs k hk))
            · rcases inv.closed e he k hk with ⟨s', h1⟩ | h1
              · exact .inl ⟨s', List.mem_cons_of_mem _ h1⟩
              · rcases List.mem_cons.mp h1 with rfl | h2
                · exact .inl ⟨s, List.mem_cons_self⟩
                · exact .inr (List.mem_append_right _ h2)
          · intro p hp
            rcases inv.roots p hp with ⟨s', h1⟩ | h1
            · exact .inl ⟨s', List.mem_cons_of_mem _ h1⟩
            · rcases List.mem_cons.mp h1 with rfl | h2
              · exact .inl ⟨s, List.mem_cons_self⟩
              · exact .inr (List.mem_append_right _ h2)

/-- invariant of pruning: sound, closed under references, parameters present -/
structure PInv (decls : Decls) (params : List ATy) (tbl : Table) : Prop where
  sound : ∀ e ∈ tbl, schemaOf decls e.1 = some e.2
  closed : ∀ e ∈ tbl, ∀ k ∈ e.2.refs, ∃ s', (k, s') ∈ tbl
  roots : ∀ p ∈ params, ∃ s', (p, s') ∈ tbl

theorem PInv.of_CInv {decls : Decls} {params : List ATy} {tbl : Table}
    (h : CInv decls params [] tbl) : PInv decls params tbl :=
  ⟨h.sound,
   fun e he k hk => (h.closed e he k hk).elim id (fun h => by cases h),
   fun p hp => (h.roots p hp).elim id (fun h => by cases h)⟩

theorem pruneStep_inv {decls : Decls} {params : List ATy} {tbl : Table}
    (h : PInv decls params tbl) : PInv decls params (pruneStep params tbl) := by
  refine ⟨?_, ?_, ?_⟩
  · intro e he
    exact h.sound e (List.mem_filter.mp he).1
  · intro e he k hk
    have he' := (List.mem_filter.mp he).1
    obtain ⟨s', hs'⟩ := h.closed e he' k hk
    refine ⟨s', List.mem_filter.mpr ⟨hs', ?_⟩⟩
    simp only [Bool.or_eq_true, List.any_eq_true]
    exact .inr ⟨e, he', by simpa using hk⟩
  · intro p hp
    obtain ⟨s', hs'⟩ := h.roots p hp
    refine ⟨s', List.mem_filter.mpr ⟨hs', ?_⟩⟩
    simp only [Bool.or_eq_true]
    exact .inl (.inr (by simpa using hp))

theorem prune_inv {decls : Decls} {params : List ATy} (n : Nat) {tbl : Table}
    (h : PInv decls params tbl) : PInv decls params (prune params n tbl) := by
  induction n generalizing tbl with
  | zero => exact h
  | succ n ih => exact ih (pruneStep_inv h)

theorem replaceAll_get (tbl : Table) (k : ATy) :
    (replaceAll tbl).get k = (tbl.get k).map (fun s => Schema.data (replaceS s)) := by
  induction tbl with
  | nil => rfl
  | cons e rest ih =>
    obtain ⟨k', s⟩ := e
    simp only [replaceAll, List.map_cons, Table.get_cons] at ih ⊢
    by_cases hk : k' = k
    · simp [hk]
    · simp [hk]; exact ih

/-- `schema_to_data` keeps the references of a generated schema -/
theorem refs_replaceS {decls : Decls} {t : ATy} {s : Schema} (h : schemaOf decls t = some s) :
    (Schema.data (replaceS s)).refs = s.refs := by
  cases t with
  | pair a b => simp [schemaOf] at h; subst h; simp [replaceS, replaceD, Schema.refs, declRefs]
  | list t =>
    by_cases hp : ∃ a b, t = .pair a b
    · obtain ⟨a, b, rfl⟩ := hp; simp [schemaOf] at h; subst h; simp [replaceS]
    · have hs : schemaOf decls (.list t) = some (.data (.list (.ref t))) := by
        cases t <;> first | (exfalso; exact hp ⟨_, _, rfl⟩) | simp [schemaOf]
      rw [hs] at h; cases h; simp [replaceS]
  | adt n args =>
    simp only [schemaOf] at h
    cases hsh : adtShape decls n args <;> simp [hsh] at h <;> subst h <;> simp [replaceS]
  | var i => simp [schemaOf] at h
  | _ => simp [schemaOf] at h; subst h; simp [replaceS]

theorem Faithful.of_PInv {decls : Decls} {params : List ATy} {tbl : Table}
    (h : PInv decls params tbl) : Faithful decls (replaceAll tbl) := by
  intro t s hget
  rw [replaceAll_get] at hget
  cases hg : tbl.get t with
  | none => simp [hg] at hget
  | some s0 =>
    simp [hg] at hget
    have hmem := Table.mem_of_get hg
    have hso := h.sound _ hmem
    refine ⟨replaceS s0, by simp [pubSchema, hso], hget.symm, ?_⟩
    intro k hk
    rw [refs_replaceS hso] at hk
    obtain ⟨s', hs'⟩ := h.closed _ hmem k hk
    obtain ⟨s'', hs''⟩ := Table.get_isSome_of_mem hs'
    exact ⟨_, by rw [replaceAll_get, hs'']; rfl⟩

theorem publish_faithful_aux {decls : Decls} {fuel : Nat} {params : List ATy} {tbl : Table}
    (h : publish decls fuel params = some tbl) :
    Faithful decls tbl ∧ ∀ p ∈ params, ∃ s, tbl.get p = some s := by
  simp only [publish] at h
  cases hc : collect decls fuel params [] with
  | none => simp [hc] at h
  | some raw =>
    simp [hc] at h
    have ci : CInv decls params params [] :=
      { sound := fun e he => by cases he
        closed := fun e he => by cases he
        roots := fun p hp => Or.inr hp }
    have pi := prune_inv raw.length (PInv.of_CInv (collect_inv fuel params [] raw hc ci))
    subst h
    refine ⟨Faithful.of_PInv pi, fun p hp => ?_⟩
    obtain ⟨s', hs'⟩ := pi.roots p hp
    obtain ⟨s'', hs''⟩ := Table.get_isSome_of_mem hs'
    exact ⟨_, by rw [replaceAll_get, hs'']; rfl⟩

end AikenVerif.Blueprint
