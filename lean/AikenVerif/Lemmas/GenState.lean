import AikenVerif.Model.GenState
/-! helper lemmas for C09 (interner bookkeeping, list permutations) -/
namespace AikenVerif.GenState

theorem updateIds_same (ids : Text → List Nat) (t : Text) (v : List Nat) : updateIds ids t v t = v := by
  simp [updateIds]

theorem updateIds_other (ids : Text → List Nat) (t x : Text) (v : List Nat) (h : x ≠ t) :
    updateIds ids t v x = ids x := by
  simp [updateIds, h]

/-- pushing a unique on a text's stack and popping it gives the map back -/
theorem updateIds_restore (ids : Text → List Nat) (t : Text) (u : Nat) :
    updateIds (updateIds ids t (u :: ids t)) t (ids t) = ids := by
  funext x
  by_cases h : x = t
  · subst h; simp [updateIds]
  · simp [updateIds, h]

theorem nIntern_append (a b : List Instr) : nIntern (a ++ b) = nIntern a + nIntern b := by
  induction a with
  | nil => simp [nIntern]
  | cons i rest ih =>
    cases i <;> simp [nIntern, ih] <;> omega

theorem nFresh_append (a b : List Instr) : nFresh (a ++ b) = nFresh a + nFresh b := by
  induction a with
  | nil => simp [nFresh]
  | cons i rest ih =>
    cases i <;> simp [nFresh, ih] <;> omega

theorem runBody_append (a b : List Instr) : ∀ s,
    runBody (a ++ b) s =
      match runBody a s with
      | none => none
      | some (s₁, o₁) =>
        match runBody b s₁ with
        | none => none
        | some (s₂, o₂) => some (s₂, o₁ ++ o₂) := by
  induction a with
  | nil =>
    intro s
    simp only [List.nil_append, runBody]
    cases runBody b s with
    | none => rfl
    | some r => rfl
  | cons i rest ih =>
    intro s
    simp only [List.cons_append, runBody]
    cases hs : step i s with
    | none => rfl
    | some r =>
      obtain ⟨s₁, o₁⟩ := r
      simp only [ih s₁]
      cases runBody rest s₁ with
      | none => rfl
      | some r₂ =>
        obtain ⟨s₂, o₂⟩ := r₂
        simp only []
        cases runBody b s₂ with
        | none => rfl
        | some r₃ => simp [List.append_assoc]

/-- a fold whose step function is right-commutative does not see the order of the list -/
theorem foldl_perm_of_rightComm {α β : Type} (f : β → α → β)
    (hcomm : ∀ b x y, f (f b x) y = f (f b y) x) {l₁ l₂ : List α} (h : l₁.Perm l₂) :
    ∀ b, l₁.foldl f b = l₂.foldl f b := by
  induction h with
  | nil => intro b; rfl
  | cons x _ ih => intro b; simp only [List.foldl_cons]; exact ih (f b x)
  | swap x y l => intro b; simp only [List.foldl_cons]; rw [hcomm]
  | trans _ _ ih₁ ih₂ => intro b; rw [ih₁ b, ih₂ b]

end AikenVerif.GenState
