import AikenVerif.Lemmas.CekTyped
/-! Panic-freedom of the builtin layer (C10). -/
namespace AikenVerif
open Gen

def NP {α} (r : Res α) : Prop := r ≠ .panic

theorem NP_ok {α} (a : α) : NP (Res.ok a) := by intro h; cases h
theorem NP_pure {α} (a : α) : NP (pure a : Res α) := by intro h; cases h
theorem NP_err {α} : NP (Res.err : Res α) := by intro h; cases h
theorem NP_unm {α} : NP (Res.unmodelled : Res α) := by intro h; cases h
theorem NP_bind {α β} {x : Res α} {f : α → Res β} (hx : NP x) (hf : ∀ a, x = .ok a → NP (f a)) : NP (x >>= f) := by
  cases x with
  | ok a => exact hf a rfl
  | err => intro h; cases h
  | panic => exact absurd rfl hx
  | unmodelled => intro h; cases h

theorem unwrapInteger_np (v : Value) : NP v.unwrapInteger := by
  unfold Value.unwrapInteger; split <;> intro h <;> cases h
theorem unwrapByteString_np (v : Value) : NP v.unwrapByteString := by
  unfold Value.unwrapByteString; split <;> intro h <;> cases h
theorem unwrapString_np (v : Value) : NP v.unwrapString := by
  unfold Value.unwrapString; split <;> intro h <;> cases h
theorem unwrapBool_np (v : Value) : NP v.unwrapBool := by
  unfold Value.unwrapBool; split <;> intro h <;> cases h
theorem unwrapUnit_np (v : Value) : NP v.unwrapUnit := by
  unfold Value.unwrapUnit; split <;> intro h <;> cases h
theorem unwrapPair_np (v : Value) : NP v.unwrapPair := by
  unfold Value.unwrapPair; split <;> intro h <;> cases h
theorem unwrapList_np (v : Value) : NP v.unwrapList := by
  unfold Value.unwrapList; split <;> intro h <;> cases h
theorem unwrapData_np (v : Value) : NP v.unwrapData := by
  unfold Value.unwrapData; split <;> intro h <;> cases h
theorem unwrapDataList_np (v : Value) : NP v.unwrapDataList := by
  unfold Value.unwrapDataList; split <;> intro h <;> cases h
theorem unwrapIntList_np (v : Value) : NP v.unwrapIntList := by
  unfold Value.unwrapIntList; split <;> intro h <;> cases h
theorem unwrapConstant_np (v : Value) : NP v.unwrapConstant := by
  unfold Value.unwrapConstant; split <;> intro h <;> cases h

theorem expMod_np (b e m : Int) : NP (expMod b e m) := by
  unfold expMod
  repeat (first | split | (intro h; cases h))

macro "np_step" : tactic => `(tactic| first
  | exact NP_ok _ | exact NP_pure _ | exact NP_err | exact NP_unm
  | exact unwrapInteger_np _ | exact unwrapByteString_np _ | exact unwrapString_np _
  | exact unwrapBool_np _ | exact unwrapUnit_np _ | exact unwrapPair_np _ | exact unwrapList_np _
  | exact expMod_np _ _ _
  | exact unwrapData_np _ | exact unwrapDataList_np _ | exact unwrapIntList_np _ | exact unwrapConstant_np _
  | (refine NP_bind ?_ ?_)
  | (intro _ _)
  | split)


macro "np" : tactic => `(tactic| repeat np_step)

theorem len_eq_three {α} {l : List α} (h : l.length = 3) : ∃ x y z, l = [x, y, z] := by
  match l, h with
  | [x, y, z], _ => exact ⟨x, y, z, rfl⟩

theorem len_eq_two {α} {l : List α} (h : l.length = 2) : ∃ x y, l = [x, y] := by
  match l, h with
  | [x, y], _ => exact ⟨x, y, rfl⟩
theorem len_eq_one {α} {l : List α} (h : l.length = 1) : ∃ x, l = [x] := by
  match l, h with
  | [x], _ => exact ⟨x, rfl⟩

macro "explode_args" h:ident : tactic => `(tactic| first
  | (obtain ⟨x, hx⟩ := len_eq_one $h; subst hx)
  | (obtain ⟨x, y, hx⟩ := len_eq_two $h; subst hx)
  | (obtain ⟨x, y, z, hx⟩ := len_eq_three $h; subst hx))

theorem core_np_generic (sem : Sem) (b : Builtin) (args : List Value) (hl : args.length = b.arity)
    (hb : b ≠ .constrData ∧ b ≠ .mapData ∧ b ≠ .listData ∧ b ≠ .writeBits ∧ b ≠ .integerToByteString ∧
          b ≠ .replicateByte ∧ b ≠ .indexByteString ∧ b ≠ .readBit ∧ b ≠ .chooseData) :
    NP (callBuiltinCore sem b args) := by
  obtain ⟨h1, h2, h3, h4, h5, h6, h7, h8, h9⟩ := hb
  cases b <;> simp only [Builtin.arity] at hl <;> (try contradiction) <;> explode_args hl <;>
    simp only [callBuiltinCore, getArgB, List.getElem?_cons_zero, List.getElem?_cons_succ] <;> np

end AikenVerif

namespace AikenVerif
open Gen

theorem dataItems_np (l : List Const) (h : Const.wtList .data l = true) : NP (dataItems l) := by
  induction l with
  | nil => exact NP_ok _
  | cons c cs ih =>
    simp only [Const.wtList, Bool.and_eq_true, beq_iff_eq] at h
    obtain ⟨⟨hty, _⟩, hcs⟩ := h
    cases c <;> simp only [Const.ty] at hty <;> try cases hty
    simp only [dataItems]
    refine NP_bind (ih hcs) ?_
    intro _ _
    exact NP_pure _

theorem pairItems_np (l : List Const) (h : Const.wtList (.pair .data .data) l = true) : NP (pairItems l) := by
  induction l with
  | nil => exact NP_ok _
  | cons c cs ih =>
    simp only [Const.wtList, Bool.and_eq_true, beq_iff_eq] at h
    obtain ⟨⟨hty, hwt⟩, hcs⟩ := h
    cases c <;> simp only [Const.ty] at hty <;> try cases hty
    rename_i x y
    simp only [Const.wt, Bool.and_eq_true, beq_iff_eq] at hwt
    obtain ⟨⟨⟨hx, hy⟩, _⟩, _⟩ := hwt
    cases x <;> simp only [Const.ty] at hx <;> try cases hx
    cases y <;> simp only [Const.ty] at hy <;> try cases hy
    simp only [pairItems]
    refine NP_bind (ih hcs) ?_
    intro _ _
    exact NP_pure _

theorem writeBitsLoop_np (set : Bool) (l : List Const) (h : Const.wtList .integer l = true) :
    ∀ bytes, NP (writeBitsLoop set l bytes) := by
  induction l with
  | nil => intro bytes; exact NP_ok _
  | cons c cs ih =>
    intro bytes
    simp only [Const.wtList, Bool.and_eq_true, beq_iff_eq] at h
    obtain ⟨⟨hty, _⟩, hcs⟩ := h
    cases c <;> simp only [Const.ty] at hty <;> try cases hty
    simp only [writeBitsLoop]
    split
    · exact NP_err
    · exact ih hcs _

theorem wt_of_unwrapDataList {v : Value} {l : List Const} (hv : v.wt = true) (h : v.unwrapDataList = .ok l) :
    Const.wtList .data l = true := by
  unfold Value.unwrapDataList at h
  split at h
  · cases h; simpa [Value.wt, Const.wt] using hv
  · cases h

theorem wt_of_unwrapIntList {v : Value} {l : List Const} (hv : v.wt = true) (h : v.unwrapIntList = .ok l) :
    Const.wtList .integer l = true := by
  unfold Value.unwrapIntList at h
  split at h
  · cases h; simpa [Value.wt, Const.wt] using hv
  · cases h

theorem wt_of_unwrapList {v : Value} {t : Ty} {l : List Const} (hv : v.wt = true) (h : v.unwrapList = .ok (t, l)) :
    Const.wtList t l = true := by
  unfold Value.unwrapList at h
  split at h
  · cases h; simpa [Value.wt, Const.wt] using hv
  · cases h

end AikenVerif

namespace AikenVerif
open Gen

macro "np_step'" : tactic => `(tactic| first
  | exact NP_ok _ | exact NP_pure _ | exact NP_err | exact NP_unm
  | exact unwrapInteger_np _ | exact unwrapByteString_np _ | exact unwrapString_np _
  | exact unwrapBool_np _ | exact unwrapUnit_np _ | exact unwrapPair_np _ | exact unwrapList_np _
  | exact unwrapData_np _ | exact unwrapDataList_np _ | exact unwrapIntList_np _ | exact unwrapConstant_np _
  | exact dataItems_np _ (wt_of_unwrapDataList (by assumption) (by assumption))
  | exact pairItems_np _ (by first | exact wt_of_unwrapList (by assumption) (by assumption) | (have := wt_of_unwrapList (by assumption) (by assumption); simp_all))
  | exact writeBitsLoop_np _ _ (wt_of_unwrapIntList (by assumption) (by assumption)) _
  | (refine NP_bind ?_ ?_)
  | (intro _ h; first | cases h | skip)
  | split)

theorem len_eq_six {α} {l : List α} (h : l.length = 6) : ∃ a b c d e f, l = [a, b, c, d, e, f] := by
  match l, h with
  | [a, b, c, d, e, f], _ => exact ⟨a, b, c, d, e, f, rfl⟩

theorem chooseData_np (sem : Sem) (args : List Value) (hl : args.length = 6) :
    NP (callBuiltinCore sem .chooseData args) := by
  obtain ⟨a, b, c, d, e, f, rfl⟩ := len_eq_six hl
  simp only [callBuiltinCore, getArgB, List.getElem?_cons_zero, List.getElem?_cons_succ]
  repeat np_step'

theorem constrData_np (sem : Sem) (x y : Value) (hy : y.wt = true) :
    NP (callBuiltinCore sem .constrData [x, y]) := by
  simp only [callBuiltinCore, getArgB, List.getElem?_cons_zero, List.getElem?_cons_succ]
  repeat np_step'

theorem listData_np (sem : Sem) (x : Value) (hx : x.wt = true) :
    NP (callBuiltinCore sem .listData [x]) := by
  simp only [callBuiltinCore, getArgB, List.getElem?_cons_zero, List.getElem?_cons_succ]
  repeat np_step'

theorem writeBits_np (sem : Sem) (x y z : Value) (hy : y.wt = true) :
    NP (callBuiltinCore sem .writeBits [x, y, z]) := by
  simp only [callBuiltinCore, getArgB, List.getElem?_cons_zero, List.getElem?_cons_succ]
  repeat np_step'

theorem mapData_np (sem : Sem) (x : Value) (hx : x.wt = true) :
    NP (callBuiltinCore sem .mapData [x]) := by
  simp only [callBuiltinCore, getArgB, List.getElem?_cons_zero, List.getElem?_cons_succ]
  repeat np_step'

end AikenVerif

namespace AikenVerif
open Gen

theorem indexByteString_np (sem : Sem) (x y : Value) : NP (callBuiltinCore sem .indexByteString [x, y]) := by
  simp only [callBuiltinCore, getArgB, List.getElem?_cons_zero, List.getElem?_cons_succ]
  refine NP_bind (NP_ok _) ?_; intro a ha; cases ha
  refine NP_bind (unwrapByteString_np _) ?_; intro bs _
  refine NP_bind (NP_ok _) ?_; intro b hb; cases hb
  refine NP_bind (unwrapInteger_np _) ?_; intro i _
  split
  · rename_i hc
    simp only [Bool.and_eq_true, decide_eq_true_eq] at hc
    have : i.toNat < bs.length := by omega
    rw [List.getElem?_eq_getElem this]
    exact NP_pure _
  · exact NP_err

theorem readBit_np (sem : Sem) (x y : Value) : NP (callBuiltinCore sem .readBit [x, y]) := by
  simp only [callBuiltinCore, getArgB, List.getElem?_cons_zero, List.getElem?_cons_succ]
  refine NP_bind (NP_ok _) ?_; intro a ha; cases ha
  refine NP_bind (unwrapByteString_np _) ?_; intro bs _
  refine NP_bind (NP_ok _) ?_; intro b hb; cases hb
  refine NP_bind (unwrapInteger_np _) ?_; intro i _
  split
  · exact NP_err
  · split
    · exact NP_err
    · rename_i hne hc
      simp only [Bool.or_eq_true, decide_eq_true_eq, not_or, Int.not_lt] at hc
      have hlen : 0 < bs.length := by
        cases bs with
        | nil => simp at hne
        | cons _ _ => simp
      have : bs.length - 1 - i.toNat / 8 < bs.length := by omega
      rw [List.getElem?_eq_getElem this]
      exact NP_pure _

/-- the size guard evaluated while costing (`cost_as_size`) -/
theorem costAsSize_ok_bounds {b : Builtin} {v : Value} {x : Int} (h : costAsSize b v = .ok x) :
    ∃ size, v = .con (.integer size) ∧ 0 ≤ size ∧ size ≤ 8192 := by
  unfold costAsSize at h
  split at h
  · rename_i size
    split at h
    · split at h <;> cases h
    · rename_i hc
      simp only [Bool.or_eq_true, decide_eq_true_eq, not_or, Int.not_lt] at hc
      exact ⟨size, rfl, by omega, by omega⟩
  · cases h

theorem integerToByteString_np (sem : Sem) (x y z : Value)
    (hpre : runPre .integerToByteString [x, y, z] (costSpec .integerToByteString).pre = .ok ()) :
    NP (callBuiltinCore sem .integerToByteString [x, y, z]) := by
  have hy : ∃ size, y = .con (.integer size) ∧ 0 ≤ size ∧ size ≤ 8192 := by
    simp only [costSpec, runPre, preStep, getArg, List.getElem?_cons_zero, List.getElem?_cons_succ, bind, Res.bind] at hpre
    cases hc : costAsSize .integerToByteString y with
    | ok v => exact costAsSize_ok_bounds hc
    | err => rw [hc] at hpre; cases hpre
    | panic => rw [hc] at hpre; cases hpre
    | unmodelled => rw [hc] at hpre; cases hpre
  obtain ⟨size, rfl, h0, h1⟩ := hy
  simp only [callBuiltinCore, getArgB, List.getElem?_cons_zero, List.getElem?_cons_succ]
  refine NP_bind (NP_ok _) ?_; intro a ha; cases ha
  refine NP_bind (unwrapBool_np _) ?_; intro be _
  refine NP_bind (NP_ok _) ?_; intro b hb; cases hb
  refine NP_bind (unwrapInteger_np _) ?_; intro s hs
  simp only [Value.unwrapInteger] at hs
  cases hs
  refine NP_bind (NP_ok _) ?_; intro c hc; cases hc
  refine NP_bind (unwrapInteger_np _) ?_; intro input _
  have hfit : fitsU64 size = true := by simp [fitsU64]; omega
  simp only [hfit, Bool.not_true, Bool.false_eq_true, if_false]
  repeat (first | exact NP_err | exact NP_pure _ | split)

theorem replicateByte_np (sem : Sem) (x y : Value)
    (hpre : runPre .replicateByte [x, y] (costSpec .replicateByte).pre = .ok ()) :
    NP (callBuiltinCore sem .replicateByte [x, y]) := by
  have hx : ∃ size, x = .con (.integer size) ∧ 0 ≤ size ∧ size ≤ 8192 := by
    simp only [costSpec, runPre, preStep, getArg, List.getElem?_cons_zero, bind, Res.bind] at hpre
    cases hc : costAsSize .replicateByte x with
    | ok v => exact costAsSize_ok_bounds hc
    | err => rw [hc] at hpre; cases hpre
    | panic => rw [hc] at hpre; cases hpre
    | unmodelled => rw [hc] at hpre; cases hpre
  obtain ⟨size, rfl, h0, h1⟩ := hx
  simp only [callBuiltinCore, getArgB, List.getElem?_cons_zero, List.getElem?_cons_succ]
  refine NP_bind (NP_ok _) ?_; intro a ha; cases ha
  refine NP_bind (unwrapInteger_np _) ?_; intro s hs
  simp only [Value.unwrapInteger] at hs
  cases hs
  refine NP_bind (NP_ok _) ?_; intro b hb; cases hb
  refine NP_bind (unwrapInteger_np _) ?_; intro byte _
  have hfit : fitsU64 size = true := by simp [fitsU64]; omega
  simp only [hfit, Bool.not_true, Bool.false_eq_true, if_false]
  repeat (first | exact NP_err | exact NP_pure _ | split)

end AikenVerif

namespace AikenVerif
open Gen

/-- **builtin layer never panics**: a saturated builtin applied to well-typed arguments, after the
costing guards have passed, returns a value or an evaluation error -/
theorem callBuiltinCore_np (sem : Sem) (b : Builtin) (args : List Value) (hl : args.length = b.arity)
    (hw : Value.wtList args = true) (hpre : runPre b args (costSpec b).pre = .ok ()) :
    NP (callBuiltinCore sem b args) := by
  by_cases h1 : b = .constrData
  · subst h1; obtain ⟨x, y, rfl⟩ := len_eq_two hl
    simp only [Value.wtList, Bool.and_eq_true] at hw; exact constrData_np sem x y hw.2.1
  by_cases h2 : b = .mapData
  · subst h2; obtain ⟨x, rfl⟩ := len_eq_one hl
    simp only [Value.wtList, Bool.and_eq_true] at hw; exact mapData_np sem x hw.1
  by_cases h3 : b = .listData
  · subst h3; obtain ⟨x, rfl⟩ := len_eq_one hl
    simp only [Value.wtList, Bool.and_eq_true] at hw; exact listData_np sem x hw.1
  by_cases h4 : b = .writeBits
  · subst h4; obtain ⟨x, y, z, rfl⟩ := len_eq_three hl
    simp only [Value.wtList, Bool.and_eq_true] at hw; exact writeBits_np sem x y z hw.2.1
  by_cases h5 : b = .integerToByteString
  · subst h5; obtain ⟨x, y, z, rfl⟩ := len_eq_three hl; exact integerToByteString_np sem x y z hpre
  by_cases h6 : b = .replicateByte
  · subst h6; obtain ⟨x, y, rfl⟩ := len_eq_two hl; exact replicateByte_np sem x y hpre
  by_cases h7 : b = .indexByteString
  · subst h7; obtain ⟨x, y, rfl⟩ := len_eq_two hl; exact indexByteString_np sem x y
  by_cases h8 : b = .readBit
  · subst h8; obtain ⟨x, y, rfl⟩ := len_eq_two hl; exact readBit_np sem x y
  by_cases h9 : b = .chooseData
  · subst h9; exact chooseData_np sem args hl
  exact core_np_generic sem b args hl ⟨h1, h2, h3, h4, h5, h6, h7, h8, h9⟩

/-- the core only passes through positions that exist -/
def ArgOK (args : List Value) (r : Res BOut) : Prop := ∀ i, r = .ok (.arg i) → i < args.length

theorem ArgOK_bind {α} {args : List Value} {x : Res α} {f : α → Res BOut}
    (hf : ∀ a, x = .ok a → ArgOK args (f a)) : ArgOK args (x >>= f) := by
  cases x with
  | ok a => exact hf a rfl
  | err => intro i h; cases h
  | panic => intro i h; cases h
  | unmodelled => intro i h; cases h

theorem ArgOK_bind' {α} {args : List Value} {x : Res α} {f : α → Res BOut}
    (hf : ∀ a, x = .ok a → ArgOK args (f a)) : ArgOK args (x.bind f) := ArgOK_bind hf

theorem ArgOK_con {args : List Value} (c : Const) : ArgOK args (.ok (.con c)) := by intro i h; cases h
theorem ArgOK_pure {args : List Value} (c : Const) : ArgOK args (pure (.con c)) := by intro i h; cases h
theorem ArgOK_err {args : List Value} : ArgOK args .err := by intro i h; cases h
theorem ArgOK_panic {args : List Value} : ArgOK args .panic := by intro i h; cases h
theorem ArgOK_unm {args : List Value} : ArgOK args .unmodelled := by intro i h; cases h
theorem ArgOK_arg {args : List Value} {i : Nat} (h : i < args.length) : ArgOK args (.ok (.arg i)) := by
  intro j hj; cases hj; exact h

macro "argok_step" : tactic => `(tactic| first
  | exact ArgOK_con _ | exact ArgOK_pure _ | exact ArgOK_err | exact ArgOK_panic | exact ArgOK_unm
  | exact ArgOK_arg (by simp)
  | (refine ArgOK_bind ?_)
  | (refine ArgOK_bind' ?_)
  | split
  | (intro _ h; first | cases h | skip))

theorem core_argok (sem : Sem) (b : Builtin) (args : List Value) (hl : args.length = b.arity) :
    ArgOK args (callBuiltinCore sem b args) := by
  by_cases h9 : b = .chooseData
  · subst h9
    obtain ⟨a, b, c, d, e, f, rfl⟩ := len_eq_six hl
    simp only [callBuiltinCore, getArgB, List.getElem?_cons_zero, List.getElem?_cons_succ]
    repeat argok_step
  · cases b <;> simp only [Builtin.arity] at hl <;> (try contradiction) <;> explode_args hl <;>
      simp only [callBuiltinCore, getArgB, List.getElem?_cons_zero, List.getElem?_cons_succ] <;>
      repeat argok_step

theorem callBuiltin_np (sem : Sem) (b : Builtin) (args : List Value) (hl : args.length = b.arity)
    (hw : Value.wtList args = true) (hpre : runPre b args (costSpec b).pre = .ok ()) :
    NP (callBuiltin sem b args) := by
  unfold callBuiltin
  have hcore := callBuiltinCore_np sem b args hl hw hpre
  have harg := core_argok sem b args hl
  cases hc : callBuiltinCore sem b args with
  | ok o =>
    cases o with
    | con c => exact NP_ok _
    | arg i =>
      have hi := harg i hc
      simp only [Res.bind, getArgB, List.getElem?_eq_getElem hi]
      exact NP_ok _
  | err => intro h; cases h
  | panic => exact absurd hc hcore
  | unmodelled => intro h; cases h

end AikenVerif
