import AikenVerif.Lemmas.CekTyped
/-! Panic-freedom of the builtin layer (C10). -/
namespace AikenVerif
open Gen

def NP {α} (r : Res α) : Prop := r ≠ .panic

theorem NP_ok {α} (a : α) : NP (Res.ok a) := by intro h; cases h
theorem NP_pure {α} (a : α) : NP (pure a : Res α) := by intro h; cases h
theorem NP_err {α} : NP (Res.err : Res α) := by intro h; cases h
theorem NP_unm {α} : NP (Res.unmodelled : Res α) := by intro h; cases h
theorem NP_bind {α β} {x : Res α} {f : α → Res β} (hx : NP x) (hf : ∀ a, x = .ok a → NP (f a)) : NP (x >>= f) := by
  cases x with
  | ok a => exact hf a rfl
  | err => intro h; cases h
  | panic => exact absurd rfl hx
  | unmodelled => intro h; cases h

theorem unwrapInteger_np (v : Value) : NP v.unwrapInteger := by
  unfold Value.unwrapInteger; split <;> intro h <;> cases h
theorem unwrapByteString_np (v : Value) : NP v.unwrapByteString := by
  unfold Value.unwrapByteString; split <;> intro h <;> cases h
theorem unwrapString_np (v : Value) : NP v.unwrapString := by
  unfold Value.unwrapString; split <;> intro h <;> cases h
theorem unwrapBool_np (v : Value) : NP v.unwrapBool := by
  unfold Value.unwrapBool; split <;> intro h <;> cases h
theorem unwrapUnit_np (v : Value) : NP v.unwrapUnit := by
  unfold Value.unwrapUnit; split <;> intro h <;> cases h
theorem unwrapPair_np (v : Value) : NP v.unwrapPair := by
  unfold Value.unwrapPair; split <;> intro h <;> cases h
theorem unwrapList_np (v : Value) : NP v.unwrapList := by
  unfold Value.unwrapList; split <;> intro h <;> cases h
theorem unwrapData_np (v : Value) : NP v.unwrapData := by
  unfold Value.unwrapData; split <;> intro h <;> cases h
theorem unwrapDataList_np (v : Value) : NP v.unwrapDataList := by
  unfold Value.unwrapDataList; split <;> intro h <;> cases h
theorem unwrapIntList_np (v : Value) : NP v.unwrapIntList := by
  unfold Value.unwrapIntList; split <;> intro h <;> cases h
theorem unwrapConstant_np (v : Value) : NP v.unwrapConstant := by
  unfold Value.unwrapConstant; split <;> intro h <;> cases h

theorem expMod_np (b e m : Int) : NP (expMod b e m) := by
  unfold expMod
  repeat (first | split | (intro h; cases h))

macro "np_step" : tactic => `(tactic| first
  | exact NP_ok _ | exact NP_pure _ | exact NP_err | exact NP_unm
  | exact unwrapInteger_np _ | exact unwrapByteString_np _ | exact unwrapString_np _
  | exact unwrapBool_np _ | exact unwrapUnit_np _ | exact unwrapPair_np _ | exact unwrapList_np _
  | exact expMod_np _ _ _
  | exact unwrapData_np _ | exact unwrapDataList_np _ | exact unwrapIntList_np _ | exact unwrapConstant_np _
  | (refine NP_bind ?_ ?_)
  | (intro _ _)
  | split)


macro "np" : tactic => `(tactic| repeat np_step)

theorem len_eq_three {α} {l : List α} (h : l.length = 3) : ∃ x y z, l = [x, y, z] := by
  match l, h with
  | [x, y, z], _ => exact ⟨x, y, z, rfl⟩

theorem len_eq_two {α} {l : List α} (h : l.length = 2) : ∃ x y, l = [x, y] := by
  match l, h with
  | [x, y], _ => exact ⟨x, y, rfl⟩
theorem len_eq_one {α} {l : List α} (h : l.length = 1) : ∃ x, l = [x] := by
  match l, h with
  | [x], _ => exact ⟨x, rfl⟩

macro "explode_args" h:ident : tactic => `(tactic| first
  | (obtain ⟨x, hx⟩ := len_eq_one $h; subst hx)
  | (obtain ⟨x, y, hx⟩ := len_eq_two $h; subst hx)
  | (obtain ⟨x, y, z, hx⟩ := len_eq_three $h; subst hx))

theorem core_np_generic (sem : Sem) (b : Builtin) (args : List Value) (hl : args.length = b.arity)
    (hb : b ≠ .constrData ∧ b ≠ .mapData ∧ b ≠ .listData ∧ b ≠ .writeBits ∧ b ≠ .integerToByteString ∧
          b ≠ .replicateByte ∧ b ≠ .indexByteString ∧ b ≠ .readBit ∧ b ≠ .chooseData) :
    NP (callBuiltinCore sem b args) := by
  obtain ⟨h1, h2, h3, h4, h5, h6, h7, h8, h9⟩ := hb
  cases b <;> simp only [Builtin.arity] at hl <;> (try contradiction) <;> explode_args hl <;>
    simp only [callBuiltinCore, getArgB, List.getElem?_cons_zero, List.getElem?_cons_succ] <;> np

end AikenVerif
