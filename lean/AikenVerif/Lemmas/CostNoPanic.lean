import AikenVerif.Lemmas.BuiltinNoPanic
/-!
`BuiltinCosts::to_ex_budget` never panics on a saturated builtin — proved once, generically,
from a decidable coherence condition on the GENERATED table `Gen.costSpec`
(`costTable_ok`, re-checked whenever `cost_model.rs` changes).
-/
namespace AikenVerif
open Gen

def measureIdx : Measure → Nat
  | .exMem i | .exMemSem i | .asSize i | .listLen i | .literalAbs i | .listLenOrExMem i => i

def preIdx : Pre → Nat
  | .asSize i | .unwrapListPanic i | .unwrapListErr i | .unwrapInt i | .expModGuard i => i

/-- a preliminary step that cannot panic: no `unwrap()`, and `cost_as_size` only for its two builtins -/
def preOK (b : Builtin) : Pre → Bool
  | .unwrapListPanic _ => false
  | .asSize _ => b == .integerToByteString || b == .replicateByte
  | _ => true

/-- the value a measure relies on has been established by a preliminary step -/
def measureCovered (pre : List Pre) : Measure → Bool
  | .asSize i => pre.contains (.asSize i)
  | .listLen i => pre.contains (.unwrapListErr i)
  | .literalAbs i => pre.contains (.unwrapInt i)
  | _ => true

def costTableOK (b : Builtin) : Bool :=
  (costSpec b).pre.all (fun p => decide (preIdx p < b.arity) && preOK b p) &&
  ((costSpec b).memArgs ++ (costSpec b).cpuArgs).all
    (fun m => decide (measureIdx m < b.arity) && measureCovered (costSpec b).pre m)

/-- coherence of the generated cost table (re-checked on every run) -/
theorem costTable_ok : ∀ b : Builtin, costTableOK b = true := by
  intro b; cases b <;> rfl

theorem getArg_ok {args : List Value} {i : Nat} (h : i < args.length) : getArg args i = .ok args[i] := by
  simp [getArg, List.getElem?_eq_getElem h]

theorem costAsSize_np (b : Builtin) (v : Value) (hb : (b == .integerToByteString || b == .replicateByte) = true) :
    NP (costAsSize b v) := by
  unfold costAsSize
  split
  · split
    · have : (b = .integerToByteString || b = .replicateByte) = true := by simpa using hb
      simp only [this, if_true]; exact NP_err
    · exact NP_ok _
  · exact NP_err

theorem preStep_np (b : Builtin) (args : List Value) (p : Pre) (hi : preIdx p < args.length) (hok : preOK b p = true) :
    NP (preStep b args p) := by
  cases p with
  | asSize i =>
    simp only [preIdx] at hi
    simp only [preStep, getArg_ok hi]
    refine NP_bind (NP_ok _) ?_; intro v _
    refine NP_bind (costAsSize_np b v (by simpa [preOK] using hok)) ?_; intro _ _; exact NP_pure _
  | unwrapListPanic i => simp [preOK] at hok
  | unwrapListErr i =>
    simp only [preIdx] at hi
    simp only [preStep, getArg_ok hi]
    refine NP_bind (NP_ok _) ?_; intro v _
    refine NP_bind (unwrapList_np _) ?_; intro _ _; exact NP_pure _
  | unwrapInt i =>
    simp only [preIdx] at hi
    simp only [preStep, getArg_ok hi]
    refine NP_bind (NP_ok _) ?_; intro v _
    refine NP_bind (unwrapInteger_np _) ?_; intro _ _; exact NP_pure _
  | expModGuard i =>
    simp only [preIdx] at hi
    simp only [preStep, getArg_ok hi]
    refine NP_bind (NP_ok _) ?_; intro v _
    refine NP_bind (unwrapInteger_np _) ?_; intro _ _
    split
    · exact NP_err
    · exact NP_pure _

theorem runPre_np (b : Builtin) (args : List Value) : ∀ (ps : List Pre),
    (∀ p ∈ ps, preIdx p < args.length ∧ preOK b p = true) → NP (runPre b args ps) := by
  intro ps
  induction ps with
  | nil => intro _; exact NP_ok _
  | cons p ps ih =>
    intro h
    simp only [runPre]
    have hp := h p (by simp)
    have := preStep_np b args p hp.1 hp.2
    cases hs : preStep b args p with
    | ok u => simp only [Res.bind]; exact ih (fun q hq => h q (by simp [hq]))
    | err => intro h'; cases h'
    | panic => exact absurd hs this
    | unmodelled => intro h'; cases h'

theorem runPre_ok_mem (b : Builtin) (args : List Value) : ∀ (ps : List Pre),
    runPre b args ps = .ok () → ∀ p ∈ ps, preStep b args p = .ok () := by
  intro ps
  induction ps with
  | nil => intro _ p hp; cases hp
  | cons q qs ih =>
    intro h p hp
    simp only [runPre] at h
    cases hq : preStep b args q with
    | ok u =>
      rw [hq] at h
      simp only [Res.bind] at h
      rcases List.mem_cons.1 hp with rfl | hp'
      · exact hq
      · exact ih h p hp'
    | err => rw [hq] at h; cases h
    | panic => rw [hq] at h; cases h
    | unmodelled => rw [hq] at h; cases h

theorem measure_np (sem : Sem) (b : Builtin) (args : List Value) (pre : List Pre) (m : Measure)
    (hi : measureIdx m < args.length) (hcov : measureCovered pre m = true)
    (hpre : ∀ p ∈ pre, preStep b args p = .ok ()) : NP (measure sem b args m) := by
  cases m with
  | exMem i => simp only [measureIdx] at hi; simp only [measure, getArg_ok hi]; exact NP_ok _
  | exMemSem i => simp only [measureIdx] at hi; simp only [measure, getArg_ok hi]; exact NP_ok _
  | listLenOrExMem i =>
    simp only [measureIdx] at hi
    simp only [measure, getArg_ok hi]
    refine NP_bind (NP_ok _) ?_; intro v _
    split <;> exact NP_pure _
  | asSize i =>
    simp only [measureIdx] at hi
    have hp := hpre (.asSize i) (by simpa [measureCovered] using hcov)
    simp only [preStep, getArg_ok hi, bind, Res.bind, pure] at hp
    simp only [measure, getArg_ok hi]
    refine NP_bind (NP_ok _) ?_; intro v hv; cases hv
    cases hc : costAsSize b args[i] with
    | ok x => exact NP_pure _
    | err => rw [hc] at hp; cases hp
    | panic => rw [hc] at hp; cases hp
    | unmodelled => rw [hc] at hp; cases hp
  | listLen i =>
    simp only [measureIdx] at hi
    have hp := hpre (.unwrapListErr i) (by simpa [measureCovered] using hcov)
    simp only [preStep, getArg_ok hi, bind, Res.bind, pure] at hp
    simp only [measure, getArg_ok hi]
    refine NP_bind (NP_ok _) ?_; intro v hv; cases hv
    cases hv : args[i] with
    | con c =>
      cases c <;> first | exact NP_pure _ | (rw [hv] at hp; simp [Value.unwrapList] at hp)
    | delay _ _ => rw [hv] at hp; simp [Value.unwrapList] at hp
    | lam _ _ _ => rw [hv] at hp; simp [Value.unwrapList] at hp
    | builtin _ _ _ => rw [hv] at hp; simp [Value.unwrapList] at hp
    | constr _ _ => rw [hv] at hp; simp [Value.unwrapList] at hp
  | literalAbs i =>
    simp only [measureIdx] at hi
    have hp := hpre (.unwrapInt i) (by simpa [measureCovered] using hcov)
    simp only [preStep, getArg_ok hi, bind, Res.bind, pure] at hp
    simp only [measure, getArg_ok hi]
    refine NP_bind (NP_ok _) ?_; intro v hv; cases hv
    cases hv : args[i] with
    | con c =>
      cases c <;> first | exact NP_pure _ | (rw [hv] at hp; simp [Value.unwrapInteger] at hp)
    | delay _ _ => rw [hv] at hp; simp [Value.unwrapInteger] at hp
    | lam _ _ _ => rw [hv] at hp; simp [Value.unwrapInteger] at hp
    | builtin _ _ _ => rw [hv] at hp; simp [Value.unwrapInteger] at hp
    | constr _ _ => rw [hv] at hp; simp [Value.unwrapInteger] at hp

theorem measures_np (sem : Sem) (b : Builtin) (args : List Value) (pre : List Pre) : ∀ (ms : List Measure),
    (∀ m ∈ ms, measureIdx m < args.length ∧ measureCovered pre m = true) →
    (∀ p ∈ pre, preStep b args p = .ok ()) → NP (measures sem b args ms) := by
  intro ms
  induction ms with
  | nil => intro _ _; exact NP_ok _
  | cons m ms ih =>
    intro h hpre
    simp only [measures]
    have hm := h m (by simp)
    refine NP_bind (measure_np sem b args pre m hm.1 hm.2 hpre) ?_
    intro _ _
    refine NP_bind (ih (fun q hq => h q (by simp [hq])) hpre) ?_
    intro _ _
    exact NP_pure _

/-- **costing never panics** on a saturated builtin, whatever the arguments -/
theorem builtinCost_np (cm : CostModel) (sem : Sem) (b : Builtin) (args : List Value) (hl : args.length = b.arity) :
    NP (builtinCost cm sem b args) := by
  have htab := costTable_ok b
  simp only [costTableOK, Bool.and_eq_true, List.all_eq_true, decide_eq_true_eq] at htab
  obtain ⟨hpreT, hmT⟩ := htab
  unfold builtinCost
  have hrp : NP (runPre b args (costSpec b).pre) :=
    runPre_np b args _ (fun p hp => by have := hpreT p hp; exact ⟨by omega, this.2⟩)
  refine NP_bind hrp ?_
  intro u hu
  cases u
  have hmem := runPre_ok_mem b args _ hu
  refine NP_bind (measures_np sem b args (costSpec b).pre _ (fun m hm => by
    have := hmT m (by simp [hm]); exact ⟨by omega, this.2⟩) hmem) ?_
  intro ms _
  refine NP_bind (measures_np sem b args (costSpec b).pre _ (fun m hm => by
    have := hmT m (by simp [hm]); exact ⟨by omega, this.2⟩) hmem) ?_
  intro cs _
  refine NP_bind (by split <;> first | exact NP_ok _ | exact NP_unm) ?_
  intro memF _
  refine NP_bind (by split <;> first | exact NP_ok _ | exact NP_unm) ?_
  intro cpuF _
  split <;> first | exact NP_pure _ | exact NP_unm

end AikenVerif
