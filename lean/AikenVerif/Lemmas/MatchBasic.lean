import AikenVerif.Model.Match
/-!
Basic facts about `pmatchL`, typing, and the three row specialisations (C07).
-/
namespace AikenVerif.Match

/-! ### pmatchL -/

theorem pmatchL_length {ps : List Pat} {vs : List Val} (h : pmatchL ps vs = true) : ps.length = vs.length := by
  induction ps generalizing vs with
  | nil => cases vs <;> simp_all [pmatchL]
  | cons p ps ih =>
    cases vs with
    | nil => simp [pmatchL] at h
    | cons v vs =>
      simp only [pmatchL, Bool.and_eq_true] at h
      simp [ih h.2]

theorem pmatchL_append {ps qs : List Pat} {vs ws : List Val} (hl : ps.length = vs.length) :
    pmatchL (ps ++ qs) (vs ++ ws) = (pmatchL ps vs && pmatchL qs ws) := by
  induction ps generalizing vs with
  | nil => cases vs <;> simp_all [pmatchL]
  | cons p ps ih =>
    cases vs with
    | nil => simp at hl
    | cons v vs =>
      simp only [List.length_cons, Nat.add_right_cancel_iff] at hl
      simp [pmatchL, ih hl, Bool.and_assoc]

theorem pmatchL_wilds {n : Nat} {vs : List Val} (h : vs.length = n) : pmatchL (wilds n) vs = true := by
  induction n generalizing vs with
  | zero => cases vs <;> simp_all [wilds, pmatchL]
  | succ n ih =>
    cases vs with
    | nil => simp at h
    | cons v vs =>
      simp only [List.length_cons, Nat.add_right_cancel_iff] at h
      have := ih h
      simp_all [wilds, List.replicate_succ, pmatchL, pmatch]

@[simp] theorem wilds_length (n : Nat) : (wilds n).length = n := by simp [wilds]

theorem pmatch_ctor_ctor (c c' : Nat) (alts : Alts) (ps : List Pat) (vs : List Val) :
    pmatch (.ctor c alts ps) (.ctor c' vs) = (decide (c = c') && pmatchL ps vs) := by
  simp [pmatch]

/-! ### typing -/

theorem Pat.hasTyL_length {sg : Sig} {ps : List Pat} {ts : List Ty} (h : Pat.hasTyL sg ps ts = true) :
    ps.length = ts.length := by
  induction ps generalizing ts with
  | nil => cases ts <;> simp_all [Pat.hasTyL]
  | cons p ps ih =>
    cases ts with
    | nil => simp [Pat.hasTyL] at h
    | cons t ts =>
      simp only [Pat.hasTyL, Bool.and_eq_true] at h
      simp [ih h.2]

theorem Val.hasTyL_length {sg : Sig} {vs : List Val} {ts : List Ty} (h : Val.hasTyL sg vs ts = true) :
    vs.length = ts.length := by
  induction vs generalizing ts with
  | nil => cases ts <;> simp_all [Val.hasTyL]
  | cons p ps ih =>
    cases ts with
    | nil => simp [Val.hasTyL] at h
    | cons t ts =>
      simp only [Val.hasTyL, Bool.and_eq_true] at h
      simp [ih h.2]

theorem Pat.hasTyL_append {sg : Sig} {ps qs : List Pat} {ts us : List Ty} (hl : ps.length = ts.length) :
    Pat.hasTyL sg (ps ++ qs) (ts ++ us) = (Pat.hasTyL sg ps ts && Pat.hasTyL sg qs us) := by
  induction ps generalizing ts with
  | nil => cases ts <;> simp_all [Pat.hasTyL]
  | cons p ps ih =>
    cases ts with
    | nil => simp at hl
    | cons t ts =>
      simp only [List.length_cons, Nat.add_right_cancel_iff] at hl
      simp [Pat.hasTyL, ih hl, Bool.and_assoc]

theorem Val.hasTyL_append {sg : Sig} {vs ws : List Val} {ts us : List Ty} (hl : vs.length = ts.length) :
    Val.hasTyL sg (vs ++ ws) (ts ++ us) = (Val.hasTyL sg vs ts && Val.hasTyL sg ws us) := by
  induction vs generalizing ts with
  | nil => cases ts <;> simp_all [Val.hasTyL]
  | cons p ps ih =>
    cases ts with
    | nil => simp at hl
    | cons t ts =>
      simp only [List.length_cons, Nat.add_right_cancel_iff] at hl
      simp [Val.hasTyL, ih hl, Bool.and_assoc]

/-- a typed vector at `tys ++ ts` splits into a typed vector at `tys` and one at `ts` -/
theorem Val.hasTyL_split {sg : Sig} {vs : List Val} {tys ts : List Ty}
    (h : Val.hasTyL sg vs (tys ++ ts) = true) :
    ∃ ws vs', vs = ws ++ vs' ∧ Val.hasTyL sg ws tys = true ∧ Val.hasTyL sg vs' ts = true := by
  induction tys generalizing vs with
  | nil => exact ⟨[], vs, rfl, by simp [Val.hasTyL], by simpa using h⟩
  | cons t tys ih =>
    cases vs with
    | nil => simp [Val.hasTyL] at h
    | cons v vs =>
      simp only [List.cons_append, Val.hasTyL, Bool.and_eq_true] at h
      obtain ⟨ws, vs', e, h1, h2⟩ := ih h.2
      exact ⟨v :: ws, vs', by simp [e], by simp [Val.hasTyL, h.1, h1], h2⟩

theorem Pat.hasTyL_wilds {sg : Sig} {n : Nat} {ts : List Ty} (h : ts.length = n) :
    Pat.hasTyL sg (wilds n) ts = true := by
  induction n generalizing ts with
  | zero => cases ts <;> simp_all [wilds, Pat.hasTyL]
  | succ n ih =>
    cases ts with
    | nil => simp at h
    | cons t ts =>
      simp only [List.length_cons, Nat.add_right_cancel_iff] at h
      have := ih h
      simp_all [wilds, List.replicate_succ, Pat.hasTyL, Pat.hasTy]

theorem Matrix.hasTy_cons {sg : Sig} {r : Row} {M : Matrix} {ts : List Ty} :
    Matrix.hasTy sg (r :: M) ts = (Pat.hasTyL sg r ts && Matrix.hasTy sg M ts) := by
  simp [Matrix.hasTy]

theorem Matrix.hasTy_mem {sg : Sig} {M : Matrix} {ts : List Ty} (h : Matrix.hasTy sg M ts = true)
    {r : Row} (hr : r ∈ M) : Pat.hasTyL sg r ts = true := by
  simp only [Matrix.hasTy, List.all_eq_true] at h
  exact h r hr

theorem Matrix.hasTy_of_forall {sg : Sig} {M : Matrix} {ts : List Ty}
    (h : ∀ r ∈ M, Pat.hasTyL sg r ts = true) : Matrix.hasTy sg M ts = true := by
  simp only [Matrix.hasTy, List.all_eq_true]
  exact h

/-- the data of a typed constructor pattern -/
theorem Pat.hasTy_ctor {sg : Sig} {c : Nat} {alts : Alts} {ps : List Pat} {t0 : Ty}
    (h : Pat.hasTy sg (.ctor c alts ps) t0 = true) :
    ∃ t d tys, t0 = .data t ∧ sg[t]? = some d ∧ alts = declAlts d ∧ lookupCtor c d = some tys ∧
      Pat.hasTyL sg ps tys = true := by
  cases t0 with
  | int => simp [Pat.hasTy] at h
  | bytes => simp [Pat.hasTy] at h
  | data t =>
    simp only [Pat.hasTy] at h
    split at h
    · rename_i d hd
      simp only [Bool.and_eq_true, decide_eq_true_eq] at h
      obtain ⟨ha, h2⟩ := h
      split at h2
      · rename_i tys htys
        exact ⟨t, d, tys, rfl, hd, ha, htys, h2⟩
      · cases h2
    · cases h

theorem Val.hasTy_ctor {sg : Sig} {c : Nat} {vs : List Val} {t0 : Ty}
    (h : Val.hasTy sg (.ctor c vs) t0 = true) :
    ∃ t d tys, t0 = .data t ∧ sg[t]? = some d ∧ lookupCtor c d = some tys ∧
      Val.hasTyL sg vs tys = true := by
  cases t0 with
  | int => simp [Val.hasTy] at h
  | bytes => simp [Val.hasTy] at h
  | data t =>
    simp only [Val.hasTy] at h
    split at h
    · rename_i d hd
      split at h
      · rename_i tys htys
        exact ⟨t, d, tys, rfl, hd, htys, h⟩
      · cases h
    · cases h

theorem Val.hasTy_data {sg : Sig} {v : Val} {t : Nat} (h : Val.hasTy sg v (.data t) = true) :
    ∃ c vs d tys, v = .ctor c vs ∧ sg[t]? = some d ∧ lookupCtor c d = some tys ∧
      Val.hasTyL sg vs tys = true := by
  cases v with
  | lit l => cases l <;> simp [Val.hasTy] at h
  | ctor c vs =>
    obtain ⟨t', d, tys, e, hd, hl, hv⟩ := Val.hasTy_ctor h
    cases e
    exact ⟨c, vs, d, tys, rfl, hd, hl, hv⟩

theorem Val.hasTy_ctor_intro {sg : Sig} {c : Nat} {vs : List Val} {t : Nat} {d : Decl} {tys : List Ty}
    (hd : sg[t]? = some d) (hl : lookupCtor c d = some tys) (hv : Val.hasTyL sg vs tys = true) :
    Val.hasTy sg (.ctor c vs) (.data t) = true := by
  simp [Val.hasTy, hd, hl, hv]

/-! ### lookupCtor / declAlts -/

theorem lookupCtor_mem_declAlts {c : Nat} {d : Decl} {tys : List Ty} (h : lookupCtor c d = some tys) :
    (c, tys.length) ∈ declAlts d := by
  induction d with
  | nil => simp [lookupCtor] at h
  | cons x d ih =>
    obtain ⟨c', tys'⟩ := x
    simp only [lookupCtor] at h
    split at h
    · rename_i e; cases h; subst e; simp [declAlts]
    · have := ih h
      simp only [declAlts, List.map_cons, List.mem_cons] at *
      right; exact this

theorem lookupCtor_mem {c : Nat} {d : Decl} {tys : List Ty} (h : lookupCtor c d = some tys) :
    (c, tys) ∈ d := by
  induction d with
  | nil => simp [lookupCtor] at h
  | cons x d ih =>
    obtain ⟨c', tys'⟩ := x
    simp only [lookupCtor] at h
    split at h
    · rename_i e; cases h; subst e; simp
    · simp [ih h]

theorem nodupNat_iff (l : List Nat) : nodupNat l = true ↔ l.Nodup := by
  induction l with
  | nil => simp [nodupNat]
  | cons x xs ih => simp [nodupNat, ih]

/-- with distinct constructor names, an `alts` entry determines the looked-up field types -/
theorem declAlts_mem_lookup {d : Decl} (hn : (d.map (·.1)).Nodup) {alt : Nat × Nat}
    (h : alt ∈ declAlts d) : ∃ tys, lookupCtor alt.1 d = some tys ∧ tys.length = alt.2 := by
  induction d with
  | nil => simp [declAlts] at h
  | cons x d ih =>
    obtain ⟨c', tys'⟩ := x
    simp only [List.map_cons, List.nodup_cons] at hn
    simp only [declAlts, List.map_cons, List.mem_cons] at h
    rcases h with h | h
    · subst h; exact ⟨tys', by simp [lookupCtor], rfl⟩
    · obtain ⟨tys, h1, h2⟩ := ih hn.2 h
      refine ⟨tys, ?_, h2⟩
      simp only [lookupCtor]
      split
      · rename_i e
        exfalso; apply hn.1
        have := lookupCtor_mem h1
        rw [← e] at this
        exact List.mem_map.mpr ⟨_, this, rfl⟩
      · exact h1

/-! ### row specialisation vs matching -/

/-- `specialize_row_by_ctor` keeps exactly the rows that can match a `c(ws)`-headed vector -/
theorem specRowCtor_matches (c : Nat) (ws vs : List Val) (r : Row) :
    pmatchL r (.ctor c ws :: vs) = true ↔
      ∃ r', specRowCtor c ws.length r = some r' ∧ pmatchL r' (ws ++ vs) = true := by
  match r with
  | [] => simp [pmatchL, specRowCtor]
  | .wild :: rest =>
    simp [pmatchL, pmatch, specRowCtor, pmatchL_append, pmatchL_wilds]
  | .lit l :: rest => simp [pmatchL, pmatch, specRowCtor]
  | .ctor c' alts args :: rest =>
    simp only [pmatchL, pmatch, specRowCtor, Bool.and_eq_true, decide_eq_true_eq]
    constructor
    · rintro ⟨⟨e, hm⟩, hr⟩
      have hl := pmatchL_length hm
      refine ⟨args ++ rest, by simp [e, hl], ?_⟩
      rw [pmatchL_append hl]; simp [hm, hr]
    · rintro ⟨r', h1, h2⟩
      split at h1
      · rename_i hc
        cases h1
        rw [pmatchL_append hc.2] at h2
        simp only [Bool.and_eq_true] at h2
        exact ⟨⟨hc.1, h2.1⟩, h2.2⟩
      · cases h1

theorem specCtor_matches (c : Nat) (ws vs : List Val) (M : Matrix) :
    (∃ r ∈ M, pmatchL r (.ctor c ws :: vs) = true) ↔
      ∃ r' ∈ specCtor c ws.length M, pmatchL r' (ws ++ vs) = true := by
  simp only [specCtor, List.mem_filterMap]
  constructor
  · rintro ⟨r, hr, hm⟩
    obtain ⟨r', h1, h2⟩ := (specRowCtor_matches c ws vs r).mp hm
    exact ⟨r', ⟨r, hr, h1⟩, h2⟩
  · rintro ⟨r', ⟨r, hr, h1⟩, h2⟩
    exact ⟨r, hr, (specRowCtor_matches c ws vs r).mpr ⟨r', h1, h2⟩⟩

theorem specRowLit_matches (l : Lit) (vs : List Val) (r : Row) :
    pmatchL r (.lit l :: vs) = true ↔ ∃ r', specRowLit l r = some r' ∧ pmatchL r' vs = true := by
  match r with
  | [] => simp [pmatchL, specRowLit]
  | .wild :: rest => simp [pmatchL, pmatch, specRowLit]
  | .ctor c' alts args :: rest => simp [pmatchL, pmatch, specRowLit]
  | .lit l' :: rest =>
    simp only [pmatchL, pmatch, specRowLit, Bool.and_eq_true, decide_eq_true_eq]
    constructor
    · rintro ⟨e, hr⟩; exact ⟨rest, by simp [e], hr⟩
    · rintro ⟨r', h1, h2⟩
      split at h1
      · rename_i e; cases h1; exact ⟨e, h2⟩
      · cases h1

theorem specLit_matches (l : Lit) (vs : List Val) (M : Matrix) :
    (∃ r ∈ M, pmatchL r (.lit l :: vs) = true) ↔ ∃ r' ∈ specLit l M, pmatchL r' vs = true := by
  simp only [specLit, List.mem_filterMap]
  constructor
  · rintro ⟨r, hr, hm⟩
    obtain ⟨r', h1, h2⟩ := (specRowLit_matches l vs r).mp hm
    exact ⟨r', ⟨r, hr, h1⟩, h2⟩
  · rintro ⟨r', ⟨r, hr, h1⟩, h2⟩
    exact ⟨r, hr, (specRowLit_matches l vs r).mpr ⟨r', h1, h2⟩⟩

/-- rows of the default matrix match whatever the head value is -/
theorem specWild_matches_of {M : Matrix} {vs : List Val} (w : Val)
    (h : ∃ r' ∈ specWild M, pmatchL r' vs = true) : ∃ r ∈ M, pmatchL r (w :: vs) = true := by
  obtain ⟨r', hr', hm⟩ := h
  simp only [specWild, List.mem_filterMap] at hr'
  obtain ⟨r, hr, e⟩ := hr'
  refine ⟨r, hr, ?_⟩
  match r, e with
  | .wild :: rest, e =>
    simp only [specRowWild] at e; cases e
    simp [pmatchL, pmatch, hm]

/-- a row matching `w :: vs` either has a wildcard head and its tail is in the default matrix,
or has a non-wildcard head that matches `w` -/
theorem matches_cons_cases {M : Matrix} {w : Val} {vs : List Val} {r : Row} (hr : r ∈ M)
    (hm : pmatchL r (w :: vs) = true) :
    (∃ r' ∈ specWild M, pmatchL r' vs = true) ∨
      (∃ p rest, r = p :: rest ∧ p ≠ .wild ∧ pmatch p w = true) := by
  match r with
  | [] => simp [pmatchL] at hm
  | .wild :: rest =>
    left
    simp only [pmatchL, pmatch, Bool.true_and] at hm
    exact ⟨rest, by simp only [specWild, List.mem_filterMap]; exact ⟨_, hr, rfl⟩, hm⟩
  | .lit l :: rest =>
    right
    simp only [pmatchL, Bool.and_eq_true] at hm
    exact ⟨_, _, rfl, (fun h => by cases h), hm.1⟩
  | .ctor c a args :: rest =>
    right
    simp only [pmatchL, Bool.and_eq_true] at hm
    exact ⟨_, _, rfl, (fun h => by cases h), hm.1⟩

/-! ### specialisation preserves typing -/

theorem specCtor_hasTy {sg : Sig} {M : Matrix} {t : Nat} {ts : List Ty} {d : Decl} {c : Nat} {tys : List Ty}
    (hM : Matrix.hasTy sg M (.data t :: ts) = true) (hd : sg[t]? = some d)
    (hl : lookupCtor c d = some tys) :
    Matrix.hasTy sg (specCtor c tys.length M) (tys ++ ts) = true := by
  apply Matrix.hasTy_of_forall
  intro r' hr'
  simp only [specCtor, List.mem_filterMap] at hr'
  obtain ⟨r, hr, e⟩ := hr'
  have hrt := Matrix.hasTy_mem hM hr
  match r, e with
  | .wild :: rest, e =>
    simp only [specRowCtor] at e; cases e
    simp only [Pat.hasTyL, Bool.and_eq_true] at hrt
    rw [Pat.hasTyL_append (by simp)]
    simp [Pat.hasTyL_wilds, hrt.2]
  | .ctor c' alts args :: rest, e =>
    simp only [specRowCtor] at e
    split at e
    · rename_i hc
      cases e
      simp only [Pat.hasTyL, Bool.and_eq_true] at hrt
      obtain ⟨t', d', tys', e1, hd', _, hl', hargs⟩ := Pat.hasTy_ctor hrt.1
      cases e1
      rw [hd] at hd'; cases hd'
      rw [hc.1, hl] at hl'; cases hl'
      rw [Pat.hasTyL_append (Pat.hasTyL_length hargs)]
      simp [hargs, hrt.2]
    · cases e

theorem specWild_hasTy {sg : Sig} {M : Matrix} {t0 : Ty} {ts : List Ty}
    (hM : Matrix.hasTy sg M (t0 :: ts) = true) : Matrix.hasTy sg (specWild M) ts = true := by
  apply Matrix.hasTy_of_forall
  intro r' hr'
  simp only [specWild, List.mem_filterMap] at hr'
  obtain ⟨r, hr, e⟩ := hr'
  have hrt := Matrix.hasTy_mem hM hr
  match r, e with
  | .wild :: rest, e =>
    simp only [specRowWild] at e; cases e
    simp only [Pat.hasTyL, Bool.and_eq_true] at hrt
    exact hrt.2

theorem specLit_hasTy {sg : Sig} {M : Matrix} {t0 : Ty} {ts : List Ty} (l : Lit)
    (hM : Matrix.hasTy sg M (t0 :: ts) = true) : Matrix.hasTy sg (specLit l M) ts = true := by
  apply Matrix.hasTy_of_forall
  intro r' hr'
  simp only [specLit, List.mem_filterMap] at hr'
  obtain ⟨r, hr, e⟩ := hr'
  have hrt := Matrix.hasTy_mem hM hr
  match r, e with
  | .wild :: rest, e =>
    simp only [specRowLit] at e; cases e
    simp only [Pat.hasTyL, Bool.and_eq_true] at hrt
    exact hrt.2
  | .lit l' :: rest, e =>
    simp only [specRowLit] at e
    split at e
    · cases e
      simp only [Pat.hasTyL, Bool.and_eq_true] at hrt
      exact hrt.2
    · cases e

end AikenVerif.Match
