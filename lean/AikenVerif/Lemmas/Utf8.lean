import AikenVerif.Model.Builtin
/-! `decodeUtf8` inverts `encodeUtf8` (the decoder of the model against core's `String.utf8EncodeChar`) -/
namespace AikenVerif

theorem u8_ofNat_toNat (x : Nat) (h : x < 256) : (UInt8.ofNat x).toNat = x := by
  simp [UInt8.toNat_ofNat', Nat.mod_eq_of_lt h]

theorem char_ofNat_val (c : Char) : Char.ofNat c.val.toNat = c := Char.ofNat_toNat c

/-- decoding the UTF-8 bytes of one character followed by `rest` -/
theorem utf8Decode_encodeChar (c : Char) (rest : Bytes) :
    utf8Decode (String.utf8EncodeChar c ++ rest) = (utf8Decode rest).map (c :: ·) := by
  have hv := c.valid
  have hval : c.val.toNat < 0xD800 ∨ (0xDFFF < c.val.toNat ∧ c.val.toNat < 0x110000) := by
    rcases hv with h | ⟨h1, h2⟩
    · left; exact h
    · right; exact ⟨h1, h2⟩
  have hc := char_ofNat_val c
  generalize hvn : c.val.toNat = v at hval hc
  unfold String.utf8EncodeChar
  simp only [hvn]
  by_cases h1 : v ≤ 0x7f
  · simp only [h1, if_true, List.cons_append, List.nil_append]
    conv => lhs; unfold utf8Decode
    simp only [u8_ofNat_toNat v (by omega)]
    have : v < 0x80 := by omega
    simp only [this, if_true, hc]
  · by_cases h2 : v ≤ 0x7ff
    · simp only [h1, h2, if_true, if_false, List.cons_append, List.nil_append]
      conv => lhs; unfold utf8Decode
      have e0 : (UInt8.ofNat (v / 64 % 0x20 + 0xc0)).toNat = v / 64 % 0x20 + 0xc0 := u8_ofNat_toNat _ (by omega)
      have e1 : (UInt8.ofNat (v % 0x40 + 0x80)).toNat = v % 0x40 + 0x80 := u8_ofNat_toNat _ (by omega)
      simp only [e0, e1]
      have c1 : ¬ (v / 64 % 0x20 + 0xc0 < 0x80) := by omega
      have c2 : (decide (0xC2 ≤ v / 64 % 0x20 + 0xc0) && decide (v / 64 % 0x20 + 0xc0 ≤ 0xDF)) = true := by
        simp only [Bool.and_eq_true, decide_eq_true_eq]; omega
      have c3 : (decide (0x80 ≤ v % 0x40 + 0x80) && decide (v % 0x40 + 0x80 ≤ 0xBF)) = true := by
        simp only [Bool.and_eq_true, decide_eq_true_eq]; omega
      have cp : (v / 64 % 0x20 + 0xc0 - 0xC0) * 64 + (v % 0x40 + 0x80 - 0x80) = v := by omega
      simp only [c1, if_false, c2, if_true, c3, cp, hc]
    · by_cases h3 : v ≤ 0xffff
      · simp only [h1, h2, h3, if_true, if_false, List.cons_append, List.nil_append]
        conv => lhs; unfold utf8Decode
        have e0 : (UInt8.ofNat (v / 4096 % 0x10 + 0xe0)).toNat = v / 4096 % 0x10 + 0xe0 := u8_ofNat_toNat _ (by omega)
        have e1 : (UInt8.ofNat (v / 64 % 0x40 + 0x80)).toNat = v / 64 % 0x40 + 0x80 := u8_ofNat_toNat _ (by omega)
        have e2 : (UInt8.ofNat (v % 0x40 + 0x80)).toNat = v % 0x40 + 0x80 := u8_ofNat_toNat _ (by omega)
        simp only [e0, e1, e2]
        have c1 : ¬ (v / 4096 % 0x10 + 0xe0 < 0x80) := by omega
        have c2 : (decide (0xC2 ≤ v / 4096 % 0x10 + 0xe0) && decide (v / 4096 % 0x10 + 0xe0 ≤ 0xDF)) = false := by
          simp only [Bool.and_eq_false_iff, decide_eq_false_iff_not]; omega
        have c3 : (decide (0xE0 ≤ v / 4096 % 0x10 + 0xe0) && decide (v / 4096 % 0x10 + 0xe0 ≤ 0xEF)) = true := by
          simp only [Bool.and_eq_true, decide_eq_true_eq]; omega
        have cp : (v / 4096 % 0x10 + 0xe0 - 0xE0) * 4096 + (v / 64 % 0x40 + 0x80 - 0x80) * 64 + (v % 0x40 + 0x80 - 0x80) = v := by omega
        have c4 : (decide (0x80 ≤ v / 64 % 0x40 + 0x80) && decide (v / 64 % 0x40 + 0x80 ≤ 0xBF) &&
            (decide (0x80 ≤ v % 0x40 + 0x80) && decide (v % 0x40 + 0x80 ≤ 0xBF)) && decide (0x800 ≤ v) &&
            !(decide (0xD800 ≤ v) && decide (v ≤ 0xDFFF))) = true := by
          simp only [Bool.and_eq_true, decide_eq_true_eq, Bool.not_eq_true', Bool.and_eq_false_iff, decide_eq_false_iff_not]
          omega
        simp only [c1, if_false, c2, Bool.false_eq_true, c3, if_true, cp, c4, hc]
      · simp only [h1, h2, h3, if_false, List.cons_append, List.nil_append]
        conv => lhs; unfold utf8Decode
        have e0 : (UInt8.ofNat (v / 262144 % 0x08 + 0xf0)).toNat = v / 262144 % 0x08 + 0xf0 := u8_ofNat_toNat _ (by omega)
        have e1 : (UInt8.ofNat (v / 4096 % 0x40 + 0x80)).toNat = v / 4096 % 0x40 + 0x80 := u8_ofNat_toNat _ (by omega)
        have e2 : (UInt8.ofNat (v / 64 % 0x40 + 0x80)).toNat = v / 64 % 0x40 + 0x80 := u8_ofNat_toNat _ (by omega)
        have e3 : (UInt8.ofNat (v % 0x40 + 0x80)).toNat = v % 0x40 + 0x80 := u8_ofNat_toNat _ (by omega)
        simp only [e0, e1, e2, e3]
        have c1 : ¬ (v / 262144 % 0x08 + 0xf0 < 0x80) := by omega
        have c2 : (decide (0xC2 ≤ v / 262144 % 0x08 + 0xf0) && decide (v / 262144 % 0x08 + 0xf0 ≤ 0xDF)) = false := by
          simp only [Bool.and_eq_false_iff, decide_eq_false_iff_not]; omega
        have c3 : (decide (0xE0 ≤ v / 262144 % 0x08 + 0xf0) && decide (v / 262144 % 0x08 + 0xf0 ≤ 0xEF)) = false := by
          simp only [Bool.and_eq_false_iff, decide_eq_false_iff_not]; omega
        have c4 : (decide (0xF0 ≤ v / 262144 % 0x08 + 0xf0) && decide (v / 262144 % 0x08 + 0xf0 ≤ 0xF4)) = true := by
          simp only [Bool.and_eq_true, decide_eq_true_eq]; omega
        have cp : (v / 262144 % 0x08 + 0xf0 - 0xF0) * 262144 + (v / 4096 % 0x40 + 0x80 - 0x80) * 4096 +
            (v / 64 % 0x40 + 0x80 - 0x80) * 64 + (v % 0x40 + 0x80 - 0x80) = v := by omega
        have c5 : (decide (0x80 ≤ v / 4096 % 0x40 + 0x80) && decide (v / 4096 % 0x40 + 0x80 ≤ 0xBF) &&
            (decide (0x80 ≤ v / 64 % 0x40 + 0x80) && decide (v / 64 % 0x40 + 0x80 ≤ 0xBF)) &&
            (decide (0x80 ≤ v % 0x40 + 0x80) && decide (v % 0x40 + 0x80 ≤ 0xBF)) && decide (0x10000 ≤ v) &&
            decide (v ≤ 0x10FFFF)) = true := by
          simp only [Bool.and_eq_true, decide_eq_true_eq]
          omega
        simp only [c1, if_false, c2, Bool.false_eq_true, c3, c4, if_true, cp, c5, hc]

/-- `decodeUtf8` inverts `encodeUtf8` on every string -/
theorem utf8Decode_utf8Encode : ∀ s : List Char, utf8Decode (utf8Encode s) = some s
  | [] => by simp [utf8Encode, utf8Decode]
  | c :: cs => by
    have ih := utf8Decode_utf8Encode cs
    have : utf8Encode (c :: cs) = String.utf8EncodeChar c ++ utf8Encode cs := by simp [utf8Encode]
    rw [this, utf8Decode_encodeChar, ih]; rfl

end AikenVerif
