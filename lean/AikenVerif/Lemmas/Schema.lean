import AikenVerif.Model.Schema
/-!
Helper lemmas for C12 / C18 (no property statements here).
-/
namespace AikenVerif.Blueprint

-- ------------------------------------------------------------------ tables
theorem Table.get_cons (k' k : ATy) (s : Schema) (rest : Table) :
    Table.get ((k', s) :: rest) k = if k' = k then some s else Table.get rest k := rfl

theorem Table.mem_of_get {tbl : Table} {k : ATy} {s : Schema} (h : tbl.get k = some s) :
    (k, s) ∈ tbl := by
  induction tbl with
  | nil => simp [Table.get] at h
  | cons e rest ih =>
    obtain ⟨k', s'⟩ := e
    rw [Table.get_cons] at h
    by_cases hk : k' = k
    · simp [hk] at h; subst hk; subst h; exact List.mem_cons_self
    · simp [hk] at h; exact List.mem_cons_of_mem _ (ih h)

theorem Table.get_isSome_of_mem {tbl : Table} {k : ATy} {s : Schema} (h : (k, s) ∈ tbl) :
    ∃ s', tbl.get k = some s' := by
  induction tbl with
  | nil => cases h
  | cons e rest ih =>
    obtain ⟨k', s'⟩ := e
    rw [Table.get_cons]
    by_cases hk : k' = k
    · exact ⟨s', by simp [hk]⟩
    · simp [hk]
      rcases List.mem_cons.mp h with h | h
      · cases h; exact absurd rfl hk
      · exact ih h

-- ------------------------------------------------------------------ outcomes
theorem allOk_congr {α : Type} {f g : α → Outcome} (xs : List α) (h : ∀ x, f x = g x) :
    allOk f xs = allOk g xs := by
  induction xs with
  | nil => rfl
  | cons x xs ih => simp [allOk, h x, ih]

/-- pointwise relation between two lists (core has no `Forall₂` lemmas we could rely on) -/
inductive Rel2 {α β : Type} (R : α → β → Prop) : List α → List β → Prop where
  | nil : Rel2 R [] []
  | cons {a b as bs} : R a b → Rel2 R as bs → Rel2 R (a :: as) (b :: bs)

theorem Rel2.length_eq {α β : Type} {R : α → β → Prop} {as : List α} {bs : List β}
    (h : Rel2 R as bs) : as.length = bs.length := by
  induction h with
  | nil => rfl
  | cons _ _ ih => simp [ih]

theorem zipOk_rel {σ τ α : Type} {R : τ → σ → Prop} {f : σ → α → Outcome} {g : τ → α → Outcome}
    {ts : List τ} {ss : List σ} (h : Rel2 R ts ss)
    (hfg : ∀ t s x, R t s → f s x = g t x) (xs : List α) :
    zipOk f ss xs = zipOk g ts xs := by
  induction h generalizing xs with
  | nil => cases xs <;> rfl
  | cons hr _ ih =>
    cases xs with
    | nil => rfl
    | cons x xs => simp [zipOk, hfg _ _ x hr, ih xs]

theorem ctorLoop_rel {σ τ : Type} {R : τ → σ → Prop} {f : σ → Data → Outcome}
    {g : τ → Data → Outcome} (m : Outcome) (tag : Nat) (fields : List Data)
    {cs : List (Nat × List τ)} {rs : List (Nat × List σ)}
    (h : Rel2 (fun c r => c.1 = r.1 ∧ Rel2 R c.2 r.2) cs rs)
    (hfg : ∀ t s x, R t s → f s x = g t x) :
    ctorLoop m f tag fields rs = ctorLoop m g tag fields cs := by
  induction h with
  | nil => rfl
  | @cons c r cs rs hr _ ih =>
    obtain ⟨i, ts⟩ := c
    obtain ⟨j, ss⟩ := r
    obtain ⟨hij, hts⟩ := hr
    simp only at hij hts
    subst hij
    simp only [ctorLoop]
    rw [ih, hts.length_eq, zipOk_rel hts hfg]

-- ------------------------------------------------------------------ resolution
/-- `k` is defined in the table as the data schema `ds` -/
def Res (tbl : Table) (k : ATy) (ds : DSchema) : Prop := tbl.get k = some (.data ds)

theorem resolveD_ref {tbl : Table} {k : ATy} {ds : DSchema} (h : Res tbl k ds) :
    resolveD tbl (.ref k) = some ds := by
  unfold Res at h
  simp [resolveD, h]

theorem resolveAll_refs {tbl : Table} (ts : List ATy) (h : ∀ k ∈ ts, ∃ ds, Res tbl k ds) :
    ∃ ss, resolveAll tbl (refs ts) = some ss ∧ Rel2 (Res tbl) ts ss := by
  induction ts with
  | nil => exact ⟨[], rfl, .nil⟩
  | cons t ts ih =>
    obtain ⟨ds, hds⟩ := h t List.mem_cons_self
    obtain ⟨ss, hss, hrel⟩ := ih (fun k hk => h k (List.mem_cons_of_mem _ hk))
    refine ⟨ds :: ss, ?_, .cons hds hrel⟩
    have : refs (t :: ts) = Decl.ref t :: refs ts := rfl
    rw [this]
    simp only [resolveAll, resolveD_ref hds]
    have hss' : resolveAll tbl (refs ts) = some ss := hss
    simp [hss']

theorem resolveCtors_refs {tbl : Table} (cs : List (Nat × List ATy))
    (h : ∀ c ∈ cs, ∀ k ∈ c.2, ∃ ds, Res tbl k ds) :
    ∃ rs, resolveCtors tbl (cs.map (fun c => (c.1, refs c.2))) = some rs ∧
      Rel2 (fun c r => c.1 = r.1 ∧ Rel2 (Res tbl) c.2 r.2) cs rs := by
  induction cs with
  | nil => exact ⟨[], rfl, .nil⟩
  | cons c cs ih =>
    obtain ⟨i, fs⟩ := c
    obtain ⟨ss, hss, hrel⟩ := resolveAll_refs fs (h (i, fs) List.mem_cons_self)
    obtain ⟨rs, hrs, hrels⟩ := ih (fun c hc => h c (List.mem_cons_of_mem _ hc))
    refine ⟨(i, ss) :: rs, ?_, .cons ⟨rfl, hrel⟩ hrels⟩
    simp only [List.map_cons, resolveCtors, hss, hrs]

-- ------------------------------------------------------------------ faithful tables
/-- every definition is the published schema of its key, and every reference it makes is
itself defined -/
def Faithful (decls : Decls) (tbl : Table) : Prop :=
  ∀ t s, tbl.get t = some s →
    ∃ ds, pubSchema decls t = some ds ∧ s = .data ds ∧
      ∀ k ∈ (Schema.data ds).refs, ∃ s', tbl.get k = some s'

theorem Faithful.res {decls : Decls} {tbl : Table} (hF : Faithful decls tbl) {k : ATy} {s : Schema}
    (h : tbl.get k = some s) : ∃ ds, Res tbl k ds := by
  obtain ⟨ds, _, hs, _⟩ := hF k s h
  exact ⟨ds, by unfold Res; rw [h, hs]⟩

theorem flatMap_declRefs_refs (fs : List ATy) :
    (refs fs).flatMap (declRefs (α := DSchema)) = fs := by
  induction fs with
  | nil => rfl
  | cons t ts ih =>
    have : refs (t :: ts) = Decl.ref t :: refs ts := rfl
    rw [this, List.flatMap_cons, ih]; rfl

@[simp] theorem lenOutcome_true : lenOutcome true = .mismatch := rfl
@[simp] theorem lenOutcome_false : lenOutcome false = .panic := rfl

end AikenVerif.Blueprint
