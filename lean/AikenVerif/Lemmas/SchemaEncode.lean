import AikenVerif.Lemmas.Schema
/-! Every typed value, serialised, is accepted by `expect`. -/
namespace AikenVerif.Blueprint

/-- the type checker's `DecoratorTagOverlap` rule: constructor indices of a declaration are distinct -/
def TagsDistinct (decls : Decls) : Prop :=
  ∀ dt ∈ decls, ((ctorTable 0 dt.ctors).map (·.1)).Nodup

instance (decls : Decls) : Decidable (TagsDistinct decls) := by
  unfold TagsDistinct; exact inferInstance

theorem allOk_of_mapOpt {α β : Type} {f : α → Option β} {g : β → Outcome} :
    ∀ {vs : List α} {ds : List β}, mapOpt f vs = some ds →
      (∀ v d, f v = some d → g d = .ok) → allOk g ds = .ok := by
  intro vs
  induction vs with
  | nil => intro ds h _; simp [mapOpt] at h; subst h; rfl
  | cons v vs ih =>
    intro ds h hfg
    simp only [mapOpt] at h
    cases hv : f v with
    | none => simp [hv] at h
    | some y =>
      cases hr : mapOpt f vs with
      | none => simp [hv, hr] at h
      | some ys =>
        simp [hv, hr] at h; subst h
        simp [allOk, hfg v y hv, ih hr hfg]

theorem zipOk_of_zipOpt {σ α β : Type} {f : σ → α → Option β} {g : σ → β → Outcome} :
    ∀ {ts : List σ} {vs : List α} {ds : List β}, zipOpt f ts vs = some ds →
      (∀ t v d, f t v = some d → g t d = .ok) → zipOk g ts ds = .ok ∧ ts.length = ds.length := by
  intro ts
  induction ts with
  | nil =>
    intro vs ds h _
    cases vs with
    | nil => simp [zipOpt] at h; subst h; exact ⟨rfl, rfl⟩
    | cons v vs => simp [zipOpt] at h
  | cons t ts ih =>
    intro vs ds h hfg
    cases vs with
    | nil => simp [zipOpt] at h
    | cons v vs =>
      simp only [zipOpt] at h
      cases hv : f t v with
      | none => simp [hv] at h
      | some y =>
        cases hr : zipOpt f ts vs with
        | none => simp [hv, hr] at h
        | some ys =>
          simp [hv, hr] at h; subst h
          obtain ⟨h1, h2⟩ := ih hr hfg
          exact ⟨by simp [zipOk, hfg t v y hv, h1], by simp [h2]⟩

theorem ctorLoop_at {σ : Type} (m : Outcome) (g : σ → Data → Outcome) (fields : List Data) :
    ∀ {cs : List (Nat × List σ)} {pos i : Nat} {fs : List σ}, (cs.map (·.1)).Nodup →
      cs[pos]? = some (i, fs) →
      ctorLoop m g i fields cs = if fs.length ≠ fields.length then m else zipOk g fs fields := by
  intro cs
  induction cs with
  | nil => intro pos i fs _ h; simp at h
  | cons c cs ih =>
    intro pos i fs hnd h
    obtain ⟨j, ss⟩ := c
    cases pos with
    | zero =>
      simp at h
      obtain ⟨rfl, rfl⟩ := h
      simp [ctorLoop]
    | succ pos =>
      simp at h
      simp only [List.map_cons, List.nodup_cons] at hnd
      have hmem : i ∈ cs.map (·.1) := by
        have := List.mem_of_getElem? h
        exact List.mem_map.mpr ⟨(i, fs), this, rfl⟩
      have hji : j ≠ i := fun e => hnd.1 (e ▸ hmem)
      simp only [ctorLoop, hji, if_false]
      exact ih hnd.2 h

theorem adtShape_variants {decls : Decls} {n : Nat} {args : ATys} {cs : List (Nat × List ATy)}
    (h : adtShape decls n args = .variants cs) :
    ∃ dt, dt ∈ decls ∧ cs.map (·.1) = (ctorTable 0 dt.ctors).map (·.1) := by
  unfold adtShape at h
  split at h
  · cases h
  · rename_i dt hdt
    split at h
    · cases h
    · cases h
      exact ⟨dt, List.mem_of_getElem? hdt, by simp [List.map_map, Function.comp_def]⟩

theorem encode_inh {decls : Decls} (hw : TagsDistinct decls) :
    ∀ (fuel : Nat) (t : ATy) (v : Val) (d : Data), encode decls fuel t v = some d →
      inh decls fuel t d = .ok := by
  intro fuel
  induction fuel with
  | zero => intro t v d h; simp [encode] at h
  | succ fuel ih =>
    intro t v d h
    have ihz : ∀ t v d, (fun t v => encode decls fuel t v) t v = some d →
        (fun t x => inh decls fuel t x) t d = .ok := fun t v d h => ih t v d h
    cases t with
    | int => cases v <;> simp [encode] at h; subst h; simp [inh]
    | bytes => cases v <;> simp [encode] at h; subst h; simp [inh]
    | data => cases v <;> simp [encode] at h; simp [inh]
    | bool =>
      cases v <;> simp [encode] at h; subst h
      rename_i b; cases b <;> simp [inh, ctorLoop, zipOk]
    | void => cases v <;> simp [encode] at h; subst h; simp [inh, ctorLoop, zipOk]
    | never => cases v <;> simp [encode] at h; subst h; simp [inh, ctorLoop, zipOk]
    | ordering =>
      cases v <;> simp [encode] at h
      obtain ⟨hn, rfl⟩ := h
      rename_i n
      have : n = 0 ∨ n = 1 ∨ n = 2 := by omega
      rcases this with rfl | rfl | rfl <;> simp [inh, ctorLoop, zipOk]
    | var i => cases v <;> simp [encode] at h
    | option t =>
      cases v <;> simp [encode] at h
      · obtain ⟨x, hx, rfl⟩ := h
        simp [inh, ctorLoop, zipOk, ih t _ x hx]
      · subst h; simp [inh, ctorLoop, zipOk]
    | pair a b =>
      cases v <;> simp [encode] at h
      rename_i x y
      cases hx : encode decls fuel a x with
      | none => simp [hx] at h
      | some k =>
        cases hy : encode decls fuel b y with
        | none => simp [hx, hy] at h
        | some w =>
          simp [hx, hy] at h; subst h
          simp [inh, zipOk, ih a x k hx, ih b y w hy]
    | tuple ts =>
      cases v <;> simp [encode] at h
      obtain ⟨ds, hds, rfl⟩ := h
      obtain ⟨h1, h2⟩ := zipOk_of_zipOpt hds ihz
      simp [inh, h1, h2]
    | list t =>
      by_cases hp : ∃ a b, t = .pair a b
      · obtain ⟨a, b, rfl⟩ := hp
        cases v <;> simp [encode] at h
        obtain ⟨es, hes, rfl⟩ := h
        simp only [inh]
        refine allOk_of_mapOpt hes (fun v e hv => ?_)
        cases v <;> simp at hv
        rename_i x y
        cases hx : encode decls fuel a x with
        | none => simp [hx] at hv
        | some k =>
          cases hy : encode decls fuel b y with
          | none => simp [hx, hy] at hv
          | some w =>
            simp [hx, hy] at hv; subst hv
            simp [Outcome.andThen, ih a x k hx, ih b y w hy]
      · cases v with
        | list vs =>
          have he : encode decls (fuel + 1) (.list t) (.list vs) =
              (mapOpt (fun v => encode decls fuel t v) vs).map Data.list := by
            cases t <;> first | (exfalso; exact hp ⟨_, _, rfl⟩) | simp [encode]
          rw [he] at h
          simp at h
          obtain ⟨ds, hds, rfl⟩ := h
          have hi : inh decls (fuel + 1) (.list t) (.list ds) = allOk (fun x => inh decls fuel t x) ds := by
            cases t <;> first | (exfalso; exact hp ⟨_, _, rfl⟩) | simp [inh]
          rw [hi]
          exact allOk_of_mapOpt hds (fun v d hv => ih t v d hv)
        | _ =>
          exfalso
          cases t <;> first | (exfalso; exact hp ⟨_, _, rfl⟩) | simp [encode] at h
    | adt n args =>
      cases v <;> simp only [encode] at h <;> try (simp at h)
      rename_i pos vs
      cases hsh : adtShape decls n args with
      | undeclared => simp [hsh] at h
      | record fs =>
        simp only [hsh] at h
        split at h
        · simp at h
          obtain ⟨ds, hds, rfl⟩ := h
          obtain ⟨h1, h2⟩ := zipOk_of_zipOpt hds ihz
          simp [inh, hsh, h1, h2]
        · simp at h
      | variants cs =>
        simp only [hsh] at h
        cases hc : cs[pos]? with
        | none => simp [hc] at h
        | some c =>
          obtain ⟨i, fs⟩ := c
          simp [hc] at h
          obtain ⟨ds, hds, rfl⟩ := h
          obtain ⟨h1, h2⟩ := zipOk_of_zipOpt hds ihz
          obtain ⟨dt, hdt, hmap⟩ := adtShape_variants hsh
          have hnd : (cs.map (·.1)).Nodup := hmap ▸ hw dt hdt
          simp only [inh, hsh]
          rw [ctorLoop_at .mismatch _ ds hnd hc]
          simp [h1, h2]

end AikenVerif.Blueprint
