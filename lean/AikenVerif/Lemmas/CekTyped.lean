import AikenVerif.Lemmas.CekRefine
/-!
Well-typed constants: every list constant's items have the declared element type, every pair's
components the declared types.  The flat decoder and the text parser only build such constants
(they decode items BY the declared type); the builtins preserve it; the `unreachable!()` arms of
`runtime.rs` are exactly the ill-typed cases.
-/
namespace AikenVerif
open Gen

mutual
  def Const.wt : Const → Bool
    | .list t xs => Const.wtList t xs
    | .pair a b x y => (x.ty == a) && (y.ty == b) && x.wt && y.wt
    | _ => true
  def Const.wtList (t : Ty) : List Const → Bool
    | [] => true
    | c :: cs => (c.ty == t) && c.wt && Const.wtList t cs
end

mutual
  def Term.wt : NTerm → Bool
    | .const c => c.wt
    | .lam _ b => Term.wt b
    | .app f a => Term.wt f && Term.wt a
    | .delay t => Term.wt t
    | .force t => Term.wt t
    | .constr _ fs => Term.wtList fs
    | .case s bs => Term.wt s && Term.wtList bs
    | .var _ => true
    | .error => true
    | .builtin _ => true
  def Term.wtList : List NTerm → Bool
    | [] => true
    | t :: ts => Term.wt t && Term.wtList ts
end

mutual
  def Value.wt : Value → Bool
    | .con c => c.wt
    | .delay body env => Term.wt body && Value.wtList env
    | .lam _ body env => Term.wt body && Value.wtList env
    | .builtin _ _ args => Value.wtList args
    | .constr _ fs => Value.wtList fs
  def Value.wtList : List Value → Bool
    | [] => true
    | v :: vs => v.wt && Value.wtList vs
end

def Frame.wt : Frame → Bool
  | .awaitArg fn => fn.wt
  | .awaitFunTerm env t => Value.wtList env && Term.wt t
  | .awaitFunValue v => v.wt
  | .force => true
  | .constr env _ todo done => Value.wtList env && Term.wtList todo && Value.wtList done
  | .cases env bs => Value.wtList env && Term.wtList bs

def State.wt : State → Bool
  | .compute ctx env t => ctx.all Frame.wt && Value.wtList env && Term.wt t
  | .ret ctx v => ctx.all Frame.wt && v.wt

theorem Value.wtList_iff (vs : List Value) : Value.wtList vs = true ↔ ∀ v ∈ vs, v.wt = true := by
  induction vs with
  | nil => simp [Value.wtList]
  | cons v vs ih => simp [Value.wtList, ih]

theorem Value.wtList_append (xs ys : List Value) :
    Value.wtList (xs ++ ys) = (Value.wtList xs && Value.wtList ys) := by
  induction xs with
  | nil => simp [Value.wtList]
  | cons x xs ih => simp [Value.wtList, ih, Bool.and_assoc]

theorem Term.wtList_iff (ts : List NTerm) : Term.wtList ts = true ↔ ∀ t ∈ ts, Term.wt t = true := by
  induction ts with
  | nil => simp [Term.wtList]
  | cons t ts ih => simp [Term.wtList, ih]

theorem Const.wtList_iff (t : Ty) (cs : List Const) :
    Const.wtList t cs = true ↔ ∀ c ∈ cs, c.ty = t ∧ c.wt = true := by
  induction cs with
  | nil => simp [Const.wtList]
  | cons c cs ih => simp [Const.wtList, ih, and_assoc]

theorem Const.wtList_drop (t : Ty) (cs : List Const) (n : Nat) (h : Const.wtList t cs = true) :
    Const.wtList t (cs.drop n) = true := by
  rw [Const.wtList_iff] at h ⊢
  intro c hc
  exact h c (List.mem_of_mem_drop hc)

theorem Const.wtList_map_data (ds : List Data) : Const.wtList .data (ds.map Const.data) = true := by
  induction ds with
  | nil => rfl
  | cons d ds ih => simp [Const.wtList, Const.ty, Const.wt, ih]

theorem Const.wtList_map_pairs (es : List (Data × Data)) :
    Const.wtList (.pair .data .data) (es.map (fun (k, v) => Const.pair .data .data (.data k) (.data v))) = true := by
  induction es with
  | nil => rfl
  | cons e es ih => obtain ⟨k, v⟩ := e; simp [Const.wtList, Const.ty, Const.wt, ih]

end AikenVerif
