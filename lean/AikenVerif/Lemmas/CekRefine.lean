import AikenVerif.Lemmas.CekAcct
/-! Lock-step refinement: a transition of the impl model is the transition of the specification's
machine (budget aside), on well-formed states; well-formedness is preserved. -/
namespace AikenVerif
open Gen

mutual
  /-- builtin values inside a value respect the "all forces before any argument" discipline and are
  unsaturated (a saturated builtin is run at once) -/
  def Value.wf : Value → Bool
    | .con _ => true
    | .delay _ env => Value.wfList env
    | .lam _ _ env => Value.wfList env
    | .builtin b forces args =>
      decide (forces ≤ b.forceCount) && (args.isEmpty || forces == b.forceCount) &&
        decide (args.length < b.arity) && Value.wfList args
    | .constr _ fs => Value.wfList fs
  def Value.wfList : List Value → Bool
    | [] => true
    | v :: vs => v.wf && Value.wfList vs
end

def Frame.wf : Frame → Bool
  | .awaitArg fn => fn.wf
  | .awaitFunTerm env _ => Value.wfList env
  | .awaitFunValue v => v.wf
  | .force => true
  | .constr env _ _ done => Value.wfList env && Value.wfList done
  | .cases env _ => Value.wfList env

def State.wf : State → Bool
  | .compute ctx env _ => ctx.all Frame.wf && Value.wfList env
  | .ret ctx v => ctx.all Frame.wf && v.wf

theorem wfList_iff (vs : List Value) : Value.wfList vs = true ↔ ∀ v ∈ vs, v.wf = true := by
  induction vs with
  | nil => simp [Value.wfList]
  | cons v vs ih => simp [Value.wfList, ih]

theorem wfList_append (xs ys : List Value) :
    Value.wfList (xs ++ ys) = (Value.wfList xs && Value.wfList ys) := by
  induction xs with
  | nil => simp [Value.wfList]
  | cons x xs ih => simp [Value.wfList, ih, Bool.and_assoc]

theorem wf_of_getElem? {vs : List Value} {i : Nat} {v : Value} (h : Value.wfList vs = true)
    (hv : vs[i]? = some v) : v.wf = true :=
  (wfList_iff vs).1 h v (List.mem_of_getElem? hv)

theorem pushArgs_wf (fields : List Value) (ctx : Ctx) (hf : Value.wfList fields = true)
    (hc : ctx.all Frame.wf = true) : (Spec.pushArgs fields ctx).all Frame.wf = true := by
  unfold Spec.pushArgs
  rw [List.all_append, hc, Bool.and_true]
  rw [List.all_map]
  rw [List.all_eq_true]
  intro v hv
  exact (wfList_iff fields).1 hf v hv

/-- a builtin returns a constant or one of its arguments, so well-formedness is kept -/
theorem callBuiltin_wf (sem : Sem) (b : Builtin) (args : List Value) (v : Value)
    (ha : Value.wfList args = true) (h : callBuiltin sem b args = .ok v) : v.wf = true := by
  unfold callBuiltin at h
  cases hc : callBuiltinCore sem b args with
  | ok o =>
    rw [hc] at h
    cases o with
    | con c => simp [Res.bind] at h; subst h; simp [Value.wf]
    | arg i =>
      simp only [Res.bind, getArgB] at h
      cases hi : args[i]? with
      | none => rw [hi] at h; cases h
      | some x =>
        rw [hi] at h
        cases h
        exact wf_of_getElem? ha hi
  | err => rw [hc] at h; cases h
  | panic => rw [hc] at h; cases h
  | unmodelled => rw [hc] at h; cases h

theorem denotation_wf (sem : Sem) (b : Builtin) (args : List Value) (v : Value)
    (ha : Value.wfList args = true) (h : denotation sem b args = .ok v) : v.wf = true := by
  unfold denotation at h
  cases hp : runPre b args (costSpec b).pre with
  | ok u => rw [hp] at h; exact callBuiltin_wf sem b args v ha h
  | err => rw [hp] at h; cases h
  | panic => rw [hp] at h; cases h
  | unmodelled => rw [hp] at h; cases h

end AikenVerif

namespace AikenVerif
open Gen

@[simp] theorem Outcome.bind_ok' {α β} (a : α) (f : α → Outcome β) : (Outcome.ok a >>= f) = f a := rfl
@[simp] theorem Outcome.bind_fail' {α β} (f : α → Outcome β) : (Outcome.fail >>= f) = .fail := rfl
@[simp] theorem Outcome.bind_oob' {α β} (f : α → Outcome β) : (Outcome.oob >>= f) = .oob := rfl
@[simp] theorem Outcome.bind_panic' {α β} (f : α → Outcome β) : (Outcome.panic >>= f) = .panic := rfl
@[simp] theorem Outcome.bind_unm' {α β} (f : α → Outcome β) : (Outcome.unmodelled >>= f) = .unmodelled := rfl
@[simp] theorem Outcome.pure_eq {α} (a : α) : (pure a : Outcome α) = .ok a := rfl

/-- what one impl transition guarantees with respect to the specification's machine -/
def StepGood (cfg : Config) (s : State) : StepResult → Prop
  | .next a' s' => Spec.step cfg.sem (denotation cfg.sem) s = .next s' ∧ s'.wf = true ∧ AcctWF a'
  | .done _ t => Spec.step cfg.sem (denotation cfg.sem) s = .done t
  | .fail => Spec.step cfg.sem (denotation cfg.sem) s = .fail
  | _ => True

theorem charge_then (cfg : Config) (a : Acct) (k : Option StepKind) (ha : AcctWF a)
    (f : Acct → Outcome (Acct × State)) (P : StepResult → Prop)
    (hoob : P .oob) (hun : P .unmodelled)
    (hf : ∀ a', AcctWF a' → P (.ofOutcome (f a'))) :
    P (.ofOutcome (chargeStep cfg a k >>= f)) := by
  have hb := chargeStep_benign cfg a k ha
  revert hb
  cases chargeStep cfg a k with
  | ok a' => intro hb; exact hf a' hb
  | oob => intro _; exact hoob
  | unmodelled => intro _; exact hun
  | fail => intro hb; exact absurd hb (by simp [Benign])
  | panic => intro hb; exact absurd hb (by simp [Benign])

-- ------------------------------------------------------------------ signatures
theorem drop_mkSig_lt (f a n : Nat) (h : n < f) :
    ∃ rest, (Spec.mkSig f a).drop n = .all :: rest := by
  unfold Spec.mkSig
  rw [List.drop_append_of_le_length (by simp; omega)]
  rw [List.drop_replicate]
  obtain ⟨m, hm⟩ : ∃ m, f - n = m + 1 := ⟨f - n - 1, by omega⟩
  rw [hm, List.replicate_succ]
  exact ⟨_, rfl⟩

theorem drop_mkSig_ge (f a k : Nat) :
    (Spec.mkSig f a).drop (f + k) = List.replicate (a - k) .arg := by
  unfold Spec.mkSig
  rw [List.drop_append]
  simp [List.drop_replicate]

-- ------------------------------------------------------------------ builtin application
theorem measure_ne_err (sem : Sem) (b : Builtin) (args : List Value) (m : Measure) :
    measure sem b args m ≠ .err := by
  cases m <;> simp only [measure, getArg] <;> (
    rename_i i
    cases args[i]? with
    | none => intro h; cases h
    | some v =>
      simp only [bind, Res.bind, pure]
      try (split <;> intro h <;> cases h)
      try (intro h; cases h))

theorem measures_ne_err (sem : Sem) (b : Builtin) (args : List Value) (ms : List Measure) :
    measures sem b args ms ≠ .err := by
  induction ms with
  | nil => intro h; cases h
  | cons m ms ih =>
    simp only [measures, bind, Res.bind, pure]
    have := measure_ne_err sem b args m
    cases hm : measure sem b args m with
    | ok x =>
      simp only
      cases hms : measures sem b args ms with
      | ok xs => intro h; cases h
      | err => exact absurd hms ih
      | panic => intro h; cases h
      | unmodelled => intro h; cases h
    | err => exact absurd hm this
    | panic => intro h; cases h
    | unmodelled => intro h; cases h

end AikenVerif

namespace AikenVerif
open Gen

theorem Res.bind_ne_err {α β} {x : Res α} {f : α → Res β} (hx : x ≠ .err) (hf : ∀ a, f a ≠ .err) :
    x.bind f ≠ .err := by
  cases x with
  | ok a => exact hf a
  | err => exact absurd rfl hx
  | panic => intro h; cases h
  | unmodelled => intro h; cases h

/-- costing fails exactly when one of its fallible preliminary steps does -/
theorem builtinCost_cases (cm : CostModel) (sem : Sem) (b : Builtin) (args : List Value) :
    (builtinCost cm sem b args = .err → runPre b args (costSpec b).pre = .err) ∧
    (∀ c, builtinCost cm sem b args = .ok c → runPre b args (costSpec b).pre = .ok ()) := by
  unfold builtinCost
  simp only [bind, pure]
  cases hp : runPre b args (costSpec b).pre with
  | err => simp [Res.bind]
  | panic => simp [Res.bind]
  | unmodelled => simp [Res.bind]
  | ok u =>
    refine ⟨?_, fun _ _ => rfl⟩
    intro h
    exfalso
    revert h
    show Res.bind _ _ ≠ Res.err
    apply Res.bind_ne_err (by intro h; cases h)
    intro _
    apply Res.bind_ne_err (measures_ne_err sem b args _)
    intro ms
    apply Res.bind_ne_err (measures_ne_err sem b args _)
    intro cs
    apply Res.bind_ne_err
    · split <;> (intro h; cases h)
    intro memF
    apply Res.bind_ne_err
    · split <;> (intro h; cases h)
    intro cpuF
    split <;> (intro h; cases h)

/-- `eval_builtin_app` agrees with the shared denotation -/
theorem evalBuiltinApp_good (cfg : Config) (a : Acct) (b : Builtin) (args : List Value)
    (ha : AcctWF a) (hw : Value.wfList args = true) :
    match evalBuiltinApp cfg a b args with
    | .ok (a', v) => denotation cfg.sem b args = .ok v ∧ AcctWF a' ∧ v.wf = true
    | .fail => denotation cfg.sem b args = .err
    | _ => True := by
  unfold evalBuiltinApp
  have hc := builtinCost_cases cfg.costs cfg.sem b args
  cases hcost : builtinCost cfg.costs cfg.sem b args with
  | err =>
    simp only [Outcome.ofRes, Outcome.bind_fail']
    simp [denotation, hc.1 hcost, Res.bind]
  | panic => simp [Outcome.ofRes]
  | unmodelled => simp [Outcome.ofRes]
  | ok c =>
    have hpre := hc.2 c hcost
    simp only [Outcome.ofRes, Outcome.bind_ok']
    have hb := spendBudget_benign a c
    revert hb
    cases spendBudget a c with
    | fail => intro hb; exact absurd hb (by simp [Benign])
    | panic => intro hb; exact absurd hb (by simp [Benign])
    | oob => intro _; simp
    | unmodelled => intro _; simp
    | ok a' =>
      intro hb
      simp only [Benign] at hb
      simp only [Outcome.bind_ok']
      cases hcall : callBuiltin cfg.sem b args with
      | ok v =>
        simp only [Outcome.ofRes, Outcome.bind_ok', Outcome.pure_eq]
        refine ⟨?_, ?_, callBuiltin_wf cfg.sem b args v hw hcall⟩
        · simp [denotation, hpre, Res.bind, hcall]
        · simpa [AcctWF, hb] using ha
      | err => simp [Outcome.ofRes, denotation, hpre, Res.bind, hcall]
      | panic => simp [Outcome.ofRes]
      | unmodelled => simp [Outcome.ofRes]

end AikenVerif

namespace AikenVerif
open Gen

theorem builtin_wf_iff (b : Builtin) (forces : Nat) (args : List Value) :
    (Value.builtin b forces args).wf = true ↔
      forces ≤ b.forceCount ∧ (args = [] ∨ forces = b.forceCount) ∧ args.length < b.arity ∧
        Value.wfList args = true := by
  simp [Value.wf, Bool.and_eq_true, List.isEmpty_iff, and_assoc]

/-- the result of collecting one more argument / force, on both machines -/
theorem saturate_good (cfg : Config) (a : Acct) (ctx : Ctx) (b : Builtin) (forces : Nat)
    (args : List Value) (s : State) (ha : AcctWF a) (hctx : ctx.all Frame.wf = true)
    (hw : Value.wfList args = true)
    (hf : forces ≤ b.forceCount) (hfa : args = [] ∨ forces = b.forceCount) (hlen : args.length ≤ b.arity)
    (hspec : Spec.step cfg.sem (denotation cfg.sem) s = Spec.saturate (denotation cfg.sem) ctx b forces args)
    (hrem : Spec.remaining b forces args = [] ↔ args.length = b.arity) :
    StepGood cfg s (.ofOutcome
      (if args.length = b.arity then
        (evalBuiltinApp cfg a b args >>= fun (p : Acct × Value) => pure (p.1, State.ret ctx p.2))
       else .ok (a, .ret ctx (.builtin b forces args)))) := by
  by_cases hsat : args.length = b.arity
  · simp only [hsat, if_true]
    have hg := evalBuiltinApp_good cfg a b args ha hw
    have hr : Spec.remaining b forces args = [] := hrem.2 hsat
    revert hg
    cases evalBuiltinApp cfg a b args with
    | ok p =>
      obtain ⟨a', v⟩ := p
      intro hg
      simp only [Outcome.bind_ok', Outcome.pure_eq, StepResult.ofOutcome, StepGood]
      refine ⟨?_, ?_, hg.2.1⟩
      · rw [hspec]; simp [Spec.saturate, hr, hg.1]
      · simp [State.wf, hctx, hg.2.2]
    | fail =>
      intro hg
      simp only [Outcome.bind_fail', StepResult.ofOutcome, StepGood]
      rw [hspec]; simp [Spec.saturate, hr, hg]
    | oob => intro _; simp [StepResult.ofOutcome, StepGood]
    | panic => intro _; simp [StepResult.ofOutcome, StepGood]
    | unmodelled => intro _; simp [StepResult.ofOutcome, StepGood]
  · simp only [hsat, if_false, StepResult.ofOutcome, StepGood]
    have hr : Spec.remaining b forces args ≠ [] := fun h => hsat (hrem.1 h)
    refine ⟨?_, ?_, ha⟩
    · rw [hspec]; simp [Spec.saturate, hr]
    · have : args.length < b.arity := by omega
      simp [State.wf, hctx, (builtin_wf_iff b forces args).2 ⟨hf, hfa, this, hw⟩]

theorem applyEvaluate_good (cfg : Config) (a : Acct) (ctx : Ctx) (fn arg : Value) (s : State)
    (ha : AcctWF a) (hctx : ctx.all Frame.wf = true) (hfn : fn.wf = true) (harg : arg.wf = true)
    (hspec : Spec.step cfg.sem (denotation cfg.sem) s = Spec.applyValue (denotation cfg.sem) ctx fn arg) :
    StepGood cfg s (.ofOutcome (applyEvaluate cfg a ctx fn arg)) := by
  cases fn with
  | lam n body env =>
    simp only [applyEvaluate, StepResult.ofOutcome, StepGood]
    refine ⟨by rw [hspec]; rfl, ?_, ha⟩
    simp only [Value.wf] at hfn
    simp [State.wf, hctx, wfList_append, hfn, Value.wfList, harg]
  | builtin b forces args =>
    obtain ⟨hf, hfa, hlen, hw⟩ := (builtin_wf_iff b forces args).1 hfn
    simp only [applyEvaluate]
    by_cases hfc : forces < b.forceCount
    · -- still waiting for a force: both machines reject the application
      have hne : args = [] := by
        rcases hfa with h | h
        · exact h
        · omega
      subst hne
      simp only [hfc, decide_true, Bool.not_true, Bool.and_false, Bool.false_eq_true, if_false,
        StepResult.ofOutcome, StepGood]
      rw [hspec]
      obtain ⟨rest, hr⟩ := drop_mkSig_lt b.forceCount b.arity forces hfc
      simp [Spec.applyValue, Spec.remaining, sig_eq, hr]
    · have hfeq : forces = b.forceCount := by omega
      have hcond : (decide (args.length ≠ b.arity) && !decide (forces < b.forceCount)) = true := by
        simp [hfc]; omega
      simp only [hcond, if_true]
      have hrem0 : Spec.remaining b forces args = List.replicate (b.arity - args.length) .arg := by
        simp only [Spec.remaining, sig_eq, hfeq]; exact drop_mkSig_ge _ _ _
      obtain ⟨m, hm⟩ : ∃ m, b.arity - args.length = m + 1 := ⟨b.arity - args.length - 1, by omega⟩
      apply saturate_good cfg a ctx b forces (args ++ [arg]) s ha hctx
      · simp [wfList_append, hw, Value.wfList, harg]
      · exact hf
      · exact Or.inr hfeq
      · simp; omega
      · rw [hspec]; simp [Spec.applyValue, hrem0, hm, List.replicate_succ]
      · simp only [Spec.remaining, sig_eq, hfeq, List.length_append, List.length_singleton]
        rw [drop_mkSig_ge]
        simp; omega
  | con c => simp only [applyEvaluate, StepResult.ofOutcome, StepGood]; rw [hspec]; rfl
  | delay body env => simp only [applyEvaluate, StepResult.ofOutcome, StepGood]; rw [hspec]; rfl
  | constr tag fs => simp only [applyEvaluate, StepResult.ofOutcome, StepGood]; rw [hspec]; rfl

end AikenVerif

namespace AikenVerif
open Gen

theorem forceEvaluate_good (cfg : Config) (a : Acct) (ctx : Ctx) (v : Value)
    (ha : AcctWF a) (hctx : ctx.all Frame.wf = true) (hv : v.wf = true) :
    StepGood cfg (.ret (.force :: ctx) v) (.ofOutcome (forceEvaluate cfg a ctx v)) := by
  cases v with
  | delay body env =>
    simp only [forceEvaluate, StepResult.ofOutcome, StepGood]
    simp only [Value.wf] at hv
    exact ⟨rfl, by simp [State.wf, hctx, hv], ha⟩
  | builtin b forces args =>
    obtain ⟨hf, hfa, hlen, hw⟩ := (builtin_wf_iff b forces args).1 hv
    simp only [forceEvaluate]
    by_cases hfc : forces < b.forceCount
    · have hne : args = [] := by
        rcases hfa with h | h
        · exact h
        · omega
      subst hne
      simp only [hfc, if_true]
      obtain ⟨rest, hr⟩ := drop_mkSig_lt b.forceCount b.arity forces hfc
      apply saturate_good cfg a ctx b (forces + 1) [] _ ha hctx
      · rfl
      · omega
      · exact Or.inl rfl
      · simp
      · simp [Spec.step, Spec.remaining, sig_eq, hr]
      · have hp := arity_pos b
        simp only [Spec.remaining, sig_eq, List.length_nil, Nat.add_zero]
        constructor
        · intro h
          exfalso
          have : ((Spec.mkSig b.forceCount b.arity).drop (forces + 1)).length = 0 := by rw [h]; rfl
          simp [Spec.mkSig] at this
          omega
        · intro h; omega
    · have hfeq : forces = b.forceCount := by omega
      simp only [hfc, if_false, StepResult.ofOutcome, StepGood]
      have hrem0 : Spec.remaining b forces args = List.replicate (b.arity - args.length) .arg := by
        simp only [Spec.remaining, sig_eq, hfeq]; exact drop_mkSig_ge _ _ _
      obtain ⟨m, hm⟩ : ∃ m, b.arity - args.length = m + 1 := ⟨b.arity - args.length - 1, by omega⟩
      simp [Spec.step, hrem0, hm, List.replicate_succ]
  | con c => simp only [forceEvaluate, StepResult.ofOutcome, StepGood]; rfl
  | lam n body env => simp only [forceEvaluate, StepResult.ofOutcome, StepGood]; rfl
  | constr tag fs => simp only [forceEvaluate, StepResult.ofOutcome, StepGood]; rfl

/-- case on a constant: the impl's (tag, fields, max_branches) table selects what the specification selects -/
theorem caseConst_eq (c : Const) (branches : List NTerm) :
    (match caseOnConst c with
      | none => none
      | some (tag, fields, maxB) =>
        if tooManyBranches maxB branches.length = true then none
        else (branches[tag]?).map (·, fields)) = Spec.caseConst c branches := by
  cases c with
  | unit =>
    simp only [caseOnConst, Spec.caseConst, tooManyBranches]
    by_cases h : branches.length ≤ 1
    · have : ¬ branches.length > 1 := by omega
      simp [h, this]
    · have : branches.length > 1 := by omega
      simp [h, this]
  | bool b =>
    cases b <;> simp only [caseOnConst, Spec.caseConst, tooManyBranches] <;>
      (by_cases h : branches.length ≤ 2
       · have : ¬ branches.length > 2 := by omega
         simp [h, this]
       · have : branches.length > 2 := by omega
         simp [h, this])
  | integer i =>
    simp only [caseOnConst, Spec.caseConst, tooManyBranches]
    by_cases h : i < 0
    · have : ¬ 0 ≤ i := by omega
      simp [h, this]
    · have : 0 ≤ i := by omega
      simp [h, this]
  | list t xs =>
    cases xs with
    | nil =>
      simp only [caseOnConst, Spec.caseConst, tooManyBranches]
      by_cases h : branches.length ≤ 2
      · have : ¬ branches.length > 2 := by omega
        simp [h, this]
      · have : branches.length > 2 := by omega
        simp [h, this]
    | cons x rest =>
      simp only [caseOnConst, Spec.caseConst, tooManyBranches]
      by_cases h : branches.length ≤ 2
      · have : ¬ branches.length > 2 := by omega
        simp [h, this]
      · have : branches.length > 2 := by omega
        simp [h, this]
  | pair ta tb x y =>
    simp only [caseOnConst, Spec.caseConst, tooManyBranches]
    by_cases h : branches.length ≤ 1
    · have : ¬ branches.length > 1 := by omega
      simp [h, this]
    · have : branches.length > 1 := by omega
      simp [h, this]
  | bytestring _ => simp [caseOnConst, Spec.caseConst]
  | string _ => simp [caseOnConst, Spec.caseConst]
  | data _ => simp [caseOnConst, Spec.caseConst]
  | g1 _ => simp [caseOnConst, Spec.caseConst]
  | g2 _ => simp [caseOnConst, Spec.caseConst]
  | ml _ => simp [caseOnConst, Spec.caseConst]

theorem caseOnConst_fields_wf (c : Const) (tag : Nat) (fields : List Value) (m : Option Nat)
    (h : caseOnConst c = some (tag, fields, m)) : Value.wfList fields = true := by
  cases c with
  | list t xs => cases xs <;> simp [caseOnConst] at h <;> obtain ⟨_, rfl, _⟩ := h <;> simp [Value.wfList, Value.wf]
  | pair _ _ x y => simp [caseOnConst] at h; obtain ⟨_, rfl, _⟩ := h; simp [Value.wfList, Value.wf]
  | unit => simp [caseOnConst] at h; obtain ⟨_, rfl, _⟩ := h; rfl
  | bool b => cases b <;> simp [caseOnConst] at h <;> obtain ⟨_, rfl, _⟩ := h <;> rfl
  | integer i =>
    simp only [caseOnConst] at h
    split at h
    · cases h
    · simp at h; obtain ⟨_, rfl, _⟩ := h; rfl
  | bytestring _ => simp [caseOnConst] at h
  | string _ => simp [caseOnConst] at h
  | data _ => simp [caseOnConst] at h
  | g1 _ => simp [caseOnConst] at h
  | g2 _ => simp [caseOnConst] at h
  | ml _ => simp [caseOnConst] at h

end AikenVerif

namespace AikenVerif
open Gen

/-- MAIN LEMMA: one transition of the impl model, on a well-formed state, is the specification's
transition (and keeps the state well-formed), unless it stops for budget / unmodelled reasons. -/
theorem step_good (cfg : Config) (a : Acct) (s : State) (hs : s.wf = true) (ha : AcctWF a) :
    StepGood cfg s (step cfg a s) := by
  cases s with
  | compute ctx env t =>
    simp only [State.wf, Bool.and_eq_true] at hs
    obtain ⟨hctx, henv⟩ := hs
    cases t with
    | var n =>
      simp only [step, computeStep]
      apply charge_then cfg a _ ha _ (StepGood cfg _) trivial trivial
      intro a' ha'
      rw [lookupVar_eq]
      cases h : Spec.lookup env n.index with
      | some v =>
        simp only [Outcome.bind_ok', Outcome.pure_eq, StepResult.ofOutcome, StepGood]
        refine ⟨by simp [Spec.step, h], ?_, ha'⟩
        have hv : v.wf = true := by
          unfold Spec.lookup at h
          split at h
          · cases h
          · exact (wfList_iff env).1 henv v (by
              have := List.mem_of_getElem? h
              simpa using this)
        simp [State.wf, hctx, hv]
      | none => simp [StepResult.ofOutcome, StepGood, Spec.step, h]
    | delay body =>
      simp only [step, computeStep]
      apply charge_then cfg a _ ha _ (StepGood cfg _) trivial trivial
      intro a' ha'
      simp only [Outcome.pure_eq, StepResult.ofOutcome, StepGood]
      exact ⟨rfl, by simp [State.wf, hctx, Value.wf, henv], ha'⟩
    | lam n body =>
      simp only [step, computeStep]
      apply charge_then cfg a _ ha _ (StepGood cfg _) trivial trivial
      intro a' ha'
      simp only [Outcome.pure_eq, StepResult.ofOutcome, StepGood]
      exact ⟨rfl, by simp [State.wf, hctx, Value.wf, henv], ha'⟩
    | app f x =>
      simp only [step, computeStep]
      apply charge_then cfg a _ ha _ (StepGood cfg _) trivial trivial
      intro a' ha'
      simp only [Outcome.pure_eq, StepResult.ofOutcome, StepGood]
      exact ⟨rfl, by simp [State.wf, hctx, Frame.wf, henv], ha'⟩
    | const c =>
      simp only [step, computeStep]
      apply charge_then cfg a _ ha _ (StepGood cfg _) trivial trivial
      intro a' ha'
      simp only [Outcome.pure_eq, StepResult.ofOutcome, StepGood]
      exact ⟨rfl, by simp [State.wf, hctx, Value.wf], ha'⟩
    | force body =>
      simp only [step, computeStep]
      apply charge_then cfg a _ ha _ (StepGood cfg _) trivial trivial
      intro a' ha'
      simp only [Outcome.pure_eq, StepResult.ofOutcome, StepGood]
      exact ⟨rfl, by simp [State.wf, hctx, Frame.wf, henv], ha'⟩
    | error =>
      simp only [step, computeStep]
      apply charge_then cfg a _ ha _ (StepGood cfg _) trivial trivial
      intro a' _
      simp [StepResult.ofOutcome, StepGood, Spec.step]
    | builtin b =>
      simp only [step, computeStep]
      apply charge_then cfg a _ ha _ (StepGood cfg _) trivial trivial
      intro a' ha'
      simp only [Outcome.pure_eq, StepResult.ofOutcome, StepGood]
      have := arity_pos b
      exact ⟨rfl, by simp [State.wf, hctx, Value.wf, Value.wfList, this], ha'⟩
    | constr tag fields =>
      simp only [step, computeStep]
      apply charge_then cfg a _ ha _ (StepGood cfg _) trivial trivial
      intro a' ha'
      cases fields with
      | nil =>
        simp only [Outcome.pure_eq, StepResult.ofOutcome, StepGood]
        exact ⟨rfl, by simp [State.wf, hctx, Value.wf, Value.wfList], ha'⟩
      | cons m ms =>
        simp only [Outcome.pure_eq, StepResult.ofOutcome, StepGood]
        exact ⟨rfl, by simp [State.wf, hctx, Frame.wf, henv, Value.wfList], ha'⟩
    | case scrut branches =>
      simp only [step, computeStep]
      apply charge_then cfg a _ ha _ (StepGood cfg _) trivial trivial
      intro a' ha'
      simp only [Outcome.pure_eq, StepResult.ofOutcome, StepGood]
      exact ⟨rfl, by simp [State.wf, hctx, Frame.wf, henv], ha'⟩
  | ret ctx v =>
    simp only [State.wf, Bool.and_eq_true] at hs
    obtain ⟨hctx, hv⟩ := hs
    cases ctx with
    | nil =>
      simp only [step]
      have hfl : Benign AcctWF
          (if a.counts.getD (a.counts.length - 1) 0 > 0 then spendUnbudgeted cfg.costs a else .ok a) := by
        split
        · exact spendUnbudgeted_benign cfg.costs a ha
        · exact ha
      revert hfl
      generalize (if a.counts.getD (a.counts.length - 1) 0 > 0 then spendUnbudgeted cfg.costs a else Outcome.ok a) = fl
      intro hfl
      cases fl with
      | ok a' => simp [StepGood, Spec.step, valueAsTerm_eq]
      | oob => simp [StepGood]
      | unmodelled => simp [StepGood]
      | fail => exact absurd hfl (by simp [Benign])
      | panic => exact absurd hfl (by simp [Benign])
    | cons fr ctx =>
      simp only [List.all_cons, Bool.and_eq_true] at hctx
      obtain ⟨hfr, hctx⟩ := hctx
      simp only [step, returnStep]
      cases fr with
      | force => exact forceEvaluate_good cfg a ctx v ha hctx hv
      | awaitFunTerm argEnv arg =>
        simp only [StepResult.ofOutcome, StepGood]
        simp only [Frame.wf] at hfr
        exact ⟨rfl, by simp [State.wf, hctx, Frame.wf, hv, hfr], ha⟩
      | awaitArg fn =>
        simp only [Frame.wf] at hfr
        exact applyEvaluate_good cfg a ctx fn v _ ha hctx hfr hv rfl
      | awaitFunValue arg =>
        simp only [Frame.wf] at hfr
        exact applyEvaluate_good cfg a ctx v arg _ ha hctx hv hfr rfl
      | constr env tag todo done =>
        simp only [Frame.wf, Bool.and_eq_true] at hfr
        cases todo with
        | nil =>
          simp only [StepResult.ofOutcome, StepGood]
          exact ⟨rfl, by simp [State.wf, hctx, Value.wf, wfList_append, hfr.2, Value.wfList, hv], ha⟩
        | cons m ms =>
          simp only [StepResult.ofOutcome, StepGood]
          exact ⟨rfl, by simp [State.wf, hctx, Frame.wf, hfr.1, wfList_append, hfr.2, Value.wfList, hv], ha⟩
      | cases env branches =>
        simp only [Frame.wf] at hfr
        cases v with
        | constr tag fields =>
          simp only [Value.wf] at hv
          dsimp only
          cases hbr : branches[tag]? with
          | none => simp [StepResult.ofOutcome, StepGood, Spec.step, hbr]
          | some t =>
            simp only [StepResult.ofOutcome, StepGood, transferArgStack_eq]
            refine ⟨by simp [Spec.step, hbr], ?_, ha⟩
            simp [State.wf, pushArgs_wf fields ctx hv hctx, hfr]
        | con c =>
          dsimp only
          by_cases hE : cfg.sem = .E
          · have hne : ¬ cfg.sem ≠ .E := by simp [hE]
            simp only [hne, if_false]
            have hcc := caseConst_eq c branches
            cases hco : caseOnConst c with
            | none =>
              rw [hco] at hcc
              simp only [StepResult.ofOutcome, StepGood]
              simp [Spec.step, hE, ← hcc]
            | some p =>
              obtain ⟨tag, fields, maxB⟩ := p
              rw [hco] at hcc
              have hfw := caseOnConst_fields_wf c tag fields maxB hco
              simp only at hcc ⊢
              generalize htm : tooManyBranches maxB branches.length = tm at hcc ⊢
              cases tm with
              | true =>
                simp only [if_true] at hcc ⊢
                simp [StepResult.ofOutcome, StepGood, Spec.step, hE, ← hcc]
              | false =>
                simp only [Bool.false_eq_true, if_false] at hcc ⊢
                cases hbr : branches[tag]? with
                | none =>
                  rw [hbr] at hcc
                  simp [StepResult.ofOutcome, StepGood, Spec.step, hE, ← hcc]
                | some t =>
                  rw [hbr] at hcc
                  simp only [StepResult.ofOutcome, StepGood, transferArgStack_eq]
                  refine ⟨by simp [Spec.step, hE, ← hcc], ?_, ha⟩
                  simp [State.wf, pushArgs_wf fields ctx hfw hctx, hfr]
          · have hne : cfg.sem ≠ .E := hE
            simp [hne, StepResult.ofOutcome, StepGood, Spec.step, hE]
        | delay _ _ => simp [StepResult.ofOutcome, StepGood, Spec.step]
        | lam _ _ _ => simp [StepResult.ofOutcome, StepGood, Spec.step]
        | builtin _ _ _ => simp [StepResult.ofOutcome, StepGood, Spec.step]

end AikenVerif
