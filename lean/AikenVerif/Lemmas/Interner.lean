import AikenVerif.Lemmas.DeBruijn
/-!
`CodeGenInterner` (optimize/interner.rs): under the binders `kenv` (innermost first, each a
pair of the binder's key `(text, previous unique)` and the fresh unique it received) the
interner's `identifiers` holds, per key, exactly the fresh uniques of the binders in scope
with that key, innermost on top.
-/
namespace AikenVerif.Db

section HashMap
variable {κ ν : Type} [DecidableEq κ]
theorem hmGet_remove (k k' : κ) : ∀ (m : List (κ × ν)), hmGet k' (hmRemove k m) = if k = k' then none else hmGet k' m
  | [] => by simp [hmRemove, hmGet]
  | (a, v) :: m => by
    simp only [hmRemove]
    by_cases h : a = k
    · subst h
      simp only [if_true, hmGet]
      rw [hmGet_remove a k' m]
      by_cases h3 : a = k' <;> simp [h3]
    · simp only [h, if_false, hmGet]
      rw [hmGet_remove k k' m]
      by_cases h2 : a = k'
      · have : ¬ k = k' := fun e => h (h2.trans e.symm)
        simp [h2, this]
      · simp [h2]

theorem hmGet_insert (k k' : κ) (v : ν) (m : List (κ × ν)) :
    hmGet k' (hmInsert k v m) = if k = k' then some v else hmGet k' m := by
  simp only [hmInsert, hmGet, hmGet_remove]
  by_cases h : k = k' <;> simp [h]
end HashMap

abbrev Key := String × Int
abbrev KEnv := List (Key × Int)

def stackOf (s : Interner) (key : Key) : List Int :=
  match hmGet key s.identifiers with
  | some st => st
  | none => []

def keysOf (kenv : KEnv) : List Key := kenv.map (·.1)
def newsOf (kenv : KEnv) : List Int := kenv.map (·.2)
def stackFor : KEnv → Key → List Int
  | [], _ => []
  | p :: kenv, key => if p.1 = key then p.2 :: stackFor kenv key else stackFor kenv key

structure IInv (s : Interner) (kenv : KEnv) : Prop where
  stacks : ∀ key, stackOf s key = stackFor kenv key
  nodup : (newsOf kenv).Nodup
  fresh : ∀ u ∈ newsOf kenv, u < s.current

theorem iinv_new : IInv Interner.new [] :=
  ⟨fun _ => rfl, List.nodup_nil, fun _ h => by simp [newsOf] at h⟩

-- ---------------------------------------------------------------- the three operations
theorem lookup_eq (s : Interner) (key : Key) :
    s.lookup key = match stackOf s key with
      | u :: _ => (u, s)
      | [] => s.fresh := by
  simp only [Interner.lookup, stackOf]
  cases hmGet key s.identifiers with
  | none => rfl
  | some st => cases st <;> rfl

theorem bind_spec (s : Interner) (key : Key) :
    (s.bind key).1 = s.current ∧ (s.bind key).2.current = s.current + 1 ∧
    ∀ key', stackOf (s.bind key).2 key' = if key = key' then s.current :: stackOf s key' else stackOf s key' := by
  refine ⟨rfl, rfl, fun key' => ?_⟩
  simp only [Interner.bind, Interner.fresh, stackOf, hmGet_insert]
  by_cases h : key = key'
  · subst h; simp
    cases hmGet key s.identifiers <;> rfl
  · simp [h]

theorem unbind_spec (s : Interner) (key : Key) (u : Int) (rest : List Int) (h : stackOf s key = u :: rest) :
    ∃ s', s.unbind key = .ok s' ∧ s'.current = s.current ∧
      ∀ key', stackOf s' key' = if key = key' then rest else stackOf s key' := by
  simp only [stackOf] at h
  cases hg : hmGet key s.identifiers with
  | none => simp [hg] at h
  | some st =>
    simp [hg] at h
    subst h
    simp only [Interner.unbind, hg]
    cases rest with
    | nil =>
      refine ⟨_, rfl, rfl, fun key' => ?_⟩
      simp only [stackOf, hmGet_remove]
      by_cases h : key = key' <;> simp [h]
    | cons r rs =>
      refine ⟨_, rfl, rfl, fun key' => ?_⟩
      simp only [stackOf, hmGet_insert, List.isEmpty_cons, Bool.false_eq_true, if_false]
      by_cases h : key = key' <;> simp [h]

-- ---------------------------------------------------------------- resolution by key vs. the stacks
theorem resolveKey_some : ∀ (kenv : KEnv) (key : Key) (i : Nat), resolveKey (keysOf kenv) key = some i →
    ∃ u rest j, i = j + 1 ∧ stackFor kenv key = u :: rest ∧ (newsOf kenv)[j]? = some u
  | [], _, _, h => by simp [keysOf, resolveKey] at h
  | p :: kenv, key, i, h => by
    simp only [keysOf, List.map_cons, resolveKey] at h
    by_cases hp : p.1 = key
    · simp [hp] at h
      exact ⟨p.2, stackFor kenv key, 0, h.symm, by simp [stackFor, hp], by simp [newsOf]⟩
    · simp only [hp, if_false] at h
      cases hr : resolveKey (List.map (·.1) kenv) key with
      | none => simp [hr] at h
      | some i' =>
        simp [hr] at h
        obtain ⟨u, rest, j, h1, h2, h3⟩ := resolveKey_some kenv key i' hr
        exact ⟨u, rest, j + 1, by omega, by simp [stackFor, hp, h2], by simp [newsOf] at h3 ⊢; exact h3⟩

theorem resolveKey_none : ∀ (kenv : KEnv) (key : Key), resolveKey (keysOf kenv) key = none → stackFor kenv key = []
  | [], _, _ => rfl
  | p :: kenv, key, h => by
    simp only [keysOf, List.map_cons, resolveKey] at h
    by_cases hp : p.1 = key
    · simp [hp] at h
    · simp only [hp, if_false] at h
      cases hr : resolveKey (List.map (·.1) kenv) key with
      | none => simp [stackFor, hp, resolveKey_none kenv key hr]
      | some i' => simp [hr] at h

def ckey (n : Name) : Key := (n.text, n.unique)

/-- what one interning step establishes -/
def InternOk (kenv : KEnv) (s : Interner) {α δ : Type} (r : Except Err (α × Interner))
    (spec : Except Err δ) (after : α → Except Err δ) : Prop :=
  ∃ t' s', r = .ok (t', s') ∧ IInv s' kenv ∧ s.current ≤ s'.current ∧
    (∀ d, spec = .ok d → after t' = .ok d) ∧
    (∀ e, spec = .error e → ∃ n, after t' = .error (.freeUnique n))

theorem IInv.mono_of {s s' : Interner} {kenv : KEnv} (h : IInv s kenv)
    (hs : ∀ key, stackOf s' key = stackOf s key) (hc : s.current ≤ s'.current) : IInv s' kenv :=
  ⟨fun key => (hs key).trans (h.stacks key), h.nodup, fun u hu => by have := h.fresh u hu; omega⟩

mutual
theorem internTerm_ok : ∀ (t : Term Name) (s : Interner) (kenv : KEnv), IInv s kenv →
    InternOk kenv s (internTerm t s) (specByKey ckey (keysOf kenv) t) (specNameTo (fun _ i => (i : DeBruijn)) (newsOf kenv))
  | .var n, s, kenv, hi => by
    simp only [internTerm, lookup_eq, hi.stacks, specByKey, InternOk, pure, Except.pure]
    cases hr : resolveKey (keysOf kenv) (ckey n) with
    | some i =>
      obtain ⟨u, rest, j, h1, h2, h3⟩ := resolveKey_some kenv (ckey n) i hr
      have h2' : stackFor kenv (n.text, n.unique) = u :: rest := h2
      refine ⟨_, _, by rw [h2'], hi, Int.le_refl _, ?_, ?_⟩
      · intro d hd
        cases hd
        simp [specNameTo, resolve_of_getElem (newsOf kenv) j u hi.nodup h3, h1]
      · intro e he; cases he
    | none =>
      have h2 : stackFor kenv (n.text, n.unique) = [] := resolveKey_none kenv (ckey n) hr
      refine ⟨.var ⟨n.text, s.current⟩, s.fresh.2, by rw [h2]; rfl, hi.mono_of (fun _ => rfl) (by simp [Interner.fresh]; omega), by simp [Interner.fresh]; omega, ?_, ?_⟩
      · intro d hd; cases hd
      · intro e _
        have : resolve (newsOf kenv) s.current = none :=
          (resolve_none_iff _ _).mpr (fun hm => by have := hi.fresh _ hm; omega)
        exact ⟨⟨n.text, s.current⟩, by simp [specNameTo, this]⟩
  | .delay t, s, kenv, hi => by
    obtain ⟨t', s', h1, h2, h3, h4, h5⟩ := internTerm_ok t s kenv hi
    refine ⟨.delay t', s', by simp [internTerm, h1, bind, Except.bind, pure, Except.pure], h2, h3, ?_, ?_⟩
    · intro d hd
      simp only [specByKey, bind, Except.bind] at hd
      cases hs : specByKey ckey (keysOf kenv) t with
      | error e => simp [hs] at hd
      | ok d1 =>
        simp [hs, pure, Except.pure] at hd; subst hd
        simp [specNameTo, h4 d1 hs, bind, Except.bind, pure, Except.pure]
    · intro e he
      simp only [specByKey, bind, Except.bind] at he
      cases hs : specByKey ckey (keysOf kenv) t with
      | error e1 =>
        obtain ⟨n, hn⟩ := h5 e1 hs
        exact ⟨n, by simp [specNameTo, hn, bind, Except.bind]⟩
      | ok d1 => simp [hs, pure, Except.pure] at he
  | .force t, s, kenv, hi => by
    obtain ⟨t', s', h1, h2, h3, h4, h5⟩ := internTerm_ok t s kenv hi
    refine ⟨.force t', s', by simp [internTerm, h1, bind, Except.bind, pure, Except.pure], h2, h3, ?_, ?_⟩
    · intro d hd
      simp only [specByKey, bind, Except.bind] at hd
      cases hs : specByKey ckey (keysOf kenv) t with
      | error e => simp [hs] at hd
      | ok d1 =>
        simp [hs, pure, Except.pure] at hd; subst hd
        simp [specNameTo, h4 d1 hs, bind, Except.bind, pure, Except.pure]
    · intro e he
      simp only [specByKey, bind, Except.bind] at he
      cases hs : specByKey ckey (keysOf kenv) t with
      | error e1 =>
        obtain ⟨n, hn⟩ := h5 e1 hs
        exact ⟨n, by simp [specNameTo, hn, bind, Except.bind]⟩
      | ok d1 => simp [hs, pure, Except.pure] at he
  | .lam m b, s, kenv, hi => by
    obtain ⟨hb1, hb2, hb3⟩ := bind_spec s (ckey m)
    have hi1 : IInv (s.bind (ckey m)).2 ((ckey m, s.current) :: kenv) := by
      refine ⟨fun key => ?_, ?_, ?_⟩
      · rw [hb3 key]
        by_cases hk : ckey m = key
        · simp [hk, stackFor, hi.stacks]
        · simp [hk, stackFor, hi.stacks]
      · simp only [newsOf, List.map_cons]
        exact List.nodup_cons.mpr ⟨fun hm => by have := hi.fresh _ hm; omega, hi.nodup⟩
      · intro u hu
        simp only [newsOf, List.map_cons, List.mem_cons] at hu
        rw [hb2]
        rcases hu with rfl | hu
        · omega
        · have := hi.fresh u hu; omega
    obtain ⟨b', s2, h1, h2, h3, h4, h5⟩ := internTerm_ok b (s.bind (ckey m)).2 _ hi1
    have hst : stackOf s2 (ckey m) = s.current :: stackFor kenv (ckey m) := by
      rw [h2.stacks]; simp [stackFor]
    obtain ⟨s3, hu1, hu2, hu3⟩ := unbind_spec s2 (ckey m) _ _ hst
    have hi3 : IInv s3 kenv := by
      refine ⟨fun key => ?_, hi.nodup, fun u hu => ?_⟩
      · rw [hu3 key]
        by_cases hk : ckey m = key
        · simp [hk]
        · simp only [hk, if_false]; rw [h2.stacks]; simp [stackFor, hk]
      · have := hi.fresh u hu; rw [hu2]; rw [hb2] at h3; omega
    have hrun : internTerm (.lam m b) s = .ok (.lam ⟨m.text, s.current⟩ b', s3) := by
      have e1 : s.bind (m.text, m.unique) = (s.current, (s.bind (ckey m)).2) := by
        show s.bind (ckey m) = _
        rw [← hb1]
      simp only [internTerm, e1, bind, Except.bind, h1]
      have e2 : s2.unbind (m.text, m.unique) = .ok s3 := hu1
      simp [e2, pure, Except.pure]
    refine ⟨_, _, hrun, hi3, by rw [hu2]; rw [hb2] at h3; omega, ?_, ?_⟩
    · intro d hd
      simp only [specByKey, bind, Except.bind] at hd
      cases hs : specByKey ckey (ckey m :: keysOf kenv) b with
      | error e => simp [hs] at hd
      | ok d1 =>
        simp [hs, pure, Except.pure] at hd; subst hd
        have := h4 d1 (by simpa [keysOf] using hs)
        simp only [newsOf, List.map_cons] at this
        simp [specNameTo, newsOf, this, bind, Except.bind, pure, Except.pure]
    · intro e he
      simp only [specByKey, bind, Except.bind] at he
      cases hs : specByKey ckey (ckey m :: keysOf kenv) b with
      | error e1 =>
        obtain ⟨n, hn⟩ := h5 e1 (by simpa [keysOf] using hs)
        simp only [newsOf, List.map_cons] at hn
        exact ⟨n, by simp [specNameTo, newsOf, hn, bind, Except.bind]⟩
      | ok d1 => simp [hs, pure, Except.pure] at he
  | .app f a, s, kenv, hi => by
    obtain ⟨f', s1, h1, h2, h3, h4, h5⟩ := internTerm_ok f s kenv hi
    obtain ⟨a', s2, g1, g2, g3, g4, g5⟩ := internTerm_ok a s1 kenv h2
    refine ⟨.app f' a', s2, by simp [internTerm, h1, g1, bind, Except.bind, pure, Except.pure], g2, by omega, ?_, ?_⟩
    · intro d hd
      simp only [specByKey, bind, Except.bind] at hd
      cases hs : specByKey ckey (keysOf kenv) f with
      | error e => simp [hs] at hd
      | ok d1 =>
        simp only [hs] at hd
        cases hs2 : specByKey ckey (keysOf kenv) a with
        | error e => simp [hs2] at hd
        | ok d2 =>
          simp [hs2, pure, Except.pure] at hd; subst hd
          simp [specNameTo, h4 d1 hs, g4 d2 hs2, bind, Except.bind, pure, Except.pure]
    · intro e he
      simp only [specByKey, bind, Except.bind] at he
      cases hs : specByKey ckey (keysOf kenv) f with
      | error e1 =>
        obtain ⟨n, hn⟩ := h5 e1 hs
        exact ⟨n, by simp [specNameTo, hn, bind, Except.bind]⟩
      | ok d1 =>
        simp only [hs] at he
        cases hs2 : specByKey ckey (keysOf kenv) a with
        | error e2 =>
          obtain ⟨n, hn⟩ := g5 e2 hs2
          exact ⟨n, by simp [specNameTo, h4 d1 hs, hn, bind, Except.bind]⟩
        | ok d2 => simp [hs2, pure, Except.pure] at he
  | .const c, s, kenv, hi =>
    ⟨.const c, s, rfl, hi, Int.le_refl _, fun d hd => by simpa [specByKey, specNameTo] using hd,
      fun e he => by simp [specByKey, pure, Except.pure] at he⟩
  | .error, s, kenv, hi =>
    ⟨.error, s, rfl, hi, Int.le_refl _, fun d hd => by simpa [specByKey, specNameTo] using hd,
      fun e he => by simp [specByKey, pure, Except.pure] at he⟩
  | .builtin b, s, kenv, hi =>
    ⟨.builtin b, s, rfl, hi, Int.le_refl _, fun d hd => by simpa [specByKey, specNameTo] using hd,
      fun e he => by simp [specByKey, pure, Except.pure] at he⟩
  | .constr tag fs, s, kenv, hi => by
    obtain ⟨t', s', h1, h2, h3, h4, h5⟩ := internList_ok fs s kenv hi
    refine ⟨.constr tag t', s', by simp [internTerm, h1, bind, Except.bind, pure, Except.pure], h2, h3, ?_, ?_⟩
    · intro d hd
      simp only [specByKey, bind, Except.bind] at hd
      cases hs : specByKeyList ckey (keysOf kenv) fs with
      | error e => simp [hs] at hd
      | ok d1 =>
        simp [hs, pure, Except.pure] at hd; subst hd
        simp [specNameTo, h4 d1 hs, bind, Except.bind, pure, Except.pure]
    · intro e he
      simp only [specByKey, bind, Except.bind] at he
      cases hs : specByKeyList ckey (keysOf kenv) fs with
      | error e1 =>
        obtain ⟨n, hn⟩ := h5 e1 hs
        exact ⟨n, by simp [specNameTo, hn, bind, Except.bind]⟩
      | ok d1 => simp [hs, pure, Except.pure] at he
  | .case c bs, s, kenv, hi => by
    obtain ⟨f', s1, h1, h2, h3, h4, h5⟩ := internTerm_ok c s kenv hi
    obtain ⟨a', s2, g1, g2, g3, g4, g5⟩ := internList_ok bs s1 kenv h2
    refine ⟨.case f' a', s2, by simp [internTerm, h1, g1, bind, Except.bind, pure, Except.pure], g2, by omega, ?_, ?_⟩
    · intro d hd
      simp only [specByKey, bind, Except.bind] at hd
      cases hs : specByKey ckey (keysOf kenv) c with
      | error e => simp [hs] at hd
      | ok d1 =>
        simp only [hs] at hd
        cases hs2 : specByKeyList ckey (keysOf kenv) bs with
        | error e => simp [hs2] at hd
        | ok d2 =>
          simp [hs2, pure, Except.pure] at hd; subst hd
          simp [specNameTo, h4 d1 hs, g4 d2 hs2, bind, Except.bind, pure, Except.pure]
    · intro e he
      simp only [specByKey, bind, Except.bind] at he
      cases hs : specByKey ckey (keysOf kenv) c with
      | error e1 =>
        obtain ⟨n, hn⟩ := h5 e1 hs
        exact ⟨n, by simp [specNameTo, hn, bind, Except.bind]⟩
      | ok d1 =>
        simp only [hs] at he
        cases hs2 : specByKeyList ckey (keysOf kenv) bs with
        | error e2 =>
          obtain ⟨n, hn⟩ := g5 e2 hs2
          exact ⟨n, by simp [specNameTo, h4 d1 hs, hn, bind, Except.bind]⟩
        | ok d2 => simp [hs2, pure, Except.pure] at he
theorem internList_ok : ∀ (ts : List (Term Name)) (s : Interner) (kenv : KEnv), IInv s kenv →
    InternOk kenv s (internList ts s) (specByKeyList ckey (keysOf kenv) ts) (specNameToList (fun _ i => (i : DeBruijn)) (newsOf kenv))
  | [], s, kenv, hi =>
    ⟨[], s, rfl, hi, Int.le_refl _, fun d hd => by simpa [specByKeyList, specNameToList] using hd,
      fun e he => by simp [specByKeyList, pure, Except.pure] at he⟩
  | t :: ts, s, kenv, hi => by
    obtain ⟨f', s1, h1, h2, h3, h4, h5⟩ := internTerm_ok t s kenv hi
    obtain ⟨a', s2, g1, g2, g3, g4, g5⟩ := internList_ok ts s1 kenv h2
    refine ⟨f' :: a', s2, by simp [internList, h1, g1, bind, Except.bind, pure, Except.pure], g2, by omega, ?_, ?_⟩
    · intro d hd
      simp only [specByKeyList, bind, Except.bind] at hd
      cases hs : specByKey ckey (keysOf kenv) t with
      | error e => simp [hs] at hd
      | ok d1 =>
        simp only [hs] at hd
        cases hs2 : specByKeyList ckey (keysOf kenv) ts with
        | error e => simp [hs2] at hd
        | ok d2 =>
          simp [hs2, pure, Except.pure] at hd; subst hd
          simp [specNameToList, h4 d1 hs, g4 d2 hs2, bind, Except.bind, pure, Except.pure]
    · intro e he
      simp only [specByKeyList, bind, Except.bind] at he
      cases hs : specByKey ckey (keysOf kenv) t with
      | error e1 =>
        obtain ⟨n, hn⟩ := h5 e1 hs
        exact ⟨n, by simp [specNameToList, hn, bind, Except.bind]⟩
      | ok d1 =>
        simp only [hs] at he
        cases hs2 : specByKeyList ckey (keysOf kenv) ts with
        | error e2 =>
          obtain ⟨n, hn⟩ := g5 e2 hs2
          exact ⟨n, by simp [specNameToList, h4 d1 hs, hn, bind, Except.bind]⟩
        | ok d2 => simp [hs2, pure, Except.pure] at he
end

-- ---------------------------------------------------------------- `specByKey` generalises the name→index spec
theorem resolveKey_int : ∀ (env : List Int) (u : Int), resolveKey env u = resolve env u
  | [], _ => rfl
  | v :: env, u => by simp [resolveKey, resolve, resolveKey_int env u]

mutual
theorem specByKey_unique : ∀ (t : Term Name) (env : List Int),
    specByKey (·.unique) env t = specNameTo (fun _ i => (i : DeBruijn)) env t
  | .var n, env => by simp [specByKey, specNameTo, resolveKey_int]
  | .delay t, env => by simp [specByKey, specNameTo, specByKey_unique t env]
  | .force t, env => by simp [specByKey, specNameTo, specByKey_unique t env]
  | .lam m b, env => by simp [specByKey, specNameTo, specByKey_unique b (m.unique :: env)]
  | .app f a, env => by simp [specByKey, specNameTo, specByKey_unique f env, specByKey_unique a env]
  | .const _, _ => rfl
  | .error, _ => rfl
  | .builtin _, _ => rfl
  | .constr tag fs, env => by simp [specByKey, specNameTo, specByKeyList_unique fs env]
  | .case s bs, env => by simp [specByKey, specNameTo, specByKey_unique s env, specByKeyList_unique bs env]
theorem specByKeyList_unique : ∀ (ts : List (Term Name)) (env : List Int),
    specByKeyList (·.unique) env ts = specNameToList (fun _ i => (i : DeBruijn)) env ts
  | [], _ => rfl
  | t :: ts, env => by simp [specByKeyList, specNameToList, specByKey_unique t env, specByKeyList_unique ts env]
end

end AikenVerif.Db
