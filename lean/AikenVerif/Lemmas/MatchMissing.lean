import AikenVerif.Lemmas.MatchUseful
/-!
`collect_missing_patterns` (C07): the reported rows have the right width, each has a well-typed
instance that no row of the matrix matches (all instances, when the matrix has no literal
pattern), and the report is empty exactly when the matrix is exhaustive.
-/
namespace AikenVerif.Match

/-! ### unfolding -/

theorem collectMissing_empty {M : Matrix} (h : M.isEmpty = true) (n : Nat) :
    collectMissing M n = [wilds n] := by
  unfold collectMissing; simp [h]

theorem collectMissing_zero {M : Matrix} (h : ¬ M.isEmpty = true) : collectMissing M 0 = [] := by
  unfold collectMissing; simp [h]

theorem collectMissing_nil {M : Matrix} {n : Nat} (h : ¬ M.isEmpty = true) (hn : ¬ n = 0)
    (hc : collectCtors M = []) :
    collectMissing M n = (collectMissing (specWild M) (n - 1)).map (fun r => Pat.wild :: r) := by
  rw [collectMissing, if_neg h, if_neg hn]
  split
  · rfl
  · rename_i k alts rest h'; rw [hc] at h'; cases h'

theorem collectMissing_lt {M : Matrix} {n : Nat} (h : ¬ M.isEmpty = true) (hn : ¬ n = 0)
    {k : Nat} {alts : Alts} {rest : List (Nat × Alts)}
    (hc : collectCtors M = (k, alts) :: rest) (hlt : rest.length + 1 < alts.length) :
    collectMissing M n =
      (collectMissing (specWild M) (n - 1)).flatMap (fun r =>
        (alts.filterMap (isMissing alts ((k, alts) :: rest))).map (fun p => p :: r)) := by
  rw [collectMissing, if_neg h, if_neg hn]
  split
  · rename_i h'; rw [hc] at h'; cases h'
  · rename_i k' alts' rest' h'
    rw [hc] at h'; cases h'
    simp only [hlt, if_true]

theorem collectMissing_ge {M : Matrix} {n : Nat} (h : ¬ M.isEmpty = true) (hn : ¬ n = 0)
    {k : Nat} {alts : Alts} {rest : List (Nat × Alts)}
    (hc : collectCtors M = (k, alts) :: rest) (hlt : ¬ rest.length + 1 < alts.length) :
    collectMissing M n =
      alts.flatMap (fun alt =>
        (collectMissing (specCtor alt.1 alt.2 M) (alt.2 + n - 1)).map (recoverCtor alts alt.1 alt.2)) := by
  rw [collectMissing, if_neg h, if_neg hn]
  split
  · rename_i h'; rw [hc] at h'; cases h'
  · rename_i k' alts' rest' h'
    rw [hc] at h'; cases h'
    simp only [hlt, if_false]

theorem isComplete_none_of_nil {M : Matrix} (hc : collectCtors M = []) : isComplete M = none := by
  unfold isComplete; rw [hc]

theorem isComplete_none_of_lt {M : Matrix} {k : Nat} {alts : Alts} {rest : List (Nat × Alts)}
    (hc : collectCtors M = (k, alts) :: rest) (hlt : rest.length + 1 < alts.length) :
    isComplete M = none := by
  unfold isComplete; rw [hc]
  simp only
  rw [if_neg (by omega)]

/-! ### width of the reported rows -/

theorem collectMissing_length (M : Matrix) (n : Nat) : ∀ p ∈ collectMissing M n, p.length = n := by
  induction M, n using collectMissing.induct with
  | case1 M n hM => intro p hp; rw [collectMissing_empty hM] at hp; simp at hp; simp [hp]
  | case2 M hM => intro p hp; rw [collectMissing_zero hM] at hp; cases hp
  | case3 M n hM hn hc ih =>
    intro p hp
    rw [collectMissing_nil hM hn hc] at hp
    simp only [List.mem_map] at hp
    obtain ⟨p', hp', e⟩ := hp
    subst e
    have := ih p' hp'
    simp only [List.length_cons]; omega
  | case4 M n hM hn k alts rest hc hlt ih =>
    intro p hp
    rw [collectMissing_lt hM hn hc hlt] at hp
    simp only [List.mem_flatMap, List.mem_map] at hp
    obtain ⟨p', hp', q, _, e⟩ := hp
    subst e
    have := ih p' hp'
    simp only [List.length_cons]; omega
  | case5 M n hM hn k alts rest hc hlt ih =>
    intro p hp
    rw [collectMissing_ge hM hn hc hlt] at hp
    simp only [List.mem_flatMap, List.mem_map] at hp
    obtain ⟨alt, _, p', hp', e⟩ := hp
    subst e
    have := ih alt p' hp'
    simp only [recoverCtor, List.length_cons, List.length_drop]; omega

/-! ### heads of a column whose map does not contain `c` -/

theorem head_ctor_in_keys {M : Matrix} {r : Row} (hr : r ∈ M) {c : Nat} {a : Alts} {args rest : List Pat}
    (e : r = .ctor c a args :: rest) : c ∈ keys (collectCtors M) :=
  (collectCtors_keys M c).mpr ⟨r, hr, a, by rw [e]; rfl⟩

theorem isMissing_some {alts : Alts} {ctors : List (Nat × Alts)} {alt : Nat × Nat} {q : Pat}
    (h : isMissing alts ctors alt = some q) :
    q = .ctor alt.1 alts (wilds alt.2) ∧ alt.1 ∉ keys ctors := by
  unfold isMissing at h
  split at h
  · cases h
  · rename_i hn
    cases h
    refine ⟨rfl, ?_⟩
    intro hk
    apply hn
    simp only [keys, List.mem_map] at hk
    obtain ⟨kv, hkv, e⟩ := hk
    exact List.any_eq_true.mpr ⟨kv, hkv, by simp [e]⟩

/-- splitting a recovered row -/
theorem recoverCtor_match {alts : Alts} {c a : Nat} {p' : Row} {w : Val} {vs : List Val}
    (hlen : a ≤ p'.length) (hm : pmatchL (recoverCtor alts c a p') (w :: vs) = true) :
    ∃ ws, w = .ctor c ws ∧ ws.length = a ∧ pmatchL p' (ws ++ vs) = true := by
  simp only [recoverCtor, pmatchL, Bool.and_eq_true] at hm
  cases w with
  | lit l => simp [pmatch] at hm
  | ctor c' ws =>
    simp only [pmatch, Bool.and_eq_true, decide_eq_true_eq] at hm
    obtain ⟨⟨ec, h1⟩, h2⟩ := hm
    subst ec
    have hl := pmatchL_length h1
    simp only [List.length_take] at hl
    refine ⟨ws, rfl, by omega, ?_⟩
    have : p' = p'.take a ++ p'.drop a := (List.take_append_drop a p').symm
    rw [this, pmatchL_append (by simp; omega)]
    simp [h1, h2]

/-! ### every reported row has an unmatched well-typed instance -/

theorem missing_witness_gen {sg : Sig} {inh : List Val} (hs : Sig.ok sg = true) (hi : inhOk sg inh = true)
    (M : Matrix) (n : Nat) :
    ∀ ts, ts.length = n → (∀ t ∈ ts, Ty.ok sg t = true) → Matrix.hasTy sg M ts = true →
      ∀ p ∈ collectMissing M n,
        ∃ vs, Val.hasTyL sg vs ts = true ∧ pmatchL p vs = true ∧ ∀ r ∈ M, pmatchL r vs = false := by
  induction M, n using collectMissing.induct with
  | case1 M n hM =>
    intro ts hlen hok _ p hp
    rw [collectMissing_empty hM] at hp
    simp only [List.mem_singleton] at hp
    subst hp
    refine ⟨ts.map (witness inh), witnessL_hasTy hi hok, pmatchL_wilds (by simp [hlen]), ?_⟩
    intro r hr
    cases M with
    | nil => cases hr
    | cons r' M' => simp at hM
  | case2 M hM => intro ts _ _ _ p hp; rw [collectMissing_zero hM] at hp; cases hp
  | case3 M n hM hn hc ih =>
    intro ts hlen hok hMt p hp
    rw [collectMissing_nil hM hn hc] at hp
    simp only [List.mem_map] at hp
    obtain ⟨p', hp', e⟩ := hp
    subst e
    cases ts with
    | nil => simp at hlen; omega
    | cons t0 ts =>
      simp only [List.length_cons] at hlen
      obtain ⟨vs, h1, h2, h3⟩ := ih ts (by omega) (fun ty h => hok ty (List.mem_cons_of_mem _ h))
        (specWild_hasTy hMt) p' hp'
      obtain ⟨w, hw, hfresh⟩ := fresh_head hs hi (hok t0 List.mem_cons_self) hMt
        (isComplete_none_of_nil hc)
      refine ⟨w :: vs, by simp [Val.hasTyL, hw, h1], by simp [pmatchL, pmatch, h2], ?_⟩
      intro r hr
      cases hrm : pmatchL r (w :: vs) with
      | false => rfl
      | true =>
        rcases matches_cons_cases hr hrm with ⟨r', hr', hm'⟩ | ⟨q, rest', e, hq, hqm⟩
        · rw [h3 r' hr'] at hm'; cases hm'
        · rw [hfresh r hr q rest' e hq] at hqm; cases hqm
  | case4 M n hM hn k alts rest hc hlt ih =>
    intro ts hlen hok hMt p hp
    rw [collectMissing_lt hM hn hc hlt] at hp
    simp only [List.mem_flatMap, List.mem_map, List.mem_filterMap] at hp
    obtain ⟨p', hp', q, ⟨alt, halt, hq⟩, e⟩ := hp
    subst e
    obtain ⟨eq, hnk⟩ := isMissing_some hq
    rw [← hc] at hnk
    cases ts with
    | nil => simp at hlen; omega
    | cons t0 ts =>
      simp only [List.length_cons] at hlen
      obtain ⟨vs, h1, h2, h3⟩ := ih ts (by omega) (fun ty h => hok ty (List.mem_cons_of_mem _ h))
        (specWild_hasTy hMt) p' hp'
      have hmem : (k, alts) ∈ collectCtors M := by rw [hc]; simp
      obtain ⟨t, d, _, e1, hd, ha, _⟩ := collectCtors_typed hMt hmem
      subst e1
      rw [ha] at halt
      obtain ⟨tys, hl, hlen'⟩ := declAlts_mem_lookup (Sig.ok_get hs hd).1 halt
      obtain ⟨c, a⟩ := alt
      simp only at hl hlen' eq hnk
      subst hlen'
      refine ⟨.ctor c (tys.map (witness inh)) :: vs, ?_, ?_, ?_⟩
      · simp [Val.hasTyL, h1,
          Val.hasTy_ctor_intro hd hl (witnessL_hasTy hi ((Sig.ok_get hs hd).2 c tys hl))]
      · subst eq
        simp [pmatchL, pmatch, h2, pmatchL_wilds]
      · intro r hr
        cases hrm : pmatchL r (.ctor c (tys.map (witness inh)) :: vs) with
        | false => rfl
        | true =>
          rcases matches_cons_cases hr hrm with ⟨r', hr', hm'⟩ | ⟨q', rest', e, hq', hqm⟩
          · rw [h3 r' hr'] at hm'; cases hm'
          · cases q' with
            | wild => exact absurd rfl hq'
            | lit l => simp [pmatch] at hqm
            | ctor c' a' args =>
              simp only [pmatch, Bool.and_eq_true, decide_eq_true_eq] at hqm
              have := head_ctor_in_keys hr e
              rw [hqm.1] at this
              exact absurd this hnk
  | case5 M n hM hn k alts rest hc hlt ih =>
    intro ts hlen hok hMt p hp
    rw [collectMissing_ge hM hn hc hlt] at hp
    simp only [List.mem_flatMap, List.mem_map] at hp
    obtain ⟨alt, halt, p', hp', e⟩ := hp
    subst e
    cases ts with
    | nil => simp at hlen; omega
    | cons t0 ts =>
      simp only [List.length_cons] at hlen
      have hmem : (k, alts) ∈ collectCtors M := by rw [hc]; simp
      obtain ⟨t, d, _, e1, hd, ha, _⟩ := collectCtors_typed hMt hmem
      subst e1
      rw [ha] at halt
      obtain ⟨tys, hl, hlen'⟩ := declAlts_mem_lookup (Sig.ok_get hs hd).1 halt
      obtain ⟨c, a⟩ := alt
      simp only at hl hlen' hp'
      subst hlen'
      have hok' : ∀ ty ∈ tys ++ ts, Ty.ok sg ty = true := by
        intro ty hty
        rcases List.mem_append.mp hty with h | h
        · exact (Sig.ok_get hs hd).2 c tys hl ty h
        · exact hok ty (List.mem_cons_of_mem _ h)
      obtain ⟨vs', h1, h2, h3⟩ := ih (c, tys.length) (tys ++ ts) (by simp; omega) hok'
        (specCtor_hasTy hMt hd hl) p' hp'
      obtain ⟨ws, vs, e, hws, hvs⟩ := Val.hasTyL_split h1
      subst e
      have hlen2 : ws.length = tys.length := Val.hasTyL_length hws
      have hplen := collectMissing_length _ _ p' hp'
      simp only at hplen h3
      have hsplit : p' = p'.take tys.length ++ p'.drop tys.length := (List.take_append_drop _ p').symm
      rw [hsplit, pmatchL_append (by simp; omega)] at h2
      simp only [Bool.and_eq_true] at h2
      refine ⟨.ctor c ws :: vs, by simp [Val.hasTyL, Val.hasTy_ctor_intro hd hl hws, hvs],
        by simp [recoverCtor, pmatchL, pmatch, h2.1, h2.2], ?_⟩
      intro r hr
      cases hrm : pmatchL r (.ctor c ws :: vs) with
      | false => rfl
      | true =>
        obtain ⟨r', hr', hm'⟩ := (specCtor_matches c ws vs M).mp ⟨r, hr, hrm⟩
        rw [hlen2] at hr'
        rw [h3 r' hr'] at hm'; cases hm'

/-! ### no literal patterns: every instance of a reported row is unmatched -/

mutual
def Pat.litFree : Pat → Bool
  | .wild => true
  | .lit _ => false
  | .ctor _ _ args => Pat.litFreeL args
def Pat.litFreeL : List Pat → Bool
  | [] => true
  | p :: ps => Pat.litFree p && Pat.litFreeL ps
end

def Matrix.litFree (M : Matrix) : Bool := M.all Pat.litFreeL

theorem Pat.litFreeL_append (a b : List Pat) :
    Pat.litFreeL (a ++ b) = (Pat.litFreeL a && Pat.litFreeL b) := by
  induction a with
  | nil => simp [Pat.litFreeL]
  | cons p ps ih => simp [Pat.litFreeL, ih, Bool.and_assoc]

theorem Pat.litFreeL_wilds (n : Nat) : Pat.litFreeL (wilds n) = true := by
  induction n with
  | zero => simp [wilds, Pat.litFreeL]
  | succ n ih => simpa [wilds, List.replicate_succ, Pat.litFreeL, Pat.litFree] using ih

theorem specCtor_litFree {M : Matrix} (h : Matrix.litFree M = true) (c a : Nat) :
    Matrix.litFree (specCtor c a M) = true := by
  simp only [Matrix.litFree, List.all_eq_true] at *
  intro r' hr'
  simp only [specCtor, List.mem_filterMap] at hr'
  obtain ⟨r, hr, e⟩ := hr'
  have := h r hr
  match r, e with
  | .wild :: rest, e =>
    simp only [specRowCtor] at e; cases e
    simp only [Pat.litFreeL, Bool.and_eq_true] at this
    simp [Pat.litFreeL_append, Pat.litFreeL_wilds, this.2]
  | .ctor c' alts args :: rest, e =>
    simp only [specRowCtor] at e
    split at e
    · cases e
      simp only [Pat.litFreeL, Pat.litFree, Bool.and_eq_true] at this
      simp [Pat.litFreeL_append, this.1, this.2]
    · cases e

theorem specWild_litFree {M : Matrix} (h : Matrix.litFree M = true) :
    Matrix.litFree (specWild M) = true := by
  simp only [Matrix.litFree, List.all_eq_true] at *
  intro r' hr'
  simp only [specWild, List.mem_filterMap] at hr'
  obtain ⟨r, hr, e⟩ := hr'
  have := h r hr
  match r, e with
  | .wild :: rest, e =>
    simp only [specRowWild] at e; cases e
    simp only [Pat.litFreeL, Bool.and_eq_true] at this
    exact this.2

theorem missing_strong_gen (M : Matrix) (n : Nat) :
    Matrix.litFree M = true →
      ∀ p ∈ collectMissing M n, ∀ vs, pmatchL p vs = true → ∀ r ∈ M, pmatchL r vs = false := by
  induction M, n using collectMissing.induct with
  | case1 M n hM =>
    intro _ p _ vs _ r hr
    cases M with
    | nil => cases hr
    | cons r' M' => simp at hM
  | case2 M hM => intro _ p hp; rw [collectMissing_zero hM] at hp; cases hp
  | case3 M n hM hn hc ih =>
    intro hlf p hp vs hm r hr
    rw [collectMissing_nil hM hn hc] at hp
    simp only [List.mem_map] at hp
    obtain ⟨p', hp', e⟩ := hp
    subst e
    cases vs with
    | nil => simp [pmatchL] at hm
    | cons w vs =>
      simp only [pmatchL, pmatch, Bool.true_and] at hm
      cases hrm : pmatchL r (w :: vs) with
      | false => rfl
      | true =>
        rcases matches_cons_cases hr hrm with ⟨r', hr', hm'⟩ | ⟨q, rest', e, hq, hqm⟩
        · rw [ih (specWild_litFree hlf) p' hp' vs hm r' hr'] at hm'; cases hm'
        · cases q with
          | wild => exact absurd rfl hq
          | lit l =>
            simp only [Matrix.litFree, List.all_eq_true] at hlf
            have := hlf r hr
            rw [e] at this
            simp [Pat.litFreeL, Pat.litFree] at this
          | ctor c' a' args =>
            have := head_ctor_in_keys hr e
            rw [hc] at this
            simp [keys] at this
  | case4 M n hM hn k alts rest hc hlt ih =>
    intro hlf p hp vs hm r hr
    rw [collectMissing_lt hM hn hc hlt] at hp
    simp only [List.mem_flatMap, List.mem_map, List.mem_filterMap] at hp
    obtain ⟨p', hp', q, ⟨alt, halt, hq⟩, e⟩ := hp
    subst e
    obtain ⟨eq, hnk⟩ := isMissing_some hq
    rw [← hc] at hnk
    subst eq
    cases vs with
    | nil => simp [pmatchL] at hm
    | cons w vs =>
      simp only [pmatchL, Bool.and_eq_true] at hm
      cases w with
      | lit l => simp [pmatch] at hm
      | ctor c ws =>
        simp only [pmatch, Bool.and_eq_true, decide_eq_true_eq] at hm
        obtain ⟨⟨ec, _⟩, hm2⟩ := hm
        cases hrm : pmatchL r (.ctor c ws :: vs) with
        | false => rfl
        | true =>
          rcases matches_cons_cases hr hrm with ⟨r', hr', hm'⟩ | ⟨q', rest', e, hq', hqm⟩
          · rw [ih (specWild_litFree hlf) p' hp' vs hm2 r' hr'] at hm'; cases hm'
          · cases q' with
            | wild => exact absurd rfl hq'
            | lit l => simp [pmatch] at hqm
            | ctor c' a' args =>
              simp only [pmatch, Bool.and_eq_true, decide_eq_true_eq] at hqm
              have := head_ctor_in_keys hr e
              rw [hqm.1, ← ec] at this
              exact absurd this hnk
  | case5 M n hM hn k alts rest hc hlt ih =>
    intro hlf p hp vs hm r hr
    rw [collectMissing_ge hM hn hc hlt] at hp
    simp only [List.mem_flatMap, List.mem_map] at hp
    obtain ⟨alt, halt, p', hp', e⟩ := hp
    subst e
    have hplen := collectMissing_length _ _ p' hp'
    cases vs with
    | nil => simp [recoverCtor, pmatchL] at hm
    | cons w vs =>
      obtain ⟨ws, ew, hwl, hm'⟩ := recoverCtor_match (by omega) hm
      subst ew
      cases hrm : pmatchL r (.ctor alt.1 ws :: vs) with
      | false => rfl
      | true =>
        obtain ⟨r', hr', hm''⟩ := (specCtor_matches alt.1 ws vs M).mp ⟨r, hr, hrm⟩
        rw [hwl] at hr'
        rw [ih alt (specCtor_litFree hlf _ _) p' hp' (ws ++ vs) hm' r' hr'] at hm''; cases hm''

/-! ### empty report ⇔ exhaustive -/

theorem missing_nil_exhaustive_gen {sg : Sig} (hs : Sig.ok sg = true) (M : Matrix) (n : Nat) :
    ∀ ts, ts.length = n → Matrix.hasTy sg M ts = true → collectMissing M n = [] →
      ∀ vs, Val.hasTyL sg vs ts = true → ∃ r ∈ M, pmatchL r vs = true := by
  induction M, n using collectMissing.induct with
  | case1 M n hM => intro ts _ _ he; rw [collectMissing_empty hM] at he; cases he
  | case2 M hM =>
    intro ts hlen hMt _ vs hvs
    cases ts with
    | cons t ts => simp at hlen
    | nil =>
      cases vs with
      | cons w vs => simp [Val.hasTyL] at hvs
      | nil =>
        cases M with
        | nil => simp at hM
        | cons r M =>
          have hr := Matrix.hasTy_mem hMt (List.mem_cons_self (a := r) (l := M))
          cases r with
          | nil => exact ⟨[], List.mem_cons_self, by simp [pmatchL]⟩
          | cons p r => simp [Pat.hasTyL] at hr
  | case3 M n hM hn hc ih =>
    intro ts hlen hMt he vs hvs
    rw [collectMissing_nil hM hn hc] at he
    simp only [List.map_eq_nil_iff] at he
    cases ts with
    | nil => simp at hlen; omega
    | cons t0 ts =>
      simp only [List.length_cons] at hlen
      cases vs with
      | nil => simp [Val.hasTyL] at hvs
      | cons w vs =>
        simp only [Val.hasTyL, Bool.and_eq_true] at hvs
        exact specWild_matches_of w (ih ts (by omega) (specWild_hasTy hMt) he vs hvs.2)
  | case4 M n hM hn k alts rest hc hlt ih =>
    intro ts hlen hMt he vs hvs
    rw [collectMissing_lt hM hn hc hlt] at he
    cases ts with
    | nil => simp at hlen; omega
    | cons t0 ts =>
      simp only [List.length_cons] at hlen
      have hmem : (k, alts) ∈ collectCtors M := by rw [hc]; simp
      obtain ⟨t, d, _, e1, hd, ha, _⟩ := collectCtors_typed hMt hmem
      subst e1
      -- some constructor is unseen, so the prefix list is not empty
      have hne : (collectCtors M).length ≠ d.length := by
        rw [hc]; simp only [List.length_cons]
        rw [ha] at hlt; simp only [declAlts, List.length_map] at hlt; omega
      obtain ⟨c, tys, hl, hnot⟩ := exists_unseen hMt hd (Sig.ok_get hs hd).1 hne
      have hpre : (.ctor c alts (wilds tys.length) : Pat) ∈
          alts.filterMap (isMissing alts ((k, alts) :: rest)) := by
        simp only [List.mem_filterMap]
        refine ⟨(c, tys.length), by rw [ha]; exact lookupCtor_mem_declAlts hl, ?_⟩
        unfold isMissing
        rw [if_neg]
        intro hany
        obtain ⟨kv, hkv, e⟩ := List.any_eq_true.mp hany
        apply hnot
        rw [hc]
        simp only [keys, List.mem_map]
        exact ⟨kv, hkv, by simpa using e⟩
      have hrec : collectMissing (specWild M) (n - 1) = [] := by
        cases hrec : collectMissing (specWild M) (n - 1) with
        | nil => rfl
        | cons p' ps =>
          rw [hrec] at he
          simp only [List.flatMap_cons, List.append_eq_nil_iff, List.map_eq_nil_iff] at he
          rw [he.1] at hpre; cases hpre
      cases vs with
      | nil => simp [Val.hasTyL] at hvs
      | cons w vs =>
        simp only [Val.hasTyL, Bool.and_eq_true] at hvs
        exact specWild_matches_of w (ih ts (by omega) (specWild_hasTy hMt) hrec vs hvs.2)
  | case5 M n hM hn k alts rest hc hlt ih =>
    intro ts hlen hMt he vs hvs
    rw [collectMissing_ge hM hn hc hlt] at he
    cases ts with
    | nil => simp at hlen; omega
    | cons t0 ts =>
      simp only [List.length_cons] at hlen
      have hmem : (k, alts) ∈ collectCtors M := by rw [hc]; simp
      obtain ⟨t, d, _, e1, hd, ha, _⟩ := collectCtors_typed hMt hmem
      subst e1
      cases vs with
      | nil => simp [Val.hasTyL] at hvs
      | cons w vs =>
        simp only [Val.hasTyL, Bool.and_eq_true] at hvs
        obtain ⟨c, ws, d', tys, ew, hd', hl, hws⟩ := Val.hasTy_data hvs.1
        subst ew
        rw [hd] at hd'; cases hd'
        have hmemalt : (c, tys.length) ∈ alts := by rw [ha]; exact lookupCtor_mem_declAlts hl
        have hrec : collectMissing (specCtor c tys.length M) (tys.length + n - 1) = [] := by
          have := List.flatMap_eq_nil_iff.mp he (c, tys.length) hmemalt
          simpa using this
        have hlen2 : ws.length = tys.length := Val.hasTyL_length hws
        have := ih (c, tys.length) (tys ++ ts) (by simp; omega) (specCtor_hasTy hMt hd hl) hrec
          (ws ++ vs) (by rw [Val.hasTyL_append hlen2]; simp [hws, hvs.2])
        simp only at this
        rw [← hlen2] at this
        exact (specCtor_matches c ws vs M).mpr this

end AikenVerif.Match
