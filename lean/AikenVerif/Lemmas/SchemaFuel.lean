import AikenVerif.Lemmas.Schema
/-! Termination of the validator and of `expect` within `dsize d + 1` fuel. -/
namespace AikenVerif.Blueprint

theorem dsize_mem_list {x : Data} {xs : List Data} (h : x ∈ xs) : dsize x < dsizeList xs := by
  induction xs with
  | nil => cases h
  | cons y ys ih =>
    simp only [dsizeList]
    rcases List.mem_cons.mp h with h | h
    · subst h; omega
    · have := ih h; omega

theorem dsize_mem_pairs {e : Data × Data} {es : List (Data × Data)} (h : e ∈ es) :
    dsize e.1 < dsizePairs es ∧ dsize e.2 < dsizePairs es := by
  induction es with
  | nil => cases h
  | cons y ys ih =>
    obtain ⟨k, v⟩ := y
    simp only [dsizePairs]
    rcases List.mem_cons.mp h with h | h
    · subst h; constructor <;> simp <;> omega
    · have := ih h; omega

theorem allOk_ne_oof {α : Type} {f : α → Outcome} {xs : List α}
    (h : ∀ x ∈ xs, f x ≠ .outOfFuel) : allOk f xs ≠ .outOfFuel := by
  induction xs with
  | nil => simp [allOk]
  | cons x xs ih =>
    simp only [allOk]
    have hx := h x List.mem_cons_self
    have := ih (fun y hy => h y (List.mem_cons_of_mem _ hy))
    cases hfx : f x <;> simp_all

theorem zipOk_ne_oof {σ α : Type} {f : σ → α → Outcome} {ss : List σ} {xs : List α}
    (h : ∀ s, ∀ x ∈ xs, f s x ≠ .outOfFuel) : zipOk f ss xs ≠ .outOfFuel := by
  induction ss generalizing xs with
  | nil => simp [zipOk]
  | cons s ss ih =>
    cases xs with
    | nil => simp [zipOk]
    | cons x xs =>
      simp only [zipOk]
      have hx := h s x List.mem_cons_self
      have := ih (xs := xs) (fun s y hy => h s y (List.mem_cons_of_mem _ hy))
      cases hfx : f s x <;> simp_all

theorem ctorLoop_ne_oof {σ : Type} {m : Outcome} {f : σ → Data → Outcome} {tag : Nat}
    {fields : List Data} {cs : List (Nat × List σ)} (hm : m ≠ .outOfFuel)
    (h : ∀ s, ∀ x ∈ fields, f s x ≠ .outOfFuel) : ctorLoop m f tag fields cs ≠ .outOfFuel := by
  induction cs with
  | nil => simp [ctorLoop]
  | cons c cs ih =>
    obtain ⟨i, ss⟩ := c
    simp only [ctorLoop]
    split
    · split
      · exact hm
      · exact zipOk_ne_oof h
    · exact ih

theorem lenOutcome_ne_oof (fixed : Bool) : lenOutcome fixed ≠ .outOfFuel := by
  cases fixed <;> simp [lenOutcome]

theorem vData_terminates (fixed : Bool) (tbl : Table) :
    ∀ (fuel : Nat) (ds : DSchema) (d : Data), dsize d < fuel →
      vData fixed tbl fuel ds d ≠ .outOfFuel := by
  intro fuel
  induction fuel with
  | zero => intro ds d h; omega
  | succ fuel ih =>
    intro ds d h
    cases ds with
    | integer => cases d <;> simp [vData]
    | bytes => cases d <;> simp [vData]
    | «opaque» => simp [vData]
    | list item =>
      cases d with
      | list xs =>
        simp only [vData]
        split
        · simp
        · exact allOk_ne_oof (fun x hx => ih _ x (by
            have := dsize_mem_list hx; simp only [dsize] at h; omega))
      | _ => simp [vData]
    | tuple items =>
      cases d with
      | list xs =>
        simp only [vData]
        split
        · simp
        · split
          · simp
          · exact zipOk_ne_oof (fun s x hx => ih s x (by
              have := dsize_mem_list hx; simp only [dsize] at h; omega))
      | _ => simp [vData]
    | map k v =>
      cases d with
      | map es =>
        simp only [vData]
        split
        · simp
        · split
          · simp
          · refine allOk_ne_oof (fun e he => ?_)
            have hs := dsize_mem_pairs he
            simp only [dsize] at h
            have h1 := fun s => ih s e.1 (by omega)
            have h2 := fun s => ih s e.2 (by omega)
            simp only [Outcome.andThen]
            split
            · exact h2 _
            · exact h1 _
      | _ => simp [vData]
    | anyOf ctors =>
      simp only [vData]
      split
      · simp
      · cases d with
        | constr tag fields =>
          exact ctorLoop_ne_oof (lenOutcome_ne_oof fixed) (fun s x hx => ih s x (by
            have := dsize_mem_list hx; simp only [dsize] at h; omega))
        | _ => simp

end AikenVerif.Blueprint

namespace AikenVerif.Blueprint

theorem allOk_ne {α : Type} {o : Outcome} {f : α → Outcome} {xs : List α}
    (h0 : o ≠ .ok) (h : ∀ x ∈ xs, f x ≠ o) : allOk f xs ≠ o := by
  induction xs with
  | nil => simpa [allOk] using h0.symm
  | cons x xs ih =>
    simp only [allOk]
    split
    · exact ih (fun y hy => h y (List.mem_cons_of_mem _ hy))
    · exact h x List.mem_cons_self

theorem zipOk_ne {σ α : Type} {o : Outcome} {f : σ → α → Outcome} {ss : List σ} {xs : List α}
    (h0 : o ≠ .ok) (h : ∀ s x, f s x ≠ o) : zipOk f ss xs ≠ o := by
  induction ss generalizing xs with
  | nil => simpa [zipOk] using h0.symm
  | cons s ss ih =>
    cases xs with
    | nil => simpa [zipOk] using h0.symm
    | cons x xs =>
      simp only [zipOk]
      split
      · exact ih
      · exact h s x

theorem ctorLoop_ne {σ : Type} {o m : Outcome} {f : σ → Data → Outcome} {tag : Nat}
    {fields : List Data} {cs : List (Nat × List σ)} (h0 : o ≠ .ok) (h1 : o ≠ .mismatch)
    (hm : m ≠ o) (h : ∀ s x, f s x ≠ o) : ctorLoop m f tag fields cs ≠ o := by
  induction cs with
  | nil => simpa [ctorLoop] using h1.symm
  | cons c cs ih =>
    obtain ⟨i, ss⟩ := c
    simp only [ctorLoop]
    split
    · split
      · exact hm
      · exact zipOk_ne h0 h
    · exact ih

/-- with the repair, validation never kills the process -/
theorem vData_no_panic (tbl : Table) :
    ∀ (fuel : Nat) (ds : DSchema) (d : Data), vData true tbl fuel ds d ≠ .panic := by
  intro fuel
  induction fuel with
  | zero => intro ds d; simp [vData]
  | succ fuel ih =>
    intro ds d
    cases ds with
    | integer => cases d <;> simp [vData]
    | bytes => cases d <;> simp [vData]
    | «opaque» => simp [vData]
    | list item =>
      cases d with
      | list xs =>
        simp only [vData]
        split
        · simp
        · exact allOk_ne (by simp) (fun x _ => ih _ x)
      | _ => simp [vData]
    | tuple items =>
      cases d with
      | list xs =>
        simp only [vData]
        split
        · simp
        · split
          · simp
          · exact zipOk_ne (by simp) (fun s x => ih s x)
      | _ => simp [vData]
    | map k v =>
      cases d with
      | map es =>
        simp only [vData]
        split
        · simp
        · split
          · simp
          · refine allOk_ne (by simp) (fun e _ => ?_)
            simp only [Outcome.andThen]
            split
            · exact ih _ _
            · exact ih _ _
      | _ => simp [vData]
    | anyOf ctors =>
      simp only [vData]
      split
      · simp
      · cases d with
        | constr tag fields =>
          exact ctorLoop_ne (by simp) (by simp) (by simp) (fun s x => ih s x)
        | _ => simp

theorem vSchema_data_no_panic (tbl : Table) (fuel : Nat) (s : Schema) (d : Data) :
    vSchema true tbl fuel s (.data d) ≠ .panic := by
  cases fuel with
  | zero => simp [vSchema]
  | succ fuel =>
    cases s with
    | data ds => simp only [vSchema]; exact vData_no_panic tbl fuel ds d
    | _ => simp [vSchema]

theorem validate_no_panic (tbl : Table) (p : Decl Schema) (d : Data) :
    validate true tbl p d ≠ .panic := by
  simp only [validate]
  split
  · simp
  · exact vSchema_data_no_panic _ _ _ _

end AikenVerif.Blueprint
