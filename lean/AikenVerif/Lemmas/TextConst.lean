import AikenVerif.Lemmas.TextBasics
/-! Helper lemmas for C15: types, data and constants (token level). -/
namespace AikenVerif.Text
open AikenVerif.Gen.TextTables

-- ------------------------------------------------------------------ white space
@[simp] theorem skipWs_lpar (r : List Token) : skipWs (.lpar :: r) = .lpar :: r := rfl
@[simp] theorem skipWs_rpar (r : List Token) : skipWs (.rpar :: r) = .rpar :: r := rfl
@[simp] theorem skipWs_lbrack (r : List Token) : skipWs (.lbrack :: r) = .lbrack :: r := rfl
@[simp] theorem skipWs_rbrack (r : List Token) : skipWs (.rbrack :: r) = .rbrack :: r := rfl
@[simp] theorem skipWs_comma (r : List Token) : skipWs (.comma :: r) = .comma :: r := rfl
@[simp] theorem skipWs_unit (r : List Token) : skipWs (.unit :: r) = .unit :: r := rfl
@[simp] theorem skipWs_word (w) (r : List Token) : skipWs (.word w :: r) = .word w :: r := rfl
@[simp] theorem skipWs_hash (w) (r : List Token) : skipWs (.hash w :: r) = .hash w :: r := rfl
@[simp] theorem skipWs_str (w) (r : List Token) : skipWs (.str w :: r) = .str w :: r := rfl
@[simp] theorem skipWs_ws (r : List Token) : skipWs (.ws :: r) = skipWs r := rfl
@[simp] theorem skipWs_nil : skipWs [] = [] := rfl
@[simp] theorem reqWs_ws (r : List Token) : reqWs (.ws :: r) = some (skipWs r) := rfl

/-- the list starts with a token that is not white space -/
def NoLeadWs (l : List Token) : Prop := ∃ tk r, l = tk :: r ∧ tk ≠ .ws

theorem skipWs_of_noLeadWs {l : List Token} (h : NoLeadWs l) (rest : List Token) :
    skipWs (l ++ rest) = l ++ rest := by
  obtain ⟨tk, r, rfl, hne⟩ := h
  cases tk <;> simp_all

theorem NoLeadWs.append {l : List Token} (h : NoLeadWs l) (m : List Token) : NoLeadWs (l ++ m) := by
  obtain ⟨tk, r, rfl, hne⟩ := h
  exact ⟨tk, r ++ m, by simp, hne⟩

-- ------------------------------------------------------------------ type names
/-- `type_names_roundtrip` on the generated tables: every printed type name is read back as that type -/
theorem tyAtomOfWord_display : ∀ a : TyAtom, tyAtomOfWord (chars (tyDisplay a)) = some a := by
  intro a; cases a <;> decide

theorem tyList_kw : chars tyListDisplay = chars tyListParse := by decide
theorem tyPair_kw : chars tyPairDisplay = chars tyPairParse := by decide
theorem tyPair_ne_list : chars tyPairDisplay ≠ chars tyListParse := by decide

theorem printTy_noLeadWs (t : Ty) : NoLeadWs (printTy t) := by
  cases t <;> exact ⟨_, _, rfl, by simp⟩

theorem printTy_length_pos (t : Ty) : 1 ≤ (printTy t).length := by
  cases t <;> simp [printTy]

theorem parseTy_atom (a : TyAtom) (f : Nat) (rest : List Token) :
    parseTy (f + 1) (.word (chars (tyDisplay a)) :: rest) = some (tyOfAtom a, rest) := by
  simp [parseTy, tyAtomOfWord_display]

theorem parseTy_printTy (t : Ty) : ∀ (f : Nat) (rest : List Token), (printTy t).length ≤ f →
    parseTy f (printTy t ++ rest) = some (t, rest) := by
  induction t with
  | list t ih =>
    intro f rest hf
    simp [printTy] at hf
    obtain ⟨g, rfl⟩ : ∃ g, f = g + 1 := ⟨f - 1, by omega⟩
    have h1 := skipWs_of_noLeadWs (printTy_noLeadWs t) (.rpar :: rest)
    have h2 := ih g (.rpar :: rest) (by omega)
    simp [printTy, parseTy, tyList_kw, h1, h2]
  | pair a b iha ihb =>
    intro f rest hf
    simp [printTy] at hf
    obtain ⟨g, rfl⟩ : ∃ g, f = g + 1 := ⟨f - 1, by omega⟩
    have h1 := skipWs_of_noLeadWs (printTy_noLeadWs a) (.ws :: (printTy b ++ .rpar :: rest))
    have h2 := iha g (.ws :: (printTy b ++ .rpar :: rest)) (by omega)
    have h3 := skipWs_of_noLeadWs (printTy_noLeadWs b) (.rpar :: rest)
    have h4 := ihb g (.rpar :: rest) (by omega)
    have hne : ¬ chars tyPairParse = chars tyListParse := by rw [← tyPair_kw]; exact tyPair_ne_list
    simp [printTy, parseTy, tyPair_kw, hne, h1, h2, h3, h4]
  | _ =>
    intro f rest hf
    simp [printTy] at hf
    obtain ⟨g, rfl⟩ : ∃ g, f = g + 1 := ⟨f - 1, by omega⟩
    first
      | exact parseTy_atom .bool g rest | exact parseTy_atom .integer g rest
      | exact parseTy_atom .string g rest | exact parseTy_atom .bytestring g rest
      | exact parseTy_atom .unit g rest | exact parseTy_atom .data g rest
      | exact parseTy_atom .g1 g rest | exact parseTy_atom .g2 g rest | exact parseTy_atom .ml g rest

-- ------------------------------------------------------------------ data
theorem dataKindOfWord_kw : ∀ k : DataKind, dataKindOfWord (kwData k) = some k := by
  intro k; cases k <;> decide

theorem parseComma_sep (l : List Token) (h : NoLeadWs l) : parseComma (sepTokens ++ l) = some l := by
  have := skipWs_of_noLeadWs h []
  simp at this
  simp [parseComma, sepTokens, this]

@[simp] theorem parseComma_rbrack (r : List Token) : parseComma (.rbrack :: r) = none := rfl
@[simp] theorem parseComma_rpar (r : List Token) : parseComma (.rpar :: r) = none := rfl

/-- the items after the first one, each preceded by `", "` -/
def printDataTail : List Data → List Token
  | [] => []
  | d :: ds => sepTokens ++ printData d ++ printDataTail ds

theorem printDataList_cons (d : Data) (ds : List Data) :
    printDataList (d :: ds) = printData d ++ printDataTail ds := by
  induction ds generalizing d with
  | nil => simp [printDataList, printDataTail]
  | cons e es ih => simp [printDataList, printDataTail, ih e]

def printPair (e : Data × Data) : List Token :=
  [.lpar] ++ printData e.1 ++ sepTokens ++ printData e.2 ++ [.rpar]

def printPairsTail : List (Data × Data) → List Token
  | [] => []
  | e :: es => sepTokens ++ printPair e ++ printPairsTail es

theorem printDataPairs_cons (e : Data × Data) (es : List (Data × Data)) :
    printDataPairs (e :: es) = printPair e ++ printPairsTail es := by
  induction es generalizing e with
  | nil => obtain ⟨k, v⟩ := e; simp [printDataPairs, printPairsTail, printPair]
  | cons e' es ih =>
    obtain ⟨k, v⟩ := e
    simp [printDataPairs, printPairsTail, printPair, ih e']

theorem printData_noLeadWs (d : Data) : NoLeadWs (printData d) := by
  cases d <;> (simp only [printData, List.cons_append, List.nil_append]; exact ⟨_, _, rfl, by simp⟩)

theorem printData_length (d : Data) : 3 ≤ (printData d).length := by
  cases d <;> simp [printData] <;> omega

theorem printPair_length (e : Data × Data) : 9 ≤ (printPair e).length := by
  have := printData_length e.1; have := printData_length e.2
  simp [printPair, sepTokens]; omega

theorem parseData_rbrack (f : Nat) (r : List Token) : parseData f (.rbrack :: r) = none := by
  cases f <;> simp [parseData]

theorem parseDataPair_rbrack (f : Nat) (r : List Token) : parseDataPair f (.rbrack :: r) = none := by
  cases f <;> simp [parseDataPair]

theorem parseDataBracket_nil (f : Nat) (rest : List Token) :
    parseDataBracket (f + 1) (.lbrack :: .rbrack :: rest) = some ([], rest) := by
  simp [parseDataBracket, parseData_rbrack]

theorem parsePairsBracket_nil (f : Nat) (rest : List Token) :
    parsePairsBracket (f + 1) (.lbrack :: .rbrack :: rest) = some ([], rest) := by
  simp [parsePairsBracket, parseDataPair_rbrack]

theorem parseDataBracket_of (d : Data) (ds : List Data) (f : Nat) (rest : List Token)
    (hd : ∀ r, parseData f (printData d ++ r) = some (d, r))
    (hm : parseDataMore f (printDataTail ds ++ .rbrack :: rest) = some (ds, .rbrack :: rest)) :
    parseDataBracket (f + 1) (.lbrack :: (printDataList (d :: ds) ++ .rbrack :: rest)) = some (d :: ds, rest) := by
  rw [printDataList_cons]
  have h1 := skipWs_of_noLeadWs (printData_noLeadWs d) (printDataTail ds ++ .rbrack :: rest)
  simp only [List.append_assoc] at h1 ⊢
  simp [parseDataBracket, h1, hd, hm]

theorem parseDataMore_of (d : Data) (ds : List Data) (f : Nat) (rest : List Token)
    (hd : ∀ r, parseData f (printData d ++ r) = some (d, r))
    (hm : parseDataMore f (printDataTail ds ++ .rbrack :: rest) = some (ds, .rbrack :: rest)) :
    parseDataMore (f + 1) (printDataTail (d :: ds) ++ .rbrack :: rest) = some (d :: ds, .rbrack :: rest) := by
  have h1 := parseComma_sep (printData d ++ (printDataTail ds ++ .rbrack :: rest)) ((printData_noLeadWs d).append _)
  simp only [printDataTail, List.append_assoc] at h1 ⊢
  simp [parseDataMore, h1, hd, hm]

theorem parseDataPair_of (k v : Data) (f : Nat) (rest : List Token)
    (hk : ∀ r, parseData f (printData k ++ r) = some (k, r))
    (hv : ∀ r, parseData f (printData v ++ r) = some (v, r)) :
    parseDataPair (f + 1) (printPair (k, v) ++ rest) = some ((k, v), rest) := by
  have h1 := skipWs_of_noLeadWs (printData_noLeadWs k) (sepTokens ++ (printData v ++ .rpar :: rest))
  have h2 := parseComma_sep (printData v ++ .rpar :: rest) ((printData_noLeadWs v).append _)
  simp only [printPair, List.append_assoc, List.cons_append, List.nil_append] at h1 ⊢
  simp [parseDataPair, h1, hk, h2, hv]

theorem printPair_noLeadWs (e : Data × Data) : NoLeadWs (printPair e) :=
  ⟨.lpar, printData e.1 ++ sepTokens ++ printData e.2 ++ [.rpar], by simp [printPair], by simp⟩

theorem parsePairsBracket_of (e : Data × Data) (es : List (Data × Data)) (f : Nat) (rest : List Token)
    (hd : ∀ r, parseDataPair f (printPair e ++ r) = some (e, r))
    (hm : parsePairsMore f (printPairsTail es ++ .rbrack :: rest) = some (es, .rbrack :: rest)) :
    parsePairsBracket (f + 1) (.lbrack :: (printDataPairs (e :: es) ++ .rbrack :: rest)) = some (e :: es, rest) := by
  rw [printDataPairs_cons]
  have h1 := skipWs_of_noLeadWs (printPair_noLeadWs e) (printPairsTail es ++ .rbrack :: rest)
  simp only [List.append_assoc] at h1 ⊢
  simp [parsePairsBracket, h1, hd, hm]

theorem parsePairsMore_of (e : Data × Data) (es : List (Data × Data)) (f : Nat) (rest : List Token)
    (hd : ∀ r, parseDataPair f (printPair e ++ r) = some (e, r))
    (hm : parsePairsMore f (printPairsTail es ++ .rbrack :: rest) = some (es, .rbrack :: rest)) :
    parsePairsMore (f + 1) (printPairsTail (e :: es) ++ .rbrack :: rest) = some (e :: es, .rbrack :: rest) := by
  have h1 := parseComma_sep (printPair e ++ (printPairsTail es ++ .rbrack :: rest)) ((printPair_noLeadWs e).append _)
  simp only [printPairsTail, List.append_assoc] at h1 ⊢
  simp [parsePairsMore, h1, hd, hm]

mutual
  /-- `data_text_roundtrip` (with the rest of the input and explicit fuel) -/
  theorem parseData_print : (d : Data) → ∀ (f : Nat) (rest : List Token), dataOk d = true →
      (printData d).length ≤ f → parseData f (printData d ++ rest) = some (d, rest)
    | .constr tag fs => by
      intro f rest hok hf
      simp [dataOk] at hok
      simp [printData] at hf
      obtain ⟨g, rfl⟩ : ∃ g, f = g + 1 := ⟨f - 1, by omega⟩
      have hb := parseDataBracket_print fs g rest hok.2 (by omega)
      simp [printData, parseData, dataKindOfWord_kw, parseDecimal_natChars tag hok.1, hb]
    | .map es => by
      intro f rest hok hf
      simp [dataOk] at hok
      simp [printData] at hf
      obtain ⟨g, rfl⟩ : ∃ g, f = g + 1 := ⟨f - 1, by omega⟩
      have hb := parsePairsBracket_print es g rest hok (by omega)
      simp [printData, parseData, dataKindOfWord_kw, hb]
    | .list xs => by
      intro f rest hok hf
      simp [dataOk] at hok
      simp [printData] at hf
      obtain ⟨g, rfl⟩ : ∃ g, f = g + 1 := ⟨f - 1, by omega⟩
      have hb := parseDataBracket_print xs g rest hok (by omega)
      simp [printData, parseData, dataKindOfWord_kw, hb]
    | .int n => by
      intro f rest _ hf
      simp [printData] at hf
      obtain ⟨g, rfl⟩ : ∃ g, f = g + 1 := ⟨f - 1, by omega⟩
      simp [printData, parseData, dataKindOfWord_kw, parseBigNumber_intChars]
    | .bytes b => by
      intro f rest _ hf
      simp [printData] at hf
      obtain ⟨g, rfl⟩ : ∃ g, f = g + 1 := ⟨f - 1, by omega⟩
      simp [printData, parseData, dataKindOfWord_kw, hexDecode_hexChars]
  theorem parseDataBracket_print : (ds : List Data) → ∀ (f : Nat) (rest : List Token), dataListOk ds = true →
      (printDataList ds).length + 2 ≤ f →
      parseDataBracket f (.lbrack :: (printDataList ds ++ .rbrack :: rest)) = some (ds, rest)
    | [] => by
      intro f rest _ hf
      obtain ⟨g, rfl⟩ : ∃ g, f = g + 1 := ⟨f - 1, by omega⟩
      simpa [printDataList] using parseDataBracket_nil g rest
    | d :: ds => by
      intro f rest hok hf
      simp [dataListOk] at hok
      obtain ⟨g, rfl⟩ : ∃ g, f = g + 1 := ⟨f - 1, by omega⟩
      rw [printDataList_cons] at hf
      have := printData_length d
      simp at hf
      exact parseDataBracket_of d ds g rest
        (fun r => parseData_print d g r hok.1 (by omega))
        (parseDataMore_print ds g rest hok.2 (by omega))
  theorem parseDataMore_print : (ds : List Data) → ∀ (f : Nat) (rest : List Token), dataListOk ds = true →
      (printDataTail ds).length + 1 ≤ f →
      parseDataMore f (printDataTail ds ++ .rbrack :: rest) = some (ds, .rbrack :: rest)
    | [] => by
      intro f rest _ hf
      obtain ⟨g, rfl⟩ : ∃ g, f = g + 1 := ⟨f - 1, by omega⟩
      simp [printDataTail, parseDataMore]
    | d :: ds => by
      intro f rest hok hf
      simp [dataListOk] at hok
      obtain ⟨g, rfl⟩ : ∃ g, f = g + 1 := ⟨f - 1, by omega⟩
      simp [printDataTail, sepTokens] at hf
      exact parseDataMore_of d ds g rest
        (fun r => parseData_print d g r hok.1 (by omega))
        (parseDataMore_print ds g rest hok.2 (by omega))
  theorem parsePairsBracket_print : (es : List (Data × Data)) → ∀ (f : Nat) (rest : List Token),
      dataPairsOk es = true → (printDataPairs es).length + 2 ≤ f →
      parsePairsBracket f (.lbrack :: (printDataPairs es ++ .rbrack :: rest)) = some (es, rest)
    | [] => by
      intro f rest _ hf
      obtain ⟨g, rfl⟩ : ∃ g, f = g + 1 := ⟨f - 1, by omega⟩
      simpa [printDataPairs] using parsePairsBracket_nil g rest
    | (k, v) :: es => by
      intro f rest hok hf
      simp [dataPairsOk] at hok
      obtain ⟨g, rfl⟩ : ∃ g, f = g + 1 := ⟨f - 1, by omega⟩
      rw [printDataPairs_cons] at hf
      have := printData_length k; have := printData_length v
      simp [printPair, sepTokens] at hf
      obtain ⟨g', rfl⟩ : ∃ g', g = g' + 1 := ⟨g - 1, by omega⟩
      exact parsePairsBracket_of (k, v) es (g' + 1) rest
        (fun r => parseDataPair_of k v g' r
          (fun r => parseData_print k g' r hok.1.1 (by omega))
          (fun r => parseData_print v g' r hok.1.2 (by omega)))
        (parsePairsMore_print es (g' + 1) rest hok.2 (by omega))
  theorem parsePairsMore_print : (es : List (Data × Data)) → ∀ (f : Nat) (rest : List Token),
      dataPairsOk es = true → (printPairsTail es).length + 1 ≤ f →
      parsePairsMore f (printPairsTail es ++ .rbrack :: rest) = some (es, .rbrack :: rest)
    | [] => by
      intro f rest _ hf
      obtain ⟨g, rfl⟩ : ∃ g, f = g + 1 := ⟨f - 1, by omega⟩
      simp [printPairsTail, parsePairsMore]
    | (k, v) :: es => by
      intro f rest hok hf
      simp [dataPairsOk] at hok
      obtain ⟨g, rfl⟩ : ∃ g, f = g + 1 := ⟨f - 1, by omega⟩
      have := printData_length k; have := printData_length v
      simp [printPairsTail, printPair, sepTokens] at hf
      obtain ⟨g', rfl⟩ : ∃ g', g = g' + 1 := ⟨g - 1, by omega⟩
      exact parsePairsMore_of (k, v) es (g' + 1) rest
        (fun r => parseDataPair_of k v g' r
          (fun r => parseData_print k g' r hok.1.1 (by omega))
          (fun r => parseData_print v g' r hok.1.2 (by omega)))
        (parsePairsMore_print es (g' + 1) rest hok.2 (by omega))
end

-- ------------------------------------------------------------------ constants inside lists / pairs
theorem boolOfWord_boolWord : ∀ b : Bool, boolOfWord (boolWord b) = some b := by
  intro b; cases b <;> decide

theorem boolOfWord_none_of_head (c : Char) (cs : List Char) (h1 : c ≠ 'T') (h2 : c ≠ 'F') :
    boolOfWord (c :: cs) = none := by
  have e1 : ('T' == c) = false := by simpa using fun e => h1 e.symm
  have e2 : ('F' == c) = false := by simpa using fun e => h2 e.symm
  simp [boolOfWord, boolParseArms, chars, List.find?, e1, e2]

theorem dataKindOfWord_none_of_head (c : Char) (cs : List Char)
    (h : c ≠ 'C' ∧ c ≠ 'M' ∧ c ≠ 'L' ∧ c ≠ 'I' ∧ c ≠ 'B') : dataKindOfWord (c :: cs) = none := by
  obtain ⟨h1, h2, h3, h4, h5⟩ := h
  have e1 : ('C' == c) = false := by simpa using fun e => h1 e.symm
  have e2 : ('M' == c) = false := by simpa using fun e => h2 e.symm
  have e3 : ('L' == c) = false := by simpa using fun e => h3 e.symm
  have e4 : ('I' == c) = false := by simpa using fun e => h4 e.symm
  have e5 : ('B' == c) = false := by simpa using fun e => h5 e.symm
  simp [dataKindOfWord, dataParseArms, chars, List.find?, e1, e2, e3, e4, e5]

theorem boolOfWord_intChars (n : Int) : boolOfWord (intChars n) = none := by
  obtain ⟨c, cs, hc, hd⟩ := intChars_head n
  rw [hc]
  apply boolOfWord_none_of_head
  · rintro rfl; rcases hd with hd | hd <;> revert hd <;> decide
  · rintro rfl; rcases hd with hd | hd <;> revert hd <;> decide

theorem boolOfWord_kwData : ∀ k : DataKind, boolOfWord (kwData k) = none := by
  intro k; cases k <;> decide

theorem parseBigNumber_kwData : ∀ k : DataKind, parseBigNumber (kwData k) = none := by
  intro k; cases k <;> decide

theorem boolOfWord_blsWord (b : Bytes) : boolOfWord (blsWord b) = none :=
  boolOfWord_none_of_head _ _ (by decide) (by decide)

theorem dataKindOfWord_blsWord (b : Bytes) : dataKindOfWord (blsWord b) = none :=
  dataKindOfWord_none_of_head _ _ (by decide)

theorem parseBigNumber_blsWord (b : Bytes) : parseBigNumber (blsWord b) = none := by
  simp [parseBigNumber, blsWord, isNumberWord, allDigits, isDigit]

def printElemsTail : List Const → List Token
  | [] => []
  | c :: cs => sepTokens ++ printElem c ++ printElemsTail cs

theorem printElems_cons (c : Const) (cs : List Const) :
    printElems (c :: cs) = printElem c ++ printElemsTail cs := by
  induction cs generalizing c with
  | nil => simp [printElems, printElemsTail]
  | cons e es ih => simp [printElems, printElemsTail, ih e]

theorem printElem_noLeadWs (t : Ty) (c : Const) (h : constOk t c = true) : NoLeadWs (printElem c) := by
  cases c with
  | data d =>
    simp only [printElem]; exact printData_noLeadWs d
  | ml b => cases t <;> simp [constOk] at h
  | _ => simp only [printElem, List.cons_append, List.nil_append]; exact ⟨_, _, rfl, by simp⟩

theorem printElem_length (t : Ty) (c : Const) (h : constOk t c = true) : 1 ≤ (printElem c).length := by
  obtain ⟨tk, r, e, -⟩ := printElem_noLeadWs t c h
  rw [e]; simp

theorem parseElem_rbrack (f : Nat) (t : Ty) (r : List Token) : parseElem f t (.rbrack :: r) = none := by
  cases f <;> simp [parseElem]

theorem parseElemBracket_nil (f : Nat) (t : Ty) (rest : List Token) :
    parseElemBracket (f + 1) t (.lbrack :: .rbrack :: rest) = some ([], rest) := by
  simp [parseElemBracket, parseElem_rbrack]

theorem parseElemBracket_of (t : Ty) (c : Const) (cs : List Const) (f : Nat) (rest : List Token)
    (hn : NoLeadWs (printElem c))
    (hd : ∀ r, parseElem f t (printElem c ++ r) = some (c, r))
    (hm : parseElemMore f t (printElemsTail cs ++ .rbrack :: rest) = some (cs, .rbrack :: rest)) :
    parseElemBracket (f + 1) t (.lbrack :: (printElems (c :: cs) ++ .rbrack :: rest)) = some (c :: cs, rest) := by
  rw [printElems_cons]
  have h1 := skipWs_of_noLeadWs hn (printElemsTail cs ++ .rbrack :: rest)
  simp only [List.append_assoc] at h1 ⊢
  simp [parseElemBracket, h1, hd, hm]

theorem parseElemMore_of (t : Ty) (c : Const) (cs : List Const) (f : Nat) (rest : List Token)
    (hn : NoLeadWs (printElem c))
    (hd : ∀ r, parseElem f t (printElem c ++ r) = some (c, r))
    (hm : parseElemMore f t (printElemsTail cs ++ .rbrack :: rest) = some (cs, .rbrack :: rest)) :
    parseElemMore (f + 1) t (printElemsTail (c :: cs) ++ .rbrack :: rest) = some (c :: cs, .rbrack :: rest) := by
  have h1 := parseComma_sep (printElem c ++ (printElemsTail cs ++ .rbrack :: rest)) (hn.append _)
  simp only [printElemsTail, List.append_assoc] at h1 ⊢
  simp [parseElemMore, h1, hd, hm]

theorem parseElemPair_of (a b : Ty) (x y : Const) (f : Nat) (rest : List Token)
    (hnx : NoLeadWs (printElem x)) (hny : NoLeadWs (printElem y))
    (hx : ∀ r, parseElem f a (printElem x ++ r) = some (x, r))
    (hy : ∀ r, parseElem f b (printElem y ++ r) = some (y, r)) :
    parseElemPair (f + 1) a b (.lpar :: (printElem x ++ sepTokens ++ printElem y ++ .rpar :: rest)) = some ((x, y), rest) := by
  have h1 := skipWs_of_noLeadWs hnx (sepTokens ++ (printElem y ++ .rpar :: rest))
  have h2 := parseComma_sep (printElem y ++ .rpar :: rest) (hny.append _)
  simp only [List.append_assoc] at h1 ⊢
  simp [parseElemPair, h1, hx, h2, hy]

mutual
  /-- a constant printed without its type (inside a list or pair) is read back given the type -/
  theorem parseElem_print : (c : Const) → ∀ (t : Ty) (f : Nat) (rest : List Token), constOk t c = true →
      (printElem c).length ≤ f → parseElem f t (printElem c ++ rest) = some (c, rest)
    | .integer n => by
      intro t f rest hok hf
      cases t <;> simp [constOk] at hok
      simp [printElem] at hf
      obtain ⟨g, rfl⟩ : ∃ g, f = g + 1 := ⟨f - 1, by omega⟩
      simp [printElem, parseElem, boolOfWord_intChars, parseBigNumber_intChars]
    | .bytestring b => by
      intro t f rest hok hf
      cases t <;> simp [constOk] at hok
      simp [printElem] at hf
      obtain ⟨g, rfl⟩ : ∃ g, f = g + 1 := ⟨f - 1, by omega⟩
      simp [printElem, parseElem, hexDecode_hexChars]
    | .string s => by
      intro t f rest hok hf
      cases t <;> simp [constOk] at hok
      simp [printElem] at hf
      obtain ⟨g, rfl⟩ : ∃ g, f = g + 1 := ⟨f - 1, by omega⟩
      simp [printElem, parseElem, unescape_escape]
    | .unit => by
      intro t f rest hok hf
      cases t <;> simp [constOk] at hok
      simp [printElem] at hf
      obtain ⟨g, rfl⟩ : ∃ g, f = g + 1 := ⟨f - 1, by omega⟩
      simp [printElem, parseElem]
    | .bool b => by
      intro t f rest hok hf
      cases t <;> simp [constOk] at hok
      simp [printElem] at hf
      obtain ⟨g, rfl⟩ : ∃ g, f = g + 1 := ⟨f - 1, by omega⟩
      simp [printElem, parseElem, boolOfWord_boolWord]
    | .data d => by
      intro t f rest hok hf
      cases t <;> simp [constOk] at hok
      simp only [printElem] at hf ⊢
      have hl := printData_length d
      obtain ⟨g, rfl⟩ : ∃ g, f = g + 1 := ⟨f - 1, by omega⟩
      have hd := parseData_print d (g + 1) rest hok hf
      cases d <;>
        simp [printData] at hd ⊢ <;>
        simp [parseElem, boolOfWord_kwData, parseBigNumber_kwData, dataKindOfWord_kw, hd]
    | .g1 b => by
      intro t f rest hok hf
      cases t <;> simp [constOk] at hok
      simp [printElem] at hf
      obtain ⟨g, rfl⟩ : ∃ g, f = g + 1 := ⟨f - 1, by omega⟩
      simp [printElem, parseElem, boolOfWord_blsWord, parseBigNumber_blsWord, dataKindOfWord_blsWord,
        parseBlsWord_blsWord, hok]
    | .g2 b => by
      intro t f rest hok hf
      cases t <;> simp [constOk] at hok
      simp [printElem] at hf
      obtain ⟨g, rfl⟩ : ∃ g, f = g + 1 := ⟨f - 1, by omega⟩
      simp [printElem, parseElem, boolOfWord_blsWord, parseBigNumber_blsWord, dataKindOfWord_blsWord,
        parseBlsWord_blsWord, hok]
    | .ml b => by
      intro t f rest hok
      cases t <;> simp [constOk] at hok
    | .list t' xs => by
      intro t f rest hok hf
      cases t <;> simp [constOk] at hok
      obtain ⟨rfl, hxs⟩ := hok
      simp [printElem] at hf
      obtain ⟨g, rfl⟩ : ∃ g, f = g + 1 := ⟨f - 1, by omega⟩
      have hb := parseElemBracket_print xs _ g rest hxs (by omega)
      simp only [printElem, List.cons_append, List.nil_append, List.append_assoc]
      simp [parseElem, hb]
    | .pair a' b' x y => by
      intro t f rest hok hf
      cases t <;> simp [constOk] at hok
      obtain ⟨⟨⟨rfl, rfl⟩, hx⟩, hy⟩ := hok
      simp [printElem, sepTokens] at hf
      obtain ⟨g, rfl⟩ : ∃ g, f = g + 1 := ⟨f - 1, by omega⟩
      obtain ⟨g', rfl⟩ : ∃ g', g = g' + 1 := ⟨g - 1, by omega⟩
      have hp := parseElemPair_of _ _ x y g' rest (printElem_noLeadWs _ x hx) (printElem_noLeadWs _ y hy)
        (fun r => parseElem_print x _ g' r hx (by omega))
        (fun r => parseElem_print y _ g' r hy (by omega))
      simp only [printElem, List.cons_append, List.nil_append, List.append_assoc] at hp ⊢
      simp [parseElem, hp]
  theorem parseElemBracket_print : (xs : List Const) → ∀ (t : Ty) (f : Nat) (rest : List Token),
      constsOk t xs = true → (printElems xs).length + 1 ≤ f →
      parseElemBracket f t (.lbrack :: (printElems xs ++ .rbrack :: rest)) = some (xs, rest)
    | [] => by
      intro t f rest _ hf
      obtain ⟨g, rfl⟩ : ∃ g, f = g + 1 := ⟨f - 1, by omega⟩
      simpa [printElems] using parseElemBracket_nil g t rest
    | c :: cs => by
      intro t f rest hok hf
      simp [constsOk] at hok
      obtain ⟨g, rfl⟩ : ∃ g, f = g + 1 := ⟨f - 1, by omega⟩
      rw [printElems_cons] at hf
      have := printElem_length t c hok.1
      simp at hf
      exact parseElemBracket_of t c cs g rest (printElem_noLeadWs t c hok.1)
        (fun r => parseElem_print c t g r hok.1 (by omega))
        (parseElemMore_print cs t g rest hok.2 (by omega))
  theorem parseElemMore_print : (xs : List Const) → ∀ (t : Ty) (f : Nat) (rest : List Token),
      constsOk t xs = true → (printElemsTail xs).length + 1 ≤ f →
      parseElemMore f t (printElemsTail xs ++ .rbrack :: rest) = some (xs, .rbrack :: rest)
    | [] => by
      intro t f rest _ hf
      obtain ⟨g, rfl⟩ : ∃ g, f = g + 1 := ⟨f - 1, by omega⟩
      simp [printElemsTail, parseElemMore]
    | c :: cs => by
      intro t f rest hok hf
      simp [constsOk] at hok
      obtain ⟨g, rfl⟩ : ∃ g, f = g + 1 := ⟨f - 1, by omega⟩
      simp [printElemsTail, sepTokens] at hf
      exact parseElemMore_of t c cs g rest (printElem_noLeadWs t c hok.1)
        (fun r => parseElem_print c t g r hok.1 (by omega))
        (parseElemMore_print cs t g rest hok.2 (by omega))
end

-- ------------------------------------------------------------------ constants after `con`
theorem conKindOfWord_kw : ∀ k : ConKind, conKindOfWord (kwCon k) = some k := by
  intro k; cases k <;> decide

theorem parseTy_ws (f : Nat) (l : List Token) : parseTy f (.ws :: l) = parseTy f l := by
  cases f <;> simp [parseTy]

/-- `const_text_roundtrip` (with the rest of the input and explicit fuel): all constant types and nestings -/
theorem parseConst_print (c : Const) (f : Nat) (rest : List Token) (hok : constOk c.ty c = true)
    (hf : (printConst c).length ≤ f) : parseConst f (printConst c ++ rest) = some (c, rest) := by
  cases c with
  | integer n => simp [printConst, parseConst, conKindOfWord_kw, parseBigNumber_intChars]
  | bytestring b => simp [printConst, parseConst, conKindOfWord_kw, hexDecode_hexChars]
  | string s => simp [printConst, parseConst, conKindOfWord_kw, unescape_escape]
  | unit => simp [printConst, parseConst, conKindOfWord_kw]
  | bool b => simp [printConst, parseConst, conKindOfWord_kw, boolOfWord_boolWord]
  | data d =>
    simp [Const.ty, constOk] at hok
    simp [printConst] at hf
    have h1 := skipWs_of_noLeadWs (printData_noLeadWs d) (.rpar :: rest)
    have h2 := parseData_print d f (.rpar :: rest) hok (by omega)
    simp [printConst, parseConst, conKindOfWord_kw, h1, h2]
  | g1 b =>
    simp [Const.ty, constOk] at hok
    simp [printConst, parseConst, conKindOfWord_kw, parseBlsWord_blsWord, hok]
  | g2 b =>
    simp [Const.ty, constOk] at hok
    simp [printConst, parseConst, conKindOfWord_kw, parseBlsWord_blsWord, hok]
  | ml b => simp [Const.ty, constOk] at hok
  | list t xs =>
    simp [Const.ty, constOk] at hok
    simp [printConst] at hf
    have h1 := parseTy_printTy t f (.rpar :: .ws :: .lbrack :: (printElems xs ++ .rbrack :: rest)) (by omega)
    have h2 := parseElemBracket_print xs t f rest hok (by omega)
    simp [printConst, parseConst, conKindOfWord_kw, parseTy_ws, h1, h2]
  | pair a b x y =>
    simp [Const.ty, constOk] at hok
    simp [printConst, sepTokens] at hf
    obtain ⟨g, rfl⟩ : ∃ g, f = g + 1 := ⟨f - 1, by omega⟩
    have h0 := skipWs_of_noLeadWs (printTy_noLeadWs a)
      (.ws :: (printTy b ++ .rpar :: .ws :: .lpar :: (printElem x ++ sepTokens ++ printElem y ++ .rpar :: rest)))
    have h1 := parseTy_printTy a (g + 1)
      (.ws :: (printTy b ++ .rpar :: .ws :: .lpar :: (printElem x ++ sepTokens ++ printElem y ++ .rpar :: rest))) (by omega)
    have h2 := parseTy_printTy b (g + 1)
      (.rpar :: .ws :: .lpar :: (printElem x ++ sepTokens ++ printElem y ++ .rpar :: rest)) (by omega)
    have h3 := parseElemPair_of a b x y g rest (printElem_noLeadWs a x hok.1) (printElem_noLeadWs b y hok.2)
      (fun r => parseElem_print x a g r hok.1 (by omega))
      (fun r => parseElem_print y b g r hok.2 (by omega))
    have h0b := skipWs_of_noLeadWs (printTy_noLeadWs b)
      (.rpar :: .ws :: .lpar :: (printElem x ++ sepTokens ++ printElem y ++ .rpar :: rest))
    simp only [List.append_assoc] at h0 h0b h1 h2 h3
    simp [printConst, parseConst, conKindOfWord_kw, h0, h0b, h1, h2, h3]

theorem printConst_noLeadWs (c : Const) (hok : constOk c.ty c = true) : NoLeadWs (printConst c) := by
  cases c with
  | ml b => simp [Const.ty, constOk] at hok
  | _ => simp only [printConst, List.cons_append, List.nil_append]; exact ⟨_, _, rfl, by simp⟩

end AikenVerif.Text
