import AikenVerif.Model.Flat
/-!
Helper lemmas for C20 over M-FLAT, part 2: the decoder never runs out of fuel —
every loop iteration and every nested call consumes at least one bit, and the
fuel handed out at the top is the number of bits + 1.  Both modes.  No Mathlib.

`ProgAt d k s`: run on state `s`, decoder `d` does not answer `fuel`, and if it
succeeds it has consumed at least `k` bits.
-/
namespace AikenVerif.Flat
open AikenVerif.Gen (Builtin)
open AikenVerif.Gen.FlatTags

def ProgAt {α : Type} (d : Dec α) (k : Nat) (s : S) : Prop :=
  d s ≠ .fuel ∧ ∀ v s', d s = .ok (v, s') → s'.bs.length + k ≤ s.bs.length

def Prog {α : Type} (d : Dec α) (k : Nat) : Prop := ∀ s, ProgAt d k s

theorem ProgAt.mono {α : Type} {d : Dec α} {k k' : Nat} {s : S} (h : ProgAt d k s) (hk : k' ≤ k) :
    ProgAt d k' s :=
  ⟨h.1, fun v s' e => by have := h.2 v s' e; omega⟩

/-- sequential composition: the continuation runs on a state that is shorter by `k` -/
theorem ProgAt.bind {α β : Type} {d : Dec α} {f : α → Dec β} {k : Nat} {s : S}
    (h₁ : ProgAt d k s) (h₂ : ∀ v s', s'.bs.length + k ≤ s.bs.length → ProgAt (f v) 0 s') :
    ProgAt (d.bind f) k s := by
  unfold ProgAt Dec.bind
  cases h : d s with
  | ok r =>
    obtain ⟨v, s'⟩ := r
    have a := h₁.2 v s' h
    have b := h₂ v s' a
    refine ⟨b.1, ?_⟩
    intro w s'' hw
    have := b.2 w s'' hw
    omega
  | err => exact ⟨by simp, by simp⟩
  | panic => exact ⟨by simp, by simp⟩
  | fuel => exact absurd h h₁.1

theorem ProgAt.pure {α : Type} (v : α) (s : S) : ProgAt (Dec.pure v) 0 s :=
  ⟨by simp [Dec.pure], by intro w s' h; simp [Dec.pure] at h; rw [h.2]; omega⟩

theorem ProgAt.fail {α : Type} (k : Nat) (s : S) : ProgAt (Dec.fail : Dec α) k s :=
  ⟨by simp [Dec.fail], by simp [Dec.fail]⟩

theorem ProgAt.panic {α : Type} (k : Nat) (s : S) : ProgAt (Dec.panic : Dec α) k s :=
  ⟨by simp [Dec.panic], by simp [Dec.panic]⟩

theorem ProgAt.bind_pure {α β : Type} {d : Dec α} {k : Nat} {s : S} (g : α → β) (h : ProgAt d k s) :
    ProgAt (d.bind fun x => Dec.pure (g x)) k s :=
  h.bind (fun v s' _ => ProgAt.pure _ s')

theorem prog_bits (k : Nat) : Prog (decBits k) k := by
  intro s
  unfold ProgAt decBits
  split
  · exact ⟨by simp, by simp⟩
  · refine ⟨by simp, ?_⟩
    intro v s' h
    simp only [Res.ok.injEq, Prod.mk.injEq] at h
    rw [← h.2]; simp only [List.length_drop]; omega

theorem prog_bit : Prog decBit 1 := by
  intro s
  unfold ProgAt decBit
  split
  · exact ⟨by simp, by simp⟩
  · rename_i b r hs
    refine ⟨by simp, ?_⟩
    intro v s' h
    simp only [Res.ok.injEq, Prod.mk.injEq] at h
    rw [← h.2, hs]; simp

theorem prog_bool (m : Mode) : Prog (decBool m) 1 := by
  intro s
  unfold ProgAt decBool
  split
  · cases m <;> exact ⟨by simp, by simp⟩
  · rename_i b r hs
    refine ⟨by simp, ?_⟩
    intro v s' h
    simp only [Res.ok.injEq, Prod.mk.injEq] at h
    rw [← h.2, hs]; simp

theorem prog_fillerBits : ∀ (bs : Bits) (n : Nat),
    decFillerBits n bs ≠ .fuel ∧ ∀ v s', decFillerBits n bs = .ok (v, s') → s'.bs.length + 1 ≤ bs.length
  | [], n => ⟨by simp [decFillerBits], by simp [decFillerBits]⟩
  | true :: r, n => ⟨by simp [decFillerBits], by
      intro v s' h
      simp only [decFillerBits, Res.ok.injEq, Prod.mk.injEq] at h
      rw [← h.2]; simp⟩
  | false :: r, n => by
    have ih := prog_fillerBits r (n + 1)
    simp only [decFillerBits]
    exact ⟨ih.1, fun v s' h => by have := ih.2 v s' h; simp only [List.length_cons]; omega⟩

theorem prog_filler : Prog decFiller 1 := fun s => prog_fillerBits s.bs s.n

theorem prog_wordGo (m : Mode) : ∀ (f i acc : Nat), f + i = 11 → i ≤ 10 → Prog (decWordGo m f i acc) 8
  | 0, i, acc, h, hi => by omega
  | f + 1, i, acc, h, hi => by
    intro s
    unfold decWordGo
    apply (prog_bits 8 s).bind
    intro w8 s' _
    simp only
    split
    · cases m
      · exact ProgAt.panic _ _
      · exact ProgAt.fail _ _
    · rename_i hlt
      split
      · exact ProgAt.fail _ _
      · split
        · exact ProgAt.pure _ _
        · have : i ≤ 9 := by simp only [usizeBits] at hlt; omega
          exact (prog_wordGo m f (i + 1) _ (by omega) (by omega) s').mono (by omega)

theorem prog_word (m : Mode) : Prog (decWord m) 8 := prog_wordGo m 11 0 0 rfl (by omega)

theorem prog_int64 (m : Mode) : Prog (decInt64 m) 8 := fun s => (prog_word m s).bind_pure _

theorem prog_bigWordGo : ∀ (f : Nat) (s : S), s.bs.length < 8 * f → ProgAt (decBigWordGo f) 8 s
  | 0, s, h => by omega
  | f + 1, s, h => by
    unfold decBigWordGo
    apply (prog_bits 8 s).bind
    intro w8 s' hs'
    split
    · exact ProgAt.pure _ _
    · exact ((prog_bigWordGo f s' (by omega)).mono (Nat.zero_le _)).bind_pure _

theorem prog_bigWord : Prog decBigWord 8 := fun s => prog_bigWordGo _ s (by omega)

theorem prog_bigInt : Prog decBigInt 8 := fun s => (prog_bigWord s).bind_pure _

theorem prog_blocksGo : ∀ (f : Nat) (s : S), s.bs.length < 8 * f → ProgAt (decBlocksGo f) 8 s
  | 0, s, h => by omega
  | f + 1, s, h => by
    unfold decBlocksGo
    apply (prog_bits 8 s).bind
    intro len s1 hs1
    unfold ProgAt
    simp only
    split
    · exact ⟨by simp, by intro v s' e; simp only [Res.ok.injEq, Prod.mk.injEq] at e; rw [e.2]; omega⟩
    · split
      · exact ⟨by simp, by simp⟩
      · have ih := prog_blocksGo f ⟨s1.n + 8 * len, s1.bs.drop (8 * len)⟩
          (by simp only [List.length_drop]; omega)
        cases hr : decBlocksGo f ⟨s1.n + 8 * len, s1.bs.drop (8 * len)⟩ with
        | ok r =>
          obtain ⟨more, s2⟩ := r
          have := ih.2 more s2 hr
          simp only [List.length_drop] at this
          refine ⟨by simp, ?_⟩
          intro v s' e
          simp only [Res.ok.injEq, Prod.mk.injEq] at e
          rw [← e.2]; omega
        | err => exact ⟨by simp, by simp⟩
        | panic => exact ⟨by simp, by simp⟩
        | fuel => exact absurd hr ih.1

theorem prog_bytes : Prog decBytes 1 := by
  intro s
  unfold decBytes
  apply (prog_filler s).bind
  intro _ s1 _
  unfold ProgAt
  simp only
  split
  · exact ⟨by simp, by simp⟩
  · exact (prog_blocksGo _ s1 (by omega)).mono (Nat.zero_le _)

theorem prog_utf8 : Prog decUtf8 1 := by
  intro s
  unfold decUtf8
  apply (prog_bytes s).bind
  intro b s1 _
  split
  · exact ProgAt.pure _ _
  · exact ProgAt.fail _ _

/-- `decode_list_with`: with more fuel than bits, the loop stops by itself -/
theorem prog_list {α : Type} {d : Dec α} : ∀ (k : Nat) (s : S), s.bs.length < k →
    (∀ s₂ : S, s₂.bs.length ≤ s.bs.length → ProgAt d 0 s₂) → ProgAt (decList d k) 1 s
  | 0, s, h, _ => by omega
  | k + 1, s, h, hd => by
    unfold decList
    apply (prog_bit s).bind
    intro b s1 hs1
    split
    · apply (hd s1 (by omega)).bind
      intro x s2 hs2
      apply ((prog_list k s2 (by omega) (fun s3 h3 => hd s3 (by omega))).mono (Nat.zero_le _)).bind
      intro xs s3 _
      exact ProgAt.pure _ _
    · exact ProgAt.pure _ _

theorem prog_tagList : Prog decTagList 1 := fun s =>
  prog_list (s.bs.length + 1) s (by omega) (fun s2 _ => (prog_bits _ s2).mono (Nat.zero_le _))

-- ------------------------------------------------------------------ type tags
theorem stripPrefix_length : ∀ (p xs r : List Nat), stripPrefix p xs = some r → r.length + p.length = xs.length
  | [], xs, r, h => by simp [stripPrefix] at h; subst h; simp
  | _ :: _, [], r, h => by simp [stripPrefix] at h
  | p :: ps, x :: xs, r, h => by
    simp only [stripPrefix] at h
    split at h
    · have := stripPrefix_length ps xs r h; simp only [List.length_cons]; omega
    · cases h

theorem matchTypeArm_length : ∀ (arms : List (List Nat × TyCtor)) (tags : List Nat) (c : TyCtor) (r : List Nat),
    (∀ a ∈ arms, a.1 ≠ []) → matchTypeArm arms tags = some (c, r) → r.length < tags.length
  | [], _, _, _, _, h => by simp [matchTypeArm] at h
  | (p, c') :: arms, tags, c, r, hne, h => by
    simp only [matchTypeArm] at h
    split at h
    · rename_i r' hs
      simp only [Option.some.injEq, Prod.mk.injEq] at h
      have := stripPrefix_length p tags r' hs
      have hp : p ≠ [] := hne (p, c') (List.mem_cons_self ..)
      have : 0 < p.length := List.length_pos_iff.mpr hp
      rw [← h.2]; omega
    · exact matchTypeArm_length arms tags c r (fun a ha => hne a (List.mem_cons_of_mem _ ha)) h

theorem typeDecArms_nonempty : ∀ a ∈ typeDecArms, a.1 ≠ [] := by decide

theorem prog_decTy : ∀ (f : Nat) (tags : List Nat), tags.length < f →
    decTy f tags ≠ .fuel ∧ ∀ t r, decTy f tags = .ok (t, r) → r.length < tags.length
  | 0, tags, h => by omega
  | f + 1, tags, h => by
    unfold decTy
    split
    · exact ⟨by simp, by simp⟩
    all_goals
      rename_i r hm
      have hr := matchTypeArm_length typeDecArms tags _ r typeDecArms_nonempty hm
    iterate 9
      exact ⟨by simp, by intro t r' e; simp only [Res.ok.injEq, Prod.mk.injEq] at e; rw [← e.2]; exact hr⟩
    · have ih := prog_decTy f r (by omega)
      cases h1 : decTy f r with
      | ok v =>
        obtain ⟨t, r'⟩ := v
        have := ih.2 t r' h1
        exact ⟨by simp, by intro t r'' e; simp only [Res.ok.injEq, Prod.mk.injEq] at e; rw [← e.2]; omega⟩
      | err => exact ⟨by simp, by simp⟩
      | panic => exact ⟨by simp, by simp⟩
      | fuel => exact absurd h1 ih.1
    · have ih := prog_decTy f r (by omega)
      cases h1 : decTy f r with
      | ok v =>
        obtain ⟨a, r'⟩ := v
        have ha := ih.2 a r' h1
        have ih2 := prog_decTy f r' (by omega)
        simp only
        cases h2 : decTy f r' with
        | ok v =>
          obtain ⟨b, r''⟩ := v
          have := ih2.2 b r'' h2
          exact ⟨by simp, by intro t r3 e; simp only [Res.ok.injEq, Prod.mk.injEq] at e; rw [← e.2]; omega⟩
        | err => exact ⟨by simp, by simp⟩
        | panic => exact ⟨by simp, by simp⟩
        | fuel => exact absurd h2 ih2.1
      | err => exact ⟨by simp, by simp⟩
      | panic => exact ⟨by simp, by simp⟩
      | fuel => exact absurd h1 ih.1

theorem decConstTy_ne_fuel (tags : List Nat) : decConstTy tags ≠ .fuel := by
  unfold decConstTy
  split <;> try simp
  · rename_i r _
    have := (prog_decTy (r.length + 1) r (by omega)).1
    cases h : decTy (r.length + 1) r with
    | ok v => simp
    | err => simp
    | panic => simp
    | fuel => exact absurd h this
  · rename_i r _
    have h1 := (prog_decTy (r.length + 1) r (by omega)).1
    cases h : decTy (r.length + 1) r with
    | ok v =>
      obtain ⟨a, r'⟩ := v
      have h2 := (prog_decTy (r'.length + 1) r' (by omega)).1
      simp only
      cases h' : decTy (r'.length + 1) r' with
      | ok v => simp
      | err => simp
      | panic => simp
      | fuel => exact absurd h' h2
    | err => simp
    | panic => simp
    | fuel => exact absurd h h1

-- ------------------------------------------------------------------ constants
theorem prog_val (cd : DataCodec) (m : Mode) : ∀ t : Ty, Prog (decVal cd m t) 0
  | .integer => fun s => ((prog_bigInt s).mono (Nat.zero_le _)).bind_pure _
  | .bytestring => fun s => ((prog_bytes s).mono (Nat.zero_le _)).bind_pure _
  | .string => fun s => ((prog_utf8 s).mono (Nat.zero_le _)).bind_pure _
  | .unit => fun s => ProgAt.pure _ s
  | .bool => fun s => ((prog_bool m s).mono (Nat.zero_le _)).bind_pure _
  | .list t => by
    intro s
    have ih := prog_val cd m t
    have hl := prog_list (d := decVal cd m t) (s.bs.length + 1) s (by omega) (fun s2 _ => ih s2)
    have := (hl.mono (Nat.zero_le _)).bind_pure (Const.list t)
    simp only [decVal]
    exact this
  | .pair a b => by
    intro s
    simp only [decVal]
    apply (prog_val cd m a s).bind
    intro x s1 _
    exact (prog_val cd m b s1).bind_pure _
  | .data => by
    intro s
    simp only [decVal]
    apply ((prog_bytes s).mono (Nat.zero_le _)).bind
    intro b s1 _
    split
    · exact ProgAt.pure _ _
    · exact ProgAt.fail _ _
  | .g1 => fun s => ((prog_bytes s).mono (Nat.zero_le _)).bind (fun _ s1 _ => ProgAt.fail _ s1)
  | .g2 => fun s => ((prog_bytes s).mono (Nat.zero_le _)).bind (fun _ s1 _ => ProgAt.fail _ s1)
  | .ml => fun s => ProgAt.fail _ s

theorem prog_const (cd : DataCodec) (m : Mode) : Prog (decConst cd m) 1 := by
  intro s
  unfold decConst
  apply (prog_tagList s).bind
  intro tags s1 _
  have := decConstTy_ne_fuel tags
  cases h : decConstTy tags with
  | ok t => exact prog_val cd m t s1
  | err => exact ProgAt.fail _ _
  | panic => exact ProgAt.panic _ _
  | fuel => exact absurd h this

theorem prog_builtin : Prog decBuiltin 7 := by
  intro s
  unfold decBuiltin
  apply (prog_bits _ s).bind
  intro t s1 _
  split
  · exact ProgAt.pure _ _
  · exact ProgAt.fail _ _

-- ------------------------------------------------------------------ binders, terms, programs
class ProgFlatBinder (β : Type) [FlatBinder β] : Prop where
  prog_var : ∀ m : Mode, Prog (FlatBinder.decVar (β := β) m) 0
  prog_binder : ∀ m : Mode, Prog (FlatBinder.decBinder (β := β) m) 0

instance : ProgFlatBinder DeBruijn where
  prog_var m := fun s => (prog_word m s).mono (Nat.zero_le _)
  prog_binder _ := fun s => ProgAt.pure _ s

theorem prog_namedDeBruijn (m : Mode) : Prog (decNamedDeBruijn m) 0 := fun s =>
  ((prog_utf8 s).mono (Nat.zero_le _)).bind (fun _ s1 _ => ((prog_word m s1).mono (Nat.zero_le _)).bind_pure _)

instance : ProgFlatBinder NamedDeBruijn where
  prog_var := prog_namedDeBruijn
  prog_binder := prog_namedDeBruijn

theorem prog_name (m : Mode) : Prog (decName m) 0 := fun s =>
  ((prog_utf8 s).mono (Nat.zero_le _)).bind (fun _ s1 _ => ((prog_int64 m s1).mono (Nat.zero_le _)).bind_pure _)

instance : ProgFlatBinder Name where
  prog_var := prog_name
  prog_binder := prog_name

section
variable {β : Type} [FlatBinder β] [ProgFlatBinder β]

/-- with more fuel than remaining bits the term decoder stops by itself, and a
decoded term has consumed at least its 4-bit tag -/
theorem prog_term (cd : DataCodec) (m : Mode) : ∀ (f : Nat) (s : S), s.bs.length < f →
    ProgAt (decTerm (β := β) cd m f) 4 s
  | 0, s, h => by omega
  | f + 1, s, h => by
    have ih : ∀ s₂ : S, s₂.bs.length < f → ProgAt (decTerm (β := β) cd m f) 0 s₂ :=
      fun s₂ h₂ => (prog_term cd m f s₂ h₂).mono (Nat.zero_le _)
    unfold decTerm
    have hb : ProgAt (decBits termTagWidth) 4 s := prog_bits _ s
    apply hb.bind
    intro tag s1 hs1
    have h1 : s1.bs.length < f := by omega
    split
    · exact ProgAt.fail _ _
    · exact (ProgFlatBinder.prog_var m s1).bind_pure _
    · exact (ih s1 h1).bind_pure _
    · exact (ProgFlatBinder.prog_binder m s1).bind (fun _ s2 h2 => (ih s2 (by omega)).bind_pure _)
    · exact (ih s1 h1).bind (fun _ s2 h2 => (ih s2 (by omega)).bind_pure _)
    · exact ((prog_const cd m s1).mono (Nat.zero_le _)).bind_pure _
    · exact (ih s1 h1).bind_pure _
    · exact ProgAt.pure _ _
    · exact ((prog_builtin s1).mono (Nat.zero_le _)).bind_pure _
    · exact ((prog_word m s1).mono (Nat.zero_le _)).bind (fun _ s2 h2 =>
        ((prog_list f s2 (by omega) (fun s3 h3 => ih s3 (by omega))).mono (Nat.zero_le _)).bind_pure _)
    · exact (ih s1 h1).bind (fun _ s2 h2 =>
        ((prog_list f s2 (by omega) (fun s3 h3 => ih s3 (by omega))).mono (Nat.zero_le _)).bind_pure _)

/-- version triple (3 × 8 bits at least), term (4), filler (1) -/
theorem prog_program (cd : DataCodec) (m : Mode) : Prog (decProgram (β := β) cd m) 29 := by
  intro s
  unfold ProgAt decProgram
  have key : ProgAt ((decWord m).bind fun a => (decWord m).bind fun b => (decWord m).bind fun c =>
      (decTerm (β := β) cd m (s.bs.length + 1)).bind fun t => decFiller.bind fun _ =>
        Dec.pure (⟨(a, b, c), t⟩ : Program β)) 29 s := by
    unfold ProgAt Dec.bind
    have w1 := prog_word m s
    cases e1 : decWord m s with
    | ok r1 =>
      obtain ⟨a, s1⟩ := r1
      have l1 := w1.2 a s1 e1
      have w2 := prog_word m s1
      simp only
      cases e2 : decWord m s1 with
      | ok r2 =>
        obtain ⟨b, s2⟩ := r2
        have l2 := w2.2 b s2 e2
        have w3 := prog_word m s2
        simp only
        cases e3 : decWord m s2 with
        | ok r3 =>
          obtain ⟨c, s3⟩ := r3
          have l3 := w3.2 c s3 e3
          have wt := prog_term (β := β) cd m (s.bs.length + 1) s3 (by omega)
          simp only
          cases e4 : decTerm (β := β) cd m (s.bs.length + 1) s3 with
          | ok r4 =>
            obtain ⟨t, s4⟩ := r4
            have l4 := wt.2 t s4 e4
            have wf := prog_filler s4
            simp only
            cases e5 : decFiller s4 with
            | ok r5 =>
              obtain ⟨u, s5⟩ := r5
              have l5 := wf.2 u s5 e5
              simp only [Dec.pure]
              exact ⟨by simp, by intro v s' e; simp only [Res.ok.injEq, Prod.mk.injEq] at e; rw [← e.2]; omega⟩
            | err => exact ⟨by simp, by simp⟩
            | panic => exact ⟨by simp, by simp⟩
            | fuel => exact absurd e5 wf.1
          | err => exact ⟨by simp, by simp⟩
          | panic => exact ⟨by simp, by simp⟩
          | fuel => exact absurd e4 wt.1
        | err => exact ⟨by simp, by simp⟩
        | panic => exact ⟨by simp, by simp⟩
        | fuel => exact absurd e3 w3.1
      | err => exact ⟨by simp, by simp⟩
      | panic => exact ⟨by simp, by simp⟩
      | fuel => exact absurd e2 w2.1
    | err => exact ⟨by simp, by simp⟩
    | panic => exact ⟨by simp, by simp⟩
    | fuel => exact absurd e1 w1.1
  exact key

end

end AikenVerif.Flat
