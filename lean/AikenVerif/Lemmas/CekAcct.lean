import AikenVerif.Lemmas.CekBasic
/-! The accounting layer never fails or panics: it either succeeds (keeping the counter array's
shape), runs out of budget, or is outside the installed cost model. -/
namespace AikenVerif
open Gen

/-- shape invariant of `Machine::unbudgeted_steps` -/
def AcctWF (a : Acct) : Prop := a.counts.length = Gen.unbudgetedLen

/-- outcomes the accounting layer can produce -/
def Benign {α} (P : α → Prop) : Outcome α → Prop
  | .ok a => P a
  | .oob => True
  | .unmodelled => True
  | .fail => False
  | .panic => False

theorem ofTag_some : ∀ i, i < 9 → ∃ k, StepKind.ofTag i = some k := by
  intro i hi
  have : i = 0 ∨ i = 1 ∨ i = 2 ∨ i = 3 ∨ i = 4 ∨ i = 5 ∨ i = 6 ∨ i = 7 ∨ i = 8 := by omega
  rcases this with h | h | h | h | h | h | h | h | h <;> subst h <;> exact ⟨_, rfl⟩

theorem tag_lt (k : StepKind) (h : k ≠ .startUp) : k.tag < 9 := by
  cases k <;> first | (exact absurd rfl h) | decide

theorem spendBudget_benign (a : Acct) (c : ExBudget) :
    Benign (fun a' => a'.counts = a.counts) (spendBudget a c) := by
  unfold spendBudget
  simp only
  split <;> simp [Benign]

theorem spendLoop_benign (cm : CostModel) : ∀ (n i : Nat) (a : Acct), n + i = 9 → a.counts.length = 10 →
    Benign (fun a' => a'.counts.length = 10) (spendLoop cm n i a) := by
  intro n
  induction n with
  | zero => intro i a _ h; simpa [spendLoop, Benign] using h
  | succ n ih =>
    intro i a hi hlen
    obtain ⟨k, hk⟩ := ofTag_some i (by omega)
    unfold spendLoop
    rw [hk]
    simp only
    cases hmc : cm.machineCost k with
    | none => simp [Benign]
    | some c =>
      simp only
      have hb := spendBudget_benign a ⟨c.mem * ((a.counts.getD i 0 : Nat) : Int), c.cpu * ((a.counts.getD i 0 : Nat) : Int)⟩
      revert hb
      cases spendBudget a ⟨c.mem * ((a.counts.getD i 0 : Nat) : Int), c.cpu * ((a.counts.getD i 0 : Nat) : Int)⟩ with
      | ok a' =>
        intro hb
        simp only [Benign] at hb
        simp only [Outcome.bind]
        apply ih
        · omega
        · simp [hb, hlen]
      | oob => intro _; simp [Outcome.bind, Benign]
      | unmodelled => intro _; simp [Outcome.bind, Benign]
      | fail => intro hb; exact absurd hb (by simp [Benign])
      | panic => intro hb; exact absurd hb (by simp [Benign])

theorem spendUnbudgeted_benign (cm : CostModel) (a : Acct) (h : AcctWF a) :
    Benign AcctWF (spendUnbudgeted cm a) := by
  unfold spendUnbudgeted
  have hl : a.counts.length = 10 := h
  have := spendLoop_benign cm (a.counts.length - 1) 0 a (by omega) hl
  revert this
  cases spendLoop cm (a.counts.length - 1) 0 a with
  | ok a' => intro hb; simp only [Benign] at hb; simp [Outcome.bind, Benign, AcctWF, hb, unbudgetedLen]
  | oob => intro _; simp [Outcome.bind, Benign]
  | unmodelled => intro _; simp [Outcome.bind, Benign]
  | fail => intro hb; exact absurd hb (by simp [Benign])
  | panic => intro hb; exact absurd hb (by simp [Benign])

theorem stepAndMaybeSpend_benign (cfg : Config) (a : Acct) (k : StepKind) (h : AcctWF a) :
    Benign AcctWF (stepAndMaybeSpend cfg a k) := by
  unfold stepAndMaybeSpend
  simp only
  split
  · apply spendUnbudgeted_benign
    simp [AcctWF] at *; exact h
  · simp [Benign, AcctWF] at *; exact h

theorem chargeStep_benign (cfg : Config) (a : Acct) (k : Option StepKind) (h : AcctWF a) :
    Benign AcctWF (chargeStep cfg a k) := by
  cases k with
  | none => simpa [chargeStep, Benign] using h
  | some k => exact stepAndMaybeSpend_benign cfg a k h

end AikenVerif
