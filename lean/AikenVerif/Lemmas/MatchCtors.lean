import AikenVerif.Lemmas.MatchBasic
import Batteries.Data.List.Perm
/-!
`collect_ctors` / `is_complete` (C07): the `BTreeMap` of seen constructor names, the count
comparison `num_seen == alts.len()`, and the "fresh head" lemma: when the first column is
not complete there is a well-typed value that no non-wildcard head pattern matches.
-/
namespace AikenVerif.Match

def keys (l : List (Nat × Alts)) : List Nat := l.map (·.1)

def headCtor : Row → Option (Nat × Alts)
  | .ctor c alts _ :: _ => some (c, alts)
  | _ => none

theorem ctorsStep_eq (acc : List (Nat × Alts)) (r : Row) :
    ctorsStep acc r = match headCtor r with | some (c, a) => ctorsInsert c a acc | none => acc := by
  unfold ctorsStep headCtor
  split <;> simp

theorem ctorsInsert_mem {k : Nat} {a : Alts} {l : List (Nat × Alts)} {kv : Nat × Alts}
    (h : kv ∈ ctorsInsert k a l) : kv = (k, a) ∨ kv ∈ l := by
  induction l with
  | nil => simp [ctorsInsert] at h; left; exact h
  | cons x xs ih =>
    obtain ⟨k', a'⟩ := x
    simp only [ctorsInsert] at h
    split at h
    · simp only [List.mem_cons] at h ⊢; exact h
    · split at h
      · simp only [List.mem_cons] at h ⊢
        rcases h with h | h
        · left; exact h
        · right; right; exact h
      · simp only [List.mem_cons] at h ⊢
        rcases h with h | h
        · right; left; exact h
        · rcases ih h with h | h
          · left; exact h
          · right; right; exact h

theorem ctorsInsert_keys {k : Nat} {a : Alts} {l : List (Nat × Alts)} (x : Nat) :
    x ∈ keys (ctorsInsert k a l) ↔ x = k ∨ x ∈ keys l := by
  induction l with
  | nil => simp [ctorsInsert, keys]
  | cons y ys ih =>
    obtain ⟨k', a'⟩ := y
    simp only [ctorsInsert]
    split
    · simp [keys]
    · split
      · rename_i e; subst e; simp [keys]
      · simp only [keys, List.map_cons, List.mem_cons] at ih ⊢
        rw [ih]
        constructor
        · rintro (h | h | h)
          · right; left; exact h
          · left; exact h
          · right; right; exact h
        · rintro (h | h | h)
          · right; left; exact h
          · left; exact h
          · right; right; exact h

theorem ctorsInsert_sorted {k : Nat} {a : Alts} {l : List (Nat × Alts)}
    (h : (keys l).Pairwise (· < ·)) : (keys (ctorsInsert k a l)).Pairwise (· < ·) := by
  induction l with
  | nil => simp [ctorsInsert, keys]
  | cons y ys ih =>
    obtain ⟨k', a'⟩ := y
    simp only [keys, List.map_cons, List.pairwise_cons] at h
    simp only [ctorsInsert]
    split
    · rename_i hlt
      simp only [keys, List.map_cons, List.pairwise_cons, List.mem_cons]
      refine ⟨?_, h.1, h.2⟩
      rintro x (hx | hx)
      · subst hx; exact hlt
      · exact Nat.lt_trans hlt (h.1 x hx)
    · split
      · rename_i e; subst e
        simp only [keys, List.map_cons, List.pairwise_cons]
        exact h
      · rename_i h1 h2
        have ih' := ih h.2
        simp only [keys, List.map_cons, List.pairwise_cons]
        refine ⟨?_, ih'⟩
        intro x hx
        have := (ctorsInsert_keys (k := k) (a := a) (l := ys) x).mp hx
        rcases this with e | e
        · subst e; omega
        · exact h.1 x e

/-- invariant of the `collect_ctors` fold -/
theorem collectCtors_foldl (M : Matrix) (acc : List (Nat × Alts)) (hs : (keys acc).Pairwise (· < ·)) :
    (keys (M.foldl ctorsStep acc)).Pairwise (· < ·) ∧
    (∀ x, x ∈ keys (M.foldl ctorsStep acc) ↔ x ∈ keys acc ∨ ∃ r ∈ M, ∃ a, headCtor r = some (x, a)) ∧
    (∀ kv, kv ∈ M.foldl ctorsStep acc → kv ∈ acc ∨ ∃ r ∈ M, headCtor r = some kv) := by
  induction M generalizing acc with
  | nil => simp [hs]
  | cons r M ih =>
    simp only [List.foldl_cons]
    rw [ctorsStep_eq]
    cases hr : headCtor r with
    | none =>
      simp only
      obtain ⟨h1, h2, h3⟩ := ih acc hs
      refine ⟨h1, ?_, ?_⟩
      · intro x; rw [h2 x]
        constructor
        · rintro (h | ⟨r', hr', a, e⟩)
          · left; exact h
          · right; exact ⟨r', List.mem_cons_of_mem _ hr', a, e⟩
        · rintro (h | ⟨r', hr', a, e⟩)
          · left; exact h
          · simp only [List.mem_cons] at hr'
            rcases hr' with e' | hr'
            · subst e'; rw [hr] at e; cases e
            · right; exact ⟨r', hr', a, e⟩
      · intro kv hkv
        rcases h3 kv hkv with h | ⟨r', hr', e⟩
        · left; exact h
        · right; exact ⟨r', List.mem_cons_of_mem _ hr', e⟩
    | some ca =>
      obtain ⟨c, a⟩ := ca
      simp only
      obtain ⟨h1, h2, h3⟩ := ih (ctorsInsert c a acc) (ctorsInsert_sorted hs)
      refine ⟨h1, ?_, ?_⟩
      · intro x; rw [h2 x, ctorsInsert_keys]
        constructor
        · rintro ((h | h) | ⟨r', hr', a', e⟩)
          · right; exact ⟨r, List.mem_cons_self, a, by rw [hr, h]⟩
          · left; exact h
          · right; exact ⟨r', List.mem_cons_of_mem _ hr', a', e⟩
        · rintro (h | ⟨r', hr', a', e⟩)
          · left; right; exact h
          · simp only [List.mem_cons] at hr'
            rcases hr' with e' | hr'
            · subst e'; rw [hr] at e; cases e; left; left; rfl
            · right; exact ⟨r', hr', a', e⟩
      · intro kv hkv
        rcases h3 kv hkv with h | ⟨r', hr', e⟩
        · rcases ctorsInsert_mem h with h | h
          · right; exact ⟨r, List.mem_cons_self, by rw [hr, h]⟩
          · left; exact h
        · right; exact ⟨r', List.mem_cons_of_mem _ hr', e⟩

theorem collectCtors_sorted (M : Matrix) : (keys (collectCtors M)).Pairwise (· < ·) :=
  (collectCtors_foldl M [] (by simp [keys])).1

theorem collectCtors_keys (M : Matrix) (x : Nat) :
    x ∈ keys (collectCtors M) ↔ ∃ r ∈ M, ∃ a, headCtor r = some (x, a) := by
  have := (collectCtors_foldl M [] (by simp [keys])).2.1 x
  simpa [keys, collectCtors] using this

theorem collectCtors_mem (M : Matrix) {kv : Nat × Alts} (h : kv ∈ collectCtors M) :
    ∃ r ∈ M, headCtor r = some kv := by
  have := (collectCtors_foldl M [] (by simp [keys])).2.2 kv h
  simpa [collectCtors] using this

theorem headCtor_some {r : Row} {c : Nat} {a : Alts} (h : headCtor r = some (c, a)) :
    ∃ args rest, r = .ctor c a args :: rest := by
  match r, h with
  | .ctor c' a' args :: rest, h => simp only [headCtor] at h; cases h; exact ⟨args, rest, rfl⟩

/-- every entry of the map comes from a typed constructor head of the first column -/
theorem collectCtors_typed {sg : Sig} {M : Matrix} {t0 : Ty} {ts : List Ty}
    (hM : Matrix.hasTy sg M (t0 :: ts) = true) {k : Nat} {a : Alts} (h : (k, a) ∈ collectCtors M) :
    ∃ t d tys, t0 = .data t ∧ sg[t]? = some d ∧ a = declAlts d ∧ lookupCtor k d = some tys := by
  obtain ⟨r, hr, e⟩ := collectCtors_mem M h
  obtain ⟨args, rest, e'⟩ := headCtor_some e
  subst e'
  have := Matrix.hasTy_mem hM hr
  simp only [Pat.hasTyL, Bool.and_eq_true] at this
  obtain ⟨t, d, tys, e1, hd, ha, hl, _⟩ := Pat.hasTy_ctor this.1
  exact ⟨t, d, tys, e1, hd, ha, hl⟩

theorem lookupCtor_name_mem {c : Nat} {d : Decl} {tys : List Ty} (h : lookupCtor c d = some tys) :
    c ∈ d.map (·.1) := List.mem_map.mpr ⟨_, lookupCtor_mem h, rfl⟩

theorem mem_name_lookup {c : Nat} {d : Decl} (h : c ∈ d.map (·.1)) : ∃ tys, lookupCtor c d = some tys := by
  induction d with
  | nil => simp at h
  | cons x d ih =>
    obtain ⟨c', tys'⟩ := x
    simp only [lookupCtor]
    split
    · exact ⟨_, rfl⟩
    · rename_i hne
      simp only [List.map_cons, List.mem_cons] at h
      rcases h with h | h
      · exact absurd h.symm hne
      · exact ih h

/-- counting: if fewer (distinct) constructors were seen than the type declares, one is unseen -/
theorem exists_unseen {sg : Sig} {M : Matrix} {t : Nat} {ts : List Ty} {d : Decl}
    (hM : Matrix.hasTy sg M (.data t :: ts) = true) (hd : sg[t]? = some d)
    (hdn : (d.map (·.1)).Nodup) (hne : (collectCtors M).length ≠ d.length) :
    ∃ c tys, lookupCtor c d = some tys ∧ c ∉ keys (collectCtors M) := by
  have hsub : keys (collectCtors M) ⊆ d.map (·.1) := by
    intro x hx
    simp only [keys, List.mem_map] at hx
    obtain ⟨⟨k, a⟩, hka, e⟩ := hx
    obtain ⟨t', d', tys, e1, hd', _, hl⟩ := collectCtors_typed hM hka
    cases e1
    rw [hd] at hd'; cases hd'
    subst e
    exact lookupCtor_name_mem hl
  have hnd : (keys (collectCtors M)).Nodup :=
    (collectCtors_sorted M).imp (fun h => Nat.ne_of_lt h)
  apply Classical.byContradiction
  intro hcon
  have hsup : d.map (·.1) ⊆ keys (collectCtors M) := by
    intro c hc
    apply Classical.byContradiction
    intro hnot
    obtain ⟨tys, hl⟩ := mem_name_lookup hc
    exact hcon ⟨c, tys, hl, hnot⟩
  have h1 := (List.subperm_of_subset hnd hsub).length_le
  simp only [keys, List.length_map] at h1
  have h2 := (List.subperm_of_subset hdn hsup).length_le
  simp only [keys, List.length_map] at h2
  omega

/-! ### signatures and inhabitants -/

theorem Sig.ok_get {sg : Sig} (hs : Sig.ok sg = true) {t : Nat} {d : Decl} (hd : sg[t]? = some d) :
    (d.map (·.1)).Nodup ∧ ∀ c tys, lookupCtor c d = some tys → ∀ ty ∈ tys, Ty.ok sg ty = true := by
  have hmem : d ∈ sg := List.mem_of_getElem? hd
  simp only [Sig.ok, List.all_eq_true, Bool.and_eq_true] at hs
  obtain ⟨h1, h2⟩ := hs d hmem
  refine ⟨(nodupNat_iff _).mp h1, ?_⟩
  intro c tys hl ty hty
  have := h2 (c, tys) (lookupCtor_mem hl)
  exact this ty hty

theorem witness_hasTy {sg : Sig} {inh : List Val} (hi : inhOk sg inh = true) {t : Ty}
    (ht : Ty.ok sg t = true) : Val.hasTy sg (witness inh t) t = true := by
  cases t with
  | int => simp [witness, Val.hasTy]
  | bytes => simp [witness, Val.hasTy]
  | data t =>
    simp only [Ty.ok, decide_eq_true_eq] at ht
    simp only [inhOk, List.all_eq_true, List.mem_range] at hi
    exact hi t ht

theorem witnessL_hasTy {sg : Sig} {inh : List Val} (hi : inhOk sg inh = true) {ts : List Ty}
    (ht : ∀ t ∈ ts, Ty.ok sg t = true) : Val.hasTyL sg (ts.map (witness inh)) ts = true := by
  induction ts with
  | nil => simp [Val.hasTyL]
  | cons t ts ih =>
    simp only [List.map_cons, Val.hasTyL, Bool.and_eq_true]
    exact ⟨witness_hasTy hi (ht t List.mem_cons_self), ih (fun t' h' => ht t' (List.mem_cons_of_mem _ h'))⟩

/-! ### a fresh literal -/

def freshInt : Matrix → Int
  | [] => 0
  | (.lit (.int i) :: _) :: M => max (i + 1) (freshInt M)
  | _ :: M => freshInt M

theorem freshInt_gt {M : Matrix} {i : Int} {rest : Row} (h : (.lit (.int i) :: rest) ∈ M) :
    i < freshInt M := by
  induction M with
  | nil => simp at h
  | cons r M ih =>
    simp only [List.mem_cons] at h
    rcases h with h | h
    · subst h; simp only [freshInt]; omega
    · have := ih h
      unfold freshInt
      split
      · rename_i heq; cases heq
      · rename_i heq; cases heq; omega
      · rename_i heq; cases heq; exact this

def freshLen : Matrix → Nat
  | [] => 0
  | (.lit (.bytes b) :: _) :: M => max (b.length + 1) (freshLen M)
  | _ :: M => freshLen M

theorem freshLen_gt {M : Matrix} {b : List Nat} {rest : Row} (h : (.lit (.bytes b) :: rest) ∈ M) :
    b.length < freshLen M := by
  induction M with
  | nil => simp at h
  | cons r M ih =>
    simp only [List.mem_cons] at h
    rcases h with h | h
    · subst h; simp only [freshLen]; omega
    · have := ih h
      unfold freshLen
      split
      · rename_i heq; cases heq
      · rename_i heq; cases heq; omega
      · rename_i heq; cases heq; exact this

/-- **fresh head**: if the first column is not complete, some well-typed value is matched by
none of its constructor/literal patterns -/
theorem fresh_head {sg : Sig} {inh : List Val} {M : Matrix} {t0 : Ty} {ts : List Ty}
    (hs : Sig.ok sg = true) (hi : inhOk sg inh = true) (ht0 : Ty.ok sg t0 = true)
    (hM : Matrix.hasTy sg M (t0 :: ts) = true) (hc : isComplete M = none) :
    ∃ w, Val.hasTy sg w t0 = true ∧
      ∀ r ∈ M, ∀ p rest, r = p :: rest → p ≠ .wild → pmatch p w = false := by
  cases t0 with
  | int =>
    refine ⟨.lit (.int (freshInt M)), by simp [Val.hasTy], ?_⟩
    intro r hr p rest e hp
    subst e
    have hrt := Matrix.hasTy_mem hM hr
    simp only [Pat.hasTyL, Bool.and_eq_true] at hrt
    cases p with
    | wild => exact absurd rfl hp
    | ctor c a args => simp [Pat.hasTy] at hrt
    | lit l =>
      cases l with
      | bytes b => simp [Pat.hasTy] at hrt
      | int i =>
        have := freshInt_gt hr
        simp only [pmatch, decide_eq_false_iff_not]
        intro e; cases e; omega
  | bytes =>
    refine ⟨.lit (.bytes (List.replicate (freshLen M) 0)), by simp [Val.hasTy], ?_⟩
    intro r hr p rest e hp
    subst e
    have hrt := Matrix.hasTy_mem hM hr
    simp only [Pat.hasTyL, Bool.and_eq_true] at hrt
    cases p with
    | wild => exact absurd rfl hp
    | ctor c a args => simp [Pat.hasTy] at hrt
    | lit l =>
      cases l with
      | int i => simp [Pat.hasTy] at hrt
      | bytes b =>
        have := freshLen_gt hr
        simp only [pmatch, decide_eq_false_iff_not]
        intro e; cases e; simp at this
  | data t =>
    simp only [Ty.ok, decide_eq_true_eq] at ht0
    obtain ⟨d, hd⟩ : ∃ d, sg[t]? = some d := ⟨sg[t], by simp [ht0]⟩
    obtain ⟨hdn, hfields⟩ := Sig.ok_get hs hd
    -- heads that are not wildcards are constructors of `d` whose name is in the map
    have hhead : ∀ r ∈ M, ∀ p rest, r = p :: rest → p ≠ .wild →
        ∃ c a args, p = .ctor c a args ∧ c ∈ keys (collectCtors M) := by
      intro r hr p rest e hp
      subst e
      have hrt := Matrix.hasTy_mem hM hr
      simp only [Pat.hasTyL, Bool.and_eq_true] at hrt
      cases p with
      | wild => exact absurd rfl hp
      | lit l => cases l <;> simp [Pat.hasTy] at hrt
      | ctor c a args =>
        exact ⟨c, a, args, rfl, (collectCtors_keys M c).mpr ⟨_, hr, a, rfl⟩⟩
    unfold isComplete at hc
    split at hc
    · rename_i hnil
      refine ⟨witness inh (.data t), witness_hasTy hi (by simp [Ty.ok, ht0]), ?_⟩
      intro r hr p rest e hp
      obtain ⟨c, a, args, _, hk⟩ := hhead r hr p rest e hp
      rw [hnil] at hk; simp [keys] at hk
    · rename_i k alts rest hcons
      split at hc
      · cases hc
      · rename_i hne
        have hmem : (k, alts) ∈ collectCtors M := by rw [hcons]; simp
        obtain ⟨t', d', _, e1, hd', ha, _⟩ := collectCtors_typed hM hmem
        cases e1
        rw [hd] at hd'; cases hd'
        have hlen : (collectCtors M).length ≠ d.length := by
          rw [hcons]; simp only [List.length_cons]
          rw [ha] at hne; simpa [declAlts] using hne
        obtain ⟨c, tys, hl, hnot⟩ := exists_unseen hM hd hdn hlen
        refine ⟨.ctor c (tys.map (witness inh)),
          Val.hasTy_ctor_intro hd hl (witnessL_hasTy hi (hfields c tys hl)), ?_⟩
        intro r hr p rest' e hp
        obtain ⟨c', a, args, ep, hk⟩ := hhead r hr p rest' e hp
        subst ep
        have : c' ≠ c := by intro e; subst e; exact hnot hk
        simp [pmatch, this]

end AikenVerif.Match
