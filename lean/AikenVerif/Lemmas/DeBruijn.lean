import AikenVerif.Model.DeBruijn
/-!
Helper lemmas for C11: the `Converter` state reached under a list `env` of
enclosing binders is `st env c`; each primitive (`get_index`, `get_unique`,
`declare_*`, `remove_unique`, `start_scope`, `end_scope`) is computed on that
state; the conversions then coincide with the environment-passing spec.
-/
namespace AikenVerif.Db

-- ---------------------------------------------------------------- the abstract state
/-- the map left in a level by one `insert` -/
def single (u : Int) (l : Nat) : BiMap := ⟨[(u, l)], [(l, u)]⟩

/-- levels below the current one, innermost first: binder `k` (counted from the
outside) sits alone in level `k` -/
def envMaps : List Int → List BiMap
  | [] => []
  | u :: e => single u e.length :: envMaps e

/-- the converter under the binders `env` (innermost first) with `c` uniques handed out -/
def st (env : List Int) (c : Int) : Conv := ⟨env.length, BiMap.new :: envMaps env, c⟩

theorem conv_new : Conv.new = st [] 0 := rfl

@[simp] theorem envMaps_length (env : List Int) : (envMaps env).length = env.length := by
  induction env with
  | nil => rfl
  | cons u e ih => simp [envMaps, ih]

theorem new_insert (u : Int) (l : Nat) : BiMap.new.insert u l = single u l := rfl

theorem single_remove (u : Int) (l : Nat) : (single u l).remove u l = BiMap.new := by
  simp [single, BiMap.remove, hmRemove, BiMap.new]

-- ---------------------------------------------------------------- resolve
theorem resolve_bounds : ∀ (env : List Int) (u : Int) (i : Nat), resolve env u = some i → 1 ≤ i ∧ i ≤ env.length
  | [], _, _, h => by simp [resolve] at h
  | v :: env, u, i, h => by
    simp only [resolve] at h
    split at h
    · simp at h; subst h; simp
    · cases hr : resolve env u with
      | none => simp [hr] at h
      | some j =>
        simp [hr] at h
        have := resolve_bounds env u j hr
        subst h; simp; omega

theorem resolve_none_iff : ∀ (env : List Int) (u : Int), resolve env u = none ↔ u ∉ env
  | [], _ => by simp [resolve]
  | v :: env, u => by
    simp only [resolve]
    split
    · rename_i h; simp [h]
    · rename_i h
      have ih := resolve_none_iff env u
      simp [ih]
      intro h2; exact fun h3 => h h3.symm

/-- in a duplicate-free environment the `i`-th binder resolves to `i + 1` -/
theorem resolve_of_getElem : ∀ (env : List Int) (i : Nat) (u : Int),
    env.Nodup → env[i]? = some u → resolve env u = some (i + 1)
  | [], _, _, _, h => by simp at h
  | v :: env, 0, u, _, h => by simp at h; simp [resolve, h]
  | v :: env, i + 1, u, hn, h => by
    simp at h
    have hn' := List.nodup_cons.mp hn
    have hmem : u ∈ env := List.mem_of_getElem? h
    have hne : ¬ v = u := fun e => hn'.1 (e ▸ hmem)
    simp [resolve, hne, resolve_of_getElem env i u hn'.2 h]

-- ---------------------------------------------------------------- get_index
theorem scanLeft_envMaps : ∀ (env : List Int) (u : Int),
    scanLeft u (envMaps env) = (resolve env u).map (fun i => env.length - i)
  | [], _ => rfl
  | v :: env, u => by
    by_cases h : v = u
    · simp [envMaps, scanLeft, BiMap.get, single, hmGet, resolve, h]
    · simp only [envMaps, scanLeft, BiMap.get, single, hmGet, resolve, h, if_false]
      rw [scanLeft_envMaps env u]
      cases resolve env u <;> simp

theorem getIndex_st (env : List Int) (c : Int) (n : Name) :
    getIndex (st env c) n =
      match resolve env n.unique with
      | some i => .ok i
      | none => .error (.freeUnique n) := by
  simp only [getIndex, st, scanLeft, BiMap.get, BiMap.new, hmGet, scanLeft_envMaps]
  cases h : resolve env n.unique with
  | none => simp
  | some i =>
    have := resolve_bounds env n.unique i h
    simp
    omega

/-- the state between `declare_unique`/`declare_binder` and `start_scope` -/
def stDeclared (env : List Int) (u : Int) (c : Int) : Conv := ⟨env.length, single u env.length :: envMaps env, c⟩

theorem vecUpdate_top {α : Type} (f : α → α) (a : α) (l : List α) :
    vecUpdate f (a :: l) l.length = some (f a :: l) := by
  simp [vecUpdate]

theorem declareUnique_st (env : List Int) (c u : Int) :
    declareUnique (st env c) u = .ok (stDeclared env u c) := by
  have h := vecUpdate_top (fun b : BiMap => b.insert u env.length) BiMap.new (envMaps env)
  rw [envMaps_length] at h
  simp [declareUnique, st, stDeclared, h, new_insert]

theorem getIndex_declared (env : List Int) (c : Int) (n : Name) :
    getIndex (stDeclared env n.unique c) n = .ok 0 := by
  simp [getIndex, stDeclared, scanLeft, BiMap.get, single, hmGet]

theorem startScope_declared (env : List Int) (u c : Int) :
    startScope (stDeclared env u c) = st (u :: env) c := rfl

theorem endScope_st (env : List Int) (u c : Int) :
    endScope (st (u :: env) c) = .ok (stDeclared env u c) := by
  simp [endScope, st, stDeclared, envMaps]

theorem removeUnique_declared (env : List Int) (u c : Int) :
    removeUnique (stDeclared env u c) u = .ok (st env c) := by
  have h := vecUpdate_top (fun b : BiMap => b.remove u env.length) (single u env.length) (envMaps env)
  rw [envMaps_length] at h
  simp [removeUnique, st, stDeclared, h, single_remove]

-- ---------------------------------------------------------------- get_unique
theorem scanRight_envMaps (L i : Nat) (hi : i ≤ L) : ∀ (e : List Int), e.length ≤ L →
    scanRight L i (envMaps e) =
      if L - i < e.length then
        (match e[e.length - 1 - (L - i)]? with
          | some u => .ok u
          | none => .error (.freeIndex i))
      else .error (.freeIndex i)
  | [], _ => by simp [envMaps, scanRight]
  | v :: e, hl => by
    simp only [envMaps, scanRight, hi, if_true, BiMap.getRight, single, hmGet]
    simp only [List.length_cons] at hl ⊢
    by_cases h : e.length = L - i
    · have h1 : L - i < e.length + 1 := by omega
      simp [h]
    · simp only [h, if_false]
      rw [scanRight_envMaps L i hi e (by omega)]
      by_cases h3 : L - i < e.length
      · have h1 : L - i < e.length + 1 := by omega
        have h2 : e.length - (L - i) = (e.length - 1 - (L - i)) + 1 := by omega
        simp [h3, h1, h2]
      · have h1 : ¬ L - i < e.length + 1 := by omega
        simp [h3, h1]

theorem getUnique_st (env : List Int) (c : Int) (i : Nat) :
    getUnique (st env c) i =
      match i with
      | 0 => .error (.freeIndex 0)
      | j + 1 =>
        match env[j]? with
        | some u => .ok u
        | none => .error (.freeIndex (j + 1)) := by
  simp only [getUnique, st, scanRight, BiMap.getRight, BiMap.new, hmGet]
  by_cases hi : i ≤ env.length
  · simp only [hi, if_true]
    rw [scanRight_envMaps env.length i hi env (Nat.le_refl _)]
    cases i with
    | zero => simp
    | succ j =>
      have h1 : env.length - (j + 1) < env.length := by omega
      have h2 : env.length - 1 - (env.length - (j + 1)) = j := by omega
      simp [h1, h2]
  · simp only [hi, if_false]
    cases i with
    | zero => omega
    | succ j =>
      have : env[j]? = none := by simp; omega
      simp [this]

theorem declareBinder_st (env : List Int) (c : Int) :
    declareBinder (st env c) = .ok (stDeclared env c (c + 1), c) := by
  have h := vecUpdate_top (fun b : BiMap => b.insert c env.length) BiMap.new (envMaps env)
  rw [envMaps_length] at h
  simp [declareBinder, st, stDeclared, h, new_insert]

end AikenVerif.Db
