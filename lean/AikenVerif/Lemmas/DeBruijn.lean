import AikenVerif.Model.DeBruijn
/-!
Helper lemmas for C11: the `Converter` state reached under a list `env` of
enclosing binders is `st env c`; each primitive (`get_index`, `get_unique`,
`declare_*`, `remove_unique`, `start_scope`, `end_scope`) is computed on that
state; the conversions then coincide with the environment-passing spec.
-/
namespace AikenVerif.Db

-- ---------------------------------------------------------------- the abstract state
/-- the map left in a level by one `insert` -/
def single (u : Int) (l : Nat) : BiMap := ⟨[(u, l)], [(l, u)]⟩

/-- levels below the current one, innermost first: binder `k` (counted from the
outside) sits alone in level `k` -/
def envMaps : List Int → List BiMap
  | [] => []
  | u :: e => single u e.length :: envMaps e

/-- the converter under the binders `env` (innermost first) with `c` uniques handed out -/
def st (env : List Int) (c : Int) : Conv := ⟨env.length, BiMap.new :: envMaps env, c⟩

theorem conv_new : Conv.new = st [] 0 := rfl

@[simp] theorem envMaps_length (env : List Int) : (envMaps env).length = env.length := by
  induction env with
  | nil => rfl
  | cons u e ih => simp [envMaps, ih]

theorem new_insert (u : Int) (l : Nat) : BiMap.new.insert u l = single u l := rfl

theorem single_remove (u : Int) (l : Nat) : (single u l).remove u l = BiMap.new := by
  simp [single, BiMap.remove, hmRemove, BiMap.new]

-- ---------------------------------------------------------------- resolve
theorem resolve_bounds : ∀ (env : List Int) (u : Int) (i : Nat), resolve env u = some i → 1 ≤ i ∧ i ≤ env.length
  | [], _, _, h => by simp [resolve] at h
  | v :: env, u, i, h => by
    simp only [resolve] at h
    split at h
    · simp at h; subst h; simp
    · cases hr : resolve env u with
      | none => simp [hr] at h
      | some j =>
        simp [hr] at h
        have := resolve_bounds env u j hr
        subst h; simp; omega

theorem resolve_none_iff : ∀ (env : List Int) (u : Int), resolve env u = none ↔ u ∉ env
  | [], _ => by simp [resolve]
  | v :: env, u => by
    simp only [resolve]
    split
    · rename_i h; simp [h]
    · rename_i h
      have ih := resolve_none_iff env u
      simp [ih]
      intro h2; exact fun h3 => h h3.symm

/-- in a duplicate-free environment the `i`-th binder resolves to `i + 1` -/
theorem resolve_of_getElem : ∀ (env : List Int) (i : Nat) (u : Int),
    env.Nodup → env[i]? = some u → resolve env u = some (i + 1)
  | [], _, _, _, h => by simp at h
  | v :: env, 0, u, _, h => by simp at h; simp [resolve, h]
  | v :: env, i + 1, u, hn, h => by
    simp at h
    have hn' := List.nodup_cons.mp hn
    have hmem : u ∈ env := List.mem_of_getElem? h
    have hne : ¬ v = u := fun e => hn'.1 (e ▸ hmem)
    simp [resolve, hne, resolve_of_getElem env i u hn'.2 h]

-- ---------------------------------------------------------------- get_index
theorem scanLeft_envMaps : ∀ (env : List Int) (u : Int),
    scanLeft u (envMaps env) = (resolve env u).map (fun i => env.length - i)
  | [], _ => rfl
  | v :: env, u => by
    by_cases h : v = u
    · simp [envMaps, scanLeft, BiMap.get, single, hmGet, resolve, h]
    · simp only [envMaps, scanLeft, BiMap.get, single, hmGet, resolve, h, if_false]
      rw [scanLeft_envMaps env u]
      cases resolve env u <;> simp

theorem getIndex_st (env : List Int) (c : Int) (n : Name) :
    getIndex (st env c) n =
      match resolve env n.unique with
      | some i => .ok i
      | none => .error (.freeUnique n) := by
  simp only [getIndex, st, scanLeft, BiMap.get, BiMap.new, hmGet, scanLeft_envMaps]
  cases h : resolve env n.unique with
  | none => simp
  | some i =>
    have := resolve_bounds env n.unique i h
    simp
    omega

/-- the state between `declare_unique`/`declare_binder` and `start_scope` -/
def stDeclared (env : List Int) (u : Int) (c : Int) : Conv := ⟨env.length, single u env.length :: envMaps env, c⟩

theorem vecUpdate_top {α : Type} (f : α → α) (a : α) (l : List α) :
    vecUpdate f (a :: l) l.length = some (f a :: l) := by
  simp [vecUpdate]

theorem declareUnique_st (env : List Int) (c u : Int) :
    declareUnique (st env c) u = .ok (stDeclared env u c) := by
  have h := vecUpdate_top (fun b : BiMap => b.insert u env.length) BiMap.new (envMaps env)
  rw [envMaps_length] at h
  simp [declareUnique, st, stDeclared, h, new_insert]

theorem getIndex_declared (env : List Int) (c : Int) (n : Name) :
    getIndex (stDeclared env n.unique c) n = .ok 0 := by
  simp [getIndex, stDeclared, scanLeft, BiMap.get, single, hmGet]

theorem startScope_declared (env : List Int) (u c : Int) :
    startScope (stDeclared env u c) = st (u :: env) c := rfl

theorem endScope_st (env : List Int) (u c : Int) :
    endScope (st (u :: env) c) = .ok (stDeclared env u c) := by
  simp [endScope, st, stDeclared, envMaps]

theorem removeUnique_declared (env : List Int) (u c : Int) :
    removeUnique (stDeclared env u c) u = .ok (st env c) := by
  have h := vecUpdate_top (fun b : BiMap => b.remove u env.length) (single u env.length) (envMaps env)
  rw [envMaps_length] at h
  simp [removeUnique, st, stDeclared, h, single_remove]

-- ---------------------------------------------------------------- get_unique
theorem scanRight_envMaps (L i : Nat) (hi : i ≤ L) : ∀ (e : List Int), e.length ≤ L →
    scanRight L i (envMaps e) =
      if L - i < e.length then
        (match e[e.length - 1 - (L - i)]? with
          | some u => .ok u
          | none => .error (.freeIndex i))
      else .error (.freeIndex i)
  | [], _ => by simp [envMaps, scanRight]
  | v :: e, hl => by
    simp only [envMaps, scanRight, hi, if_true, BiMap.getRight, single, hmGet]
    simp only [List.length_cons] at hl ⊢
    by_cases h : e.length = L - i
    · have h1 : L - i < e.length + 1 := by omega
      simp [h]
    · simp only [h, if_false]
      rw [scanRight_envMaps L i hi e (by omega)]
      by_cases h3 : L - i < e.length
      · have h1 : L - i < e.length + 1 := by omega
        have h2 : e.length - (L - i) = (e.length - 1 - (L - i)) + 1 := by omega
        simp [h3, h1, h2]
      · have h1 : ¬ L - i < e.length + 1 := by omega
        simp [h3, h1]

theorem getUnique_st (env : List Int) (c : Int) (i : Nat) :
    getUnique (st env c) i =
      match i with
      | 0 => .error (.freeIndex 0)
      | j + 1 =>
        match env[j]? with
        | some u => .ok u
        | none => .error (.freeIndex (j + 1)) := by
  simp only [getUnique, st, scanRight, BiMap.getRight, BiMap.new, hmGet]
  by_cases hi : i ≤ env.length
  · simp only [hi, if_true]
    rw [scanRight_envMaps env.length i hi env (Nat.le_refl _)]
    cases i with
    | zero => simp
    | succ j =>
      have h1 : env.length - (j + 1) < env.length := by omega
      have h2 : env.length - 1 - (env.length - (j + 1)) = j := by omega
      simp [h1, h2]
  · simp only [hi, if_false]
    cases i with
    | zero => omega
    | succ j =>
      have : env[j]? = none := by simp; omega
      simp [this]

theorem declareBinder_st (env : List Int) (c : Int) :
    declareBinder (st env c) = .ok (stDeclared env c (c + 1), c) := by
  have h := vecUpdate_top (fun b : BiMap => b.insert c env.length) BiMap.new (envMaps env)
  rw [envMaps_length] at h
  simp [declareBinder, st, stDeclared, h, new_insert]

-- ---------------------------------------------------------------- name → index = spec
section
variable {β : Type} (mk : String → Nat → β)

theorem map_ok {α γ : Type} (f : α → γ) (a : α) : (Except.ok a : Except Err α).map f = .ok (f a) := rfl
theorem map_err {α γ : Type} (f : α → γ) (e : Err) : (Except.error e : Except Err α).map f = .error e := rfl

mutual
theorem nameTo_st : ∀ (t : Term Name) (env : List Int) (c : Int),
    nameTo mk t (st env c) = (specNameTo mk env t).map (fun r => (r, st env c))
  | .var n, env, c => by
    simp only [nameTo, specNameTo, getIndex_st]
    cases resolve env n.unique <;> rfl
  | .delay t, env, c => by
    simp only [nameTo, specNameTo, nameTo_st t env c]
    cases specNameTo mk env t <;> rfl
  | .force t, env, c => by
    simp only [nameTo, specNameTo, nameTo_st t env c]
    cases specNameTo mk env t <;> rfl
  | .lam n b, env, c => by
    simp only [nameTo, specNameTo, declareUnique_st, getIndex_declared, startScope_declared, bind, Except.bind,
      nameTo_st b (n.unique :: env) c]
    cases specNameTo mk (n.unique :: env) b with
    | error e => rfl
    | ok b' => simp [Except.map, endScope_st, removeUnique_declared, pure, Except.pure]
  | .app f a, env, c => by
    simp only [nameTo, specNameTo, bind, Except.bind, nameTo_st f env c]
    cases specNameTo mk env f with
    | error e => rfl
    | ok f' =>
      simp only [Except.map, nameTo_st a env c]
      cases specNameTo mk env a <;> rfl
  | .const _, _, _ => rfl
  | .error, _, _ => rfl
  | .builtin _, _, _ => rfl
  | .constr tag fs, env, c => by
    simp only [nameTo, specNameTo, nameToList_st fs env c]
    cases specNameToList mk env fs <;> rfl
  | .case s bs, env, c => by
    simp only [nameTo, specNameTo, bind, Except.bind, nameTo_st s env c]
    cases specNameTo mk env s with
    | error e => rfl
    | ok s' =>
      simp only [Except.map, nameToList_st bs env c]
      cases specNameToList mk env bs <;> rfl
theorem nameToList_st : ∀ (ts : List (Term Name)) (env : List Int) (c : Int),
    nameToList mk ts (st env c) = (specNameToList mk env ts).map (fun r => (r, st env c))
  | [], _, _ => rfl
  | t :: ts, env, c => by
    simp only [nameToList, specNameToList, bind, Except.bind, nameTo_st t env c]
    cases specNameTo mk env t with
    | error e => rfl
    | ok t' =>
      simp only [Except.map, nameToList_st ts env c]
      cases specNameToList mk env ts <;> rfl
end
end

-- ---------------------------------------------------------------- index → name (fixed) = spec
section
variable {β : Type} (idx : β → Nat) (txt : β → Int → String)

mutual
theorem toName_st : ∀ (t : Term β) (env : List Int) (c : Int),
    toName true idx txt t (st env c) = (specToName idx txt env c t).map (fun r => (r.1, st env r.2))
  | .var n, env, c => by
    simp only [toName, specToName, getUnique_st]
    cases idx n with
    | zero => rfl
    | succ j => simp only []; cases env[j]? <;> rfl
  | .delay t, env, c => by
    simp only [toName, specToName, toName_st t env c]
    cases specToName idx txt env c t <;> rfl
  | .force t, env, c => by
    simp only [toName, specToName, toName_st t env c]
    cases specToName idx txt env c t <;> rfl
  | .lam n b, env, c => by
    simp only [toName, specToName, declareBinder_st, startScope_declared, bind, Except.bind, if_true, pure, Except.pure,
      toName_st b (c :: env) (c + 1)]
    cases specToName idx txt (c :: env) (c + 1) b with
    | error e => rfl
    | ok r => simp [Except.map, endScope_st, removeUnique_declared]
  | .app f a, env, c => by
    simp only [toName, specToName, bind, Except.bind, toName_st f env c]
    cases specToName idx txt env c f with
    | error e => rfl
    | ok r =>
      simp only [Except.map, toName_st a env r.2]
      cases specToName idx txt env r.2 a <;> rfl
  | .const _, _, _ => rfl
  | .error, _, _ => rfl
  | .builtin _, _, _ => rfl
  | .constr tag fs, env, c => by
    simp only [toName, specToName, toNameList_st fs env c]
    cases specToNameList idx txt env c fs <;> rfl
  | .case s bs, env, c => by
    simp only [toName, specToName, bind, Except.bind, toName_st s env c]
    cases specToName idx txt env c s with
    | error e => rfl
    | ok r =>
      simp only [Except.map, toNameList_st bs env r.2]
      cases specToNameList idx txt env r.2 bs <;> rfl
theorem toNameList_st : ∀ (ts : List (Term β)) (env : List Int) (c : Int),
    toNameList true idx txt ts (st env c) = (specToNameList idx txt env c ts).map (fun r => (r.1, st env r.2))
  | [], _, _ => rfl
  | t :: ts, env, c => by
    simp only [toNameList, specToNameList, bind, Except.bind, toName_st t env c]
    cases specToName idx txt env c t with
    | error e => rfl
    | ok r =>
      simp only [Except.map, toNameList_st ts env r.2]
      cases specToNameList idx txt env r.2 ts <;> rfl
end
end

-- ---------------------------------------------------------------- name → index spec: error ⇔ first free occurrence
section
variable {β : Type} (mk : String → Nat → β)

/-- what the name→index spec returns, in terms of the free occurrences -/
def NameDich (fo : List Name) {α : Type} (r : Except Err α) : Prop :=
  (fo = [] ∧ ∃ d, r = .ok d) ∨ (∃ n rest, fo = n :: rest ∧ r = .error (.freeUnique n))

mutual
theorem specNameTo_dich : ∀ (t : Term Name) (env : List Int),
    NameDich (freeOccs env t) (specNameTo mk env t)
  | .var n, env => by
    simp only [freeOccs, specNameTo, NameDich]
    by_cases h : n.unique ∈ env
    · have : resolve env n.unique ≠ none := fun e => (resolve_none_iff env n.unique).mp e h
      cases hr : resolve env n.unique with
      | none => exact absurd hr this
      | some i => simp [h]
    · have := (resolve_none_iff env n.unique).mpr h
      simp [h, this]
  | .delay t, env => by
    have ih := specNameTo_dich t env
    simp only [freeOccs, specNameTo, NameDich] at ih ⊢
    rcases ih with ⟨h, d, hd⟩ | ⟨n, rest, h, hd⟩
    · left; simp [h, hd, bind, Except.bind, pure, Except.pure]
    · right; exact ⟨n, rest, h, by simp [hd, bind, Except.bind]⟩
  | .force t, env => by
    have ih := specNameTo_dich t env
    simp only [freeOccs, specNameTo, NameDich] at ih ⊢
    rcases ih with ⟨h, d, hd⟩ | ⟨n, rest, h, hd⟩
    · left; simp [h, hd, bind, Except.bind, pure, Except.pure]
    · right; exact ⟨n, rest, h, by simp [hd, bind, Except.bind]⟩
  | .lam m b, env => by
    have ih := specNameTo_dich b (m.unique :: env)
    simp only [freeOccs, specNameTo, NameDich] at ih ⊢
    rcases ih with ⟨h, d, hd⟩ | ⟨n, rest, h, hd⟩
    · left; simp [h, hd, bind, Except.bind, pure, Except.pure]
    · right; exact ⟨n, rest, h, by simp [hd, bind, Except.bind]⟩
  | .app f a, env => by
    have ihf := specNameTo_dich f env
    have iha := specNameTo_dich a env
    simp only [freeOccs, specNameTo, NameDich] at ihf iha ⊢
    rcases ihf with ⟨h, d, hd⟩ | ⟨n, rest, h, hd⟩
    · rcases iha with ⟨h', d', hd'⟩ | ⟨n, rest, h', hd'⟩
      · left; simp [h, hd, h', hd', bind, Except.bind, pure, Except.pure]
      · right; exact ⟨n, rest, by simp [h, h'], by simp [hd, hd', bind, Except.bind]⟩
    · right; exact ⟨n, rest ++ freeOccs env a, by simp [h], by simp [hd, bind, Except.bind]⟩
  | .const _, _ => by simp [freeOccs, specNameTo, NameDich, pure, Except.pure]
  | .error, _ => by simp [freeOccs, specNameTo, NameDich, pure, Except.pure]
  | .builtin _, _ => by simp [freeOccs, specNameTo, NameDich, pure, Except.pure]
  | .constr tag fs, env => by
    have ih := specNameToList_dich fs env
    simp only [freeOccs, specNameTo, NameDich] at ih ⊢
    rcases ih with ⟨h, d, hd⟩ | ⟨n, rest, h, hd⟩
    · left; simp [h, hd, bind, Except.bind, pure, Except.pure]
    · right; exact ⟨n, rest, h, by simp [hd, bind, Except.bind]⟩
  | .case s bs, env => by
    have ihf := specNameTo_dich s env
    have iha := specNameToList_dich bs env
    simp only [freeOccs, specNameTo, NameDich] at ihf iha ⊢
    rcases ihf with ⟨h, d, hd⟩ | ⟨n, rest, h, hd⟩
    · rcases iha with ⟨h', d', hd'⟩ | ⟨n, rest, h', hd'⟩
      · left; simp [h, hd, h', hd', bind, Except.bind, pure, Except.pure]
      · right; exact ⟨n, rest, by simp [h, h'], by simp [hd, hd', bind, Except.bind]⟩
    · right; exact ⟨n, rest ++ freeOccsList env bs, by simp [h], by simp [hd, bind, Except.bind]⟩
theorem specNameToList_dich : ∀ (ts : List (Term Name)) (env : List Int),
    NameDich (freeOccsList env ts) (specNameToList mk env ts)
  | [], _ => by simp [freeOccsList, specNameToList, NameDich, pure, Except.pure]
  | t :: ts, env => by
    have ihf := specNameTo_dich t env
    have iha := specNameToList_dich ts env
    simp only [freeOccsList, specNameToList, NameDich] at ihf iha ⊢
    rcases ihf with ⟨h, d, hd⟩ | ⟨n, rest, h, hd⟩
    · rcases iha with ⟨h', d', hd'⟩ | ⟨n, rest, h', hd'⟩
      · left; simp [h, hd, h', hd', bind, Except.bind, pure, Except.pure]
      · right; exact ⟨n, rest, by simp [h, h'], by simp [hd, hd', bind, Except.bind]⟩
    · right; exact ⟨n, rest ++ freeOccsList env ts, by simp [h], by simp [hd, bind, Except.bind]⟩
end
end

-- ---------------------------------------------------------------- index → name spec: ok ⇔ closed; counter monotone
section
variable {β : Type} (idx : β → Nat) (txt : β → Int → String)

/-- what the index→name spec returns, in terms of closedness -/
def IdxDich (closed : Bool) {α : Type} (r : Except Err α) : Prop :=
  (closed = true ∧ ∃ d, r = .ok d) ∨ (closed = false ∧ ∃ i, r = .error (.freeIndex i))

mutual
theorem specToName_dich : ∀ (t : Term β) (env : List Int) (c : Int),
    IdxDich (closedI idx env.length t) (specToName idx txt env c t)
  | .var n, env, c => by
    simp only [closedI, specToName, IdxDich]
    cases h : idx n with
    | zero => simp
    | succ j =>
      simp only []
      cases hj : env[j]? with
      | none =>
        have : env.length ≤ j := by simpa using hj
        right; simp; omega
      | some u =>
        have : j < env.length := by
          rcases List.getElem?_eq_some_iff.mp hj with ⟨h1, _⟩; exact h1
        left; simp; omega
  | .delay t, env, c => by
    have ih := specToName_dich t env c
    simp only [closedI, specToName, IdxDich] at ih ⊢
    rcases ih with ⟨h, d, hd⟩ | ⟨h, i, hd⟩
    · left; simp [h, hd, bind, Except.bind, pure, Except.pure]
    · right; simp [h, hd, bind, Except.bind]
  | .force t, env, c => by
    have ih := specToName_dich t env c
    simp only [closedI, specToName, IdxDich] at ih ⊢
    rcases ih with ⟨h, d, hd⟩ | ⟨h, i, hd⟩
    · left; simp [h, hd, bind, Except.bind, pure, Except.pure]
    · right; simp [h, hd, bind, Except.bind]
  | .lam m b, env, c => by
    have ih := specToName_dich b (c :: env) (c + 1)
    simp only [closedI, specToName, IdxDich, List.length_cons] at ih ⊢
    rcases ih with ⟨h, d, hd⟩ | ⟨h, i, hd⟩
    · left; simp [h, hd, bind, Except.bind, pure, Except.pure]
    · right; simp [h, hd, bind, Except.bind]
  | .app f a, env, c => by
    have ihf := specToName_dich f env c
    simp only [closedI, specToName, IdxDich] at ihf ⊢
    rcases ihf with ⟨h, d, hd⟩ | ⟨h, i, hd⟩
    · have iha := specToName_dich a env d.2
      simp only [IdxDich] at iha
      rcases iha with ⟨h', d', hd'⟩ | ⟨h', i, hd'⟩
      · left; simp [h, hd, h', hd', bind, Except.bind, pure, Except.pure]
      · right; simp [h, hd, h', hd', bind, Except.bind]
    · right; simp [h, hd, bind, Except.bind]
  | .const _, _, _ => by simp [closedI, specToName, IdxDich, pure, Except.pure]
  | .error, _, _ => by simp [closedI, specToName, IdxDich, pure, Except.pure]
  | .builtin _, _, _ => by simp [closedI, specToName, IdxDich, pure, Except.pure]
  | .constr tag fs, env, c => by
    have ih := specToNameList_dich fs env c
    simp only [closedI, specToName, IdxDich] at ih ⊢
    rcases ih with ⟨h, d, hd⟩ | ⟨h, i, hd⟩
    · left; simp [h, hd, bind, Except.bind, pure, Except.pure]
    · right; simp [h, hd, bind, Except.bind]
  | .case s bs, env, c => by
    have ihf := specToName_dich s env c
    simp only [closedI, specToName, IdxDich] at ihf ⊢
    rcases ihf with ⟨h, d, hd⟩ | ⟨h, i, hd⟩
    · have iha := specToNameList_dich bs env d.2
      simp only [IdxDich] at iha
      rcases iha with ⟨h', d', hd'⟩ | ⟨h', i, hd'⟩
      · left; simp [h, hd, h', hd', bind, Except.bind, pure, Except.pure]
      · right; simp [h, hd, h', hd', bind, Except.bind]
    · right; simp [h, hd, bind, Except.bind]
theorem specToNameList_dich : ∀ (ts : List (Term β)) (env : List Int) (c : Int),
    IdxDich (closedIList idx env.length ts) (specToNameList idx txt env c ts)
  | [], _, _ => by simp [closedIList, specToNameList, IdxDich, pure, Except.pure]
  | t :: ts, env, c => by
    have ihf := specToName_dich t env c
    simp only [closedIList, specToNameList, IdxDich] at ihf ⊢
    rcases ihf with ⟨h, d, hd⟩ | ⟨h, i, hd⟩
    · have iha := specToNameList_dich ts env d.2
      simp only [IdxDich] at iha
      rcases iha with ⟨h', d', hd'⟩ | ⟨h', i, hd'⟩
      · left; simp [h, hd, h', hd', bind, Except.bind, pure, Except.pure]
      · right; simp [h, hd, h', hd', bind, Except.bind]
    · right; simp [h, hd, bind, Except.bind]
end

mutual
/-- the counter only grows -/
theorem specToName_mono : ∀ (t : Term β) (env : List Int) (c : Int) (r : Term Name × Int),
    specToName idx txt env c t = .ok r → c ≤ r.2
  | .var n, env, c, r, h => by
    simp only [specToName] at h
    split at h
    · cases h
    · split at h
      · cases h; simp
      · cases h
  | .delay t, env, c, r, h => by
    simp only [specToName, bind, Except.bind] at h
    cases ht : specToName idx txt env c t with
    | error e => simp [ht] at h
    | ok r1 =>
      simp [ht, pure, Except.pure] at h
      have := specToName_mono t env c r1 ht
      subst h; exact this
  | .force t, env, c, r, h => by
    simp only [specToName, bind, Except.bind] at h
    cases ht : specToName idx txt env c t with
    | error e => simp [ht] at h
    | ok r1 =>
      simp [ht, pure, Except.pure] at h
      have := specToName_mono t env c r1 ht
      subst h; exact this
  | .lam m b, env, c, r, h => by
    simp only [specToName, bind, Except.bind] at h
    cases ht : specToName idx txt (c :: env) (c + 1) b with
    | error e => simp [ht] at h
    | ok r1 =>
      simp [ht, pure, Except.pure] at h
      have := specToName_mono b (c :: env) (c + 1) r1 ht
      subst h; simp; omega
  | .app f a, env, c, r, h => by
    simp only [specToName, bind, Except.bind] at h
    cases hf : specToName idx txt env c f with
    | error e => simp [hf] at h
    | ok r1 =>
      simp only [hf] at h
      cases ha : specToName idx txt env r1.2 a with
      | error e => simp [ha] at h
      | ok r2 =>
        simp [ha, pure, Except.pure] at h
        have h1 := specToName_mono f env c r1 hf
        have h2 := specToName_mono a env r1.2 r2 ha
        subst h; simp; omega
  | .const _, _, c, r, h => by simp [specToName, pure, Except.pure] at h; subst h; simp
  | .error, _, c, r, h => by simp [specToName, pure, Except.pure] at h; subst h; simp
  | .builtin _, _, c, r, h => by simp [specToName, pure, Except.pure] at h; subst h; simp
  | .constr tag fs, env, c, r, h => by
    simp only [specToName, bind, Except.bind] at h
    cases ht : specToNameList idx txt env c fs with
    | error e => simp [ht] at h
    | ok r1 =>
      simp [ht, pure, Except.pure] at h
      have := specToNameList_mono fs env c r1 ht
      subst h; exact this
  | .case s bs, env, c, r, h => by
    simp only [specToName, bind, Except.bind] at h
    cases hf : specToName idx txt env c s with
    | error e => simp [hf] at h
    | ok r1 =>
      simp only [hf] at h
      cases ha : specToNameList idx txt env r1.2 bs with
      | error e => simp [ha] at h
      | ok r2 =>
        simp [ha, pure, Except.pure] at h
        have h1 := specToName_mono s env c r1 hf
        have h2 := specToNameList_mono bs env r1.2 r2 ha
        subst h; simp; omega
theorem specToNameList_mono : ∀ (ts : List (Term β)) (env : List Int) (c : Int) (r : List (Term Name) × Int),
    specToNameList idx txt env c ts = .ok r → c ≤ r.2
  | [], _, c, r, h => by simp [specToNameList, pure, Except.pure] at h; subst h; simp
  | t :: ts, env, c, r, h => by
    simp only [specToNameList, bind, Except.bind] at h
    cases hf : specToName idx txt env c t with
    | error e => simp [hf] at h
    | ok r1 =>
      simp only [hf] at h
      cases ha : specToNameList idx txt env r1.2 ts with
      | error e => simp [ha] at h
      | ok r2 =>
        simp [ha, pure, Except.pure] at h
        have h1 := specToName_mono t env c r1 hf
        have h2 := specToNameList_mono ts env r1.2 r2 ha
        subst h; simp; omega
end
end

-- ---------------------------------------------------------------- round trip index → name → index

theorem Fresh.cons {env : List Int} {c : Int} (h : Fresh env c) : Fresh (c :: env) (c + 1) := by
  refine ⟨List.nodup_cons.mpr ⟨fun hm => ?_, h.1⟩, fun u hu => ?_⟩
  · have := h.2 c hm; omega
  · rcases List.mem_cons.mp hu with rfl | hu
    · omega
    · have := h.2 u hu; omega

theorem Fresh.mono {env : List Int} {c c' : Int} (h : Fresh env c) (hc : c ≤ c') : Fresh env c' :=
  ⟨h.1, fun u hu => by have := h.2 u hu; omega⟩

theorem Fresh.nil : Fresh [] 0 := ⟨List.nodup_nil, fun _ h => by simp at h⟩

section
variable {β γ : Type} (idx : β → Nat) (txt : β → Int → String)
variable (mk : String → Nat → γ) (g : β → Nat → γ) (hg : ∀ n u i, mk (txt n u) i = g n i)
include hg

mutual
/-- index → name → index gives the original index term back (binder indices normalised) -/
theorem roundtrip_gen : ∀ (t : Term β) (env : List Int) (c : Int) (r : Term Name × Int),
    specToName idx txt env c t = .ok r → Fresh env c → specNameTo mk env r.1 = .ok (normBinders g idx t)
  | .var n, env, c, r, h, hf => by
    cases hi : idx n with
    | zero => simp [specToName, hi] at h
    | succ j =>
      cases hj : env[j]? with
      | none => simp [specToName, hi, hj] at h
      | some u =>
        simp [specToName, hi, hj] at h
        subst h
        simp [specNameTo, normBinders, resolve_of_getElem env j u hf.1 hj, hi, hg]
  | .delay t, env, c, r, h, hf => by
    simp only [specToName, bind, Except.bind] at h
    cases ht : specToName idx txt env c t with
    | error e => simp [ht] at h
    | ok r1 =>
      simp [ht, pure, Except.pure] at h
      subst h
      simp [specNameTo, normBinders, roundtrip_gen t env c r1 ht hf, bind, Except.bind, pure, Except.pure]
  | .force t, env, c, r, h, hf => by
    simp only [specToName, bind, Except.bind] at h
    cases ht : specToName idx txt env c t with
    | error e => simp [ht] at h
    | ok r1 =>
      simp [ht, pure, Except.pure] at h
      subst h
      simp [specNameTo, normBinders, roundtrip_gen t env c r1 ht hf, bind, Except.bind, pure, Except.pure]
  | .lam m b, env, c, r, h, hf => by
    simp only [specToName, bind, Except.bind] at h
    cases ht : specToName idx txt (c :: env) (c + 1) b with
    | error e => simp [ht] at h
    | ok r1 =>
      simp [ht, pure, Except.pure] at h
      subst h
      simp [specNameTo, normBinders, roundtrip_gen b (c :: env) (c + 1) r1 ht hf.cons, bind, Except.bind, pure, Except.pure, hg]
  | .app f a, env, c, r, h, hf => by
    simp only [specToName, bind, Except.bind] at h
    cases hf' : specToName idx txt env c f with
    | error e => simp [hf'] at h
    | ok r1 =>
      simp only [hf'] at h
      cases ha : specToName idx txt env r1.2 a with
      | error e => simp [ha] at h
      | ok r2 =>
        simp [ha, pure, Except.pure] at h
        subst h
        have h1 := roundtrip_gen f env c r1 hf' hf
        have h2 := roundtrip_gen a env r1.2 r2 ha (hf.mono (specToName_mono idx txt f env c r1 hf'))
        simp [specNameTo, normBinders, h1, h2, bind, Except.bind, pure, Except.pure]
  | .const _, _, c, r, h, _ => by simp [specToName, pure, Except.pure] at h; subst h; simp [specNameTo, normBinders, pure, Except.pure]
  | .error, _, c, r, h, _ => by simp [specToName, pure, Except.pure] at h; subst h; simp [specNameTo, normBinders, pure, Except.pure]
  | .builtin _, _, c, r, h, _ => by simp [specToName, pure, Except.pure] at h; subst h; simp [specNameTo, normBinders, pure, Except.pure]
  | .constr tag fs, env, c, r, h, hf => by
    simp only [specToName, bind, Except.bind] at h
    cases ht : specToNameList idx txt env c fs with
    | error e => simp [ht] at h
    | ok r1 =>
      simp [ht, pure, Except.pure] at h
      subst h
      simp [specNameTo, normBinders, roundtripList_gen fs env c r1 ht hf, bind, Except.bind, pure, Except.pure]
  | .case s bs, env, c, r, h, hf => by
    simp only [specToName, bind, Except.bind] at h
    cases hf' : specToName idx txt env c s with
    | error e => simp [hf'] at h
    | ok r1 =>
      simp only [hf'] at h
      cases ha : specToNameList idx txt env r1.2 bs with
      | error e => simp [ha] at h
      | ok r2 =>
        simp [ha, pure, Except.pure] at h
        subst h
        have h1 := roundtrip_gen s env c r1 hf' hf
        have h2 := roundtripList_gen bs env r1.2 r2 ha (hf.mono (specToName_mono idx txt s env c r1 hf'))
        simp [specNameTo, normBinders, h1, h2, bind, Except.bind, pure, Except.pure]
theorem roundtripList_gen : ∀ (ts : List (Term β)) (env : List Int) (c : Int) (r : List (Term Name) × Int),
    specToNameList idx txt env c ts = .ok r → Fresh env c → specNameToList mk env r.1 = .ok (normBindersList g idx ts)
  | [], _, c, r, h, _ => by simp [specToNameList, pure, Except.pure] at h; subst h; simp [specNameToList, normBindersList, pure, Except.pure]
  | t :: ts, env, c, r, h, hf => by
    simp only [specToNameList, bind, Except.bind] at h
    cases hf' : specToName idx txt env c t with
    | error e => simp [hf'] at h
    | ok r1 =>
      simp only [hf'] at h
      cases ha : specToNameList idx txt env r1.2 ts with
      | error e => simp [ha] at h
      | ok r2 =>
        simp [ha, pure, Except.pure] at h
        subst h
        have h1 := roundtrip_gen t env c r1 hf' hf
        have h2 := roundtripList_gen ts env r1.2 r2 ha (hf.mono (specToName_mono idx txt t env c r1 hf'))
        simp [specNameToList, normBindersList, h1, h2, bind, Except.bind, pure, Except.pure]
end
end

-- ---------------------------------------------------------------- name → index → name is alpha-equivalent
section
variable {β : Type} (idx : β → Nat) (txt : β → Int → String)
variable (mk : String → Nat → β) (hidx : ∀ s i, idx (mk s i) = i)
include hidx

mutual
/-- name → index → name is alpha-equivalent to the original -/
theorem alpha_gen : ∀ (t : Term Name) (e1 : List Int) (d : Term β), specNameTo mk e1 t = .ok d →
    ∀ (e2 : List Int) (c : Int) (r : Term Name × Int), specToName idx txt e2 c d = .ok r → Fresh e2 c →
      AlphaEq e1 e2 t r.1
  | .var n, e1, d, h, e2, c, r, h2, hf => by
    cases hr : resolve e1 n.unique with
    | none => simp [specNameTo, hr] at h
    | some i =>
      simp [specNameTo, hr] at h
      subst h
      have hb := resolve_bounds e1 n.unique i hr
      cases i with
      | zero => omega
      | succ j =>
        cases hj : e2[j]? with
        | none => simp [specToName, hidx, hj] at h2
        | some u =>
          simp [specToName, hidx, hj] at h2
          subst h2
          refine AlphaEq.var ?_ ?_
          · simp [hr, resolve_of_getElem e2 j u hf.1 hj]
          · simp [hr]
  | .delay t, e1, d, h, e2, c, r, h2, hf => by
    simp only [specNameTo, bind, Except.bind] at h
    cases ht : specNameTo mk e1 t with
    | error e => simp [ht] at h
    | ok d1 =>
      simp [ht, pure, Except.pure] at h
      subst h
      simp only [specToName, bind, Except.bind] at h2
      cases hs : specToName idx txt e2 c d1 with
      | error e => simp [hs] at h2
      | ok r1 =>
        simp [hs, pure, Except.pure] at h2
        subst h2
        exact AlphaEq.delay (alpha_gen t e1 d1 ht e2 c r1 hs hf)
  | .force t, e1, d, h, e2, c, r, h2, hf => by
    simp only [specNameTo, bind, Except.bind] at h
    cases ht : specNameTo mk e1 t with
    | error e => simp [ht] at h
    | ok d1 =>
      simp [ht, pure, Except.pure] at h
      subst h
      simp only [specToName, bind, Except.bind] at h2
      cases hs : specToName idx txt e2 c d1 with
      | error e => simp [hs] at h2
      | ok r1 =>
        simp [hs, pure, Except.pure] at h2
        subst h2
        exact AlphaEq.force (alpha_gen t e1 d1 ht e2 c r1 hs hf)
  | .lam m b, e1, d, h, e2, c, r, h2, hf => by
    simp only [specNameTo, bind, Except.bind] at h
    cases ht : specNameTo mk (m.unique :: e1) b with
    | error e => simp [ht] at h
    | ok d1 =>
      simp [ht, pure, Except.pure] at h
      subst h
      simp only [specToName, bind, Except.bind] at h2
      cases hs : specToName idx txt (c :: e2) (c + 1) d1 with
      | error e => simp [hs] at h2
      | ok r1 =>
        simp [hs, pure, Except.pure] at h2
        subst h2
        exact AlphaEq.lam (alpha_gen b (m.unique :: e1) d1 ht (c :: e2) (c + 1) r1 hs hf.cons)
  | .app f a, e1, d, h, e2, c, r, h2, hf => by
    simp only [specNameTo, bind, Except.bind] at h
    cases hf1 : specNameTo mk e1 f with
    | error e => simp [hf1] at h
    | ok d1 =>
      simp only [hf1] at h
      cases ha1 : specNameTo mk e1 a with
      | error e => simp [ha1] at h
      | ok d2 =>
        simp [ha1, pure, Except.pure] at h
        subst h
        simp only [specToName, bind, Except.bind] at h2
        cases hs1 : specToName idx txt e2 c d1 with
        | error e => simp [hs1] at h2
        | ok r1 =>
          simp only [hs1] at h2
          cases hs2 : specToName idx txt e2 r1.2 d2 with
          | error e => simp [hs2] at h2
          | ok r2 =>
            simp [hs2, pure, Except.pure] at h2
            subst h2
            exact AlphaEq.app (alpha_gen f e1 d1 hf1 e2 c r1 hs1 hf)
              (alpha_gen a e1 d2 ha1 e2 r1.2 r2 hs2 (hf.mono (specToName_mono idx txt d1 e2 c r1 hs1)))
  | .const _, _, d, h, _, c, r, h2, _ => by
    simp [specNameTo, pure, Except.pure] at h; subst h
    simp [specToName, pure, Except.pure] at h2; subst h2; exact AlphaEq.const
  | .error, _, d, h, _, c, r, h2, _ => by
    simp [specNameTo, pure, Except.pure] at h; subst h
    simp [specToName, pure, Except.pure] at h2; subst h2; exact AlphaEq.error
  | .builtin _, _, d, h, _, c, r, h2, _ => by
    simp [specNameTo, pure, Except.pure] at h; subst h
    simp [specToName, pure, Except.pure] at h2; subst h2; exact AlphaEq.builtin
  | .constr tag fs, e1, d, h, e2, c, r, h2, hf => by
    simp only [specNameTo, bind, Except.bind] at h
    cases ht : specNameToList mk e1 fs with
    | error e => simp [ht] at h
    | ok d1 =>
      simp [ht, pure, Except.pure] at h
      subst h
      simp only [specToName, bind, Except.bind] at h2
      cases hs : specToNameList idx txt e2 c d1 with
      | error e => simp [hs] at h2
      | ok r1 =>
        simp [hs, pure, Except.pure] at h2
        subst h2
        exact AlphaEq.constr (alphaList_gen fs e1 d1 ht e2 c r1 hs hf)
  | .case s bs, e1, d, h, e2, c, r, h2, hf => by
    simp only [specNameTo, bind, Except.bind] at h
    cases hf1 : specNameTo mk e1 s with
    | error e => simp [hf1] at h
    | ok d1 =>
      simp only [hf1] at h
      cases ha1 : specNameToList mk e1 bs with
      | error e => simp [ha1] at h
      | ok d2 =>
        simp [ha1, pure, Except.pure] at h
        subst h
        simp only [specToName, bind, Except.bind] at h2
        cases hs1 : specToName idx txt e2 c d1 with
        | error e => simp [hs1] at h2
        | ok r1 =>
          simp only [hs1] at h2
          cases hs2 : specToNameList idx txt e2 r1.2 d2 with
          | error e => simp [hs2] at h2
          | ok r2 =>
            simp [hs2, pure, Except.pure] at h2
            subst h2
            exact AlphaEq.case (alpha_gen s e1 d1 hf1 e2 c r1 hs1 hf)
              (alphaList_gen bs e1 d2 ha1 e2 r1.2 r2 hs2 (hf.mono (specToName_mono idx txt d1 e2 c r1 hs1)))
theorem alphaList_gen : ∀ (ts : List (Term Name)) (e1 : List Int) (d : List (Term β)), specNameToList mk e1 ts = .ok d →
    ∀ (e2 : List Int) (c : Int) (r : List (Term Name) × Int), specToNameList idx txt e2 c d = .ok r → Fresh e2 c →
      AlphaEqL e1 e2 ts r.1
  | [], _, d, h, _, c, r, h2, _ => by
    simp [specNameToList, pure, Except.pure] at h; subst h
    simp [specToNameList, pure, Except.pure] at h2; subst h2; exact AlphaEqL.nil
  | t :: ts, e1, d, h, e2, c, r, h2, hf => by
    simp only [specNameToList, bind, Except.bind] at h
    cases hf1 : specNameTo mk e1 t with
    | error e => simp [hf1] at h
    | ok d1 =>
      simp only [hf1] at h
      cases ha1 : specNameToList mk e1 ts with
      | error e => simp [ha1] at h
      | ok d2 =>
        simp [ha1, pure, Except.pure] at h
        subst h
        simp only [specToNameList, bind, Except.bind] at h2
        cases hs1 : specToName idx txt e2 c d1 with
        | error e => simp [hs1] at h2
        | ok r1 =>
          simp only [hs1] at h2
          cases hs2 : specToNameList idx txt e2 r1.2 d2 with
          | error e => simp [hs2] at h2
          | ok r2 =>
            simp [hs2, pure, Except.pure] at h2
            subst h2
            exact AlphaEqL.cons (alpha_gen t e1 d1 hf1 e2 c r1 hs1 hf)
              (alphaList_gen ts e1 d2 ha1 e2 r1.2 r2 hs2 (hf.mono (specToName_mono idx txt d1 e2 c r1 hs1)))
end

mutual
/-- the output of name → index is well-scoped -/
theorem specNameTo_closed : ∀ (t : Term Name) (env : List Int) (d : Term β), specNameTo mk env t = .ok d →
    closedI idx env.length d = true
  | .var n, env, d, h => by
    cases hr : resolve env n.unique with
    | none => simp [specNameTo, hr] at h
    | some i =>
      simp [specNameTo, hr] at h
      subst h
      have := resolve_bounds env n.unique i hr
      simp [closedI, hidx]; omega
  | .delay t, env, d, h => by
    simp only [specNameTo, bind, Except.bind] at h
    cases ht : specNameTo mk env t with
    | error e => simp [ht] at h
    | ok d1 =>
      simp [ht, pure, Except.pure] at h; subst h
      simpa [closedI] using specNameTo_closed t env d1 ht
  | .force t, env, d, h => by
    simp only [specNameTo, bind, Except.bind] at h
    cases ht : specNameTo mk env t with
    | error e => simp [ht] at h
    | ok d1 =>
      simp [ht, pure, Except.pure] at h; subst h
      simpa [closedI] using specNameTo_closed t env d1 ht
  | .lam m b, env, d, h => by
    simp only [specNameTo, bind, Except.bind] at h
    cases ht : specNameTo mk (m.unique :: env) b with
    | error e => simp [ht] at h
    | ok d1 =>
      simp [ht, pure, Except.pure] at h; subst h
      simpa [closedI] using specNameTo_closed b (m.unique :: env) d1 ht
  | .app f a, env, d, h => by
    simp only [specNameTo, bind, Except.bind] at h
    cases hf1 : specNameTo mk env f with
    | error e => simp [hf1] at h
    | ok d1 =>
      simp only [hf1] at h
      cases ha1 : specNameTo mk env a with
      | error e => simp [ha1] at h
      | ok d2 =>
        simp [ha1, pure, Except.pure] at h; subst h
        simp [closedI, specNameTo_closed f env d1 hf1, specNameTo_closed a env d2 ha1]
  | .const _, _, d, h => by simp [specNameTo, pure, Except.pure] at h; subst h; simp [closedI]
  | .error, _, d, h => by simp [specNameTo, pure, Except.pure] at h; subst h; simp [closedI]
  | .builtin _, _, d, h => by simp [specNameTo, pure, Except.pure] at h; subst h; simp [closedI]
  | .constr tag fs, env, d, h => by
    simp only [specNameTo, bind, Except.bind] at h
    cases ht : specNameToList mk env fs with
    | error e => simp [ht] at h
    | ok d1 =>
      simp [ht, pure, Except.pure] at h; subst h
      simpa [closedI] using specNameToList_closed fs env d1 ht
  | .case s bs, env, d, h => by
    simp only [specNameTo, bind, Except.bind] at h
    cases hf1 : specNameTo mk env s with
    | error e => simp [hf1] at h
    | ok d1 =>
      simp only [hf1] at h
      cases ha1 : specNameToList mk env bs with
      | error e => simp [ha1] at h
      | ok d2 =>
        simp [ha1, pure, Except.pure] at h; subst h
        simp [closedI, specNameTo_closed s env d1 hf1, specNameToList_closed bs env d2 ha1]
theorem specNameToList_closed : ∀ (ts : List (Term Name)) (env : List Int) (d : List (Term β)), specNameToList mk env ts = .ok d →
    closedIList idx env.length d = true
  | [], _, d, h => by simp [specNameToList, pure, Except.pure] at h; subst h; simp [closedIList]
  | t :: ts, env, d, h => by
    simp only [specNameToList, bind, Except.bind] at h
    cases hf1 : specNameTo mk env t with
    | error e => simp [hf1] at h
    | ok d1 =>
      simp only [hf1] at h
      cases ha1 : specNameToList mk env ts with
      | error e => simp [ha1] at h
      | ok d2 =>
        simp [ha1, pure, Except.pure] at h; subst h
        simp [closedIList, specNameTo_closed t env d1 hf1, specNameToList_closed ts env d2 ha1]
end
end

-- ---------------------------------------------------------------- AlphaEq ⇒ same de Bruijn image

/-- the de Bruijn image used to compare binding structure -/
abbrev dbImage (env : List Int) (t : Term Name) : Except Err (Term DeBruijn) :=
  specNameTo (fun _ i => (i : DeBruijn)) env t
abbrev dbImageList (env : List Int) (ts : List (Term Name)) : Except Err (List (Term DeBruijn)) :=
  specNameToList (fun _ i => (i : DeBruijn)) env ts

mutual
/-- alpha-equivalent terms have the same de Bruijn image (so `AlphaEq` is not weaker than
"every variable refers to the same binder") -/
theorem alpha_sound : ∀ (t : Term Name) (e1 e2 : List Int) (t' : Term Name), AlphaEq e1 e2 t t' →
    ∀ d, dbImage e1 t = .ok d → dbImage e2 t' = .ok d
  | .var n, e1, e2, t', h, d, hd => by
    cases h with
    | var h1 h2 =>
      cases hr : resolve e1 n.unique with
      | none => simp [dbImage, specNameTo, hr] at hd
      | some i =>
        simp [dbImage, specNameTo, hr] at hd
        subst hd
        rw [hr] at h1
        simp [dbImage, specNameTo, ← h1]
  | .delay t, e1, e2, t', h, d, hd => by
    cases h with
    | delay h1 =>
      simp only [dbImage, specNameTo, bind, Except.bind] at hd ⊢
      cases ht : specNameTo (fun _ i => (i : DeBruijn)) e1 t with
      | error e => simp [ht] at hd
      | ok d1 =>
        simp [ht, pure, Except.pure] at hd; subst hd
        have := alpha_sound t e1 e2 _ h1 d1 ht
        simp only [dbImage] at this
        simp [this, pure, Except.pure]
  | .force t, e1, e2, t', h, d, hd => by
    cases h with
    | force h1 =>
      simp only [dbImage, specNameTo, bind, Except.bind] at hd ⊢
      cases ht : specNameTo (fun _ i => (i : DeBruijn)) e1 t with
      | error e => simp [ht] at hd
      | ok d1 =>
        simp [ht, pure, Except.pure] at hd; subst hd
        have := alpha_sound t e1 e2 _ h1 d1 ht
        simp only [dbImage] at this
        simp [this, pure, Except.pure]
  | .lam m b, e1, e2, t', h, d, hd => by
    cases h with
    | lam h1 =>
      simp only [dbImage, specNameTo, bind, Except.bind] at hd ⊢
      cases ht : specNameTo (fun _ i => (i : DeBruijn)) (m.unique :: e1) b with
      | error e => simp [ht] at hd
      | ok d1 =>
        simp [ht, pure, Except.pure] at hd; subst hd
        have := alpha_sound b _ _ _ h1 d1 ht
        simp only [dbImage] at this
        simp [this, pure, Except.pure]
  | .app f a, e1, e2, t', h, d, hd => by
    cases h with
    | app h1 h2 =>
      simp only [dbImage, specNameTo, bind, Except.bind] at hd ⊢
      cases hf : specNameTo (fun _ i => (i : DeBruijn)) e1 f with
      | error e => simp [hf] at hd
      | ok d1 =>
        simp only [hf] at hd
        cases ha : specNameTo (fun _ i => (i : DeBruijn)) e1 a with
        | error e => simp [ha] at hd
        | ok d2 =>
          simp [ha, pure, Except.pure] at hd; subst hd
          have t1 := alpha_sound f e1 e2 _ h1 d1 hf
          have t2 := alpha_sound a e1 e2 _ h2 d2 ha
          simp only [dbImage] at t1 t2
          simp [t1, t2, pure, Except.pure]
  | .const _, _, _, _, h, d, hd => by cases h; exact hd
  | .error, _, _, _, h, d, hd => by cases h; exact hd
  | .builtin _, _, _, _, h, d, hd => by cases h; exact hd
  | .constr tag fs, e1, e2, t', h, d, hd => by
    cases h with
    | constr h1 =>
      simp only [dbImage, specNameTo, bind, Except.bind] at hd ⊢
      cases ht : specNameToList (fun _ i => (i : DeBruijn)) e1 fs with
      | error e => simp [ht] at hd
      | ok d1 =>
        simp [ht, pure, Except.pure] at hd; subst hd
        have := alphaList_sound fs e1 e2 _ h1 d1 ht
        simp only [dbImageList] at this
        simp [this, pure, Except.pure]
  | .case s bs, e1, e2, t', h, d, hd => by
    cases h with
    | case h1 h2 =>
      simp only [dbImage, specNameTo, bind, Except.bind] at hd ⊢
      cases hf : specNameTo (fun _ i => (i : DeBruijn)) e1 s with
      | error e => simp [hf] at hd
      | ok d1 =>
        simp only [hf] at hd
        cases ha : specNameToList (fun _ i => (i : DeBruijn)) e1 bs with
        | error e => simp [ha] at hd
        | ok d2 =>
          simp [ha, pure, Except.pure] at hd; subst hd
          have t1 := alpha_sound s e1 e2 _ h1 d1 hf
          have t2 := alphaList_sound bs e1 e2 _ h2 d2 ha
          simp only [dbImage, dbImageList] at t1 t2
          simp [t1, t2, pure, Except.pure]
theorem alphaList_sound : ∀ (ts : List (Term Name)) (e1 e2 : List Int) (ts' : List (Term Name)), AlphaEqL e1 e2 ts ts' →
    ∀ d, dbImageList e1 ts = .ok d → dbImageList e2 ts' = .ok d
  | [], _, _, _, h, d, hd => by cases h; exact hd
  | t :: ts, e1, e2, ts', h, d, hd => by
    cases h with
    | cons h1 h2 =>
      simp only [dbImageList, specNameToList, bind, Except.bind] at hd ⊢
      cases hf : specNameTo (fun _ i => (i : DeBruijn)) e1 t with
      | error e => simp [hf] at hd
      | ok d1 =>
        simp only [hf] at hd
        cases ha : specNameToList (fun _ i => (i : DeBruijn)) e1 ts with
        | error e => simp [ha] at hd
        | ok d2 =>
          simp [ha, pure, Except.pure] at hd; subst hd
          have t1 := alpha_sound t e1 e2 _ h1 d1 hf
          have t2 := alphaList_sound ts e1 e2 _ h2 d2 ha
          simp only [dbImage, dbImageList] at t1 t2
          simp [t1, t2, pure, Except.pure]
end

-- ---------------------------------------------------------------- projections
section
variable {β γ : Type} (mk : String → Nat → β) (f : β → γ)

mutual
/-- the two name→index functions differ only by a map over the binders -/
theorem specNameTo_natural : ∀ (t : Term Name) (env : List Int),
    specNameTo (fun s i => f (mk s i)) env t = (specNameTo mk env t).map (mapBinders f)
  | .var n, env => by
    simp only [specNameTo]
    cases resolve env n.unique <;> rfl
  | .delay t, env => by
    simp only [specNameTo, bind, Except.bind, specNameTo_natural t env]
    cases specNameTo mk env t <;> rfl
  | .force t, env => by
    simp only [specNameTo, bind, Except.bind, specNameTo_natural t env]
    cases specNameTo mk env t <;> rfl
  | .lam m b, env => by
    simp only [specNameTo, bind, Except.bind, specNameTo_natural b (m.unique :: env)]
    cases specNameTo mk (m.unique :: env) b <;> rfl
  | .app g a, env => by
    simp only [specNameTo, bind, Except.bind, specNameTo_natural g env, specNameTo_natural a env]
    cases specNameTo mk env g with
    | error e => rfl
    | ok d1 => cases specNameTo mk env a <;> rfl
  | .const _, _ => rfl
  | .error, _ => rfl
  | .builtin _, _ => rfl
  | .constr tag fs, env => by
    simp only [specNameTo, bind, Except.bind, specNameToList_natural fs env]
    cases specNameToList mk env fs <;> rfl
  | .case s bs, env => by
    simp only [specNameTo, bind, Except.bind, specNameTo_natural s env, specNameToList_natural bs env]
    cases specNameTo mk env s with
    | error e => rfl
    | ok d1 => cases specNameToList mk env bs <;> rfl
theorem specNameToList_natural : ∀ (ts : List (Term Name)) (env : List Int),
    specNameToList (fun s i => f (mk s i)) env ts = (specNameToList mk env ts).map (mapBindersList f)
  | [], _ => rfl
  | t :: ts, env => by
    simp only [specNameToList, bind, Except.bind, specNameTo_natural t env, specNameToList_natural ts env]
    cases specNameTo mk env t with
    | error e => rfl
    | ok d1 => cases specNameToList mk env ts <;> rfl
end
end

mutual
theorem zeroBinders_id : ∀ (t : Term DeBruijn), bindersZero id t = true → normBinders (fun _ i => i) id t = t
  | .var n, _ => rfl
  | .delay t, h => by simp only [bindersZero] at h; simp [normBinders, zeroBinders_id t h]
  | .force t, h => by simp only [bindersZero] at h; simp [normBinders, zeroBinders_id t h]
  | .lam m b, h => by
    simp only [bindersZero, Bool.and_eq_true, beq_iff_eq, id] at h
    simp [normBinders, zeroBinders_id b h.2, h.1]
  | .app f a, h => by
    simp only [bindersZero, Bool.and_eq_true] at h
    simp [normBinders, zeroBinders_id f h.1, zeroBinders_id a h.2]
  | .const _, _ => rfl
  | .error, _ => rfl
  | .builtin _, _ => rfl
  | .constr tag fs, h => by simp only [bindersZero] at h; simp [normBinders, zeroBindersList_id fs h]
  | .case s bs, h => by
    simp only [bindersZero, Bool.and_eq_true] at h
    simp [normBinders, zeroBinders_id s h.1, zeroBindersList_id bs h.2]
theorem zeroBindersList_id : ∀ (ts : List (Term DeBruijn)), bindersZeroList id ts = true → normBindersList (fun _ i => i) id ts = ts
  | [], _ => rfl
  | t :: ts, h => by
    simp only [bindersZeroList, Bool.and_eq_true] at h
    simp [normBindersList, zeroBinders_id t h.1, zeroBindersList_id ts h.2]
end

mutual
theorem mapBinders_comp {α β γ : Type} (f : α → β) (g : β → γ) : ∀ (t : Term α),
    mapBinders g (mapBinders f t) = mapBinders (fun x => g (f x)) t
  | .var n => rfl
  | .delay t => by simp [mapBinders, mapBinders_comp f g t]
  | .force t => by simp [mapBinders, mapBinders_comp f g t]
  | .lam m b => by simp [mapBinders, mapBinders_comp f g b]
  | .app a b => by simp [mapBinders, mapBinders_comp f g a, mapBinders_comp f g b]
  | .const _ => rfl
  | .error => rfl
  | .builtin _ => rfl
  | .constr tag fs => by simp [mapBinders, mapBindersList_comp f g fs]
  | .case s bs => by simp [mapBinders, mapBinders_comp f g s, mapBindersList_comp f g bs]
theorem mapBindersList_comp {α β γ : Type} (f : α → β) (g : β → γ) : ∀ (ts : List (Term α)),
    mapBindersList g (mapBindersList f ts) = mapBindersList (fun x => g (f x)) ts
  | [] => rfl
  | t :: ts => by simp [mapBindersList, mapBinders_comp f g t, mapBindersList_comp f g ts]
end

mutual
theorem mapBinders_id {α : Type} : ∀ (t : Term α), mapBinders (fun x => x) t = t
  | .var n => rfl
  | .delay t => by simp [mapBinders, mapBinders_id t]
  | .force t => by simp [mapBinders, mapBinders_id t]
  | .lam m b => by simp [mapBinders, mapBinders_id b]
  | .app a b => by simp [mapBinders, mapBinders_id a, mapBinders_id b]
  | .const _ => rfl
  | .error => rfl
  | .builtin _ => rfl
  | .constr tag fs => by simp [mapBinders, mapBindersList_id fs]
  | .case s bs => by simp [mapBinders, mapBinders_id s, mapBindersList_id bs]
theorem mapBindersList_id {α : Type} : ∀ (ts : List (Term α)), mapBindersList (fun x => x) ts = ts
  | [] => rfl
  | t :: ts => by simp [mapBindersList, mapBinders_id t, mapBindersList_id ts]
end


end AikenVerif.Db
