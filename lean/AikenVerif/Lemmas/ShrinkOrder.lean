import AikenVerif.Model.Shrink
/-!
Lemmas about the orders on choice sequences (`lexLe`, `lexLt`, `shortlexLe`, `shortlexRank`)
and about `UInt8` arithmetic used by `binary_search_replace`.
-/
namespace AikenVerif.Shrink

theorem u8_lt_irrefl (a : UInt8) : ¬ a < a := by
  simp only [UInt8.lt_iff_toNat_lt]; omega

theorem u8_lt_trans {a b c : UInt8} (h1 : a < b) (h2 : b < c) : a < c := by
  simp only [UInt8.lt_iff_toNat_lt] at *; omega

theorem u8_eq_of_not_lt {a b : UInt8} (h1 : ¬ a < b) (h2 : ¬ b < a) : a = b := by
  apply UInt8.toNat_inj.mp
  simp only [UInt8.lt_iff_toNat_lt] at *; omega

theorem u8_lt_or_eq_of_le {a b : UInt8} (h : a ≤ b) : a < b ∨ a = b := by
  by_cases h1 : a < b
  · exact Or.inl h1
  · right
    apply UInt8.toNat_inj.mp
    simp only [UInt8.lt_iff_toNat_lt, UInt8.le_iff_toNat_le] at *; omega

theorem u8_zero_le (a : UInt8) : (0 : UInt8) ≤ a := by
  simp only [UInt8.le_iff_toNat_le, UInt8.toNat_ofNat, Nat.reducePow, Nat.reduceMod]; omega

/-- the midpoint of `binary_search_replace` lies strictly between `lo` and `hi` (no wrap-around) -/
theorem mid_bounds (lo hi : UInt8) (hlo : lo.toNat < 255) (hle : lo ≤ hi) (h : lo + 1 < hi) :
    lo < lo + (hi - lo) / 2 ∧ lo + (hi - lo) / 2 < hi := by
  have h2 : hi.toNat < 256 := hi.toNat_lt
  simp only [UInt8.lt_iff_toNat_lt, UInt8.le_iff_toNat_le, UInt8.toNat_add, UInt8.toNat_sub,
    UInt8.toNat_div, UInt8.toNat_ofNat, Nat.reducePow, Nat.reduceMod] at *
  omega

/-! ### lexicographic order -/

theorem lexLe_refl : ∀ a : Choices, lexLe a a = true
  | [] => rfl
  | a :: as => by simp [lexLe, lexLe_refl as]

theorem lexLe_trans : ∀ {a b c : Choices}, lexLe a b = true → lexLe b c = true → lexLe a c = true
  | [], _, _, _, _ => by simp [lexLe]
  | _ :: _, [], _, h, _ => by simp [lexLe] at h
  | _ :: _, _ :: _, [], _, h => by simp [lexLe] at h
  | a :: as, b :: bs, c :: cs, h1, h2 => by
    simp only [lexLe, Bool.or_eq_true, decide_eq_true_eq, Bool.and_eq_true, beq_iff_eq] at *
    rcases h1 with h1 | ⟨h1, h1'⟩ <;> rcases h2 with h2 | ⟨h2, h2'⟩
    · exact Or.inl (u8_lt_trans h1 h2)
    · subst h2; exact Or.inl h1
    · subst h1; exact Or.inl h2
    · subst h1; subst h2; exact Or.inr ⟨rfl, lexLe_trans h1' h2'⟩

theorem lexLe_antisymm : ∀ {a b : Choices}, a.length = b.length → lexLe a b = true →
    lexLe b a = true → a = b
  | [], [], _, _, _ => rfl
  | [], _ :: _, h, _, _ => by simp at h
  | _ :: _, [], h, _, _ => by simp at h
  | a :: as, b :: bs, hl, h1, h2 => by
    simp only [lexLe, Bool.or_eq_true, decide_eq_true_eq, Bool.and_eq_true, beq_iff_eq] at *
    simp only [List.length_cons, Nat.add_right_cancel_iff] at hl
    rcases h1 with h1 | ⟨h1, h1'⟩ <;> rcases h2 with h2 | ⟨h2, h2'⟩
    · exact absurd (u8_lt_trans h1 h2) (u8_lt_irrefl _)
    · subst h2; exact absurd h1 (u8_lt_irrefl _)
    · subst h1; exact absurd h2 (u8_lt_irrefl _)
    · subst h1; rw [lexLe_antisymm hl h1' h2']

/-- common prefix: comparison is decided by the rest -/
theorem lexLe_append_left : ∀ (p : Choices) {a b : Choices}, lexLe a b = true →
    lexLe (p ++ a) (p ++ b) = true
  | [], _, _, h => h
  | x :: p, _, _, h => by simp [lexLe, lexLe_append_left p h]

/-- equal-length heads: comparison of the heads decides when they differ, else the tails -/
theorem lexLe_append_right : ∀ {a b : Choices} (t : Choices), a.length = b.length →
    lexLe a b = true → lexLe (a ++ t) (b ++ t) = true
  | [], [], t, _, _ => lexLe_refl t
  | [], _ :: _, _, h, _ => by simp at h
  | _ :: _, [], _, h, _ => by simp at h
  | a :: as, b :: bs, t, hl, h => by
    simp only [List.length_cons, Nat.add_right_cancel_iff] at hl
    simp only [lexLe, List.cons_append, Bool.or_eq_true, decide_eq_true_eq, Bool.and_eq_true,
      beq_iff_eq] at *
    rcases h with h | ⟨h, h'⟩
    · exact Or.inl h
    · exact Or.inr ⟨h, lexLe_append_right t hl h'⟩

/-- lowering one position gives a lexicographically smaller-or-equal sequence -/
theorem lexLe_set : ∀ (cs : Choices) (i : Nat) (v w : UInt8), cs[i]? = some w → v ≤ w →
    lexLe (cs.set i v) cs = true
  | [], _, _, _, h, _ => by simp at h
  | c :: cs, 0, v, w, h, hv => by
    simp only [List.getElem?_cons_zero, Option.some.injEq] at h
    subst h
    simp only [List.set_cons_zero, lexLe, Bool.or_eq_true, decide_eq_true_eq, Bool.and_eq_true,
      beq_iff_eq]
    rcases u8_lt_or_eq_of_le hv with h | h
    · exact Or.inl h
    · exact Or.inr ⟨h, lexLe_refl _⟩
  | c :: cs, i + 1, v, w, h, hv => by
    simp only [List.getElem?_cons_succ] at h
    simp [lexLe, lexLe_set cs i v w h hv]

/-- strictly lowering position `i` wins whatever happens at later positions -/
theorem lexLe_set_lt : ∀ (cs cs' : Choices) (i : Nat) (v w : UInt8), cs[i]? = some w → v < w →
    cs'.length = cs.length → cs'[i]? = some v → (∀ j, j < i → cs'[j]? = cs[j]?) →
    lexLe cs' cs = true
  | [], _, _, _, _, h, _, _, _, _ => by simp at h
  | _ :: _, [], _, _, _, _, _, hl, _, _ => by simp at hl
  | c :: cs, c' :: cs', 0, v, w, h, hv, _, h', _ => by
    simp only [List.getElem?_cons_zero, Option.some.injEq] at h h'
    subst h; subst h'
    simp [lexLe, hv]
  | c :: cs, c' :: cs', i + 1, v, w, h, hv, hl, h', hp => by
    simp only [List.getElem?_cons_succ] at h h'
    have h0 := hp 0 (Nat.succ_pos i)
    simp only [List.getElem?_cons_zero, Option.some.injEq] at h0
    subst h0
    simp only [List.length_cons, Nat.add_right_cancel_iff] at hl
    have := lexLe_set_lt cs cs' i v w h hv hl h' (fun j hj => by
      have := hp (j + 1) (Nat.succ_lt_succ hj)
      simpa using this)
    simp [lexLe, this]

/-! ### shortlex -/

theorem shortlexLe_refl (a : Choices) : shortlexLe a a = true := by
  simp [shortlexLe, lexLe_refl]

theorem shortlexLe_length {a b : Choices} (h : shortlexLe a b = true) : a.length ≤ b.length := by
  simp only [shortlexLe, Bool.or_eq_true, decide_eq_true_eq, Bool.and_eq_true, beq_iff_eq] at h
  omega

theorem shortlexLe_trans {a b c : Choices} (h1 : shortlexLe a b = true)
    (h2 : shortlexLe b c = true) : shortlexLe a c = true := by
  simp only [shortlexLe, Bool.or_eq_true, decide_eq_true_eq, Bool.and_eq_true, beq_iff_eq] at *
  rcases h1 with h1 | ⟨h1, h1'⟩ <;> rcases h2 with h2 | ⟨h2, h2'⟩
  · left; omega
  · left; omega
  · left; omega
  · right; exact ⟨by omega, lexLe_trans h1' h2'⟩

theorem shortlexLe_of_shorter {a b : Choices} (h : a.length < b.length) : shortlexLe a b = true := by
  simp [shortlexLe, h]

theorem shortlexLe_of_lexLe {a b : Choices} (hl : a.length = b.length) (h : lexLe a b = true) :
    shortlexLe a b = true := by
  simp [shortlexLe, hl, h]

theorem shortlexLe_antisymm {a b : Choices} (h1 : shortlexLe a b = true)
    (h2 : shortlexLe b a = true) : a = b := by
  simp only [shortlexLe, Bool.or_eq_true, decide_eq_true_eq, Bool.and_eq_true, beq_iff_eq] at *
  rcases h1 with h1 | ⟨h1, h1'⟩ <;> rcases h2 with h2 | ⟨h2, h2'⟩
  · omega
  · omega
  · omega
  · exact lexLe_antisymm h1 h1' h2'

/-! ### the rank function: strictly monotone for shortlex, hence a termination measure -/

/-- number of sequences of length `< n` -/
def geo : Nat → Nat
  | 0 => 0
  | n + 1 => 256 ^ n + geo n

/-- base-256 value -/
def lexVal : Choices → Nat
  | [] => 0
  | c :: cs => c.toNat * 256 ^ cs.length + lexVal cs

theorem lexVal_lt : ∀ c : Choices, lexVal c < 256 ^ c.length
  | [] => by simp [lexVal]
  | c :: cs => by
    have h := lexVal_lt cs
    have hc : c.toNat < 256 := c.toNat_lt
    simp only [lexVal, List.length_cons, Nat.pow_succ]
    have : c.toNat * 256 ^ cs.length + 256 ^ cs.length ≤ 255 * 256 ^ cs.length + 256 ^ cs.length := by
      apply Nat.add_le_add_right
      exact Nat.mul_le_mul_right _ (by omega)
    omega

theorem shortlexRank_eq : ∀ c : Choices, shortlexRank c = geo c.length + lexVal c
  | [] => rfl
  | c :: cs => by
    simp only [shortlexRank, List.length_cons, geo, lexVal, shortlexRank_eq cs]; omega

theorem geo_mono {m n : Nat} (h : m ≤ n) : geo m ≤ geo n := by
  induction n with
  | zero => have : m = 0 := by omega
            subst this; exact Nat.le_refl _
  | succ n ih =>
    by_cases hm : m = n + 1
    · subst hm; exact Nat.le_refl _
    · have := ih (by omega)
      have hp : 0 < 256 ^ n := Nat.pow_pos (by omega)
      simp only [geo]; omega

theorem lexVal_le_of_lexLe : ∀ {a b : Choices}, a.length = b.length → lexLe a b = true →
    lexVal a ≤ lexVal b
  | [], [], _, _ => Nat.le_refl _
  | [], _ :: _, h, _ => by simp at h
  | _ :: _, [], h, _ => by simp at h
  | a :: as, b :: bs, hl, h => by
    simp only [List.length_cons, Nat.add_right_cancel_iff] at hl
    simp only [lexLe, Bool.or_eq_true, decide_eq_true_eq, Bool.and_eq_true, beq_iff_eq] at h
    simp only [lexVal, hl]
    rcases h with h | ⟨h, h'⟩
    · have h1 := lexVal_lt as
      rw [hl] at h1
      simp only [UInt8.lt_iff_toNat_lt] at h
      have : (a.toNat + 1) * 256 ^ bs.length ≤ b.toNat * 256 ^ bs.length :=
        Nat.mul_le_mul_right _ h
      rw [Nat.add_mul] at this
      omega
    · subst h
      have := lexVal_le_of_lexLe hl h'
      omega

theorem lexVal_inj : ∀ {a b : Choices}, a.length = b.length → lexVal a = lexVal b → a = b
  | [], [], _, _ => rfl
  | [], _ :: _, h, _ => by simp at h
  | _ :: _, [], h, _ => by simp at h
  | a :: as, b :: bs, hl, h => by
    simp only [List.length_cons, Nat.add_right_cancel_iff] at hl
    simp only [lexVal, hl] at h
    have h1 := lexVal_lt as
    have h2 := lexVal_lt bs
    rw [hl] at h1
    have hpos : 0 < 256 ^ bs.length := Nat.pow_pos (by omega)
    have hab : a.toNat = b.toNat := by
      rcases Nat.lt_trichotomy a.toNat b.toNat with hlt | heq | hgt
      · have : (a.toNat + 1) * 256 ^ bs.length ≤ b.toNat * 256 ^ bs.length :=
          Nat.mul_le_mul_right _ hlt
        rw [Nat.add_mul] at this; omega
      · exact heq
      · have : (b.toNat + 1) * 256 ^ bs.length ≤ a.toNat * 256 ^ bs.length :=
          Nat.mul_le_mul_right _ hgt
        rw [Nat.add_mul] at this; omega
    have hab' : a = b := UInt8.toNat_inj.mp hab
    subst hab'
    have : lexVal as = lexVal bs := by omega
    rw [lexVal_inj hl this]

/-- a strict shortlex descent strictly lowers the rank -/
theorem shortlexRank_lt {a b : Choices} (h : shortlexLe a b = true) (hne : a ≠ b) :
    shortlexRank a < shortlexRank b := by
  simp only [shortlexLe, Bool.or_eq_true, decide_eq_true_eq, Bool.and_eq_true, beq_iff_eq] at h
  rw [shortlexRank_eq, shortlexRank_eq]
  rcases h with h | ⟨hl, h⟩
  · have h1 := lexVal_lt a
    have h2 : geo (a.length + 1) ≤ geo b.length := geo_mono h
    simp only [geo] at h2
    omega
  · have h1 := lexVal_le_of_lexLe hl h
    have h2 : lexVal a ≠ lexVal b := fun he => hne (lexVal_inj hl he)
    rw [hl]; omega

end AikenVerif.Shrink
