import AikenVerif.Lemmas.BuiltinTyped
/-! The machine never panics on well-formed, well-typed states, and keeps them so. -/
namespace AikenVerif
open Gen

def StepSafe : StepResult → Prop
  | .next _ s' => s'.wt = true
  | .panic => False
  | _ => True

theorem spendBudget_cases' (a : Acct) (c : ExBudget) :
    spendBudget a c = .oob ∨ ∃ a', spendBudget a c = .ok a' ∧ a'.counts = a.counts := by
  unfold spendBudget
  simp only
  split
  · exact Or.inl rfl
  · exact Or.inr ⟨_, rfl, rfl⟩

theorem evalBuiltinApp_safe (cfg : Config) (a : Acct) (b : Builtin) (args : List Value)
    (hl : args.length = b.arity) (hw : Value.wtList args = true) :
    match evalBuiltinApp cfg a b args with
    | .ok (_, v) => v.wt = true
    | .panic => False
    | _ => True := by
  unfold evalBuiltinApp
  have hnp := builtinCost_np cfg.costs cfg.sem b args hl
  have hcases := builtinCost_cases cfg.costs cfg.sem b args
  cases hc : builtinCost cfg.costs cfg.sem b args with
  | panic => exact absurd hc hnp
  | err => simp [Outcome.ofRes]
  | unmodelled => simp [Outcome.ofRes]
  | ok c =>
    have hpre := hcases.2 c hc
    simp only [Outcome.ofRes, Outcome.bind_ok']
    rcases spendBudget_cases' a c with hs | ⟨a', hs, _⟩
    · rw [hs]; simp
    · rw [hs]
      simp only [Outcome.bind_ok']
      have hnp2 := callBuiltin_np cfg.sem b args hl hw hpre
      cases hcall : callBuiltin cfg.sem b args with
      | ok v =>
        simp only [Outcome.ofRes, Outcome.bind_ok', Outcome.pure_eq]
        exact callBuiltin_wt cfg.sem b args v hl hw hcall
      | err => simp [Outcome.ofRes]
      | panic => exact absurd hcall hnp2
      | unmodelled => simp [Outcome.ofRes]

theorem wt_of_getElem? {vs : List Value} {i : Nat} {v : Value} (h : Value.wtList vs = true)
    (hv : vs[i]? = some v) : v.wt = true :=
  (Value.wtList_iff vs).1 h v (List.mem_of_getElem? hv)

theorem twt_of_getElem? {ts : List NTerm} {i : Nat} {t : NTerm} (h : Term.wtList ts = true)
    (ht : ts[i]? = some t) : Term.wt t = true :=
  (Term.wtList_iff ts).1 h t (List.mem_of_getElem? ht)

theorem pushArgs_wt (fields : List Value) (ctx : Ctx) (hf : Value.wtList fields = true)
    (hc : ctx.all Frame.wt = true) : (Spec.pushArgs fields ctx).all Frame.wt = true := by
  unfold Spec.pushArgs
  rw [List.all_append, hc, Bool.and_true, List.all_map, List.all_eq_true]
  intro v hv
  exact (Value.wtList_iff fields).1 hf v hv

theorem caseOnConst_fields_wt (c : Const) (tag : Nat) (fields : List Value) (m : Option Nat)
    (hc : c.wt = true) (h : caseOnConst c = some (tag, fields, m)) : Value.wtList fields = true := by
  cases c with
  | list t xs =>
    cases xs with
    | nil => simp [caseOnConst] at h; obtain ⟨_, rfl, _⟩ := h; rfl
    | cons x rest =>
      simp [caseOnConst] at h; obtain ⟨_, rfl, _⟩ := h
      simp only [Const.wt, Const.wtList, Bool.and_eq_true] at hc
      simp [Value.wtList, Value.wt, Const.wt, hc.1.2, hc.2]
  | pair _ _ x y =>
    simp [caseOnConst] at h; obtain ⟨_, rfl, _⟩ := h
    simp only [Const.wt, Bool.and_eq_true] at hc
    simp [Value.wtList, Value.wt, hc.1.2, hc.2]
  | unit => simp [caseOnConst] at h; obtain ⟨_, rfl, _⟩ := h; rfl
  | bool b => cases b <;> simp [caseOnConst] at h <;> obtain ⟨_, rfl, _⟩ := h <;> rfl
  | integer i =>
    simp only [caseOnConst] at h
    split at h
    · cases h
    · simp at h; obtain ⟨_, rfl, _⟩ := h; rfl
  | bytestring _ => simp [caseOnConst] at h
  | string _ => simp [caseOnConst] at h
  | data _ => simp [caseOnConst] at h
  | g1 _ => simp [caseOnConst] at h
  | g2 _ => simp [caseOnConst] at h
  | ml _ => simp [caseOnConst] at h

theorem builtinApp_safe (cfg : Config) (a : Acct) (ctx : Ctx) (b : Builtin) (forces : Nat) (args : List Value)
    (hctx : ctx.all Frame.wt = true) (hw : Value.wtList args = true) :
    StepSafe (.ofOutcome
      (if args.length = b.arity then
        (evalBuiltinApp cfg a b args >>= fun (p : Acct × Value) => pure (p.1, State.ret ctx p.2))
       else .ok (a, .ret ctx (.builtin b forces args)))) := by
  by_cases hl : args.length = b.arity
  · simp only [hl, if_true]
    have := evalBuiltinApp_safe cfg a b args hl hw
    revert this
    cases evalBuiltinApp cfg a b args with
    | ok p =>
      obtain ⟨a', v⟩ := p
      intro hv
      simp only [Outcome.bind_ok', Outcome.pure_eq, StepResult.ofOutcome, StepSafe, State.wt, hctx, hv, Bool.and_self]
    | fail => intro _; simp [StepResult.ofOutcome, StepSafe]
    | oob => intro _; simp [StepResult.ofOutcome, StepSafe]
    | panic => intro h; exact h
    | unmodelled => intro _; simp [StepResult.ofOutcome, StepSafe]
  · simp only [hl, if_false, StepResult.ofOutcome, StepSafe, State.wt, hctx, Value.wt, hw, Bool.and_self]

theorem applyEvaluate_safe (cfg : Config) (a : Acct) (ctx : Ctx) (fn arg : Value)
    (hctx : ctx.all Frame.wt = true) (hfn : fn.wt = true) (harg : arg.wt = true) :
    StepSafe (.ofOutcome (applyEvaluate cfg a ctx fn arg)) := by
  cases fn with
  | lam n body env =>
    simp only [Value.wt, Bool.and_eq_true] at hfn
    simp [applyEvaluate, StepResult.ofOutcome, StepSafe, State.wt, hctx, Value.wtList_append, hfn.1, hfn.2,
      Value.wtList, harg]
  | builtin b forces args =>
    simp only [Value.wt] at hfn
    simp only [applyEvaluate]
    split
    · exact builtinApp_safe cfg a ctx b forces (args ++ [arg]) hctx
        (by simp [Value.wtList_append, hfn, Value.wtList, harg])
    · simp [StepResult.ofOutcome, StepSafe]
  | con c => simp [applyEvaluate, StepResult.ofOutcome, StepSafe]
  | delay _ _ => simp [applyEvaluate, StepResult.ofOutcome, StepSafe]
  | constr _ _ => simp [applyEvaluate, StepResult.ofOutcome, StepSafe]

theorem forceEvaluate_safe (cfg : Config) (a : Acct) (ctx : Ctx) (v : Value)
    (hctx : ctx.all Frame.wt = true) (hv : v.wt = true) :
    StepSafe (.ofOutcome (forceEvaluate cfg a ctx v)) := by
  cases v with
  | delay body env =>
    simp only [Value.wt, Bool.and_eq_true] at hv
    simp [forceEvaluate, StepResult.ofOutcome, StepSafe, State.wt, hctx, hv.1, hv.2]
  | builtin b forces args =>
    simp only [Value.wt] at hv
    simp only [forceEvaluate]
    split
    · exact builtinApp_safe cfg a ctx b (forces + 1) args hctx hv
    · simp [StepResult.ofOutcome, StepSafe]
  | con c => simp [forceEvaluate, StepResult.ofOutcome, StepSafe]
  | lam _ _ _ => simp [forceEvaluate, StepResult.ofOutcome, StepSafe]
  | constr _ _ => simp [forceEvaluate, StepResult.ofOutcome, StepSafe]

end AikenVerif

namespace AikenVerif
open Gen

theorem step_safe (cfg : Config) (a : Acct) (s : State) (hwt : s.wt = true) (ha : AcctWF a) :
    StepSafe (step cfg a s) := by
  cases s with
  | compute ctx env t =>
    simp only [State.wt, Bool.and_eq_true] at hwt
    obtain ⟨⟨hctx, henv⟩, ht⟩ := hwt
    cases t with
    | var n =>
      simp only [step, computeStep]
      apply charge_then cfg a _ ha _ StepSafe trivial trivial
      intro a' _
      rw [lookupVar_eq]
      cases h : Spec.lookup env n.index with
      | some v =>
        have hv : v.wt = true := by
          unfold Spec.lookup at h
          split at h
          · cases h
          · exact (Value.wtList_iff env).1 henv v (by simpa using List.mem_of_getElem? h)
        simp [StepResult.ofOutcome, StepSafe, State.wt, hctx, hv]
      | none => simp [StepResult.ofOutcome, StepSafe]
    | delay body =>
      simp only [step, computeStep]
      apply charge_then cfg a _ ha _ StepSafe trivial trivial
      intro a' _
      simp only [Term.wt] at ht
      simp [StepResult.ofOutcome, StepSafe, State.wt, hctx, Value.wt, henv, ht]
    | lam n body =>
      simp only [step, computeStep]
      apply charge_then cfg a _ ha _ StepSafe trivial trivial
      intro a' _
      simp only [Term.wt] at ht
      simp [StepResult.ofOutcome, StepSafe, State.wt, hctx, Value.wt, henv, ht]
    | app f x =>
      simp only [step, computeStep]
      apply charge_then cfg a _ ha _ StepSafe trivial trivial
      intro a' _
      simp only [Term.wt, Bool.and_eq_true] at ht
      simp [StepResult.ofOutcome, StepSafe, State.wt, hctx, Frame.wt, henv, ht.1, ht.2]
    | const c =>
      simp only [step, computeStep]
      apply charge_then cfg a _ ha _ StepSafe trivial trivial
      intro a' _
      simp only [Term.wt] at ht
      simp [StepResult.ofOutcome, StepSafe, State.wt, hctx, Value.wt, ht]
    | force body =>
      simp only [step, computeStep]
      apply charge_then cfg a _ ha _ StepSafe trivial trivial
      intro a' _
      simp only [Term.wt] at ht
      simp [StepResult.ofOutcome, StepSafe, State.wt, hctx, Frame.wt, henv, ht]
    | error =>
      simp only [step, computeStep]
      apply charge_then cfg a _ ha _ StepSafe trivial trivial
      intro a' _
      simp [StepResult.ofOutcome, StepSafe]
    | builtin b =>
      simp only [step, computeStep]
      apply charge_then cfg a _ ha _ StepSafe trivial trivial
      intro a' _
      simp [StepResult.ofOutcome, StepSafe, State.wt, hctx, Value.wt, Value.wtList]
    | constr tag fields =>
      simp only [step, computeStep]
      apply charge_then cfg a _ ha _ StepSafe trivial trivial
      intro a' _
      simp only [Term.wt] at ht
      cases fields with
      | nil => simp [StepResult.ofOutcome, StepSafe, State.wt, hctx, Value.wt, Value.wtList]
      | cons m ms =>
        simp only [Term.wtList, Bool.and_eq_true] at ht
        simp [StepResult.ofOutcome, StepSafe, State.wt, hctx, Frame.wt, henv, ht.1, ht.2, Value.wtList]
    | case scrut branches =>
      simp only [step, computeStep]
      apply charge_then cfg a _ ha _ StepSafe trivial trivial
      intro a' _
      simp only [Term.wt, Bool.and_eq_true] at ht
      simp [StepResult.ofOutcome, StepSafe, State.wt, hctx, Frame.wt, henv, ht.1, ht.2]
  | ret ctx v =>
    simp only [State.wt, Bool.and_eq_true] at hwt
    obtain ⟨hctx, hv⟩ := hwt
    cases ctx with
    | nil =>
      simp only [step]
      have hfl : Benign AcctWF
          (if a.counts.getD (a.counts.length - 1) 0 > 0 then spendUnbudgeted cfg.costs a else .ok a) := by
        split
        · exact spendUnbudgeted_benign cfg.costs a ha
        · exact ha
      revert hfl
      generalize (if a.counts.getD (a.counts.length - 1) 0 > 0 then spendUnbudgeted cfg.costs a else Outcome.ok a) = fl
      intro hfl
      cases fl with
      | ok a' => simp [StepSafe]
      | oob => simp [StepSafe]
      | unmodelled => simp [StepSafe]
      | fail => simp [StepSafe]
      | panic => exact absurd hfl (by simp [Benign])
    | cons fr ctx =>
      simp only [List.all_cons, Bool.and_eq_true] at hctx
      obtain ⟨hfr, hctx⟩ := hctx
      simp only [step, returnStep]
      cases fr with
      | force => exact forceEvaluate_safe cfg a ctx v hctx hv
      | awaitFunTerm argEnv arg =>
        simp only [Frame.wt, Bool.and_eq_true] at hfr
        simp [StepResult.ofOutcome, StepSafe, State.wt, hctx, Frame.wt, hv, hfr.1, hfr.2]
      | awaitArg fn =>
        simp only [Frame.wt] at hfr
        exact applyEvaluate_safe cfg a ctx fn v hctx hfr hv
      | awaitFunValue arg =>
        simp only [Frame.wt] at hfr
        exact applyEvaluate_safe cfg a ctx v arg hctx hv hfr
      | constr env tag todo done =>
        simp only [Frame.wt, Bool.and_eq_true] at hfr
        obtain ⟨⟨henv, htodo⟩, hdone⟩ := hfr
        cases todo with
        | nil =>
          simp [StepResult.ofOutcome, StepSafe, State.wt, hctx, Value.wt, Value.wtList_append, hdone,
            Value.wtList, hv]
        | cons m ms =>
          simp only [Term.wtList, Bool.and_eq_true] at htodo
          simp [StepResult.ofOutcome, StepSafe, State.wt, hctx, Frame.wt, henv, htodo.1, htodo.2,
            Value.wtList_append, hdone, Value.wtList, hv]
      | cases env branches =>
        simp only [Frame.wt, Bool.and_eq_true] at hfr
        obtain ⟨henv, hbr⟩ := hfr
        cases v with
        | constr tag fields =>
          simp only [Value.wt] at hv
          dsimp only
          cases hb : branches[tag]? with
          | none => simp [StepResult.ofOutcome, StepSafe]
          | some t =>
            simp only [StepResult.ofOutcome, StepSafe, transferArgStack_eq]
            simp [State.wt, pushArgs_wt fields ctx hv hctx, henv, twt_of_getElem? hbr hb]
        | con c =>
          simp only [Value.wt] at hv
          dsimp only
          split
          · simp [StepResult.ofOutcome, StepSafe]
          · cases hco : caseOnConst c with
            | none => simp [StepResult.ofOutcome, StepSafe]
            | some p =>
              obtain ⟨tag, fields, maxB⟩ := p
              have hfw := caseOnConst_fields_wt c tag fields maxB hv hco
              simp only
              split
              · simp [StepResult.ofOutcome, StepSafe]
              · cases hb : branches[tag]? with
                | none => simp [StepResult.ofOutcome, StepSafe]
                | some t =>
                  simp only [StepResult.ofOutcome, StepSafe, transferArgStack_eq]
                  simp [State.wt, pushArgs_wt fields ctx hfw hctx, henv, twt_of_getElem? hbr hb]
        | delay _ _ => simp [StepResult.ofOutcome, StepSafe]
        | lam _ _ _ => simp [StepResult.ofOutcome, StepSafe]
        | builtin _ _ _ => simp [StepResult.ofOutcome, StepSafe]

end AikenVerif
