import AikenVerif.Model.Flat
import AikenVerif.Lemmas.CekTyped
/-!
Bridge C20/C08 → C10: everything the flat decoder (model of `flat.rs`) produces has well-typed
constants — the hypothesis `Term.wt` of `cek_no_panic` / `cek_total`.  The decoder reads the items
of a list constant BY the declared element type, so a decoded list can only contain items of that
type.
-/
namespace AikenVerif.Flat
open AikenVerif Gen

/-- post-condition of a decoder: every successful result satisfies `P` -/
structure DPost {α : Type} (d : Dec α) (P : α → Prop) : Prop where
  out : ∀ s v s', d s = .ok (v, s') → P v

theorem DPost.bind {α β : Type} {d : Dec α} {f : α → Dec β} {P : α → Prop} {Q : β → Prop}
    (hd : DPost d P) (hf : ∀ a, P a → DPost (f a) Q) : DPost (d.bind f) Q := by
  constructor
  intro s v s' h
  simp only [Dec.bind] at h
  cases hds : d s with
  | ok p =>
    obtain ⟨a, s1⟩ := p
    rw [hds] at h
    exact (hf a (hd.out s a s1 hds)).out s1 v s' h
  | err => rw [hds] at h; cases h
  | panic => rw [hds] at h; cases h
  | fuel => rw [hds] at h; cases h

theorem DPost.pure {α : Type} {v : α} {P : α → Prop} (h : P v) : DPost (Dec.pure v) P := by
  constructor
  intro s v' s' he
  simp only [Dec.pure] at he
  cases he; exact h

theorem DPost.fail {α : Type} {P : α → Prop} : DPost (Dec.fail : Dec α) P := by
  constructor
  intro s v s' h; cases h

theorem DPost.triv {α : Type} (d : Dec α) : DPost d (fun _ => True) := ⟨fun _ _ _ _ => trivial⟩

theorem decList_post {α : Type} {f : Dec α} {P : α → Prop} (hf : DPost f P) :
    ∀ k, DPost (decList f k) (fun xs => ∀ x ∈ xs, P x) := by
  intro k
  induction k with
  | zero => exact ⟨fun s v s' h => by cases h⟩
  | succ k ih =>
    simp only [decList]
    apply DPost.bind (DPost.triv decBit)
    intro b _
    cases b with
    | true =>
      simp only [if_true]
      apply DPost.bind hf
      intro x hx
      apply DPost.bind ih
      intro xs hxs
      apply DPost.pure
      intro y hy
      rcases List.mem_cons.mp hy with rfl | hy
      · exact hx
      · exact hxs y hy
    | false =>
      simp only [Bool.false_eq_true, if_false]
      apply DPost.pure
      intro y hy; cases hy

theorem wtList_of_forall (t : Ty) : ∀ xs : List Const, (∀ x ∈ xs, x.ty = t ∧ x.wt = true) → Const.wtList t xs = true
  | [], _ => rfl
  | x :: xs, h => by
    have hx := h x (by simp)
    simp only [Const.wtList, Bool.and_eq_true, beq_iff_eq]
    exact ⟨⟨hx.1, hx.2⟩, wtList_of_forall t xs (fun y hy => h y (by simp [hy]))⟩

/-- a constant decoded by type `t` has type `t` and is well-typed -/
theorem decVal_post (cd : DataCodec) (m : Mode) : ∀ t : Ty, DPost (decVal cd m t) (fun c => c.ty = t ∧ c.wt = true)
  | .integer => by
    simp only [decVal]; exact DPost.bind (DPost.triv _) (fun _ _ => DPost.pure ⟨rfl, rfl⟩)
  | .bytestring => by
    simp only [decVal]; exact DPost.bind (DPost.triv _) (fun _ _ => DPost.pure ⟨rfl, rfl⟩)
  | .string => by
    simp only [decVal]; exact DPost.bind (DPost.triv _) (fun _ _ => DPost.pure ⟨rfl, rfl⟩)
  | .unit => by simp only [decVal]; exact DPost.pure ⟨rfl, rfl⟩
  | .bool => by
    simp only [decVal]; exact DPost.bind (DPost.triv _) (fun _ _ => DPost.pure ⟨rfl, rfl⟩)
  | .list t => by
    simp only [decVal]
    constructor
    intro s v s' h
    have ih := decVal_post cd m t
    have := DPost.bind (decList_post ih (s.bs.length + 1))
      (f := fun xs => Dec.pure (Const.list t xs)) (Q := fun c => c.ty = .list t ∧ c.wt = true)
      (fun xs hxs => DPost.pure ⟨rfl, by simp only [Const.wt]; exact wtList_of_forall t xs hxs⟩)
    exact this.out s v s' h
  | .pair a b => by
    simp only [decVal]
    apply DPost.bind (decVal_post cd m a)
    intro x hx
    apply DPost.bind (decVal_post cd m b)
    intro y hy
    apply DPost.pure
    refine ⟨rfl, ?_⟩
    simp only [Const.wt, Bool.and_eq_true, beq_iff_eq]
    exact ⟨⟨⟨hx.1, hy.1⟩, hx.2⟩, hy.2⟩
  | .data => by
    simp only [decVal]
    apply DPost.bind (DPost.triv _)
    intro b _
    cases cd.dec b with
    | some d => exact DPost.pure ⟨rfl, rfl⟩
    | none => exact DPost.fail
  | .g1 => by simp only [decVal]; exact DPost.bind (DPost.triv _) (fun _ _ => DPost.fail)
  | .g2 => by simp only [decVal]; exact DPost.bind (DPost.triv _) (fun _ _ => DPost.fail)
  | .ml => by simp only [decVal]; exact DPost.fail

theorem decConst_post (cd : DataCodec) (m : Mode) : DPost (decConst cd m) (fun c => c.wt = true) := by
  unfold decConst
  apply DPost.bind (DPost.triv _)
  intro tags _
  cases decConstTy tags with
  | ok t => exact ⟨fun s v s' h => ((decVal_post cd m t).out s v s' h).2⟩
  | err => exact DPost.fail
  | panic => exact ⟨fun s v s' h => by cases h⟩
  | fuel => exact ⟨fun s v s' h => by cases h⟩

theorem termWtList_of_forall : ∀ ts : List NTerm, (∀ t ∈ ts, Term.wt t = true) → Term.wtList ts = true
  | [], _ => rfl
  | t :: ts, h => by
    simp only [Term.wtList, Bool.and_eq_true]
    exact ⟨h t (by simp), termWtList_of_forall ts (fun y hy => h y (by simp [hy]))⟩

/-- every term the flat decoder produces has well-typed constants -/
theorem decTerm_post (cd : DataCodec) (m : Mode) : ∀ f : Nat,
    DPost (decTerm (β := NamedDeBruijn) cd m f) (fun t => Term.wt t = true) := by
  intro f
  induction f with
  | zero => exact ⟨fun s v s' h => by cases h⟩
  | succ f ih =>
    simp only [decTerm]
    apply DPost.bind (DPost.triv _)
    intro tag _
    cases termCtorOfTag tag with
    | none => exact DPost.fail
    | some c =>
      cases c with
      | var => exact DPost.bind (DPost.triv _) (fun _ _ => DPost.pure rfl)
      | delay => exact DPost.bind ih (fun t ht => DPost.pure (by simpa [Term.wt] using ht))
      | lambda =>
        exact DPost.bind (DPost.triv _) (fun _ _ => DPost.bind ih (fun t ht => DPost.pure (by simpa [Term.wt] using ht)))
      | apply =>
        exact DPost.bind ih (fun g hg => DPost.bind ih (fun a ha => DPost.pure (by simp [Term.wt, hg, ha])))
      | constant => exact DPost.bind (decConst_post cd m) (fun c hc => DPost.pure (by simpa [Term.wt] using hc))
      | force => exact DPost.bind ih (fun t ht => DPost.pure (by simpa [Term.wt] using ht))
      | error => exact DPost.pure rfl
      | builtin => exact DPost.bind (DPost.triv _) (fun _ _ => DPost.pure rfl)
      | constr =>
        exact DPost.bind (DPost.triv _) (fun _ _ => DPost.bind (decList_post ih f)
          (fun fs hfs => DPost.pure (by simp only [Term.wt]; exact termWtList_of_forall fs hfs)))
      | case =>
        exact DPost.bind ih (fun s hs => DPost.bind (decList_post ih f)
          (fun bs hbs => DPost.pure (by simp only [Term.wt, Bool.and_eq_true]; exact ⟨hs, termWtList_of_forall bs hbs⟩)))

/-- **C10 ⟵ C20**: a program decoded from ANY bytes satisfies the hypothesis of `cek_no_panic` -/
theorem fromFlat_wt (cd : DataCodec) (m : Mode) (bytes : Bytes) (p : Program NamedDeBruijn)
    (h : fromFlat cd m bytes = .ok p) : Term.wt p.term = true := by
  unfold fromFlat at h
  cases hd : decProgram (β := NamedDeBruijn) cd m ⟨0, bitsOfBytes bytes⟩ with
  | ok r =>
    obtain ⟨p', s'⟩ := r
    rw [hd] at h
    cases h
    have hpost : DPost (decProgram (β := NamedDeBruijn) cd m) (fun p => Term.wt p.term = true) := by
      constructor
      intro s v s1 hs
      unfold decProgram at hs
      have := DPost.bind (DPost.triv (decWord m)) (Q := fun p : Program NamedDeBruijn => Term.wt p.term = true)
        (f := fun a => (decWord m).bind fun b => (decWord m).bind fun c =>
          (decTerm cd m (s.bs.length + 1)).bind fun t => decFiller.bind fun _ => Dec.pure ⟨(a, b, c), t⟩)
        (fun a _ => DPost.bind (DPost.triv _) (fun b _ => DPost.bind (DPost.triv _) (fun c _ =>
          DPost.bind (decTerm_post cd m _) (fun t ht => DPost.bind (DPost.triv _) (fun _ _ => DPost.pure ht)))))
      exact this.out s v s1 hs
    exact hpost.out _ _ _ hd
  | err => rw [hd] at h; cases h
  | panic => rw [hd] at h; cases h
  | fuel => rw [hd] at h; cases h

end AikenVerif.Flat
