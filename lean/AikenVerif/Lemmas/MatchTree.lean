import AikenVerif.Lemmas.MatchBasic
/-!
Decision trees (C07): for an ARBITRARY column-selection function `sel`, evaluating
`build sel M` on a value vector returns the index of the first row of `M` that matches.
-/
namespace AikenVerif.Match

/-- naive first match over indexed rows -/
def firstMatchRows : IMatrix → List Val → Option Nat
  | [], _ => none
  | r :: M, vs => if pmatchL r.2 vs then some r.1 else firstMatchRows M vs

theorem allWild_matches {r : Row} {vs : List Val} (h : allWild r = true) (hl : r.length = vs.length) :
    pmatchL r vs = true := by
  induction r generalizing vs with
  | nil => cases vs <;> simp_all [pmatchL]
  | cons p r ih =>
    cases vs with
    | nil => simp at hl
    | cons v vs =>
      cases p with
      | wild =>
        simp only [allWild] at h
        simp only [List.length_cons, Nat.add_right_cancel_iff] at hl
        simp [pmatchL, pmatch, ih h hl]
      | lit l => simp [allWild] at h
      | ctor c a args => simp [allWild] at h

/-- a row matches iff its column `j` matches and the rest matches -/
theorem pmatchL_eraseIdx {r : Row} {vs : List Val} {j : Nat} {p : Pat} {v : Val}
    (hp : r[j]? = some p) (hv : vs[j]? = some v) :
    pmatchL r vs = (pmatch p v && pmatchL (r.eraseIdx j) (vs.eraseIdx j)) := by
  induction j generalizing r vs with
  | zero =>
    cases r with
    | nil => simp at hp
    | cons q r =>
      cases vs with
      | nil => simp at hv
      | cons w vs =>
        simp at hp hv; subst hp; subst hv
        simp [pmatchL]
  | succ j ih =>
    cases r with
    | nil => simp at hp
    | cons q r =>
      cases vs with
      | nil => simp at hv
      | cons w vs =>
        simp at hp hv
        simp only [pmatchL, List.eraseIdx_cons_succ, ih hp hv]
        cases pmatch q w <;> cases pmatch p v <;> simp

theorem headFields_arity {hd : Head} {v : Val} {ws : List Val} (h : headFields hd v = some ws) :
    ws.length = hd.arity := by
  cases hd with
  | ctor c a =>
    cases v with
    | lit l => simp [headFields] at h
    | ctor c' vs =>
      simp only [headFields] at h
      split at h
      · rename_i hc; cases h; simp [Head.arity, hc.2]
      · cases h
  | lit l =>
    cases v with
    | ctor c' vs => simp [headFields] at h
    | lit l' =>
      simp only [headFields] at h
      split at h
      · cases h; simp [Head.arity]
      · cases h

/-- pattern `p` against a value with head `hd` and fields `ws` -/
theorem pmatch_of_headFields {hd : Head} {v : Val} {ws : List Val} (h : headFields hd v = some ws)
    (p : Pat) :
    pmatch p v =
      match p with
      | .wild => true
      | .lit l => decide (hd = .lit l)
      | .ctor c _ args => decide (hd = .ctor c args.length) && pmatchL args ws := by
  cases hd with
  | ctor c a =>
    cases v with
    | lit l => simp [headFields] at h
    | ctor c' vs =>
      simp only [headFields] at h
      split at h
      · rename_i hc
        cases h
        obtain ⟨e1, e2⟩ := hc
        subst e1 e2
        cases p with
        | wild => simp [pmatch]
        | lit l => simp [pmatch]
        | ctor c'' alts args =>
          simp only [pmatch, Head.ctor.injEq]
          by_cases hc : c'' = c
          · subst hc
            by_cases hl : args.length = ws.length
            · simp [hl]
            · have : pmatchL args ws = false := by
                cases hm : pmatchL args ws with
                | false => rfl
                | true => exact absurd (pmatchL_length hm) hl
              simp [this]
          · have : ¬ c = c'' := fun e => hc e.symm
            simp [hc, this]
      · cases h
  | lit l =>
    cases v with
    | ctor c' vs => simp [headFields] at h
    | lit l' =>
      simp only [headFields] at h
      split at h
      · rename_i e; cases h; subst e
        cases p with
        | wild => simp [pmatch]
        | lit l'' =>
          simp only [pmatch, Head.lit.injEq]
          by_cases e : l'' = l
          · subst e; simp
          · have : ¬ l = l'' := fun e' => e e'.symm
            simp [e, this]
        | ctor c'' alts args => simp [pmatch]
      · cases h

/-- a pattern with head `hd` cannot match a value that does not have head `hd` -/
theorem pmatch_false_of_headFields_none {hd : Head} {v : Val} (h : headFields hd v = none)
    {p : Pat} (hp : headOf p = some hd) : pmatch p v = false := by
  cases p with
  | wild => simp [headOf] at hp
  | lit l =>
    simp only [headOf, Option.some.injEq] at hp; subst hp
    cases v with
    | ctor c vs => simp [pmatch]
    | lit l' =>
      simp only [headFields] at h
      split at h
      · cases h
      · rename_i hne; simp [pmatch, hne]
  | ctor c alts args =>
    simp only [headOf, Option.some.injEq] at hp; subst hp
    cases v with
    | lit l => simp [pmatch]
    | ctor c' vs =>
      simp only [headFields] at h
      split at h
      · cases h
      · rename_i hne
        simp only [pmatch]
        by_cases hc : c = c'
        · have hl : ¬ vs.length = args.length := fun e => hne ⟨hc, e⟩
          have : pmatchL args vs = false := by
            cases hm : pmatchL args vs with
            | false => rfl
            | true => exact absurd (pmatchL_length hm).symm hl
          simp [this]
        · simp [hc]

/-- one row, "yes" branch -/
theorem treeSpecRow_matches {j : Nat} {hd : Head} {r : IRow} {vs ws : List Val} {v : Val}
    (hl : r.2.length = vs.length) (hv : vs[j]? = some v) (hf : headFields hd v = some ws) :
    (∀ r', treeSpecRow j hd r = some r' →
        r'.1 = r.1 ∧ pmatchL r'.2 (ws ++ vs.eraseIdx j) = pmatchL r.2 vs) ∧
      (treeSpecRow j hd r = none → pmatchL r.2 vs = false) := by
  have hj : j < r.2.length := by
    rw [hl]; exact (List.getElem?_eq_some_iff.mp hv).1
  obtain ⟨p, hp⟩ : ∃ p, r.2[j]? = some p := ⟨r.2[j], by simp [hj]⟩
  have hsplit := pmatchL_eraseIdx hp hv
  have hpm := pmatch_of_headFields hf p
  have hwl := headFields_arity hf
  unfold treeSpecRow
  rw [hp]
  cases p with
  | wild =>
    simp only at hpm ⊢
    constructor
    · intro r' e
      cases e
      refine ⟨rfl, ?_⟩
      simp only
      rw [pmatchL_append (by simp [hwl]), pmatchL_wilds hwl, hsplit, hpm]
    · intro e; cases e
  | lit l =>
    simp only at hpm ⊢
    by_cases eh : hd = .lit l
    · rw [if_pos eh]
      constructor
      · intro r' e
        cases e
        refine ⟨rfl, ?_⟩
        subst eh
        simp only [Head.arity] at hwl
        have : ws = [] := List.eq_nil_of_length_eq_zero hwl
        subst this
        simp [hsplit, hpm]
      · intro e; cases e
    · rw [if_neg eh]
      constructor
      · intro r' e; cases e
      · intro _; simp [hsplit, hpm, eh]
  | ctor c alts args =>
    simp only at hpm ⊢
    by_cases eh : hd = .ctor c args.length
    · rw [if_pos eh]
      constructor
      · intro r' e
        cases e
        refine ⟨rfl, ?_⟩
        subst eh
        simp only [Head.arity] at hwl
        simp only
        rw [pmatchL_append (by omega), hsplit, hpm]
        simp
      · intro e; cases e
    · rw [if_neg eh]
      constructor
      · intro r' e; cases e
      · intro _; simp [hsplit, hpm, eh]

theorem firstMatchRows_spec {j : Nat} {hd : Head} {vs ws : List Val} {v : Val}
    (hv : vs[j]? = some v) (hf : headFields hd v = some ws) (M : IMatrix)
    (hl : ∀ r ∈ M, r.2.length = vs.length) :
    firstMatchRows (M.filterMap (treeSpecRow j hd)) (ws ++ vs.eraseIdx j) = firstMatchRows M vs := by
  induction M with
  | nil => simp [firstMatchRows]
  | cons r M ih =>
    have hrow := treeSpecRow_matches (r := r) (hl r List.mem_cons_self) hv hf
    have ih' := ih (fun r' h => hl r' (List.mem_cons_of_mem _ h))
    simp only [List.filterMap_cons]
    split
    · rename_i e
      simp [firstMatchRows, hrow.2 e, ih']
    · rename_i r' e
      obtain ⟨h1, h2⟩ := hrow.1 r' e
      simp only [firstMatchRows, h1, h2, ih']

theorem firstMatchRows_keep {j : Nat} {hd : Head} {vs : List Val} {v : Val}
    (hv : vs[j]? = some v) (hf : headFields hd v = none) (M : IMatrix)
    (hl : ∀ r ∈ M, r.2.length = vs.length) :
    firstMatchRows (M.filter (treeKeepRow j hd)) vs = firstMatchRows M vs := by
  induction M with
  | nil => simp [firstMatchRows]
  | cons r M ih =>
    have ih' := ih (fun r' h => hl r' (List.mem_cons_of_mem _ h))
    simp only [List.filter_cons]
    split
    · simp [firstMatchRows, ih']
    · rename_i hk
      have hj : j < r.2.length := by
        rw [hl r List.mem_cons_self]; exact (List.getElem?_eq_some_iff.mp hv).1
      obtain ⟨p, hp⟩ : ∃ p, r.2[j]? = some p := ⟨r.2[j], by simp [hj]⟩
      simp only [treeKeepRow, hp, decide_eq_true_eq, ne_eq, Decidable.not_not] at hk
      have := pmatch_false_of_headFields_none hf hk
      have hm : pmatchL r.2 vs = false := by rw [pmatchL_eraseIdx hp hv, this]; simp
      simp [firstMatchRows, hm, ih']

theorem colHead_lt {j : Nat} {M : IMatrix} {hd : Head} (h : colHead j M = some hd) :
    ∃ r ∈ M, j < r.2.length := by
  induction M with
  | nil => simp [colHead] at h
  | cons r M ih =>
    unfold colHead at h
    split at h
    · rename_i p hp
      exact ⟨r, List.mem_cons_self, (List.getElem?_eq_some_iff.mp hp).1⟩
    · obtain ⟨r', hr', hlt⟩ := ih h
      exact ⟨r', List.mem_cons_of_mem _ hr', hlt⟩

theorem firstNonWild_spec {r : Row} (h : allWild r = false) :
    ∃ p, r[firstNonWild r]? = some p ∧ headOf p ≠ none := by
  induction r with
  | nil => simp [allWild] at h
  | cons q r ih =>
    cases q with
    | wild =>
      simp only [allWild] at h
      obtain ⟨p, hp, hh⟩ := ih h
      exact ⟨p, by simpa [firstNonWild] using hp, hh⟩
    | lit l => exact ⟨.lit l, by simp [firstNonWild], by simp [headOf]⟩
    | ctor c a args => exact ⟨.ctor c a args, by simp [firstNonWild], by simp [headOf]⟩

theorem colHead_firstNonWild {r : IRow} {M : IMatrix} (h : ¬ allWild r.2 = true) :
    colHead (firstNonWild r.2) (r :: M) ≠ none := by
  obtain ⟨p, hp, hh⟩ := firstNonWild_spec (by simpa using h)
  unfold colHead
  rw [hp]
  simp only
  cases hho : headOf p with
  | none => exact absurd hho hh
  | some hd => simp

theorem build_nil (sel : IMatrix → Nat) : build sel [] = .fail := by
  unfold build; rfl

theorem build_leaf (sel : IMatrix → Nat) {r : IRow} {M : IMatrix} (h : allWild r.2 = true) :
    build sel (r :: M) = .leaf r.1 := by
  rw [build]; simp [h]

theorem build_sel (sel : IMatrix → Nat) {r : IRow} {M : IMatrix} (h : ¬ allWild r.2 = true) {hd : Head}
    (hc : colHead (sel (r :: M)) (r :: M) = some hd) :
    build sel (r :: M) = .test (sel (r :: M)) hd
      (build sel ((r :: M).filterMap (treeSpecRow (sel (r :: M)) hd)))
      (build sel ((r :: M).filter (treeKeepRow (sel (r :: M)) hd))) := by
  rw [build, if_neg h]
  split
  · rename_i hd' h'
    rw [hc] at h'; cases h'; rfl
  · rename_i h'; rw [hc] at h'; cases h'

theorem build_fallback (sel : IMatrix → Nat) {r : IRow} {M : IMatrix} (h : ¬ allWild r.2 = true)
    (hc : colHead (sel (r :: M)) (r :: M) = none) {hd : Head}
    (hc2 : colHead (firstNonWild r.2) (r :: M) = some hd) :
    build sel (r :: M) = .test (firstNonWild r.2) hd
      (build sel ((r :: M).filterMap (treeSpecRow (firstNonWild r.2) hd)))
      (build sel ((r :: M).filter (treeKeepRow (firstNonWild r.2) hd))) := by
  rw [build, if_neg h]
  split
  · rename_i hd' h'; rw [hc] at h'; cases h'
  · split
    · rename_i hd' h'
      rw [hc2] at h'; cases h'; rfl
    · rename_i h'; rw [hc2] at h'; cases h'

theorem treeSpecRow_length {j : Nat} {hd : Head} {r r' : IRow} (e : treeSpecRow j hd r = some r') :
    r'.2.length = hd.arity + (r.2.length - 1) := by
  unfold treeSpecRow at e
  split at e
  · cases e
  · rename_i hj; cases e
    have := (List.getElem?_eq_some_iff.mp hj).1
    simp [List.length_eraseIdx, this]
  · rename_i l hj
    have := (List.getElem?_eq_some_iff.mp hj).1
    split at e
    · rename_i eh; cases e; subst eh
      simp [List.length_eraseIdx, this, Head.arity]
    · cases e
  · rename_i c alts args hj
    have := (List.getElem?_eq_some_iff.mp hj).1
    split at e
    · rename_i eh; cases e; subst eh
      simp [List.length_eraseIdx, this, Head.arity]
    · cases e

/-- one test node is correct, given that both subtrees are -/
theorem test_correct {sel : IMatrix → Nat} {M : IMatrix} {j : Nat} {hd : Head}
    (hc : colHead j M = some hd)
    (ihy : ∀ vs, (∀ r ∈ M.filterMap (treeSpecRow j hd), r.2.length = vs.length) →
      evalTree (build sel (M.filterMap (treeSpecRow j hd))) vs =
        firstMatchRows (M.filterMap (treeSpecRow j hd)) vs)
    (ihn : ∀ vs, (∀ r ∈ M.filter (treeKeepRow j hd), r.2.length = vs.length) →
      evalTree (build sel (M.filter (treeKeepRow j hd))) vs =
        firstMatchRows (M.filter (treeKeepRow j hd)) vs)
    (vs : List Val) (hl : ∀ r ∈ M, r.2.length = vs.length) :
    evalTree (.test j hd (build sel (M.filterMap (treeSpecRow j hd)))
      (build sel (M.filter (treeKeepRow j hd)))) vs = firstMatchRows M vs := by
  obtain ⟨r0, hr0, hlt⟩ := colHead_lt hc
  rw [hl r0 hr0] at hlt
  obtain ⟨v, hv⟩ : ∃ v, vs[j]? = some v := ⟨vs[j], by simp [hlt]⟩
  simp only [evalTree, hv]
  cases hf : headFields hd v with
  | some ws =>
    simp only
    rw [ihy, firstMatchRows_spec hv hf M hl]
    intro r' hr'
    simp only [List.mem_filterMap] at hr'
    obtain ⟨r, hr, e⟩ := hr'
    rw [treeSpecRow_length e, hl r hr, ← headFields_arity hf]
    simp [List.length_eraseIdx, hlt]
  | none =>
    simp only
    rw [ihn, firstMatchRows_keep hv hf M hl]
    intro r hr
    exact hl r (List.mem_filter.mp hr).1

theorem tree_correct (sel : IMatrix → Nat) (M : IMatrix) :
    ∀ vs, (∀ r ∈ M, r.2.length = vs.length) → evalTree (build sel M) vs = firstMatchRows M vs := by
  induction M using build.induct (sel := sel) with
  | case1 => intro vs _; rw [build_nil]; simp [evalTree, firstMatchRows]
  | case2 r M h =>
    intro vs hl
    rw [build_leaf sel h]
    simp [evalTree, firstMatchRows, allWild_matches h (hl r List.mem_cons_self)]
  | case3 r M h hd hc ihy ihn =>
    intro vs hl
    rw [build_sel sel h hc]
    exact test_correct hc ihy ihn vs hl
  | case4 r M h hc hd hc2 ihy ihn =>
    intro vs hl
    rw [build_fallback sel h hc hc2]
    exact test_correct hc2 ihy ihn vs hl
  | case5 r M h hc hc2 => exact absurd hc2 (colHead_firstNonWild h)

theorem firstMatchRows_indexRows (i : Nat) (cs : List Pat) (x : Val) :
    firstMatchRows (indexRows i cs) [x] = firstMatchFrom i cs x := by
  induction cs generalizing i with
  | nil => simp [indexRows, firstMatchRows, firstMatchFrom]
  | cons p ps ih => simp [indexRows, firstMatchRows, firstMatchFrom, pmatchL, ih]

theorem indexRows_width (i : Nat) (cs : List Pat) : ∀ r ∈ indexRows i cs, r.2.length = 1 := by
  induction cs generalizing i with
  | nil => simp [indexRows]
  | cons p ps ih =>
    intro r hr
    simp only [indexRows, List.mem_cons] at hr
    rcases hr with e | hr
    · subst e; rfl
    · exact ih _ r hr

end AikenVerif.Match
