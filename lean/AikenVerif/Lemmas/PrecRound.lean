import AikenVerif.Lemmas.PrecParse
/-!
C13 helper lemmas, part 3: the induction.  `Good f e`: with parenthesis fuel `f`, the text
printed for `e` followed by any continuation that stops the tower is parsed back as `e`,
leaving exactly the continuation.
-/
namespace AikenVerif.Prec
open AikenVerif.Gen.Prec

def Good (f : Nat) (e : Expr) : Prop :=
  (∀ h, e.ht ≤ h → h ≤ towerLevels → ∀ rest, stops h rest →
      towerP (exprP f) h (print e ++ rest) = some (e, rest))
  ∧ (∀ rest, stops (towerLevels + 1) rest → exprP (f + 1) (print e ++ rest) = some (e, rest))

theorem exprP_succ (f : Nat) : exprP (f + 1) = pipeP (towerP (exprP f) towerLevels) := rfl

/-- for an expression that is not a pipeline the second half follows from the first -/
theorem good_of_tower (f : Nat) (e : Expr) (hht : e.ht ≤ towerLevels)
    (h1 : ∀ h, e.ht ≤ h → h ≤ towerLevels → ∀ rest, stops h rest →
      towerP (exprP f) h (print e ++ rest) = some (e, rest)) : Good f e := by
  refine ⟨h1, ?_⟩
  intro rest hs
  rw [exprP_succ]
  exact pipeP_of_next _ _ _ _
    (h1 towerLevels hht (Nat.le_refl _) rest (stops_mono (by omega) _ hs)) hs

/-- a parenthesised expression is accepted at every height -/
theorem paren_parse (f : Nat) (x : Expr) (hx : Good f x) (h : Nat) (rest : List Tok)
    (hs : stops h rest) : towerP (exprP (f + 1)) h (paren (print x) ++ rest) = some (x, rest) := by
  have h0 : towerP (exprP (f + 1)) 0 (paren (print x) ++ rest) = some (x, rest) := by
    have := hx.2 (Tok.rparen :: rest) trivial
    simp only [paren, List.cons_append, List.append_assoc, List.nil_append, towerP, unaryP, atomP, this]
  exact towerP_lift' _ _ _ _ 0 h (Nat.zero_le _) h0 hs

/-- the canonical rendering of a (smaller) operand at height `h` parses back -/
theorem rendAt_parse (f : Nat) (x : Expr) (hx : ∀ f', x.size ≤ f' → Good f' x) (hf : x.size ≤ f)
    (h : Nat) (hh : h ≤ towerLevels) (rest : List Tok) (hs : stops h rest) :
    towerP (exprP (f + 1)) h (rendAt h x ++ rest) = some (x, rest) := by
  unfold rendAt
  by_cases c : x.ht ≤ h
  · rw [if_pos c]
    exact (hx (f + 1) (by omega)).1 h c hh rest hs
  · rw [if_neg c]
    exact paren_parse f x (hx f hf) h rest hs

/-- one binary level on a chain of operands -/
theorem level_chain_parse (next : Parser) (t : Nat) (e0 : Expr) (items : List (BinOp × Expr))
    (rest : List Tok)
    (h0 : ∀ rest', stops t rest' → next (rendAt t e0 ++ rest') = some (e0, rest'))
    (hi : ∀ it ∈ items, ∀ rest', stops t rest' → next (rendAt t it.2 ++ rest') = some (it.2, rest'))
    (htw : ∀ it ∈ items, it.1.tower = t) (hs : stops (t + 1) rest) :
    levelP next t (rendAt t e0 ++ flatItems t items ++ rest) =
      some ((if levelRight t then combineRight e0 items else combineLeft e0 items), rest) := by
  have hstop : stops t (flatItems t items ++ rest) := by
    cases items with
    | nil => simpa [flatItems] using stops_mono (Nat.le_succ t) _ hs
    | cons it more =>
      have := htw it (by simp)
      simp only [flatItems, List.flatMap_cons, List.cons_append, stops]
      omega
  have hn := h0 _ hstop
  have hlen : items.length ≤ (flatItems t items ++ rest).length := by
    have := flatMap_length_le (fun it : BinOp × Expr => Tok.op it.1 :: rendAt t it.2) (by intro a; simp) items
    simp only [flatItems, List.length_append]
    omega
  have htail := tailP_items (levelSep t) next Tok.op (rendAt t) (stops t) items
    (flatItems t items ++ rest).length rest
    (by intro it hit; simp [levelSep, htw it hit])
    (by intro it hit ts; simp only [stops]; have := htw it hit; omega)
    hi (stops_mono (Nat.le_succ t) _ hs)
    (by
      intro tk tl h
      subst h
      cases tk with
      | op b =>
        simp only [stops] at hs
        simp only [levelSep]
        rw [if_neg (by omega)]
      | _ => rfl)
    hlen
  unfold levelP
  rw [List.append_assoc, hn]
  simp only [flatItems] at htail ⊢
  simp only [htail]

/-! ## pipelines -/

def chainP : Expr → Expr × List (Unit × Expr)
  | .pipe l r => ((chainP l).1, (chainP l).2 ++ [((), r)])
  | e => (e, [])

def rP0 (x : Expr) : List Tok := operatorSide pipeFirstThreshold x.binopPrecedence (print x)
def rP (x : Expr) : List Tok := operatorSide pipeRestThreshold x.binopPrecedence (print x)
def flatP (items : List (Unit × Expr)) : List Tok := items.flatMap (fun it => Tok.pipe :: rP it.2)

theorem chainP_fold : ∀ e, (chainP e).2.foldl (fun acc it => Expr.pipe acc it.2) (chainP e).1 = e
  | .atom _ => rfl
  | .un _ _ => rfl
  | .bin _ _ _ => rfl
  | .pipe l r => by
    simp only [chainP, List.foldl_append, chainP_fold l]
    rfl

theorem chainP_head : ∀ e, (chainP e).1.isPipe = false
  | .atom _ => rfl
  | .un _ _ => rfl
  | .bin _ _ _ => rfl
  | .pipe l r => by simp only [chainP]; exact chainP_head l

theorem chainP_size : ∀ e, (chainP e).1.size ≤ e.size ∧ ∀ it ∈ (chainP e).2, it.2.size < e.size
  | .atom _ => by simp [chainP]
  | .un _ _ => by simp [chainP]
  | .bin _ _ _ => by simp [chainP]
  | .pipe l r => by
    have ih := chainP_size l
    simp only [chainP]
    refine ⟨by simp only [Expr.size]; omega, ?_⟩
    intro it hit
    simp only [List.mem_append, List.mem_singleton] at hit
    rcases hit with hit | hit
    · have := ih.2 it hit; simp only [Expr.size]; omega
    · subst hit; simp only [Expr.size]; omega

theorem print_chainP : ∀ l r, print (.pipe l r) = rP0 (chainP (.pipe l r)).1 ++ flatP (chainP (.pipe l r)).2
  | .atom n, r => by simp [print, chainP, rP0, rP, flatP]
  | .un o y, r => by simp [print, chainP, rP0, rP, flatP]
  | .bin o a b, r => by simp [print, chainP, rP0, rP, flatP]
  | .pipe l' r', r => by
    have ih := print_chainP l' r'
    rw [print]
    simp only [ih]
    simp [chainP, rP, flatP, List.flatMap_append]

theorem ht_le_of_not_pipe (x : Expr) (h : x.isPipe = false) : x.ht ≤ towerLevels := by
  cases x with
  | bin op l r => have := (table_range op).2.2; simp only [Expr.ht]; omega
  | pipe l r => simp [Expr.isPipe] at h
  | atom n => simp [Expr.ht]
  | un o y => simp [Expr.ht]

theorem side_parse (f : Nat) (x : Expr) (hx : ∀ f', x.size ≤ f' → Good f' x) (hf : x.size ≤ f)
    (a : Nat) (hbare : ¬ a > x.binopPrecedence → x.isPipe = false) (rest : List Tok)
    (hs : stops towerLevels rest) :
    towerP (exprP (f + 1)) towerLevels (operatorSide a x.binopPrecedence (print x) ++ rest) = some (x, rest) := by
  unfold operatorSide
  by_cases c : a > x.binopPrecedence
  · rw [if_pos c]
    exact paren_parse f x (hx f hf) _ rest hs
  · rw [if_neg c]
    exact (hx (f + 1) (by omega)).1 towerLevels (ht_le_of_not_pipe x (hbare c)) (Nat.le_refl _) rest hs

/-! ## the induction -/

theorem good_atom (f n : Nat) : Good f (.atom n) := by
  apply good_of_tower f _ (by simp [Expr.ht])
  intro h _ _ rest hs
  have h0 : towerP (exprP f) 0 (print (.atom n) ++ rest) = some (.atom n, rest) := by
    simp [print, towerP, unaryP, atomP]
  exact towerP_lift' _ _ _ _ 0 h (Nat.zero_le _) h0 hs

theorem good_un (f : Nat) (o : UnOp) (y : Expr) (hy : ∀ f', y.size ≤ f' → Good f' y)
    (hf : (Expr.un o y).size ≤ f) : Good f (.un o y) := by
  apply good_of_tower f _ (by simp [Expr.ht])
  intro h _ _ rest hs
  have hs0 : stops 0 rest := stops_mono (Nat.zero_le _) _ hs
  obtain ⟨f', rfl⟩ : ∃ f', f = f' + 1 := ⟨f - 1, by simp only [Expr.size] at hf; omega⟩
  have hyf : y.size ≤ f' := by simp only [Expr.size] at hf; omega
  -- the operand after the prefix operator
  have hw : unaryP (atomP (exprP (f' + 1)))
      ((if y.isAtom then print y else paren (print y)) ++ rest) = some (y, rest) := by
    by_cases c : y.isAtom = true
    · rw [if_pos c]
      have hht : y.ht ≤ 0 := by cases y <;> simp [Expr.isAtom, Expr.ht] at c ⊢
      exact (hy (f' + 1) (by omega)).1 0 hht (Nat.zero_le _) rest hs0
    · rw [if_neg c]
      exact paren_parse f' _ (hy f' hyf) 0 rest hs0
  have h0 : towerP (exprP (f' + 1)) 0 (print (.un o y) ++ rest) = some (.un o y, rest) := by
    cases o with
    | not =>
      rw [print]
      simp only [unTok, List.cons_append, towerP, unaryP, hw]
    | negate =>
      rw [print]
      simp only [unTok, List.cons_append, towerP, unaryP, hw, if_true]
  exact towerP_lift' _ _ _ _ 0 h (Nat.zero_le _) h0 hs

theorem good_bin (f : Nat) (op : BinOp) (l r : Expr)
    (ih : ∀ x : Expr, x.size < (Expr.bin op l r).size → ∀ f', x.size ≤ f' → Good f' x)
    (hf : (Expr.bin op l r).size ≤ f) : Good f (.bin op l r) := by
  have htl := (table_range op).2.2
  apply good_of_tower f _ (by simp only [Expr.ht]; omega)
  intro h hh hhl rest hs
  simp only [Expr.ht] at hh
  obtain ⟨f', rfl⟩ : ∃ f', f = f' + 1 := ⟨f - 1, by have := Expr.size_pos (.bin op l r); omega⟩
  -- every strictly smaller operand, rendered at the level below, parses back
  have hsub : ∀ x : Expr, x.size < (Expr.bin op l r).size → ∀ rest', stops op.tower rest' →
      towerP (exprP (f' + 1)) op.tower (rendAt op.tower x ++ rest') = some (x, rest') :=
    fun x hx rest' hs' => rendAt_parse f' x (ih x hx) (by omega) op.tower (by omega) rest' hs'
  have hpr : print (.bin op l r) = rendAt (op.tower + 1) (.bin op l r) := by
    unfold rendAt; rw [if_pos (by simp [Expr.ht])]
  have hlev : towerP (exprP (f' + 1)) (op.tower + 1) (print (.bin op l r) ++ rest) =
      some (.bin op l r, rest) := by
    have hs1 : stops (op.tower + 1) rest := stops_mono hh _ hs
    show levelP (towerP (exprP (f' + 1)) op.tower) op.tower _ = _
    cases hlr : levelRight op.tower with
    | false =>
      have hsz := chainL_size op.tower (.bin op l r)
      have hsz0 : (chainL op.tower (.bin op l r)).1.size < (Expr.bin op l r).size := by
        have := (chainL_size op.tower l).1
        simp only [chainL, if_true, Expr.size]; omega
      rw [hpr, rendAt_chainL op.tower htl hlr]
      have := level_chain_parse (towerP (exprP (f' + 1)) op.tower) op.tower
        (chainL op.tower (.bin op l r)).1 (chainL op.tower (.bin op l r)).2 rest
        (hsub _ hsz0) (fun it hit => hsub _ (hsz.2 it hit)) (chainL_tower op.tower _) hs1
      rw [this, hlr]
      simp only [Bool.false_eq_true, if_false, chainL_combine]
    | true =>
      have hsz := chainR_size op.tower (.bin op l r)
      have hsz0 : (chainR op.tower (.bin op l r)).1.size < (Expr.bin op l r).size := by
        simp only [chainR, if_true, Expr.size]; omega
      rw [hpr, rendAt_chainR op.tower htl hlr]
      have := level_chain_parse (towerP (exprP (f' + 1)) op.tower) op.tower
        (chainR op.tower (.bin op l r)).1 (chainR op.tower (.bin op l r)).2 rest
        (hsub _ hsz0) (fun it hit => hsub _ (hsz.2 it hit)) (chainR_tower op.tower _) hs1
      rw [this, hlr]
      simp only [if_true, chainR_combine]
  exact towerP_lift' _ _ _ _ (op.tower + 1) h hh hlev hs

theorem good_pipe (f : Nat) (l r : Expr)
    (ih : ∀ x : Expr, x.size < (Expr.pipe l r).size → ∀ f', x.size ≤ f' → Good f' x)
    (hf : (Expr.pipe l r).size ≤ f) : Good f (.pipe l r) := by
  refine ⟨fun h hh hhl => by simp only [Expr.ht] at hh; omega, ?_⟩
  intro rest hs
  obtain ⟨f', rfl⟩ : ∃ f', f = f' + 1 := ⟨f - 1, by have := Expr.size_pos (.pipe l r); omega⟩
  have hsz := chainP_size (.pipe l r)
  have hsz0 : (chainP (.pipe l r)).1.size < (Expr.pipe l r).size := by
    have := (chainP_size l).1
    simp only [chainP, Expr.size]; omega
  have hsL : stops towerLevels rest := stops_mono (Nat.le_succ _) _ hs
  have hstop : stops towerLevels (flatP (chainP (.pipe l r)).2 ++ rest) := by
    cases (chainP (.pipe l r)).2 with
    | nil => simpa [flatP] using hsL
    | cons it more => simp [flatP, stops]
  have h0 := side_parse f' (chainP (.pipe l r)).1 (ih _ hsz0) (by omega) pipeFirstThreshold
    (fun _ => chainP_head _) _ hstop
  have hlen : (chainP (.pipe l r)).2.length ≤ (flatP (chainP (.pipe l r)).2 ++ rest).length := by
    have := flatMap_length_le (fun it : Unit × Expr => Tok.pipe :: rP it.2) (by intro a; simp)
      (chainP (.pipe l r)).2
    simp only [flatP, List.length_append]
    omega
  have htail := tailP_items pipeSep (towerP (exprP (f' + 1)) towerLevels) (fun _ => Tok.pipe) rP
    (stops towerLevels) (chainP (.pipe l r)).2 (flatP (chainP (.pipe l r)).2 ++ rest).length rest
    (by intro it _; rfl)
    (by intro it _ ts; simp [stops])
    (by
      intro it hit rest' hs'
      refine side_parse f' it.2 (ih _ (hsz.2 it hit)) (by have := hsz.2 it hit; omega)
        pipeRestThreshold ?_ rest' hs'
      intro c
      cases hx : it.2 with
      | pipe a b =>
        rw [hx] at c
        exact absurd table_pipe_rest c
      | _ => rfl)
    hsL
    (by
      intro tk tl h
      subst h
      cases tk with
      | pipe => simp [stops] at hs
      | _ => rfl)
    hlen
  rw [exprP_succ, print_chainP]
  unfold pipeP
  unfold rP0
  rw [List.append_assoc, h0]
  simp only [flatP] at htail ⊢
  simp only [htail]
  rw [chainP_fold]

theorem all_good : ∀ n : Nat, ∀ e : Expr, e.size ≤ n → ∀ f, e.size ≤ f → Good f e
  | 0, e, hn, _, _ => by have := Expr.size_pos e; omega
  | n + 1, e, hn, f, hf => by
    have ih : ∀ x : Expr, x.size < e.size → ∀ f', x.size ≤ f' → Good f' x :=
      fun x hx f' hf' => all_good n x (by omega) f' hf'
    cases e with
    | atom k => exact good_atom f k
    | un o y => exact good_un f o y (ih y (by simp [Expr.size])) hf
    | bin op l r => exact good_bin f op l r ih hf
    | pipe l r => exact good_pipe f l r ih hf

theorem print_length_pos : ∀ e : Expr, e.size ≤ (print e).length
  | .atom _ => by simp [print, Expr.size]
  | .un o y => by
    have := print_length_pos y
    simp only [print, paren, Expr.size]
    split <;> simp only [List.length_cons, List.length_append, List.length_nil] <;> omega
  | .bin op l r => by
    have hl := print_length_pos l
    have hr := print_length_pos r
    have : ∀ (a s : Nat) (ts : List Tok), ts.length ≤ (operatorSide a s ts).length := by
      intro a s ts; unfold operatorSide paren; split <;> simp <;> omega
    have h1 := this op.precedence (if op.mirrored then l.binopPrecedence - 1 else l.binopPrecedence) (print l)
    have h2 := this op.precedence (if op.mirrored then r.binopPrecedence else r.binopPrecedence - 1) (print r)
    simp only [print, Expr.size, List.length_append, List.length_cons, List.length_nil]
    omega
  | .pipe l r => by
    have hl := print_length_pos l
    have hr := print_length_pos r
    have : ∀ (a s : Nat) (ts : List Tok), ts.length ≤ (operatorSide a s ts).length := by
      intro a s ts; unfold operatorSide paren; split <;> simp <;> omega
    have h2 := this pipeRestThreshold r.binopPrecedence (print r)
    have h1 := this pipeFirstThreshold l.binopPrecedence (print l)
    cases l <;> simp only [print, Expr.size, List.length_append, List.length_cons, List.length_nil] at * <;> omega

end AikenVerif.Prec
