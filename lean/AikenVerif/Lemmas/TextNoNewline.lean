import AikenVerif.Lemmas.TextLayout
/-! C15: no token of the printer's output contains a raw new-line (so line-based post-processing of the
rendered text — the "blank white-space-only lines" hack of `to_pretty` — cannot alter a token). -/
namespace AikenVerif.Text
open AikenVerif.Gen (Builtin)
open AikenVerif.Gen.TextTables

@[simp] theorem toksOk_nil : toksOk [] = true := rfl
@[simp] theorem toksOk_cons (t : Token) (l : List Token) : toksOk (t :: l) = (tokOk t && toksOk l) := by
  simp [toksOk]
@[simp] theorem toksOk_append (a b : List Token) : toksOk (a ++ b) = (toksOk a && toksOk b) := by
  simp [toksOk]

theorem isIdentChar_ne_nl {c : Char} (h : isIdentChar c = true) : c ≠ '\n' := by
  rintro rfl; revert h; decide

theorem isDigit_ne_nl {c : Char} (h : isDigit c = true) : c ≠ '\n' := by
  rintro rfl; revert h; decide

theorem contains_nl_of_all {l : List Char} (h : ∀ c ∈ l, c ≠ '\n') : cleanWord l = true := by
  simp only [cleanWord, List.contains_eq_mem, Bool.not_eq_true', decide_eq_false_iff_not]
  intro hm; exact h _ hm rfl

theorem natChars_ok (n : Nat) : cleanWord (natChars n) = true :=
  contains_nl_of_all fun c hc => isDigit_ne_nl (natChars_all_digit n c hc)

theorem intChars_ok (i : Int) : cleanWord (intChars i) = true := by
  cases i with
  | ofNat n => exact natChars_ok n
  | negSucc n =>
    apply contains_nl_of_all
    intro c hc
    simp [intChars] at hc
    rcases hc with rfl | hc
    · decide
    · exact isDigit_ne_nl (natChars_all_digit _ c hc)

theorem hexChars_ok (b : Bytes) : cleanWord (hexChars b) = true :=
  contains_nl_of_all fun c hc => isIdentChar_ne_nl (by have := hexChars_all_ident b; simp at this; exact this c hc)

theorem blsWord_ok (b : Bytes) : cleanWord (blsWord b) = true := by
  apply contains_nl_of_all
  intro c hc
  simp [blsWord] at hc
  rcases hc with rfl | rfl | hc
  · decide
  · decide
  · exact isIdentChar_ne_nl (by have := hexChars_all_ident b; simp at this; exact this c hc)

theorem escape_ok (s : List Char) : cleanWord (escape s) = true := by
  simp only [cleanWord, List.contains_eq_mem, Bool.not_eq_true', decide_eq_false_iff_not]
  exact escape_no_newline' s

theorem versionChars_ok (v : Nat × Nat × Nat) : cleanWord (versionChars v) = true := by
  apply contains_nl_of_all
  intro c hc
  simp [versionChars] at hc
  rcases hc with hc | rfl | hc | rfl | hc
  · exact isDigit_ne_nl (natChars_all_digit _ c hc)
  · decide
  · exact isDigit_ne_nl (natChars_all_digit _ c hc)
  · decide
  · exact isDigit_ne_nl (natChars_all_digit _ c hc)

theorem kwData_ok : ∀ k : DataKind, cleanWord (kwData k) = true := by intro k; cases k <;> decide
theorem kwCon_ok : ∀ k : ConKind, cleanWord (kwCon k) = true := by intro k; cases k <;> decide
theorem kwTerm_ok : ∀ k : TermKind, cleanWord (kwTerm k) = true := by intro k; cases k <;> decide
theorem tyDisplay_ok : ∀ a : TyAtom, cleanWord (chars (tyDisplay a)) = true := by intro a; cases a <;> decide
theorem boolWord_ok : ∀ b : Bool, cleanWord (boolWord b) = true := by intro b; cases b <;> decide
theorem display_ok : ∀ b : Builtin, cleanWord (chars b.display) = true := by intro b; cases b <;> decide
theorem misc_kw_ok : cleanWord (chars tyListDisplay) = true ∧ cleanWord (chars tyPairDisplay) = true ∧
    cleanWord (chars programDisplay) = true := by decide

theorem name_ok (n : Name) (h : validName n.text.toList = true) : cleanWord (BinderText.text n) = true := by
  simp [validName, isIdent] at h
  exact contains_nl_of_all fun c hc => isIdentChar_ne_nl (h.1.2 c hc)

theorem printTy_ok (t : Ty) : toksOk (printTy t) = true := by
  induction t <;> simp_all [printTy, tokOk, tyDisplay_ok, misc_kw_ok.1, misc_kw_ok.2.1]

theorem printTyL_ok (w : Layout) (t : Ty) : ∀ p, toksOk (printTyL w p t) = true := by
  induction t with
  | list t ih => intro p; cases h : w p <;> simp [printTyL, tokOk, misc_kw_ok.1, ih, soft, h]
  | pair a b iha ihb => intro p; simp [printTyL, tokOk, misc_kw_ok.2.1, iha, ihb]
  | _ => intro p; simp only [printTyL]; exact printTy_ok _

mutual
  theorem printData_ok : (d : Data) → toksOk (printData d) = true
    | .constr tag fs => by simp [printData, tokOk, kwData_ok, natChars_ok, printDataList_ok fs]
    | .map es => by simp [printData, tokOk, kwData_ok, printDataPairs_ok es]
    | .list xs => by simp [printData, tokOk, kwData_ok, printDataList_ok xs]
    | .int n => by simp [printData, tokOk, kwData_ok, intChars_ok]
    | .bytes b => by simp [printData, tokOk, kwData_ok, hexChars_ok]
  theorem printDataList_ok : (ds : List Data) → toksOk (printDataList ds) = true
    | [] => by simp [printDataList]
    | [d] => by simp [printDataList, printData_ok d]
    | d :: e :: ds => by simp [printDataList, sepTokens, tokOk, printData_ok d, printDataList_ok (e :: ds)]
  theorem printDataPairs_ok : (es : List (Data × Data)) → toksOk (printDataPairs es) = true
    | [] => by simp [printDataPairs]
    | [(k, v)] => by simp [printDataPairs, sepTokens, tokOk, printData_ok k, printData_ok v]
    | (k, v) :: e :: es => by
      simp [printDataPairs, sepTokens, tokOk, printData_ok k, printData_ok v, printDataPairs_ok (e :: es)]
end

mutual
  theorem printElem_ok : (c : Const) → toksOk (printElem c) = true
    | .integer n => by simp [printElem, tokOk, intChars_ok]
    | .bytestring b => by simp [printElem, tokOk, hexChars_ok]
    | .string s => by simp [printElem, tokOk, escape_ok]
    | .unit => by simp [printElem, tokOk]
    | .bool b => by simp [printElem, tokOk, boolWord_ok]
    | .list _ xs => by simp [printElem, tokOk, printElems_ok xs]
    | .pair _ _ x y => by simp [printElem, tokOk, sepTokens, printElem_ok x, printElem_ok y]
    | .data d => by simp [printElem, printData_ok d]
    | .g1 b => by simp [printElem, tokOk, blsWord_ok]
    | .g2 b => by simp [printElem, tokOk, blsWord_ok]
    | .ml _ => by simp [printElem]
  theorem printElems_ok : (cs : List Const) → toksOk (printElems cs) = true
    | [] => by simp [printElems]
    | [c] => by simp [printElems, printElem_ok c]
    | c :: d :: cs => by simp [printElems, sepTokens, tokOk, printElem_ok c, printElems_ok (d :: cs)]
end

theorem printConst_ok (c : Const) : toksOk (printConst c) = true := by
  cases c <;> simp [printConst, tokOk, kwCon_ok, intChars_ok, hexChars_ok, escape_ok, boolWord_ok, blsWord_ok,
    printTy_ok, printElems_ok, printElem_ok, printData_ok, sepTokens]

theorem printConstL_ok (w : Layout) (p : List Nat) (c : Const) : toksOk (printConstL w p c) = true := by
  cases c with
  | list t xs => simp [printConstL, tokOk, kwCon_ok, printTyL_ok, printElems_ok]
  | pair a b x y => simp [printConstL, tokOk, kwCon_ok, printTyL_ok, printElem_ok, sepTokens]
  | _ => simp only [printConstL]; exact printConst_ok _

theorem soft_ok (b : Bool) : toksOk (soft b) = true := by cases b <;> simp [soft, tokOk]

mutual
  theorem printTermL_ok (w : Layout) : (t : Term Name) → ∀ p, termOk t = true → toksOk (printTermL w p t) = true
    | .var n => by intro p h; simp [termOk] at h; simp [printTermL, tokOk, name_ok n h]
    | .lam n b => by
      intro p h; simp [termOk] at h
      simp [printTermL, tokOk, kwTerm_ok, name_ok n h.1, printTermL_ok w b _ h.2, soft_ok]
    | .app f a => by
      intro p h; simp [termOk] at h
      simp [printTermL, tokOk, printTermL_ok w f _ h.1, printTermL_ok w a _ h.2]
    | .delay t => by intro p h; simp [termOk] at h; simp [printTermL, tokOk, kwTerm_ok, printTermL_ok w t _ h, soft_ok]
    | .force t => by intro p h; simp [termOk] at h; simp [printTermL, tokOk, kwTerm_ok, printTermL_ok w t _ h, soft_ok]
    | .error => by intro p _; simp [printTermL, tokOk, kwTerm_ok]
    | .builtin b => by intro p _; simp [printTermL, tokOk, kwTerm_ok, display_ok, soft_ok]
    | .const c => by intro p _; simp [printTermL, tokOk, kwTerm_ok, printConstL_ok, soft_ok]
    | .constr tag fs => by
      intro p h; simp [termOk] at h
      simp [printTermL, tokOk, kwTerm_ok, natChars_ok, printTermsL_ok w fs _ _ h.2, soft_ok]
    | .case s bs => by
      intro p h; simp [termOk] at h
      simp [printTermL, tokOk, kwTerm_ok, printTermL_ok w s _ h.1, printTermsL_ok w bs _ _ h.2, soft_ok]
  theorem printTermsL_ok (w : Layout) : (ts : List (Term Name)) → ∀ p i, termsOk ts = true →
      toksOk (printTermsL w p i ts) = true
    | [] => by intro p i _; simp [printTermsL]
    | t :: ts => by
      intro p i h; simp [termsOk] at h
      simp [printTermsL, tokOk, printTermL_ok w t _ h.1, printTermsL_ok w ts _ _ h.2]
end

theorem printProgramTokensL_ok (w : Layout) (p : Program Name) (h : programOk p = true) :
    toksOk (printProgramTokensL w p) = true := by
  simp [programOk] at h
  simp [printProgramTokensL, tokOk, misc_kw_ok.2.2, versionChars_ok, printTermL_ok w p.term _ h.2, soft_ok]

end AikenVerif.Text
