import AikenVerif.Lemmas.CekTerminates
/-!
Non-negativity of builtin prices from a decidable check on the cost model: every size measure is
non-negative and a costing function without negative coefficients maps non-negative sizes to a
non-negative price.  Discharges `NonnegCosts` / `PosCosts` for a concrete cost model.
-/
namespace AikenVerif
open Gen

-- ------------------------------------------------------------------ measures are non-negative
theorem integerExMem_nonneg (i : Int) : 0 ≤ integerExMem i := by
  unfold integerExMem; split <;> omega

theorem bytesExMem_nonneg (b : Bytes) : 0 ≤ bytesExMem b := by
  unfold bytesExMem; split <;> omega

mutual
  theorem dataExMem_nonneg : ∀ d : Data, 0 ≤ dataExMem d
    | .constr _ fs => by have := dataExMemList_nonneg fs; simp only [dataExMem]; omega
    | .map es => by have := dataExMemPairs_nonneg es; simp only [dataExMem]; omega
    | .list xs => by have := dataExMemList_nonneg xs; simp only [dataExMem]; omega
    | .int n => by have := integerExMem_nonneg n; simp only [dataExMem]; omega
    | .bytes b => by have := bytesExMem_nonneg b; simp only [dataExMem]; omega
  theorem dataExMemList_nonneg : ∀ ds : List Data, 0 ≤ dataExMemList ds
    | [] => by simp [dataExMemList]
    | d :: ds => by
      have := dataExMem_nonneg d; have := dataExMemList_nonneg ds
      simp only [dataExMemList]; omega
  theorem dataExMemPairs_nonneg : ∀ es : List (Data × Data), 0 ≤ dataExMemPairs es
    | [] => by simp [dataExMemPairs]
    | (k, v) :: es => by
      have := dataExMem_nonneg k; have := dataExMem_nonneg v; have := dataExMemPairs_nonneg es
      simp only [dataExMemPairs]; omega
end

mutual
  theorem constExMem_nonneg (sem : Sem) : ∀ c : Const, 0 ≤ constExMem sem c
    | .integer i => by simp only [constExMem]; exact integerExMem_nonneg i
    | .bytestring b => by simp only [constExMem]; exact bytesExMem_nonneg b
    | .string s => by simp only [constExMem]; split <;> omega
    | .unit => by simp [constExMem]
    | .bool _ => by simp [constExMem]
    | .list _ xs => by simp only [constExMem]; exact constExMemList_nonneg sem xs
    | .pair _ _ x y => by
      have := constExMem_nonneg sem x; have := constExMem_nonneg sem y
      simp only [constExMem]; omega
    | .data d => by simp only [constExMem]; exact dataExMem_nonneg d
    | .g1 _ => by simp [constExMem]
    | .g2 _ => by simp [constExMem]
    | .ml _ => by simp [constExMem]
  theorem constExMemList_nonneg (sem : Sem) : ∀ cs : List Const, 0 ≤ constExMemList sem cs
    | [] => by simp [constExMemList]
    | c :: cs => by
      have := constExMem_nonneg sem c; have := constExMemList_nonneg sem cs
      simp only [constExMemList]; omega
end

theorem valueExMem_nonneg (sem : Sem) (v : Value) : 0 ≤ valueExMem sem v := by
  cases v <;> simp only [valueExMem] <;> first | exact constExMem_nonneg sem _ | omega

theorem costAsSize_nonneg (b : Builtin) (v : Value) (x : Int) (h : costAsSize b v = .ok x) : 0 ≤ x := by
  unfold costAsSize at h
  split at h
  · rename_i size
    split at h
    · split at h <;> cases h
    · rename_i hc
      simp only [Bool.or_eq_true, decide_eq_true_eq, not_or, Int.not_lt] at hc
      cases h
      split <;> omega
  · cases h

theorem measure_nonneg (sem : Sem) (b : Builtin) (args : List Value) (m : Measure) (x : Int)
    (h : measure sem b args m = .ok x) : 0 ≤ x := by
  cases m with
  | exMem i =>
    simp only [measure, bind, Res.bind] at h
    cases hg : getArg args i with
    | ok v => rw [hg] at h; simp only [pure] at h; cases h; exact valueExMem_nonneg _ v
    | err => rw [hg] at h; cases h
    | panic => rw [hg] at h; cases h
    | unmodelled => rw [hg] at h; cases h
  | exMemSem i =>
    simp only [measure, bind, Res.bind] at h
    cases hg : getArg args i with
    | ok v => rw [hg] at h; simp only [pure] at h; cases h; exact valueExMem_nonneg _ v
    | err => rw [hg] at h; cases h
    | panic => rw [hg] at h; cases h
    | unmodelled => rw [hg] at h; cases h
  | asSize i =>
    simp only [measure, bind, Res.bind] at h
    cases hg : getArg args i with
    | ok v =>
      rw [hg] at h; simp only at h
      cases hc : costAsSize b v with
      | ok y => rw [hc] at h; simp only [pure] at h; cases h; exact costAsSize_nonneg b v _ hc
      | err => rw [hc] at h; cases h
      | panic => rw [hc] at h; cases h
      | unmodelled => rw [hc] at h; cases h
    | err => rw [hg] at h; cases h
    | panic => rw [hg] at h; cases h
    | unmodelled => rw [hg] at h; cases h
  | listLen i =>
    simp only [measure, bind, Res.bind] at h
    cases hg : getArg args i with
    | ok v =>
      rw [hg] at h; simp only at h
      split at h
      · simp only [pure] at h; cases h; omega
      · cases h
    | err => rw [hg] at h; cases h
    | panic => rw [hg] at h; cases h
    | unmodelled => rw [hg] at h; cases h
  | literalAbs i =>
    simp only [measure, bind, Res.bind] at h
    cases hg : getArg args i with
    | ok v =>
      rw [hg] at h; simp only at h
      split at h
      · simp only [pure] at h; cases h
        split
        · unfold i64Max; omega
        · omega
      · cases h
    | err => rw [hg] at h; cases h
    | panic => rw [hg] at h; cases h
    | unmodelled => rw [hg] at h; cases h
  | listLenOrExMem i =>
    simp only [measure, bind, Res.bind] at h
    cases hg : getArg args i with
    | ok v =>
      rw [hg] at h; simp only at h
      split at h
      · simp only [pure] at h; cases h; omega
      · simp only [pure] at h; cases h; exact valueExMem_nonneg _ v
    | err => rw [hg] at h; cases h
    | panic => rw [hg] at h; cases h
    | unmodelled => rw [hg] at h; cases h

theorem measures_nonneg (sem : Sem) (b : Builtin) (args : List Value) : ∀ (ms : List Measure) (xs : List Int),
    measures sem b args ms = .ok xs → ∀ x ∈ xs, 0 ≤ x := by
  intro ms
  induction ms with
  | nil => intro xs h; simp only [measures] at h; cases h; intro x hx; cases hx
  | cons m ms ih =>
    intro xs h
    simp only [measures, bind, Res.bind] at h
    cases hm : measure sem b args m with
    | ok y =>
      rw [hm] at h; simp only at h
      cases hr : measures sem b args ms with
      | ok ys =>
        rw [hr] at h; simp only [pure] at h; cases h
        intro x hx
        rcases List.mem_cons.mp hx with rfl | hx
        · exact measure_nonneg sem b args m _ hm
        · exact ih ys hr x hx
      | err => rw [hr] at h; cases h
      | panic => rw [hr] at h; cases h
      | unmodelled => rw [hr] at h; cases h
    | err => rw [hm] at h; cases h
    | panic => rw [hm] at h; cases h
    | unmodelled => rw [hm] at h; cases h

theorem sat_nonneg {x : Int} (h : 0 ≤ x) : 0 ≤ sat x := by
  unfold sat i64Max i64Min
  split
  · omega
  · split <;> omega

theorem Cost1.cost_nonneg (f : Cost1) (hf : f.nonneg = true) (x : Int) (hx : 0 ≤ x) : 0 ≤ f.cost x := by
  cases f with
  | const c => simpa [Cost1.nonneg, Cost1.cost] using hf
  | linear i s =>
    simp only [Cost1.nonneg, Bool.and_eq_true, decide_eq_true_eq] at hf
    have := Int.mul_nonneg hf.2 hx
    simp only [Cost1.cost]; omega
  | quadratic c0 c1 c2 =>
    simp only [Cost1.nonneg, Bool.and_eq_true, decide_eq_true_eq] at hf
    have h1 := Int.mul_nonneg hf.1.2 hx
    have h2 := Int.mul_nonneg (Int.mul_nonneg hf.2 hx) hx
    simp only [Cost1.cost]; omega

theorem quadXY_nonneg (mn c00 c10 c01 c20 c11 c02 x y : Int) (h : 0 ≤ mn) :
    0 ≤ quadXY mn c00 c10 c01 c20 c11 c02 x y := by
  unfold quadXY; omega

theorem Cost2.cost_nonneg : ∀ (f : Cost2), f.nonneg = true → ∀ x y : Int, 0 ≤ x → 0 ≤ y → 0 ≤ f.cost x y
  | .const c, hf, _, _, _, _ => by simpa [Cost2.nonneg, Cost2.cost] using hf
  | .linearInX i s, hf, x, _, hx, _ => by
    simp only [Cost2.nonneg, Bool.and_eq_true, decide_eq_true_eq] at hf
    simp only [Cost2.cost]
    exact sat_nonneg (by have := sat_nonneg (Int.mul_nonneg hf.2 hx); omega)
  | .linearInY i s, hf, _, y, _, hy => by
    simp only [Cost2.nonneg, Bool.and_eq_true, decide_eq_true_eq] at hf
    simp only [Cost2.cost]
    exact sat_nonneg (by have := sat_nonneg (Int.mul_nonneg hf.2 hy); omega)
  | .linearInY2 i s _, hf, _, y, _, hy => by
    simp only [Cost2.nonneg, Bool.and_eq_true, decide_eq_true_eq] at hf
    simp only [Cost2.cost]
    exact sat_nonneg (by have := sat_nonneg (Int.mul_nonneg hf.2 hy); omega)
  | .linearInXAndY i s1 s2, hf, x, y, hx, hy => by
    simp only [Cost2.nonneg, Bool.and_eq_true, decide_eq_true_eq] at hf
    have := Int.mul_nonneg hf.1.2 hx; have := Int.mul_nonneg hf.2 hy
    simp only [Cost2.cost]; omega
  | .withInteraction c00 c10 c01 c11, hf, x, y, hx, hy => by
    simp only [Cost2.nonneg, Bool.and_eq_true, decide_eq_true_eq] at hf
    have := Int.mul_nonneg hf.1.1.2 hx; have := Int.mul_nonneg hf.1.2 hy
    have := Int.mul_nonneg (Int.mul_nonneg hf.2 hx) hy
    simp only [Cost2.cost]; omega
  | .addedSizes i s, hf, x, y, hx, hy => by
    simp only [Cost2.nonneg, Bool.and_eq_true, decide_eq_true_eq] at hf
    have := Int.mul_nonneg hf.2 (by omega : 0 ≤ x + y)
    simp only [Cost2.cost]; omega
  | .subtractedSizes i s m, hf, x, y, _, _ => by
    simp only [Cost2.nonneg, Bool.and_eq_true, decide_eq_true_eq] at hf
    have := Int.mul_nonneg hf.1.2 (by omega : 0 ≤ max m (x - y))
    simp only [Cost2.cost]; omega
  | .multipliedSizes i s, hf, x, y, hx, hy => by
    simp only [Cost2.nonneg, Bool.and_eq_true, decide_eq_true_eq] at hf
    have := Int.mul_nonneg hf.2 (Int.mul_nonneg hx hy)
    simp only [Cost2.cost]; omega
  | .minSize i s, hf, x, y, hx, hy => by
    simp only [Cost2.nonneg, Bool.and_eq_true, decide_eq_true_eq] at hf
    have := Int.mul_nonneg hf.2 (by omega : 0 ≤ min x y)
    simp only [Cost2.cost]; omega
  | .maxSize i s, hf, x, y, hx, hy => by
    simp only [Cost2.nonneg, Bool.and_eq_true, decide_eq_true_eq] at hf
    have := Int.mul_nonneg hf.2 (by omega : 0 ≤ max x y)
    simp only [Cost2.cost]; omega
  | .linearOnDiagonal c i s, hf, x, y, hx, _ => by
    simp only [Cost2.nonneg, Bool.and_eq_true, decide_eq_true_eq] at hf
    have := Int.mul_nonneg hx hf.2
    simp only [Cost2.cost]; split <;> omega
  | .constAboveDiagonal c m, hf, x, y, hx, hy => by
    simp only [Cost2.nonneg, Bool.and_eq_true, decide_eq_true_eq] at hf
    simp only [Cost2.cost]; split
    · exact hf.1
    · exact Cost2.cost_nonneg m hf.2 x y hx hy
  | .aboveAndBelowDiagonal _ m, hf, x, y, hx, hy => by
    simp only [Cost2.nonneg] at hf
    simp only [Cost2.cost]
    exact Cost2.cost_nonneg m hf _ _ (by omega) (by omega)
  | .constBelowDiagonal c m, hf, x, y, hx, hy => by
    simp only [Cost2.nonneg, Bool.and_eq_true, decide_eq_true_eq] at hf
    simp only [Cost2.cost]; split
    · exact hf.1
    · exact Cost2.cost_nonneg m hf.2 x y hx hy
  | .quadraticInY c0 c1 c2, hf, _, y, _, hy => by
    simp only [Cost2.nonneg, Bool.and_eq_true, decide_eq_true_eq] at hf
    have h1 := Int.mul_nonneg hf.1.2 hy
    have h2 := Int.mul_nonneg (Int.mul_nonneg hf.2 hy) hy
    simp only [Cost2.cost]; omega
  | .quadraticInXAndY mn c00 c10 c01 c20 c11 c02, hf, x, y, _, _ => by
    simp only [Cost2.nonneg, decide_eq_true_eq] at hf
    simp only [Cost2.cost]; exact quadXY_nonneg _ _ _ _ _ _ _ _ _ hf
  | .constAboveDiagonalIntoQuadratic c mn c00 c10 c01 c20 c11 c02, hf, x, y, _, _ => by
    simp only [Cost2.nonneg, Bool.and_eq_true, decide_eq_true_eq] at hf
    simp only [Cost2.cost]; split
    · exact hf.1
    · exact quadXY_nonneg _ _ _ _ _ _ _ _ _ hf.2

theorem Cost3.cost_nonneg (f : Cost3) (hf : f.nonneg = true) (x y z : Int) (hx : 0 ≤ x) (hy : 0 ≤ y) (hz : 0 ≤ z) :
    0 ≤ f.cost x y z := by
  cases f with
  | const c => simpa [Cost3.nonneg, Cost3.cost] using hf
  | addedSizes i s =>
    simp only [Cost3.nonneg, Bool.and_eq_true, decide_eq_true_eq] at hf
    have := Int.mul_nonneg (by omega : 0 ≤ x + y + z) hf.2
    simp only [Cost3.cost]; omega
  | linearInX i s =>
    simp only [Cost3.nonneg, Bool.and_eq_true, decide_eq_true_eq] at hf
    have := Int.mul_nonneg hx hf.2
    simp only [Cost3.cost]; omega
  | linearInY i s =>
    simp only [Cost3.nonneg, Bool.and_eq_true, decide_eq_true_eq] at hf
    have := Int.mul_nonneg hy hf.2
    simp only [Cost3.cost]; omega
  | linearInZ i s =>
    simp only [Cost3.nonneg, Bool.and_eq_true, decide_eq_true_eq] at hf
    have := Int.mul_nonneg hz hf.2
    simp only [Cost3.cost]; omega
  | quadraticInZ c0 c1 c2 =>
    simp only [Cost3.nonneg, Bool.and_eq_true, decide_eq_true_eq] at hf
    have h1 := Int.mul_nonneg hf.1.2 hz
    have h2 := Int.mul_nonneg (Int.mul_nonneg hf.2 hz) hz
    simp only [Cost3.cost]; omega
  | expMod c00 c11 c12 =>
    simp only [Cost3.nonneg, Bool.and_eq_true, decide_eq_true_eq] at hf
    have h1 := Int.mul_nonneg (Int.mul_nonneg hf.1.2 hy) hz
    have h2 := Int.mul_nonneg (Int.mul_nonneg (Int.mul_nonneg hf.2 hy) hz) hz
    have hc : 0 ≤ c00 + c11 * y * z + c12 * y * z * z := by omega
    simp only [Cost3.cost]
    split
    · exact hc
    · have := Int.tdiv_nonneg hc (by decide : (0 : Int) ≤ 2); omega
  | literalInYorLinearInZ i s =>
    simp only [Cost3.nonneg, Bool.and_eq_true, decide_eq_true_eq] at hf
    have := Int.mul_nonneg hf.2 hz
    simp only [Cost3.cost]; split <;> omega
  | linearInMaxYZ i s =>
    simp only [Cost3.nonneg, Bool.and_eq_true, decide_eq_true_eq] at hf
    have := Int.mul_nonneg (by omega : 0 ≤ max y z) hf.2
    simp only [Cost3.cost]; omega
  | linearInYandZ i s1 s2 =>
    simp only [Cost3.nonneg, Bool.and_eq_true, decide_eq_true_eq] at hf
    have := Int.mul_nonneg hy hf.1.2; have := Int.mul_nonneg hz hf.2
    simp only [Cost3.cost]; omega

theorem Cost4.cost_nonneg (f : Cost4) (hf : f.nonneg = true) (x y z u : Int) (hu : 0 ≤ u) : 0 ≤ f.cost x y z u := by
  cases f with
  | const c => simpa [Cost4.nonneg, Cost4.cost] using hf
  | linearInU i s =>
    simp only [Cost4.nonneg, Bool.and_eq_true, decide_eq_true_eq] at hf
    have := Int.mul_nonneg hf.2 hu
    simp only [Cost4.cost]; omega

theorem CostFun.apply_nonneg (f : CostFun) (hf : f.nonneg = true) (xs : List Int) (hx : ∀ x ∈ xs, 0 ≤ x) (c : Int)
    (h : f.apply xs = some c) : 0 ≤ c := by
  cases f with
  | one g =>
    match xs, h with
    | [x], h => simp only [CostFun.apply] at h; cases h; exact g.cost_nonneg hf x (hx x (by simp))
  | two g =>
    match xs, h with
    | [x, y], h => simp only [CostFun.apply] at h; cases h; exact g.cost_nonneg hf x y (hx x (by simp)) (hx y (by simp))
  | three g =>
    match xs, h with
    | [x, y, z], h =>
      simp only [CostFun.apply] at h; cases h
      exact g.cost_nonneg hf x y z (hx x (by simp)) (hx y (by simp)) (hx z (by simp))
  | four g =>
    match xs, h with
    | [x, y, z, u], h => simp only [CostFun.apply] at h; cases h; exact g.cost_nonneg hf x y z u (hx u (by simp))
  | six k =>
    match xs, h with
    | [_, _, _, _, _, _], h => simp only [CostFun.apply] at h; cases h; simpa [CostFun.nonneg] using hf

theorem builtinCost_nonneg (cm : CostModel) (sem : Sem) (h : builtinsNonneg cm = true) (b : Builtin)
    (args : List Value) (c : ExBudget) (hc : builtinCost cm sem b args = .ok c) : ExBudget.le .zero c := by
  unfold builtinCost at hc
  simp only [bind, Res.bind] at hc
  cases hp : runPre b args (Gen.costSpec b).pre with
  | ok u =>
    rw [hp] at hc; simp only at hc
    cases hm : measures sem b args (Gen.costSpec b).memArgs with
    | ok ms =>
      rw [hm] at hc; simp only at hc
      cases hcs : measures sem b args (Gen.costSpec b).cpuArgs with
      | ok cs =>
        rw [hcs] at hc; simp only at hc
        cases hf1 : cm.builtin.find? (fun p => p.1 == (Gen.costSpec b).memField) with
        | none => rw [hf1] at hc; cases hc
        | some e1 =>
          obtain ⟨n1, m1, c1⟩ := e1
          rw [hf1] at hc; simp only at hc
          cases hf2 : cm.builtin.find? (fun p => p.1 == (Gen.costSpec b).cpuField) with
          | none => rw [hf2] at hc; cases hc
          | some e2 =>
            obtain ⟨n2, m2, c2⟩ := e2
            rw [hf2] at hc; simp only at hc
            have hall := List.all_eq_true.mp h
            have h1 := hall _ (List.mem_of_find?_eq_some hf1)
            have h2 := hall _ (List.mem_of_find?_eq_some hf2)
            simp only [Bool.and_eq_true] at h1 h2
            cases ha1 : m1.apply ms with
            | none => rw [ha1] at hc; cases hc
            | some vm =>
              cases ha2 : c2.apply cs with
              | none => rw [ha1, ha2] at hc; cases hc
              | some vc =>
                rw [ha1, ha2] at hc
                simp only [pure] at hc
                cases hc
                exact ⟨CostFun.apply_nonneg m1 h1.1 ms (measures_nonneg sem b args _ ms hm) vm ha1,
                       CostFun.apply_nonneg c2 h2.2 cs (measures_nonneg sem b args _ cs hcs) vc ha2⟩
      | err => rw [hcs] at hc; cases hc
      | panic => rw [hcs] at hc; cases hc
      | unmodelled => rw [hcs] at hc; cases hc
    | err => rw [hm] at hc; cases hc
    | panic => rw [hm] at hc; cases hc
    | unmodelled => rw [hm] at hc; cases hc
  | err => rw [hp] at hc; cases hc
  | panic => rw [hp] at hc; cases hc
  | unmodelled => rw [hp] at hc; cases hc

/-- the whole hypothesis of the budget theorems, from two decidable checks on the cost model -/
theorem posCosts_of_checks (cm : CostModel) (sem : Sem) (h1 : stepsPositive cm = true) (h2 : builtinsNonneg cm = true) :
    PosCosts cm sem :=
  posCosts_of cm sem h1 (fun b args c hc => builtinCost_nonneg cm sem h2 b args c hc)

end AikenVerif
