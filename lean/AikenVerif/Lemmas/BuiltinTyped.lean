import AikenVerif.Lemmas.CostNoPanic
/-! Builtins preserve well-typedness of constants. -/
namespace AikenVerif
open Gen

def OutWT (r : Res BOut) : Prop := ∀ c, r = .ok (.con c) → c.wt = true

theorem OutWT_bind {α} {x : Res α} {f : α → Res BOut} (hf : ∀ a, x = .ok a → OutWT (f a)) : OutWT (x >>= f) := by
  cases x with
  | ok a => exact hf a rfl
  | err => intro c h; cases h
  | panic => intro c h; cases h
  | unmodelled => intro c h; cases h
theorem OutWT_bind' {α} {x : Res α} {f : α → Res BOut} (hf : ∀ a, x = .ok a → OutWT (f a)) : OutWT (x.bind f) :=
  OutWT_bind hf
theorem OutWT_con {c : Const} (h : c.wt = true) : OutWT (.ok (.con c)) := by intro c' h'; cases h'; exact h
theorem OutWT_pure {c : Const} (h : c.wt = true) : OutWT (pure (.con c)) := by intro c' h'; cases h'; exact h
theorem OutWT_arg (i : Nat) : OutWT (.ok (.arg i)) := by intro c h; cases h
theorem OutWT_err : OutWT .err := by intro c h; cases h
theorem OutWT_panic : OutWT .panic := by intro c h; cases h
theorem OutWT_unm : OutWT .unmodelled := by intro c h; cases h

theorem wt_of_unwrapConstant {v : Value} {c : Const} (hv : v.wt = true) (h : v.unwrapConstant = .ok c) : c.wt = true := by
  unfold Value.unwrapConstant at h
  split at h
  · cases h; simpa [Value.wt] using hv
  · cases h

theorem wt_of_unwrapPair {v : Value} {a b : Ty} {x y : Const} (hv : v.wt = true)
    (h : v.unwrapPair = .ok (a, b, x, y)) : x.wt = true ∧ y.wt = true := by
  unfold Value.unwrapPair at h
  split at h
  · cases h
    simp only [Value.wt, Const.wt, Bool.and_eq_true] at hv
    exact ⟨hv.1.2, hv.2⟩
  · cases h

macro "outwt_step" : tactic => `(tactic| first
  | exact OutWT_arg _ | exact OutWT_err | exact OutWT_panic | exact OutWT_unm
  | exact OutWT_con (by simp [Const.wt, Const.wtList, Const.ty, Const.wtList_map_data, Const.wtList_map_pairs])
  | exact OutWT_pure (by simp [Const.wt, Const.wtList, Const.ty, Const.wtList_map_data, Const.wtList_map_pairs])
  | (refine OutWT_bind ?_)
  | (refine OutWT_bind' ?_)
  | split
  | (intro _ h; first | cases h | skip))

theorem core_outwt_generic (sem : Sem) (b : Builtin) (args : List Value) (hl : args.length = b.arity)
    (hb : b ≠ .mkCons ∧ b ≠ .headList ∧ b ≠ .tailList ∧ b ≠ .fstPair ∧ b ≠ .sndPair ∧ b ≠ .dropList ∧ b ≠ .chooseData) :
    OutWT (callBuiltinCore sem b args) := by
  obtain ⟨h1, h2, h3, h4, h5, h6, h7⟩ := hb
  cases b <;> simp only [Builtin.arity] at hl <;> (try contradiction) <;> explode_args hl <;>
    simp only [callBuiltinCore, getArgB, List.getElem?_cons_zero, List.getElem?_cons_succ] <;>
    repeat outwt_step

end AikenVerif

namespace AikenVerif
open Gen

theorem chooseData_outwt (sem : Sem) (args : List Value) (hl : args.length = 6) :
    OutWT (callBuiltinCore sem .chooseData args) := by
  obtain ⟨a, b, c, d, e, f, rfl⟩ := len_eq_six hl
  simp only [callBuiltinCore, getArgB, List.getElem?_cons_zero, List.getElem?_cons_succ]
  repeat outwt_step

theorem mkCons_outwt (sem : Sem) (x y : Value) (hx : x.wt = true) (hy : y.wt = true) :
    OutWT (callBuiltinCore sem .mkCons [x, y]) := by
  simp only [callBuiltinCore, getArgB, List.getElem?_cons_zero, List.getElem?_cons_succ]
  refine OutWT_bind ?_; intro a ha; cases ha
  refine OutWT_bind ?_; intro item hitem
  refine OutWT_bind ?_; intro b hb; cases hb
  refine OutWT_bind ?_; intro p hp
  obtain ⟨t, xs⟩ := p
  split
  · exact OutWT_err
  · rename_i hne
    have hxs := wt_of_unwrapList hy hp
    have hi := wt_of_unwrapConstant hx hitem
    have hty : item.ty = t := by
      by_cases h : t = item.ty
      · exact h.symm
      · exact absurd h (by simpa using hne)
    exact OutWT_pure (by simp [Const.wt, Const.wtList, hty, hi, hxs])

theorem headList_outwt (sem : Sem) (x : Value) (hx : x.wt = true) :
    OutWT (callBuiltinCore sem .headList [x]) := by
  simp only [callBuiltinCore, getArgB, List.getElem?_cons_zero]
  refine OutWT_bind ?_; intro a ha; cases ha
  refine OutWT_bind ?_; intro p hp
  obtain ⟨t, xs⟩ := p
  have hxs := wt_of_unwrapList hx hp
  cases xs with
  | nil => exact OutWT_err
  | cons c cs =>
    simp only [Const.wtList, Bool.and_eq_true] at hxs
    exact OutWT_pure hxs.1.2

theorem tailList_outwt (sem : Sem) (x : Value) (hx : x.wt = true) :
    OutWT (callBuiltinCore sem .tailList [x]) := by
  simp only [callBuiltinCore, getArgB, List.getElem?_cons_zero]
  refine OutWT_bind ?_; intro a ha; cases ha
  refine OutWT_bind ?_; intro p hp
  obtain ⟨t, xs⟩ := p
  have hxs := wt_of_unwrapList hx hp
  cases xs with
  | nil => exact OutWT_err
  | cons c cs =>
    simp only [Const.wtList, Bool.and_eq_true] at hxs
    exact OutWT_pure (by simpa [Const.wt] using hxs.2)

theorem fstPair_outwt (sem : Sem) (x : Value) (hx : x.wt = true) :
    OutWT (callBuiltinCore sem .fstPair [x]) := by
  simp only [callBuiltinCore, getArgB, List.getElem?_cons_zero]
  refine OutWT_bind ?_; intro a ha; cases ha
  refine OutWT_bind ?_; intro p hp
  obtain ⟨ta, tb, c1, c2⟩ := p
  exact OutWT_pure (wt_of_unwrapPair hx hp).1

theorem sndPair_outwt (sem : Sem) (x : Value) (hx : x.wt = true) :
    OutWT (callBuiltinCore sem .sndPair [x]) := by
  simp only [callBuiltinCore, getArgB, List.getElem?_cons_zero]
  refine OutWT_bind ?_; intro a ha; cases ha
  refine OutWT_bind ?_; intro p hp
  obtain ⟨ta, tb, c1, c2⟩ := p
  exact OutWT_pure (wt_of_unwrapPair hx hp).2

theorem dropList_outwt (sem : Sem) (x y : Value) (hy : y.wt = true) :
    OutWT (callBuiltinCore sem .dropList [x, y]) := by
  simp only [callBuiltinCore, getArgB, List.getElem?_cons_zero, List.getElem?_cons_succ]
  refine OutWT_bind ?_; intro a ha; cases ha
  refine OutWT_bind ?_; intro n _
  refine OutWT_bind ?_; intro b hb; cases hb
  refine OutWT_bind ?_; intro p hp
  obtain ⟨t, xs⟩ := p
  have hxs := wt_of_unwrapList hy hp
  refine OutWT_pure ?_
  simp only [Const.wt]
  split
  · exact hxs
  · exact Const.wtList_drop t xs _ hxs

/-- **builtins preserve well-typed constants** -/
theorem callBuiltin_wt (sem : Sem) (b : Builtin) (args : List Value) (v : Value) (hl : args.length = b.arity)
    (hw : Value.wtList args = true) (h : callBuiltin sem b args = .ok v) : v.wt = true := by
  have hcore : OutWT (callBuiltinCore sem b args) := by
    by_cases h1 : b = .mkCons
    · subst h1; obtain ⟨x, y, rfl⟩ := len_eq_two hl
      simp only [Value.wtList, Bool.and_eq_true] at hw; exact mkCons_outwt sem x y hw.1 hw.2.1
    by_cases h2 : b = .headList
    · subst h2; obtain ⟨x, rfl⟩ := len_eq_one hl
      simp only [Value.wtList, Bool.and_eq_true] at hw; exact headList_outwt sem x hw.1
    by_cases h3 : b = .tailList
    · subst h3; obtain ⟨x, rfl⟩ := len_eq_one hl
      simp only [Value.wtList, Bool.and_eq_true] at hw; exact tailList_outwt sem x hw.1
    by_cases h4 : b = .fstPair
    · subst h4; obtain ⟨x, rfl⟩ := len_eq_one hl
      simp only [Value.wtList, Bool.and_eq_true] at hw; exact fstPair_outwt sem x hw.1
    by_cases h5 : b = .sndPair
    · subst h5; obtain ⟨x, rfl⟩ := len_eq_one hl
      simp only [Value.wtList, Bool.and_eq_true] at hw; exact sndPair_outwt sem x hw.1
    by_cases h6 : b = .dropList
    · subst h6; obtain ⟨x, y, rfl⟩ := len_eq_two hl
      simp only [Value.wtList, Bool.and_eq_true] at hw; exact dropList_outwt sem x y hw.2.1
    by_cases h7 : b = .chooseData
    · subst h7; exact chooseData_outwt sem args hl
    exact core_outwt_generic sem b args hl ⟨h1, h2, h3, h4, h5, h6, h7⟩
  unfold callBuiltin at h
  cases hc : callBuiltinCore sem b args with
  | ok o =>
    rw [hc] at h
    cases o with
    | con c => simp only [Res.bind] at h; cases h; simpa [Value.wt] using hcore c hc
    | arg i =>
      simp only [Res.bind, getArgB] at h
      cases hi : args[i]? with
      | none => rw [hi] at h; cases h
      | some x =>
        rw [hi] at h
        cases h
        exact (Value.wtList_iff args).1 hw v (List.mem_of_getElem? hi)
  | err => rw [hc] at h; cases h
  | panic => rw [hc] at h; cases h
  | unmodelled => rw [hc] at h; cases h

end AikenVerif
