import AikenVerif.Lemmas.Schema
/-! The central induction of C12: on a faithful table, the (repaired) validator and the
compiled `expect` are the same function. -/
namespace AikenVerif.Blueprint

theorem pub_of_get {decls : Decls} {tbl : Table} (hF : Faithful decls tbl) {t : ATy} {ds : DSchema}
    (h : tbl.get t = some (.data ds)) :
    pubSchema decls t = some ds ∧ ∀ k ∈ (Schema.data ds).refs, ∃ ds', Res tbl k ds' := by
  obtain ⟨ds', hp, hs, hrefs⟩ := hF t _ h
  cases hs
  refine ⟨hp, fun k hk => ?_⟩
  obtain ⟨s', hs'⟩ := hrefs k hk
  exact hF.res hs'

theorem vData_eq_inh {decls : Decls} {tbl : Table} (hF : Faithful decls tbl) :
    ∀ (fuel : Nat) (t : ATy) (ds : DSchema) (d : Data), tbl.get t = some (.data ds) →
      vData true tbl fuel ds d = inh decls fuel t d := by
  intro fuel
  induction fuel with
  | zero => intro t ds d _; simp [vData, inh]
  | succ fuel ih =>
    intro t ds d hget
    obtain ⟨hpub, hrefs⟩ := pub_of_get hF hget
    have ihf : ∀ (t : ATy) (s : DSchema) (x : Data), Res tbl t s →
        vData true tbl fuel s x = inh decls fuel t x := fun t s x h => ih t s x h
    cases t with
    | int => simp [pubSchema, schemaOf, replaceS] at hpub; subst hpub; cases d <;> simp [vData, inh]
    | bytes => simp [pubSchema, schemaOf, replaceS] at hpub; subst hpub; cases d <;> simp [vData, inh]
    | data => simp [pubSchema, schemaOf, replaceS] at hpub; subst hpub; cases d <;> simp [vData, inh]
    | bool =>
      simp [pubSchema, schemaOf, replaceS] at hpub; subst hpub
      cases d <;> simp [vData, inh, resolveCtors, resolveAll, ctorLoop, zipOk]
    | void =>
      simp [pubSchema, schemaOf, replaceS] at hpub; subst hpub
      cases d <;> simp [vData, inh, resolveCtors, resolveAll, ctorLoop, zipOk]
    | ordering =>
      simp [pubSchema, schemaOf, replaceS] at hpub; subst hpub
      cases d <;> simp [vData, inh, resolveCtors, resolveAll, ctorLoop, zipOk]
    | never =>
      simp [pubSchema, schemaOf, replaceS] at hpub; subst hpub
      cases d <;> simp [vData, inh, resolveCtors, resolveAll, ctorLoop, zipOk]
    | var i => simp [pubSchema, schemaOf] at hpub
    | option t =>
      simp [pubSchema, schemaOf, replaceS] at hpub; subst hpub
      obtain ⟨s, hs⟩ := hrefs t (by simp [Schema.refs, declRefs])
      have hcs : resolveCtors tbl [(0, [Decl.ref t]), (1, [])] = some [(0, [s]), (1, [])] := by
        simp [resolveCtors, resolveAll, resolveD_ref hs]
      cases d with
      | constr tag fields =>
        simp only [vData, inh, hcs, lenOutcome_true]
        exact ctorLoop_rel (R := Res tbl) .mismatch tag fields
          (.cons ⟨rfl, .cons hs .nil⟩ (.cons ⟨rfl, .nil⟩ .nil)) ihf
      | _ => simp [vData, inh, hcs]
    | pair a b =>
      simp [pubSchema, schemaOf, replaceS, replaceD] at hpub; subst hpub
      obtain ⟨sa, hsa⟩ := hrefs a (by simp [Schema.refs, declRefs])
      obtain ⟨sb, hsb⟩ := hrefs b (by simp [Schema.refs, declRefs])
      have hr : resolveAll tbl [Decl.ref a, Decl.ref b] = some [sa, sb] := by
        simp [resolveAll, resolveD_ref hsa, resolveD_ref hsb]
      cases d with
      | list xs =>
        simp only [vData, inh, hr, List.length_cons, List.length_nil]
        rw [zipOk_rel (R := Res tbl) (.cons hsa (.cons hsb .nil)) ihf]
      | _ => simp [vData, inh]
    | tuple ts =>
      simp [pubSchema, schemaOf, replaceS] at hpub; subst hpub
      obtain ⟨ss, hss, hrel⟩ := resolveAll_refs (tbl := tbl) ts.toList (fun k hk => hrefs k (by
        simp [Schema.refs, flatMap_declRefs_refs]; exact hk))
      cases d with
      | list xs =>
        simp only [vData, inh, hss]
        rw [← hrel.length_eq, zipOk_rel hrel ihf]
      | _ => simp [vData, inh]
    | list t =>
      by_cases hp : ∃ a b, t = .pair a b
      · obtain ⟨a, b, rfl⟩ := hp
        simp [pubSchema, schemaOf, replaceS] at hpub; subst hpub
        obtain ⟨sa, hsa⟩ := hrefs a (by simp [Schema.refs, declRefs])
        obtain ⟨sb, hsb⟩ := hrefs b (by simp [Schema.refs, declRefs])
        cases d with
        | map es =>
          simp only [vData, inh, resolveD_ref hsa, resolveD_ref hsb]
          apply allOk_congr
          intro e
          rw [ihf a sa _ hsa, ihf b sb _ hsb]
        | _ => simp [vData, inh]
      · have hsch : schemaOf decls (.list t) = some (.data (.list (.ref t))) := by
          cases t <;> first | (exfalso; exact hp ⟨_, _, rfl⟩) | simp [schemaOf]
        simp [pubSchema, hsch, replaceS] at hpub; subst hpub
        obtain ⟨s, hs⟩ := hrefs t (by simp [Schema.refs, declRefs])
        cases d with
        | list xs =>
          have hi : inh decls (fuel + 1) (.list t) (.list xs) = allOk (fun x => inh decls fuel t x) xs := by
            cases t <;> first | (exfalso; exact hp ⟨_, _, rfl⟩) | simp [inh]
          rw [hi]
          simp only [vData, resolveD_ref hs]
          exact allOk_congr xs (fun x => ihf t s x hs)
        | constr tag fs =>
          have hi : inh decls (fuel + 1) (.list t) (.constr tag fs) = .mismatch := by
            cases t <;> first | (exfalso; exact hp ⟨_, _, rfl⟩) | simp [inh]
          rw [hi]; simp [vData]
        | map es =>
          have hi : inh decls (fuel + 1) (.list t) (.map es) = .mismatch := by
            cases t <;> first | (exfalso; exact hp ⟨_, _, rfl⟩) | simp [inh]
          rw [hi]; simp [vData]
        | int i =>
          have hi : inh decls (fuel + 1) (.list t) (.int i) = .mismatch := by
            cases t <;> first | (exfalso; exact hp ⟨_, _, rfl⟩) | simp [inh]
          rw [hi]; simp [vData]
        | bytes b =>
          have hi : inh decls (fuel + 1) (.list t) (.bytes b) = .mismatch := by
            cases t <;> first | (exfalso; exact hp ⟨_, _, rfl⟩) | simp [inh]
          rw [hi]; simp [vData]
    | adt n args =>
      simp only [pubSchema, schemaOf] at hpub
      cases hsh : adtShape decls n args with
      | undeclared => simp [hsh] at hpub
      | record fs =>
        simp [hsh, replaceS] at hpub; subst hpub
        obtain ⟨ss, hss, hrel⟩ := resolveAll_refs (tbl := tbl) fs (fun k hk => hrefs k (by
          simp [Schema.refs, flatMap_declRefs_refs]; exact hk))
        cases d with
        | list xs =>
          simp only [vData, inh, hss, hsh]
          rw [← hrel.length_eq, zipOk_rel hrel ihf]
        | _ => simp [vData, inh, hsh]
      | variants cs =>
        simp [hsh, replaceS] at hpub; subst hpub
        obtain ⟨rs, hrs, hrel⟩ := resolveCtors_refs (tbl := tbl) cs (fun c hc k hk => hrefs k (by
          simp only [Schema.refs, List.mem_flatMap]
          exact ⟨(c.1, refs c.2), List.mem_map.mpr ⟨c, hc, rfl⟩, by
            have : k ∈ (refs c.2).flatMap (declRefs (α := DSchema)) := by
              rw [flatMap_declRefs_refs]; exact hk
            exact List.mem_flatMap.mp this⟩))
        cases d with
        | constr tag fields =>
          simp only [vData, inh, hrs, hsh, lenOutcome_true]
          exact ctorLoop_rel .mismatch tag fields hrel ihf
        | _ => simp [vData, inh, hrs, hsh]

end AikenVerif.Blueprint
