import AikenVerif.Model.Mini
import AikenVerif.Lemmas.Mini
/-!
# Type soundness of the MiniAiken source semantics (first-order fragment)

A simple type system for the first-order part of `Model/Mini.lean` — literals, variables, `let`,
`if`, `&&` / `||`, the strict operators, tuples, lists, calls of (mutually) recursive top-level
functions, `fail` / `todo`, `expect` and `when` over list / tuple / literal patterns, `trace` and `?` —
and the proof that a well-typed expression of a well-typed program NEVER evaluates to `stuck`,
whatever the fuel, the tracing mode and the (well-typed) arguments; when it yields a value, the value
has the expression's type.  `stuck` is the model's image of the structural machine errors of C06.

User data types (constructors, field access, constructor patterns) and tuple indexing are typed
against the program's `adts` table; `Data` up-casts are total on typed values (`toData_total`) and a
successful down-cast yields a value of the requested type (`fromData_ty`).  Not covered (hence
`…_partial` in `Props/C06.lean`): closures / higher-order application.
-/
namespace AikenVerif.Mini

abbrev Ctx := List (Nat × MTy)
/-- the user data types of a program: per type, per constructor, the field types -/
abbrev Adts := List (List (List MTy))
/-- signatures of the top-level functions: parameter types and result type -/
abbrev Sig := List (List MTy × MTy)

def lookupTy : Ctx → Nat → Option MTy
  | [], _ => none
  | (y, t) :: rest, x => if x = y then some t else lookupTy rest x

-- ------------------------------------------------------------------ typing of values
mutual
  def valTy (A : Adts) : Val → MTy → Bool
    | .int _, .int => true
    | .bool _, .bool => true
    | .bytes _, .bytes => true
    | .unit, .void => true
    | .str _, .str => true
    | .list vs, .list t => allTy A vs t
    | .tuple vs, .tup ts => zipTy A vs ts
    | .con tag vs, .adt i =>
      match A[i]? with
      | some ctors =>
        match ctors[tag]? with
        | some tys => zipTy A vs tys
        | none => false
      | none => false
    | .con tag vs, .opt t => (tag == 0 && zipTy A vs [t]) || (tag == 1 && vs.isEmpty)
    | .data _, .data => true
    | _, _ => false
  def allTy (A : Adts) : List Val → MTy → Bool
    | [], _ => true
    | v :: vs, t => valTy A v t && allTy A vs t
  def zipTy (A : Adts) : List Val → List MTy → Bool
    | [], [] => true
    | v :: vs, t :: ts => valTy A v t && zipTy A vs ts
    | _, _ => false
end

/-- a context and an environment of the same shape, value by value -/
def envOk (A : Adts) : Ctx → Env → Prop
  | [], [] => True
  | (x, t) :: Γ, (y, v) :: env => x = y ∧ valTy A v t = true ∧ envOk A Γ env
  | _, _ => False

-- ------------------------------------------------------------------ typing of patterns
mutual
  /-- the bindings of a pattern at a type (newest first, as `matchPat` returns them) -/
  def patCtx (A : Adts) : Pat → MTy → Option Ctx
    | .wild, _ => some []
    | .var x, t => some [(x, t)]
    | .int _, .int => some []
    | .bytes _, .bytes => some []
    | .bool _, .bool => some []
    | .tuple ps, .tup ts => patsCtx A ps ts
    | .con tag ps, .adt i =>
      match A[i]? with
      | some ctors =>
        match ctors[tag]? with
        | some tys => patsCtx A ps tys
        | none => none
      | none => none
    | .nil, .list _ => some []
    | .cons h tl, .list t =>
      match patCtx A h t with
      | some c1 =>
        match patCtx A tl (.list t) with
        | some c2 => some (c2 ++ c1)
        | none => none
      | none => none
    | _, _ => none
  def patsCtx (A : Adts) : List Pat → List MTy → Option Ctx
    | [], [] => some []
    | p :: ps, t :: ts =>
      match patCtx A p t with
      | some c1 =>
        match patsCtx A ps ts with
        | some c2 => some (c2 ++ c1)
        | none => none
      | none => none
    | _, _ => none
end

-- ------------------------------------------------------------------ typing of operators
inductive UnTy (A : Adts) : UnOp → MTy → MTy → Prop
  | neg : UnTy A .neg .int .int
  | not : UnTy A .not .bool .bool
  | len : UnTy A .len .bytes .int
  /-- field access: on single-constructor types only (what the real checker allows) -/
  | field (i k tys t) : A[i]? = some [tys] → tys[k]? = some t → UnTy A (.field k) (.adt i) t
  | tupIdx (ts k t) : ts[k]? = some t → UnTy A (.tupIdx k) (.tup ts) t
  /-- up-cast to `Data`: every first-order value has an encoding -/
  | toData (t) : UnTy A .toData t .data
  /-- down-cast `expect _: t = d`: fails (`abort`) or yields a value of type `t` -/
  | fromData (t) : UnTy A (.fromData t) .data t

inductive BinTy : BinOp → MTy → MTy → MTy → Prop
  | add : BinTy .add .int .int .int
  | sub : BinTy .sub .int .int .int
  | mul : BinTy .mul .int .int .int
  | div : BinTy .div .int .int .int
  | mod : BinTy .mod .int .int .int
  | lt : BinTy .lt .int .int .bool
  | le : BinTy .le .int .int .bool
  | gt : BinTy .gt .int .int .bool
  | ge : BinTy .ge .int .int .bool
  | eq (a) : BinTy .eq a a .bool
  | ne (a) : BinTy .ne a a .bool
  | cons (a) : BinTy .cons a (.list a) (.list a)
  | append : BinTy .append .bytes .bytes .bytes
  | index : BinTy .index .bytes .int .int

-- ------------------------------------------------------------------ typing of expressions
mutual
  inductive HasTy (A : Adts) (S : Sig) : Ctx → Expr → MTy → Prop
    | lit_int (Γ n) : HasTy A S Γ (.lit (.int n)) .int
    | lit_bool (Γ b) : HasTy A S Γ (.lit (.bool b)) .bool
    | lit_bytes (Γ b) : HasTy A S Γ (.lit (.bytes b)) .bytes
    | lit_unit (Γ) : HasTy A S Γ (.lit .unit) .void
    | lit_str (Γ s) : HasTy A S Γ (.lit (.str s)) .str
    | var (Γ x t) : lookupTy Γ x = some t → HasTy A S Γ (.var x) t
    | let_used (Γ x a b ta t) : HasTy A S Γ a ta → HasTy A S ((x, ta) :: Γ) b t → HasTy A S Γ (.letE x true a b) t
    | let_unused (Γ x a b t) : HasTy A S Γ b t → HasTy A S Γ (.letE x false a b) t
    | ite (Γ c a b t) : HasTy A S Γ c .bool → HasTy A S Γ a t → HasTy A S Γ b t → HasTy A S Γ (.ite c a b) t
    | and (Γ a b) : HasTy A S Γ a .bool → HasTy A S Γ b .bool → HasTy A S Γ (.and a b) .bool
    | or (Γ a b) : HasTy A S Γ a .bool → HasTy A S Γ b .bool → HasTy A S Γ (.or a b) .bool
    | un (Γ op a ta t) : HasTy A S Γ a ta → UnTy A op ta t → HasTy A S Γ (.un op a) t
    | bin (Γ op a b ta tb t) : HasTy A S Γ a ta → HasTy A S Γ b tb → BinTy op ta tb t →
        HasTy A S Γ (.bin op a b) t
    | tuple (Γ es ts) : HasTys A S Γ es ts → HasTy A S Γ (.tuple es) (.tup ts)
    | list (Γ es t) : HasTys A S Γ es (List.replicate es.length t) → HasTy A S Γ (.list es) (.list t)
    | con (Γ i tag es ctors tys) : A[i]? = some ctors → ctors[tag]? = some tys → HasTys A S Γ es tys →
        HasTy A S Γ (.con tag es) (.adt i)
    | call (Γ f es argtys r) : S[f]? = some (argtys, r) → HasTys A S Γ es argtys → HasTy A S Γ (.call f es) r
    | fail (Γ b t) : HasTy A S Γ (.fail b) t
    | expect (Γ p a b ta Γp t) : HasTy A S Γ a ta → patCtx A p ta = some Γp → HasTy A S (Γp ++ Γ) b t →
        HasTy A S Γ (.expect p a b) t
    /-- `when`: every clause is typed under its pattern's bindings; exhaustiveness — what the real
    checker's usefulness algorithm decides (C07) — is a premise over the values of the type -/
    | when (Γ s cs ts t) : HasTy A S Γ s ts →
        (∀ c ∈ cs, (patCtx A c.1 ts).isSome = true) →
        (∀ c ∈ cs, ∀ Γp, patCtx A c.1 ts = some Γp → HasTy A S (Γp ++ Γ) c.2 t) →
        (∀ v, valTy A v ts = true → firstMatch v cs ≠ none) →
        HasTy A S Γ (.when s cs) t
    | trace (Γ l args b tl ts t) : HasTy A S Γ l tl → HasTys A S Γ args ts → HasTy A S Γ b t →
        HasTy A S Γ (.trace l args b) t
    | traceIfFalse (Γ a) : HasTy A S Γ a .bool → HasTy A S Γ (.traceIfFalse a) .bool
  inductive HasTys (A : Adts) (S : Sig) : Ctx → List Expr → List MTy → Prop
    | nil (Γ) : HasTys A S Γ [] []
    | cons (Γ e es t ts) : HasTy A S Γ e t → HasTys A S Γ es ts → HasTys A S Γ (e :: es) (t :: ts)
end

/-- every function with a signature has a body typed at that signature -/
def ProgTy (S : Sig) (P : Program) : Prop :=
  ∀ (f : Nat) (argtys : List MTy) (r : MTy), S[f]? = some (argtys, r) →
    ∃ (xs : List Nat) (body : Expr), P.fns[f]? = some (xs, body) ∧ xs.length = argtys.length ∧ HasTy P.adts S (xs.zip argtys) body r

-- ------------------------------------------------------------------ soundness statement
/-- not `stuck`; a value satisfies `Q` -/
def Good {α} (o : Outcome α) (Q : α → Prop) : Prop :=
  match o with
  | .val a => Q a
  | .stuck => False
  | _ => True

/-- not `stuck`; a value has the type -/
def Ok (A : Adts) (o : Outcome Val) (t : MTy) : Prop := Good o (fun v => valTy A v t = true)

def OkL (A : Adts) (o : Outcome (List Val)) (ts : List MTy) : Prop := Good o (fun vs => zipTy A vs ts = true)

-- ------------------------------------------------------------------ inversion lemmas on values
variable {A : Adts}

theorem valTy_int {v} (h : valTy A v .int = true) : ∃ n, v = .int n := by
  cases v <;> simp [valTy] at h ⊢
theorem valTy_bool {v} (h : valTy A v .bool = true) : ∃ b, v = .bool b := by
  cases v <;> simp [valTy] at h ⊢
theorem valTy_bytes {v} (h : valTy A v .bytes = true) : ∃ b, v = .bytes b := by
  cases v <;> simp [valTy] at h ⊢
theorem valTy_list {v t} (h : valTy A v (.list t) = true) : ∃ vs, v = .list vs ∧ allTy A vs t = true := by
  cases v <;> simp [valTy] at h ⊢
  exact h
theorem valTy_tup {v ts} (h : valTy A v (.tup ts) = true) : ∃ vs, v = .tuple vs ∧ zipTy A vs ts = true := by
  cases v <;> simp [valTy] at h ⊢
  exact h

theorem zipTy_replicate : ∀ (vs : List Val) (t : MTy) (n : Nat),
    zipTy A vs (List.replicate n t) = true → allTy A vs t = true
  | [], _, _, _ => by simp [allTy]
  | v :: vs, t, 0, h => by simp [zipTy] at h
  | v :: vs, t, n + 1, h => by
    simp only [List.replicate_succ, zipTy, Bool.and_eq_true] at h
    simp only [allTy, Bool.and_eq_true]
    exact ⟨h.1, zipTy_replicate vs t n h.2⟩

theorem zipTy_length : ∀ (vs : List Val) (ts : List MTy), zipTy A vs ts = true → vs.length = ts.length
  | [], [], _ => rfl
  | [], _ :: _, h => by simp [zipTy] at h
  | _ :: _, [], h => by simp [zipTy] at h
  | v :: vs, t :: ts, h => by
    simp only [zipTy, Bool.and_eq_true] at h
    simp [zipTy_length vs ts h.2]

theorem valTy_adt {v i} (h : valTy A v (.adt i) = true) :
    ∃ tag vs ctors tys, v = .con tag vs ∧ A[i]? = some ctors ∧ ctors[tag]? = some tys ∧
      zipTy A vs tys = true := by
  cases v <;> simp only [valTy, reduceCtorEq, Bool.false_eq_true] at h
  rename_i tag vs
  cases h1 : A[i]? with
  | none => simp [h1] at h
  | some ctors =>
    cases h2 : ctors[tag]? with
    | none => simp [h1, h2] at h
    | some tys =>
      simp only [h1, h2] at h
      exact ⟨tag, vs, ctors, tys, rfl, rfl, h2, h⟩

theorem zipTy_get : ∀ (vs : List Val) (ts : List MTy) (k : Nat) (t : MTy), zipTy A vs ts = true →
    ts[k]? = some t → ∃ v, vs[k]? = some v ∧ valTy A v t = true
  | [], [], _, _, _, h => by simp at h
  | [], _ :: _, _, _, h, _ => by simp [zipTy] at h
  | _ :: _, [], _, _, h, _ => by simp [zipTy] at h
  | v :: vs, t' :: ts, 0, t, h, hk => by
    simp only [zipTy, Bool.and_eq_true] at h
    simp only [List.getElem?_cons_zero, Option.some.injEq] at hk
    subst hk
    exact ⟨v, rfl, h.1⟩
  | v :: vs, t' :: ts, k + 1, t, h, hk => by
    simp only [zipTy, Bool.and_eq_true] at h
    simp only [List.getElem?_cons_succ] at hk ⊢
    exact zipTy_get vs ts k t h.2 hk

-- ------------------------------------------------------------------ Data casts
mutual
  /-- every typed (hence closure-free) value has a `Data` encoding -/
  theorem toData_total : ∀ (v : Val) (t : MTy), valTy A v t = true → ∃ d, toData v = some d
    | .int n, _, _ => ⟨_, rfl⟩
    | .bool b, _, _ => ⟨_, rfl⟩
    | .bytes b, _, _ => ⟨_, rfl⟩
    | .unit, _, _ => ⟨_, rfl⟩
    | .str s, _, _ => ⟨_, rfl⟩
    | .data d, _, _ => ⟨_, rfl⟩
    | .clo _ _, t, h => by cases t <;> simp [valTy] at h
    | .fn _, t, h => by cases t <;> simp [valTy] at h
    | .list vs, t, h => by
      cases t <;> simp only [valTy, Bool.false_eq_true] at h
      rename_i te
      obtain ⟨ds, hds⟩ := toDataList_total_all vs te h
      exact ⟨.list ds, by simp [toData, hds]⟩
    | .tuple vs, t, h => by
      cases t <;> simp only [valTy, Bool.false_eq_true] at h
      rename_i ts
      obtain ⟨ds, hds⟩ := toDataList_total_zip vs ts h
      exact ⟨.list ds, by simp [toData, hds]⟩
    | .con tag vs, t, h => by
      cases t <;> simp only [valTy, Bool.false_eq_true] at h
      · rename_i te
        simp only [Bool.or_eq_true, Bool.and_eq_true] at h
        rcases h with ⟨_, h⟩ | ⟨_, h⟩
        · obtain ⟨ds, hds⟩ := toDataList_total_zip vs [te] h
          exact ⟨.constr tag ds, by simp [toData, hds]⟩
        · cases vs with
          | nil => exact ⟨.constr tag [], by simp [toData, toDataList]⟩
          | cons _ _ => simp at h
      · rename_i i
        cases h1 : A[i]? with
        | none => simp [h1] at h
        | some ctors =>
          cases h2 : ctors[tag]? with
          | none => simp [h1, h2] at h
          | some tys =>
            simp only [h1, h2] at h
            obtain ⟨ds, hds⟩ := toDataList_total_zip vs tys h
            exact ⟨.constr tag ds, by simp [toData, hds]⟩
  theorem toDataList_total_all : ∀ (vs : List Val) (t : MTy), allTy A vs t = true →
      ∃ ds, toDataList vs = some ds
    | [], _, _ => ⟨[], rfl⟩
    | v :: vs, t, h => by
      simp only [allTy, Bool.and_eq_true] at h
      obtain ⟨d, hd⟩ := toData_total v t h.1
      obtain ⟨ds, hds⟩ := toDataList_total_all vs t h.2
      exact ⟨d :: ds, by simp [toDataList, hd, hds]⟩
  theorem toDataList_total_zip : ∀ (vs : List Val) (ts : List MTy), zipTy A vs ts = true →
      ∃ ds, toDataList vs = some ds
    | [], _, _ => ⟨[], rfl⟩
    | v :: vs, [], h => by simp [zipTy] at h
    | v :: vs, t :: ts, h => by
      simp only [zipTy, Bool.and_eq_true] at h
      obtain ⟨d, hd⟩ := toData_total v t h.1
      obtain ⟨ds, hds⟩ := toDataList_total_zip vs ts h.2
      exact ⟨d :: ds, by simp [toDataList, hd, hds]⟩
end

mutual
  /-- a successful down-cast yields a value of the requested type -/
  theorem fromData_ty : ∀ (d : Data) (t : MTy) (v : Val), fromData A t d = some v → valTy A v t = true
    | .int n, t, v, h => by
      cases t <;> simp only [fromData, Option.some.injEq, reduceCtorEq] at h <;> subst h <;> simp [valTy]
    | .bytes b, t, v, h => by
      cases t <;> simp only [fromData, Option.some.injEq, reduceCtorEq] at h <;> subst h <;> simp [valTy]
    | .map es, t, v, h => by
      cases t <;> simp only [fromData, Option.some.injEq, reduceCtorEq] at h <;> subst h <;> simp [valTy]
    | .list ds, t, v, h => by
      cases t <;> simp only [fromData, Option.some.injEq, reduceCtorEq, Option.map_eq_some_iff] at h
      · subst h; simp [valTy]
      · obtain ⟨vs, hvs, rfl⟩ := h
        simpa [valTy] using fromDataAll_ty ds _ vs hvs
      · obtain ⟨vs, hvs, rfl⟩ := h
        simpa [valTy] using fromDataZip_ty ds _ vs hvs
    | .constr tag fs, t, v, h => by
      cases t
      case data => simp only [fromData, Option.some.injEq] at h; subst h; simp [valTy]
      case bool =>
        cases fs <;> simp only [fromData, reduceCtorEq] at h
        split at h
        · simp only [Option.some.injEq] at h; subst h; simp [valTy]
        · split at h <;> simp only [Option.some.injEq, reduceCtorEq] at h
          subst h; simp [valTy]
      case void =>
        cases fs <;> simp only [fromData, reduceCtorEq] at h
        split at h <;> simp only [Option.some.injEq, reduceCtorEq] at h
        subst h; simp [valTy]
      case opt te =>
        simp only [fromData] at h
        split at h
        · simp only [Option.map_eq_some_iff] at h
          obtain ⟨vs, hvs, rfl⟩ := h
          have := fromDataZip_ty fs [te] vs hvs
          simp [valTy, this]
        · split at h
          · cases fs <;> simp only [Option.some.injEq, reduceCtorEq] at h
            subst h; simp [valTy]
          · simp at h
      case adt i =>
        simp only [fromData] at h
        cases h1 : A[i]? with
        | none => simp [h1] at h
        | some ctors =>
          cases h2 : ctors[tag]? with
          | none => simp [h1, h2] at h
          | some tys =>
            simp only [h1, h2, Option.map_eq_some_iff] at h
            obtain ⟨vs, hvs, rfl⟩ := h
            simpa [valTy, h1, h2] using fromDataZip_ty fs tys vs hvs
      all_goals simp [fromData] at h
  theorem fromDataAll_ty : ∀ (ds : List Data) (t : MTy) (vs : List Val), fromDataAll A t ds = some vs →
      allTy A vs t = true
    | [], _, vs, h => by simp only [fromDataAll, Option.some.injEq] at h; subst h; simp [allTy]
    | d :: ds, t, vs, h => by
      simp only [fromDataAll] at h
      cases h1 : fromData A t d with
      | none => simp [h1] at h
      | some w =>
        cases h2 : fromDataAll A t ds with
        | none => simp [h1, h2] at h
        | some ws =>
          simp only [h1, h2, Option.some.injEq] at h
          subst h
          simp [allTy, fromData_ty d t w h1, fromDataAll_ty ds t ws h2]
  theorem fromDataZip_ty : ∀ (ds : List Data) (ts : List MTy) (vs : List Val), fromDataZip A ts ds = some vs →
      zipTy A vs ts = true
    | [], ts, vs, h => by
      cases ts <;> simp only [fromDataZip, Option.some.injEq, reduceCtorEq] at h
      subst h; simp [zipTy]
    | d :: ds, ts, vs, h => by
      cases ts with
      | nil => simp [fromDataZip] at h
      | cons t ts =>
        simp only [fromDataZip] at h
        cases h1 : fromData A t d with
        | none => simp [h1] at h
        | some w =>
          cases h2 : fromDataZip A ts ds with
          | none => simp [h1, h2] at h
          | some ws =>
            simp only [h1, h2, Option.some.injEq] at h
            subst h
            simp [zipTy, fromData_ty d t w h1, fromDataZip_ty ds ts ws h2]
end

-- ------------------------------------------------------------------ environments
theorem envOk_lookup : ∀ (Γ : Ctx) (env : Env) (x : Nat) (t : MTy), envOk A Γ env → lookupTy Γ x = some t →
    ∃ v, lookup env x = some v ∧ valTy A v t = true
  | [], [], _, _, _, h => by simp [lookupTy] at h
  | [], _ :: _, _, _, h, _ => by simp [envOk] at h
  | _ :: _, [], _, _, h, _ => by simp [envOk] at h
  | (y, ty) :: Γ, (z, v) :: env, x, t, h, hl => by
    simp only [envOk] at h
    obtain ⟨hyz, hv, hrest⟩ := h
    subst hyz
    simp only [lookupTy] at hl
    simp only [lookup]
    by_cases hx : x = y
    · simp only [hx, if_true] at hl ⊢
      cases hl
      exact ⟨v, rfl, hv⟩
    · simp only [hx, if_false] at hl ⊢
      exact envOk_lookup Γ env x t hrest hl

theorem envOk_append : ∀ (Γ₁ : Ctx) (e₁ : Env) (Γ₂ : Ctx) (e₂ : Env), envOk A Γ₁ e₁ → envOk A Γ₂ e₂ →
    envOk A (Γ₁ ++ Γ₂) (e₁ ++ e₂)
  | [], [], _, _, _, h2 => by simpa using h2
  | [], _ :: _, _, _, h, _ => by simp [envOk] at h
  | _ :: _, [], _, _, h, _ => by simp [envOk] at h
  | (x, t) :: Γ₁, (y, v) :: e₁, Γ₂, e₂, h1, h2 => by
    simp only [envOk] at h1
    simp only [List.cons_append, envOk]
    exact ⟨h1.1, h1.2.1, envOk_append Γ₁ e₁ Γ₂ e₂ h1.2.2 h2⟩

theorem bindParams_ok : ∀ (xs : List Nat) (vs : List Val) (ts : List MTy), xs.length = ts.length →
    zipTy A vs ts = true → ∃ env, bindParams xs vs = some env ∧ envOk A (xs.zip ts) env
  | [], [], [], _, _ => ⟨[], rfl, by simp [envOk]⟩
  | [], _ :: _, [], _, h => by simp [zipTy] at h
  | [], _, _ :: _, h, _ => by simp at h
  | _ :: _, _, [], h, _ => by simp at h
  | _ :: _, [], _ :: _, _, h => by simp [zipTy] at h
  | x :: xs, v :: vs, t :: ts, hl, h => by
    simp only [zipTy, Bool.and_eq_true] at h
    have hl' : xs.length = ts.length := by simpa using hl
    obtain ⟨env, he, hok⟩ := bindParams_ok xs vs ts hl' h.2
    exact ⟨(x, v) :: env, by simp [bindParams, he], by simp [envOk, h.1, hok]⟩

-- ------------------------------------------------------------------ patterns
mutual
  theorem matchPat_ok : ∀ (p : Pat) (t : MTy) (v : Val) (Γp : Ctx) (bs : Env),
      patCtx A p t = some Γp → valTy A v t = true → matchPat p v = some bs → envOk A Γp bs
    | .wild, _, _, _, _, hp, _, hm => by
      simp only [patCtx, Option.some.injEq] at hp
      simp only [matchPat, Option.some.injEq] at hm
      subst hp; subst hm; simp [envOk]
    | .var x, t, v, _, _, hp, hv, hm => by
      simp only [patCtx, Option.some.injEq] at hp
      simp only [matchPat, Option.some.injEq] at hm
      subst hp; subst hm; simp [envOk, hv]
    | .int n, t, v, Γp, bs, hp, hv, hm => by
      cases t <;> simp only [patCtx, Option.some.injEq, reduceCtorEq] at hp
      obtain ⟨m, rfl⟩ := valTy_int hv
      simp only [matchPat] at hm
      split at hm <;> simp only [Option.some.injEq, reduceCtorEq] at hm
      subst hp; subst hm; simp [envOk]
    | .bytes n, t, v, Γp, bs, hp, hv, hm => by
      cases t <;> simp only [patCtx, Option.some.injEq, reduceCtorEq] at hp
      obtain ⟨m, rfl⟩ := valTy_bytes hv
      simp only [matchPat] at hm
      split at hm <;> simp only [Option.some.injEq, reduceCtorEq] at hm
      subst hp; subst hm; simp [envOk]
    | .bool n, t, v, Γp, bs, hp, hv, hm => by
      cases t <;> simp only [patCtx, Option.some.injEq, reduceCtorEq] at hp
      obtain ⟨m, rfl⟩ := valTy_bool hv
      simp only [matchPat] at hm
      split at hm <;> simp only [Option.some.injEq, reduceCtorEq] at hm
      subst hp; subst hm; simp [envOk]
    | .con tag ps, t, v, Γp, bs, hp, hv, hm => by
      cases t <;> simp only [patCtx, reduceCtorEq] at hp
      rename_i i
      obtain ⟨tag', vs, ctors, tys, rfl, h1, h2, hz⟩ := valTy_adt hv
      simp only [matchPat] at hm
      split at hm
      · rename_i htag
        subst htag
        simp only [h1, h2] at hp
        exact matchPats_ok ps tys vs Γp bs hp hz hm
      · simp at hm
    | .tuple ps, t, v, Γp, bs, hp, hv, hm => by
      cases t <;> simp only [patCtx, reduceCtorEq] at hp
      obtain ⟨vs, rfl, hvs⟩ := valTy_tup hv
      simp only [matchPat] at hm
      exact matchPats_ok ps _ vs Γp bs hp hvs hm
    | .nil, t, v, Γp, bs, hp, hv, hm => by
      cases t <;> simp only [patCtx, Option.some.injEq, reduceCtorEq] at hp
      obtain ⟨vs, rfl, _⟩ := valTy_list hv
      cases vs <;> simp only [matchPat, Option.some.injEq, reduceCtorEq] at hm
      subst hp; subst hm; simp [envOk]
    | .cons h tl, t, v, Γp, bs, hp, hv, hm => by
      cases t <;> simp only [patCtx, reduceCtorEq] at hp
      rename_i te
      obtain ⟨vs, rfl, hvs⟩ := valTy_list hv
      cases vs with
      | nil => simp [matchPat] at hm
      | cons w ws =>
        simp only [allTy, Bool.and_eq_true] at hvs
        simp only [matchPat] at hm
        cases h1 : patCtx A h te with
        | none => simp [h1] at hp
        | some c1 =>
          cases h2 : patCtx A tl (.list te) with
          | none => simp [h1, h2] at hp
          | some c2 =>
            simp only [h1, h2, Option.some.injEq] at hp
            cases m1 : matchPat h w with
            | none => simp [m1] at hm
            | some b1 =>
              cases m2 : matchPat tl (.list ws) with
              | none => simp [m1, m2] at hm
              | some b2 =>
                simp only [m1, m2, Option.some.injEq] at hm
                subst hp; subst hm
                have hws : valTy A (.list ws) (.list te) = true := by simpa [valTy] using hvs.2
                exact envOk_append _ _ _ _ (matchPat_ok tl _ _ _ _ h2 hws m2)
                  (matchPat_ok h _ _ _ _ h1 hvs.1 m1)
  theorem matchPats_ok : ∀ (ps : List Pat) (ts : List MTy) (vs : List Val) (Γp : Ctx) (bs : Env),
      patsCtx A ps ts = some Γp → zipTy A vs ts = true → matchPats ps vs = some bs → envOk A Γp bs
    | [], ts, vs, Γp, bs, hp, hv, hm => by
      cases ts <;> simp only [patsCtx, Option.some.injEq, reduceCtorEq] at hp
      cases vs <;> simp only [matchPats, Option.some.injEq, reduceCtorEq] at hm
      subst hp; subst hm; simp [envOk]
    | p :: ps, ts, vs, Γp, bs, hp, hv, hm => by
      cases ts with
      | nil => simp [patsCtx] at hp
      | cons t ts =>
        cases vs with
        | nil => simp [matchPats] at hm
        | cons v vs =>
          simp only [zipTy, Bool.and_eq_true] at hv
          simp only [patsCtx] at hp
          simp only [matchPats] at hm
          cases h1 : patCtx A p t with
          | none => simp [h1] at hp
          | some c1 =>
            cases h2 : patsCtx A ps ts with
            | none => simp [h1, h2] at hp
            | some c2 =>
              simp only [h1, h2, Option.some.injEq] at hp
              cases m1 : matchPat p v with
              | none => simp [m1] at hm
              | some b1 =>
                cases m2 : matchPats ps vs with
                | none => simp [m1, m2] at hm
                | some b2 =>
                  simp only [m1, m2, Option.some.injEq] at hm
                  subst hp; subst hm
                  exact envOk_append _ _ _ _ (matchPats_ok ps ts vs _ _ h2 hv.2 m2)
                    (matchPat_ok p t v _ _ h1 hv.1 m1)
end

theorem firstMatch_mem : ∀ (v : Val) (cs : List (Pat × Expr)) (bs : Env) (b : Expr),
    firstMatch v cs = some (bs, b) → ∃ c ∈ cs, matchPat c.1 v = some bs ∧ c.2 = b
  | _, [], _, _, h => by simp [firstMatch] at h
  | v, (p, e) :: rest, bs, b, h => by
    simp only [firstMatch] at h
    cases hm : matchPat p v with
    | some bs' =>
      simp only [hm, Option.some.injEq, Prod.mk.injEq] at h
      exact ⟨(p, e), by simp, by simp [hm, h.1], h.2⟩
    | none =>
      simp only [hm] at h
      obtain ⟨c, hc, h1, h2⟩ := firstMatch_mem v rest bs b h
      exact ⟨c, by simp [hc], h1, h2⟩

-- ------------------------------------------------------------------ operators
theorem unOp_ok (P : Program) (op : UnOp) (v : Val) (ta t : MTy) (ht : UnTy P.adts op ta t)
    (hv : valTy P.adts v ta = true) : Ok P.adts (unOp P op v) t := by
  cases ht with
  | neg => obtain ⟨n, rfl⟩ := valTy_int hv; simp [unOp, Ok, Good, valTy]
  | not => obtain ⟨n, rfl⟩ := valTy_bool hv; simp [unOp, Ok, Good, valTy]
  | len => obtain ⟨n, rfl⟩ := valTy_bytes hv; simp [unOp, Ok, Good, valTy]
  | field i k tys t hA hk =>
    obtain ⟨tag, vs, ctors, tys', rfl, h1, h2, hz⟩ := valTy_adt hv
    rw [hA] at h1
    cases h1
    have htag : tys' = tys := by
      cases tag with
      | zero => simpa using h2.symm
      | succ n => simp at h2
    subst htag
    obtain ⟨w, hw, hwt⟩ := zipTy_get vs tys' k t hz hk
    simp only [unOp, hw]
    exact hwt
  | tupIdx ts k t hk =>
    obtain ⟨vs, rfl, hz⟩ := valTy_tup hv
    obtain ⟨w, hw, hwt⟩ := zipTy_get vs ts k t hz hk
    simp only [unOp, hw]
    exact hwt
  | toData t0 =>
    obtain ⟨d, hd⟩ := toData_total v _ hv
    simp [unOp, hd, Ok, Good, valTy]
  | fromData t0 =>
    cases v <;> simp only [valTy, Bool.false_eq_true] at hv
    rename_i d
    simp only [unOp]
    cases hf : fromData P.adts t d with
    | none => simp [Ok, Good]
    | some w => exact fromData_ty d t w hf

theorem binOp_ok (op : BinOp) (x y : Val) (ta tb t : MTy) (ht : BinTy op ta tb t)
    (hx : valTy A x ta = true) (hy : valTy A y tb = true) : Ok A (binOp op x y) t := by
  cases ht
  case eq => simp [binOp, Ok, Good, valTy]
  case ne => simp [binOp, Ok, Good, valTy]
  case cons =>
    obtain ⟨vs, rfl, hvs⟩ := valTy_list hy
    simp [binOp, Ok, Good, valTy, allTy, hx, hvs]
  case append =>
    obtain ⟨a, rfl⟩ := valTy_bytes hx
    obtain ⟨b, rfl⟩ := valTy_bytes hy
    simp [binOp, Ok, Good, valTy]
  case index =>
    obtain ⟨a, rfl⟩ := valTy_bytes hx
    obtain ⟨b, rfl⟩ := valTy_int hy
    simp only [binOp]
    split
    · split <;> simp [Ok, Good, valTy]
    · simp [Ok, Good]
  all_goals
    obtain ⟨a, rfl⟩ := valTy_int hx
    obtain ⟨b, rfl⟩ := valTy_int hy
    simp only [binOp]
    first
      | (split <;> simp [Ok, Good, valTy])
      | simp [Ok, Good, valTy]

-- ------------------------------------------------------------------ bind
theorem Ok_bind {α} (x : M α) (f : α → M Val) (t : MTy) (Q : α → Prop)
    (hx : Good x.1 Q)
    (hf : ∀ a, Q a → Ok A (f a).1 t) : Ok A (bind x f).1 t := by
  obtain ⟨o, l⟩ := x
  cases o with
  | val a => simp only [bind]; exact hf a hx
  | abort => simp [bind, Ok, Good]
  | outOfFuel => simp [bind, Ok, Good]
  | stuck => exact absurd hx (by simp [Good])

theorem OkL_bind {α} (x : M α) (f : α → M (List Val)) (ts : List MTy) (Q : α → Prop)
    (hx : Good x.1 Q)
    (hf : ∀ a, Q a → OkL A (f a).1 ts) : OkL A (bind x f).1 ts := by
  obtain ⟨o, l⟩ := x
  cases o with
  | val a => simp only [bind]; exact hf a hx
  | abort => simp [bind, OkL, Good]
  | outOfFuel => simp [bind, OkL, Good]
  | stuck => exact absurd hx (by simp [Good])

theorem Ok_lift_ret (v : Val) (t : MTy) (h : valTy A v t = true) : Ok A (ret v : M Val).1 t := h

-- ------------------------------------------------------------------ soundness
/-- **Type soundness** (fuel-indexed): a well-typed expression of a well-typed program, run in a
well-typed environment with ANY fuel and ANY tracing mode, is never `stuck`, and a value it yields has
its type.  Same for expression lists. -/
theorem sound_step (S : Sig) (P : Program) (m : Mode) (hP : ProgTy S P) :
    ∀ n, (∀ Γ env e t, HasTy P.adts S Γ e t → envOk P.adts Γ env → Ok P.adts (eval P m n env e).1 t) ∧
         (∀ Γ env es ts, HasTys P.adts S Γ es ts → envOk P.adts Γ env → OkL P.adts (evalList P m n env es).1 ts) := by
  intro n
  induction n with
  | zero =>
    refine ⟨fun Γ env e t _ _ => ?_, fun Γ env es ts _ _ => ?_⟩
    · simp [eval, oof, Ok, Good]
    · simp [evalList, oof, OkL, Good]
  | succ n ih =>
    obtain ⟨ihE, ihL⟩ := ih
    refine ⟨fun Γ env e t h henv => ?_, fun Γ env es ts h henv => ?_⟩
    · match h with
      | .lit_int _ n => simp [eval, ret, litVal, Ok, Good, valTy]
      | .lit_bool _ b => simp [eval, ret, litVal, Ok, Good, valTy]
      | .lit_bytes _ b => simp [eval, ret, litVal, Ok, Good, valTy]
      | .lit_unit _ => simp [eval, ret, litVal, Ok, Good, valTy]
      | .lit_str _ s => simp [eval, ret, litVal, Ok, Good, valTy]
      | .var _ x _ hl =>
        obtain ⟨v, hv, hty⟩ := envOk_lookup Γ env x t henv hl
        simp only [eval, hv]
        exact hty
      | .let_used _ x a b ta _ ha hb =>
        simp only [eval, if_true]
        refine Ok_bind _ _ t (fun v => valTy P.adts v ta = true) (ihE _ _ _ _ ha henv) (fun v hv => ?_)
        exact ihE _ _ _ _ hb (by simp [envOk, hv, henv])
      | .let_unused _ x a b _ hb =>
        simp only [eval, Bool.false_eq_true, if_false]
        exact ihE _ _ _ _ hb henv
      | .ite _ c a b _ hc ha hb =>
        simp only [eval]
        refine Ok_bind _ _ t (fun v => valTy P.adts v .bool = true) (ihE _ _ _ _ hc henv) (fun v hv => ?_)
        obtain ⟨bb, rfl⟩ := valTy_bool hv
        cases bb
        · exact ihE _ _ _ _ hb henv
        · exact ihE _ _ _ _ ha henv
      | .and _ a b ha hb =>
        simp only [eval]
        refine Ok_bind _ _ _ (fun v => valTy P.adts v .bool = true) (ihE _ _ _ _ ha henv) (fun v hv => ?_)
        obtain ⟨bb, rfl⟩ := valTy_bool hv
        cases bb
        · simp [ret, Ok, Good, valTy]
        · exact ihE _ _ _ _ hb henv
      | .or _ a b ha hb =>
        simp only [eval]
        refine Ok_bind _ _ _ (fun v => valTy P.adts v .bool = true) (ihE _ _ _ _ ha henv) (fun v hv => ?_)
        obtain ⟨bb, rfl⟩ := valTy_bool hv
        cases bb
        · exact ihE _ _ _ _ hb henv
        · simp [ret, Ok, Good, valTy]
      | .un _ op a ta _ ha hop =>
        simp only [eval]
        refine Ok_bind _ _ t (fun v => valTy P.adts v ta = true) (ihE _ _ _ _ ha henv) (fun v hv => ?_)
        exact unOp_ok P op v ta t hop hv
      | .bin _ op a b ta tb _ ha hb hop =>
        simp only [eval]
        refine Ok_bind _ _ t (fun v => valTy P.adts v ta = true) (ihE _ _ _ _ ha henv) (fun x hx => ?_)
        refine Ok_bind _ _ t (fun v => valTy P.adts v tb = true) (ihE _ _ _ _ hb henv) (fun y hy => ?_)
        exact binOp_ok op x y ta tb t hop hx hy
      | .tuple _ es ts hes =>
        simp only [eval]
        refine Ok_bind _ _ _ (fun vs => zipTy P.adts vs ts = true) (ihL _ _ _ _ hes henv) (fun vs hvs => ?_)
        simpa [ret, Ok, Good, valTy] using hvs
      | .list _ es te hes =>
        simp only [eval]
        refine Ok_bind _ _ _ (fun vs => zipTy P.adts vs (List.replicate es.length te) = true)
          (ihL _ _ _ _ hes henv) (fun vs hvs => ?_)
        simpa [ret, Ok, Good, valTy] using zipTy_replicate vs te _ hvs
      | .con _ i tag es ctors tys hA htag hes =>
        simp only [eval]
        refine Ok_bind _ _ _ (fun vs => zipTy P.adts vs tys = true) (ihL _ _ _ _ hes henv) (fun vs hvs => ?_)
        simp only [ret, Ok, Good, valTy, hA, htag]
        exact hvs
      | .call _ f es argtys _ hsig hes =>
        simp only [eval]
        refine Ok_bind _ _ t (fun vs => zipTy P.adts vs argtys = true) (ihL _ _ _ _ hes henv) (fun vs hvs => ?_)
        obtain ⟨xs, body, hf, hlen, hbody⟩ := hP f argtys t hsig
        obtain ⟨env', hbp, hok⟩ := bindParams_ok xs vs argtys hlen hvs
        simp only [hf, hbp]
        exact ihE _ _ _ _ hbody hok
      | .fail _ b _ => simp [eval, abortM, Ok, Good]
      | .expect _ p a b ta Γp _ ha hp hb =>
        simp only [eval]
        refine Ok_bind _ _ t (fun v => valTy P.adts v ta = true) (ihE _ _ _ _ ha henv) (fun v hv => ?_)
        cases hm : matchPat p v with
        | none => simp [abortM, Ok, Good]
        | some bs =>
          simp only []
          exact ihE _ _ _ _ hb (envOk_append _ _ _ _ (matchPat_ok p ta v Γp bs hp hv hm) henv)
      | .when _ s cs ts _ hs hpat hcl hex =>
        simp only [eval]
        refine Ok_bind _ _ t (fun v => valTy P.adts v ts = true) (ihE _ _ _ _ hs henv) (fun v hv => ?_)
        cases hfm : firstMatch v cs with
        | none => exact absurd hfm (hex v hv)
        | some r =>
          obtain ⟨bs, b⟩ := r
          obtain ⟨c, hc, hm, hb⟩ := firstMatch_mem v cs bs b hfm
          simp only []
          have hsome := hpat c hc
          cases hpc : patCtx P.adts c.1 ts with
          | none => simp [hpc] at hsome
          | some Γp =>
            subst hb
            exact ihE _ _ _ _ (hcl c hc Γp hpc) (envOk_append _ _ _ _ (matchPat_ok c.1 ts v Γp bs hpc hv hm) henv)
      | .trace _ l args b tl ts _ hl hargs hb =>
        simp only [eval]
        cases m with
        | silent => exact ihE _ _ _ _ hb henv
        | compact =>
          simp only []
          refine Ok_bind _ _ t (fun v => valTy P.adts v tl = true) (ihE _ _ _ _ hl henv) (fun lv _ => ?_)
          refine Ok_bind _ _ t (fun _ => True) (by simp [emit, Good]) (fun _ _ => ?_)
          exact ihE _ _ _ _ hb henv
        | verbose =>
          simp only []
          refine Ok_bind _ _ t (fun v => valTy P.adts v tl = true) (ihE _ _ _ _ hl henv) (fun lv _ => ?_)
          refine Ok_bind _ _ t (fun vs => zipTy P.adts vs ts = true) (ihL _ _ _ _ hargs henv) (fun avs _ => ?_)
          refine Ok_bind _ _ t (fun _ => True) (by simp [emit, Good]) (fun _ _ => ?_)
          exact ihE _ _ _ _ hb henv
      | .traceIfFalse _ a ha =>
        simp only [eval]
        refine Ok_bind _ _ _ (fun v => valTy P.adts v .bool = true) (ihE _ _ _ _ ha henv) (fun v hv => ?_)
        obtain ⟨bb, rfl⟩ := valTy_bool hv
        cases m <;> cases bb <;> exact hv
    · match h with
      | .nil _ => simp [evalList, ret, OkL, Good, zipTy]
      | .cons _ e es t ts he hes =>
        simp only [evalList]
        refine OkL_bind _ _ _ (fun v => valTy P.adts v t = true) (ihE _ _ _ _ he henv) (fun v hv => ?_)
        refine OkL_bind _ _ _ (fun vs => zipTy P.adts vs ts = true) (ihL _ _ _ _ hes henv) (fun vs hvs => ?_)
        simp [ret, OkL, Good, zipTy, hv, hvs]

end AikenVerif.Mini
