import AikenVerif.Lemmas.MatchCtors
/-!
Maranget's usefulness theorem for the impl model `isUseful` (C07), over pattern *vectors*:
`isUseful M v = false` iff every well-typed value vector matched by `v` is matched by a row of `M`.
-/
namespace AikenVerif.Match

theorem isUseful_nil_matrix (v : Row) : isUseful [] v = true := by
  unfold isUseful; simp

theorem isUseful_empty {M : Matrix} (h : M.isEmpty = true) (v : Row) : isUseful M v = true := by
  unfold isUseful; simp [h]

theorem isUseful_nil_row {M : Matrix} (h : ¬ M.isEmpty = true) : isUseful M [] = false := by
  unfold isUseful; simp [h]

theorem isUseful_ctor {M : Matrix} (h : ¬ M.isEmpty = true) (c : Nat) (alts : Alts) (args rest : List Pat) :
    isUseful M (.ctor c alts args :: rest) = isUseful (specCtor c args.length M) (args ++ rest) := by
  rw [isUseful]; simp [h]

theorem isUseful_lit {M : Matrix} (h : ¬ M.isEmpty = true) (l : Lit) (rest : List Pat) :
    isUseful M (.lit l :: rest) = isUseful (specLit l M) rest := by
  rw [isUseful]; simp [h]

theorem isUseful_wild_none {M : Matrix} (h : ¬ M.isEmpty = true) (rest : List Pat)
    (hc : isComplete M = none) :
    isUseful M (.wild :: rest) = isUseful (specWild M) rest := by
  rw [isUseful, if_neg h]
  split
  · rfl
  · rename_i alts h'; rw [hc] at h'; cases h'

theorem isUseful_wild_some {M : Matrix} (h : ¬ M.isEmpty = true) (rest : List Pat) {alts : Alts}
    (hc : isComplete M = some alts) :
    isUseful M (.wild :: rest) =
      alts.any (fun alt => isUseful (specCtor alt.1 alt.2 M) (wilds alt.2 ++ rest)) := by
  rw [isUseful, if_neg h]
  split
  · rename_i h'; rw [hc] at h'; cases h'
  · rename_i alts' h'; rw [hc] at h'; cases h'; rfl

/-- what `Complete::Yes(alts)` means on a typed matrix: the column is a data type and `alts`
is its constructor list -/
theorem isComplete_some_typed {sg : Sig} {M : Matrix} {t0 : Ty} {ts : List Ty} {alts : Alts}
    (hM : Matrix.hasTy sg M (t0 :: ts) = true) (hc : isComplete M = some alts) :
    ∃ t d, t0 = .data t ∧ sg[t]? = some d ∧ alts = declAlts d := by
  unfold isComplete at hc
  split at hc
  · cases hc
  · rename_i k a rest hcons
    split at hc
    · cases hc
      have hmem : (k, alts) ∈ collectCtors M := by rw [hcons]; simp
      obtain ⟨t, d, _, e1, hd, ha, _⟩ := collectCtors_typed hM hmem
      exact ⟨t, d, e1, hd, ha⟩
    · cases hc

theorem useful_sound_gen {sg : Sig} (M : Matrix) (v : Row) :
    ∀ ts, Matrix.hasTy sg M ts = true → Pat.hasTyL sg v ts = true → isUseful M v = false →
      ∀ vs, Val.hasTyL sg vs ts = true → pmatchL v vs = true → ∃ r ∈ M, pmatchL r vs = true := by
  induction M, v using isUseful.induct with
  | case1 M v hM =>
    intro ts _ _ hu
    rw [isUseful_empty hM] at hu; cases hu
  | case2 M hM =>
    intro ts hMt hvt _ vs _ hm
    cases ts with
    | cons t ts => simp [Pat.hasTyL] at hvt
    | nil =>
      cases vs with
      | cons w vs => simp [pmatchL] at hm
      | nil =>
        cases M with
        | nil => simp at hM
        | cons r M =>
          have hr := Matrix.hasTy_mem hMt (List.mem_cons_self (a := r) (l := M))
          cases r with
          | nil => exact ⟨[], List.mem_cons_self, by simp [pmatchL]⟩
          | cons p r => simp [Pat.hasTyL] at hr
  | case3 M hM c alts args rest ih =>
    intro ts hMt hvt hu vs hvs hm
    rw [isUseful_ctor hM] at hu
    cases ts with
    | nil => simp [Pat.hasTyL] at hvt
    | cons t0 ts =>
      simp only [Pat.hasTyL, Bool.and_eq_true] at hvt
      obtain ⟨t, d, tys, e1, hd, _, hl, hargs⟩ := Pat.hasTy_ctor hvt.1
      subst e1
      cases vs with
      | nil => simp [pmatchL] at hm
      | cons w vs =>
        simp only [pmatchL, Bool.and_eq_true] at hm
        simp only [Val.hasTyL, Bool.and_eq_true] at hvs
        cases w with
        | lit l => simp [pmatch] at hm
        | ctor c' ws =>
          simp only [pmatch, Bool.and_eq_true, decide_eq_true_eq] at hm
          obtain ⟨⟨ec, hmargs⟩, hmrest⟩ := hm
          subst ec
          obtain ⟨t', d', tys', e1, hd', hl', hws⟩ := Val.hasTy_ctor hvs.1
          cases e1
          rw [hd] at hd'; cases hd'
          rw [hl] at hl'; cases hl'
          have hlen : args.length = tys.length := Pat.hasTyL_length hargs
          have hlen2 : ws.length = tys.length := Val.hasTyL_length hws
          have hMt' := specCtor_hasTy hMt hd hl
          rw [← hlen] at hMt'
          have := ih (tys ++ ts) hMt'
            (by rw [Pat.hasTyL_append hlen]; simp [hargs, hvt.2]) hu (ws ++ vs)
            (by rw [Val.hasTyL_append hlen2]; simp [hws, hvs.2])
            (by rw [pmatchL_append (by omega)]; simp [hmargs, hmrest])
          have hlen3 : args.length = ws.length := by omega
          rw [hlen3] at this
          exact (specCtor_matches c ws vs M).mpr this
  | case4 M hM rest hc ih =>
    intro ts hMt hvt hu vs hvs hm
    rw [isUseful_wild_none hM rest hc] at hu
    cases ts with
    | nil => simp [Pat.hasTyL] at hvt
    | cons t0 ts =>
      simp only [Pat.hasTyL, Bool.and_eq_true] at hvt
      cases vs with
      | nil => simp [pmatchL] at hm
      | cons w vs =>
        simp only [pmatchL, Bool.and_eq_true] at hm
        simp only [Val.hasTyL, Bool.and_eq_true] at hvs
        exact specWild_matches_of w (ih ts (specWild_hasTy hMt) hvt.2 hu vs hvs.2 hm.2)
  | case5 M hM rest alts hc ih =>
    intro ts hMt hvt hu vs hvs hm
    rw [isUseful_wild_some hM rest hc] at hu
    cases ts with
    | nil => simp [Pat.hasTyL] at hvt
    | cons t0 ts =>
      simp only [Pat.hasTyL, Bool.and_eq_true] at hvt
      obtain ⟨t, d, e1, hd, ha⟩ := isComplete_some_typed hMt hc
      subst e1
      cases vs with
      | nil => simp [pmatchL] at hm
      | cons w vs =>
        simp only [pmatchL, Bool.and_eq_true] at hm
        simp only [Val.hasTyL, Bool.and_eq_true] at hvs
        obtain ⟨c, ws, d', tys, ew, hd', hl, hws⟩ := Val.hasTy_data hvs.1
        subst ew
        rw [hd] at hd'; cases hd'
        have hmem : (c, tys.length) ∈ alts := by rw [ha]; exact lookupCtor_mem_declAlts hl
        have hu' : isUseful (specCtor c tys.length M) (wilds tys.length ++ rest) = false := by
          have := List.any_eq_false.mp hu (c, tys.length) hmem
          simpa using this
        have hlen2 : ws.length = tys.length := Val.hasTyL_length hws
        have := ih (c, tys.length) (tys ++ ts) (specCtor_hasTy hMt hd hl)
          (by rw [Pat.hasTyL_append (by simp)]; simp [Pat.hasTyL_wilds, hvt.2]) hu' (ws ++ vs)
          (by rw [Val.hasTyL_append hlen2]; simp [hws, hvs.2])
          (by rw [pmatchL_append (by simp [hlen2])]; simp [pmatchL_wilds hlen2, hm.2])
        simp only at this
        rw [← hlen2] at this
        exact (specCtor_matches c ws vs M).mpr this
  | case6 M hM l rest ih =>
    intro ts hMt hvt hu vs hvs hm
    rw [isUseful_lit hM] at hu
    cases ts with
    | nil => simp [Pat.hasTyL] at hvt
    | cons t0 ts =>
      simp only [Pat.hasTyL, Bool.and_eq_true] at hvt
      cases vs with
      | nil => simp [pmatchL] at hm
      | cons w vs =>
        simp only [pmatchL, Bool.and_eq_true] at hm
        simp only [Val.hasTyL, Bool.and_eq_true] at hvs
        cases w with
        | ctor c ws => simp [pmatch] at hm
        | lit l' =>
          simp only [pmatch, decide_eq_true_eq] at hm
          obtain ⟨el, hmrest⟩ := hm
          subst el
          exact (specLit_matches l vs M).mpr (ih ts (specLit_hasTy l hMt) hvt.2 hu vs hvs.2 hmrest)

/-- a well-typed instance of a well-typed pattern (every type inhabited) -/
theorem exists_instance {sg : Sig} {inh : List Val} (hs : Sig.ok sg = true) (hi : inhOk sg inh = true) :
    ∀ (n : Nat) (p : Pat) (t : Ty), Pat.nodes p ≤ n → Ty.ok sg t = true → Pat.hasTy sg p t = true →
      ∃ v, Val.hasTy sg v t = true ∧ pmatch p v = true := by
  intro n
  induction n using Nat.strongRecOn with
  | _ n ihn =>
    -- instances of a typed vector whose patterns are all smaller than `n`
    have hvec : ∀ (ps : List Pat) (tys : List Ty), Pat.nodesL ps < n →
        (∀ ty ∈ tys, Ty.ok sg ty = true) → Pat.hasTyL sg ps tys = true →
        ∃ vs, Val.hasTyL sg vs tys = true ∧ pmatchL ps vs = true := by
      intro ps
      induction ps with
      | nil =>
        intro tys _ _ ht
        cases tys with
        | nil => exact ⟨[], by simp [Val.hasTyL], by simp [pmatchL]⟩
        | cons t tys => simp [Pat.hasTyL] at ht
      | cons p ps ihps =>
        intro tys hn hok ht
        cases tys with
        | nil => simp [Pat.hasTyL] at ht
        | cons t tys =>
          simp only [Pat.hasTyL, Bool.and_eq_true] at ht
          simp only [Pat.nodesL] at hn
          obtain ⟨v, hv1, hv2⟩ := ihn (Pat.nodes p) (by omega) p t (Nat.le_refl _)
            (hok t List.mem_cons_self) ht.1
          obtain ⟨vs, hvs1, hvs2⟩ := ihps tys (by omega)
            (fun ty h => hok ty (List.mem_cons_of_mem _ h)) ht.2
          exact ⟨v :: vs, by simp [Val.hasTyL, hv1, hvs1], by simp [pmatchL, hv2, hvs2]⟩
    intro p t hn hok ht
    cases p with
    | wild => exact ⟨witness inh t, witness_hasTy hi hok, by simp [pmatch]⟩
    | lit l =>
      refine ⟨.lit l, ?_, by simp [pmatch]⟩
      cases l <;> cases t <;> simp_all [Pat.hasTy, Val.hasTy]
    | ctor c alts args =>
      obtain ⟨t', d, tys, e1, hd, _, hl, hargs⟩ := Pat.hasTy_ctor ht
      subst e1
      simp only [Pat.nodes] at hn
      obtain ⟨vs, h1, h2⟩ := hvec args tys (by omega) ((Sig.ok_get hs hd).2 c tys hl) hargs
      exact ⟨.ctor c vs, Val.hasTy_ctor_intro hd hl h1, by simp [pmatch, h2]⟩

theorem exists_instanceL {sg : Sig} {inh : List Val} (hs : Sig.ok sg = true) (hi : inhOk sg inh = true) :
    ∀ (ps : List Pat) (ts : List Ty), (∀ t ∈ ts, Ty.ok sg t = true) → Pat.hasTyL sg ps ts = true →
      ∃ vs, Val.hasTyL sg vs ts = true ∧ pmatchL ps vs = true := by
  intro ps
  induction ps with
  | nil =>
    intro ts _ ht
    cases ts with
    | nil => exact ⟨[], by simp [Val.hasTyL], by simp [pmatchL]⟩
    | cons t ts => simp [Pat.hasTyL] at ht
  | cons p ps ih =>
    intro ts hok ht
    cases ts with
    | nil => simp [Pat.hasTyL] at ht
    | cons t ts =>
      simp only [Pat.hasTyL, Bool.and_eq_true] at ht
      obtain ⟨v, hv1, hv2⟩ := exists_instance hs hi (Pat.nodes p) p t (Nat.le_refl _)
        (hok t List.mem_cons_self) ht.1
      obtain ⟨vs, hvs1, hvs2⟩ := ih ts (fun ty h => hok ty (List.mem_cons_of_mem _ h)) ht.2
      exact ⟨v :: vs, by simp [Val.hasTyL, hv1, hvs1], by simp [pmatchL, hv2, hvs2]⟩

theorem useful_complete_gen {sg : Sig} {inh : List Val} (hs : Sig.ok sg = true) (hi : inhOk sg inh = true)
    (M : Matrix) (v : Row) :
    ∀ ts, (∀ t ∈ ts, Ty.ok sg t = true) → Matrix.hasTy sg M ts = true → Pat.hasTyL sg v ts = true →
      isUseful M v = true →
      ∃ vs, Val.hasTyL sg vs ts = true ∧ pmatchL v vs = true ∧ ∀ r ∈ M, pmatchL r vs = false := by
  induction M, v using isUseful.induct with
  | case1 M v hM =>
    intro ts hok _ hvt _
    obtain ⟨vs, h1, h2⟩ := exists_instanceL hs hi v ts hok hvt
    refine ⟨vs, h1, h2, ?_⟩
    intro r hr
    cases M with
    | nil => cases hr
    | cons r' M' => simp at hM
  | case2 M hM =>
    intro ts _ _ _ hu
    rw [isUseful_nil_row hM] at hu; cases hu
  | case3 M hM c alts args rest ih =>
    intro ts hok hMt hvt hu
    rw [isUseful_ctor hM] at hu
    cases ts with
    | nil => simp [Pat.hasTyL] at hvt
    | cons t0 ts =>
      simp only [Pat.hasTyL, Bool.and_eq_true] at hvt
      obtain ⟨t, d, tys, e1, hd, _, hl, hargs⟩ := Pat.hasTy_ctor hvt.1
      subst e1
      have hlen : args.length = tys.length := Pat.hasTyL_length hargs
      have hMt' := specCtor_hasTy hMt hd hl
      rw [← hlen] at hMt'
      have hok' : ∀ ty ∈ tys ++ ts, Ty.ok sg ty = true := by
        intro ty hty
        rcases List.mem_append.mp hty with h | h
        · exact (Sig.ok_get hs hd).2 c tys hl ty h
        · exact hok ty (List.mem_cons_of_mem _ h)
      obtain ⟨vs', h1, h2, h3⟩ := ih (tys ++ ts) hok' hMt'
        (by rw [Pat.hasTyL_append hlen]; simp [hargs, hvt.2]) hu
      obtain ⟨ws, vs, e, hws, hvs⟩ := Val.hasTyL_split h1
      subst e
      have hlen2 : ws.length = tys.length := Val.hasTyL_length hws
      rw [pmatchL_append (by omega)] at h2
      simp only [Bool.and_eq_true] at h2
      refine ⟨.ctor c ws :: vs, by simp [Val.hasTyL, Val.hasTy_ctor_intro hd hl hws, hvs],
        by simp [pmatchL, pmatch, h2.1, h2.2], ?_⟩
      intro r hr
      cases hrm : pmatchL r (.ctor c ws :: vs) with
      | false => rfl
      | true =>
        obtain ⟨r', hr', hm'⟩ := (specCtor_matches c ws vs M).mp ⟨r, hr, hrm⟩
        have hlen3 : ws.length = args.length := by omega
        rw [hlen3] at hr'
        rw [h3 r' hr'] at hm'; cases hm'
  | case4 M hM rest hc ih =>
    intro ts hok hMt hvt hu
    rw [isUseful_wild_none hM rest hc] at hu
    cases ts with
    | nil => simp [Pat.hasTyL] at hvt
    | cons t0 ts =>
      simp only [Pat.hasTyL, Bool.and_eq_true] at hvt
      obtain ⟨vs, h1, h2, h3⟩ := ih ts (fun ty h => hok ty (List.mem_cons_of_mem _ h))
        (specWild_hasTy hMt) hvt.2 hu
      obtain ⟨w, hw, hfresh⟩ := fresh_head hs hi (hok t0 List.mem_cons_self) hMt hc
      refine ⟨w :: vs, by simp [Val.hasTyL, hw, h1], by simp [pmatchL, pmatch, h2], ?_⟩
      intro r hr
      cases hrm : pmatchL r (w :: vs) with
      | false => rfl
      | true =>
        rcases matches_cons_cases hr hrm with ⟨r', hr', hm'⟩ | ⟨p, rest', e, hp, hpm⟩
        · rw [h3 r' hr'] at hm'; cases hm'
        · rw [hfresh r hr p rest' e hp] at hpm; cases hpm
  | case5 M hM rest alts hc ih =>
    intro ts hok hMt hvt hu
    rw [isUseful_wild_some hM rest hc] at hu
    cases ts with
    | nil => simp [Pat.hasTyL] at hvt
    | cons t0 ts =>
      simp only [Pat.hasTyL, Bool.and_eq_true] at hvt
      obtain ⟨t, d, e1, hd, ha⟩ := isComplete_some_typed hMt hc
      subst e1
      obtain ⟨alt, halt, hu'⟩ := List.any_eq_true.mp hu
      rw [ha] at halt
      obtain ⟨tys, hl, hlen⟩ := declAlts_mem_lookup (Sig.ok_get hs hd).1 halt
      obtain ⟨c, a⟩ := alt
      simp only at hl hlen hu'
      subst hlen
      have hok' : ∀ ty ∈ tys ++ ts, Ty.ok sg ty = true := by
        intro ty hty
        rcases List.mem_append.mp hty with h | h
        · exact (Sig.ok_get hs hd).2 c tys hl ty h
        · exact hok ty (List.mem_cons_of_mem _ h)
      obtain ⟨vs', h1, h2, h3⟩ := ih (c, tys.length) (tys ++ ts) hok' (specCtor_hasTy hMt hd hl)
        (by rw [Pat.hasTyL_append (by simp)]; simp [Pat.hasTyL_wilds, hvt.2]) hu'
      obtain ⟨ws, vs, e, hws, hvs⟩ := Val.hasTyL_split h1
      subst e
      have hlen2 : ws.length = tys.length := Val.hasTyL_length hws
      simp only at h2 h3
      rw [pmatchL_append (by simp [hlen2])] at h2
      simp only [Bool.and_eq_true] at h2
      refine ⟨.ctor c ws :: vs, by simp [Val.hasTyL, Val.hasTy_ctor_intro hd hl hws, hvs],
        by simp [pmatchL, pmatch, h2.2], ?_⟩
      intro r hr
      cases hrm : pmatchL r (.ctor c ws :: vs) with
      | false => rfl
      | true =>
        obtain ⟨r', hr', hm'⟩ := (specCtor_matches c ws vs M).mp ⟨r, hr, hrm⟩
        rw [hlen2] at hr'
        rw [h3 r' hr'] at hm'; cases hm'
  | case6 M hM l rest ih =>
    intro ts hok hMt hvt hu
    rw [isUseful_lit hM] at hu
    cases ts with
    | nil => simp [Pat.hasTyL] at hvt
    | cons t0 ts =>
      simp only [Pat.hasTyL, Bool.and_eq_true] at hvt
      obtain ⟨vs, h1, h2, h3⟩ := ih ts (fun ty h => hok ty (List.mem_cons_of_mem _ h))
        (specLit_hasTy l hMt) hvt.2 hu
      have hlt : Val.hasTy sg (.lit l) t0 = true := by
        have := hvt.1
        cases l <;> cases t0 <;> simp_all [Pat.hasTy, Val.hasTy]
      refine ⟨.lit l :: vs, by simp [Val.hasTyL, hlt, h1], by simp [pmatchL, pmatch, h2], ?_⟩
      intro r hr
      cases hrm : pmatchL r (.lit l :: vs) with
      | false => rfl
      | true =>
        obtain ⟨r', hr', hm'⟩ := (specLit_matches l vs M).mp ⟨r, hr, hrm⟩
        rw [h3 r' hr'] at hm'; cases hm'

end AikenVerif.Match
