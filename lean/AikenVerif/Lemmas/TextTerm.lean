import AikenVerif.Lemmas.TextConst
/-! Helper lemmas for C15: terms and programs (token level); names. -/
namespace AikenVerif.Text
open AikenVerif.Gen (Builtin)
open AikenVerif.Gen.TextTables

-- ------------------------------------------------------------------ keyword tables
theorem kwTerm_eq : ∀ k : TermKind, kwTerm k = kwTermP k := by
  intro k; cases k <;> decide

theorem kwTermP_ne : ∀ a b : TermKind, a ≠ b → kwTermP a ≠ kwTermP b := by
  intro a b h
  cases a <;> cases b <;> first | exact absurd rfl h | decide

theorem program_kw : chars programDisplay = chars programParse := by decide

theorem afterKeyword_hit (kw : List Char) (r : List Token) :
    afterKeyword kw (.lpar :: .word kw :: r) = some r := by
  simp [afterKeyword]

theorem afterKeyword_miss (kw w : List Char) (r : List Token) (h : w ≠ kw) :
    afterKeyword kw (.lpar :: .word w :: r) = none := by
  simp [afterKeyword, h]

@[simp] theorem afterKeyword_word (kw w : List Char) (r : List Token) : afterKeyword kw (.word w :: r) = none := rfl
@[simp] theorem afterKeyword_lbrack (kw : List Char) (r : List Token) : afterKeyword kw (.lbrack :: r) = none := rfl
@[simp] theorem afterKeyword_rbrack (kw : List Char) (r : List Token) : afterKeyword kw (.rbrack :: r) = none := rfl
@[simp] theorem afterKeyword_rpar (kw : List Char) (r : List Token) : afterKeyword kw (.rpar :: r) = none := rfl

/-- no term starts with `)` or `]` -/
theorem parseTerm_rpar (f : Nat) (st : Interner) (r : List Token) : parseTerm f st (.rpar :: r) = none := by
  cases f <;> simp [parseTerm, orElse, altConst, altBuiltin, altVar, altLam, altApply, altUnary, altError, altConstr, altCase]

theorem parseTerm_rbrack (f : Nat) (st : Interner) (r : List Token) : parseTerm f st (.rbrack :: r) = none := by
  cases f <;> simp [parseTerm, orElse, altConst, altBuiltin, altVar, altLam, altApply, altUnary, altError, altConstr, altCase]

/-- `builtin_names_roundtrip` as used by the parser model -/
theorem builtinOfWord_display : ∀ b : Builtin, builtinOfWord (chars b.display) = some b := by
  intro b; cases b <;> decide

theorem isIdent_display : ∀ b : Builtin, isIdent (chars b.display) = true := by
  intro b; cases b <;> decide

-- ------------------------------------------------------------------ printed terms
section
variable (t : Term Name)

theorem printTerm_noLeadWs : NoLeadWs (printTerm t) := by
  cases t <;> (simp only [printTerm, List.cons_append, List.nil_append]; exact ⟨_, _, rfl, by simp⟩)

theorem printTerm_length : 1 ≤ (printTerm t).length := by
  obtain ⟨tk, r, e, -⟩ := printTerm_noLeadWs t
  rw [e]; simp
end

theorem mkName_nameChars (n : Name) (u : Nat) : (mkName (nameChars n) u).text = n.text := by
  simp [mkName, nameChars]

@[simp] theorem orElse_none_left {α} (b : Option α) : orElse none b = b := rfl
@[simp] theorem orElse_none_right {α} (a : Option α) : orElse a none = a := by cases a <;> rfl
@[simp] theorem orElse_some {α} (x : α) (b : Option α) : orElse (some x) b = some x := rfl

section miss
variable (f : Nat) (st : Interner) (w : List Char) (r : List Token)
variable (rec : Interner → List Token → TermRes) (recs : Interner → List Token → TermsRes)

theorem altConst_miss (h : w ≠ kwTermP .con) : altConst f st (.lpar :: .word w :: r) = none := by
  simp [altConst, afterKeyword_miss _ _ _ h]
theorem altBuiltin_miss (h : w ≠ kwTermP .builtin) : altBuiltin st (.lpar :: .word w :: r) = none := by
  simp [altBuiltin, afterKeyword_miss _ _ _ h]
theorem altLam_miss (h : w ≠ kwTermP .lam) : altLam rec st (.lpar :: .word w :: r) = none := by
  simp [altLam, afterKeyword_miss _ _ _ h]
theorem altUnary_miss (k : TermKind) (mk : Term Name → Term Name) (h : w ≠ kwTermP k) :
    altUnary k mk rec st (.lpar :: .word w :: r) = none := by
  simp [altUnary, afterKeyword_miss _ _ _ h]
theorem altError_miss (h : w ≠ kwTermP .error) : altError st (.lpar :: .word w :: r) = none := by
  simp [altError, afterKeyword_miss _ _ _ h]
theorem altConstr_miss (h : w ≠ kwTermP .constr) : altConstr recs st (.lpar :: .word w :: r) = none := by
  simp [altConstr, afterKeyword_miss _ _ _ h]
theorem altCase_miss (h : w ≠ kwTermP .case) : altCase rec recs st (.lpar :: .word w :: r) = none := by
  simp [altCase, afterKeyword_miss _ _ _ h]
@[simp] theorem altVar_lpar : altVar st (.lpar :: r) = none := rfl
@[simp] theorem altApply_lpar : altApply rec recs st (.lpar :: r) = none := rfl
end miss

/-- the printed keyword of kind `a` misses the parser's keyword of any other kind `b` -/
theorem kw_miss (a b : TermKind) (h : a ≠ b) : kwTerm a ≠ kwTermP b := by
  rw [kwTerm_eq]; exact kwTermP_ne a b h

section dispatch
variable (f : Nat) (st : Interner) (r : List Token)

theorem parseTerm_con : parseTerm (f + 1) st (.lpar :: .word (kwTerm .con) :: r) =
    altConst f st (.lpar :: .word (kwTerm .con) :: r) := by
  simp [parseTerm, altBuiltin_miss _ _ _ (kw_miss .con .builtin (by decide)),
    altLam_miss _ _ _ _ (kw_miss .con .lam (by decide)), altUnary_miss _ _ _ _ _ _ (kw_miss .con .delay (by decide)),
    altUnary_miss _ _ _ _ _ _ (kw_miss .con .force (by decide)), altError_miss _ _ _ (kw_miss .con .error (by decide)),
    altConstr_miss _ _ _ _ (kw_miss .con .constr (by decide)), altCase_miss _ _ _ _ _ (kw_miss .con .case (by decide))]

theorem parseTerm_builtin : parseTerm (f + 1) st (.lpar :: .word (kwTerm .builtin) :: r) =
    altBuiltin st (.lpar :: .word (kwTerm .builtin) :: r) := by
  simp [parseTerm, altConst_miss _ _ _ _ (kw_miss .builtin .con (by decide)),
    altLam_miss _ _ _ _ (kw_miss .builtin .lam (by decide)), altUnary_miss _ _ _ _ _ _ (kw_miss .builtin .delay (by decide)),
    altUnary_miss _ _ _ _ _ _ (kw_miss .builtin .force (by decide)), altError_miss _ _ _ (kw_miss .builtin .error (by decide)),
    altConstr_miss _ _ _ _ (kw_miss .builtin .constr (by decide)), altCase_miss _ _ _ _ _ (kw_miss .builtin .case (by decide))]

theorem parseTerm_lam : parseTerm (f + 1) st (.lpar :: .word (kwTerm .lam) :: r) =
    altLam (parseTerm f) st (.lpar :: .word (kwTerm .lam) :: r) := by
  simp [parseTerm, altConst_miss _ _ _ _ (kw_miss .lam .con (by decide)),
    altBuiltin_miss _ _ _ (kw_miss .lam .builtin (by decide)), altUnary_miss _ _ _ _ _ _ (kw_miss .lam .delay (by decide)),
    altUnary_miss _ _ _ _ _ _ (kw_miss .lam .force (by decide)), altError_miss _ _ _ (kw_miss .lam .error (by decide)),
    altConstr_miss _ _ _ _ (kw_miss .lam .constr (by decide)), altCase_miss _ _ _ _ _ (kw_miss .lam .case (by decide))]

theorem parseTerm_delay : parseTerm (f + 1) st (.lpar :: .word (kwTerm .delay) :: r) =
    altUnary .delay .delay (parseTerm f) st (.lpar :: .word (kwTerm .delay) :: r) := by
  simp [parseTerm, altConst_miss _ _ _ _ (kw_miss .delay .con (by decide)),
    altBuiltin_miss _ _ _ (kw_miss .delay .builtin (by decide)), altLam_miss _ _ _ _ (kw_miss .delay .lam (by decide)),
    altUnary_miss _ _ _ _ _ _ (kw_miss .delay .force (by decide)), altError_miss _ _ _ (kw_miss .delay .error (by decide)),
    altConstr_miss _ _ _ _ (kw_miss .delay .constr (by decide)), altCase_miss _ _ _ _ _ (kw_miss .delay .case (by decide))]

theorem parseTerm_force : parseTerm (f + 1) st (.lpar :: .word (kwTerm .force) :: r) =
    altUnary .force .force (parseTerm f) st (.lpar :: .word (kwTerm .force) :: r) := by
  simp [parseTerm, altConst_miss _ _ _ _ (kw_miss .force .con (by decide)),
    altBuiltin_miss _ _ _ (kw_miss .force .builtin (by decide)), altLam_miss _ _ _ _ (kw_miss .force .lam (by decide)),
    altUnary_miss _ _ _ _ _ _ (kw_miss .force .delay (by decide)), altError_miss _ _ _ (kw_miss .force .error (by decide)),
    altConstr_miss _ _ _ _ (kw_miss .force .constr (by decide)), altCase_miss _ _ _ _ _ (kw_miss .force .case (by decide))]

theorem parseTerm_error : parseTerm (f + 1) st (.lpar :: .word (kwTerm .error) :: r) =
    altError st (.lpar :: .word (kwTerm .error) :: r) := by
  simp [parseTerm, altConst_miss _ _ _ _ (kw_miss .error .con (by decide)),
    altBuiltin_miss _ _ _ (kw_miss .error .builtin (by decide)), altLam_miss _ _ _ _ (kw_miss .error .lam (by decide)),
    altUnary_miss _ _ _ _ _ _ (kw_miss .error .delay (by decide)), altUnary_miss _ _ _ _ _ _ (kw_miss .error .force (by decide)),
    altConstr_miss _ _ _ _ (kw_miss .error .constr (by decide)), altCase_miss _ _ _ _ _ (kw_miss .error .case (by decide))]

theorem parseTerm_constr : parseTerm (f + 1) st (.lpar :: .word (kwTerm .constr) :: r) =
    altConstr (parseTerms f) st (.lpar :: .word (kwTerm .constr) :: r) := by
  simp [parseTerm, altConst_miss _ _ _ _ (kw_miss .constr .con (by decide)),
    altBuiltin_miss _ _ _ (kw_miss .constr .builtin (by decide)), altLam_miss _ _ _ _ (kw_miss .constr .lam (by decide)),
    altUnary_miss _ _ _ _ _ _ (kw_miss .constr .delay (by decide)), altUnary_miss _ _ _ _ _ _ (kw_miss .constr .force (by decide)),
    altError_miss _ _ _ (kw_miss .constr .error (by decide)), altCase_miss _ _ _ _ _ (kw_miss .constr .case (by decide))]

theorem parseTerm_case : parseTerm (f + 1) st (.lpar :: .word (kwTerm .case) :: r) =
    altCase (parseTerm f) (parseTerms f) st (.lpar :: .word (kwTerm .case) :: r) := by
  simp [parseTerm, altConst_miss _ _ _ _ (kw_miss .case .con (by decide)),
    altBuiltin_miss _ _ _ (kw_miss .case .builtin (by decide)), altLam_miss _ _ _ _ (kw_miss .case .lam (by decide)),
    altUnary_miss _ _ _ _ _ _ (kw_miss .case .delay (by decide)), altUnary_miss _ _ _ _ _ _ (kw_miss .case .force (by decide)),
    altError_miss _ _ _ (kw_miss .case .error (by decide)), altConstr_miss _ _ _ _ (kw_miss .case .constr (by decide))]

theorem parseTerm_word (w : List Char) : parseTerm (f + 1) st (.word w :: r) = altVar st (.word w :: r) := by
  simp [parseTerm, altConst, altBuiltin, altLam, altApply, altUnary, altError, altConstr, altCase]

theorem parseTerm_lbrack : parseTerm (f + 1) st (.lbrack :: r) =
    altApply (parseTerm f) (parseTerms f) st (.lbrack :: r) := by
  simp [parseTerm, altConst, altBuiltin, altVar, altLam, altUnary, altError, altConstr, altCase]
end dispatch

theorem parseTerms_close (f : Nat) (st : Interner) (close : Token) (rest : List Token)
    (hc : close = .rpar ∨ close = .rbrack) :
    parseTerms (f + 1) st (close :: rest) = some ([], st, close :: rest) := by
  rcases hc with rfl | rfl
  · simp [parseTerms, parseTerm_rpar]
  · simp [parseTerms, parseTerm_rbrack]

theorem parseTerms_cons_of {f : Nat} {st st1 st2 : Interner} {toks r r1 : List Token} {t : Term Name}
    {ts : List (Term Name)} (h1 : parseTerm f st toks = some (t, st1, r))
    (h2 : parseTerms f st1 (skipWs r) = some (ts, st2, r1)) :
    parseTerms (f + 1) st toks = some (t :: ts, st2, r1) := by
  simp [parseTerms, h1, h2]

theorem skipWs_close (close : Token) (rest : List Token) (hc : close = .rpar ∨ close = .rbrack) :
    skipWs (close :: rest) = close :: rest := by
  rcases hc with rfl | rfl <;> rfl

mutual
  /-- parsing a printed term gives the term with its names re-interned (`Interner::term`) -/
  theorem parseTerm_print : (t : Term Name) → ∀ (f : Nat) (st : Interner) (rest : List Token),
      termOk t = true → (printTerm t).length ≤ f →
      parseTerm f st (printTerm t ++ rest) = some ((relabel st t).1, (relabel st t).2, rest)
    | .var n => by
      intro f st rest hok hf
      simp [termOk, validName] at hok
      simp [printTerm] at hf
      obtain ⟨g, rfl⟩ : ∃ g, f = g + 1 := ⟨f - 1, by omega⟩
      simp [printTerm, BinderText.text, parseTerm_word, altVar, hok.1, relabel, nameChars]
    | .lam n b => by
      intro f st rest hok hf
      simp [termOk, validName] at hok
      replace hok := And.intro hok.1.1 hok.2
      simp [printTerm] at hf
      obtain ⟨g, rfl⟩ : ∃ g, f = g + 1 := ⟨f - 1, by omega⟩
      have h1 := skipWs_of_noLeadWs (printTerm_noLeadWs b) (.rpar :: rest)
      have h2 := parseTerm_print b g (intern (nameChars n) st).2 (.rpar :: rest) hok.2 (by omega)
      simp only [printTerm, List.cons_append, List.nil_append, List.append_assoc]
      rw [parseTerm_lam]
      simp [altLam, kwTerm_eq, afterKeyword_hit, BinderText.text, hok.1, h1]
      simp [nameChars] at h2
      simp [h2, relabel, nameChars]
    | .app a b => by
      intro f st rest hok hf
      simp [termOk] at hok
      simp [printTerm] at hf
      obtain ⟨g, rfl⟩ : ∃ g, f = g + 1 := ⟨f - 1, by omega⟩
      obtain ⟨g', rfl⟩ : ∃ g', g = g' + 1 := ⟨g - 1, by omega⟩
      have h1 := skipWs_of_noLeadWs (printTerm_noLeadWs a) (.ws :: (printTerm b ++ .ws :: .rbrack :: rest))
      have h2 := parseTerm_print a (g' + 1) st (.ws :: (printTerm b ++ .ws :: .rbrack :: rest)) hok.1 (by omega)
      have h3 := skipWs_of_noLeadWs (printTerm_noLeadWs b) (.ws :: .rbrack :: rest)
      have h4 := parseTerm_print b g' (relabel st a).2 (.ws :: .rbrack :: rest) hok.2 (by omega)
      obtain ⟨g'', rfl⟩ : ∃ g'', g' = g'' + 1 := ⟨g' - 1, by have := printTerm_length b; omega⟩
      have h5 := parseTerms_close g'' (relabel (relabel st a).2 b).2 .rbrack rest (Or.inr rfl)
      have h6 := parseTerms_cons_of h4 (by simpa using h5)
      simp only [printTerm, List.cons_append, List.nil_append, List.append_assoc]
      rw [parseTerm_lbrack]
      simp [altApply, h1, h2, h3, h6, applyAll, relabel]
    | .delay t => by
      intro f st rest hok hf
      simp [termOk] at hok
      simp [printTerm] at hf
      obtain ⟨g, rfl⟩ : ∃ g, f = g + 1 := ⟨f - 1, by omega⟩
      have h1 := skipWs_of_noLeadWs (printTerm_noLeadWs t) (.rpar :: rest)
      have h2 := parseTerm_print t g st (.rpar :: rest) hok (by omega)
      simp only [printTerm, List.cons_append, List.nil_append, List.append_assoc]
      rw [parseTerm_delay]
      simp [altUnary, kwTerm_eq, afterKeyword_hit, h1, h2, relabel]
    | .force t => by
      intro f st rest hok hf
      simp [termOk] at hok
      simp [printTerm] at hf
      obtain ⟨g, rfl⟩ : ∃ g, f = g + 1 := ⟨f - 1, by omega⟩
      have h1 := skipWs_of_noLeadWs (printTerm_noLeadWs t) (.rpar :: rest)
      have h2 := parseTerm_print t g st (.rpar :: rest) hok (by omega)
      simp only [printTerm, List.cons_append, List.nil_append, List.append_assoc]
      rw [parseTerm_force]
      simp [altUnary, kwTerm_eq, afterKeyword_hit, h1, h2, relabel]
    | .error => by
      intro f st rest _ hf
      simp [printTerm] at hf
      obtain ⟨g, rfl⟩ : ∃ g, f = g + 1 := ⟨f - 1, by omega⟩
      simp only [printTerm, List.cons_append, List.nil_append]
      rw [parseTerm_error]
      simp [altError, kwTerm_eq, afterKeyword_hit, relabel]
    | .builtin b => by
      intro f st rest _ hf
      simp [printTerm] at hf
      obtain ⟨g, rfl⟩ : ∃ g, f = g + 1 := ⟨f - 1, by omega⟩
      simp only [printTerm, List.cons_append, List.nil_append]
      rw [parseTerm_builtin]
      simp [altBuiltin, kwTerm_eq, afterKeyword_hit, isIdent_display, builtinOfWord_display, relabel]
    | .const c => by
      intro f st rest hok hf
      simp [termOk] at hok
      simp [printTerm] at hf
      obtain ⟨g, rfl⟩ : ∃ g, f = g + 1 := ⟨f - 1, by omega⟩
      have h1 := skipWs_of_noLeadWs (printConst_noLeadWs c hok) (.rpar :: rest)
      have h2 := parseConst_print c g (.rpar :: rest) hok (by omega)
      simp only [printTerm, List.cons_append, List.nil_append, List.append_assoc]
      rw [parseTerm_con]
      simp [altConst, kwTerm_eq, afterKeyword_hit, h1, h2, relabel]
    | .constr tag fs => by
      intro f st rest hok hf
      simp [termOk] at hok
      simp [printTerm] at hf
      obtain ⟨g, rfl⟩ : ∃ g, f = g + 1 := ⟨f - 1, by omega⟩
      have h1 := parseTerms_print fs g st .rpar rest (Or.inl rfl) hok.2 (by omega)
      simp only [printTerm, List.cons_append, List.nil_append, List.append_assoc]
      rw [parseTerm_constr]
      have e1 : (natChars tag).takeWhile isDigit = natChars tag :=
        takeWhile_all _ _ (natChars_all_digit tag)
      have e2 : (natChars tag).dropWhile isDigit = [] :=
        dropWhile_all _ _ (natChars_all_digit tag)
      simp [altConstr, kwTerm_eq, afterKeyword_hit, e1, e2, parseDecimal_natChars tag hok.1, h1, relabel]
    | .case s bs => by
      intro f st rest hok hf
      simp [termOk] at hok
      simp [printTerm] at hf
      obtain ⟨g, rfl⟩ : ∃ g, f = g + 1 := ⟨f - 1, by omega⟩
      have h0 := skipWs_of_noLeadWs (printTerm_noLeadWs s) (printTerms bs ++ .rpar :: rest)
      have h1 := parseTerm_print s g st (printTerms bs ++ .rpar :: rest) hok.1 (by omega)
      have h2 := parseTerms_print bs g (relabel st s).2 .rpar rest (Or.inl rfl) hok.2 (by omega)
      simp only [printTerm, List.cons_append, List.nil_append, List.append_assoc]
      rw [parseTerm_case]
      simp [altCase, kwTerm_eq, afterKeyword_hit, h0, h1, h2, relabel]
  theorem parseTerms_print : (ts : List (Term Name)) → ∀ (f : Nat) (st : Interner) (close : Token) (rest : List Token),
      (close = .rpar ∨ close = .rbrack) → termsOk ts = true → (printTerms ts).length + 1 ≤ f →
      parseTerms f st (skipWs (printTerms ts ++ close :: rest)) =
        some ((relabelList st ts).1, (relabelList st ts).2, close :: rest)
    | [] => by
      intro f st close rest hc _ hf
      obtain ⟨g, rfl⟩ : ∃ g, f = g + 1 := ⟨f - 1, by omega⟩
      simp [printTerms, skipWs_close close rest hc, parseTerms_close g st close rest hc, relabelList]
    | t :: ts => by
      intro f st close rest hc hok hf
      simp [termsOk] at hok
      simp [printTerms] at hf
      obtain ⟨g, rfl⟩ : ∃ g, f = g + 1 := ⟨f - 1, by omega⟩
      have h1 := skipWs_of_noLeadWs (printTerm_noLeadWs t) (printTerms ts ++ close :: rest)
      have h2 := parseTerm_print t g st (printTerms ts ++ close :: rest) hok.1 (by omega)
      have h3 := parseTerms_print ts g (relabel st t).2 close rest hc hok.2 (by omega)
      simp only [printTerms, List.cons_append, List.append_assoc, skipWs_ws]
      simp [parseTerms, h1, h2, h3, relabelList]
end

-- ------------------------------------------------------------------ programs
/-- parsing the printed program gives the program with its names re-interned from an empty interner -/
theorem parseProgram_print (p : Program Name) (hok : programOk p = true) :
    parseProgram (printProgramTokens p) = some ⟨p.version, (relabel [] p.term).1⟩ := by
  simp [programOk] at hok
  obtain ⟨⟨⟨h1, h2⟩, h3⟩, h4⟩ := hok
  have hv := parseVersion_versionChars p.version h1 h2 h3
  have hs := skipWs_of_noLeadWs (printTerm_noLeadWs p.term) [.rpar]
  have ht := parseTerm_print p.term ((printProgramTokens p).length + 1) [] [.rpar] h4
    (by simp [printProgramTokens]; omega)
  simp only [printProgramTokens, List.cons_append, List.nil_append] at ht ⊢
  simp [parseProgram, parseProgramFuel, afterKeyword, program_kw, hv, hs]
  simp at ht
  simp [ht]

-- ------------------------------------------------------------------ interner facts
section idx
variable {α : Type} [DecidableEq α]

theorem idxOf_append_some (x : α) (l e : List α) (i : Nat) (h : idxOf x l = some i) :
    idxOf x (l ++ e) = some i := by
  induction l generalizing i with
  | nil => simp [idxOf] at h
  | cons b bs ih =>
    simp only [List.cons_append, idxOf] at h ⊢
    split
    · simp_all
    · rename_i hne
      simp [hne] at h
      obtain ⟨j, hj, rfl⟩ := h
      simp [ih j hj]

theorem idxOf_none_iff (x : α) (l : List α) : idxOf x l = none ↔ x ∉ l := by
  induction l with
  | nil => simp [idxOf]
  | cons b bs ih =>
    simp only [idxOf, List.mem_cons, not_or]
    split
    · simp_all
    · rename_i hne; simp [ih, hne]

theorem idxOf_append_self (x : α) (l : List α) (h : idxOf x l = none) : idxOf x (l ++ [x]) = some l.length := by
  induction l with
  | nil => simp [idxOf]
  | cons b bs ih =>
    simp only [idxOf] at h
    split at h
    · simp at h
    · rename_i hne
      simp at h
      simp [idxOf, hne, ih h]

theorem idxOf_inj (x y : α) (l : List α) (i : Nat) (hx : idxOf x l = some i) (hy : idxOf y l = some i) : x = y := by
  induction l generalizing i with
  | nil => simp [idxOf] at hx
  | cons b bs ih =>
    simp only [idxOf] at hx hy
    split at hx <;> split at hy
    · simp_all
    · simp at hx hy; obtain ⟨j, _, hj⟩ := hy; omega
    · simp at hx hy; obtain ⟨j, _, hj⟩ := hx; omega
    · simp at hx hy
      obtain ⟨j, hj, rfl⟩ := hx
      obtain ⟨k, hk, hk'⟩ := hy
      have : k = j := by omega
      rw [this] at hk
      exact ih j hj hk

theorem idxOf_map_inj {β : Type} [DecidableEq β] (f : α → β) (x : α) (l : List α)
    (h : ∀ y ∈ l, f y = f x → y = x) : idxOf (f x) (l.map f) = idxOf x l := by
  induction l with
  | nil => rfl
  | cons b bs ih =>
    have ih' := ih (fun y hy => h y (by simp [hy]))
    simp only [List.map_cons, idxOf]
    by_cases hb : x = b
    · subst hb; simp
    · have : f x ≠ f b := fun e => hb (h b (by simp) e.symm).symm
      simp [hb, this, ih']
end idx

/-- `S` extends the interner state `st` (the interner only ever appends) -/
def Ext (st S : Interner) : Prop := ∃ e, S = st ++ e

theorem Ext.refl (st : Interner) : Ext st st := ⟨[], by simp⟩
theorem Ext.trans {a b c : Interner} (h1 : Ext a b) (h2 : Ext b c) : Ext a c := by
  obtain ⟨e1, rfl⟩ := h1; obtain ⟨e2, rfl⟩ := h2; exact ⟨e1 ++ e2, by simp⟩

theorem intern_ext (x : List Char) (st : Interner) : Ext st (intern x st).2 := by
  unfold intern; split
  · exact Ext.refl st
  · exact ⟨[x], rfl⟩

theorem intern_idx (x : List Char) (st : Interner) : idxOf x (intern x st).2 = some (intern x st).1 := by
  unfold intern; split
  · rename_i i h; simpa using h
  · rename_i h; simpa using idxOf_append_self x st h

/-- the number the final interner gives to a text -/
def codeOf (S : Interner) (x : List Char) : Int := Int.ofNat ((idxOf x S).getD 0)

theorem codeOf_of_ext {st S : Interner} (h : Ext st S) (x : List Char) (i : Nat) (hi : idxOf x st = some i) :
    codeOf S x = Int.ofNat i := by
  obtain ⟨e, rfl⟩ := h
  simp [codeOf, idxOf_append_some x st e i hi]

theorem mem_of_ext_idx {st S : Interner} (h : Ext st S) (x : List Char) (i : Nat) (hi : idxOf x st = some i) : x ∈ S := by
  obtain ⟨e, rfl⟩ := h
  have : x ∈ st := by
    by_cases hn : x ∈ st
    · exact hn
    · rw [(idxOf_none_iff x st).2 hn] at hi; simp at hi
  simp [this]

theorem codeOf_inj (S : Interner) (x y : List Char) (hx : x ∈ S) (hy : y ∈ S) (h : codeOf S y = codeOf S x) : y = x := by
  cases hix : idxOf x S with
  | none => exact absurd hx ((idxOf_none_iff x S).1 hix)
  | some i =>
    cases hiy : idxOf y S with
    | none => exact absurd hy ((idxOf_none_iff y S).1 hiy)
    | some j =>
      simp [codeOf, hix, hiy] at h
      have hji : j = i := by omega
      rw [hji] at hiy
      exact idxOf_inj y x S i hiy hix

mutual
  theorem relabel_ext : (t : Term Name) → ∀ st, Ext st (relabel st t).2
    | .var n => fun st => by simpa [relabel] using intern_ext _ st
    | .lam n b => fun st => by
      simp only [relabel]; exact (intern_ext _ st).trans (relabel_ext b _)
    | .app f a => fun st => by
      simp only [relabel]; exact (relabel_ext f st).trans (relabel_ext a _)
    | .delay t => fun st => by simpa [relabel] using relabel_ext t st
    | .force t => fun st => by simpa [relabel] using relabel_ext t st
    | .error => fun st => by simpa [relabel] using Ext.refl st
    | .builtin _ => fun st => by simpa [relabel] using Ext.refl st
    | .const _ => fun st => by simpa [relabel] using Ext.refl st
    | .constr _ fs => fun st => by simpa [relabel] using relabelList_ext fs st
    | .case s bs => fun st => by
      simp only [relabel]; exact (relabel_ext s st).trans (relabelList_ext bs _)
  theorem relabelList_ext : (ts : List (Term Name)) → ∀ st, Ext st (relabelList st ts).2
    | [] => fun st => by simpa [relabelList] using Ext.refl st
    | t :: ts => fun st => by
      simp only [relabelList]; exact (relabel_ext t st).trans (relabelList_ext ts _)
end

/-- the environment of uniques that corresponds to an environment of texts under the final interner -/
def envCodes (S : Interner) (envT : List (List Char)) : List Int := envT.map (codeOf S)

theorem name_step (S st : Interner) (n : Name) (h : Ext (intern (nameChars n) st).2 S) :
    (mkName (nameChars n) (intern (nameChars n) st).1).unique = codeOf S (nameChars n) ∧ nameChars n ∈ S := by
  have hi := intern_idx (nameChars n) st
  exact ⟨by simp [mkName, codeOf_of_ext h _ _ hi], mem_of_ext_idx h _ _ hi⟩

mutual
  /-- resolving the re-interned term through its (new) uniques = resolving the original through texts -/
  theorem resolve_relabel : (t : Term Name) → ∀ (st S : Interner) (envT : List (List Char)),
      Ext (relabel st t).2 S → (∀ x ∈ envT, x ∈ S) →
      resolveBy (·.unique) (envCodes S envT) (relabel st t).1 = resolveBy nameChars envT t
    | .var n => by
      intro st S envT hext henv
      simp only [relabel] at hext ⊢
      obtain ⟨hu, hm⟩ := name_step S st n hext
      simp only [resolveBy, hu, envCodes]
      rw [idxOf_map_inj (codeOf S) (nameChars n) envT (fun y hy e => codeOf_inj S _ _ hm (henv y hy) e)]
      simp [mkName_nameChars]
    | .lam n b => by
      intro st S envT hext henv
      simp only [relabel] at hext ⊢
      obtain ⟨hu, hm⟩ := name_step S st n ((relabel_ext b _).trans hext)
      have ih := resolve_relabel b (intern (nameChars n) st).2 S (nameChars n :: envT) hext
        (by intro x hx; simp at hx; rcases hx with rfl | hx; exact hm; exact henv x hx)
      simp only [resolveBy, hu]
      simp only [envCodes, List.map_cons] at ih
      simp [envCodes, ih]
    | .app f a => by
      intro st S envT hext henv
      simp only [relabel] at hext ⊢
      simp only [resolveBy]
      rw [resolve_relabel f st S envT ((relabel_ext a _).trans hext) henv,
        resolve_relabel a _ S envT hext henv]
    | .delay t => by
      intro st S envT hext henv
      simp only [relabel] at hext ⊢
      simp only [resolveBy]
      rw [resolve_relabel t st S envT hext henv]
    | .force t => by
      intro st S envT hext henv
      simp only [relabel] at hext ⊢
      simp only [resolveBy]
      rw [resolve_relabel t st S envT hext henv]
    | .error => by intros; simp [relabel, resolveBy]
    | .builtin _ => by intros; simp [relabel, resolveBy]
    | .const _ => by intros; simp [relabel, resolveBy]
    | .constr tag fs => by
      intro st S envT hext henv
      simp only [relabel] at hext ⊢
      simp only [resolveBy]
      rw [resolveList_relabel fs st S envT hext henv]
    | .case s bs => by
      intro st S envT hext henv
      simp only [relabel] at hext ⊢
      simp only [resolveBy]
      rw [resolve_relabel s st S envT ((relabelList_ext bs _).trans hext) henv,
        resolveList_relabel bs _ S envT hext henv]
  theorem resolveList_relabel : (ts : List (Term Name)) → ∀ (st S : Interner) (envT : List (List Char)),
      Ext (relabelList st ts).2 S → (∀ x ∈ envT, x ∈ S) →
      resolveListBy (·.unique) (envCodes S envT) (relabelList st ts).1 = resolveListBy nameChars envT ts
    | [] => by intros; simp [relabelList, resolveListBy]
    | t :: ts => by
      intro st S envT hext henv
      simp only [relabelList] at hext ⊢
      simp only [resolveListBy]
      rw [resolve_relabel t st S envT ((relabelList_ext ts _).trans hext) henv,
        resolveList_relabel ts _ S envT hext henv]
end

mutual
  /-- under `NamesConsistent`, resolving by text and resolving by unique agree -/
  theorem resolve_scopeOk : (t : Term Name) → ∀ (env : List Name), scopeOk env t = true →
      resolveBy nameChars (env.map nameChars) t = resolveBy (·.unique) (env.map (·.unique)) t
    | .var n => by
      intro env h
      simp [scopeOk] at h
      simp [resolveBy, h]
    | .lam n b => by
      intro env h
      simp [scopeOk] at h
      have := resolve_scopeOk b (n :: env) h
      simp only [List.map_cons] at this
      simp [resolveBy, this]
    | .app f a => by
      intro env h
      simp [scopeOk] at h
      simp [resolveBy, resolve_scopeOk f env h.1, resolve_scopeOk a env h.2]
    | .delay t => by
      intro env h
      simp [scopeOk] at h
      simp [resolveBy, resolve_scopeOk t env h]
    | .force t => by
      intro env h
      simp [scopeOk] at h
      simp [resolveBy, resolve_scopeOk t env h]
    | .error => by intros; simp [resolveBy]
    | .builtin _ => by intros; simp [resolveBy]
    | .const _ => by intros; simp [resolveBy]
    | .constr tag fs => by
      intro env h
      simp [scopeOk] at h
      simp [resolveBy, resolveList_scopeOk fs env h]
    | .case s bs => by
      intro env h
      simp [scopeOk] at h
      simp [resolveBy, resolve_scopeOk s env h.1, resolveList_scopeOk bs env h.2]
  theorem resolveList_scopeOk : (ts : List (Term Name)) → ∀ (env : List Name), scopeOkList env ts = true →
      resolveListBy nameChars (env.map nameChars) ts = resolveListBy (·.unique) (env.map (·.unique)) ts
    | [] => by intros; simp [resolveListBy]
    | t :: ts => by
      intro env h
      simp [scopeOkList] at h
      simp [resolveListBy, resolve_scopeOk t env h.1, resolveList_scopeOk ts env h.2]
end

/-- re-interning the names of a term with consistent names does not change its nameless view -/
theorem nameless_relabel (t : Term Name) (h : scopeOk [] t = true) : nameless (relabel [] t).1 = nameless t := by
  have h1 := resolve_relabel t [] (relabel [] t).2 [] (Ext.refl _) (by simp)
  have h2 := resolve_scopeOk t [] h
  simp only [envCodes, List.map_nil] at h1 h2
  simp only [nameless]
  rw [h1, h2]

-- ------------------------------------------------------------------ global bijection ⇒ scope consistency
theorem idx_of_bijective (A : List Name)
    (H : ∀ n ∈ A, ∀ m ∈ A, (n.text = m.text ↔ n.unique = m.unique)) (n : Name) (hn : n ∈ A) :
    ∀ env : List Name, (∀ m ∈ env, m ∈ A) →
      idxOf (nameChars n) (env.map nameChars) = idxOf n.unique (env.map (·.unique)) := by
  intro env
  induction env with
  | nil => intro _; rfl
  | cons m env ih =>
    intro henv
    have hm : m ∈ A := henv m (by simp)
    have ih' := ih (fun x hx => henv x (by simp [hx]))
    have hb := H n hn m hm
    simp only [List.map_cons, idxOf]
    by_cases ht : nameChars n = nameChars m
    · have : n.text = m.text := String.toList_inj.1 ht
      simp [ht, hb.1 this]
    · have h1 : ¬ n.text = m.text := fun e => ht (by simp [nameChars, e])
      have h2 : ¬ n.unique = m.unique := fun e => h1 (hb.2 e)
      simp [ht, h2, ih']

mutual
  theorem scopeOk_of_bijective (A : List Name)
      (H : ∀ n ∈ A, ∀ m ∈ A, (n.text = m.text ↔ n.unique = m.unique)) :
      (t : Term Name) → ∀ env : List Name, (∀ m ∈ env, m ∈ A) → (∀ n ∈ names t, n ∈ A) → scopeOk env t = true
    | .var n => by
      intro env henv ht
      simp [names] at ht
      simp [scopeOk, idx_of_bijective A H n ht env henv]
    | .lam n b => by
      intro env henv ht
      simp [names] at ht
      simp only [scopeOk]
      exact scopeOk_of_bijective A H b (n :: env)
        (by intro m hm; simp at hm; rcases hm with rfl | hm; exact ht.1; exact henv m hm) ht.2
    | .app f a => by
      intro env henv ht
      simp [names] at ht
      simp [scopeOk, scopeOk_of_bijective A H f env henv (fun n hn => ht n (Or.inl hn)),
        scopeOk_of_bijective A H a env henv (fun n hn => ht n (Or.inr hn))]
    | .delay t => by
      intro env henv ht
      simp only [names] at ht
      simpa [scopeOk] using scopeOk_of_bijective A H t env henv ht
    | .force t => by
      intro env henv ht
      simp only [names] at ht
      simpa [scopeOk] using scopeOk_of_bijective A H t env henv ht
    | .error => by intros; rfl
    | .builtin _ => by intros; rfl
    | .const _ => by intros; rfl
    | .constr _ fs => by
      intro env henv ht
      simp only [names] at ht
      simpa [scopeOk] using scopeOkList_of_bijective A H fs env henv ht
    | .case s bs => by
      intro env henv ht
      simp [names] at ht
      simp [scopeOk, scopeOk_of_bijective A H s env henv (fun n hn => ht n (Or.inl hn)),
        scopeOkList_of_bijective A H bs env henv (fun n hn => ht n (Or.inr hn))]
  theorem scopeOkList_of_bijective (A : List Name)
      (H : ∀ n ∈ A, ∀ m ∈ A, (n.text = m.text ↔ n.unique = m.unique)) :
      (ts : List (Term Name)) → ∀ env : List Name, (∀ m ∈ env, m ∈ A) → (∀ n ∈ namesList ts, n ∈ A) →
        scopeOkList env ts = true
    | [] => by intros; rfl
    | t :: ts => by
      intro env henv ht
      simp [namesList] at ht
      simp [scopeOkList, scopeOk_of_bijective A H t env henv (fun n hn => ht n (Or.inl hn)),
        scopeOkList_of_bijective A H ts env henv (fun n hn => ht n (Or.inr hn))]
end

theorem namesConsistent_of_bijective (p : Program Name) (h : namesBijective p = true) : namesConsistent p = true := by
  simp [namesBijective] at h
  exact scopeOk_of_bijective (names p.term) h p.term [] (by simp) (fun n hn => hn)

-- ------------------------------------------------------------------ printable; printing ignores uniques
mutual
  theorem constPrintable_of_ok : (c : Const) → ∀ t, constOk t c = true → constPrintable c = true
    | .list t' xs => by
      intro t h
      cases t <;> simp [constOk] at h
      simpa [constPrintable] using constsPrintable_of_ok xs _ h.2
    | .pair a b x y => by
      intro t h
      cases t <;> simp [constOk] at h
      simp [constPrintable, constPrintable_of_ok x _ h.1.2, constPrintable_of_ok y _ h.2]
    | .ml _ => by intro t h; cases t <;> simp [constOk] at h
    | .integer _ => by intros; rfl
    | .bytestring _ => by intros; rfl
    | .string _ => by intros; rfl
    | .unit => by intros; rfl
    | .bool _ => by intros; rfl
    | .data _ => by intros; rfl
    | .g1 _ => by intros; rfl
    | .g2 _ => by intros; rfl
  theorem constsPrintable_of_ok : (cs : List Const) → ∀ t, constsOk t cs = true → constsPrintable cs = true
    | [] => by intros; rfl
    | c :: cs => by
      intro t h
      simp [constsOk] at h
      simp [constsPrintable, constPrintable_of_ok c t h.1, constsPrintable_of_ok cs t h.2]
end

mutual
  theorem termPrintable_of_ok : (t : Term Name) → termOk t = true → termPrintable t = true
    | .var _ => by intros; rfl
    | .lam _ b => by intro h; simp [termOk] at h; simpa [termPrintable] using termPrintable_of_ok b h.2
    | .app f a => by
      intro h; simp [termOk] at h
      simp [termPrintable, termPrintable_of_ok f h.1, termPrintable_of_ok a h.2]
    | .delay t => by intro h; simp [termOk] at h; simpa [termPrintable] using termPrintable_of_ok t h
    | .force t => by intro h; simp [termOk] at h; simpa [termPrintable] using termPrintable_of_ok t h
    | .error => by intros; rfl
    | .builtin _ => by intros; rfl
    | .const c => by intro h; simp [termOk] at h; simpa [termPrintable] using constPrintable_of_ok c _ h
    | .constr _ fs => by intro h; simp [termOk] at h; simpa [termPrintable] using termsPrintable_of_ok fs h.2
    | .case s bs => by
      intro h; simp [termOk] at h
      simp [termPrintable, termPrintable_of_ok s h.1, termsPrintable_of_ok bs h.2]
  theorem termsPrintable_of_ok : (ts : List (Term Name)) → termsOk ts = true → termsPrintable ts = true
    | [] => by intros; rfl
    | t :: ts => by
      intro h; simp [termsOk] at h
      simp [termsPrintable, termPrintable_of_ok t h.1, termsPrintable_of_ok ts h.2]
end

theorem text_mkName (n : Name) (u : Nat) : BinderText.text (mkName (nameChars n) u) = BinderText.text n := by
  simp [BinderText.text, mkName, nameChars]

mutual
  /-- the printer only looks at texts, and re-interning keeps texts -/
  theorem printTerm_relabel : (t : Term Name) → ∀ st, printTerm (relabel st t).1 = printTerm t
    | .var n => by intro st; simp [relabel, printTerm, text_mkName]
    | .lam n b => by intro st; simp [relabel, printTerm, text_mkName, printTerm_relabel b]
    | .app f a => by intro st; simp [relabel, printTerm, printTerm_relabel f, printTerm_relabel a]
    | .delay t => by intro st; simp [relabel, printTerm, printTerm_relabel t]
    | .force t => by intro st; simp [relabel, printTerm, printTerm_relabel t]
    | .error => by intro st; simp [relabel]
    | .builtin _ => by intro st; simp [relabel]
    | .const _ => by intro st; simp [relabel]
    | .constr _ fs => by intro st; simp [relabel, printTerm, printTerms_relabel fs]
    | .case s bs => by intro st; simp [relabel, printTerm, printTerm_relabel s, printTerms_relabel bs]
  theorem printTerms_relabel : (ts : List (Term Name)) → ∀ st, printTerms (relabelList st ts).1 = printTerms ts
    | [] => by intro st; simp [relabelList, printTerms]
    | t :: ts => by intro st; simp [relabelList, printTerms, printTerm_relabel t, printTerms_relabel ts]
end

mutual
  theorem termPrintable_relabel : (t : Term Name) → ∀ st, termPrintable (relabel st t).1 = termPrintable t
    | .var n => by intro st; simp [relabel, termPrintable]
    | .lam n b => by intro st; simp [relabel, termPrintable, termPrintable_relabel b]
    | .app f a => by intro st; simp [relabel, termPrintable, termPrintable_relabel f, termPrintable_relabel a]
    | .delay t => by intro st; simp [relabel, termPrintable, termPrintable_relabel t]
    | .force t => by intro st; simp [relabel, termPrintable, termPrintable_relabel t]
    | .error => by intro st; simp [relabel]
    | .builtin _ => by intro st; simp [relabel]
    | .const _ => by intro st; simp [relabel]
    | .constr _ fs => by intro st; simp [relabel, termPrintable, termsPrintable_relabel fs]
    | .case s bs => by intro st; simp [relabel, termPrintable, termPrintable_relabel s, termsPrintable_relabel bs]
  theorem termsPrintable_relabel : (ts : List (Term Name)) → ∀ st, termsPrintable (relabelList st ts).1 = termsPrintable ts
    | [] => by intro st; simp [relabelList, termsPrintable]
    | t :: ts => by intro st; simp [relabelList, termsPrintable, termPrintable_relabel t, termsPrintable_relabel ts]
end

end AikenVerif.Text
