import AikenVerif.Lemmas.TextConst
/-! Helper lemmas for C15: terms and programs (token level); names. -/
namespace AikenVerif.Text
open AikenVerif.Gen (Builtin)
open AikenVerif.Gen.TextTables

-- ------------------------------------------------------------------ keyword tables
theorem kwTerm_eq : ∀ k : TermKind, kwTerm k = kwTermP k := by
  intro k; cases k <;> decide

theorem kwTermP_ne : ∀ a b : TermKind, a ≠ b → kwTermP a ≠ kwTermP b := by
  intro a b h
  cases a <;> cases b <;> first | exact absurd rfl h | decide

theorem program_kw : chars programDisplay = chars programParse := by decide

theorem afterKeyword_hit (kw : List Char) (r : List Token) :
    afterKeyword kw (.lpar :: .word kw :: r) = some r := by
  simp [afterKeyword]

theorem afterKeyword_miss (kw w : List Char) (r : List Token) (h : w ≠ kw) :
    afterKeyword kw (.lpar :: .word w :: r) = none := by
  simp [afterKeyword, h]

@[simp] theorem afterKeyword_word (kw w : List Char) (r : List Token) : afterKeyword kw (.word w :: r) = none := rfl
@[simp] theorem afterKeyword_lbrack (kw : List Char) (r : List Token) : afterKeyword kw (.lbrack :: r) = none := rfl
@[simp] theorem afterKeyword_rbrack (kw : List Char) (r : List Token) : afterKeyword kw (.rbrack :: r) = none := rfl
@[simp] theorem afterKeyword_rpar (kw : List Char) (r : List Token) : afterKeyword kw (.rpar :: r) = none := rfl

/-- no term starts with `)` or `]` -/
theorem parseTerm_rpar (f : Nat) (st : Interner) (r : List Token) : parseTerm f st (.rpar :: r) = none := by
  cases f <;> simp [parseTerm, orElse, altConst, altBuiltin, altVar, altLam, altApply, altUnary, altError, altConstr, altCase]

theorem parseTerm_rbrack (f : Nat) (st : Interner) (r : List Token) : parseTerm f st (.rbrack :: r) = none := by
  cases f <;> simp [parseTerm, orElse, altConst, altBuiltin, altVar, altLam, altApply, altUnary, altError, altConstr, altCase]

/-- `builtin_names_roundtrip` as used by the parser model -/
theorem builtinOfWord_display : ∀ b : Builtin, builtinOfWord (chars b.display) = some b := by
  intro b; cases b <;> decide

theorem isIdent_display : ∀ b : Builtin, isIdent (chars b.display) = true := by
  intro b; cases b <;> decide

-- ------------------------------------------------------------------ printed terms
section
variable (t : Term Name)

theorem printTerm_noLeadWs : NoLeadWs (printTerm t) := by
  cases t <;> (simp only [printTerm, List.cons_append, List.nil_append]; exact ⟨_, _, rfl, by simp⟩)

theorem printTerm_length : 1 ≤ (printTerm t).length := by
  obtain ⟨tk, r, e, -⟩ := printTerm_noLeadWs t
  rw [e]; simp
end

theorem mkName_nameChars (n : Name) (u : Nat) : (mkName (nameChars n) u).text = n.text := by
  simp [mkName, nameChars]

@[simp] theorem orElse_none_left {α} (b : Option α) : orElse none b = b := rfl
@[simp] theorem orElse_none_right {α} (a : Option α) : orElse a none = a := by cases a <;> rfl
@[simp] theorem orElse_some {α} (x : α) (b : Option α) : orElse (some x) b = some x := rfl

section miss
variable (f : Nat) (st : Interner) (w : List Char) (r : List Token)
variable (rec : Interner → List Token → TermRes) (recs : Interner → List Token → TermsRes)

theorem altConst_miss (h : w ≠ kwTermP .con) : altConst f st (.lpar :: .word w :: r) = none := by
  simp [altConst, afterKeyword_miss _ _ _ h]
theorem altBuiltin_miss (h : w ≠ kwTermP .builtin) : altBuiltin st (.lpar :: .word w :: r) = none := by
  simp [altBuiltin, afterKeyword_miss _ _ _ h]
theorem altLam_miss (h : w ≠ kwTermP .lam) : altLam rec st (.lpar :: .word w :: r) = none := by
  simp [altLam, afterKeyword_miss _ _ _ h]
theorem altUnary_miss (k : TermKind) (mk : Term Name → Term Name) (h : w ≠ kwTermP k) :
    altUnary k mk rec st (.lpar :: .word w :: r) = none := by
  simp [altUnary, afterKeyword_miss _ _ _ h]
theorem altError_miss (h : w ≠ kwTermP .error) : altError st (.lpar :: .word w :: r) = none := by
  simp [altError, afterKeyword_miss _ _ _ h]
theorem altConstr_miss (h : w ≠ kwTermP .constr) : altConstr recs st (.lpar :: .word w :: r) = none := by
  simp [altConstr, afterKeyword_miss _ _ _ h]
theorem altCase_miss (h : w ≠ kwTermP .case) : altCase rec recs st (.lpar :: .word w :: r) = none := by
  simp [altCase, afterKeyword_miss _ _ _ h]
@[simp] theorem altVar_lpar : altVar st (.lpar :: r) = none := rfl
@[simp] theorem altApply_lpar : altApply rec recs st (.lpar :: r) = none := rfl
end miss

/-- the printed keyword of kind `a` misses the parser's keyword of any other kind `b` -/
theorem kw_miss (a b : TermKind) (h : a ≠ b) : kwTerm a ≠ kwTermP b := by
  rw [kwTerm_eq]; exact kwTermP_ne a b h

section dispatch
variable (f : Nat) (st : Interner) (r : List Token)

theorem parseTerm_con : parseTerm (f + 1) st (.lpar :: .word (kwTerm .con) :: r) =
    altConst f st (.lpar :: .word (kwTerm .con) :: r) := by
  simp [parseTerm, altBuiltin_miss _ _ _ (kw_miss .con .builtin (by decide)),
    altLam_miss _ _ _ _ (kw_miss .con .lam (by decide)), altUnary_miss _ _ _ _ _ _ (kw_miss .con .delay (by decide)),
    altUnary_miss _ _ _ _ _ _ (kw_miss .con .force (by decide)), altError_miss _ _ _ (kw_miss .con .error (by decide)),
    altConstr_miss _ _ _ _ (kw_miss .con .constr (by decide)), altCase_miss _ _ _ _ _ (kw_miss .con .case (by decide))]

theorem parseTerm_builtin : parseTerm (f + 1) st (.lpar :: .word (kwTerm .builtin) :: r) =
    altBuiltin st (.lpar :: .word (kwTerm .builtin) :: r) := by
  simp [parseTerm, altConst_miss _ _ _ _ (kw_miss .builtin .con (by decide)),
    altLam_miss _ _ _ _ (kw_miss .builtin .lam (by decide)), altUnary_miss _ _ _ _ _ _ (kw_miss .builtin .delay (by decide)),
    altUnary_miss _ _ _ _ _ _ (kw_miss .builtin .force (by decide)), altError_miss _ _ _ (kw_miss .builtin .error (by decide)),
    altConstr_miss _ _ _ _ (kw_miss .builtin .constr (by decide)), altCase_miss _ _ _ _ _ (kw_miss .builtin .case (by decide))]

theorem parseTerm_lam : parseTerm (f + 1) st (.lpar :: .word (kwTerm .lam) :: r) =
    altLam (parseTerm f) st (.lpar :: .word (kwTerm .lam) :: r) := by
  simp [parseTerm, altConst_miss _ _ _ _ (kw_miss .lam .con (by decide)),
    altBuiltin_miss _ _ _ (kw_miss .lam .builtin (by decide)), altUnary_miss _ _ _ _ _ _ (kw_miss .lam .delay (by decide)),
    altUnary_miss _ _ _ _ _ _ (kw_miss .lam .force (by decide)), altError_miss _ _ _ (kw_miss .lam .error (by decide)),
    altConstr_miss _ _ _ _ (kw_miss .lam .constr (by decide)), altCase_miss _ _ _ _ _ (kw_miss .lam .case (by decide))]

theorem parseTerm_delay : parseTerm (f + 1) st (.lpar :: .word (kwTerm .delay) :: r) =
    altUnary .delay .delay (parseTerm f) st (.lpar :: .word (kwTerm .delay) :: r) := by
  simp [parseTerm, altConst_miss _ _ _ _ (kw_miss .delay .con (by decide)),
    altBuiltin_miss _ _ _ (kw_miss .delay .builtin (by decide)), altLam_miss _ _ _ _ (kw_miss .delay .lam (by decide)),
    altUnary_miss _ _ _ _ _ _ (kw_miss .delay .force (by decide)), altError_miss _ _ _ (kw_miss .delay .error (by decide)),
    altConstr_miss _ _ _ _ (kw_miss .delay .constr (by decide)), altCase_miss _ _ _ _ _ (kw_miss .delay .case (by decide))]

theorem parseTerm_force : parseTerm (f + 1) st (.lpar :: .word (kwTerm .force) :: r) =
    altUnary .force .force (parseTerm f) st (.lpar :: .word (kwTerm .force) :: r) := by
  simp [parseTerm, altConst_miss _ _ _ _ (kw_miss .force .con (by decide)),
    altBuiltin_miss _ _ _ (kw_miss .force .builtin (by decide)), altLam_miss _ _ _ _ (kw_miss .force .lam (by decide)),
    altUnary_miss _ _ _ _ _ _ (kw_miss .force .delay (by decide)), altError_miss _ _ _ (kw_miss .force .error (by decide)),
    altConstr_miss _ _ _ _ (kw_miss .force .constr (by decide)), altCase_miss _ _ _ _ _ (kw_miss .force .case (by decide))]

theorem parseTerm_error : parseTerm (f + 1) st (.lpar :: .word (kwTerm .error) :: r) =
    altError st (.lpar :: .word (kwTerm .error) :: r) := by
  simp [parseTerm, altConst_miss _ _ _ _ (kw_miss .error .con (by decide)),
    altBuiltin_miss _ _ _ (kw_miss .error .builtin (by decide)), altLam_miss _ _ _ _ (kw_miss .error .lam (by decide)),
    altUnary_miss _ _ _ _ _ _ (kw_miss .error .delay (by decide)), altUnary_miss _ _ _ _ _ _ (kw_miss .error .force (by decide)),
    altConstr_miss _ _ _ _ (kw_miss .error .constr (by decide)), altCase_miss _ _ _ _ _ (kw_miss .error .case (by decide))]

theorem parseTerm_constr : parseTerm (f + 1) st (.lpar :: .word (kwTerm .constr) :: r) =
    altConstr (parseTerms f) st (.lpar :: .word (kwTerm .constr) :: r) := by
  simp [parseTerm, altConst_miss _ _ _ _ (kw_miss .constr .con (by decide)),
    altBuiltin_miss _ _ _ (kw_miss .constr .builtin (by decide)), altLam_miss _ _ _ _ (kw_miss .constr .lam (by decide)),
    altUnary_miss _ _ _ _ _ _ (kw_miss .constr .delay (by decide)), altUnary_miss _ _ _ _ _ _ (kw_miss .constr .force (by decide)),
    altError_miss _ _ _ (kw_miss .constr .error (by decide)), altCase_miss _ _ _ _ _ (kw_miss .constr .case (by decide))]

theorem parseTerm_case : parseTerm (f + 1) st (.lpar :: .word (kwTerm .case) :: r) =
    altCase (parseTerm f) (parseTerms f) st (.lpar :: .word (kwTerm .case) :: r) := by
  simp [parseTerm, altConst_miss _ _ _ _ (kw_miss .case .con (by decide)),
    altBuiltin_miss _ _ _ (kw_miss .case .builtin (by decide)), altLam_miss _ _ _ _ (kw_miss .case .lam (by decide)),
    altUnary_miss _ _ _ _ _ _ (kw_miss .case .delay (by decide)), altUnary_miss _ _ _ _ _ _ (kw_miss .case .force (by decide)),
    altError_miss _ _ _ (kw_miss .case .error (by decide)), altConstr_miss _ _ _ _ (kw_miss .case .constr (by decide))]

theorem parseTerm_word (w : List Char) : parseTerm (f + 1) st (.word w :: r) = altVar st (.word w :: r) := by
  simp [parseTerm, altConst, altBuiltin, altLam, altApply, altUnary, altError, altConstr, altCase]

theorem parseTerm_lbrack : parseTerm (f + 1) st (.lbrack :: r) =
    altApply (parseTerm f) (parseTerms f) st (.lbrack :: r) := by
  simp [parseTerm, altConst, altBuiltin, altVar, altLam, altUnary, altError, altConstr, altCase]
end dispatch

theorem parseTerms_close (f : Nat) (st : Interner) (close : Token) (rest : List Token)
    (hc : close = .rpar ∨ close = .rbrack) :
    parseTerms (f + 1) st (close :: rest) = some ([], st, close :: rest) := by
  rcases hc with rfl | rfl
  · simp [parseTerms, parseTerm_rpar]
  · simp [parseTerms, parseTerm_rbrack]

theorem parseTerms_cons_of {f : Nat} {st st1 st2 : Interner} {toks r r1 : List Token} {t : Term Name}
    {ts : List (Term Name)} (h1 : parseTerm f st toks = some (t, st1, r))
    (h2 : parseTerms f st1 (skipWs r) = some (ts, st2, r1)) :
    parseTerms (f + 1) st toks = some (t :: ts, st2, r1) := by
  simp [parseTerms, h1, h2]

theorem skipWs_close (close : Token) (rest : List Token) (hc : close = .rpar ∨ close = .rbrack) :
    skipWs (close :: rest) = close :: rest := by
  rcases hc with rfl | rfl <;> rfl

mutual
  /-- parsing a printed term gives the term with its names re-interned (`Interner::term`) -/
  theorem parseTerm_print : (t : Term Name) → ∀ (f : Nat) (st : Interner) (rest : List Token),
      termOk t = true → (printTerm t).length ≤ f →
      parseTerm f st (printTerm t ++ rest) = some ((relabel st t).1, (relabel st t).2, rest)
    | .var n => by
      intro f st rest hok hf
      simp [termOk] at hok
      simp [printTerm] at hf
      obtain ⟨g, rfl⟩ : ∃ g, f = g + 1 := ⟨f - 1, by omega⟩
      simp [printTerm, BinderText.text, parseTerm_word, altVar, hok, relabel, nameChars]
    | .lam n b => by
      intro f st rest hok hf
      simp [termOk] at hok
      simp [printTerm] at hf
      obtain ⟨g, rfl⟩ : ∃ g, f = g + 1 := ⟨f - 1, by omega⟩
      have h1 := skipWs_of_noLeadWs (printTerm_noLeadWs b) (.rpar :: rest)
      have h2 := parseTerm_print b g (intern (nameChars n) st).2 (.rpar :: rest) hok.2 (by omega)
      simp only [printTerm, List.cons_append, List.nil_append, List.append_assoc]
      rw [parseTerm_lam]
      simp [altLam, kwTerm_eq, afterKeyword_hit, BinderText.text, hok.1, h1]
      simp [nameChars] at h2
      simp [h2, relabel, nameChars]
    | .app a b => by
      intro f st rest hok hf
      simp [termOk] at hok
      simp [printTerm] at hf
      obtain ⟨g, rfl⟩ : ∃ g, f = g + 1 := ⟨f - 1, by omega⟩
      obtain ⟨g', rfl⟩ : ∃ g', g = g' + 1 := ⟨g - 1, by omega⟩
      have h1 := skipWs_of_noLeadWs (printTerm_noLeadWs a) (.ws :: (printTerm b ++ .ws :: .rbrack :: rest))
      have h2 := parseTerm_print a (g' + 1) st (.ws :: (printTerm b ++ .ws :: .rbrack :: rest)) hok.1 (by omega)
      have h3 := skipWs_of_noLeadWs (printTerm_noLeadWs b) (.ws :: .rbrack :: rest)
      have h4 := parseTerm_print b g' (relabel st a).2 (.ws :: .rbrack :: rest) hok.2 (by omega)
      obtain ⟨g'', rfl⟩ : ∃ g'', g' = g'' + 1 := ⟨g' - 1, by have := printTerm_length b; omega⟩
      have h5 := parseTerms_close g'' (relabel (relabel st a).2 b).2 .rbrack rest (Or.inr rfl)
      have h6 := parseTerms_cons_of h4 (by simpa using h5)
      simp only [printTerm, List.cons_append, List.nil_append, List.append_assoc]
      rw [parseTerm_lbrack]
      simp [altApply, h1, h2, h3, h6, applyAll, relabel]
    | .delay t => by
      intro f st rest hok hf
      simp [termOk] at hok
      simp [printTerm] at hf
      obtain ⟨g, rfl⟩ : ∃ g, f = g + 1 := ⟨f - 1, by omega⟩
      have h1 := skipWs_of_noLeadWs (printTerm_noLeadWs t) (.rpar :: rest)
      have h2 := parseTerm_print t g st (.rpar :: rest) hok (by omega)
      simp only [printTerm, List.cons_append, List.nil_append, List.append_assoc]
      rw [parseTerm_delay]
      simp [altUnary, kwTerm_eq, afterKeyword_hit, h1, h2, relabel]
    | .force t => by
      intro f st rest hok hf
      simp [termOk] at hok
      simp [printTerm] at hf
      obtain ⟨g, rfl⟩ : ∃ g, f = g + 1 := ⟨f - 1, by omega⟩
      have h1 := skipWs_of_noLeadWs (printTerm_noLeadWs t) (.rpar :: rest)
      have h2 := parseTerm_print t g st (.rpar :: rest) hok (by omega)
      simp only [printTerm, List.cons_append, List.nil_append, List.append_assoc]
      rw [parseTerm_force]
      simp [altUnary, kwTerm_eq, afterKeyword_hit, h1, h2, relabel]
    | .error => by
      intro f st rest _ hf
      simp [printTerm] at hf
      obtain ⟨g, rfl⟩ : ∃ g, f = g + 1 := ⟨f - 1, by omega⟩
      simp only [printTerm, List.cons_append, List.nil_append]
      rw [parseTerm_error]
      simp [altError, kwTerm_eq, afterKeyword_hit, relabel]
    | .builtin b => by
      intro f st rest _ hf
      simp [printTerm] at hf
      obtain ⟨g, rfl⟩ : ∃ g, f = g + 1 := ⟨f - 1, by omega⟩
      simp only [printTerm, List.cons_append, List.nil_append]
      rw [parseTerm_builtin]
      simp [altBuiltin, kwTerm_eq, afterKeyword_hit, isIdent_display, builtinOfWord_display, relabel]
    | .const c => by
      intro f st rest hok hf
      simp [termOk] at hok
      simp [printTerm] at hf
      obtain ⟨g, rfl⟩ : ∃ g, f = g + 1 := ⟨f - 1, by omega⟩
      have h1 := skipWs_of_noLeadWs (printConst_noLeadWs c hok) (.rpar :: rest)
      have h2 := parseConst_print c g (.rpar :: rest) hok (by omega)
      simp only [printTerm, List.cons_append, List.nil_append, List.append_assoc]
      rw [parseTerm_con]
      simp [altConst, kwTerm_eq, afterKeyword_hit, h1, h2, relabel]
    | .constr tag fs => by
      intro f st rest hok hf
      simp [termOk] at hok
      simp [printTerm] at hf
      obtain ⟨g, rfl⟩ : ∃ g, f = g + 1 := ⟨f - 1, by omega⟩
      have h1 := parseTerms_print fs g st .rpar rest (Or.inl rfl) hok.2 (by omega)
      simp only [printTerm, List.cons_append, List.nil_append, List.append_assoc]
      rw [parseTerm_constr]
      simp [altConstr, kwTerm_eq, afterKeyword_hit, parseDecimal_natChars tag hok.1, h1, relabel]
    | .case s bs => by
      intro f st rest hok hf
      simp [termOk] at hok
      simp [printTerm] at hf
      obtain ⟨g, rfl⟩ : ∃ g, f = g + 1 := ⟨f - 1, by omega⟩
      have h0 := skipWs_of_noLeadWs (printTerm_noLeadWs s) (printTerms bs ++ .rpar :: rest)
      have h1 := parseTerm_print s g st (printTerms bs ++ .rpar :: rest) hok.1 (by omega)
      have h2 := parseTerms_print bs g (relabel st s).2 .rpar rest (Or.inl rfl) hok.2 (by omega)
      simp only [printTerm, List.cons_append, List.nil_append, List.append_assoc]
      rw [parseTerm_case]
      simp [altCase, kwTerm_eq, afterKeyword_hit, h0, h1, h2, relabel]
  theorem parseTerms_print : (ts : List (Term Name)) → ∀ (f : Nat) (st : Interner) (close : Token) (rest : List Token),
      (close = .rpar ∨ close = .rbrack) → termsOk ts = true → (printTerms ts).length + 1 ≤ f →
      parseTerms f st (skipWs (printTerms ts ++ close :: rest)) =
        some ((relabelList st ts).1, (relabelList st ts).2, close :: rest)
    | [] => by
      intro f st close rest hc _ hf
      obtain ⟨g, rfl⟩ : ∃ g, f = g + 1 := ⟨f - 1, by omega⟩
      simp [printTerms, skipWs_close close rest hc, parseTerms_close g st close rest hc, relabelList]
    | t :: ts => by
      intro f st close rest hc hok hf
      simp [termsOk] at hok
      simp [printTerms] at hf
      obtain ⟨g, rfl⟩ : ∃ g, f = g + 1 := ⟨f - 1, by omega⟩
      have h1 := skipWs_of_noLeadWs (printTerm_noLeadWs t) (printTerms ts ++ close :: rest)
      have h2 := parseTerm_print t g st (printTerms ts ++ close :: rest) hok.1 (by omega)
      have h3 := parseTerms_print ts g (relabel st t).2 close rest hc hok.2 (by omega)
      simp only [printTerms, List.cons_append, List.append_assoc, skipWs_ws]
      simp [parseTerms, h1, h2, h3, relabelList]
end

end AikenVerif.Text
