import AikenVerif.Lemmas.ShrinkSteps
/-!
The six passes of `simplify`, the outer loop and `simplify` itself: each terminates with `ok`
(never `outOfFuel` within the stated fuel, never `panic`) and is a `Steps`.
-/
namespace AikenVerif.Shrink

variable {α : Type} (run : Choices → Status α)

/-! ### pass 1: deletion -/

theorem deleteCand_length (cs : Choices) (i k : Nat) (hi : i < cs.length) (hk : 1 ≤ k) :
    (deleteCand cs i k).length < cs.length ∧ i ≤ (deleteCand cs i k).length := by
  unfold deleteCand
  split <;> simp <;> omega

theorem deleteLoop_ok (k : Nat) (hk : 1 ≤ k) :
    ∀ (fuel i : Nat) (s : CE α), s.choices.length + i < fuel →
      ∃ s', deleteLoop run k fuel i s = .ok s' ∧ Steps run s s'
  | 0, _, _, h => by omega
  | fuel + 1, i, s, hfuel => by
    unfold deleteLoop
    split
    · -- `i >= len`
      split
      · exact ⟨s, rfl, Steps.refl _⟩
      · exact deleteLoop_ok k hk fuel (i - 1) s (by omega)
    · rename_i hi
      simp only [ge_iff_le, Nat.not_le] at hi
      have ⟨hl1, hl2⟩ := deleteCand_length s.choices i k hi hk
      dsimp only
      rcases hc : consider run s (deleteCand s.choices i k) with ⟨b, s₁⟩
      have hst₁ : Steps run s s₁ := Steps.one' run (shortlexLe_of_shorter hl1) hc
      cases b
      · -- not accepted
        have hch₁ : s₁.choices = s.choices := consider_false run hc
        simp only
        split
        · rename_i hipos
          rcases hb : (deleteCand s.choices i k)[i - 1]? with _ | b
          · -- impossible: i - 1 < length of the candidate
            rw [List.getElem?_eq_none_iff] at hb; omega
          · simp only
            split
            · rcases hc₂ : consider run s₁ ((deleteCand s.choices i k).set (i - 1) (b - 1))
                with ⟨b₂, s₂⟩
              have hst₂ : Steps run s₁ s₂ :=
                Steps.one' run (shortlexLe_of_shorter (by rw [hch₁]; simpa using hl1)) hc₂
              cases b₂
              · have hch₂ : s₂.choices = s₁.choices := consider_false run hc₂
                have ⟨s', h1, h2⟩ := deleteLoop_ok k hk fuel (i - 1) s₂ (by rw [hch₂, hch₁]; omega)
                exact ⟨s', h1, Steps.trans run hst₁ (Steps.trans run hst₂ h2)⟩
              · have hch₂ := consider_true run hc₂
                have ⟨s', h1, h2⟩ := deleteLoop_ok k hk fuel i s₂
                  (by rw [hch₂]; simp only [List.length_set]; omega)
                exact ⟨s', h1, Steps.trans run hst₁ (Steps.trans run hst₂ h2)⟩
            · have ⟨s', h1, h2⟩ := deleteLoop_ok k hk fuel (i - 1) s₁ (by rw [hch₁]; omega)
              exact ⟨s', h1, Steps.trans run hst₁ h2⟩
        · exact ⟨s₁, rfl, hst₁⟩
      · -- accepted: the sequence got strictly shorter, `i` stays
        have hch₁ := consider_true run hc
        have ⟨s', h1, h2⟩ := deleteLoop_ok k hk fuel i s₁ (by rw [hch₁]; omega)
        exact ⟨s', h1, Steps.trans run hst₁ h2⟩

theorem deletePass_ok (F k : Nat) (hk : 1 ≤ k) (s : CE α) (hF : 2 * s.choices.length < F) :
    ∃ s', deletePass run F k s = .ok s' ∧ Steps run s s' := by
  unfold deletePass
  split
  · exact ⟨s, rfl, Steps.refl _⟩
  · exact deleteLoop_ok run k hk F _ s (by omega)

/-! ### pass 2: zeroes -/

theorem applyIvs_zero_lexLe : ∀ (ivs : List (Nat × UInt8)) (cs cs' : Choices),
    (∀ p ∈ ivs, p.2 = 0) → applyIvs cs ivs = some cs' → lexLe cs' cs = true
  | [], cs, cs', _, h => by simp [applyIvs] at h; rw [← h]; exact lexLe_refl _
  | (i, v) :: rest, cs, cs', hz, h => by
    unfold applyIvs at h
    split at h
    · simp at h
    · rename_i hi
      simp only [ge_iff_le, Nat.not_le] at hi
      have hv : v = 0 := hz (i, v) (by simp)
      have h1 := applyIvs_zero_lexLe rest _ _ (fun p hp => hz p (by simp [hp])) h
      have h2 : lexLe (cs.set i v) cs = true :=
        lexLe_set cs i v cs[i] (by simp [hi]) (by rw [hv]; exact u8_zero_le _)
      exact lexLe_trans h1 h2

theorem zeroLoop_ok (k : Nat) (hk : 1 ≤ k) :
    ∀ (fuel i : Nat) (s : CE α), i < fuel →
      ∃ s', zeroLoop run k fuel i s = .ok s' ∧ Steps run s s' ∧
        s'.choices.length = s.choices.length
  | 0, _, _, h => by omega
  | fuel + 1, i, s, hfuel => by
    unfold zeroLoop
    split
    · have hsteps := replace_steps run s (zeroIvs i k) (fun cs' h =>
        applyIvs_zero_lexLe _ _ _ (by
          intro p hp
          simp only [zeroIvs, List.mem_map] at hp
          rcases hp with ⟨x, _, hx⟩
          rw [← hx]) h)
      have hlen := replace_length run s (zeroIvs i k)
      rcases hr : replace run s (zeroIvs i k) with ⟨b, s₁⟩
      rw [hr] at hsteps hlen
      simp only at hsteps hlen
      cases b
      · have ⟨s', h1, h2, h3⟩ := zeroLoop_ok k hk fuel (i - 1) s₁ (by omega)
        exact ⟨s', h1, Steps.trans run hsteps h2, by rw [h3, hlen]⟩
      · have ⟨s', h1, h2, h3⟩ := zeroLoop_ok k hk fuel (i - k) s₁ (by omega)
        exact ⟨s', h1, Steps.trans run hsteps h2, by rw [h3, hlen]⟩
    · exact ⟨s, rfl, Steps.refl _, rfl⟩

theorem zeroPass_ok (F k : Nat) (hk : 1 ≤ k) (s : CE α) (hF : s.choices.length < F) :
    ∃ s', zeroPass run F k s = .ok s' ∧ Steps run s s' ∧ s'.choices.length = s.choices.length :=
  zeroLoop_ok run k hk F _ s hF

/-! ### pass 3: minimise each position -/

theorem minLoop_ok (F : Nat) (hF : 256 ≤ F) :
    ∀ (fuel i : Nat) (s : CE α), i < fuel → i < s.choices.length →
      ∃ s', minLoop run F fuel i s = .ok s' ∧ Steps run s s' ∧
        s'.choices.length = s.choices.length
  | 0, _, _, h, _ => by omega
  | fuel + 1, i, s, hfuel, hi => by
    unfold minLoop
    have hget : s.choices[i]? = some s.choices[i] := by simp [hi]
    rw [hget]
    simp only
    have ⟨s₁, h1, h2, h3⟩ := binarySearchReplace_ok run (bsOk_single i) F hF s.choices[i] s
      s.choices[i] hget (UInt8.le_iff_toNat_le.mpr (Nat.le_refl _))
      (fun cs' h => by
        simp only [applyIvs] at h
        split at h
        · simp at h
        · simp only [Option.some.injEq] at h
          rw [← h]
          exact lexLe_set _ _ _ _ hget (u8_zero_le _))
    rw [h1]
    simp only
    split
    · exact ⟨s₁, rfl, h2, h3⟩
    · have ⟨s', h1', h2', h3'⟩ := minLoop_ok F hF fuel (i - 1) s₁ (by omega) (by omega)
      exact ⟨s', h1', Steps.trans run h2 h2', by rw [h3', h3]⟩

theorem minPass_ok (F : Nat) (hF : 256 ≤ F) (s : CE α) (hne : s.choices.length ≠ 0)
    (hF' : s.choices.length ≤ F) :
    ∃ s', minPass run F s = .ok s' ∧ Steps run s s' ∧ s'.choices.length = s.choices.length := by
  unfold minPass
  rw [if_neg hne]
  exact minLoop_ok run F hF F _ s (by omega) (by omega)

/-! ### pass 4: sort chunks -/

theorem insertSorted_length (x : UInt8) : ∀ ys : Choices, (insertSorted x ys).length = ys.length + 1
  | [] => rfl
  | y :: ys => by
    unfold insertSorted
    split
    · simp
    · simp [insertSorted_length x ys]

theorem sortAsc_length : ∀ l : Choices, (sortAsc l).length = l.length
  | [] => rfl
  | x :: xs => by simp [sortAsc, insertSorted_length, sortAsc_length xs]

theorem insertSorted_lexLe (x : UInt8) : ∀ (ys ys' : Choices), ys.length = ys'.length →
    lexLe ys ys' = true → lexLe (insertSorted x ys) (x :: ys') = true
  | [], [], _, _ => by simp [insertSorted, lexLe]
  | [], _ :: _, h, _ => by simp at h
  | _ :: _, [], h, _ => by simp at h
  | y :: ys, y' :: ys', _, h => by
    unfold insertSorted
    split
    · rw [lexLe, h]; simp
    · rename_i hxy
      simp only [lexLe, Bool.or_eq_true, decide_eq_true_eq, Bool.and_eq_true, beq_iff_eq]
      left
      simp only [UInt8.lt_iff_toNat_lt, UInt8.le_iff_toNat_le] at *; omega

/-- sorting a chunk in ascending order never makes it lexicographically larger -/
theorem sortAsc_lexLe : ∀ l : Choices, lexLe (sortAsc l) l = true
  | [] => rfl
  | x :: xs => insertSorted_lexLe x _ _ (sortAsc_length xs) (sortAsc_lexLe xs)

/-- writing `vs` at positions `a, a+1, …` (what `replace` does with a zipped range) -/
theorem applyIvs_zip_range : ∀ (vs : Choices) (a : Nat) (cs : Choices),
    a + vs.length ≤ cs.length →
    applyIvs cs ((List.range' a vs.length).zip vs) = some (cs.take a ++ vs ++ cs.drop (a + vs.length))
  | [], a, cs, _ => by simp [applyIvs]
  | v :: vs, a, cs, h => by
    simp only [List.length_cons] at h
    simp only [List.length_cons, List.range'_succ, List.zip_cons_cons, applyIvs]
    rw [if_neg (by omega)]
    rw [applyIvs_zip_range vs (a + 1) (cs.set a v) (by simp; omega)]
    congr 1
    have h1 : (cs.set a v).take (a + 1) = cs.take a ++ [v] := by
      rw [List.take_add_one, List.take_set_of_le (Nat.le_refl _)]
      simp [List.getElem?_set_self (show a < cs.length by omega)]
    have h2 : (cs.set a v).drop (a + 1 + vs.length) = cs.drop (a + (vs.length + 1)) := by
      rw [List.drop_set_of_lt (by omega)]
      congr 1; omega
    rw [h1, h2]
    simp

theorem sortIvs_lexLe (cs : Choices) (i k : Nat) (hik : k ≤ i) (hi : i ≤ cs.length) (cs' : Choices)
    (h : applyIvs cs (sortIvs cs i k) = some cs') : lexLe cs' cs = true := by
  unfold sortIvs at h
  have hlen : (sortAsc ((cs.drop (i - k)).take k)).length = k := by
    rw [sortAsc_length]; simp; omega
  have := applyIvs_zip_range (sortAsc ((cs.drop (i - k)).take k)) (i - k) cs (by rw [hlen]; omega)
  rw [hlen] at this
  rw [this] at h
  simp only [Option.some.injEq] at h
  subst h
  have hsplit : cs = cs.take (i - k) ++ (cs.drop (i - k)).take k ++ cs.drop (i - k + k) := by
    rw [List.append_assoc, ← List.drop_drop, List.take_append_drop, List.take_append_drop]
  conv => lhs; arg 2; rw [hsplit]
  rw [List.append_assoc, List.append_assoc]
  apply lexLe_append_left
  apply lexLe_append_right
  · rw [hlen]; simp; omega
  · exact sortAsc_lexLe _

theorem sortLoop_ok (k : Nat) (hk : 1 ≤ k) :
    ∀ (fuel i : Nat) (s : CE α), i < fuel → i ≤ s.choices.length →
      ∃ s', sortLoop run k fuel i s = .ok s' ∧ Steps run s s' ∧
        s'.choices.length = s.choices.length
  | 0, _, _, h, _ => by omega
  | fuel + 1, i, s, hfuel, hi => by
    unfold sortLoop
    split
    · rename_i hik
      rw [if_neg (by omega)]
      have hsteps := replace_steps run s (sortIvs s.choices i k)
        (fun cs' h => sortIvs_lexLe s.choices i k hik hi cs' h)
      have hlen := replace_length run s (sortIvs s.choices i k)
      have ⟨s', h1, h2, h3⟩ := sortLoop_ok k hk fuel (i - 1) (replace run s (sortIvs s.choices i k)).2 (by omega)
        (by rw [hlen]; omega)
      exact ⟨s', h1, Steps.trans run hsteps h2, by rw [h3, hlen]⟩
    · exact ⟨s, rfl, Steps.refl _, rfl⟩

theorem sortPass_ok (F k : Nat) (hk : 1 ≤ k) (s : CE α) (hne : s.choices.length ≠ 0)
    (hF : s.choices.length ≤ F) :
    ∃ s', sortPass run F k s = .ok s' ∧ Steps run s s' ∧ s'.choices.length = s.choices.length := by
  unfold sortPass
  rw [if_neg hne]
  exact sortLoop_ok run k hk F _ s (by omega) (by omega)

/-! ### pass 5: swap / redistribute pairs -/

theorem swap_lexLe (cs cs' : Choices) (i j : Nat) (ci cj : UInt8) (hij : i < j)
    (hci : cs[i]? = some ci) (hlt : cj < ci)
    (h : applyIvs cs [(i, cj), (j, ci)] = some cs') : lexLe cs' cs = true := by
  -- only position `i` matters
  simp only [applyIvs] at h
  split at h
  · simp at h
  · split at h
    · simp at h
    · simp only [Option.some.injEq] at h
      subst h
      rename_i hi hj
      simp only [ge_iff_le, Nat.not_le, List.length_set] at hi hj
      have hi' : ((cs.set i cj).set j ci)[i]? = some cj := by
        rw [List.getElem?_set_ne (by omega)]
        simp [List.getElem?_set_self hi]
      refine lexLe_set_lt cs _ i cj ci hci hlt (by simp) hi' ?_
      intro j' hj'
      rw [List.getElem?_set_ne (by omega), List.getElem?_set_ne (by omega)]

theorem pairLoop_ok (F k : Nat) (hF : 256 ≤ F) (hk : 1 ≤ k) :
    ∀ (fuel j : Nat) (s : CE α), j < fuel → j < s.choices.length →
      ∃ s', pairLoop run F k fuel j s = .ok s' ∧ Steps run s s' ∧
        s'.choices.length = s.choices.length
  | 0, _, _, h, _ => by omega
  | fuel + 1, j, s, hfuel, hj => by
    unfold pairLoop
    split
    · rename_i hjk
      have hgi : s.choices[j - k]? = some s.choices[j - k] := by
        simp [show j - k < s.choices.length by omega]
      have hgj : s.choices[j]? = some s.choices[j] := by simp [hj]
      dsimp only
      rw [hgi, hgj]
      simp only
      -- the swap
      have hswap : ∃ s₁, (if s.choices[j - k] > s.choices[j] then
            (replace run s [(j - k, s.choices[j]), (j, s.choices[j - k])]).2 else s) = s₁ ∧
          Steps run s s₁ ∧ s₁.choices.length = s.choices.length := by
        split
        · rename_i hgt
          exact ⟨_, rfl, replace_steps run s _ (fun cs' h =>
            swap_lexLe s.choices cs' (j - k) j _ _ (by omega) hgi hgt h), replace_length run s _⟩
        · exact ⟨s, rfl, Steps.refl _, rfl⟩
      rcases hswap with ⟨s₁, hs₁, hst₁, hlen₁⟩
      rw [hs₁]
      have hgi₁ : s₁.choices[j - k]? = some s₁.choices[j - k] := by
        simp [show j - k < s₁.choices.length by omega]
      have hgj₁ : s₁.choices[j]? = some s₁.choices[j] := by
        simp [show j < s₁.choices.length by omega]
      rw [hgi₁, hgj₁]
      simp only
      -- the redistribution
      have hred : ∃ s₂, (if (s₁.choices[j - k] > 0 && s₁.choices[j] ≤ 255 - s₁.choices[j - k]) = true
            then binarySearchReplace run (pairIvs (j - k) j s₁.choices[j - k] s₁.choices[j]) F 0
              s₁.choices[j - k] s₁
            else Res.ok s₁) = .ok s₂ ∧ Steps run s₁ s₂ ∧ s₂.choices.length = s₁.choices.length := by
        split
        · rename_i hcond
          simp only [Bool.and_eq_true, decide_eq_true_eq] at hcond
          have hok := bsOk_pair (j - k) j s₁.choices[j - k] s₁.choices[j] (by omega)
          exact binarySearchReplace_ok run hok F hF _ s₁ _ hgi₁
            (UInt8.le_iff_toNat_le.mpr (Nat.le_refl _))
            (fun cs' h => (hok _ _ _ _ h hgi₁ hcond.1).1)
        · exact ⟨s₁, rfl, Steps.refl _, rfl⟩
      rcases hred with ⟨s₂, hs₂, hst₂, hlen₂⟩
      rw [hs₂]
      simp only
      have ⟨s', h1, h2, h3⟩ := pairLoop_ok F k hF hk fuel (j - 1) s₂ (by omega) (by omega)
      exact ⟨s', h1, Steps.trans run hst₁ (Steps.trans run hst₂ h2), by rw [h3, hlen₂, hlen₁]⟩
    · exact ⟨s, rfl, Steps.refl _, rfl⟩

theorem pairPass_ok (F k : Nat) (hF : 256 ≤ F) (hk : 1 ≤ k) (s : CE α)
    (hne : s.choices.length ≠ 0) (hF' : s.choices.length ≤ F) :
    ∃ s', pairPass run F k s = .ok s' ∧ Steps run s s' ∧ s'.choices.length = s.choices.length := by
  unfold pairPass
  rw [if_neg hne]
  exact pairLoop_ok run F k hF hk F _ s (by omega) (by omega)

end AikenVerif.Shrink
