import AikenVerif.Lemmas.CekCost
/-!
The converse budget threshold: with non-negative costs, a budget that covers the remaining ledger
cost is never exhausted (the batched spending never dips below zero on the way).
-/
namespace AikenVerif
open Gen

def ExBudget.le (x y : ExBudget) : Prop := x.mem ≤ y.mem ∧ x.cpu ≤ y.cpu

/-- all prices are non-negative (true of every ledger cost model) -/
structure NonnegCosts (cm : CostModel) (sem : Sem) : Prop where
  step : ∀ i, ExBudget.le .zero (kindCost cm i)
  builtin : ∀ b args c, builtinCost cm sem b args = .ok c → ExBudget.le .zero c

theorem pendingFrom_nonneg (cm : CostModel) (sem : Sem) (h : NonnegCosts cm sem) (c : List Nat) :
    ∀ n i, ExBudget.le .zero (pendingFrom cm c n i) := by
  intro n
  induction n with
  | zero => intro i; simp [pendingFrom, ExBudget.le, ExBudget.zero]
  | succ n ih =>
    intro i
    have h1 := h.step i
    have h2 := ih (i + 1)
    simp only [pendingFrom, ExBudget.le, ExBudget.add, ExBudget.scale, ExBudget.zero] at *
    constructor
    · have := Int.mul_nonneg h1.1 (Int.natCast_nonneg (c.getD i 0)); omega
    · have := Int.mul_nonneg h1.2 (Int.natCast_nonneg (c.getD i 0)); omega

/-- the spending loop does not run out of budget when the budget covers everything it will spend -/
theorem spendLoop_no_oob (cm : CostModel) (sem : Sem) (hn : NonnegCosts cm sem) : ∀ (n i : Nat) (a : Acct),
    ExBudget.le (pendingFrom cm a.counts n i) a.budget → spendLoop cm n i a ≠ .oob := by
  intro n
  induction n with
  | zero => intro i a _ h; simp [spendLoop] at h
  | succ n ih =>
    intro i a hle
    simp only [spendLoop]
    cases hk : StepKind.ofTag i with
    | none => intro h; cases h
    | some k =>
      simp only
      cases hmc : cm.machineCost k with
      | none => intro h; cases h
      | some c =>
        simp only
        have hkc : kindCost cm i = c := by simp [kindCost, hk, hmc]
        have hrest := pendingFrom_nonneg cm sem hn a.counts n (i + 1)
        simp only [pendingFrom, hkc, ExBudget.le, ExBudget.add, ExBudget.scale, ExBudget.zero] at hle hrest
        cases hsp : spendBudget a ⟨c.mem * ((a.counts.getD i 0 : Nat) : Int), c.cpu * ((a.counts.getD i 0 : Nat) : Int)⟩ with
        | ok a1 =>
          simp only [Outcome.bind]
          obtain ⟨hb, hc, _⟩ := spendBudget_ok a a1 _ hsp
          apply ih
          simp only
          rw [pendingFrom_congr cm (a1.counts.set i 0) a.counts n (i + 1) (by
            intro j hj1 hj2
            rw [getD_set, hc]
            have : ¬ (j = i ∧ i < a.counts.length) := by omega
            simp [this])]
          simp only [ExBudget.le, hb, ExBudget.sub]
          constructor <;> omega
        | oob =>
          exfalso
          unfold spendBudget at hsp
          simp only at hsp
          split at hsp
          · rename_i hneg
            simp only [Bool.or_eq_true, decide_eq_true_eq] at hneg
            omega
          · cases hsp
        | fail => intro h; cases h
        | panic => intro h; cases h
        | unmodelled => intro h; cases h

theorem spendUnbudgeted_no_oob (cm : CostModel) (sem : Sem) (hn : NonnegCosts cm sem) (a : Acct)
    (hl : a.counts.length = 10) (hle : ExBudget.le (pending cm a) a.budget) : spendUnbudgeted cm a ≠ .oob := by
  unfold spendUnbudgeted
  have := spendLoop_no_oob cm sem hn (a.counts.length - 1) 0 a (by rw [hl]; exact hle)
  cases hs : spendLoop cm (a.counts.length - 1) 0 a with
  | ok a' => intro h; simp [Outcome.bind] at h
  | oob => exact absurd hs this
  | fail => intro h; cases h
  | panic => intro h; cases h
  | unmodelled => intro h; cases h

end AikenVerif

namespace AikenVerif
open Gen

theorem pending_after_count (cm : CostModel) (a : Acct) (k : StepKind) (hk : k ≠ .startUp) (hlen : a.counts.length = 10) :
    pendingFrom cm ((a.counts.modify k.tag (· + 1)).modify (a.counts.length - 1) (· + 1)) 9 0
      = (pending cm a).add (stepCostOf cm k) := by
  have ht : k.tag < 9 := tag_lt k hk
  rw [pendingFrom_congr cm _ (a.counts.modify k.tag (· + 1)) 9 0 (by
    intro j _ hj
    rw [getD_modify]
    have : ¬ (j = a.counts.length - 1 ∧ a.counts.length - 1 < (a.counts.modify k.tag (· + 1)).length) := by
      simp [hlen]; omega
    simp only [this, if_false])]
  rw [pendingFrom_bump cm a.counts k.tag (by omega) 9 0]
  have : (0 ≤ k.tag ∧ k.tag < 0 + 9) := by omega
  simp only [this, if_true, and_self, kindCost_tag cm k hk, pending]

theorem stepAndMaybeSpend_no_oob (cfg : Config) (hn : NonnegCosts cfg.costs cfg.sem) (a : Acct) (k : StepKind)
    (hk : k ≠ .startUp) (hi : AcctInv cfg.costs a) (hle : ExBudget.le (stepCostOf cfg.costs k) (eff cfg.costs a)) :
    stepAndMaybeSpend cfg a k ≠ .oob := by
  unfold stepAndMaybeSpend
  simp only
  split
  · apply spendUnbudgeted_no_oob cfg.costs cfg.sem hn
    · simp [hi.len]
    · simp only [pending]
      rw [pending_after_count cfg.costs a k hk hi.len]
      simp only [ExBudget.le, eff, ExBudget.sub, ExBudget.add] at hle ⊢
      constructor <;> omega
  · intro h; cases h

theorem evalBuiltinApp_no_oob (cfg : Config) (hn : NonnegCosts cfg.costs cfg.sem) (a : Acct) (b : Builtin)
    (args : List Value) (hi : AcctInv cfg.costs a)
    (hle : ∀ c, builtinCost cfg.costs cfg.sem b args = .ok c → ExBudget.le c (eff cfg.costs a)) :
    evalBuiltinApp cfg a b args ≠ .oob := by
  unfold evalBuiltinApp
  cases hc : builtinCost cfg.costs cfg.sem b args with
  | ok c =>
    simp only [Outcome.ofRes, Outcome.bind_ok']
    have hp := pendingFrom_nonneg cfg.costs cfg.sem hn a.counts 9 0
    have hl := hle c hc
    simp only [ExBudget.le, eff, pending, ExBudget.sub, ExBudget.zero] at hl hp
    cases hs : spendBudget a c with
    | ok a' =>
      simp only [Outcome.bind_ok']
      cases callBuiltin cfg.sem b args <;> simp [Outcome.ofRes]
    | oob =>
      exfalso
      unfold spendBudget at hs
      simp only at hs
      split at hs
      · rename_i hneg
        simp only [Bool.or_eq_true, decide_eq_true_eq] at hneg
        omega
      · cases hs
    | fail => intro h; cases h
    | panic => intro h; cases h
    | unmodelled => intro h; cases h
  | err => simp [Outcome.ofRes]
  | panic => simp [Outcome.ofRes]
  | unmodelled => simp [Outcome.ofRes]

theorem ofOutcome_ne_oob {o : Outcome (Acct × State)} (h : o ≠ .oob) : StepResult.ofOutcome o ≠ .oob := by
  cases o with
  | ok p => obtain ⟨a, s⟩ := p; intro h'; cases h'
  | oob => exact absurd rfl h
  | fail => intro h'; cases h'
  | panic => intro h'; cases h'
  | unmodelled => intro h'; cases h'

theorem applyEvaluate_no_oob (cfg : Config) (hn : NonnegCosts cfg.costs cfg.sem) (a : Acct) (ctx : Ctx)
    (fn arg : Value) (hi : AcctInv cfg.costs a)
    (hle : ExBudget.le (applyCharge cfg.costs cfg.sem fn arg) (eff cfg.costs a)) :
    applyEvaluate cfg a ctx fn arg ≠ .oob := by
  cases fn with
  | lam _ _ _ => simp [applyEvaluate]
  | builtin b forces args =>
    simp only [applyEvaluate, applyCharge] at hle ⊢
    by_cases hc : (decide (args.length ≠ b.arity) && !decide (forces < b.forceCount)) = true
    · simp only [hc, if_true] at hle ⊢
      by_cases hl : (args ++ [arg]).length = b.arity
      · simp only [hl, if_true] at hle ⊢
        have := evalBuiltinApp_no_oob cfg hn a b (args ++ [arg]) hi (by
          intro c hcost; rw [hcost] at hle; exact hle)
        cases he : evalBuiltinApp cfg a b (args ++ [arg]) with
        | ok p => simp
        | oob => exact absurd he this
        | fail => simp
        | panic => simp
        | unmodelled => simp
      · simp only [hl, if_false]; intro h; cases h
    · simp only [hc, if_false, Bool.false_eq_true]; intro h; cases h
  | con _ => simp [applyEvaluate]
  | delay _ _ => simp [applyEvaluate]
  | constr _ _ => simp [applyEvaluate]

theorem forceEvaluate_no_oob (cfg : Config) (hn : NonnegCosts cfg.costs cfg.sem) (a : Acct) (ctx : Ctx)
    (v : Value) (hi : AcctInv cfg.costs a)
    (hle : ExBudget.le (forceCharge cfg.costs cfg.sem v) (eff cfg.costs a)) :
    forceEvaluate cfg a ctx v ≠ .oob := by
  cases v with
  | delay _ _ => simp [forceEvaluate]
  | builtin b forces args =>
    simp only [forceEvaluate, forceCharge] at hle ⊢
    by_cases hf : forces < b.forceCount
    · simp only [hf, if_true] at hle ⊢
      by_cases hl : args.length = b.arity
      · simp only [hl, if_true] at hle ⊢
        have := evalBuiltinApp_no_oob cfg hn a b args hi (by
          intro c hcost; rw [hcost] at hle; exact hle)
        cases he : evalBuiltinApp cfg a b args with
        | ok p => simp
        | oob => exact absurd he this
        | fail => simp
        | panic => simp
        | unmodelled => simp
      · simp only [hl, if_false]; intro h; cases h
    · simp only [hf, if_false]; intro h; cases h
  | con _ => simp [forceEvaluate]
  | lam _ _ _ => simp [forceEvaluate]
  | constr _ _ => simp [forceEvaluate]

end AikenVerif

namespace AikenVerif
open Gen

theorem stepCharge_nonneg (cm : CostModel) (sem : Sem) (hn : NonnegCosts cm sem) (s : State) :
    ExBudget.le .zero (stepCharge cm sem s) := by
  have hz : ExBudget.le .zero .zero := by simp [ExBudget.le, ExBudget.zero]
  have happ : ∀ fn arg, ExBudget.le .zero (applyCharge cm sem fn arg) := by
    intro fn arg
    cases fn with
    | builtin b forces args =>
      simp only [applyCharge]
      split
      · split
        · cases hc : builtinCost cm sem b (args ++ [arg]) with
          | ok c => exact hn.builtin b _ c hc
          | err => exact hz
          | panic => exact hz
          | unmodelled => exact hz
        · exact hz
      · exact hz
    | con _ => exact hz
    | delay _ _ => exact hz
    | lam _ _ _ => exact hz
    | constr _ _ => exact hz
  cases s with
  | compute ctx env t =>
    simp only [stepCharge]
    cases hk : termKind t with
    | none => exact hz
    | some k =>
      have := hn.step k.tag
      rw [kindCost_tag cm k (termKind_ne_startUp t k hk)] at this
      exact this
  | ret ctx v =>
    cases ctx with
    | nil => exact hz
    | cons fr ctx =>
      cases fr with
      | awaitArg fn => exact happ fn v
      | awaitFunValue arg => exact happ v arg
      | force =>
        simp only [stepCharge]
        cases v with
        | builtin b forces args =>
          simp only [forceCharge]
          split
          · split
            · cases hc : builtinCost cm sem b args with
              | ok c => exact hn.builtin b _ c hc
              | err => exact hz
              | panic => exact hz
              | unmodelled => exact hz
            · exact hz
          · exact hz
        | con _ => exact hz
        | delay _ _ => exact hz
        | lam _ _ _ => exact hz
        | constr _ _ => exact hz
      | awaitFunTerm _ _ => exact hz
      | constr _ _ _ _ => exact hz
      | cases _ _ => exact hz

/-- one transition does not exhaust a budget that covers its ledger charge -/
theorem step_no_oob (cfg : Config) (hn : NonnegCosts cfg.costs cfg.sem) (a : Acct) (s : State)
    (hi : AcctInv cfg.costs a) (hle : ExBudget.le (stepCharge cfg.costs cfg.sem s) (eff cfg.costs a)) :
    step cfg a s ≠ .oob := by
  cases s with
  | compute ctx env t =>
    simp only [step]
    apply ofOutcome_ne_oob
    -- the charge, then a cost-free action
    have hcharge : chargeStep cfg a (termKind t) ≠ .oob := by
      cases hk : termKind t with
      | none => simp [chargeStep]
      | some k =>
        simp only [chargeStep]
        apply stepAndMaybeSpend_no_oob cfg hn a k (termKind_ne_startUp t k hk) hi
        simpa [stepCharge, hk, optStepCost] using hle
    cases t with
    | var n =>
      simp only [computeStep]
      change (chargeStep cfg a (termKind (.var n)) >>= _) ≠ .oob
      cases hcs : chargeStep cfg a (termKind (.var n)) with
      | ok a1 => simp only [Outcome.bind_ok']; rw [lookupVar_eq]; cases Spec.lookup env n.index <;> simp
      | oob => exact absurd hcs hcharge
      | fail => simp
      | panic => simp
      | unmodelled => simp
    | delay body =>
      simp only [computeStep]
      change (chargeStep cfg a (termKind (.delay body)) >>= _) ≠ .oob
      cases hcs : chargeStep cfg a (termKind (.delay body)) with
      | ok a1 => simp
      | oob => exact absurd hcs hcharge
      | fail => simp
      | panic => simp
      | unmodelled => simp
    | lam n body =>
      simp only [computeStep]
      change (chargeStep cfg a (termKind (.lam n body)) >>= _) ≠ .oob
      cases hcs : chargeStep cfg a (termKind (.lam n body)) with
      | ok a1 => simp
      | oob => exact absurd hcs hcharge
      | fail => simp
      | panic => simp
      | unmodelled => simp
    | app f x =>
      simp only [computeStep]
      change (chargeStep cfg a (termKind (.app f x)) >>= _) ≠ .oob
      cases hcs : chargeStep cfg a (termKind (.app f x)) with
      | ok a1 => simp
      | oob => exact absurd hcs hcharge
      | fail => simp
      | panic => simp
      | unmodelled => simp
    | const c =>
      simp only [computeStep]
      change (chargeStep cfg a (termKind (.const c)) >>= _) ≠ .oob
      cases hcs : chargeStep cfg a (termKind (.const c)) with
      | ok a1 => simp
      | oob => exact absurd hcs hcharge
      | fail => simp
      | panic => simp
      | unmodelled => simp
    | force body =>
      simp only [computeStep]
      change (chargeStep cfg a (termKind (.force body)) >>= _) ≠ .oob
      cases hcs : chargeStep cfg a (termKind (.force body)) with
      | ok a1 => simp
      | oob => exact absurd hcs hcharge
      | fail => simp
      | panic => simp
      | unmodelled => simp
    | error =>
      simp only [computeStep]
      change (chargeStep cfg a (termKind .error) >>= _) ≠ .oob
      cases hcs : chargeStep cfg a (termKind .error) with
      | ok a1 => simp
      | oob => exact absurd hcs hcharge
      | fail => simp
      | panic => simp
      | unmodelled => simp
    | builtin b =>
      simp only [computeStep]
      change (chargeStep cfg a (termKind (.builtin b)) >>= _) ≠ .oob
      cases hcs : chargeStep cfg a (termKind (.builtin b)) with
      | ok a1 => simp
      | oob => exact absurd hcs hcharge
      | fail => simp
      | panic => simp
      | unmodelled => simp
    | constr tag fields =>
      simp only [computeStep]
      change (chargeStep cfg a (termKind (.constr tag fields)) >>= _) ≠ .oob
      cases hcs : chargeStep cfg a (termKind (.constr tag fields)) with
      | ok a1 => cases fields <;> simp
      | oob => exact absurd hcs hcharge
      | fail => simp
      | panic => simp
      | unmodelled => simp
    | case scrut branches =>
      simp only [computeStep]
      change (chargeStep cfg a (termKind (.case scrut branches)) >>= _) ≠ .oob
      cases hcs : chargeStep cfg a (termKind (.case scrut branches)) with
      | ok a1 => simp
      | oob => exact absurd hcs hcharge
      | fail => simp
      | panic => simp
      | unmodelled => simp
  | ret ctx v =>
    cases ctx with
    | nil =>
      simp only [step]
      have hno : (if a.counts.getD (a.counts.length - 1) 0 > 0 then spendUnbudgeted cfg.costs a else Outcome.ok a) ≠ .oob := by
        split
        · apply spendUnbudgeted_no_oob cfg.costs cfg.sem hn a hi.len
          simp only [stepCharge, ExBudget.le, eff, ExBudget.sub, ExBudget.zero] at hle ⊢
          constructor <;> omega
        · intro h; cases h
      revert hno
      generalize (if a.counts.getD (a.counts.length - 1) 0 > 0 then spendUnbudgeted cfg.costs a else Outcome.ok a) = fl
      intro hno
      cases fl with
      | ok a' => intro h; cases h
      | oob => exact absurd rfl hno
      | fail => intro h; cases h
      | panic => intro h; cases h
      | unmodelled => intro h; cases h
    | cons fr ctx =>
      simp only [step]
      apply ofOutcome_ne_oob
      cases fr with
      | force => exact forceEvaluate_no_oob cfg hn a ctx v hi hle
      | awaitArg fn => exact applyEvaluate_no_oob cfg hn a ctx fn v hi hle
      | awaitFunValue arg => exact applyEvaluate_no_oob cfg hn a ctx v arg hi hle
      | awaitFunTerm _ _ => simp [returnStep]
      | constr env tag todo done => cases todo <;> simp [returnStep]
      | cases env branches =>
        simp only [returnStep]
        cases v with
        | constr tag fields => dsimp only; cases branches[tag]? <;> simp
        | con c =>
          dsimp only
          split
          · simp
          · split
            · simp
            · split
              · simp
              · split <;> simp
        | delay _ _ => simp
        | lam _ _ _ => simp
        | builtin _ _ _ => simp

end AikenVerif

namespace AikenVerif
open Gen

theorem saturate_ne_done (den : Builtin → List Value → Res Value) (ctx : Ctx) (b : Builtin) (forces : Nat)
    (args : List Value) (t : NTerm) : Spec.saturate den ctx b forces args ≠ .done t := by
  unfold Spec.saturate
  split
  · cases den b args <;> (intro h; cases h)
  · intro h; cases h

theorem applyValue_ne_done (den : Builtin → List Value → Res Value) (ctx : Ctx) (fn arg : Value) (t : NTerm) :
    Spec.applyValue den ctx fn arg ≠ .done t := by
  cases fn with
  | lam _ _ _ => intro h; cases h
  | builtin b forces args =>
    simp only [Spec.applyValue]
    split
    · exact saturate_ne_done den ctx b forces _ t
    · intro h; cases h
  | con _ => intro h; cases h
  | delay _ _ => intro h; cases h
  | constr _ _ => intro h; cases h

/-- the specification's machine finishes only from `ret [] v` -/
theorem spec_step_done (sem : Sem) (den : Builtin → List Value → Res Value) (s : State) (t : NTerm)
    (h : Spec.step sem den s = .done t) : ∃ v, s = .ret [] v := by
  cases s with
  | compute ctx env tm =>
    exfalso
    cases tm with
    | var n => simp only [Spec.step] at h; split at h <;> cases h
    | const _ => cases h
    | lam _ _ => cases h
    | delay _ => cases h
    | force _ => cases h
    | app _ _ => cases h
    | constr tag fs => cases fs <;> cases h
    | case _ _ => cases h
    | builtin _ => cases h
    | error => cases h
  | ret ctx v =>
    cases ctx with
    | nil => exact ⟨v, rfl⟩
    | cons fr ctx =>
      exfalso
      cases fr with
      | awaitFunTerm _ _ => cases h
      | awaitArg fn => exact applyValue_ne_done den ctx fn v t h
      | awaitFunValue arg => exact applyValue_ne_done den ctx v arg t h
      | force =>
        cases v with
        | delay _ _ => cases h
        | builtin b forces args =>
          simp only [Spec.step] at h
          split at h
          · exact saturate_ne_done den ctx b _ args t h
          · cases h
        | con _ => cases h
        | lam _ _ _ => cases h
        | constr _ _ => cases h
      | constr env tag todo done => cases todo <;> cases h
      | cases env branches =>
        cases v with
        | constr tag fields =>
          simp only [Spec.step] at h
          split at h <;> cases h
        | con c =>
          simp only [Spec.step] at h
          split at h
          · split at h <;> cases h
          · cases h
        | delay _ _ => cases h
        | lam _ _ _ => cases h
        | builtin _ _ _ => cases h

end AikenVerif
