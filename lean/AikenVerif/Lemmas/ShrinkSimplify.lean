import AikenVerif.Lemmas.ShrinkLoops
/-!
`onePass`, the outer loop, `simplify`; the cache lemmas; the invariants carried along `Steps`.
-/
set_option linter.unusedSimpArgs false
namespace AikenVerif.Shrink

variable {α : Type} (run : Choices → Status α)

/-! ### one pass, the outer loop -/

theorem onePass_ok (F : Nat) (hF : 256 ≤ F) (s : CE α) (hF' : 2 * s.choices.length < F) :
    ∃ s', onePass run F s = .ok s' ∧ Steps run s s' := by
  unfold onePass
  have ⟨s1, e1, st1⟩ := deletePass_ok run F 8 (by omega) s hF'
  have l1 := Steps.length_le run st1
  have ⟨s2, e2, st2⟩ := deletePass_ok run F 4 (by omega) s1 (by omega)
  have l2 := Steps.length_le run st2
  have ⟨s3, e3, st3⟩ := deletePass_ok run F 2 (by omega) s2 (by omega)
  have l3 := Steps.length_le run st3
  have ⟨s4, e4, st4⟩ := deletePass_ok run F 1 (by omega) s3 (by omega)
  have l4 := Steps.length_le run st4
  have st04 : Steps run s s4 :=
    Steps.trans run st1 (Steps.trans run st2 (Steps.trans run st3 st4))
  rw [e1]; simp only [Res.bind]
  rw [e2]; simp only [Res.bind]
  rw [e3]; simp only [Res.bind]
  rw [e4]; simp only [Res.bind]
  split
  · exact ⟨s4, rfl, st04⟩
  · rename_i hne
    have hne : s4.choices.length ≠ 0 := by
      intro h; apply hne; simp [List.isEmpty_iff, List.eq_nil_of_length_eq_zero h]
    have ⟨z1, f1, t1, m1⟩ := zeroPass_ok run F 8 (by omega) s4 (by omega)
    have ⟨z2, f2, t2, m2⟩ := zeroPass_ok run F 4 (by omega) z1 (by omega)
    have ⟨z3, f3, t3, m3⟩ := zeroPass_ok run F 2 (by omega) z2 (by omega)
    have ⟨z4, f4, t4, m4⟩ := minPass_ok run F hF z3 (by omega) (by omega)
    have ⟨z5, f5, t5, m5⟩ := sortPass_ok run F 8 (by omega) z4 (by omega) (by omega)
    have ⟨z6, f6, t6, m6⟩ := sortPass_ok run F 4 (by omega) z5 (by omega) (by omega)
    have ⟨z7, f7, t7, m7⟩ := sortPass_ok run F 2 (by omega) z6 (by omega) (by omega)
    have ⟨z8, f8, t8, m8⟩ := pairPass_ok run F 2 hF (by omega) z7 (by omega) (by omega)
    have ⟨z9, f9, t9, _⟩ := pairPass_ok run F 1 hF (by omega) z8 (by omega) (by omega)
    rw [f1]; simp only [Res.bind]
    rw [f2]; simp only [Res.bind]
    rw [f3]; simp only [Res.bind]
    rw [f4]; simp only [Res.bind]
    rw [f5]; simp only [Res.bind]
    rw [f6]; simp only [Res.bind]
    rw [f7]; simp only [Res.bind]
    rw [f8]; simp only [Res.bind]
    refine ⟨z9, f9, ?_⟩
    exact Steps.trans run st04 (Steps.trans run t1 (Steps.trans run t2 (Steps.trans run t3
      (Steps.trans run t4 (Steps.trans run t5 (Steps.trans run t6 (Steps.trans run t7
      (Steps.trans run t8 t9))))))))

theorem simplifyLoop_ok (F : Nat) (hF : 256 ≤ F) :
    ∀ (fuel : Nat) (s : CE α), shortlexRank s.choices < fuel → 2 * s.choices.length < F →
      ∃ s', simplifyLoop run F fuel s = .ok s' ∧ Steps run s s'
  | 0, _, h, _ => by omega
  | fuel + 1, s, hfuel, hF' => by
    unfold simplifyLoop
    have ⟨s₁, e1, st1⟩ := onePass_ok run F hF s hF'
    rw [e1]
    simp only
    split
    · exact ⟨s₁, rfl, st1⟩
    · rename_i hne
      have hle := Steps.le run st1
      have hlt := shortlexRank_lt hle (fun h => hne h.symm)
      have hlen := Steps.length_le run st1
      have ⟨s', e2, st2⟩ := simplifyLoop_ok F hF fuel s₁ (by omega) (by omega)
      exact ⟨s', e2, Steps.trans run st1 st2⟩

/-- `simplify` ends (no `outOfFuel`, no `panic`) with any fuel `≥ fuelBound`, and is a `Steps` -/
theorem simplify_ok (F : Nat) (s : CE α) (hF : fuelBound s.choices ≤ F) :
    ∃ s', simplify run F s = .ok s' ∧ Steps run s s' := by
  unfold fuelBound at hF
  exact simplifyLoop_ok run F (by omega) F s (by omega) (by omega)

/-! ### the cache -/

/-- every stored answer is what `run` answers on the stored key -/
def DbSound (c : Cache α) : Prop := ∀ k st, (k, st) ∈ c.db → st = run k

/-- what the cache's longest-common-prefix rule relies on: a sequence on which the fuzzer did not
run out of (or reject) choices gives the same outcome however it is extended -/
def PrefixStable : Prop := ∀ p s : Choices, (run p).isInvalid = false → run (p ++ s) = run p

theorem longestPrefix_mem : ∀ (db : List (Choices × Status α)) (c k : Choices) (st : Status α),
    longestPrefix db c = some (k, st) → (k, st) ∈ db ∧ k.isPrefixOf c = true
  | [], _, _, _, h => by simp [longestPrefix] at h
  | (k₀, s₀) :: rest, c, k, st, h => by
    unfold longestPrefix at h
    split at h
    · rename_i k' s' hrec
      have ih := longestPrefix_mem rest c k' s' hrec
      split at h
      · rename_i hc
        simp only [Option.some.injEq, Prod.mk.injEq] at h
        simp only [Bool.and_eq_true] at hc
        rw [← h.1, ← h.2]
        exact ⟨by simp, hc.1⟩
      · simp only [Option.some.injEq, Prod.mk.injEq] at h
        rw [← h.1, ← h.2]
        exact ⟨by simp [ih.1], ih.2⟩
    · split at h
      · rename_i hc
        simp only [Option.some.injEq, Prod.mk.injEq] at h
        rw [← h.1, ← h.2]
        exact ⟨by simp, hc⟩
      · simp at h

theorem miss_mem (c : Cache α) (x k : Choices) (st : Status α)
    (h : (k, st) ∈ (c.miss run x).2.db) : (k, st) ∈ c.db ∨ (k = x ∧ st = run x) := by
  unfold Cache.miss at h
  simp only [List.mem_cons, Prod.mk.injEq, List.mem_filter] at h
  rcases h with h | ⟨h, _⟩
  · exact Or.inr h
  · left
    split at h
    · exact h
    · exact (List.mem_filter.mp h).1

theorem get_mem (c : Cache α) (x k : Choices) (st : Status α)
    (h : (k, st) ∈ (c.get run x).2.db) :
    (k, st) ∈ c.db ∨ (k = x ∧ st = run x ∧ (c.get run x).1 = run x) := by
  unfold Cache.get at h ⊢
  split at h
  · split at h
    · exact Or.inl h
    · rename_i hcond
      rcases miss_mem run c x k st h with h | h
      · exact Or.inl h
      · right; rw [if_neg hcond]; exact ⟨h.1, h.2, rfl⟩
  · rcases miss_mem run c x k st h with h | h
    · exact Or.inl h
    · right; exact ⟨h.1, h.2, rfl⟩

/-- soundness of the stored answers is kept by `get`, for every `run` -/
theorem get_sound (c : Cache α) (x : Choices) (hs : DbSound run c) :
    DbSound run (c.get run x).2 := by
  intro k st h
  rcases get_mem run c x k st h with h | ⟨h1, h2, _⟩
  · exact hs k st h
  · rw [h2, h1]

/-- `cache_transparent`: with a prefix-stable `run`, `get` answers what `run` answers -/
theorem get_fst_of_stable (hps : PrefixStable run) (c : Cache α) (x : Choices)
    (hs : DbSound run c) : (c.get run x).1 = run x := by
  unfold Cache.get
  split
  · rename_i p st hlp
    have ⟨hmem, hpre⟩ := longestPrefix_mem c.db x p st hlp
    have hst := hs p st hmem
    split
    · rename_i hcond
      simp only [Bool.or_eq_true, Bool.not_eq_eq_eq_not, Bool.not_true, beq_iff_eq] at hcond
      rcases hcond with hcond | hcond
      · rw [List.isPrefixOf_iff_prefix] at hpre
        rcases hpre with ⟨t, ht⟩
        rw [← ht, hps p t (by rw [← hst]; exact hcond)]
        exact hst
      · rw [← hcond]; exact hst
    · rfl
  · rfl

/-- without prefix stability: a `Keep` answer for a query no longer than every stored `Keep` key
is still `run`'s answer -/
theorem get_keep_of_long (c : Cache α) (x : Choices) (n : Nat) (hs : DbSound run c)
    (hlong : ∀ k v, (k, Status.keep v) ∈ c.db → n ≤ k.length) (hx : x.length ≤ n) (v : α)
    (h : (c.get run x).1 = .keep v) : run x = .keep v := by
  unfold Cache.get at h
  split at h
  · rename_i p st hlp
    have ⟨hmem, hpre⟩ := longestPrefix_mem c.db x p st hlp
    split at h
    · simp only at h
      subst h
      have hn := hlong p v hmem
      rw [List.isPrefixOf_iff_prefix] at hpre
      have hpx : p = x := by
        apply List.IsPrefix.eq_of_length_le hpre
        omega
      rw [← hpx]
      exact (hs p _ hmem).symm
    · exact h
  · exact h

/-! ### invariants along `Steps` -/

/-- the state is "real": the stored answers are sound and the current pair falsifies the property -/
def Real (s : CE α) : Prop := DbSound run s.cache ∧ run s.choices = .keep s.value

theorem consider_real (hps : PrefixStable run) (s : CE α) (c : Choices) (h : Real run s) :
    Real run (consider run s c).2 := by
  unfold consider
  split
  · exact h
  · have h1 := get_fst_of_stable run hps s.cache c h.1
    have h2 := get_sound run s.cache c h.1
    rcases hg : s.cache.get run c with ⟨st, cache⟩
    rw [hg] at h1 h2
    simp only at h1 h2
    cases st with
    | keep v =>
      simp only
      split
      · exact ⟨h2, h1.symm⟩
      · exact ⟨h2, h.2⟩
    | ignore => exact ⟨h2, h.2⟩
    | invalid => exact ⟨h2, h.2⟩

theorem Steps.real (hps : PrefixStable run) {s t : CE α} (h : Steps run s t) (hr : Real run s) :
    Real run t := by
  induction h with
  | refl => exact hr
  | step s c t _ _ ih => exact ih (consider_real run hps s c hr)

/-- the stronger invariant that needs no hypothesis on `run`: every stored `Keep` key is at least
as long as the current choices (because a `Keep` answer is always accepted by `simplify`) -/
def KeepLong (s : CE α) : Prop :=
  ∀ k v, (k, Status.keep v) ∈ s.cache.db → s.choices.length ≤ k.length

def Real' (s : CE α) : Prop := DbSound run s.cache ∧ KeepLong s ∧ run s.choices = .keep s.value

theorem consider_real' (s : CE α) (c : Choices) (hc : c.length ≤ s.choices.length)
    (h : Real' run s) : Real' run (consider run s c).2 := by
  unfold consider
  split
  · exact h
  · have h2 := get_sound run s.cache c h.1
    have h3 := get_keep_of_long run s.cache c s.choices.length h.1 h.2.1 hc
    have h4 := get_mem run s.cache c
    rcases hg : s.cache.get run c with ⟨st, cache⟩
    rw [hg] at h2 h3 h4
    simp only at h2 h3 h4
    have hold : ∀ st', (∀ v, st' ≠ Status.keep v) → st = st' →
        Real' run { s with cache := cache } := by
      intro st' hst' hst
      refine ⟨h2, ?_, h.2.2⟩
      intro k v hk
      rcases h4 k (.keep v) hk with hk | ⟨_, hk1, hk2⟩
      · exact h.2.1 k v hk
      · rw [← hk1] at hk2; rw [hst] at hk2; exact absurd hk2 (hst' v)
    cases st with
    | keep v =>
      simp only
      rw [if_pos (by simp [hc])]
      refine ⟨h2, ?_, h3 v rfl⟩
      intro k v' hk
      simp only
      rcases h4 k (.keep v') hk with hk | ⟨hk, _, _⟩
      · exact Nat.le_trans hc (h.2.1 k v' hk)
      · rw [hk]; exact Nat.le_refl _
    | ignore => exact hold .ignore (by simp) rfl
    | invalid => exact hold .invalid (by simp) rfl

theorem Steps.real' {s t : CE α} (h : Steps run s t) (hr : Real' run s) : Real' run t := by
  induction h with
  | refl => exact hr
  | step s c t hc _ ih => exact ih (consider_real' run s c (shortlexLe_length hc) hr)

end AikenVerif.Shrink
