import AikenVerif.Model.Mini
/-!
Lemmas about the MiniAiken source semantics: the writer-style `bind`, fuel monotonicity of
`eval` / `evalList`, and the relation used by the trace-erasure theorem (C14).
-/
namespace AikenVerif.Mini

-- ---------------------------------------------------------------- bind
@[simp] theorem bind_val {α β} (a : α) (l : List Val) (f : α → M β) :
    bind (Outcome.val a, l) f = ((f a).1, l ++ (f a).2) := rfl
@[simp] theorem bind_abort {α β} (l : List Val) (f : α → M β) :
    bind ((Outcome.abort : Outcome α), l) f = (Outcome.abort, l) := rfl
@[simp] theorem bind_oof {α β} (l : List Val) (f : α → M β) :
    bind ((Outcome.outOfFuel : Outcome α), l) f = (Outcome.outOfFuel, l) := rfl
@[simp] theorem bind_stuck {α β} (l : List Val) (f : α → M β) :
    bind ((Outcome.stuck : Outcome α), l) f = (Outcome.stuck, l) := rfl

/-- `x ⊑ y`: if `x` did not run out of fuel then `y` is the very same result -/
def Le {α} (x y : M α) : Prop := x.1 ≠ Outcome.outOfFuel → x = y

theorem Le.refl {α} (x : M α) : Le x x := fun _ => rfl

theorem Le_oof {α} (l : List Val) (y : M α) : Le ((Outcome.outOfFuel : Outcome α), l) y :=
  fun h => absurd rfl h

theorem Le_bind {α β} {x y : M α} {f g : α → M β} (h : Le x y) (hf : ∀ a, Le (f a) (g a)) :
    Le (bind x f) (bind y g) := by
  obtain ⟨o, l⟩ := x
  cases o with
  | val a =>
    intro hne
    have hxy : ((Outcome.val a, l) : M α) = y := h (by simp)
    subst hxy
    simp only [bind_val] at hne ⊢
    have := hf a hne
    rw [this]
  | abort =>
    intro _
    have hxy : ((Outcome.abort, l) : M α) = y := h (by simp)
    subst hxy
    rfl
  | outOfFuel => intro hne; simp at hne
  | stuck =>
    intro _
    have hxy : ((Outcome.stuck, l) : M α) = y := h (by simp)
    subst hxy
    rfl

/-- one more unit of fuel never changes a finished evaluation -/
theorem eval_mono_step (P : Program) (m : Mode) :
    ∀ n, (∀ env e, Le (eval P m n env e) (eval P m (n + 1) env e)) ∧
         (∀ env es, Le (evalList P m n env es) (evalList P m (n + 1) env es)) := by
  intro n
  induction n with
  | zero =>
    refine ⟨fun env e => ?_, fun env es => ?_⟩
    · simp only [eval]; exact Le_oof _ _
    · simp only [evalList]; exact Le_oof _ _
  | succ n ih =>
    obtain ⟨ihE, ihL⟩ := ih
    refine ⟨fun env e => ?_, fun env es => ?_⟩
    · cases e with
      | lit l => simp only [eval]; exact Le.refl _
      | var x => simp only [eval]; exact Le.refl _
      | letE x used a b =>
        simp only [eval]
        cases used
        · simp only [Bool.false_eq_true, if_false]; exact ihE _ _
        · simp only [if_true]
          exact Le_bind (ihE _ _) (fun v => ihE _ _)
      | ite c t f =>
        simp only [eval]
        refine Le_bind (ihE _ _) (fun v => ?_)
        cases v with
        | bool b => cases b <;> exact ihE _ _
        | _ => exact Le.refl _
      | and a b =>
        simp only [eval]
        refine Le_bind (ihE _ _) (fun v => ?_)
        cases v with
        | bool b =>
          cases b
          · exact Le.refl _
          · exact ihE _ _
        | _ => exact Le.refl _
      | or a b =>
        simp only [eval]
        refine Le_bind (ihE _ _) (fun v => ?_)
        cases v with
        | bool b =>
          cases b
          · exact ihE _ _
          · exact Le.refl _
        | _ => exact Le.refl _
      | un op a =>
        simp only [eval]
        exact Le_bind (ihE _ _) (fun v => Le.refl _)
      | bin op a b =>
        simp only [eval]
        exact Le_bind (ihE _ _) (fun x => Le_bind (ihE _ _) (fun y => Le.refl _))
      | tuple es => simp only [eval]; exact Le_bind (ihL _ _) (fun vs => Le.refl _)
      | list es => simp only [eval]; exact Le_bind (ihL _ _) (fun vs => Le.refl _)
      | con tag es => simp only [eval]; exact Le_bind (ihL _ _) (fun vs => Le.refl _)
      | call f es =>
        simp only [eval]
        refine Le_bind (ihL _ _) (fun vs => ?_)
        split
        · split
          · exact ihE _ _
          · exact Le.refl _
        · exact Le.refl _
      | lam i => simp only [eval]; exact Le.refl _
      | app f es =>
        simp only [eval]
        refine Le_bind (ihE _ _) (fun fv => Le_bind (ihL _ _) (fun vs => ?_))
        cases fv with
        | clo i cenv =>
          simp only
          split
          · split
            · exact ihE _ _
            · exact Le.refl _
          · exact Le.refl _
        | fn g =>
          simp only
          split
          · split
            · exact ihE _ _
            · exact Le.refl _
          · exact Le.refl _
        | _ => exact Le.refl _
      | fnref f => simp only [eval]; exact Le.refl _
      | «when» s cs =>
        simp only [eval]
        refine Le_bind (ihE _ _) (fun v => ?_)
        split
        · exact ihE _ _
        · exact Le.refl _
      | fail t => simp only [eval]; exact Le.refl _
      | expect p a b =>
        simp only [eval]
        refine Le_bind (ihE _ _) (fun v => ?_)
        split
        · exact ihE _ _
        · exact Le.refl _
      | trace label args body =>
        simp only [eval]
        cases m with
        | silent => exact ihE _ _
        | compact =>
          exact Le_bind (ihE _ _) (fun lv => Le_bind (Le.refl _) (fun _ => ihE _ _))
        | verbose =>
          exact Le_bind (ihE _ _) (fun lv => Le_bind (ihL _ _) (fun avs =>
            Le_bind (Le.refl _) (fun _ => ihE _ _)))
      | traceIfFalse a =>
        simp only [eval]
        exact Le_bind (ihE _ _) (fun v => Le.refl _)
    · cases es with
      | nil => simp only [evalList]; exact Le.refl _
      | cons e es =>
        simp only [evalList]
        exact Le_bind (ihE _ _) (fun v => Le_bind (ihL _ _) (fun vs => Le.refl _))

theorem eval_mono (P : Program) (m : Mode) (n k : Nat) (env : Env) (e : Expr) :
    Le (eval P m n env e) (eval P m (n + k) env e) := by
  induction k with
  | zero => exact Le.refl _
  | succ k ih =>
    intro hne
    have h1 := ih hne
    have h2 := (eval_mono_step P m (n + k)).1 env e (by rw [← h1]; exact hne)
    rw [h1]; exact h2

end AikenVerif.Mini
