import AikenVerif.Model.Prec
/-!
Helper lemmas for C13: the printer's parenthesisation expressed through tower heights,
operand chains of one level, the generic `repeated()` lemma, lifting through the tower.
-/
namespace AikenVerif.Prec
open AikenVerif.Gen.Prec

/-! ## table facts (generated tables; each closed by case analysis) -/

/-- `op.precedence > op'.precedence` (formatter: parenthesise the operand that is not decremented)
    says exactly: `op'` is produced strictly lower (looser) in the parser tower -/
theorem table_gt (op op' : BinOp) : op.precedence > op'.precedence ↔ op'.tower + 1 > op.tower + 1 := by
  cases op <;> cases op' <;> decide

/-- `op.precedence > op'.precedence - 1` (the decremented side) says: `op'` is at the same level or lower -/
theorem table_ge (op op' : BinOp) : op.precedence > op'.precedence - 1 ↔ op'.tower + 1 > op.tower := by
  cases op <;> cases op' <;> decide

theorem table_range (op : BinOp) :
    pipePrecedence < op.precedence ∧ op.precedence < otherPrecedence - 1 ∧ op.tower < towerLevels := by
  cases op <;> decide

theorem table_mirrored (op : BinOp) : levelRight op.tower = op.mirrored := by
  cases op <;> decide

theorem table_pipe_rest : pipePrecedence < pipeRestThreshold := by decide

/-! ## heights -/

/-- lowest tower height at which the expression can stand without parentheses:
    0 = `unary`, `t + 1` = binary level `t`, `towerLevels + 1` = pipeline -/
def Expr.ht : Expr → Nat
  | .bin op _ _ => op.tower + 1
  | .pipe _ _ => towerLevels + 1
  | _ => 0

/-- the canonical rendering of an operand at height `h` -/
def rendAt (h : Nat) (x : Expr) : List Tok := if x.ht ≤ h then print x else paren (print x)

theorem side_eq (a s h : Nat) (x : Expr) (hiff : a > s ↔ x.ht > h) :
    operatorSide a s (print x) = rendAt h x := by
  unfold operatorSide rendAt
  by_cases c : a > s
  · have := hiff.mp c
    rw [if_pos c, if_neg (by omega)]
  · have : ¬ x.ht > h := fun d => c (hiff.mpr d)
    rw [if_neg c, if_pos (by omega)]

theorem side_plain (op : BinOp) (x : Expr) :
    operatorSide op.precedence x.binopPrecedence (print x) = rendAt (op.tower + 1) x := by
  have hr := table_range op
  apply side_eq
  cases x with
  | bin op' l r => exact table_gt op op'
  | pipe l r =>
    show op.precedence > pipePrecedence ↔ towerLevels + 1 > op.tower + 1
    constructor <;> intro _ <;> omega
  | atom n =>
    show op.precedence > otherPrecedence ↔ 0 > op.tower + 1
    constructor <;> intro _ <;> omega
  | un o y =>
    show op.precedence > otherPrecedence ↔ 0 > op.tower + 1
    constructor <;> intro _ <;> omega

theorem side_decr (op : BinOp) (x : Expr) :
    operatorSide op.precedence (x.binopPrecedence - 1) (print x) = rendAt op.tower x := by
  have hr := table_range op
  apply side_eq
  cases x with
  | bin op' l r => exact table_ge op op'
  | pipe l r =>
    show op.precedence > pipePrecedence - 1 ↔ towerLevels + 1 > op.tower
    constructor <;> intro _ <;> omega
  | atom n =>
    show op.precedence > otherPrecedence - 1 ↔ 0 > op.tower
    constructor <;> intro _ <;> omega
  | un o y =>
    show op.precedence > otherPrecedence - 1 ↔ 0 > op.tower
    constructor <;> intro _ <;> omega

/-- `Formatter::bin_op` in terms of heights -/
theorem print_bin (op : BinOp) (l r : Expr) :
    print (.bin op l r) =
      (if op.mirrored then rendAt op.tower l else rendAt (op.tower + 1) l) ++ [Tok.op op] ++
      (if op.mirrored then rendAt (op.tower + 1) r else rendAt op.tower r) := by
  cases hm : op.mirrored <;> simp [print, hm, side_plain, side_decr]

/-! ## operand chains of one binary level -/

def flatItems (t : Nat) (items : List (BinOp × Expr)) : List Tok :=
  items.flatMap (fun it => Tok.op it.1 :: rendAt t it.2)

/-- left spine at tower level `t`: `((a op₁ b) op₂ c)` ↦ `(a, [(op₁, b), (op₂, c)])` -/
def chainL (t : Nat) : Expr → Expr × List (BinOp × Expr)
  | .bin op l r => if op.tower = t then ((chainL t l).1, (chainL t l).2 ++ [(op, r)]) else (.bin op l r, [])
  | e => (e, [])

/-- right spine at tower level `t`: `a op₁ (b op₂ c)` ↦ `(a, [(op₁, b), (op₂, c)])` -/
def chainR (t : Nat) : Expr → Expr × List (BinOp × Expr)
  | .bin op l r => if op.tower = t then (l, (op, (chainR t r).1) :: (chainR t r).2) else (.bin op l r, [])
  | e => (e, [])

theorem combineLeft_append (a : Expr) (xs ys : List (BinOp × Expr)) :
    combineLeft a (xs ++ ys) = combineLeft (combineLeft a xs) ys := by
  simp [combineLeft, List.foldl_append]

theorem chainL_combine (t : Nat) : ∀ e, combineLeft (chainL t e).1 (chainL t e).2 = e
  | .atom _ => rfl
  | .un _ _ => rfl
  | .pipe _ _ => rfl
  | .bin op l r => by
    unfold chainL
    by_cases h : op.tower = t
    · rw [if_pos h]
      simp only [combineLeft_append, chainL_combine t l]
      rfl
    · rw [if_neg h]; rfl

theorem chainR_combine (t : Nat) : ∀ e, combineRight (chainR t e).1 (chainR t e).2 = e
  | .atom _ => rfl
  | .un _ _ => rfl
  | .pipe _ _ => rfl
  | .bin op l r => by
    unfold chainR
    by_cases h : op.tower = t
    · rw [if_pos h]
      simp only [combineRight, chainR_combine t r]
    · rw [if_neg h]; rfl

theorem chainL_tower (t : Nat) : ∀ e, ∀ it ∈ (chainL t e).2, it.1.tower = t
  | .atom _ => by simp [chainL]
  | .un _ _ => by simp [chainL]
  | .pipe _ _ => by simp [chainL]
  | .bin op l r => by
    unfold chainL
    by_cases h : op.tower = t
    · rw [if_pos h]
      intro it hit
      simp only [List.mem_append, List.mem_singleton] at hit
      rcases hit with hit | hit
      · exact chainL_tower t l it hit
      · subst hit; exact h
    · rw [if_neg h]; simp

theorem chainR_tower (t : Nat) : ∀ e, ∀ it ∈ (chainR t e).2, it.1.tower = t
  | .atom _ => by simp [chainR]
  | .un _ _ => by simp [chainR]
  | .pipe _ _ => by simp [chainR]
  | .bin op l r => by
    unfold chainR
    by_cases h : op.tower = t
    · rw [if_pos h]
      intro it hit
      simp only [List.mem_cons] at hit
      rcases hit with hit | hit
      · subst hit; exact h
      · exact chainR_tower t r it hit
    · rw [if_neg h]; simp

theorem chainL_size (t : Nat) : ∀ e, (chainL t e).1.size ≤ e.size ∧ ∀ it ∈ (chainL t e).2, it.2.size < e.size
  | .atom _ => by simp [chainL]
  | .un _ _ => by simp [chainL]
  | .pipe _ _ => by simp [chainL]
  | .bin op l r => by
    unfold chainL
    have ih := chainL_size t l
    by_cases h : op.tower = t
    · rw [if_pos h]
      refine ⟨by simp only [Expr.size]; omega, ?_⟩
      intro it hit
      simp only [List.mem_append, List.mem_singleton] at hit
      rcases hit with hit | hit
      · have := ih.2 it hit; simp only [Expr.size]; omega
      · subst hit; simp only [Expr.size]; omega
    · rw [if_neg h]; simp

theorem chainR_size (t : Nat) : ∀ e, (chainR t e).1.size ≤ e.size ∧ ∀ it ∈ (chainR t e).2, it.2.size < e.size
  | .atom _ => by simp [chainR]
  | .un _ _ => by simp [chainR]
  | .pipe _ _ => by simp [chainR]
  | .bin op l r => by
    unfold chainR
    have ih := chainR_size t r
    by_cases h : op.tower = t
    · rw [if_pos h]
      refine ⟨by simp only [Expr.size]; omega, ?_⟩
      intro it hit
      simp only [List.mem_cons] at hit
      rcases hit with hit | hit
      · subst hit; simp only [Expr.size]; omega
      · have := ih.2 it hit; simp only [Expr.size]; omega
    · rw [if_neg h]; simp

theorem rendAt_succ_of_ne (t : Nat) (x : Expr) (h : x.ht ≠ t + 1) : rendAt (t + 1) x = rendAt t x := by
  unfold rendAt
  by_cases h1 : x.ht ≤ t
  · rw [if_pos h1, if_pos (by omega)]
  · rw [if_neg h1, if_neg (by omega)]

/-- an operand rendered at height `t+1` is, token for token, a chain at level `t`
    (left-folded level: every operator of the level has `mirrored = false`) -/
theorem rendAt_chainL (t : Nat) (ht : t < towerLevels) (hl : levelRight t = false) :
    ∀ x, rendAt (t + 1) x = rendAt t (chainL t x).1 ++ flatItems t (chainL t x).2
  | .atom n => by simp [chainL, flatItems, rendAt, Expr.ht]
  | .un o y => by simp [chainL, flatItems, rendAt, Expr.ht]
  | .pipe l r => by
    simp only [chainL, flatItems, List.flatMap_nil, List.append_nil]
    exact rendAt_succ_of_ne t _ (by simp only [Expr.ht]; omega)
  | .bin op l r => by
    unfold chainL
    by_cases h : op.tower = t
    · rw [if_pos h]
      have hm : op.mirrored = false := by rw [← table_mirrored, h]; exact hl
      have hp := print_bin op l r
      rw [hm] at hp
      simp only [Bool.false_eq_true, if_false] at hp
      have : rendAt (t + 1) (Expr.bin op l r) = print (Expr.bin op l r) := by
        unfold rendAt; rw [if_pos (by simp only [Expr.ht]; omega)]
      rw [this, hp, h, rendAt_chainL t ht hl l]
      simp [flatItems, List.flatMap_append]
    · rw [if_neg h]
      simp only [flatItems, List.flatMap_nil, List.append_nil]
      exact rendAt_succ_of_ne t _ (by simp only [Expr.ht]; omega)

theorem rendAt_chainR (t : Nat) (ht : t < towerLevels) (hl : levelRight t = true) :
    ∀ x, rendAt (t + 1) x = rendAt t (chainR t x).1 ++ flatItems t (chainR t x).2
  | .atom n => by simp [chainR, flatItems, rendAt, Expr.ht]
  | .un o y => by simp [chainR, flatItems, rendAt, Expr.ht]
  | .pipe l r => by
    simp only [chainR, flatItems, List.flatMap_nil, List.append_nil]
    exact rendAt_succ_of_ne t _ (by simp only [Expr.ht]; omega)
  | .bin op l r => by
    unfold chainR
    by_cases h : op.tower = t
    · rw [if_pos h]
      have hm : op.mirrored = true := by rw [← table_mirrored, h]; exact hl
      have hp := print_bin op l r
      rw [hm] at hp
      simp only [if_true] at hp
      have : rendAt (t + 1) (Expr.bin op l r) = print (Expr.bin op l r) := by
        unfold rendAt; rw [if_pos (by simp only [Expr.ht]; omega)]
      rw [this, hp, h, rendAt_chainR t ht hl r]
      simp [flatItems]
    · rw [if_neg h]
      simp only [flatItems, List.flatMap_nil, List.append_nil]
      exact rendAt_succ_of_ne t _ (by simp only [Expr.ht]; omega)

end AikenVerif.Prec
