import AikenVerif.Lemmas.FlatConst
/-!
Helper lemmas for M-FLAT, part 3: constant values, binders, terms.
-/
namespace AikenVerif.Flat
open AikenVerif.Gen (Builtin)
open AikenVerif.Gen.FlatTags

-- ------------------------------------------------------------------ well-formedness (decidable)
mutual
  /-- what the format can carry of a constant: list elements and pair components
  have the declared type; `Data` payloads are ones the codec is known to read back -/
  def wfC (okD : Data → Bool) : Const → Bool
    | .list t xs => wfCs okD t xs
    | .pair a b x y => decide (x.ty = a) && decide (y.ty = b) && wfC okD x && wfC okD y
    | .data d => okD d
    | .integer _ => true | .bytestring _ => true | .string _ => true | .unit => true
    | .bool _ => true | .g1 _ => true | .g2 _ => true | .ml _ => true
  def wfCs (okD : Data → Bool) (t : Ty) : List Const → Bool
    | [] => true
    | x :: xs => decide (x.ty = t) && wfC okD x && wfCs okD t xs
end

/-- the codec reads back the `Data` values accepted by `okD` -/
structure CodecLaw (cd : DataCodec) (okD : Data → Bool) : Prop where
  rt : ∀ d, okD d = true → cd.dec (cd.enc d) = some d

def isBytesData : Data → Bool
  | .bytes _ => true
  | _ => false

theorem opaque_law : CodecLaw DataCodec.opaque isBytesData where
  rt d h := by cases d <;> simp_all [isBytesData, DataCodec.opaque]

theorem valListE_eq (cd : DataCodec) : ∀ xs : List Const, valListE cd xs = listE (valE cd) xs
  | [] => by simp [valListE, listE]
  | x :: xs => by simp [valListE, listE, valListE_eq cd xs]

theorem encodableC_topTy (c : Const) (h : encodableC c = true) : topTy c.ty = true := by
  cases c <;> simp_all [encodableC, topTy, Const.ty, constEncodable]

section
variable (cd : DataCodec) (m : Mode) (okD : Data → Bool) (law : CodecLaw cd okD)
include law

mutual
  /-- `decode_constant_value` reads back what `encode_constant_value` wrote -/
  theorem rt_val : ∀ (c : Const), encodableC c = true → wfC okD c = true →
      RT (valE cd c) (decVal cd m c.ty) c
    | .integer i, _, _ => by
      simpa [valE, decVal, Const.ty] using RT.bind_pure Const.integer (rt_bigInt i)
    | .bytestring b, _, _ => by
      simpa [valE, decVal, Const.ty] using RT.bind_pure Const.bytestring (rt_bytes b)
    | .string s, _, _ => by
      have := RT.bind_pure (fun s : String => Const.string s.toList) (rt_utf8 (String.ofList s))
      simpa [valE, decVal, Const.ty] using this
    | .unit, _, _ => by simpa [valE, decVal, Const.ty] using RT.pure Const.unit
    | .bool b, _, _ => by
      simpa [valE, decVal, Const.ty] using RT.bind_pure Const.bool (rt_bool m b)
    | .data d, _, hw => by
      have hd : cd.dec (cd.enc d) = some d := law.rt d (by simpa [wfC] using hw)
      intro n rest
      simp only [valE, decVal, Const.ty, Dec.bind, rt_bytes (cd.enc d) n rest, hd, Dec.pure]
    | .pair a b x y, he, hw => by
      simp only [encodableC, Bool.and_eq_true] at he
      simp only [wfC, Bool.and_eq_true, decide_eq_true_eq] at hw
      obtain ⟨⟨⟨hxa, hyb⟩, hwx⟩, hwy⟩ := hw
      have ix := rt_val x he.1 hwx
      have iy := rt_val y he.2 hwy
      rw [hxa] at ix; rw [hyb] at iy
      simp only [valE, decVal, Const.ty]
      exact RT.bind ix (RT.bind_pure _ iy)
    | .list t xs, he, hw => by
      have hitems := rt_vals t xs (by simpa [encodableC] using he) (by simpa [wfC] using hw)
      intro n rest
      have hl : valE cd (.list t xs) = listE (valE cd) xs := by simp [valE, valListE_eq]
      have hlen := listE_length_ge (valE cd) xs n
      have := RT.bind_pure (Const.list t)
        (rt_list (valE cd) (decVal cd m t) xs ((listE (valE cd) xs n ++ rest).length + 1)
          (by simp only [List.length_append]; omega) hitems) n rest
      simpa [decVal, hl, Const.ty] using this
    | .g1 _, he, _ => by simp [encodableC, constEncodable] at he
    | .g2 _, he, _ => by simp [encodableC, constEncodable] at he
    | .ml _, he, _ => by simp [encodableC, constEncodable] at he
  theorem rt_vals : ∀ (t : Ty) (xs : List Const), encodableCs xs = true → wfCs okD t xs = true →
      ∀ x ∈ xs, RT (valE cd x) (decVal cd m t) x
    | _, [], _, _ => by intro x hx; cases hx
    | t, y :: ys, he, hw => by
      simp only [encodableCs, Bool.and_eq_true] at he
      simp only [wfCs, Bool.and_eq_true, decide_eq_true_eq] at hw
      intro x hx
      rcases List.mem_cons.mp hx with h | hx
      · have := rt_val y he.1 hw.1.2
        rw [hw.1.1] at this; rw [h]; exact this
      · exact rt_vals t ys he.2 hw.2 x hx
end

/-- `impl Decode for Constant` reads back what `impl Encode for Constant` wrote -/
theorem rt_const (c : Const) (he : encodableC c = true) (hw : wfC okD c = true) :
    RT (constE cd c) (decConst cd m) c := by
  have ht := rt_tagList (constTags c.ty) (constTags_lt c.ty)
  have hv := rt_val cd m okD law c he hw
  have hty := decConstTy_constTags c.ty (encodableC_topTy c he)
  unfold constE decConst
  apply RT.bind ht
  simp only [hty]
  exact hv

end

-- ------------------------------------------------------------------ binders
/-- the three binder forms read back what they write, for in-range fields -/
class LawfulFlatBinder (β : Type) [FlatBinder β] : Prop where
  rt_var : ∀ (m : Mode) (x : β), FlatBinder.wfVar x = true → RT (FlatBinder.varE x) (FlatBinder.decVar m) x
  rt_binder : ∀ (m : Mode) (x : β), FlatBinder.wfBinder x = true →
    RT (FlatBinder.binderE x) (FlatBinder.decBinder m) x

instance : LawfulFlatBinder DeBruijn where
  rt_var m x h := rt_word m x (of_decide_eq_true h)
  rt_binder m x h := by
    have : x = 0 := by simpa [FlatBinder.wfBinder] using h
    subst this
    exact RT.pure 0

theorem rt_namedDeBruijn (m : Mode) (x : NamedDeBruijn) (h : x.index < 2 ^ 64) :
    RT (namedDeBruijnE x) (decNamedDeBruijn m) x :=
  RT.bind (rt_utf8 x.text) (RT.bind_pure (fun i => (⟨x.text, i⟩ : NamedDeBruijn)) (rt_word m x.index h))

instance : LawfulFlatBinder NamedDeBruijn where
  rt_var m x h := rt_namedDeBruijn m x (of_decide_eq_true h)
  rt_binder m x h := rt_namedDeBruijn m x (of_decide_eq_true h)

theorem rt_name (m : Mode) (x : Name) (h : fitsIsize x.unique = true) : RT (nameE x) (decName m) x :=
  RT.bind (rt_utf8 x.text) (RT.bind_pure (fun u => (⟨x.text, u⟩ : Name)) (rt_int64 m x.unique h))

instance : LawfulFlatBinder Name where
  rt_var m x h := rt_name m x h
  rt_binder m x h := rt_name m x h

-- ------------------------------------------------------------------ terms
theorem termEncTag_lt (c : TermCtor) : termEncTag c < 2 ^ termTagWidth := by cases c <;> decide

/-- the decoder's arm for the tag the encoder writes builds the same constructor -/
theorem termCtorOfTag_enc (c : TermCtor) : termCtorOfTag (termEncTag c) = some c := by cases c <;> rfl

theorem builtin_ofTag_tag (b : Builtin) : Builtin.ofTag b.tag = some b := by cases b <;> rfl

theorem builtin_tag_lt (b : Builtin) : b.tag < 2 ^ builtinTagWidth := by cases b <;> decide

theorem rt_builtin (b : Builtin) : RT (builtinE b) decBuiltin b := by
  intro n rest
  simp only [builtinE, decBuiltin, Dec.bind, rt_bits builtinTagWidth b.tag (builtin_tag_lt b) n rest,
    builtin_ofTag_tag, Dec.pure]

section
variable {β : Type} [FlatBinder β]

mutual
  /-- machine-width fields in range, binders the format can carry, constants well-typed -/
  def wfT (okD : Data → Bool) : Term β → Bool
    | .var x => FlatBinder.wfVar x
    | .lam x b => FlatBinder.wfBinder x && wfT okD b
    | .app f a => wfT okD f && wfT okD a
    | .delay t => wfT okD t
    | .force t => wfT okD t
    | .const c => wfC okD c
    | .constr k fs => decide (k < 2 ^ 64) && wfTs okD fs
    | .case s bs => wfT okD s && wfTs okD bs
    | .error => true
    | .builtin _ => true
  def wfTs (okD : Data → Bool) : List (Term β) → Bool
    | [] => true
    | t :: ts => wfT okD t && wfTs okD ts
end

mutual
  /-- decoder fuel a term needs: one unit per node and per list item -/
  def need : Term β → Nat
    | .var _ => 1 | .error => 1 | .builtin _ => 1 | .const _ => 1
    | .lam _ b => need b + 1
    | .delay t => need t + 1
    | .force t => need t + 1
    | .app f a => need f + need a + 1
    | .constr _ fs => needs fs + 1
    | .case s bs => need s + needs bs + 1
  def needs : List (Term β) → Nat
    | [] => 1
    | t :: ts => need t + needs ts + 1
end

theorem length_lt_needs : ∀ ts : List (Term β), ts.length < needs ts
  | [] => by simp [needs]
  | t :: ts => by have := length_lt_needs ts; simp [needs]; omega

theorem termListE_eq (cd : DataCodec) : ∀ ts : List (Term β), termListE cd ts = listE (termE cd) ts
  | [] => by simp [termListE, listE]
  | t :: ts => by simp [termListE, listE, termListE_eq cd ts]

mutual
  /-- the stream is at least as long as the fuel a term needs -/
  theorem need_le_length (cd : DataCodec) : ∀ (t : Term β) (n : Nat), need t ≤ (termE cd t n).length
    | .var _, n => by simp [need, termE, Enc.seq, termTagE, Enc.lit, termTagWidth]; omega
    | .error, n => by simp [need, termE, termTagE, Enc.lit, termTagWidth]
    | .builtin _, n => by simp [need, termE, Enc.seq, termTagE, Enc.lit, termTagWidth]; omega
    | .const _, n => by simp [need, termE, Enc.seq, termTagE, Enc.lit, termTagWidth]; omega
    | .lam x b, n => by
      have := need_le_length cd b (n + termTagWidth + (FlatBinder.binderE x (n + termTagWidth)).length)
      simp [need, termE, Enc.seq, termTagE, Enc.lit, termTagWidth] at this ⊢; omega
    | .delay t, n => by
      have := need_le_length cd t (n + termTagWidth)
      simp [need, termE, Enc.seq, termTagE, Enc.lit, termTagWidth] at this ⊢; omega
    | .force t, n => by
      have := need_le_length cd t (n + termTagWidth)
      simp [need, termE, Enc.seq, termTagE, Enc.lit, termTagWidth] at this ⊢; omega
    | .app f a, n => by
      have h1 := need_le_length cd f (n + termTagWidth)
      have h2 := need_le_length cd a (n + termTagWidth + (termE cd f (n + termTagWidth)).length)
      simp [need, termE, Enc.seq, termTagE, Enc.lit, termTagWidth] at h1 h2 ⊢; omega
    | .constr k fs, n => by
      have h := needs_le_length cd fs (n + termTagWidth + (wordBits k).length)
      simp [need, termE, Enc.seq, termTagE, Enc.lit, termTagWidth] at h ⊢; omega
    | .case s bs, n => by
      have h1 := need_le_length cd s (n + termTagWidth)
      have h2 := needs_le_length cd bs (n + termTagWidth + (termE cd s (n + termTagWidth)).length)
      simp [need, termE, Enc.seq, termTagE, Enc.lit, termTagWidth] at h1 h2 ⊢; omega
  theorem needs_le_length (cd : DataCodec) : ∀ (ts : List (Term β)) (n : Nat), needs ts ≤ (termListE cd ts n).length
    | [], n => by simp [needs, termListE, Enc.lit]
    | t :: ts, n => by
      have h1 := need_le_length cd t (n + 1)
      have h2 := needs_le_length cd ts (n + 1 + (termE cd t (n + 1)).length)
      simp [needs, termListE, Enc.seq, Enc.lit] at h1 h2 ⊢; omega
end

variable [LawfulFlatBinder β]
variable (cd : DataCodec) (m : Mode) (okD : Data → Bool) (law : CodecLaw cd okD)
include law

mutual
  /-- `Term::decode_debug` reads back what `Term::encode` wrote -/
  theorem rt_term : ∀ (t : Term β) (f : Nat), need t ≤ f → encodableT t = true → wfT okD t = true →
      RT (termE cd t) (decTerm cd m f) t
    | t, 0, hn, _, _ => by cases t <;> simp [need] at hn
    | .var x, f + 1, _, _, hw => by
      simp only [termE, decTerm]
      apply RT.bind (rt_bits _ _ (termEncTag_lt .var))
      simp only [termCtorOfTag_enc]
      exact RT.bind_pure _ (LawfulFlatBinder.rt_var m x (by simpa [wfT] using hw))
    | .delay t, f + 1, hn, he, hw => by
      have it := rt_term t f (by simp [need] at hn; omega) (by simpa [encodableT] using he) (by simpa [wfT] using hw)
      simp only [termE, decTerm]
      apply RT.bind (rt_bits _ _ (termEncTag_lt .delay))
      simp only [termCtorOfTag_enc]
      exact RT.bind_pure _ it
    | .force t, f + 1, hn, he, hw => by
      have it := rt_term t f (by simp [need] at hn; omega) (by simpa [encodableT] using he) (by simpa [wfT] using hw)
      simp only [termE, decTerm]
      apply RT.bind (rt_bits _ _ (termEncTag_lt .force))
      simp only [termCtorOfTag_enc]
      exact RT.bind_pure _ it
    | .lam x b, f + 1, hn, he, hw => by
      simp only [wfT, Bool.and_eq_true] at hw
      have ib := rt_term b f (by simp [need] at hn; omega) (by simpa [encodableT] using he) hw.2
      simp only [termE, decTerm]
      apply RT.bind (rt_bits _ _ (termEncTag_lt .lambda))
      simp only [termCtorOfTag_enc]
      exact RT.bind (LawfulFlatBinder.rt_binder m x hw.1) (RT.bind_pure _ ib)
    | .app g a, f + 1, hn, he, hw => by
      simp only [wfT, Bool.and_eq_true] at hw
      simp only [encodableT, Bool.and_eq_true] at he
      have ig := rt_term g f (by simp [need] at hn; omega) he.1 hw.1
      have ia := rt_term a f (by simp [need] at hn; omega) he.2 hw.2
      simp only [termE, decTerm]
      apply RT.bind (rt_bits _ _ (termEncTag_lt .apply))
      simp only [termCtorOfTag_enc]
      exact RT.bind ig (RT.bind_pure _ ia)
    | .const c, f + 1, _, he, hw => by
      simp only [termE, decTerm]
      apply RT.bind (rt_bits _ _ (termEncTag_lt .constant))
      simp only [termCtorOfTag_enc]
      exact RT.bind_pure _ (rt_const cd m okD law c (by simpa [encodableT] using he) (by simpa [wfT] using hw))
    | .error, f + 1, _, _, _ => by
      simp only [termE, decTerm]
      have := RT.bind_pure (fun _ : Nat => (Term.error : Term β)) (rt_bits _ _ (termEncTag_lt .error))
      intro n rest
      have h := this n rest
      simp only [Dec.bind, Dec.pure, termTagE] at h ⊢
      revert h
      cases hd : decBits termTagWidth ⟨n, Enc.lit (natBits termTagWidth (termEncTag .error)) n ++ rest⟩ with
      | ok v =>
        intro h
        simp only [Res.ok.injEq, Prod.mk.injEq] at h
        have hv := (rt_bits _ _ (termEncTag_lt .error)) n rest
        rw [hd] at hv
        simp only [Res.ok.injEq] at hv
        subst hv
        simp [termCtorOfTag_enc, Dec.pure]
      | err => intro h; cases h
      | panic => intro h; cases h
      | fuel => intro h; cases h
    | .builtin b, f + 1, _, _, _ => by
      simp only [termE, decTerm]
      apply RT.bind (rt_bits _ _ (termEncTag_lt .builtin))
      simp only [termCtorOfTag_enc]
      exact RT.bind_pure _ (rt_builtin b)
    | .constr k fs, f + 1, hn, he, hw => by
      simp only [wfT, Bool.and_eq_true, decide_eq_true_eq] at hw
      simp only [need] at hn
      have ifs := rt_terms fs f (by omega) (by simpa [encodableT] using he) hw.2
      have hl := length_lt_needs fs
      simp only [termE, decTerm, termListE_eq]
      apply RT.bind (rt_bits _ _ (termEncTag_lt .constr))
      simp only [termCtorOfTag_enc]
      exact RT.bind (rt_word m k hw.1) (RT.bind_pure _ (rt_list _ _ fs f (by omega) ifs))
    | .case s bs, f + 1, hn, he, hw => by
      simp only [wfT, Bool.and_eq_true] at hw
      simp only [encodableT, Bool.and_eq_true] at he
      simp only [need] at hn
      have is_ := rt_term s f (by omega) he.1 hw.1
      have ibs := rt_terms bs f (by omega) he.2 hw.2
      have hl := length_lt_needs bs
      simp only [termE, decTerm, termListE_eq]
      apply RT.bind (rt_bits _ _ (termEncTag_lt .case))
      simp only [termCtorOfTag_enc]
      exact RT.bind is_ (RT.bind_pure _ (rt_list _ _ bs f (by omega) ibs))
  theorem rt_terms : ∀ (ts : List (Term β)) (f : Nat), needs ts ≤ f → encodableTs ts = true →
      wfTs okD ts = true → ∀ t ∈ ts, RT (termE cd t) (decTerm cd m f) t
    | [], _, _, _, _ => by intro t ht; cases ht
    | u :: us, f, hn, he, hw => by
      simp only [encodableTs, Bool.and_eq_true] at he
      simp only [wfTs, Bool.and_eq_true] at hw
      simp only [needs] at hn
      intro t ht
      rcases List.mem_cons.mp ht with h | ht
      · rw [h]; exact rt_term u f (by omega) he.1 hw.1
      · exact rt_terms us f (by omega) he.2 hw.2 t ht
end

end

end AikenVerif.Flat
