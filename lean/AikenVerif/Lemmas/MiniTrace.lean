import AikenVerif.Lemmas.Mini
/-!
Trace erasure on the MiniAiken source semantics (C14): if every trace label / argument of a
program is a literal, the outcome (value or abort) does not depend on the trace mode.
-/
namespace AikenVerif.Mini

theorem bind_out {α β} (x : M α) (f : α → M β) :
    (bind x f).1 = match x.1 with
      | .val a => (f a).1
      | .abort => .abort
      | .outOfFuel => .outOfFuel
      | .stuck => .stuck := by
  obtain ⟨o, l⟩ := x
  cases o <;> rfl

/-- same outcome unless one of the two ran out of fuel -/
def Rel {α} (x y : M α) : Prop := x.1 ≠ Outcome.outOfFuel → y.1 ≠ Outcome.outOfFuel → x.1 = y.1

theorem Rel.refl {α} (x : M α) : Rel x x := fun _ _ => rfl

theorem Rel_of_out_eq {α} {x y : M α} (h : x.1 = y.1) : Rel x y := fun _ _ => h

theorem Rel_bind {α β} {x y : M α} {f g : α → M β} (h : Rel x y) (hf : ∀ a, Rel (f a) (g a)) :
    Rel (bind x f) (bind y g) := by
  intro hx hy
  rw [bind_out] at hx hy ⊢
  rw [bind_out]
  obtain ⟨ox, lx⟩ := x
  obtain ⟨oy, ly⟩ := y
  cases ox with
  | outOfFuel => simp at hx
  | val a =>
    cases oy with
    | outOfFuel => simp at hy
    | val b =>
      have := h (by simp) (by simp)
      simp only [Outcome.val.injEq] at this
      subst this
      exact hf a hx hy
    | abort => have := h (by simp) (by simp); simp at this
    | stuck => have := h (by simp) (by simp); simp at this
  | abort =>
    cases oy with
    | outOfFuel => simp at hy
    | val b => have := h (by simp) (by simp); simp at this
    | abort => rfl
    | stuck => have := h (by simp) (by simp); simp at this
  | stuck =>
    cases oy with
    | outOfFuel => simp at hy
    | val b => have := h (by simp) (by simp); simp at this
    | abort => have := h (by simp) (by simp); simp at this
    | stuck => rfl

-- ---------------------------------------------------------------- literal labels
theorem eval_lit_cases (P : Program) (m : Mode) (n : Nat) (env : Env) (e : Expr) (h : isLit e = true) :
    eval P m n env e = oof ∨ ∃ v, eval P m n env e = ret v := by
  cases e with
  | lit l =>
    cases n with
    | zero => left; simp only [eval]
    | succ n => right; exact ⟨litVal l, by simp only [eval]⟩
  | _ => simp [isLit] at h

theorem evalList_lits_cases (P : Program) (m : Mode) (env : Env) :
    ∀ (es : List Expr), es.all isLit = true → ∀ n,
      evalList P m n env es = oof ∨ ∃ vs, evalList P m n env es = ret vs := by
  intro es
  induction es with
  | nil =>
    intro _ n
    cases n with
    | zero => left; simp only [evalList]
    | succ n => right; exact ⟨[], by simp only [evalList]⟩
  | cons e es ih =>
    intro h n
    simp only [List.all_cons, Bool.and_eq_true] at h
    cases n with
    | zero => left; simp only [evalList]
    | succ n =>
      simp only [evalList]
      rcases eval_lit_cases P m n env e h.1 with he | ⟨v, he⟩
      · left; rw [he]; rfl
      · rcases ih h.2 n with hl | ⟨vs, hl⟩
        · left; rw [he, hl]; rfl
        · right; exact ⟨v :: vs, by rw [he, hl]; rfl⟩

/-- a trace with literal label and arguments either runs out of fuel or has the outcome of its
continuation, in every mode -/
theorem trace_out (P : Program) (m : Mode) (n : Nat) (env : Env) (l : Expr) (args : List Expr) (b : Expr)
    (hl : isLit l = true) (ha : args.all isLit = true) :
    (eval P m (n + 1) env (.trace l args b)).1 = Outcome.outOfFuel ∨
    (eval P m (n + 1) env (.trace l args b)).1 = (eval P m n env b).1 := by
  simp only [eval]
  cases m with
  | silent => right; rfl
  | compact =>
    rcases eval_lit_cases P .compact n env l hl with he | ⟨v, he⟩
    · left; rw [he]; rfl
    · right; rw [he]; simp [ret, emit]
  | verbose =>
    rcases eval_lit_cases P .verbose n env l hl with he | ⟨v, he⟩
    · left; rw [he]; rfl
    · rcases evalList_lits_cases P .verbose env args ha n with hl' | ⟨vs, hl'⟩
      · left; rw [he, hl']; rfl
      · right; rw [he, hl']; simp [ret, emit]

theorem firstMatch_labelsTotal (v : Val) :
    ∀ (cs : List (Pat × Expr)) (bs : Env) (b : Expr), labelsTotalClauses cs = true →
      firstMatch v cs = some (bs, b) → labelsTotal b = true := by
  intro cs
  induction cs with
  | nil => intro bs b _ h; simp [firstMatch] at h
  | cons c cs ih =>
    intro bs b hc h
    obtain ⟨p, body⟩ := c
    simp only [labelsTotalClauses, Bool.and_eq_true] at hc
    simp only [firstMatch] at h
    split at h
    · simp only [Option.some.injEq, Prod.mk.injEq] at h
      rw [← h.2]; exact hc.1
    · exact ih bs b hc.2 h

theorem fns_labelsTotal (P : Program) (hP : P.labelsTotal = true) (f : Nat) (xs : List Nat) (body : Expr)
    (h : P.fns[f]? = some (xs, body)) : labelsTotal body = true := by
  simp only [Program.labelsTotal, Bool.and_eq_true, List.all_eq_true] at hP
  exact hP.1 (xs, body) (List.mem_of_getElem? h)

theorem lams_labelsTotal (P : Program) (hP : P.labelsTotal = true) (i : Nat) (xs : List Nat) (body : Expr)
    (h : P.lams[i]? = some (xs, body)) : labelsTotal body = true := by
  simp only [Program.labelsTotal, Bool.and_eq_true, List.all_eq_true] at hP
  exact hP.2 (xs, body) (List.mem_of_getElem? h)

/-- the trace mode does not change the outcome of a program whose labels are total -/
theorem erasure_step (P : Program) (hP : P.labelsTotal = true) (m m' : Mode) :
    ∀ n, (∀ env e, labelsTotal e = true → Rel (eval P m n env e) (eval P m' n env e)) ∧
         (∀ env es, labelsTotalList es = true → Rel (evalList P m n env es) (evalList P m' n env es)) := by
  intro n
  induction n with
  | zero =>
    refine ⟨fun env e _ => ?_, fun env es _ => ?_⟩
    · simp only [eval]; exact Rel.refl _
    · simp only [evalList]; exact Rel.refl _
  | succ n ih =>
    obtain ⟨ihE, ihL⟩ := ih
    refine ⟨fun env e he => ?_, fun env es hes => ?_⟩
    · cases e with
      | lit l => simp only [eval]; exact Rel.refl _
      | var x => simp only [eval]; exact Rel.refl _
      | letE x used a b =>
        simp only [labelsTotal, Bool.and_eq_true] at he
        simp only [eval]
        cases used
        · simp only [Bool.false_eq_true, if_false]; exact ihE _ _ he.2
        · simp only [if_true]
          exact Rel_bind (ihE _ _ he.1) (fun v => ihE _ _ he.2)
      | ite c t f =>
        simp only [labelsTotal, Bool.and_eq_true] at he
        simp only [eval]
        refine Rel_bind (ihE _ _ he.1.1) (fun v => ?_)
        cases v with
        | bool b =>
          cases b
          · exact ihE _ _ he.2
          · exact ihE _ _ he.1.2
        | _ => exact Rel.refl _
      | and a b =>
        simp only [labelsTotal, Bool.and_eq_true] at he
        simp only [eval]
        refine Rel_bind (ihE _ _ he.1) (fun v => ?_)
        cases v with
        | bool b =>
          cases b
          · exact Rel.refl _
          · exact ihE _ _ he.2
        | _ => exact Rel.refl _
      | or a b =>
        simp only [labelsTotal, Bool.and_eq_true] at he
        simp only [eval]
        refine Rel_bind (ihE _ _ he.1) (fun v => ?_)
        cases v with
        | bool b =>
          cases b
          · exact ihE _ _ he.2
          · exact Rel.refl _
        | _ => exact Rel.refl _
      | un op a =>
        simp only [labelsTotal] at he
        simp only [eval]
        exact Rel_bind (ihE _ _ he) (fun v => Rel.refl _)
      | bin op a b =>
        simp only [labelsTotal, Bool.and_eq_true] at he
        simp only [eval]
        exact Rel_bind (ihE _ _ he.1) (fun x => Rel_bind (ihE _ _ he.2) (fun y => Rel.refl _))
      | tuple es => simp only [labelsTotal] at he; simp only [eval]; exact Rel_bind (ihL _ _ he) (fun vs => Rel.refl _)
      | list es => simp only [labelsTotal] at he; simp only [eval]; exact Rel_bind (ihL _ _ he) (fun vs => Rel.refl _)
      | con tag es => simp only [labelsTotal] at he; simp only [eval]; exact Rel_bind (ihL _ _ he) (fun vs => Rel.refl _)
      | call f es =>
        simp only [labelsTotal] at he
        simp only [eval]
        refine Rel_bind (ihL _ _ he) (fun vs => ?_)
        split
        · rename_i xs body hf
          split
          · exact ihE _ _ (fns_labelsTotal P hP f xs body hf)
          · exact Rel.refl _
        · exact Rel.refl _
      | lam i => simp only [eval]; exact Rel.refl _
      | app f es =>
        simp only [labelsTotal, Bool.and_eq_true] at he
        simp only [eval]
        refine Rel_bind (ihE _ _ he.1) (fun fv => Rel_bind (ihL _ _ he.2) (fun vs => ?_))
        cases fv with
        | clo i cenv =>
          simp only
          split
          · rename_i xs body hf
            split
            · exact ihE _ _ (lams_labelsTotal P hP i xs body hf)
            · exact Rel.refl _
          · exact Rel.refl _
        | fn g =>
          simp only
          split
          · rename_i xs body hf
            split
            · exact ihE _ _ (fns_labelsTotal P hP g xs body hf)
            · exact Rel.refl _
          · exact Rel.refl _
        | _ => exact Rel.refl _
      | fnref f => simp only [eval]; exact Rel.refl _
      | «when» s cs =>
        simp only [labelsTotal, Bool.and_eq_true] at he
        simp only [eval]
        refine Rel_bind (ihE _ _ he.1) (fun v => ?_)
        split
        · rename_i bs b hfm
          exact ihE _ _ (firstMatch_labelsTotal v cs bs b he.2 hfm)
        · exact Rel.refl _
      | fail t => simp only [eval]; exact Rel.refl _
      | expect p a b =>
        simp only [labelsTotal, Bool.and_eq_true] at he
        simp only [eval]
        refine Rel_bind (ihE _ _ he.1) (fun v => ?_)
        split
        · exact ihE _ _ he.2
        · exact Rel.refl _
      | trace label args body =>
        simp only [labelsTotal, Bool.and_eq_true] at he
        intro hx hy
        rcases trace_out P m n env label args body he.1.1 he.1.2 with h1 | h1
        · exact absurd h1 hx
        · rcases trace_out P m' n env label args body he.1.1 he.1.2 with h2 | h2
          · exact absurd h2 hy
          · rw [h1, h2]
            rw [h1] at hx
            rw [h2] at hy
            exact ihE env body he.2 hx hy
      | traceIfFalse a =>
        simp only [labelsTotal] at he
        simp only [eval]
        refine Rel_bind (ihE _ _ he) (fun v => Rel_of_out_eq ?_)
        cases m <;> cases m' <;> cases v <;> (try rename_i b; cases b) <;> rfl
    · cases es with
      | nil => simp only [evalList]; exact Rel.refl _
      | cons e es =>
        simp only [labelsTotalList, Bool.and_eq_true] at hes
        simp only [evalList]
        exact Rel_bind (ihE _ _ hes.1) (fun v => Rel_bind (ihL _ _ hes.2) (fun vs => Rel.refl _))

end AikenVerif.Mini
