import AikenVerif.Lemmas.TextTerm
/-! C15: the round trip under every layout (which soft breaks of the document become line breaks). -/
namespace AikenVerif.Text
open AikenVerif.Gen (Builtin)
open AikenVerif.Gen.TextTables

@[simp] theorem skipWs_soft (b : Bool) (rest : List Token) : skipWs (soft b ++ .rpar :: rest) = .rpar :: rest := by
  cases b <;> simp [soft]

theorem soft_length (b : Bool) : (soft b).length ≤ 1 := by cases b <;> simp [soft]

-- ------------------------------------------------------------------ types
theorem printTyL_noLeadWs (w : Layout) (p : List Nat) (t : Ty) : NoLeadWs (printTyL w p t) := by
  cases t <;> first
    | exact printTy_noLeadWs _
    | (simp only [printTyL, List.cons_append, List.nil_append]; exact ⟨_, _, rfl, by simp⟩)

theorem parseTy_printTyL (w : Layout) (t : Ty) : ∀ (p : List Nat) (f : Nat) (rest : List Token),
    (printTyL w p t).length ≤ f → parseTy f (printTyL w p t ++ rest) = some (t, rest) := by
  induction t with
  | list t ih =>
    intro p f rest hf
    simp [printTyL] at hf
    obtain ⟨g, rfl⟩ : ∃ g, f = g + 1 := ⟨f - 1, by omega⟩
    have h1 := skipWs_of_noLeadWs (printTyL_noLeadWs w (0 :: p) t) (soft (w p) ++ .rpar :: rest)
    have h2 := ih (0 :: p) g (soft (w p) ++ .rpar :: rest) (by omega)
    simp [printTyL, parseTy, tyList_kw, h1, h2]
  | pair a b iha ihb =>
    intro p f rest hf
    simp [printTyL] at hf
    obtain ⟨g, rfl⟩ : ∃ g, f = g + 1 := ⟨f - 1, by omega⟩
    have h1 := skipWs_of_noLeadWs (printTyL_noLeadWs w (0 :: p) a) (.ws :: (printTyL w (1 :: p) b ++ .rpar :: rest))
    have h2 := iha (0 :: p) g (.ws :: (printTyL w (1 :: p) b ++ .rpar :: rest)) (by omega)
    have h3 := skipWs_of_noLeadWs (printTyL_noLeadWs w (1 :: p) b) (.rpar :: rest)
    have h4 := ihb (1 :: p) g (.rpar :: rest) (by omega)
    have hne : ¬ chars tyPairParse = chars tyListParse := by rw [← tyPair_kw]; exact tyPair_ne_list
    simp [printTyL, parseTy, tyPair_kw, hne, h1, h2, h3, h4]
  | _ =>
    intro p f rest hf
    simp only [printTyL] at hf ⊢
    exact parseTy_printTy _ f rest hf

-- ------------------------------------------------------------------ constants
theorem printConstL_noLeadWs (w : Layout) (p : List Nat) (c : Const) (hok : constOk c.ty c = true) :
    NoLeadWs (printConstL w p c) := by
  cases c with
  | list t xs => simp only [printConstL, List.cons_append, List.nil_append]; exact ⟨_, _, rfl, by simp⟩
  | pair a b x y => simp only [printConstL, List.cons_append, List.nil_append]; exact ⟨_, _, rfl, by simp⟩
  | _ => simp only [printConstL]; exact printConst_noLeadWs _ hok

theorem parseConst_printL (w : Layout) (p : List Nat) (c : Const) (f : Nat) (rest : List Token)
    (hok : constOk c.ty c = true) (hf : (printConstL w p c).length ≤ f) :
    parseConst f (printConstL w p c ++ rest) = some (c, rest) := by
  cases c with
  | list t xs =>
    simp [Const.ty, constOk] at hok
    simp [printConstL] at hf
    have h1 := parseTy_printTyL w t (0 :: p) f (.rpar :: .ws :: .lbrack :: (printElems xs ++ .rbrack :: rest)) (by omega)
    have h2 := parseElemBracket_print xs t f rest hok (by omega)
    simp [printConstL, parseConst, conKindOfWord_kw, parseTy_ws, h1, h2]
  | pair a b x y =>
    simp [Const.ty, constOk] at hok
    simp [printConstL, sepTokens] at hf
    obtain ⟨g, rfl⟩ : ∃ g, f = g + 1 := ⟨f - 1, by omega⟩
    have h0 := skipWs_of_noLeadWs (printTyL_noLeadWs w (0 :: p) a)
      (.ws :: (printTyL w (1 :: p) b ++ .rpar :: .ws :: .lpar :: (printElem x ++ sepTokens ++ printElem y ++ .rpar :: rest)))
    have h1 := parseTy_printTyL w a (0 :: p) (g + 1)
      (.ws :: (printTyL w (1 :: p) b ++ .rpar :: .ws :: .lpar :: (printElem x ++ sepTokens ++ printElem y ++ .rpar :: rest))) (by omega)
    have h2 := parseTy_printTyL w b (1 :: p) (g + 1)
      (.rpar :: .ws :: .lpar :: (printElem x ++ sepTokens ++ printElem y ++ .rpar :: rest)) (by omega)
    have h3 := parseElemPair_of a b x y g rest (printElem_noLeadWs a x hok.1) (printElem_noLeadWs b y hok.2)
      (fun r => parseElem_print x a g r hok.1 (by omega))
      (fun r => parseElem_print y b g r hok.2 (by omega))
    have h0b := skipWs_of_noLeadWs (printTyL_noLeadWs w (1 :: p) b)
      (.rpar :: .ws :: .lpar :: (printElem x ++ sepTokens ++ printElem y ++ .rpar :: rest))
    simp only [List.append_assoc] at h0 h0b h1 h2 h3
    simp [printConstL, parseConst, conKindOfWord_kw, h0, h0b, h1, h2, h3]
  | _ =>
    simp only [printConstL] at hf ⊢
    exact parseConst_print _ f rest hok hf

-- ------------------------------------------------------------------ terms
theorem printTermL_noLeadWs (w : Layout) (p : List Nat) (t : Term Name) : NoLeadWs (printTermL w p t) := by
  cases t <;> (simp only [printTermL, List.cons_append, List.nil_append]; exact ⟨_, _, rfl, by simp⟩)

theorem printTermL_length (w : Layout) (p : List Nat) (t : Term Name) : 1 ≤ (printTermL w p t).length := by
  obtain ⟨tk, r, e, -⟩ := printTermL_noLeadWs w p t
  rw [e]; simp

mutual
  /-- parsing a printed term, whatever the layout, gives the term with its names re-interned -/
  theorem parseTerm_printL (w : Layout) : (t : Term Name) → ∀ (p : List Nat) (f : Nat) (st : Interner) (rest : List Token),
      termOk t = true → (printTermL w p t).length ≤ f →
      parseTerm f st (printTermL w p t ++ rest) = some ((relabel st t).1, (relabel st t).2, rest)
    | .var n => by
      intro p f st rest hok hf
      simp [termOk, validName] at hok
      simp [printTermL] at hf
      obtain ⟨g, rfl⟩ : ∃ g, f = g + 1 := ⟨f - 1, by omega⟩
      simp [printTermL, BinderText.text, parseTerm_word, altVar, hok.1, relabel, nameChars]
    | .lam n b => by
      intro p f st rest hok hf
      simp [termOk, validName] at hok
      replace hok := And.intro hok.1.1 hok.2
      simp [printTermL] at hf
      obtain ⟨g, rfl⟩ : ∃ g, f = g + 1 := ⟨f - 1, by omega⟩
      have h1 := skipWs_of_noLeadWs (printTermL_noLeadWs w (0 :: p) b) (soft (w p) ++ .rpar :: rest)
      have h2 := parseTerm_printL w b (0 :: p) g (intern (nameChars n) st).2 (soft (w p) ++ .rpar :: rest) hok.2 (by omega)
      simp only [printTermL, List.cons_append, List.nil_append, List.append_assoc] at h1 h2 ⊢
      rw [parseTerm_lam]
      simp [altLam, kwTerm_eq, afterKeyword_hit, BinderText.text, hok.1, h1]
      simp [nameChars] at h2
      simp [h2, relabel, nameChars]
    | .app a b => by
      intro p f st rest hok hf
      simp [termOk] at hok
      simp [printTermL] at hf
      obtain ⟨g, rfl⟩ : ∃ g, f = g + 1 := ⟨f - 1, by omega⟩
      obtain ⟨g', rfl⟩ : ∃ g', g = g' + 1 := ⟨g - 1, by omega⟩
      have h1 := skipWs_of_noLeadWs (printTermL_noLeadWs w (0 :: p) a) (.ws :: (printTermL w (1 :: p) b ++ .ws :: .rbrack :: rest))
      have h2 := parseTerm_printL w a (0 :: p) (g' + 1) st (.ws :: (printTermL w (1 :: p) b ++ .ws :: .rbrack :: rest)) hok.1 (by omega)
      have h3 := skipWs_of_noLeadWs (printTermL_noLeadWs w (1 :: p) b) (.ws :: .rbrack :: rest)
      have h4 := parseTerm_printL w b (1 :: p) g' (relabel st a).2 (.ws :: .rbrack :: rest) hok.2 (by omega)
      obtain ⟨g'', rfl⟩ : ∃ g'', g' = g'' + 1 := ⟨g' - 1, by have := printTermL_length w (1 :: p) b; omega⟩
      have h5 := parseTerms_close g'' (relabel (relabel st a).2 b).2 .rbrack rest (Or.inr rfl)
      have h6 := parseTerms_cons_of h4 (by simpa using h5)
      simp only [printTermL, List.cons_append, List.nil_append, List.append_assoc]
      rw [parseTerm_lbrack]
      simp [altApply, h1, h2, h3, h6, applyAll, relabel]
    | .delay t => by
      intro p f st rest hok hf
      simp [termOk] at hok
      simp [printTermL] at hf
      obtain ⟨g, rfl⟩ : ∃ g, f = g + 1 := ⟨f - 1, by omega⟩
      have h1 := skipWs_of_noLeadWs (printTermL_noLeadWs w (0 :: p) t) (soft (w p) ++ .rpar :: rest)
      have h2 := parseTerm_printL w t (0 :: p) g st (soft (w p) ++ .rpar :: rest) hok (by omega)
      simp only [printTermL, List.cons_append, List.nil_append, List.append_assoc] at h1 h2 ⊢
      rw [parseTerm_delay]
      simp [altUnary, kwTerm_eq, afterKeyword_hit, h1, h2, relabel]
    | .force t => by
      intro p f st rest hok hf
      simp [termOk] at hok
      simp [printTermL] at hf
      obtain ⟨g, rfl⟩ : ∃ g, f = g + 1 := ⟨f - 1, by omega⟩
      have h1 := skipWs_of_noLeadWs (printTermL_noLeadWs w (0 :: p) t) (soft (w p) ++ .rpar :: rest)
      have h2 := parseTerm_printL w t (0 :: p) g st (soft (w p) ++ .rpar :: rest) hok (by omega)
      simp only [printTermL, List.cons_append, List.nil_append, List.append_assoc] at h1 h2 ⊢
      rw [parseTerm_force]
      simp [altUnary, kwTerm_eq, afterKeyword_hit, h1, h2, relabel]
    | .error => by
      intro p f st rest _ hf
      simp [printTermL] at hf
      obtain ⟨g, rfl⟩ : ∃ g, f = g + 1 := ⟨f - 1, by omega⟩
      simp only [printTermL, List.cons_append, List.nil_append]
      rw [parseTerm_error]
      simp [altError, kwTerm_eq, afterKeyword_hit, relabel]
    | .builtin b => by
      intro p f st rest _ hf
      simp [printTermL] at hf
      obtain ⟨g, rfl⟩ : ∃ g, f = g + 1 := ⟨f - 1, by omega⟩
      simp only [printTermL, List.cons_append, List.nil_append, List.append_assoc]
      rw [parseTerm_builtin]
      simp [altBuiltin, kwTerm_eq, afterKeyword_hit, isIdent_display, builtinOfWord_display, relabel]
    | .const c => by
      intro p f st rest hok hf
      simp [termOk] at hok
      simp [printTermL] at hf
      obtain ⟨g, rfl⟩ : ∃ g, f = g + 1 := ⟨f - 1, by omega⟩
      have h1 := skipWs_of_noLeadWs (printConstL_noLeadWs w (0 :: p) c hok) (soft (w p) ++ .rpar :: rest)
      have h2 := parseConst_printL w (0 :: p) c g (soft (w p) ++ .rpar :: rest) hok (by omega)
      simp only [printTermL, List.cons_append, List.nil_append, List.append_assoc] at h1 h2 ⊢
      rw [parseTerm_con]
      simp [altConst, kwTerm_eq, afterKeyword_hit, h1, h2, relabel]
    | .constr tag fs => by
      intro p f st rest hok hf
      simp [termOk] at hok
      simp [printTermL] at hf
      obtain ⟨g, rfl⟩ : ∃ g, f = g + 1 := ⟨f - 1, by omega⟩
      have h1 := parseTerms_printL w fs p 0 g st (w p) rest hok.2 (by omega)
      have e1 : (natChars tag).takeWhile isDigit = natChars tag := takeWhile_all _ _ (natChars_all_digit tag)
      have e2 : (natChars tag).dropWhile isDigit = [] := dropWhile_all _ _ (natChars_all_digit tag)
      simp only [printTermL, List.cons_append, List.nil_append, List.append_assoc] at h1 ⊢
      rw [parseTerm_constr]
      simp [altConstr, kwTerm_eq, afterKeyword_hit, e1, e2, parseDecimal_natChars tag hok.1, h1, relabel]
    | .case s bs => by
      intro p f st rest hok hf
      simp [termOk] at hok
      simp [printTermL] at hf
      obtain ⟨g, rfl⟩ : ∃ g, f = g + 1 := ⟨f - 1, by omega⟩
      have h0 := skipWs_of_noLeadWs (printTermL_noLeadWs w (0 :: p) s) (printTermsL w p 1 bs ++ (soft (w p) ++ .rpar :: rest))
      have h1 := parseTerm_printL w s (0 :: p) g st (printTermsL w p 1 bs ++ (soft (w p) ++ .rpar :: rest)) hok.1 (by omega)
      have h2 := parseTerms_printL w bs p 1 g (relabel st s).2 (w p) rest hok.2 (by omega)
      simp only [printTermL, List.cons_append, List.nil_append, List.append_assoc] at h0 h1 h2 ⊢
      rw [parseTerm_case]
      simp [altCase, kwTerm_eq, afterKeyword_hit, h0, h1, h2, relabel]
  theorem parseTerms_printL (w : Layout) : (ts : List (Term Name)) → ∀ (p : List Nat) (i : Nat) (f : Nat) (st : Interner)
      (b : Bool) (rest : List Token), termsOk ts = true → (printTermsL w p i ts).length + 2 ≤ f →
      parseTerms f st (skipWs (printTermsL w p i ts ++ (soft b ++ .rpar :: rest))) =
        some ((relabelList st ts).1, (relabelList st ts).2, .rpar :: rest)
    | [] => by
      intro p i f st b rest _ hf
      obtain ⟨g, rfl⟩ : ∃ g, f = g + 1 := ⟨f - 1, by omega⟩
      simp [printTermsL, parseTerms_close g st .rpar rest (Or.inl rfl), relabelList]
    | t :: ts => by
      intro p i f st b rest hok hf
      simp [termsOk] at hok
      simp [printTermsL] at hf
      obtain ⟨g, rfl⟩ : ∃ g, f = g + 1 := ⟨f - 1, by omega⟩
      have h1 := skipWs_of_noLeadWs (printTermL_noLeadWs w (i :: p) t) (printTermsL w p (i + 1) ts ++ (soft b ++ .rpar :: rest))
      have h2 := parseTerm_printL w t (i :: p) g st (printTermsL w p (i + 1) ts ++ (soft b ++ .rpar :: rest)) hok.1 (by omega)
      have h3 := parseTerms_printL w ts p (i + 1) g (relabel st t).2 b rest hok.2 (by omega)
      simp only [printTermsL, List.cons_append, List.append_assoc, skipWs_ws] at h1 h2 h3 ⊢
      simp [parseTerms, h1, h2, h3, relabelList]
end

-- ------------------------------------------------------------------ programs
theorem parseProgram_printL (w : Layout) (p : Program Name) (hok : programOk p = true) :
    parseProgram (printProgramTokensL w p) = some ⟨p.version, (relabel [] p.term).1⟩ := by
  simp [programOk] at hok
  obtain ⟨⟨⟨h1, h2⟩, h3⟩, h4⟩ := hok
  have hv := parseVersion_versionChars p.version h1 h2 h3
  have hs := skipWs_of_noLeadWs (printTermL_noLeadWs w [0] p.term) (soft (w []) ++ [.rpar])
  have ht := parseTerm_printL w p.term [0] ((printProgramTokensL w p).length + 1) [] (soft (w []) ++ [.rpar]) h4
    (by simp [printProgramTokensL]; omega)
  simp only [printProgramTokensL, List.cons_append, List.nil_append, List.append_assoc] at ht hs ⊢
  simp [parseProgram, parseProgramFuel, afterKeyword, program_kw, hv, hs]
  simp at ht
  simp [ht]

-- ------------------------------------------------------------------ the flat rendering is one of the layouts
theorem printTyL_flat (t : Ty) : ∀ p, printTyL (fun _ => false) p t = printTy t := by
  induction t with
  | list t ih => intro p; simp [printTyL, printTy, soft, ih]
  | pair a b iha ihb => intro p; simp [printTyL, printTy, iha, ihb]
  | _ => intro p; simp [printTyL]

theorem printConstL_flat (c : Const) (p : List Nat) : printConstL (fun _ => false) p c = printConst c := by
  cases c <;> simp [printConstL, printConst, printTyL_flat]

mutual
  theorem printTermL_flat : (t : Term Name) → ∀ p, printTermL (fun _ => false) p t = printTerm t
    | .var n => by intro p; simp [printTermL, printTerm]
    | .lam n b => by intro p; simp [printTermL, printTerm, soft, printTermL_flat b]
    | .app f a => by intro p; simp [printTermL, printTerm, printTermL_flat f, printTermL_flat a]
    | .delay t => by intro p; simp [printTermL, printTerm, soft, printTermL_flat t]
    | .force t => by intro p; simp [printTermL, printTerm, soft, printTermL_flat t]
    | .error => by intro p; simp [printTermL, printTerm]
    | .builtin b => by intro p; simp [printTermL, printTerm, soft]
    | .const c => by intro p; simp [printTermL, printTerm, soft, printConstL_flat]
    | .constr tag fs => by intro p; simp [printTermL, printTerm, soft, printTermsL_flat fs]
    | .case s bs => by intro p; simp [printTermL, printTerm, soft, printTermL_flat s, printTermsL_flat bs]
  theorem printTermsL_flat : (ts : List (Term Name)) → ∀ p i, printTermsL (fun _ => false) p i ts = printTerms ts
    | [] => by intro p i; simp [printTermsL, printTerms]
    | t :: ts => by intro p i; simp [printTermsL, printTerms, printTermL_flat t, printTermsL_flat ts]
end

theorem printProgramTokensL_flat (p : Program Name) : printProgramTokensL (fun _ => false) p = printProgramTokens p := by
  simp [printProgramTokensL, printProgramTokens, printTermL_flat, soft]

end AikenVerif.Text
