import AikenVerif.Model.ErrorClass
import AikenVerif.Lemmas.Mini
import AikenVerif.Lemmas.MiniTypes
/-!
# C06 — well-typed programs cannot go wrong

Level: translation validation.  What is machine-checked here:

* `classify_total`: every variant of the GENERATED `machine::Error` enum is classified as exactly
  one of structural | requested | budget (a variant added to `machine/error.rs` makes
  `Model/ErrorClass.lean` fail to compile, so it cannot go unclassified); the harness
  (`c06-classify`) has no table of its own — it asks `driver errclass`.
* `structural_variants`: the exact list of variants C06 forbids.
* on the source semantics: the failures a program can ASK for are exactly the `abort` outcomes;
  `stuck` (ill-typed) never comes out of `fail` / `todo` / a failed `expect` / a partial operator
  applied to values of the right type (`requested_failures_abort`).

* `well_typed_never_stuck_partial` / `well_typed_call_never_stuck_partial`: TYPE SOUNDNESS of the
  source semantics for the first-order fragment (literals, `let`, `if`, `&&`/`||`, strict operators,
  tuples, lists, user data types with field access, `Data` up- and down-casts (a down-cast aborts or
  yields a value of the requested type: `fromData_ty`), recursive top-level functions, `fail`/`todo`,
  `expect` and `when` over constructor / list / tuple / literal patterns, `trace`, `?`): a well-typed expression of a well-typed program is never `stuck` —
  for every fuel, tracing mode and well-typed arguments — and its value has its type.  `_partial`:
  closures / higher-order application are outside the typed fragment.

Not proved: type soundness of the real checker and code generator for all programs (that part is the
per-program validation of `c06-classify`).
-/
namespace AikenVerif.C06
open AikenVerif AikenVerif.Gen

theorem classify_total (e : MachineError) :
    classify e = .structural ∨ classify e = .requested ∨ classify e = .budget := by
  cases e <;> simp [classify]

/-- the list `MachineError.all` of the generated file is complete -/
theorem all_complete (e : MachineError) : e ∈ MachineError.all := by
  cases e <;> decide

/-- exactly these variants are structural -/
theorem structural_variants :
    MachineError.all.filter (fun e => classify e == .structural) =
      [.invalidStepKind, .openTermEvaluated, .nonPolymorphicInstantiation, .nonFunctionalApplication,
       .nonConstrScrutinized, .missingCaseBranch, .typeMismatch, .listTypeMismatch, .pairTypeMismatch,
       .unexpectedBuiltinTermArgument, .builtinTermArgumentExpected, .notAConstant,
       .machineNeverReachedDone] := by decide

/-- budget exhaustion is the only `budget` variant -/
theorem budget_variants :
    MachineError.all.filter (fun e => classify e == .budget) = [.outOfExError] := by decide

/-- the names the anchors of C06 list as forbidden are structural, the allowed ones are not -/
example : classify .typeMismatch = .structural ∧ classify .nonFunctionalApplication = .structural ∧
    classify .nonPolymorphicInstantiation = .structural ∧ classify .openTermEvaluated = .structural ∧
    classify .missingCaseBranch = .structural ∧ classify .notAConstant = .structural ∧
    classify .evaluationFailure = .requested ∧ classify .divideByZero = .requested ∧
    classify .emptyList = .requested ∧ classify .outOfExError = .budget := by decide

open Mini in
/-- on the source semantics, what a program asks for is an `abort`, never `stuck`:
`fail` / `todo`, a failed `expect`, division / modulo by zero, indexing out of bounds, a failed cast -/
theorem requested_failures_abort (P : Mini.Program) (m : Mode) (n : Nat) (env : Env) :
    (∀ t, result (evalSrc P m (n + 1) env (.fail t)) = .abort) ∧
    (∀ a : Int, binOp .div (.int a) (.int 0) = .abort ∧ binOp .mod (.int a) (.int 0) = .abort) ∧
    (∀ (b : Bytes) (i : Int), i < 0 → binOp .index (.bytes b) (.int i) = .abort) ∧
    (∀ (p : Pat) (v : Val) (a b : Expr), matchPat p v = none →
      eval P m n env a = ret v → result (evalSrc P m (n + 1) env (.expect p a b)) = .abort) := by
  refine ⟨fun t => rfl, fun a => ⟨by simp [binOp], by simp [binOp]⟩, fun b i hi => ?_, fun p v a b hp he => ?_⟩
  · simp only [binOp]
    have : ¬ (0 ≤ i) := by omega
    simp [this]
  · simp only [evalSrc, result, eval, he, ret, bind_val, hp, abortM]

open Mini in
/-- **type soundness, first-order fragment**: never `stuck`; a value has the expression's type -/
theorem well_typed_never_stuck_partial (S : Sig) (P : Mini.Program) (hP : ProgTy S P) (m : Mode) (fuel : Nat)
    (Γ : Ctx) (env : Env) (e : Expr) (t : MTy) (h : HasTy P.adts S Γ e t) (henv : envOk P.adts Γ env) :
    result (evalSrc P m fuel env e) ≠ .stuck ∧
    ∀ v, result (evalSrc P m fuel env e) = .val v → valTy P.adts v t = true := by
  have hs := (sound_step S P m hP fuel).1 Γ env e t h henv
  unfold result evalSrc
  generalize (eval P m fuel env e).1 = o at hs
  cases o <;> simp_all [Ok, Good]

open Mini in
/-- the same at a validator / test entry point: calling a function of the signature table on
arguments of the declared types -/
theorem well_typed_call_never_stuck_partial (S : Sig) (P : Mini.Program) (hP : ProgTy S P) (m : Mode)
    (fuel : Nat) (f : Nat) (argtys : List MTy) (r : MTy) (args : List Val)
    (hsig : S[f]? = some (argtys, r)) (hargs : zipTy P.adts args argtys = true) :
    result (runCall P m fuel f args) ≠ .stuck ∧
    ∀ v, result (runCall P m fuel f args) = .val v → valTy P.adts v r = true := by
  obtain ⟨xs, body, hf, hlen, hbody⟩ := hP f argtys r hsig
  obtain ⟨env, hbp, hok⟩ := bindParams_ok xs args argtys hlen hargs
  simp only [runCall, hf, hbp]
  exact well_typed_never_stuck_partial S P hP m fuel _ env body r hbody hok

namespace Example
open Mini
/-- `fn sum(xs: List<Int>) -> Int { when xs is { [] -> 0  [h, ..t] -> h + sum(t) } }` and
`fn fact(n: Int) -> Int { if n <= 0 { 1 } else { n * fact(n - 1) } }` -/
def sumBody : Expr :=
  .when (.var 0) [(.nil, .lit (.int 0)),
                  (.cons (.var 1) (.var 2), .bin .add (.var 1) (.call 0 [.var 2]))]
def factBody : Expr :=
  .ite (.bin .le (.var 0) (.lit (.int 0))) (.lit (.int 1))
    (.bin .mul (.var 0) (.call 1 [.bin .sub (.var 0) (.lit (.int 1))]))
/-- `type Shape { Circle(Int)  Rect(Int, Int) }` and
`fn area(s: Shape) -> Int { when s is { Circle(r) -> r * r  Rect(w, h) -> w * h } }` -/
def areaBody : Expr :=
  .when (.var 0) [(.con 0 [.var 1], .bin .mul (.var 1) (.var 1)),
                  (.con 1 [.var 1, .var 2], .bin .mul (.var 1) (.var 2))]
/-- `fn cast(x: Int) -> Int { let d: Data = x  expect y: Int = d  y }` -/
def castBody : Expr := .un (.fromData .int) (.un .toData (.var 0))
def adts : Adts := [[[.int], [.int, .int]]]
def prog : Mini.Program :=
  { adts := adts, fns := [([0], sumBody), ([0], factBody), ([0], areaBody), ([0], castBody)], lams := [] }
def sig : Sig := [([.list .int], .int), ([.int], .int), ([.adt 0], .int), ([.int], .int)]

theorem sum_typed : HasTy adts sig [(0, .list .int)] sumBody .int := by
  refine .when _ _ _ (.list .int) _ (.var _ _ _ rfl) ?_ ?_ ?_
  · intro c hc
    simp only [List.mem_cons, List.not_mem_nil, or_false] at hc
    rcases hc with rfl | rfl <;> rfl
  · intro c hc Γp hp
    simp only [List.mem_cons, List.not_mem_nil, or_false] at hc
    rcases hc with rfl | rfl
    · simp only [patCtx, Option.some.injEq] at hp; subst hp; exact .lit_int _ _
    · simp only [patCtx, Option.some.injEq] at hp; subst hp
      exact .bin _ _ _ _ .int .int _ (.var _ _ _ rfl)
        (.call _ 0 _ [.list .int] _ rfl (.cons _ _ _ _ _ (.var _ _ _ rfl) (.nil _))) .add
  · intro v hv
    obtain ⟨vs, rfl, _⟩ := valTy_list hv
    cases vs <;> simp [firstMatch, matchPat]

theorem fact_typed : HasTy adts sig [(0, .int)] factBody .int :=
  .ite _ _ _ _ _ (.bin _ _ _ _ .int .int _ (.var _ _ _ rfl) (.lit_int _ _) .le) (.lit_int _ _)
    (.bin _ _ _ _ .int .int _ (.var _ _ _ rfl)
      (.call _ 1 _ [.int] _ rfl
        (.cons _ _ _ _ _ (.bin _ _ _ _ .int .int _ (.var _ _ _ rfl) (.lit_int _ _) .sub) (.nil _))) .mul)

theorem area_typed : HasTy adts sig [(0, .adt 0)] areaBody .int := by
  refine .when _ _ _ (.adt 0) _ (.var _ _ _ rfl) ?_ ?_ ?_
  · intro c hc
    simp only [List.mem_cons, List.not_mem_nil, or_false] at hc
    rcases hc with rfl | rfl <;> rfl
  · intro c hc Γp hp
    simp only [List.mem_cons, List.not_mem_nil, or_false] at hc
    rcases hc with rfl | rfl
    · have : Γp = [(1, .int)] := by
        have h' : patCtx adts (.con 0 [.var 1]) (.adt 0) = some [(1, .int)] := rfl
        rw [h'] at hp; exact (Option.some.inj hp).symm
      subst this
      exact .bin _ _ _ _ .int .int _ (.var _ _ _ rfl) (.var _ _ _ rfl) .mul
    · have : Γp = [(2, .int), (1, .int)] := by
        have h' : patCtx adts (.con 1 [.var 1, .var 2]) (.adt 0) = some [(2, .int), (1, .int)] := rfl
        rw [h'] at hp; exact (Option.some.inj hp).symm
      subst this
      exact .bin _ _ _ _ .int .int _ (.var _ _ _ rfl) (.var _ _ _ rfl) .mul
  · intro v hv
    obtain ⟨tag, vs, ctors, tys, rfl, h1, h2, hz⟩ := valTy_adt hv
    simp only [adts, List.getElem?_cons_zero, Option.some.injEq] at h1
    subst h1
    match tag, vs with
    | 0, [x] => simp [firstMatch, matchPat, matchPats]
    | 1, [x, y] => simp [firstMatch, matchPat, matchPats]
    | 0, [] => simp at h2; subst h2; simp [zipTy] at hz
    | 0, _ :: _ :: _ => simp at h2; subst h2; simp [zipTy] at hz
    | 1, [] => simp at h2; subst h2; simp [zipTy] at hz
    | 1, [_] => simp at h2; subst h2; simp [zipTy] at hz
    | 1, _ :: _ :: _ :: _ => simp at h2; subst h2; simp [zipTy] at hz
    | n + 2, _ => simp at h2

/-- the premises of the soundness theorem are satisfiable by a recursive program with a `when` -/
theorem prog_typed : ProgTy sig prog := by
  intro f argtys r h
  match f with
  | 0 => simp only [sig, List.getElem?_cons_zero, Option.some.injEq, Prod.mk.injEq] at h
         obtain ⟨rfl, rfl⟩ := h
         exact ⟨[0], sumBody, rfl, rfl, sum_typed⟩
  | 1 => simp only [sig, List.getElem?_cons_succ, List.getElem?_cons_zero, Option.some.injEq, Prod.mk.injEq] at h
         obtain ⟨rfl, rfl⟩ := h
         exact ⟨[0], factBody, rfl, rfl, fact_typed⟩
  | 2 => simp only [sig, List.getElem?_cons_succ, List.getElem?_cons_zero, Option.some.injEq, Prod.mk.injEq] at h
         obtain ⟨rfl, rfl⟩ := h
         exact ⟨[0], areaBody, rfl, rfl, area_typed⟩
  | 3 => simp only [sig, List.getElem?_cons_succ, List.getElem?_cons_zero, Option.some.injEq, Prod.mk.injEq] at h
         obtain ⟨rfl, rfl⟩ := h
         exact ⟨[0], castBody, rfl, rfl,
           .un _ _ _ .data _ (.un _ _ _ .int _ (.var _ _ _ rfl) (.toData _)) (.fromData _)⟩
  | n + 4 => simp [sig] at h

/-- … and the conclusion is not about an empty set of runs: `sum([1, 2, 3]) = 6`, `fact(5) = 120` -/
example : result (runCall prog .verbose 20 0 [.list [.int 1, .int 2, .int 3]]) = .val (.int 6) := by rfl
example : result (runCall prog .verbose 20 1 [.int 5]) = .val (.int 120) := by rfl
example : result (runCall prog .verbose 20 2 [.con 1 [.int 3, .int 4]]) = .val (.int 12) := by rfl
example : result (runCall prog .verbose 20 3 [.int 7]) = .val (.int 7) := by rfl
end Example

end AikenVerif.C06
