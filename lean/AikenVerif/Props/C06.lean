import AikenVerif.Model.ErrorClass
import AikenVerif.Lemmas.Mini
/-!
# C06 — well-typed programs cannot go wrong

Level: translation validation.  What is machine-checked here:

* `classify_total`: every variant of the GENERATED `machine::Error` enum is classified as exactly
  one of structural | requested | budget (a variant added to `machine/error.rs` makes
  `Model/ErrorClass.lean` fail to compile, so it cannot go unclassified); the harness
  (`c06-classify`) has no table of its own — it asks `driver errclass`.
* `structural_variants`: the exact list of variants C06 forbids.
* on the source semantics: the failures a program can ASK for are exactly the `abort` outcomes;
  `stuck` (ill-typed) never comes out of `fail` / `todo` / a failed `expect` / a partial operator
  applied to values of the right type (`requested_failures_abort`).

Not proved: type soundness of the real checker and code generator for all programs (that part is the
per-program validation of `c06-classify`).
-/
namespace AikenVerif.C06
open AikenVerif AikenVerif.Gen

theorem classify_total (e : MachineError) :
    classify e = .structural ∨ classify e = .requested ∨ classify e = .budget := by
  cases e <;> simp [classify]

/-- the list `MachineError.all` of the generated file is complete -/
theorem all_complete (e : MachineError) : e ∈ MachineError.all := by
  cases e <;> decide

/-- exactly these variants are structural -/
theorem structural_variants :
    MachineError.all.filter (fun e => classify e == .structural) =
      [.invalidStepKind, .openTermEvaluated, .nonPolymorphicInstantiation, .nonFunctionalApplication,
       .nonConstrScrutinized, .missingCaseBranch, .typeMismatch, .listTypeMismatch, .pairTypeMismatch,
       .unexpectedBuiltinTermArgument, .builtinTermArgumentExpected, .notAConstant,
       .machineNeverReachedDone] := by decide

/-- budget exhaustion is the only `budget` variant -/
theorem budget_variants :
    MachineError.all.filter (fun e => classify e == .budget) = [.outOfExError] := by decide

/-- the names the anchors of C06 list as forbidden are structural, the allowed ones are not -/
example : classify .typeMismatch = .structural ∧ classify .nonFunctionalApplication = .structural ∧
    classify .nonPolymorphicInstantiation = .structural ∧ classify .openTermEvaluated = .structural ∧
    classify .missingCaseBranch = .structural ∧ classify .notAConstant = .structural ∧
    classify .evaluationFailure = .requested ∧ classify .divideByZero = .requested ∧
    classify .emptyList = .requested ∧ classify .outOfExError = .budget := by decide

open Mini in
/-- on the source semantics, what a program asks for is an `abort`, never `stuck`:
`fail` / `todo`, a failed `expect`, division / modulo by zero, indexing out of bounds, a failed cast -/
theorem requested_failures_abort (P : Mini.Program) (m : Mode) (n : Nat) (env : Env) :
    (∀ t, result (evalSrc P m (n + 1) env (.fail t)) = .abort) ∧
    (∀ a : Int, binOp .div (.int a) (.int 0) = .abort ∧ binOp .mod (.int a) (.int 0) = .abort) ∧
    (∀ (b : Bytes) (i : Int), i < 0 → binOp .index (.bytes b) (.int i) = .abort) ∧
    (∀ (p : Pat) (v : Val) (a b : Expr), matchPat p v = none →
      eval P m n env a = ret v → result (evalSrc P m (n + 1) env (.expect p a b)) = .abort) := by
  refine ⟨fun t => rfl, fun a => ⟨by simp [binOp], by simp [binOp]⟩, fun b i hi => ?_, fun p v a b hp he => ?_⟩
  · simp only [binOp]
    have : ¬ (0 ≤ i) := by omega
    simp [this]
  · simp only [evalSrc, result, eval, he, ret, bind_val, hp, abortM]

end AikenVerif.C06
