import AikenVerif.Lemmas.GenState
/-!
# C09 — builds are deterministic: the state-machine part

Over the model of `Model/GenState.lean`:

* `finalize_resets` — after `finalize` every resettable component of the
  generator is what `CodeGenerator::new` creates; only the constant cache survives;
* `interner_balanced` — well-scoped code (every `intern t` closed by its
  `pop_text t`, variables looked up inside their binder) never hits the
  `unreachable!` of the interner, returns the identifier map to exactly its prior
  value, and moves the two counters by amounts that depend on the code alone —
  so they only grow (`interner_counters_grow`), until `finalize` resets them;
* `cached_constant_replay` — running a request with the constant cache
  (replaying `(interner_delta, id_gen_delta)` for every cached constant) gives
  the same state, the same output and again a valid cache as recompiling every
  constant at every reference — for ALL requests, states and valid caches;
* `history_independent` — for an ABSTRACT deterministic `compile` that can read
  only the resettable state and the cache: if cache contents are transparent
  (hypotheses spelled out), the output for a request after ANY history of
  requests equals the output of a fresh generator;
  `history_independent_concrete` discharges the hypotheses for the concrete
  machine (so they are satisfiable, and by the mechanism the code uses), and
  `reset_is_necessary` shows the theorem fails for a `finalize` that does not reset;
* `fold_perm_invariant`, `sort_after_collect` — the two justifications accepted
  by `tools/sites.py` for iterating a hash map on the output path.
-/
namespace AikenVerif.C09
open AikenVerif.GenState

/-! ### finalize -/

/-- **`finalize` resets.**  Interner (map and counter), id generator, special,
defined and cyclic functions are back to their initial values; the cache is kept. -/
theorem finalize_resets (g : Gen) :
    (finalize g).r = Resettable.init ∧ (finalize g).cache = g.cache
    ∧ (finalize g).r.cur = 0 ∧ (finalize g).r.idg = 0
    ∧ (finalize g).r.special = [] ∧ (finalize g).r.defined = [] ∧ (finalize g).r.cyclic = []
    ∧ ∀ t, (finalize g).r.ids t = [] := by
  simp [finalize, Resettable.init]

/-- the same for the abstract machine: whatever was compiled, the next request starts from `init` -/
theorem generate_resets {Req O R C : Type} (M : Machine Req O R C) (q : Req) (g : R × C) :
    (M.generate q g).2.1 = M.init := rfl

/-! ### the interner is balanced -/

theorem with_zero (s : Resettable) : { s with cur := s.cur + 0, idg := s.idg + 0 } = s := by
  cases s; rfl

/-- **Scoped intern/pop restores the map; the counters move by a function of the code.** -/
theorem interner_balanced (env : List Text) (b : List Instr) (h : Scoped env b) :
    ∀ s : Resettable, (∀ t ∈ env, s.ids t ≠ []) →
      ∃ o, runBody b s = some ({ s with cur := s.cur + nIntern b, idg := s.idg + nFresh b }, o) := by
  induction h with
  | nil env => intro s _; exact ⟨[], by simp [runBody, nIntern, nFresh]⟩
  | emit env t rest ht _ ih =>
    intro s hs
    obtain ⟨o, ho⟩ := ih s hs
    have hne := hs t ht
    cases hid : s.ids t with
    | nil => exact absurd hid hne
    | cons u us =>
      refine ⟨[t, u] ++ o, ?_⟩
      simp only [runBody, step, lookup, hid, List.head?_cons, Option.map_some, ho, nIntern, nFresh]
  | fresh env rest _ ih =>
    intro s hs
    obtain ⟨o, ho⟩ := ih { s with idg := s.idg + 1 } hs
    refine ⟨[s.idg] ++ o, ?_⟩
    simp only [runBody, step, ho, nIntern, nFresh]
    congr 2
    simp only [Resettable.mk.injEq, true_and, and_true]
    omega
  | scope env t body rest _ _ ihb ihr =>
    intro s hs
    -- after `intern t`
    have hs₁ : ∀ t' ∈ t :: env, (intern s t).ids t' ≠ [] := by
      intro t' ht'
      by_cases heq : t' = t
      · subst heq; simp [intern, updateIds]
      · have : t' ∈ env := by
          rcases List.mem_cons.mp ht' with h | h
          · exact absurd h heq
          · exact h
        simpa [intern, updateIds, heq] using hs t' this
    obtain ⟨ob, hob⟩ := ihb (intern s t) hs₁
    -- the state `rest` starts from: map restored, counters advanced
    let s₃ : Resettable := { s with cur := s.cur + 1 + nIntern body, idg := s.idg + nFresh body }
    have hs₃ : ∀ t' ∈ env, s₃.ids t' ≠ [] := hs
    obtain ⟨or, hor⟩ := ihr s₃ hs₃
    refine ⟨[] ++ (ob ++ ([] ++ or)), ?_⟩
    have hpop : runBody (Instr.pop t :: rest)
        { intern s t with cur := (intern s t).cur + nIntern body, idg := (intern s t).idg + nFresh body }
        = some ({ s₃ with cur := s₃.cur + nIntern rest, idg := s₃.idg + nFresh rest }, [] ++ or) := by
      simp only [runBody, step, popText, intern, updateIds_same, Option.map_some]
      have : ({ ids := updateIds (updateIds s.ids t (s.cur :: s.ids t)) t (s.ids t),
                cur := s.cur + 1 + nIntern body, idg := s.idg + nFresh body,
                special := s.special, defined := s.defined, cyclic := s.cyclic } : Resettable) = s₃ := by
        simp only [s₃, updateIds_restore]
      rw [this, hor]
    simp only [runBody, step]
    rw [runBody_append, hob]
    simp only [hpop]
    congr 2
    simp only [s₃, nIntern, nIntern_append, nFresh, nFresh_append, Resettable.mk.injEq, true_and, and_true]
    omega

/-- the counters only grow while a program is compiled (and `finalize` resets them: `finalize_resets`) -/
theorem interner_counters_grow (env : List Text) (b : List Instr) (h : Scoped env b) (s s' : Resettable)
    (o : Out) (hs : ∀ t ∈ env, s.ids t ≠ []) (hrun : runBody b s = some (s', o)) :
    s.cur ≤ s'.cur ∧ s.idg ≤ s'.idg ∧ s'.ids = s.ids := by
  obtain ⟨o', ho'⟩ := interner_balanced env b h s hs
  rw [ho'] at hrun
  simp only [Option.some.injEq, Prod.mk.injEq] at hrun
  obtain ⟨rfl, _⟩ := hrun
  exact ⟨Nat.le_add_right _ _, Nat.le_add_right _ _, rfl⟩

/-- non-vacuity: `fn(x) { fn(y) { x y } x }` with a fresh id, from a state where text 7 is already bound -/
example : Scoped [7] [.intern 1, .intern 2, .emit 1, .emit 2, .pop 2, .emit 1, .fresh, .pop 1, .emit 7] :=
  Scoped.scope [7] 1 [.intern 2, .emit 1, .emit 2, .pop 2, .emit 1, .fresh] [.emit 7]
    (Scoped.scope [1, 7] 2 [.emit 1, .emit 2] [.emit 1, .fresh]
      (Scoped.emit _ 1 _ (by simp) (Scoped.emit _ 2 _ (by simp) (Scoped.nil _)))
      (Scoped.emit _ 1 _ (by simp) (Scoped.fresh _ _ (Scoped.nil _))))
    (Scoped.emit _ 7 _ (by simp) (Scoped.nil _))

/-! ### cached constants: replaying the deltas = recompiling -/

theorem advance_eq (s : Resettable) (a b : Nat) :
    advance s a b = { s with cur := s.cur + a, idg := s.idg + b } := rfl

theorem valid_insert (D : Defs) (c : Cache) (k : Nat) (hc : c.Valid D) :
    (c.insert k ⟨D.val k, nIntern (D.body k), nFresh (D.body k)⟩).Valid D := by
  intro k' e he
  simp only [Cache.insert] at he
  by_cases h : k' = k
  · subst h; simp at he; exact he.symm
  · simp [h] at he; exact hc k' e he

theorem valid_empty (D : Defs) : Cache.empty.Valid D := by
  intro k e he; simp [Cache.empty] at he

/-- **Replay.**  Every constant definition closed and well-scoped.  For every
request `p`, every state `s`, every valid cache `c`: running `p` through the
cache (replaying `(interner_delta, id_gen_delta)` on a hit, measuring and
storing them on a miss) ends in the same state with the same output as
recompiling the constant at every reference — or both stop at the same
`unreachable!` — and the cache it leaves is valid again. -/
theorem cached_constant_replay (D : Defs) (hclosed : ∀ k, Scoped [] (D.body k)) :
    ∀ (p : List Instr) (s : Resettable) (c : Cache), c.Valid D →
      (exec D p s c).map (fun x => (x.1, x.2.1)) = execRe D p s
      ∧ ∀ s' o c', exec D p s c = some (s', o, c') → c'.Valid D := by
  intro p
  induction p with
  | nil =>
    intro s c hc
    refine ⟨by simp [exec, execRe], ?_⟩
    intro s' o c' h
    simp only [exec, Option.some.injEq, Prod.mk.injEq] at h
    obtain ⟨_, _, rfl⟩ := h
    exact hc
  | cons i rest ih =>
    intro s c hc
    -- the constant's definition run from `s`
    have hbody : ∀ k, ∃ o, runBody (D.body k) s =
        some ({ s with cur := s.cur + nIntern (D.body k), idg := s.idg + nFresh (D.body k) }, o) :=
      fun k => interner_balanced [] (D.body k) (hclosed k) s (by intro t ht; cases ht)
    have other : ∀ (i : Instr), (∀ k, i ≠ .const k) →
        exec D (i :: rest) s c =
          (match step i s with
           | none => none
           | some (s₁, o₁) =>
             match exec D rest s₁ c with
             | none => none
             | some (s', o, c') => some (s', o₁ ++ o, c'))
        ∧ execRe D (i :: rest) s =
          (match step i s with
           | none => none
           | some (s₁, o₁) =>
             match execRe D rest s₁ with
             | none => none
             | some (s', o) => some (s', o₁ ++ o)) := by
      intro i hi
      cases i <;> first
        | exact absurd rfl (hi _)
        | exact ⟨by rw [exec] <;> first | rfl | (intro k h; cases h),
                 by rw [execRe] <;> first | rfl | (intro k h; cases h)⟩
    by_cases hconst : ∃ k, i = .const k
    · obtain ⟨k, rfl⟩ := hconst
      obtain ⟨ob, hob⟩ := hbody k
      cases hck : c k with
      | some e =>
        have he := hc k e hck
        subst he
        obtain ⟨ih₁, ih₂⟩ := ih (advance s (nIntern (D.body k)) (nFresh (D.body k))) c hc
        constructor
        · simp only [exec, hck, execRe, hob, advance_eq]
          rw [advance_eq] at ih₁
          rw [← ih₁]
          generalize exec D rest { s with cur := s.cur + nIntern (D.body k), idg := s.idg + nFresh (D.body k) } c = r
          cases r with
          | none => rfl
          | some r => rfl
        · intro s' o c' h
          simp only [exec, hck] at h
          cases hr : exec D rest (advance s (nIntern (D.body k)) (nFresh (D.body k))) c with
          | none => simp [hr] at h
          | some r =>
            obtain ⟨s₂, o₂, c₂⟩ := r
            simp only [hr, Option.some.injEq, Prod.mk.injEq] at h
            obtain ⟨_, _, rfl⟩ := h
            exact ih₂ s₂ o₂ c₂ hr
      | none =>
        have hentry : (⟨D.val k,
            ({ s with cur := s.cur + nIntern (D.body k), idg := s.idg + nFresh (D.body k) } : Resettable).cur - s.cur,
            ({ s with cur := s.cur + nIntern (D.body k), idg := s.idg + nFresh (D.body k) } : Resettable).idg - s.idg⟩ : Entry)
            = ⟨D.val k, nIntern (D.body k), nFresh (D.body k)⟩ := by
          simp
        obtain ⟨ih₁, ih₂⟩ := ih { s with cur := s.cur + nIntern (D.body k), idg := s.idg + nFresh (D.body k) }
          (c.insert k ⟨D.val k, nIntern (D.body k), nFresh (D.body k)⟩) (valid_insert D c k hc)
        constructor
        · simp only [exec, hck, execRe, hob, hentry]
          rw [← ih₁]
          generalize exec D rest { s with cur := s.cur + nIntern (D.body k), idg := s.idg + nFresh (D.body k) }
            (c.insert k ⟨D.val k, nIntern (D.body k), nFresh (D.body k)⟩) = r
          cases r with
          | none => rfl
          | some r => rfl
        · intro s' o c' h
          simp only [exec, hck, hob, hentry] at h
          cases hr : exec D rest { s with cur := s.cur + nIntern (D.body k), idg := s.idg + nFresh (D.body k) }
              (c.insert k ⟨D.val k, nIntern (D.body k), nFresh (D.body k)⟩) with
          | none => simp [hr] at h
          | some r =>
            obtain ⟨s₂, o₂, c₂⟩ := r
            simp only [hr, Option.some.injEq, Prod.mk.injEq] at h
            obtain ⟨_, _, rfl⟩ := h
            exact ih₂ s₂ o₂ c₂ hr
    · have hi : ∀ k, i ≠ .const k := fun k h => hconst ⟨k, h⟩
      obtain ⟨e₁, e₂⟩ := other i hi
      rw [e₁, e₂]
      cases hs : step i s with
      | none => exact ⟨rfl, by intro s' o c' h; simp at h⟩
      | some r =>
        obtain ⟨s₁, o₁⟩ := r
        obtain ⟨ih₁, ih₂⟩ := ih s₁ c hc
        constructor
        · simp only []
          rw [← ih₁]
          generalize exec D rest s₁ c = r
          cases r with
          | none => rfl
          | some r => rfl
        · intro s' o c' h
          simp only [] at h
          cases hr : exec D rest s₁ c with
          | none => simp [hr] at h
          | some r =>
            obtain ⟨s₂, o₂, c₂⟩ := r
            simp only [hr, Option.some.injEq, Prod.mk.injEq] at h
            obtain ⟨_, _, rfl⟩ := h
            exact ih₂ s₂ o₂ c₂ hr

/-! ### history independence -/

theorem runHistory_inv {Req O R C : Type} (M : Machine Req O R C) (Valid : C → Prop)
    (hkeep : ∀ q c, Valid c → Valid (M.compile q M.init c).2.2) :
    ∀ (h : List Req) (g : R × C), g.1 = M.init → Valid g.2 →
      (M.runHistory h g).1 = M.init ∧ Valid (M.runHistory h g).2 := by
  intro h
  induction h with
  | nil => intro g h₁ h₂; exact ⟨h₁, h₂⟩
  | cons q rest ih =>
    intro g h₁ h₂
    simp only [Machine.runHistory, List.foldl_cons]
    apply ih
    · rfl
    · simp only [Machine.generate]
      rw [h₁]
      exact hkeep q g.2 h₂

/-- **History independence.**  `compile` is any deterministic function of the
request, the resettable state and the cache.  Hypotheses (explicit): there is a
notion of *valid* cache such that the empty cache is valid, compiling from the
initial state keeps the cache valid, and the output compiled from the initial
state does not depend on which valid cache is present.  Then for EVERY history
`h` of requests served by one generator and every request `q`, the output for
`q` is the output of a fresh generator. -/
theorem history_independent {Req O R C : Type} (M : Machine Req O R C) (Valid : C → Prop) (empty : C)
    (hempty : Valid empty)
    (hkeep : ∀ q c, Valid c → Valid (M.compile q M.init c).2.2)
    (htransparent : ∀ q c, Valid c → (M.compile q M.init c).1 = (M.compile q M.init empty).1)
    (h : List Req) (q : Req) :
    (M.generate q (M.runHistory h (M.init, empty))).1 = (M.generate q (M.init, empty)).1 := by
  obtain ⟨h₁, h₂⟩ := runHistory_inv M Valid hkeep h (M.init, empty) rfl hempty
  simp only [Machine.generate]
  rw [h₁]
  exact htransparent q _ h₂

/-- the hypotheses hold for the concrete machine — by `cached_constant_replay`, i.e. by the
mechanism the code relies on; so every history of requests gives the fresh output -/
theorem history_independent_concrete (D : Defs) (hclosed : ∀ k, Scoped [] (D.body k))
    (h : List (List Instr)) (q : List Instr) :
    ((concrete D).generate q ((concrete D).runHistory h (Resettable.init, Cache.empty))).1
      = ((concrete D).generate q (Resettable.init, Cache.empty)).1 := by
  have out_eq : ∀ q c, c.Valid D →
      ((concrete D).compile q Resettable.init c).1 = (execRe D q Resettable.init).map (·.2) := by
    intro q c hc
    obtain ⟨h₁, _⟩ := cached_constant_replay D hclosed q Resettable.init c hc
    simp only [concrete]
    rw [← h₁]
    cases exec D q Resettable.init c with
    | none => rfl
    | some r => rfl
  apply history_independent (concrete D) (Cache.Valid D) Cache.empty (valid_empty D)
  · intro q c hc
    obtain ⟨_, h₂⟩ := cached_constant_replay D hclosed q Resettable.init c hc
    simp only [concrete]
    cases hr : exec D q Resettable.init c with
    | none => exact hc
    | some r =>
      obtain ⟨s', o, c'⟩ := r
      exact h₂ s' o c' hr
  · intro q c hc
    exact (out_eq q c hc).trans (out_eq q Cache.empty (valid_empty D)).symm

/-- a project with one constant (`fn(a) { fn(b) { a } }`-shaped definition using a fresh id) -/
def exampleDefs : Defs where
  body := fun _ => [.intern 1, .fresh, .intern 2, .emit 1, .pop 2, .pop 1]
  val := fun k => 40 + k

example : ∀ k, Scoped [] (exampleDefs.body k) := fun _ =>
  Scoped.scope [] 1 [.fresh, .intern 2, .emit 1, .pop 2] []
    (Scoped.fresh _ _ (Scoped.scope [1] 2 [.emit 1] [] (Scoped.emit _ 1 _ (by simp) (Scoped.nil _)) (Scoped.nil _)))
    (Scoped.nil _)

/-- the cache is really used and really replayed: the second request finds constant 0 cached,
its names still get the uniques (2, not 0) a recompilation would have produced -/
example :
    let q : List Instr := [.const 0, .intern 5, .emit 5, .pop 5, .fresh]
    (exec exampleDefs q Resettable.init Cache.empty).map (·.2.1) = some [40, 5, 2, 1]
    ∧ (exec exampleDefs q Resettable.init (Cache.empty.insert 0 ⟨40, 2, 1⟩)).map (·.2.1) = some [40, 5, 2, 1]
    ∧ (exec exampleDefs q Resettable.init (Cache.empty.insert 0 ⟨40, 0, 0⟩)).map (·.2.1) = some [40, 5, 0, 0] := by
  decide

/-- **The reset is necessary**: with a `finalize` that keeps `defined_functions`, the same request
compiled twice gives two different programs (the hoisted definition is missing the second time) -/
theorem reset_is_necessary :
    let M := concrete exampleDefs
    let q : List Instr := [.define 3, .emit 9]
    let q' : List Instr := [.define 3]
    (M.generateNoReset q' (M.generateNoReset q' (Resettable.init, Cache.empty)).2).1
      ≠ (M.generateNoReset q' (Resettable.init, Cache.empty)).1
    ∧ (M.generate q (Resettable.init, Cache.empty)).1 = none := by
  decide

/-! ### iterating a hash map on the output path -/

/-- **Commutative fold.**  A reduction with an associative and commutative
operation gives the same result for every order in which a hash map hands out
its entries (`List.Perm` = "same entries, any order"). -/
theorem fold_perm_invariant {α : Type} (op : α → α → α)
    (hcomm : ∀ a b, op a b = op b a) (hassoc : ∀ a b c, op (op a b) c = op a (op b c))
    {l₁ l₂ : List α} (h : l₁.Perm l₂) (init : α) :
    l₁.foldl op init = l₂.foldl op init := by
  apply foldl_perm_of_rightComm op _ h init
  intro b x y
  rw [hassoc, hcomm x y, ← hassoc]

/-- the general form used for insertions into a set / a key-addressed table: the
step function only has to be right-commutative -/
theorem fold_perm_invariant_step {α β : Type} (f : β → α → β)
    (hcomm : ∀ b x y, f (f b x) y = f (f b y) x) {l₁ l₂ : List α} (h : l₁.Perm l₂) (init : β) :
    l₁.foldl f init = l₂.foldl f init :=
  foldl_perm_of_rightComm f hcomm h init

example : [3, 1, 2].foldl Nat.max 0 = [2, 3, 1].foldl Nat.max 0 :=
  fold_perm_invariant Nat.max Nat.max_comm Nat.max_assoc (by decide) 0

/-- **Sort after collect.**  Sorting with a total order (transitive, total,
antisymmetric — i.e. no two different items compare equal) makes the result a
function of the multiset of collected items: whatever order the hash map
produced them in, the sorted vector is the same. -/
theorem sort_after_collect {α : Type} (le : α → α → Bool)
    (htrans : ∀ a b c, le a b = true → le b c = true → le a c = true)
    (htotal : ∀ a b, (le a b || le b a) = true)
    (hantisymm : ∀ a b, le a b = true → le b a = true → a = b)
    {l₁ l₂ : List α} (h : l₁.Perm l₂) :
    l₁.mergeSort le = l₂.mergeSort le := by
  apply List.Perm.eq_of_pairwise (le := fun a b => le a b = true)
  · intro a b _ _ hab hba; exact hantisymm a b hab hba
  · exact List.pairwise_mergeSort htrans htotal l₁
  · exact List.pairwise_mergeSort htrans htotal l₂
  · exact (List.mergeSort_perm l₁ le).trans (h.trans (List.mergeSort_perm l₂ le).symm)

example : ([3, 1, 2] : List Nat).mergeSort (fun a b => decide (a ≤ b)) = ([2, 3, 1] : List Nat).mergeSort (fun a b => decide (a ≤ b)) :=
  sort_after_collect (fun a b => decide (a ≤ b))
    (by intro a b c; simp only [decide_eq_true_eq]; omega)
    (by intro a b; simp only [Bool.or_eq_true, decide_eq_true_eq]; omega)
    (by intro a b; simp only [decide_eq_true_eq]; omega)
    (by decide)

/-- antisymmetry is needed: sorting pairs by their first component only (ties keep the
incoming order) is NOT a function of the multiset -/
example : ([(1, 10), (1, 20)] : List (Nat × Nat)).mergeSort (fun a b => decide (a.1 ≤ b.1))
    ≠ ([(1, 20), (1, 10)] : List (Nat × Nat)).mergeSort (fun a b => decide (a.1 ≤ b.1)) := by
  rw [List.mergeSort_of_pairwise (by simp), List.mergeSort_of_pairwise (by simp)]
  decide

end AikenVerif.C09
