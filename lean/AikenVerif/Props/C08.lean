import AikenVerif.Lemmas.FlatTerm
import AikenVerif.Model.Cbor
/-!
# C08 — script bytes, hashes and addresses survive every tool round trip

Property theorems over M-FLAT (`Model/Flat.lean`), for **all** programs (no size
bound), each binder form, both decoder variants (`Mode.impl` = pallas-codec as
linked, `Mode.fixed` = with the guards of `proposed_fixes/C20-…`).

`Data` constants: the CBOR codec of `PlutusData` is a parameter `cd` with the
law `CodecLaw cd okD` ("`cd.dec (cd.enc d) = some d` for every `d` accepted by
the decidable predicate `okD`").  It is instantiated for the opaque codec
(`opaque_law`); the CBOR encoding of `Data` itself is **not** modelled.
-/
namespace AikenVerif.C08
open AikenVerif AikenVerif.Flat AikenVerif.Gen AikenVerif.Gen.FlatTags

-- ------------------------------------------------------------------ primitives
/-- `usize` words (version numbers, constructor tags, de Bruijn indices): any
value below 2⁶⁴, at any bit position, in front of any continuation -/
theorem word_roundtrip (m : Mode) (w : Nat) (hw : w < 2 ^ 64) (n : Nat) (rest : Bits) :
    decWord m ⟨n, wordBits w ++ rest⟩ = .ok (w, ⟨n + (wordBits w).length, rest⟩) :=
  rt_word m w hw n rest

/-- arbitrary-size words (`big_word`, used for integer constants): every natural number -/
theorem bigword_roundtrip (w : Nat) (n : Nat) (rest : Bits) :
    decBigWord ⟨n, wordBits w ++ rest⟩ = .ok (w, ⟨n + (wordBits w).length, rest⟩) :=
  rt_bigWord w n rest

theorem zigzag_roundtrip (i : Int) : unzigzag (zigzag i) = i := unzigzag_zigzag i

/-- integer constants of any size and sign -/
theorem integer_roundtrip (i : Int) (n : Nat) (rest : Bits) :
    decBigInt ⟨n, wordBits (zigzag i) ++ rest⟩ = .ok (i, ⟨n + (wordBits (zigzag i)).length, rest⟩) :=
  rt_bigInt i n rest

/-- byte strings of any length (incl. several 255-byte chunks) at any bit
alignment `n`: filler, chunks, terminating 0 -/
theorem bytes_roundtrip (b : Bytes) (n : Nat) (rest : Bits) :
    decBytes ⟨n, bytesE b n ++ rest⟩ = .ok (b, ⟨n + (bytesE b n).length, rest⟩) :=
  rt_bytes b n rest

/-- strings: every `String` (any Unicode scalar values) -/
theorem string_roundtrip (s : String) (n : Nat) (rest : Bits) :
    decUtf8 ⟨n, bytesE (utf8Enc s) n ++ rest⟩ = .ok (s, ⟨n + (bytesE (utf8Enc s) n).length, rest⟩) :=
  rt_utf8 s n rest

/-- `decode_type ∘ encode_type = id` for every type, whatever follows -/
theorem type_tags_roundtrip (t : Ty) (r : List Nat) :
    decTy ((tyTags t).length + 1) (tyTags t ++ r) = .ok (t, r) :=
  decTy_tyTags t _ r (by have := tySize_le_tags t; omega)

/-- constants: well-typed (`wfC`), without BLS values (`encodableC`) -/
theorem const_roundtrip (cd : DataCodec) (okD : Data → Bool) (law : CodecLaw cd okD) (m : Mode)
    (c : Const) (he : encodableC c = true) (hw : wfC okD c = true) (n : Nat) (rest : Bits) :
    decConst cd m ⟨n, constE cd c n ++ rest⟩ = .ok (c, ⟨n + (constE cd c n).length, rest⟩) :=
  rt_const cd m okD law c he hw n rest

-- ------------------------------------------------------------------ programs
/-- What `to_flat`/`from_flat` can carry (decidable): no BLS constants, constants
well-typed with `Data` payloads the codec reads back, version numbers,
constructor tags, indices/uniques within the machine width, and — for `DeBruijn`
— lambda parameters equal to 0 (they are not written). -/
def WF {β : Type} [FlatBinder β] (okD : Data → Bool) (p : Program β) : Bool :=
  encodableT p.term && wfT okD p.term &&
    decide (p.version.1 < 2 ^ 64) && decide (p.version.2.1 < 2 ^ 64) && decide (p.version.2.2 < 2 ^ 64)

section
variable {β : Type} [FlatBinder β] [LawfulFlatBinder β]
variable (cd : DataCodec) (okD : Data → Bool) (law : CodecLaw cd okD) (m : Mode)

theorem programBits_aligned (p : Program β) : (programBits cd p).length % 8 = 0 := by
  have h := filler_aligned (0 + (wordBits p.version.1).length + (wordBits p.version.2.1).length
    + (wordBits p.version.2.2).length
    + (termE cd p.term (0 + (wordBits p.version.1).length + (wordBits p.version.2.1).length
        + (wordBits p.version.2.2).length)).length)
  simp only [programBits, programE, Enc.seq, Enc.lit, List.length_append] at h ⊢
  omega

include law in
/-- bit level: `decProgram` reads back `programBits p` and leaves what follows -/
theorem program_roundtrip_bits (p : Program β) (hwf : WF okD p = true) (rest : Bits) :
    decProgram cd m ⟨0, programBits cd p ++ rest⟩ = .ok (p, ⟨(programBits cd p).length, rest⟩) := by
  simp only [WF, Bool.and_eq_true, decide_eq_true_eq] at hwf
  obtain ⟨⟨⟨⟨he, hw⟩, h1⟩, h2⟩, h3⟩ := hwf
  have hfuel : need p.term ≤ (programBits cd p ++ rest).length + 1 := by
    have hn := need_le_length cd p.term (0 + (wordBits p.version.1).length
      + (wordBits p.version.2.1).length + (wordBits p.version.2.2).length)
    simp only [programBits, programE, Enc.seq, Enc.lit, List.length_append] at hn ⊢
    omega
  have hterm := rt_term cd m okD law p.term _ hfuel he hw
  have hrt : RT (programE cd p)
      ((decWord m).bind fun a => (decWord m).bind fun b => (decWord m).bind fun c =>
        (decTerm cd m ((programBits cd p ++ rest).length + 1)).bind fun t =>
          decFiller.bind fun _ => Dec.pure (⟨(a, b, c), t⟩ : Program β)) p :=
    RT.bind (rt_word m _ h1) (RT.bind (rt_word m _ h2) (RT.bind (rt_word m _ h3)
      (RT.bind hterm (RT.bind_pure (fun _ => p) rt_filler))))
  have := hrt 0 rest
  simpa [decProgram, programBits] using this

include law in
/-- **flat_roundtrip**: `from_flat (to_flat p ++ anything) = p` -/
theorem flat_roundtrip (p : Program β) (hwf : WF okD p = true) (bytes extra : Bytes)
    (henc : toFlat cd p = some bytes) : fromFlat cd m (bytes ++ extra) = .ok p := by
  have he : encodableT p.term = true := by
    simp only [WF, Bool.and_eq_true] at hwf; exact hwf.1.1.1.1
  simp only [toFlat, he, if_true, Option.some.injEq] at henc
  subst henc
  have hal := programBits_aligned cd p
  have hbits : bitsOfBytes (bytesOfBits (programBits cd p)) = programBits cd p :=
    bitsOfBytes_bytesOfBits ((programBits cd p).length / 8) _ (by omega)
  simp only [fromFlat, bitsOfBytes_append, hbits, program_roundtrip_bits cd okD law m p hwf]

include law in
/-- **reencode_stable**: bytes the toolchain produced (they are `to_flat q` for
some well-formed `q`) are reproduced bit for bit by decode-then-encode -/
theorem reencode_stable (bytes : Bytes) (p : Program β)
    (hdec : fromFlat cd m bytes = .ok p)
    (hrange : ∃ q : Program β, WF okD q = true ∧ toFlat cd q = some bytes) :
    toFlat cd p = some bytes := by
  obtain ⟨q, hq, henc⟩ := hrange
  have h := flat_roundtrip cd okD law m q hq bytes [] henc
  simp only [List.append_nil] at h
  rw [h] at hdec
  cases hdec
  exact henc

/-- the encoder refuses BLS constants (wherever they occur) -/
theorem encode_bls_is_error (p : Program β) (h : encodableT p.term = false) : toFlat cd p = none := by
  simp [toFlat, h]

end

/-- the three binder forms, instantiated (opaque `Data` codec) -/
theorem flat_roundtrip_debruijn (m : Mode) (p : Program DeBruijn) (h : WF isBytesData p = true)
    (bytes extra : Bytes) (henc : toFlat DataCodec.opaque p = some bytes) :
    fromFlat DataCodec.opaque m (bytes ++ extra) = .ok p :=
  flat_roundtrip _ _ opaque_law m p h bytes extra henc

theorem flat_roundtrip_named_debruijn (m : Mode) (p : Program NamedDeBruijn) (h : WF isBytesData p = true)
    (bytes extra : Bytes) (henc : toFlat DataCodec.opaque p = some bytes) :
    fromFlat DataCodec.opaque m (bytes ++ extra) = .ok p :=
  flat_roundtrip _ _ opaque_law m p h bytes extra henc

theorem flat_roundtrip_name (m : Mode) (p : Program Name) (h : WF isBytesData p = true)
    (bytes extra : Bytes) (henc : toFlat DataCodec.opaque p = some bytes) :
    fromFlat DataCodec.opaque m (bytes ++ extra) = .ok p :=
  flat_roundtrip _ _ opaque_law m p h bytes extra henc

/-- The `DeBruijn` hypothesis "lambda parameters are 0" is necessary: the
parameter is not written, so any other value is read back as 0. -/
theorem debruijn_binder_lost (m : Mode) :
    fromFlat DataCodec.opaque m
      ((toFlat DataCodec.opaque (⟨(1, 0, 0), .lam 7 (.var 1)⟩ : Program DeBruijn)).getD [])
      = .ok ⟨(1, 0, 0), .lam 0 (.var 1)⟩ := by
  have hwf : WF isBytesData (⟨(1, 0, 0), .lam 0 (.var 1)⟩ : Program DeBruijn) = true := by decide
  have henc : toFlat DataCodec.opaque (⟨(1, 0, 0), .lam 7 (.var 1)⟩ : Program DeBruijn)
      = toFlat DataCodec.opaque (⟨(1, 0, 0), .lam 0 (.var 1)⟩ : Program DeBruijn) := by
    simp [toFlat, encodableT, programBits, programE, termE, FlatBinder.binderE]
  rw [henc]
  cases h : toFlat DataCodec.opaque (⟨(1, 0, 0), .lam 0 (.var 1)⟩ : Program DeBruijn) with
  | none => simp [toFlat, encodableT] at h
  | some bytes =>
    have := flat_roundtrip_debruijn m _ hwf bytes [] h
    simpa using this

-- non-vacuity: the hypotheses hold on programs using every constructor
example : WF isBytesData (⟨(1, 1, 0),
    .app (.lam 0 (.case (.constr 18446744073709551615 [.var 1, .delay (.force .error)])
      [.builtin .addInteger, .const (.list (.pair .integer .bytestring)
        [.pair .integer .bytestring (.integer (-5)) (.bytestring [1, 2])])]))
      (.const (.data (.bytes [0xd8, 0x79, 0x80])))⟩ : Program DeBruijn) = true := by decide

example : WF isBytesData (⟨(1, 0, 0), .lam ⟨"x", 1⟩ (.var ⟨"x", 1⟩)⟩ : Program NamedDeBruijn) = true := by decide
example : WF isBytesData (⟨(1, 0, 0), .lam ⟨"x", -3⟩ (.var ⟨"y", 9223372036854775807⟩)⟩ : Program Name) = true := by decide
example : WF isBytesData (⟨(1, 0, 0), .lam 1 (.var 1)⟩ : Program DeBruijn) = false := by decide
example : ∃ c, encodableC c = true ∧ wfC isBytesData c = true ∧ c = .list (.list .g1) [.list .g1 []] :=
  ⟨_, by decide, by decide, rfl⟩

-- ------------------------------------------------------------------ tags (generated tables)
/-- both term decoders (`Term::decode`, `Term::decode_debug`) have the same arms -/
theorem term_decoders_agree : termDecArms = termDecDebugArms := by decide

/-- each decode arm builds the constructor whose encode arm writes that tag -/
theorem term_tags_agree : ∀ c : TermCtor,
    (termDecDebugArms.find? (fun p => p.1 == termEncTag c)).map (·.2) = some c ∧
    (termDecArms.find? (fun p => p.1 == termEncTag c)).map (·.2) = some c := by
  intro c; cases c <;> decide

/-- no decode arm for a tag no encode arm writes -/
theorem term_tags_onto : ∀ p ∈ termDecDebugArms, termEncTag p.2 = p.1 := by decide

theorem term_tags_fit : ∀ c : TermCtor, termEncTag c < 2 ^ termTagWidth := termEncTag_lt

/-- constants use the same tag numbers as types, and `decode_type` inverts `encode_type` -/
theorem type_tags_agree : (∀ c : TyCtor, constEncTags c = typeEncTags c) ∧
    (∀ (c : TyCtor) (r : List Nat), matchTypeArm typeDecArms (typeEncTags c ++ r) = some (c, r)) :=
  ⟨by intro c; cases c <;> rfl, matchTypeArm_enc⟩

/-- `impl Decode for Constant`: the arm matching a constant's own tag list builds
that constructor — or is an `Err`-only arm exactly for the constructors the
encoder refuses -/
theorem const_tags_agree : ∀ c : TyCtor, ∀ r : List Nat, (c = .list ∨ c = .pair ∨ r = []) →
    matchConstArm constDecArms (constEncTags c ++ r)
      = some (if constEncodable c then some c else none, r) := by
  intro c r h
  cases c <;> first
    | rfl
    | (rcases h with h | h | h <;> first | (subst h; rfl) | cases h)

theorem value_decodable_agree : ∀ c : TyCtor, valueDecodable c = constEncodable c := by
  intro c; cases c <;> rfl

theorem type_tags_fit : ∀ c : TyCtor, ∀ x ∈ typeEncTags c ++ constEncTags c, x < 2 ^ constTagWidth := by
  intro c; cases c <;> decide

theorem builtin_tags_agree : ∀ b : Builtin, Builtin.ofTag b.tag = some b ∧ b.tag < 2 ^ builtinTagWidth :=
  fun b => ⟨builtin_ofTag_tag b, builtin_tag_lt b⟩

-- ------------------------------------------------------------------ CBOR wrapper of a script
section
open AikenVerif.Cbor

theorem beBytes_length (k v : Nat) : (beBytes k v).length = k := by
  induction k with
  | zero => rfl
  | succ k ih => simp [beBytes, ih]

theorem beBytes_mod : ∀ (k v : Nat), beBytes k (v % 256 ^ k) = beBytes k v := by
  intro k; induction k with
  | zero => intro v; rfl
  | succ j ih =>
    intro v
    have h1 : v % 256 ^ (j + 1) / 256 ^ j % 256 = v / 256 ^ j % 256 := by
      rw [Nat.pow_succ, Nat.mod_mul_right_div_self, Nat.mod_mod]
    have h2 : v % 256 ^ (j + 1) % 256 ^ j = v % 256 ^ j := by
      rw [Nat.pow_succ]; exact Nat.mod_mul_right_mod v (256 ^ j) 256
    simp only [beBytes, h1]
    rw [← ih (v % 256 ^ (j + 1)), h2, ih v]

theorem beNat_beBytes : ∀ (k v : Nat), v < 256 ^ k → beNat (beBytes k v) = v := by
  intro k; induction k with
  | zero => intro v hv; simp at hv; subst hv; rfl
  | succ k ih =>
    intro v hv
    have hpos : 0 < 256 ^ k := Nat.pow_pos (by decide)
    have hlt : v / 256 ^ k < 256 := by
      rw [Nat.div_lt_iff_lt_mul hpos]
      rw [Nat.pow_succ] at hv; omega
    simp only [beBytes, beNat, beBytes_length, UInt8.toNat_ofNat']
    rw [Nat.mod_eq_of_lt (show v / 256 ^ k % 256 < 2 ^ 8 by omega), Nat.mod_eq_of_lt hlt]
    have e1 : beBytes k v = beBytes k (v % 256 ^ k) := (beBytes_mod k v).symm
    rw [e1, ih (v % 256 ^ k) (Nat.mod_lt _ hpos)]
    have := Nat.div_add_mod v (256 ^ k)
    rw [Nat.mul_comm] at this; omega

/-- what `unwrapBytes` does after a head byte announcing a `k`-byte length -/
theorem unwrap_after_head (k : Nat) (b extra : Bytes) (hlen : b.length < 256 ^ k) :
    let rest := beBytes k b.length ++ (b ++ extra)
    ¬ rest.length < k ∧ beNat (rest.take k) = b.length ∧ ¬ (rest.drop k).length < b.length ∧
      (rest.drop k).take b.length = b := by
  intro rest
  have h1 : rest.take k = beBytes k b.length := by
    simp only [rest]
    rw [List.take_append_of_le_length (by simp [beBytes_length])]
    exact List.take_of_length_le (by simp [beBytes_length])
  have h2 : rest.drop k = b ++ extra := by
    simp only [rest]
    rw [List.drop_append_of_le_length (by simp [beBytes_length])]
    rw [List.drop_of_length_le (by simp [beBytes_length])]; rfl
  refine ⟨?_, ?_, ?_, ?_⟩
  · simp [rest, beBytes_length]
  · rw [h1]; exact beNat_beBytes k _ hlen
  · rw [h2]; simp
  · rw [h2]; simp

/-- `from_cbor ∘ to_cbor`: the byte-string wrapper gives the flat bytes back,
whatever follows (scripts below 2⁶⁴ bytes) -/
theorem cbor_wrap_roundtrip (b extra : Bytes) (h : b.length < 2 ^ 64) :
    unwrapBytes (wrapBytes b ++ extra) = some b := by
  unfold wrapBytes head
  split
  · rename_i h1
    simp [unwrapBytes, Nat.mod_eq_of_lt (show 2 * 32 + b.length < 256 by omega), h1,
      show (2 * 32 + b.length) / 32 = 2 by omega, show (2 * 32 + b.length) % 32 = b.length by omega]
  · split
    · obtain ⟨a1, a2, a3, a4⟩ := unwrap_after_head 1 b extra (by omega)
      simp only [List.cons_append, List.append_assoc, unwrapBytes]
      generalize beBytes 1 b.length ++ (b ++ extra) = rest at a1 a2 a3 a4 ⊢
      simp only [List.length_drop] at a3
      have a5 : b.length ≤ rest.length - 1 := by omega
      have a6 : List.take b.length (List.tail rest) = b := by rw [← List.drop_one]; exact a4
      simp [a1, a2, a5, a6]
    · split
      · obtain ⟨a1, a2, a3, a4⟩ := unwrap_after_head 2 b extra (by omega)
        simp only [List.cons_append, List.append_assoc, unwrapBytes]
        generalize beBytes 2 b.length ++ (b ++ extra) = rest at a1 a2 a3 a4 ⊢
        simp only [List.length_drop] at a3
        have a5 : b.length ≤ rest.length - 2 := by omega
        simp [a1, a2, a4, a5]
      · split
        · obtain ⟨a1, a2, a3, a4⟩ := unwrap_after_head 4 b extra (by omega)
          simp only [List.cons_append, List.append_assoc, unwrapBytes]
          generalize beBytes 4 b.length ++ (b ++ extra) = rest at a1 a2 a3 a4 ⊢
          simp only [List.length_drop] at a3
          have a5 : b.length ≤ rest.length - 4 := by omega
          simp [a1, a2, a4, a5]
        · obtain ⟨a1, a2, a3, a4⟩ := unwrap_after_head 8 b extra (by omega)
          simp only [List.cons_append, List.append_assoc, unwrapBytes]
          generalize beBytes 8 b.length ++ (b ++ extra) = rest at a1 a2 a3 a4 ⊢
          simp only [List.length_drop] at a3
          have a5 : b.length ≤ rest.length - 8 := by omega
          simp [a1, a2, a4, a5]

example : unwrapBytes (wrapBytes [1, 0, 0, 0x20, 1, 1] ++ [0xff]) = some [1, 0, 0, 0x20, 1, 1] := by decide

end

-- ------------------------------------------------------------------ published code and hash
section Published
open AikenVerif.Cbor

/-- Plutus language version of a script; the ledger hashes `tag ++ code` -/
inductive PlutusVersion where
  | v1 | v2 | v3
  deriving DecidableEq, Repr

def versionTag : PlutusVersion → UInt8
  | .v1 => 1 | .v2 => 2 | .v3 => 3

/-- what a blueprint stores for a validator: `compiledCode` and `hash` -/
structure Published (H : Type) where
  code : Bytes
  hash : H

variable {H : Type} [DecidableEq H] (hash : Bytes → H)   -- blake2b-224: a parameter

/-- `impl Serialize for SerializableProgram` (`compiled_code_and_hash`): code =
CBOR byte string of the flat bytes, hash = H(version tag ++ code) -/
def serialize (cd : DataCodec) (v : PlutusVersion) (p : Program DeBruijn) : Option (Published H) :=
  (toFlat cd p).map fun flat => ⟨wrapBytes flat, hash (versionTag v :: wrapBytes flat)⟩

/-- `impl Deserialize for SerializableProgram`: decode the code, **re-encode it**,
and recover the version by comparing the hash for V3, V2, V1 in this order -/
def deserialize (cd : DataCodec) (m : Mode) (pub : Published H) : Option (PlutusVersion × Program DeBruijn) :=
  match unwrapBytes pub.code with
  | none => none
  | some flat =>
    match (fromFlat cd m flat : Res (Program DeBruijn)) with
    | .ok p =>
      match toFlat cd p with
      | none => none
      | some flat' =>
        if hash (versionTag .v3 :: wrapBytes flat') = pub.hash then some (.v3, p)
        else if hash (versionTag .v2 :: wrapBytes flat') = pub.hash then some (.v2, p)
        else if hash (versionTag .v1 :: wrapBytes flat') = pub.hash then some (.v1, p)
        else none
    | _ => none

/-- **published_hash**: the hash stored next to the code is H(version tag ++ exactly
that code), and the code is the CBOR wrapper of `to_flat p` -/
theorem published_hash (cd : DataCodec) (v : PlutusVersion) (p : Program DeBruijn) (pub : Published H)
    (h : serialize hash cd v p = some pub) :
    pub.hash = hash (versionTag v :: pub.code) ∧ ∃ flat, toFlat cd p = some flat ∧ pub.code = wrapBytes flat := by
  unfold serialize at h
  cases hf : toFlat cd p with
  | none => simp [hf] at h
  | some flat =>
    simp only [hf, Option.map_some, Option.some.injEq] at h
    subst h
    exact ⟨rfl, flat, rfl, rfl⟩

/-- **deserialize_serialize**: loading what was saved gives back the same program
and version — provided H separates the three version tags on that code (the
loader has nothing but the hash to tell the versions apart) -/
theorem deserialize_serialize (cd : DataCodec) (okD : Data → Bool) (law : CodecLaw cd okD) (m : Mode)
    (v : PlutusVersion) (p : Program DeBruijn) (pub : Published H)
    (hwf : WF okD p = true) (h : serialize hash cd v p = some pub)
    (hlen : ∀ flat, toFlat cd p = some flat → flat.length < 2 ^ 64)
    (hsep : ∀ v', v' ≠ v → hash (versionTag v' :: pub.code) ≠ hash (versionTag v :: pub.code)) :
    deserialize hash cd m pub = some (v, p) := by
  obtain ⟨hh, flat, hf, hc⟩ := published_hash hash cd v p pub h
  have hu : unwrapBytes pub.code = some flat := by
    have := cbor_wrap_roundtrip flat [] (hlen flat hf)
    simpa [hc] using this
  have hd : (fromFlat cd m flat : Res (Program DeBruijn)) = .ok p := by
    have := flat_roundtrip cd okD law m p hwf flat [] hf
    simpa using this
  unfold deserialize
  simp only [hu, hd, hf, ← hc, hh]
  cases v
  · have h3 := hsep .v3 (by decide)
    have h2 := hsep .v2 (by decide)
    simp [h3, h2]
  · have h3 := hsep .v3 (by decide)
    simp [h3]
  · simp

-- non-vacuity: the separation hypothesis holds for any injective H (here the identity);
-- the length hypothesis holds for every script a machine can hold (< 2⁶⁴ bytes)
example (code : Bytes) (v v' : PlutusVersion) (h : v' ≠ v) :
    (id (versionTag v' :: code) : Bytes) ≠ id (versionTag v :: code) := by
  cases v <;> cases v' <;> simp_all [versionTag]

end Published

end AikenVerif.C08
