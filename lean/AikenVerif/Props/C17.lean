import AikenVerif.Model.Iso
/-!
# C17 — parallel test runs are isolated and schedule-independent

Theorems over the interleaving model of `Model/Iso.lean` (all interleavings,
any number of workers, by induction over the execution):

* `disjoint_schedule_independent` — workers with pairwise disjoint address sets:
  every complete interleaving of their non-atomic read/write micro-steps ends
  in the memory the sequential run produces;
* `no_stale_read` — along every such execution every pending read is up to
  date (a test never observes a count another test is changing);
* `shared_can_corrupt` — the premise is necessary: two workers with one
  operation each on the same allocation have a complete interleaving in which
  one update is lost;
* `indexed_collect_order` — an indexed parallel map puts `f tests[i]` in slot
  `i` whatever the order in which tasks finish;
* `audit_sound` / `audited_tests_schedule_independent` — what the executable
  audit `isoCheck` (run by `driver iso` on the address sets measured on the
  real heap by the `run_runnables` hook) establishes is exactly that premise;
* `no_outside_holder` — "strong count = references found inside the test"
  means every holder of the allocation is inside the test.
-/
namespace AikenVerif.C17
open AikenVerif.Iso

/-! ### updates at different addresses commute -/

theorem update_same (m : Mem) (a : Addr) (v : Nat) : update m a v a = v := by simp [update]

theorem update_other (m : Mem) (a b : Addr) (v : Nat) (h : b ≠ a) : update m a v b = m b := by
  simp [update, h]

theorem update_comm (m : Mem) (a b : Addr) (x y : Nat) (h : a ≠ b) :
    update (update m a x) b y = update (update m b y) a x := by
  funext z
  simp only [update]
  by_cases hzb : z = b
  · by_cases hza : z = a
    · exact absurd (hza.symm.trans hzb) h
    · simp [hzb, Ne.symm h]
  · by_cases hza : z = a
    · simp [hza, h]
    · simp [hzb, hza]

theorem stepSeq_comm (m : Mem) (o₁ o₂ : Op) (h : o₁.addr ≠ o₂.addr) :
    stepSeq (stepSeq m o₁) o₂ = stepSeq (stepSeq m o₂) o₁ := by
  unfold stepSeq
  rw [update_other m o₁.addr o₂.addr _ (Ne.symm h), update_other m o₂.addr o₁.addr _ h]
  exact update_comm m o₁.addr o₂.addr _ _ h

/-- an operation whose address nobody before it uses can be done first -/
theorem runSeq_hoist (o : Op) (post : List Op) :
    ∀ (pre : List Op) (m : Mem), (∀ p ∈ pre, p.addr ≠ o.addr) →
      runSeq m (pre ++ o :: post) = runSeq (stepSeq m o) (pre ++ post) := by
  intro pre
  induction pre with
  | nil => intro m _; rfl
  | cons p ps ih =>
    intro m h
    have hp : p.addr ≠ o.addr := h p (by simp)
    have hps : ∀ q ∈ ps, q.addr ≠ o.addr := fun q hq => h q (by simp [hq])
    show runSeq (stepSeq m p) (ps ++ o :: post) = runSeq (stepSeq (stepSeq m o) p) (ps ++ post)
    rw [ih (stepSeq m p) hps, stepSeq_comm m p o hp]

/-! ### the potential: finishing everything sequentially from here -/

def remaining (ws : List Worker) : List Op := ws.flatMap (·.ops)

def finish (c : Config) : Mem := runSeq c.mem (remaining c.workers)

theorem remaining_append (xs ys : List Worker) : remaining (xs ++ ys) = remaining xs ++ remaining ys := by
  simp [remaining]

theorem remaining_cons (w : Worker) (ys : List Worker) : remaining (w :: ys) = w.ops ++ remaining ys := by
  simp [remaining]

theorem mem_remaining {ws : List Worker} {o : Op} (h : o ∈ remaining ws) : ∃ w ∈ ws, o ∈ w.ops := by
  simpa [remaining] using h

theorem disjoint_unfold {pre post : List Worker} {w : Worker} (h : Disjoint (pre ++ w :: post)) :
    Disjoint pre ∧ Disjoint post
    ∧ (∀ p ∈ pre, ∀ a, a ∈ p.addrs → a ∈ w.addrs → False)
    ∧ (∀ q ∈ post, ∀ a, a ∈ w.addrs → a ∈ q.addrs → False)
    ∧ (∀ p ∈ pre, ∀ q ∈ post, ∀ a, a ∈ p.addrs → a ∈ q.addrs → False) := by
  unfold Disjoint at h
  rw [List.pairwise_append, List.pairwise_cons] at h
  obtain ⟨hpre, ⟨hwq, hpost⟩, hcross⟩ := h
  refine ⟨hpre, hpost, ?_, ?_, ?_⟩
  · intro p hp; exact hcross p hp w (by simp)
  · intro q hq; exact hwq q hq
  · intro p hp q hq; exact hcross p hp q (by simp [hq])

theorem disjoint_replace {pre post : List Worker} {w w' : Worker}
    (hsub : ∀ a, a ∈ w'.addrs → a ∈ w.addrs) (h : Disjoint (pre ++ w :: post)) :
    Disjoint (pre ++ w' :: post) := by
  obtain ⟨hpre, hpost, hpw, hwq, hpq⟩ := disjoint_unfold h
  unfold Disjoint
  rw [List.pairwise_append, List.pairwise_cons]
  refine ⟨hpre, ⟨?_, hpost⟩, ?_⟩
  · intro q hq a ha hb; exact hwq q hq a (hsub a ha) hb
  · intro p hp q hq
    rcases List.mem_cons.mp hq with rfl | hq
    · intro a ha hb; exact hpw p hp a ha (hsub a hb)
    · exact hpq p hp q hq

/-- the invariant carried along every execution -/
structure Inv (c : Config) : Prop where
  disjoint : Disjoint c.workers
  fresh : RegsFresh c

theorem step_preserves (c c' : Config) (hs : Step c c') (hinv : Inv c) :
    Inv c' ∧ finish c' = finish c := by
  cases hs with
  | mk m m' pre post w w' hw =>
    obtain ⟨hdis, hfresh⟩ := hinv
    replace hdis : Disjoint (pre ++ w :: post) := hdis
    cases hw with
    | read o rest =>
      refine ⟨⟨disjoint_replace (w := ⟨none, o :: rest⟩) (w' := ⟨some (m o.addr), o :: rest⟩)
        (fun a ha => ha) hdis, ?_⟩, ?_⟩
      · intro x hx v hv
        rcases List.mem_append.mp hx with hx | hx
        · exact hfresh x (List.mem_append.mpr (Or.inl hx)) v hv
        · rcases List.mem_cons.mp hx with rfl | hx
          · refine ⟨o, rest, rfl, ?_⟩
            simp only [Option.some.injEq] at hv
            exact hv.symm
          · exact hfresh x (List.mem_append.mpr (Or.inr (List.mem_cons_of_mem _ hx))) v hv
      · simp [finish, remaining]
    | write v o rest =>
      obtain ⟨_, _, hpw, hwq, _⟩ := disjoint_unfold hdis
      have hoin : o.addr ∈ (Worker.mk (some v) (o :: rest)).addrs := by simp [Worker.addrs]
      have hv : v = m o.addr := by
        obtain ⟨o', rest', hops, hval⟩ :=
          hfresh ⟨some v, o :: rest⟩ (by simp) v rfl
        simp only [List.cons.injEq] at hops
        rw [hval, hops.1]
      refine ⟨⟨disjoint_replace (w := ⟨some v, o :: rest⟩) ?_ hdis, ?_⟩, ?_⟩
      · intro a ha
        simp only [Worker.addrs, List.map_cons, List.mem_cons] at ha ⊢
        exact Or.inr ha
      · intro x hx v' hv'
        have other : ∀ y : Worker, (∀ a, a ∈ y.addrs → a ≠ o.addr) →
            (∃ o₂ rest₂, y.ops = o₂ :: rest₂ ∧ v' = m o₂.addr) →
            ∃ o₂ rest₂, y.ops = o₂ :: rest₂ ∧ v' = update m o.addr (o.apply v) o₂.addr := by
          intro y hy ⟨o₂, rest₂, hops, hval⟩
          refine ⟨o₂, rest₂, hops, ?_⟩
          rw [update_other _ _ _ _ (hy o₂.addr (by simp [Worker.addrs, hops]))]
          exact hval
        rcases List.mem_append.mp hx with hx | hx
        · exact other x (fun a ha heq => hpw x hx a ha (heq ▸ hoin))
            (hfresh x (List.mem_append.mpr (Or.inl hx)) v' hv')
        · rcases List.mem_cons.mp hx with rfl | hx
          · simp at hv'
          · exact other x (fun a ha heq => hwq x hx a (heq ▸ hoin) ha)
              (hfresh x (List.mem_append.mpr (Or.inr (List.mem_cons_of_mem _ hx))) v' hv')
      · simp only [finish, remaining_append, remaining_cons]
        have hpre : ∀ p ∈ remaining pre, p.addr ≠ o.addr := by
          intro p hp heq
          obtain ⟨y, hy, hpy⟩ := mem_remaining hp
          exact hpw y hy o.addr (by rw [← heq]; exact List.mem_map_of_mem hpy) hoin
        rw [List.cons_append, runSeq_hoist o (rest ++ remaining post) (remaining pre) m hpre]
        simp [stepSeq, hv]

theorem steps_preserve (c c' : Config) (hs : Steps c c') (hinv : Inv c) :
    Inv c' ∧ finish c' = finish c := by
  induction hs with
  | refl => exact ⟨hinv, rfl⟩
  | tail c₁ c₂ _ hstep ih =>
    obtain ⟨hi, hf⟩ := ih
    obtain ⟨hi', hf'⟩ := step_preserves c₁ c₂ hstep hi
    exact ⟨hi', hf'.trans hf⟩

theorem initial_inv (m : Mem) (ws : List (List Op))
    (hdis : ws.Pairwise (fun o₁ o₂ => ∀ a, a ∈ o₁.map Op.addr → a ∈ o₂.map Op.addr → False)) :
    Inv (initial m ws) := by
  constructor
  · unfold Disjoint initial
    simp only [List.pairwise_map, Worker.addrs, Worker.fresh]
    exact hdis
  · intro w hw v hv
    simp only [initial, List.mem_map, Worker.fresh] at hw
    obtain ⟨ops, _, rfl⟩ := hw
    simp at hv

theorem remaining_initial (ws : List (List Op)) : remaining (ws.map Worker.fresh) = ws.flatten := by
  induction ws with
  | nil => rfl
  | cons x xs ih => simp [remaining_cons, Worker.fresh, ih]

theorem remaining_done (ws : List Worker) (h : ∀ w ∈ ws, w.ops = []) : remaining ws = [] := by
  induction ws with
  | nil => rfl
  | cons x xs ih =>
    rw [remaining_cons, h x (by simp), ih (fun w hw => h w (by simp [hw]))]
    rfl

/-- **C17, core.**  Workers whose address sets are pairwise disjoint: every
complete interleaving of their non-atomic micro-steps — any schedule, any
number of workers — ends in the memory of the sequential run. -/
theorem disjoint_schedule_independent (m : Mem) (ws : List (List Op))
    (hdis : ws.Pairwise (fun o₁ o₂ => ∀ a, a ∈ o₁.map Op.addr → a ∈ o₂.map Op.addr → False))
    (c : Config) (hreach : Steps (initial m ws) c) (hdone : c.allDone) :
    c.mem = runSeq m ws.flatten := by
  obtain ⟨_, hf⟩ := steps_preserve _ _ hreach (initial_inv m ws hdis)
  have h1 : finish c = c.mem := by
    simp [finish, remaining_done c.workers hdone, runSeq]
  have h2 : finish (initial m ws) = runSeq m ws.flatten := by
    simp [finish, initial, remaining_initial]
  rw [← h1, hf, h2]

/-- along every interleaving of disjoint workers a pending read is never stale:
the value a test holds in its register is the value still in memory -/
theorem no_stale_read (m : Mem) (ws : List (List Op))
    (hdis : ws.Pairwise (fun o₁ o₂ => ∀ a, a ∈ o₁.map Op.addr → a ∈ o₂.map Op.addr → False))
    (c : Config) (hreach : Steps (initial m ws) c) : RegsFresh c :=
  (steps_preserve _ _ hreach (initial_inv m ws hdis)).1.fresh

/-! non-vacuity: two workers on different allocations, one complete interleaved
execution (read₁ read₂ write₂ write₁), and the theorem applies to it -/
example :
    let ws : List (List Op) := [[Op.inc 1], [Op.dec 2]]
    let m : Mem := fun _ => 5
    ∃ c, Steps (initial m ws) c ∧ c.allDone ∧ c.mem 1 = 6 ∧ c.mem 2 = 4 := by
  intro ws m
  have s1 : Step (initial m ws) ⟨m, [⟨some 5, [Op.inc 1]⟩, ⟨none, [Op.dec 2]⟩]⟩ :=
    Step.mk m m [] [⟨none, [Op.dec 2]⟩] _ _ (WStep.read m (Op.inc 1) [])
  have s2 : Step ⟨m, [⟨some 5, [Op.inc 1]⟩, ⟨none, [Op.dec 2]⟩]⟩
      ⟨m, [⟨some 5, [Op.inc 1]⟩, ⟨some 5, [Op.dec 2]⟩]⟩ :=
    Step.mk m m [⟨some 5, [Op.inc 1]⟩] [] _ _ (WStep.read m (Op.dec 2) [])
  have s3 := Step.mk m _ [⟨some 5, [Op.inc 1]⟩] [] _ _ (WStep.write m 5 (Op.dec 2) [])
  have s4 := Step.mk (update m 2 4) _ [] [⟨none, []⟩] _ _ (WStep.write (update m 2 4) 5 (Op.inc 1) [])
  refine ⟨_, Steps.tail _ _ _ (Steps.tail _ _ _ (Steps.tail _ _ _ (Steps.tail _ _ _ (Steps.refl _) s1) s2) s3) s4, ?_, ?_, ?_⟩
  · intro w hw
    simp at hw
    rcases hw with rfl | rfl <;> rfl
  · simp [update, Op.apply, Op.addr]
  · simp [update, Op.addr, m]

example : ([[Op.inc 1], [Op.dec 2]] : List (List Op)).Pairwise
    (fun o₁ o₂ => ∀ a, a ∈ o₁.map Op.addr → a ∈ o₂.map Op.addr → False) := by
  simp [Op.addr]

/-! ### the premise is necessary -/

/-- **Lost update.**  Two workers with one operation each on the *same*
allocation (count ≥ 2: it has two holders): the interleaving
read₁ read₂ write₁ write₂ is a complete execution whose final count differs
from the sequential one. -/
theorem shared_can_corrupt (m : Mem) (a : Addr) (o₁ o₂ : Op)
    (h₁ : o₁.addr = a) (h₂ : o₂.addr = a) (hm : 2 ≤ m a) :
    ∃ c, Steps (initial m [[o₁], [o₂]]) c ∧ c.allDone
      ∧ c.mem a ≠ runSeq m ([[o₁], [o₂]].flatten) a := by
  have s1 : Step (initial m [[o₁], [o₂]]) ⟨m, [⟨some (m o₁.addr), [o₁]⟩, ⟨none, [o₂]⟩]⟩ :=
    Step.mk m m [] [⟨none, [o₂]⟩] _ _ (WStep.read m o₁ [])
  have s2 : Step ⟨m, [⟨some (m o₁.addr), [o₁]⟩, ⟨none, [o₂]⟩]⟩
      ⟨m, [⟨some (m o₁.addr), [o₁]⟩, ⟨some (m o₂.addr), [o₂]⟩]⟩ :=
    Step.mk m m [⟨some (m o₁.addr), [o₁]⟩] [] _ _ (WStep.read m o₂ [])
  have s3 := Step.mk m _ [] [⟨some (m o₂.addr), [o₂]⟩] _ _ (WStep.write m (m o₁.addr) o₁ [])
  have s4 := Step.mk (update m o₁.addr (o₁.apply (m o₁.addr))) _ [⟨none, []⟩] [] _ _
    (WStep.write (update m o₁.addr (o₁.apply (m o₁.addr))) (m o₂.addr) o₂ [])
  refine ⟨_, Steps.tail _ _ _ (Steps.tail _ _ _ (Steps.tail _ _ _ (Steps.tail _ _ _ (Steps.refl _) s1) s2) s3) s4, ?_, ?_⟩
  · intro w hw
    simp at hw
    rcases hw with rfl | rfl <;> rfl
  · subst h₁
    simp only [List.nil_append, List.flatten_cons, List.flatten_nil, List.append_nil,
      List.cons_append, runSeq, List.foldl_cons, List.foldl_nil, stepSeq, h₂, update_same]
    generalize m o₁.addr = k at hm
    cases o₁ <;> cases o₂ <;> simp only [Op.apply] <;> omega

/-- the lost update on a clone/drop pair frees too early: count 2, one test
clones while the other drops; sequentially the count stays 2, the bad
interleaving leaves 1 — the next drop frees an allocation that still has two holders -/
example : ∃ c, Steps (initial (fun _ => 2) [[Op.inc 7], [Op.dec 7]]) c ∧ c.allDone
    ∧ c.mem 7 ≠ runSeq (fun _ => 2) [Op.inc 7, Op.dec 7] 7 :=
  shared_can_corrupt (fun _ => 2) 7 (Op.inc 7) (Op.dec 7) rfl rfl (Nat.le_refl 2)

/-! ### indexed collection -/

theorem writeSlot_length {α β : Type} (f : α → β) (tests : List α) (res : List (Option β)) (i : Nat) :
    (writeSlot f tests res i).length = res.length := by
  unfold writeSlot
  split <;> simp

theorem foldl_writeSlot_get {α β : Type} (f : α → β) (tests : List α) :
    ∀ (sched : List Nat) (res : List (Option β)), res.length = tests.length → ∀ i : Nat,
      (sched.foldl (writeSlot f tests) res)[i]? =
        if i ∈ sched then (tests[i]?).map (fun t => some (f t)) else res[i]? := by
  intro sched
  induction sched with
  | nil => intro res _ i; simp
  | cons j s ih =>
    intro res hlen i
    rw [List.foldl_cons, ih (writeSlot f tests res j) (by rw [writeSlot_length, hlen]) i]
    by_cases his : i ∈ s
    · simp [his]
    · simp only [his, if_false, List.mem_cons, or_false]
      by_cases hij : i = j
      · subst hij
        simp only [if_true]
        unfold writeSlot
        cases ht : tests[i]? with
        | none =>
          simp only [Option.map_none]
          have : tests.length ≤ i := by
            rcases Nat.lt_or_ge i tests.length with h | h
            · simp [List.getElem?_eq_getElem h] at ht
            · exact h
          exact List.getElem?_eq_none (by omega)
        | some t =>
          have hi : i < tests.length := by
            rcases Nat.lt_or_ge i tests.length with h | h
            · exact h
            · simp [List.getElem?_eq_none h] at ht
          simp [hlen, hi]
      · simp only [hij, if_false]
        unfold writeSlot
        split
        · rw [List.getElem?_set_ne (Ne.symm hij)]
        · rfl

/-- **Result order.**  An indexed parallel map: whatever the order `sched` in
which the tasks finish (every task finishes at least once), slot `i` of the
collected vector is `f tests[i]` — the same vector a sequential map builds. -/
theorem indexed_collect_order {α β : Type} (f : α → β) (tests : List α) (sched : List Nat)
    (hall : ∀ i, i < tests.length → i ∈ sched) :
    collect f tests sched = tests.map (fun t => some (f t)) := by
  apply List.ext_getElem?
  intro i
  unfold collect
  rw [foldl_writeSlot_get f tests sched _ (by simp) i, List.getElem?_map]
  by_cases hi : i < tests.length
  · simp [hall i hi]
  · have hge : tests.length ≤ i := Nat.le_of_not_lt hi
    simp [hge]

/-- three tasks finishing in the order 2, 0, 1 (and 2 once more) -/
example : collect (fun n : Nat => n * 10) [1, 2, 3] [2, 0, 1, 2] = [some 10, some 20, some 30] := by
  decide

/-! ### the audit decides the premise -/

theorem strictSorted_head {a : Nat} {l : List Nat} (h : strictSorted (a :: l) = true) :
    ∀ x ∈ l, a < x := by
  induction l generalizing a with
  | nil => intro x hx; cases hx
  | cons b rest ih =>
    simp only [strictSorted, Bool.and_eq_true, decide_eq_true_eq] at h
    intro x hx
    rcases List.mem_cons.mp hx with rfl | hx
    · exact h.1
    · exact Nat.lt_trans h.1 (ih h.2 x hx)

theorem strictSorted_tail {a : Nat} {l : List Nat} (h : strictSorted (a :: l) = true) :
    strictSorted l = true := by
  cases l with
  | nil => rfl
  | cons b rest =>
    simp only [strictSorted, Bool.and_eq_true] at h
    exact h.2

theorem strictSorted_nodup (l : List Nat) (h : strictSorted l = true) : l.Nodup := by
  induction l with
  | nil => exact List.nodup_nil
  | cons a rest ih =>
    rw [List.nodup_cons]
    refine ⟨fun hmem => ?_, ih (strictSorted_tail h)⟩
    exact Nat.lt_irrefl a (strictSorted_head h a hmem)

theorem nodup_flatMap_pairwise {α : Type} (f : α → List Nat) (ts : List α)
    (h : (ts.flatMap f).Nodup) :
    ts.Pairwise (fun t₁ t₂ => ∀ a, a ∈ f t₁ → a ∈ f t₂ → False) := by
  induction ts with
  | nil => exact List.Pairwise.nil
  | cons t rest ih =>
    rw [List.flatMap_cons, List.nodup_append] at h
    obtain ⟨_, hrest, hcross⟩ := h
    rw [List.pairwise_cons]
    refine ⟨?_, ih hrest⟩
    intro t₂ ht₂ a ha hb
    exact hcross a ha a (List.mem_flatMap.mpr ⟨t₂, ht₂, hb⟩) rfl

/-- what a `true` answer of the audit means -/
theorem audit_sound (ts : List TestHeap) (h : isoCheck ts = true) :
    ts.Pairwise (fun t₁ t₂ => ∀ a, a ∈ t₁.addrs → a ∈ t₂.addrs → False)
    ∧ ∀ t ∈ ts, ∀ al ∈ t, al.strong = al.refs := by
  simp only [isoCheck, Bool.and_eq_true] at h
  obtain ⟨hd, hs⟩ := h
  constructor
  · apply nodup_flatMap_pairwise
    have := strictSorted_nodup _ hd
    exact ((List.mergeSort_perm _ _).nodup_iff).mp this
  · intro t ht al hal
    have := List.all_eq_true.mp hs t ht
    have := List.all_eq_true.mp this al hal
    simpa using this

/-- the audit rejects a shared allocation (two tests holding address 10) and
an allocation with a holder outside the test (strong 2, one reference found) -/
example : isoCheck [[⟨10, 2, 1⟩, ⟨11, 1, 1⟩], [⟨10, 2, 1⟩]] = false := by
  apply Bool.eq_false_iff.mpr
  intro h
  have hp := (audit_sound _ h).1
  rw [List.pairwise_cons] at hp
  exact hp.1 [⟨10, 2, 1⟩] (by simp) 10 (by simp [TestHeap.addrs]) (by simp [TestHeap.addrs])
example : isoCheck [[⟨10, 2, 1⟩], [⟨12, 1, 1⟩]] = false := by
  apply Bool.eq_false_iff.mpr
  intro h
  have := (audit_sound _ h).2 [⟨10, 2, 1⟩] (by simp) ⟨10, 2, 1⟩ (by simp)
  simp at this
example : isoCheck [[⟨10, 2, 2⟩, ⟨11, 1, 1⟩], [⟨12, 1, 1⟩], []] = true := by
  have hs : ([10, 11, 12] : List Nat).mergeSort (fun a b => a ≤ b) = [10, 11, 12] :=
    List.mergeSort_of_pairwise (by simp)
  simp [isoCheck, allDistinct, TestHeap.addrs, hs, strictSorted, selfContained]

theorem forall₂_pairwise {α β : Type} {R : α → β → Prop} {P : α → α → Prop} {Q : β → β → Prop}
    (hpq : ∀ t₁ t₂ w₁ w₂, R t₁ w₁ → R t₂ w₂ → P t₁ t₂ → Q w₁ w₂) :
    ∀ (ts : List α) (ws : List β), Forall2 R ts ws → ts.Pairwise P → ws.Pairwise Q := by
  intro ts ws hf
  induction hf with
  | nil => intro _; exact List.Pairwise.nil
  | cons hr hrest ih =>
    rename_i t w ts' ws'
    intro hp
    rw [List.pairwise_cons] at hp ⊢
    refine ⟨?_, ih hp.2⟩
    intro w₂ hw₂
    have : ∃ t₂ ∈ ts', R t₂ w₂ := by
      clear ih hp
      induction hrest with
      | nil => cases hw₂
      | cons hr' _ ih' =>
        rcases List.mem_cons.mp hw₂ with rfl | hmem
        · exact ⟨_, by simp, hr'⟩
        · obtain ⟨t₂, ht₂, h⟩ := ih' hmem
          exact ⟨t₂, by simp [ht₂], h⟩
    obtain ⟨t₂, ht₂, hr₂⟩ := this
    exact hpq _ _ _ _ hr hr₂ (hp.1 t₂ ht₂)

/-- **C17, tied to the audit.**  If the audit accepts the measured heaps `ts`
and worker `i` only touches allocations the walk found in test `i`, then every
complete interleaving ends in the sequential memory. -/
theorem audited_tests_schedule_independent (ts : List TestHeap) (ws : List (List Op))
    (haudit : isoCheck ts = true)
    (hown : Forall2 (fun (t : TestHeap) (ops : List Op) => ∀ o ∈ ops, o.addr ∈ t.addrs) ts ws)
    (m : Mem) (c : Config) (hreach : Steps (initial m ws) c) (hdone : c.allDone) :
    c.mem = runSeq m ws.flatten := by
  apply disjoint_schedule_independent m ws _ c hreach hdone
  refine forall₂_pairwise ?_ ts ws hown (audit_sound ts haudit).1
  intro t₁ t₂ w₁ w₂ h₁ h₂ hp a ha hb
  obtain ⟨o₁, ho₁, rfl⟩ := List.mem_map.mp ha
  obtain ⟨o₂, ho₂, heq⟩ := List.mem_map.mp hb
  exact hp o₁.addr (h₁ o₁ ho₁) (heq ▸ h₂ o₂ ho₂)

example : Forall2 (fun (t : TestHeap) (ops : List Op) => ∀ o ∈ ops, o.addr ∈ t.addrs)
    [[⟨10, 2, 2⟩, ⟨11, 1, 1⟩], [⟨12, 1, 1⟩]] [[Op.inc 10, Op.dec 11, Op.dec 10], [Op.dec 12]] := by
  refine Forall2.cons ?_ (Forall2.cons ?_ Forall2.nil) <;>
    simp [TestHeap.addrs, Op.addr]

/-- **Self-containment.**  The strong count of an allocation is the number of
its holders.  If the number of holders found inside the test equals the strong
count, every holder is inside the test — nothing outside it (another test, the
constant cache, a module's AST) can clone or drop that allocation. -/
theorem no_outside_holder {H : Type} (holders : List H) (inside : H → Bool) (strong refs : Nat)
    (hstrong : strong = holders.length) (hrefs : refs = holders.countP inside)
    (heq : strong = refs) : ∀ h ∈ holders, inside h = true := by
  have : holders.countP inside = holders.length := by omega
  exact List.countP_eq_length.mp this

example : ∀ h ∈ [1, 2, 3], (fun n : Nat => decide (n < 5)) h = true :=
  no_outside_holder [1, 2, 3] (fun n => decide (n < 5)) 3 3 rfl (by decide) rfl

end AikenVerif.C17
