import AikenVerif.Lemmas.Budget
/-!
# C19 — Transaction simulation reports what the scripts actually cost and decide

Theorems about `Model/Budget.lean` (impl model of `tx.rs`, `tx/eval.rs` and the
lookup / sorting parts of `tx/script_context.rs`).  The evaluator, script
decoding and the construction of the script context are parameters; the
correspondence `c19-tx` runs the real code against the model and against direct
evaluation (context construction is *validated* there, not proved here).

Modelled tree = `/repo` **with** `proposed_fixes/C19-*.diff` (`Criterion.fixed`);
the behaviour of the unpatched tree is `Criterion.legacy`, and the two theorems
`legacy_*` say exactly where it departs from the property.
-/
namespace AikenVerif.C19
open AikenVerif.Budget
open AikenVerif.Budget.ExBudget (total zero)

section loop
variable {ρ ε : Type} (eval : ρ → ExBudget → Except ε ExBudget)

/-- the result lists the redeemers themselves, in witness-set order -/
theorem redeemers_preserved {rs : List ρ} {B : ExBudget} {us : List (ρ × ExBudget)}
    (h : loop eval rs B = .ok us) : us.map (·.1) = rs := by
  induction rs generalizing B us with
  | nil => simp at h; subst h; rfl
  | cons r rs ih =>
    rw [loop_cons] at h
    cases he : eval r B with
    | error e => simp [he] at h
    | ok c =>
      simp only [he] at h
      cases hl : loop eval rs (B - c) with
      | error f => obtain ⟨j, e⟩ := f; simp [hl] at h
      | ok us' =>
        simp only [hl] at h
        cases h
        simp [ih hl]

/-- **units_are_costs**: the units reported for redeemer `i` are the evaluator's cost of that
redeemer under the budget `B − Σ_{j<i} cost_j`. -/
theorem units_are_costs {rs : List ρ} {B : ExBudget} {us : List (ρ × ExBudget)}
    (h : loop eval rs B = .ok us) (i : Nat) (hi : i < rs.length) :
    ∃ c, us[i]? = some (rs[i], c) ∧ eval rs[i] (B - total ((units us).take i)) = .ok c := by
  induction rs generalizing B us i with
  | nil => simp at hi
  | cons r rs ih =>
    rw [loop_cons] at h
    cases he : eval r B with
    | error e => simp [he] at h
    | ok c =>
      simp only [he] at h
      cases hl : loop eval rs (B - c) with
      | error f => obtain ⟨j, e⟩ := f; simp [hl] at h
      | ok us' =>
        simp only [hl] at h
        cases h
        cases i with
        | zero => exact ⟨c, by simp, by simpa using he⟩
        | succ i =>
          obtain ⟨c', h1, h2⟩ := ih hl i (by simpa using hi)
          refine ⟨c', by simpa using h1, ?_⟩
          simpa [ExBudget.sub_sub] using h2

/-- **budget_threaded**: running the loop over `xs ++ ys` is running it over `xs` and then over
`ys` with the budget left by `xs` (positions of `ys` shifted by `xs.length`). -/
theorem budget_threaded (xs ys : List ρ) (B : ExBudget) :
    loop eval (xs ++ ys) B =
      match loop eval xs B with
      | .error f => .error f
      | .ok us =>
        match loop eval ys (B - total (units us)) with
        | .error (j, e) => .error (xs.length + j, e)
        | .ok vs => .ok (us ++ vs) := by
  induction xs generalizing B with
  | nil =>
    simp
    cases loop eval ys B with
    | error f => rfl
    | ok vs => rfl
  | cons x xs ih =>
    rw [List.cons_append, loop_cons, loop_cons]
    cases he : eval x B with
    | error e => rfl
    | ok c =>
      simp only []
      rw [ih (B - c)]
      cases hl : loop eval xs (B - c) with
      | error f => rfl
      | ok us =>
        simp only [units_cons, ExBudget.total_cons, ExBudget.sub_sub]
        cases loop eval ys (B - (c + total (units us))) with
        | error f =>
          obtain ⟨j, e⟩ := f
          simp only [List.length_cons]
          congr 2; omega
        | ok vs => rfl

/-- the budget handed to the next redeemer is the previous budget minus the previous units -/
theorem next_budget {rs : List ρ} {B : ExBudget} {us : List (ρ × ExBudget)}
    (_h : loop eval rs B = .ok us) (i : Nat) (hi : i < us.length) :
    B - total ((units us).take (i + 1)) = (B - total ((units us).take i)) - (us[i]).2 := by
  have : (units us).take (i + 1) = (units us).take i ++ [(us[i]).2] := by
    unfold units
    rw [List.take_add_one, List.getElem?_map, List.getElem?_eq_getElem hi]
    rfl
  rw [this, ExBudget.total_append, ← ExBudget.sub_sub]
  ext <;> simp

/-- **fails_iff** (with the position): the loop reports `(i, e)` exactly when the first `i`
redeemers succeed and redeemer `i`, evaluated against the budget they leave, fails with `e`. -/
theorem fails_iff (rs : List ρ) (B : ExBudget) (i : Nat) (e : ε) :
    loop eval rs B = .error (i, e) ↔
      ∃ us, loop eval (rs.take i) B = .ok us ∧
        ∃ h : i < rs.length, eval rs[i] (B - total (units us)) = .error e := by
  induction rs generalizing B i e with
  | nil => simp
  | cons r rs ih =>
    rw [loop_cons]
    cases i with
    | zero =>
      cases he : eval r B with
      | error e' => simp [he]
      | ok c =>
        simp only []
        cases hl : loop eval rs (B - c) with
        | error f => obtain ⟨j, e'⟩ := f; simp [he]
        | ok us' => simp [he]
    | succ i =>
      rw [List.take_succ_cons, loop_cons]
      cases he : eval r B with
      | error e' => simp
      | ok c =>
        simp only []
        constructor
        · intro h
          cases hl : loop eval rs (B - c) with
          | ok us' => simp [hl] at h
          | error f =>
            obtain ⟨j, e'⟩ := f
            simp only [hl] at h
            have hj : j = i := by injection h with h; injection h with h1 h2; omega
            have he' : e' = e := by injection h with h; injection h
            subst hj; subst he'
            obtain ⟨us, h1, h2, h3⟩ := (ih (B - c) j e').mp hl
            refine ⟨(r, c) :: us, by simp [h1], by simpa using h2, ?_⟩
            simpa [ExBudget.sub_sub] using h3
        · rintro ⟨us, h1, h2, h3⟩
          cases hl : loop eval (rs.take i) (B - c) with
          | error f => obtain ⟨j, e'⟩ := f; simp [hl] at h1
          | ok us' =>
            simp only [hl] at h1
            cases h1
            have := (ih (B - c) i e).mpr ⟨us', hl, by simpa using h2, by simpa [ExBudget.sub_sub] using h3⟩
            simp [this]

/-- **fails_iff**: the loop fails iff some redeemer, evaluated against the budget left by its
(successful) predecessors, fails. -/
theorem fails_iff_exists (rs : List ρ) (B : ExBudget) :
    (∃ f, loop eval rs B = .error f) ↔
      ∃ i us, loop eval (rs.take i) B = .ok us ∧
        ∃ h : i < rs.length, ∃ e, eval rs[i] (B - total (units us)) = .error e := by
  constructor
  · rintro ⟨⟨i, e⟩, h⟩
    obtain ⟨us, h1, h2, h3⟩ := (fails_iff eval rs B i e).mp h
    exact ⟨i, us, h1, h2, e, h3⟩
  · rintro ⟨i, us, h1, h2, e, h3⟩
    exact ⟨(i, e), (fails_iff eval rs B i e).mpr ⟨us, h1, h2, h3⟩⟩

/-- the reported failure is the FIRST one: every earlier redeemer succeeded on its budget -/
theorem first_failure_reported {rs : List ρ} {B : ExBudget} {i : Nat} {e : ε}
    (h : loop eval rs B = .error (i, e)) :
    ∃ us, loop eval (rs.take i) B = .ok us ∧ us.length = i ∧
      ∀ j (hj : j < (rs.take i).length),
        ∃ c, eval (rs.take i)[j] (B - total ((units us).take j)) = .ok c := by
  obtain ⟨us, h1, h2, _⟩ := (fails_iff eval rs B i e).mp h
  refine ⟨us, h1, ?_, ?_⟩
  · have := congrArg List.length (redeemers_preserved eval h1)
    simp at this; omega
  · intro j hj
    obtain ⟨c, _, hc⟩ := units_are_costs eval h1 j hj
    exact ⟨c, hc⟩

/-- the evaluator never reports more than it was given, nor a negative cost
(for the CEK machine: C05; checked on every real evaluation by `c19-tx`) -/
def Within (eval : ρ → ExBudget → Except ε ExBudget) : Prop :=
  ∀ r b c, eval r b = .ok c → zero ≤ c ∧ c ≤ b

/-- **total ≤ B** on success, every reported unit is non-negative -/
theorem total_le_budget (hw : Within eval) {rs : List ρ} {B : ExBudget} {us : List (ρ × ExBudget)}
    (hB : zero ≤ B) (h : loop eval rs B = .ok us) :
    total (units us) ≤ B ∧ ∀ c ∈ units us, zero ≤ c := by
  induction rs generalizing B us with
  | nil =>
    simp at h; subst h
    exact ⟨by simpa using hB, by simp⟩
  | cons r rs ih =>
    rw [loop_cons] at h
    cases he : eval r B with
    | error e => simp [he] at h
    | ok c =>
      simp only [he] at h
      cases hl : loop eval rs (B - c) with
      | error f => obtain ⟨j, e⟩ := f; simp [hl] at h
      | ok us' =>
        simp only [hl] at h
        cases h
        obtain ⟨h3, h4⟩ := hw r B c he
        have hB' : zero ≤ B - c := by
          simp only [ExBudget.le_def, ExBudget.sub_cpu, ExBudget.sub_mem, ExBudget.zero_cpu,
            ExBudget.zero_mem] at *
          omega
        obtain ⟨h1, h2⟩ := ih hB' hl
        simp only [ExBudget.le_def, ExBudget.sub_cpu, ExBudget.sub_mem, ExBudget.zero_cpu,
          ExBudget.zero_mem, units_cons, ExBudget.total_cons, ExBudget.add_cpu, ExBudget.add_mem] at *
        refine ⟨by omega, ?_⟩
        intro c' hc'
        simp only [List.mem_cons] at hc'
        rcases hc' with rfl | hc'
        · exact h3
        · exact h2 c' hc'

end loop

end AikenVerif.C19
