import AikenVerif.Lemmas.Budget
/-!
# C19 — Transaction simulation reports what the scripts actually cost and decide

Theorems about `Model/Budget.lean` (impl model of `tx.rs`, `tx/eval.rs` and the
lookup / sorting parts of `tx/script_context.rs`).  The evaluator, script
decoding and the construction of the script context are parameters; the
correspondence `c19-tx` runs the real code against the model and against direct
evaluation (context construction is *validated* there, not proved here).

Modelled tree = `/repo` **with** `proposed_fixes/C19-*.diff` (`Criterion.fixed`);
the behaviour of the unpatched tree is `Criterion.legacy`, and the two theorems
`legacy_*` say exactly where it departs from the property.
-/
namespace AikenVerif.C19
open AikenVerif.Budget
open AikenVerif.Budget.ExBudget (total zero)

section loop
variable {ρ ε : Type} (eval : ρ → ExBudget → Except ε ExBudget)

/-- the result lists the redeemers themselves, in witness-set order -/
theorem redeemers_preserved {rs : List ρ} {B : ExBudget} {us : List (ρ × ExBudget)}
    (h : loop eval rs B = .ok us) : us.map (·.1) = rs := by
  induction rs generalizing B us with
  | nil => simp at h; subst h; rfl
  | cons r rs ih =>
    rw [loop_cons] at h
    cases he : eval r B with
    | error e => simp [he] at h
    | ok c =>
      simp only [he] at h
      cases hl : loop eval rs (B - c) with
      | error f => obtain ⟨j, e⟩ := f; simp [hl] at h
      | ok us' =>
        simp only [hl] at h
        cases h
        simp [ih hl]

/-- **units_are_costs**: the units reported for redeemer `i` are the evaluator's cost of that
redeemer under the budget `B − Σ_{j<i} cost_j`. -/
theorem units_are_costs {rs : List ρ} {B : ExBudget} {us : List (ρ × ExBudget)}
    (h : loop eval rs B = .ok us) (i : Nat) (hi : i < rs.length) :
    ∃ c, us[i]? = some (rs[i], c) ∧ eval rs[i] (B - total ((units us).take i)) = .ok c := by
  induction rs generalizing B us i with
  | nil => simp at hi
  | cons r rs ih =>
    rw [loop_cons] at h
    cases he : eval r B with
    | error e => simp [he] at h
    | ok c =>
      simp only [he] at h
      cases hl : loop eval rs (B - c) with
      | error f => obtain ⟨j, e⟩ := f; simp [hl] at h
      | ok us' =>
        simp only [hl] at h
        cases h
        cases i with
        | zero => exact ⟨c, by simp, by simpa using he⟩
        | succ i =>
          obtain ⟨c', h1, h2⟩ := ih hl i (by simpa using hi)
          refine ⟨c', by simpa using h1, ?_⟩
          simpa [ExBudget.sub_sub] using h2

/-- **budget_threaded**: running the loop over `xs ++ ys` is running it over `xs` and then over
`ys` with the budget left by `xs` (positions of `ys` shifted by `xs.length`). -/
theorem budget_threaded (xs ys : List ρ) (B : ExBudget) :
    loop eval (xs ++ ys) B =
      match loop eval xs B with
      | .error f => .error f
      | .ok us =>
        match loop eval ys (B - total (units us)) with
        | .error (j, e) => .error (xs.length + j, e)
        | .ok vs => .ok (us ++ vs) := by
  induction xs generalizing B with
  | nil =>
    simp
    cases loop eval ys B with
    | error f => rfl
    | ok vs => rfl
  | cons x xs ih =>
    rw [List.cons_append, loop_cons, loop_cons]
    cases he : eval x B with
    | error e => rfl
    | ok c =>
      simp only []
      rw [ih (B - c)]
      cases hl : loop eval xs (B - c) with
      | error f => rfl
      | ok us =>
        simp only [units_cons, ExBudget.total_cons, ExBudget.sub_sub]
        cases loop eval ys (B - (c + total (units us))) with
        | error f =>
          obtain ⟨j, e⟩ := f
          simp only [List.length_cons]
          congr 2; omega
        | ok vs => rfl

/-- the budget handed to the next redeemer is the previous budget minus the previous units -/
theorem next_budget {rs : List ρ} {B : ExBudget} {us : List (ρ × ExBudget)}
    (_h : loop eval rs B = .ok us) (i : Nat) (hi : i < us.length) :
    B - total ((units us).take (i + 1)) = (B - total ((units us).take i)) - (us[i]).2 := by
  have : (units us).take (i + 1) = (units us).take i ++ [(us[i]).2] := by
    unfold units
    rw [List.take_add_one, List.getElem?_map, List.getElem?_eq_getElem hi]
    rfl
  rw [this, ExBudget.total_append, ← ExBudget.sub_sub]
  ext <;> simp

/-- **fails_iff** (with the position): the loop reports `(i, e)` exactly when the first `i`
redeemers succeed and redeemer `i`, evaluated against the budget they leave, fails with `e`. -/
theorem fails_iff (rs : List ρ) (B : ExBudget) (i : Nat) (e : ε) :
    loop eval rs B = .error (i, e) ↔
      ∃ us, loop eval (rs.take i) B = .ok us ∧
        ∃ h : i < rs.length, eval rs[i] (B - total (units us)) = .error e := by
  induction rs generalizing B i e with
  | nil => simp
  | cons r rs ih =>
    rw [loop_cons]
    cases i with
    | zero =>
      cases he : eval r B with
      | error e' => simp [he]
      | ok c =>
        simp only []
        cases hl : loop eval rs (B - c) with
        | error f => obtain ⟨j, e'⟩ := f; simp [he]
        | ok us' => simp [he]
    | succ i =>
      rw [List.take_succ_cons, loop_cons]
      cases he : eval r B with
      | error e' => simp
      | ok c =>
        simp only []
        constructor
        · intro h
          cases hl : loop eval rs (B - c) with
          | ok us' => simp [hl] at h
          | error f =>
            obtain ⟨j, e'⟩ := f
            simp only [hl] at h
            have hj : j = i := by injection h with h; injection h with h1 h2; omega
            have he' : e' = e := by injection h with h; injection h
            subst hj; subst he'
            obtain ⟨us, h1, h2, h3⟩ := (ih (B - c) j e').mp hl
            refine ⟨(r, c) :: us, by simp [h1], by simpa using h2, ?_⟩
            simpa [ExBudget.sub_sub] using h3
        · rintro ⟨us, h1, h2, h3⟩
          cases hl : loop eval (rs.take i) (B - c) with
          | error f => obtain ⟨j, e'⟩ := f; simp [hl] at h1
          | ok us' =>
            simp only [hl] at h1
            cases h1
            have := (ih (B - c) i e).mpr ⟨us', hl, by simpa using h2, by simpa [ExBudget.sub_sub] using h3⟩
            simp [this]

/-- **fails_iff**: the loop fails iff some redeemer, evaluated against the budget left by its
(successful) predecessors, fails. -/
theorem fails_iff_exists (rs : List ρ) (B : ExBudget) :
    (∃ f, loop eval rs B = .error f) ↔
      ∃ i us, loop eval (rs.take i) B = .ok us ∧
        ∃ h : i < rs.length, ∃ e, eval rs[i] (B - total (units us)) = .error e := by
  constructor
  · rintro ⟨⟨i, e⟩, h⟩
    obtain ⟨us, h1, h2, h3⟩ := (fails_iff eval rs B i e).mp h
    exact ⟨i, us, h1, h2, e, h3⟩
  · rintro ⟨i, us, h1, h2, e, h3⟩
    exact ⟨(i, e), (fails_iff eval rs B i e).mpr ⟨us, h1, h2, h3⟩⟩

/-- the reported failure is the FIRST one: every earlier redeemer succeeded on its budget -/
theorem first_failure_reported {rs : List ρ} {B : ExBudget} {i : Nat} {e : ε}
    (h : loop eval rs B = .error (i, e)) :
    ∃ us, loop eval (rs.take i) B = .ok us ∧ us.length = i ∧
      ∀ j (hj : j < (rs.take i).length),
        ∃ c, eval (rs.take i)[j] (B - total ((units us).take j)) = .ok c := by
  obtain ⟨us, h1, h2, _⟩ := (fails_iff eval rs B i e).mp h
  refine ⟨us, h1, ?_, ?_⟩
  · have := congrArg List.length (redeemers_preserved eval h1)
    simp at this; omega
  · intro j hj
    obtain ⟨c, _, hc⟩ := units_are_costs eval h1 j hj
    exact ⟨c, hc⟩

/-- the evaluator never reports more than it was given, nor a negative cost
(for the CEK machine: C05; checked on every real evaluation by `c19-tx`) -/
def Within (eval : ρ → ExBudget → Except ε ExBudget) : Prop :=
  ∀ r b c, eval r b = .ok c → zero ≤ c ∧ c ≤ b

/-- **total ≤ B** on success, every reported unit is non-negative -/
theorem total_le_budget (hw : Within eval) {rs : List ρ} {B : ExBudget} {us : List (ρ × ExBudget)}
    (hB : zero ≤ B) (h : loop eval rs B = .ok us) :
    total (units us) ≤ B ∧ ∀ c ∈ units us, zero ≤ c := by
  induction rs generalizing B us with
  | nil =>
    simp at h; subst h
    exact ⟨by simpa using hB, by simp⟩
  | cons r rs ih =>
    rw [loop_cons] at h
    cases he : eval r B with
    | error e => simp [he] at h
    | ok c =>
      simp only [he] at h
      cases hl : loop eval rs (B - c) with
      | error f => obtain ⟨j, e⟩ := f; simp [hl] at h
      | ok us' =>
        simp only [hl] at h
        cases h
        obtain ⟨h3, h4⟩ := hw r B c he
        have hB' : zero ≤ B - c := by
          simp only [ExBudget.le_def, ExBudget.sub_cpu, ExBudget.sub_mem, ExBudget.zero_cpu,
            ExBudget.zero_mem] at *
          omega
        obtain ⟨h1, h2⟩ := ih hB' hl
        simp only [ExBudget.le_def, ExBudget.sub_cpu, ExBudget.sub_mem, ExBudget.zero_cpu,
          ExBudget.zero_mem, units_cons, ExBudget.total_cons, ExBudget.add_cpu, ExBudget.add_mem] at *
        refine ⟨by omega, ?_⟩
        intro c' hc'
        simp only [List.mem_cons] at hc'
        rcases hc' with rfl | hc'
        · exact h3
        · exact h2 c' hc'


/-- the evaluator charges the same whatever it is given, as long as it is enough:
`inf r` is the cost under an unlimited budget (for the CEK machine: C05) -/
def BudgetIndependent (eval : ρ → ExBudget → Except ε ExBudget) (inf : ρ → Option ExBudget) : Prop :=
  (∀ r b c, eval r b = .ok c ↔ inf r = some c ∧ c ≤ b) ∧ ∀ r c, inf r = some c → zero ≤ c

theorem total_nonneg {cs : List ExBudget} (h : ∀ c ∈ cs, zero ≤ c) : zero ≤ total cs := by
  induction cs with
  | nil => simp [ExBudget.le_def]
  | cons c cs ih =>
    have h1 := h c (by simp)
    have h2 := ih (fun c' hc' => h c' (by simp [hc']))
    simp only [ExBudget.le_def, ExBudget.total_cons, ExBudget.add_cpu, ExBudget.add_mem,
      ExBudget.zero_cpu, ExBudget.zero_mem] at *
    omega

/-- under a budget-independent evaluator the loop succeeds exactly when every script succeeds on
its own and the TOTAL fits the initial budget — so the limit is `total`, and `total − 1` in either
dimension fails (what `c19-tx` probes on the real code) -/
theorem succeeds_iff_total_fits {inf : ρ → Option ExBudget} (hi : BudgetIndependent eval inf)
    (rs : List ρ) (B : ExBudget) (hB : zero ≤ B) (us : List (ρ × ExBudget)) :
    loop eval rs B = .ok us ↔
      us.map (·.1) = rs ∧ (∀ p ∈ us, inf p.1 = some p.2) ∧ total (units us) ≤ B := by
  induction rs generalizing B us with
  | nil =>
    constructor
    · intro h; simp at h; subst h; simpa using hB
    · rintro ⟨h1, _, _⟩
      have : us = [] := by simpa using h1
      subst this; rfl
  | cons r rs ih =>
    rw [loop_cons]
    constructor
    · intro h
      cases he : eval r B with
      | error e => simp [he] at h
      | ok c =>
        simp only [he] at h
        cases hl : loop eval rs (B - c) with
        | error f => obtain ⟨j, e⟩ := f; simp [hl] at h
        | ok us' =>
          simp only [hl] at h
          cases h
          obtain ⟨hr, hc⟩ := (hi.1 r B c).mp he
          have hnn := hi.2 r c hr
          have hB' : zero ≤ B - c := by
            simp only [ExBudget.le_def, ExBudget.sub_cpu, ExBudget.sub_mem, ExBudget.zero_cpu,
              ExBudget.zero_mem] at *
            omega
          obtain ⟨h1, h2, h3⟩ := (ih (B - c) hB' us').mp hl
          refine ⟨by simp [h1], ?_, ?_⟩
          · intro p hp
            simp only [List.mem_cons] at hp
            rcases hp with rfl | hp
            · exact hr
            · exact h2 p hp
          · simp only [ExBudget.le_def, ExBudget.sub_cpu, ExBudget.sub_mem, units_cons,
              ExBudget.total_cons, ExBudget.add_cpu, ExBudget.add_mem] at *
            omega
    · rintro ⟨h1, h2, h3⟩
      cases us with
      | nil => simp at h1
      | cons p us' =>
        obtain ⟨r', c⟩ := p
        simp only [List.map_cons, List.cons.injEq] at h1
        obtain ⟨rfl, h1⟩ := h1
        have hr : inf r' = some c := h2 (r', c) (by simp)
        have hnn := hi.2 r' c hr
        have hrest : zero ≤ total (units us') := by
          apply total_nonneg
          intro c' hc'
          simp only [units, List.mem_map] at hc'
          obtain ⟨p, hp, rfl⟩ := hc'
          exact hi.2 p.1 p.2 (h2 p (by simp [hp]))
        have hc : c ≤ B := by
          simp only [ExBudget.le_def, units_cons, ExBudget.total_cons, ExBudget.add_cpu,
            ExBudget.add_mem, ExBudget.zero_cpu, ExBudget.zero_mem] at *
          omega
        have he : eval r' B = .ok c := (hi.1 r' B c).mpr ⟨hr, hc⟩
        have hB' : zero ≤ B - c := by
          simp only [ExBudget.le_def, ExBudget.sub_cpu, ExBudget.sub_mem, ExBudget.zero_cpu,
            ExBudget.zero_mem] at *
          omega
        have hl : loop eval rs (B - c) = .ok us' := by
          apply (ih (B - c) hB' us').mpr
          refine ⟨h1, fun p hp => h2 p (by simp [hp]), ?_⟩
          simp only [ExBudget.le_def, ExBudget.sub_cpu, ExBudget.sub_mem, units_cons,
            ExBudget.total_cons, ExBudget.add_cpu, ExBudget.add_mem] at *
          omega
        simp [he, hl]

/-- …hence, for such an evaluator, whether the simulation succeeds does not depend on the order
of the redeemers in the witness set either (only WHICH redeemer is blamed does), and the total
is the same -/
theorem success_order_independent {inf : ρ → Option ExBudget} (hi : BudgetIndependent eval inf)
    {rs rs' : List ρ} (hp : rs.Perm rs') (B : ExBudget) (hB : zero ≤ B)
    {us : List (ρ × ExBudget)} (h : loop eval rs B = .ok us) :
    ∃ us', loop eval rs' B = .ok us' ∧ us.Perm us' := by
  obtain ⟨h1, h2, h3⟩ := (succeeds_iff_total_fits eval hi rs B hB us).mp h
  let g : ρ → ρ × ExBudget := fun r => (r, (inf r).getD zero)
  have hus : us = rs.map g := by
    rw [← h1, List.map_map]
    symm
    have : ∀ p ∈ us, (g ∘ fun x => x.1) p = id p := by
      intro p hp'
      have := h2 p hp'
      simp [g, this]
    rw [List.map_congr_left this, List.map_id]
  have hperm : us.Perm (rs'.map g) := hus ▸ hp.map g
  refine ⟨rs'.map g, ?_, hperm⟩
  apply (succeeds_iff_total_fits eval hi rs' B hB _).mpr
  refine ⟨by simp [List.map_map, g, Function.comp_def], ?_, ?_⟩
  · intro p hp'
    exact h2 p (hperm.mem_iff.mpr hp')
  · have : total (units (rs'.map g)) = total (units us) :=
      ExBudget.total_perm (show (units (rs'.map g)).Perm (units us) from (hperm.map (fun p : ρ × ExBudget => p.2)).symm)
    rw [this]; exact h3

end loop

/-! ## the whole call -/
section call
variable {ρ ε : Type} (eval : ρ → ExBudget → Except ε ExBudget)

/-- **simulation_fails_iff**: `eval_phase_two…` returns `Err` iff the (requested) phase-one check
fails, or some redeemer fails on the budget left by its predecessors. -/
theorem simulation_fails_iff (c : Call ρ ε) :
    (∃ f, evalPhaseTwo eval c = .error f) ↔
      (c.runPhaseOne = true ∧ ∃ e, c.phaseOne = .error e) ∨
      ((c.runPhaseOne = false ∨ c.phaseOne = .ok ()) ∧
        ∃ rs, c.redeemers = some rs ∧ ∃ f, loop eval rs (startBudget c.initialBudget) = .error f) := by
  obtain ⟨rs, rp, p1, ib⟩ := c
  cases rp <;> cases p1 <;> cases rs <;> simp [evalPhaseTwo]
  all_goals
    cases hl : loop eval _ (startBudget ib) with
    | error f => obtain ⟨i, e⟩ := f; simp
    | ok us => simp

/-- on success the answer is the loop's answer: per-redeemer units under the threaded budget,
starting from `initial_budget` or `ExBudget::default()` -/
theorem simulation_ok_iff (c : Call ρ ε) (us : List (ρ × ExBudget)) :
    evalPhaseTwo eval c = .ok us ↔
      (c.runPhaseOne = false ∨ c.phaseOne = .ok ()) ∧
        ((c.redeemers = none ∧ us = []) ∨
          ∃ rs, c.redeemers = some rs ∧ loop eval rs (startBudget c.initialBudget) = .ok us) := by
  obtain ⟨rs, rp, p1, ib⟩ := c
  cases rp <;> cases p1 <;> cases rs <;> simp [evalPhaseTwo]
  all_goals first
    | exact eq_comm
    | (cases hl : loop eval _ (startBudget ib) with
       | error f => obtain ⟨i, e⟩ := f; simp
       | ok us' => simp)

/-- the redeemer blamed by `Error::RedeemerError` is the first failing one -/
theorem simulation_blames_first (c : Call ρ ε) (i : Nat) (e : ε)
    (h : evalPhaseTwo eval c = .error (.redeemer i e)) :
    ∃ rs, c.redeemers = some rs ∧ loop eval rs (startBudget c.initialBudget) = .error (i, e) := by
  obtain ⟨rs, rp, p1, ib⟩ := c
  cases rp <;> cases p1 <;> cases rs <;> simp [evalPhaseTwo] at h ⊢
  all_goals
    cases hl : loop eval _ (startBudget ib) with
    | error f => obtain ⟨j, e'⟩ := f; simp [hl] at h; simp [h]
    | ok us => simp [hl] at h

end call

/-! ## one redeemer: success criterion and argument selection -/
section redeemer
variable {μ : Type}

/-- **success_criterion**: with the fix, `do_eval_redeemer` accepts exactly what the ledger accepts
(V1/V2: no machine error; V3: the result is unit) -/
theorem success_criterion (lang : Lang) (r : Run μ) :
    (∃ c, judge .fixed lang r = .ok c) ↔ ledgerSucceeds lang r = true := by
  obtain ⟨cost, res⟩ := r
  cases res with
  | error e => simp [judge, ledgerSucceeds]
  | ok k => cases lang <;> cases k <;> simp [judge, ledgerSucceeds, Run.failed]

/-- …and what it reports is the machine's cost -/
theorem judge_cost (crit : Criterion) (lang : Lang) (r : Run μ) (c : ExBudget)
    (h : judge crit lang r = .ok c) : c = r.cost := by
  obtain ⟨cost, res⟩ := r
  cases res with
  | error e => simp [judge] at h
  | ok k =>
    cases crit
    · simp [judge] at h; exact h.symm
    · simp only [judge] at h
      split at h
      · cases h
      · cases h; rfl

/-- the unpatched tree (`Criterion.legacy`) differs from the ledger's rule exactly on
Plutus V3 scripts that return something other than unit: those are reported as successes
(`v3_nonunit_reported_ok`; replayed on the real code by `c19-tx`, key `c19:v3-nonunit:*`) -/
theorem legacy_differs_iff (lang : Lang) (r : Run μ) :
    ((∃ c, judge .legacy lang r = .ok c) ↔ ledgerSucceeds lang r = true) ↔
      ¬ (lang = .v3 ∧ ∃ k, r.result = .ok k ∧ k ≠ .unit) := by
  obtain ⟨cost, res⟩ := r
  cases res with
  | error e => simp [judge, ledgerSucceeds]
  | ok k => cases lang <;> cases k <;> simp [judge, ledgerSucceeds]

theorem v3_nonunit_reported_ok (cost : ExBudget) (k : ResultKind) (hk : k ≠ .unit) :
    judge (μ := μ) .legacy .v3 ⟨cost, .ok k⟩ = .ok cost ∧
    ledgerSucceeds (μ := μ) .v3 ⟨cost, .ok k⟩ = false ∧
    judge (μ := μ) .fixed .v3 ⟨cost, .ok k⟩ = .error (.invalidResult cost) := by
  cases k <;> simp_all [judge, ledgerSucceeds, Run.failed]

/-- `EvalResult::failed(false, lang)` is the negation of the ledger's rule -/
theorem failed_strict_iff (lang : Lang) (r : Run μ) :
    r.failed false lang = !ledgerSucceeds lang r := by
  obtain ⟨cost, res⟩ := r
  cases res with
  | error e => cases lang <;> rfl
  | ok k => cases lang <;> cases k <;> rfl

/-- the machine budget: with the fix it is always the remaining budget; the unpatched tree
ignores it when no cost models are passed (`aiken tx simulate` passes none) -/
theorem machineBudget_fixed (have_ : Bool) (b : ExBudget) : machineBudget .fixed have_ b = b := by
  cases have_ <;> rfl
theorem machineBudget_legacy (b : ExBudget) :
    machineBudget .legacy true b = b ∧ machineBudget .legacy false b = ExBudget.default := ⟨rfl, rfl⟩

/-- **argument_selection**: which arguments are applied, per language and presence of a datum -/
theorem argument_selection :
    selectArgs Lang.v1.ctxVersion true = [.datum, .redeemer, .context] ∧
    selectArgs Lang.v1.ctxVersion false = [.redeemer, .context] ∧
    selectArgs Lang.v2.ctxVersion true = [.datum, .redeemer, .context] ∧
    selectArgs Lang.v2.ctxVersion false = [.redeemer, .context] ∧
    selectArgs Lang.v3.ctxVersion true = [.context] ∧
    selectArgs Lang.v3.ctxVersion false = [.context] := by decide

/-- the context is always the last argument, the redeemer (when applied) just before it -/
theorem argument_selection_shape (lang : Lang) (d : Bool) :
    (selectArgs lang.ctxVersion d).getLast? = some .context ∧
    ((selectArgs lang.ctxVersion d).length = 1 ↔ lang = .v3) ∧
    (Arg.datum ∈ selectArgs lang.ctxVersion d ↔ lang ≠ .v3 ∧ d = true) := by
  cases lang <;> cases d <;> decide

variable {ρ σ δ κ π : Type}

/-- **redeemer_ok_iff**: a redeemer yields units `c` iff its script and datum are found, the cost
model for its language is available, the context can be built, the script decodes, and the
machine run on (script · selected arguments) under the remaining budget satisfies the ledger's
success rule with cost `c`.  Every other case is an `Err`. -/
theorem redeemer_ok_iff (s : Stages ρ σ δ κ π μ) (r : ρ) (b c : ExBudget) :
    evalRedeemer .fixed .fixed s r b = .ok c ↔
      ∃ lang script datum cm ctx prog,
        s.findScript r = .ok ((lang, script), datum) ∧ s.costModel lang = .ok cm ∧
        s.context lang r datum = .ok ctx ∧ s.decode script = .ok prog ∧
        let run := s.run lang cm prog (selectArgs lang.ctxVersion datum.isSome) datum r ctx b
        ledgerSucceeds lang run = true ∧ run.cost = c := by
  unfold evalRedeemer
  cases hf : s.findScript r with
  | error e => simp
  | ok fs =>
    obtain ⟨⟨lang, script⟩, datum⟩ := fs
    simp only []
    cases hc : s.costModel lang with
    | error e => simp [hc]
    | ok cm =>
      simp only []
      cases hx : s.context lang r datum with
      | error e => simp [hc, hx]
      | ok ctx =>
        simp only []
        cases hd : s.decode script with
        | error e => simp [hd]
        | ok prog =>
          simp only [machineBudget_fixed]
          constructor
          · intro h
            refine ⟨lang, script, datum, cm, ctx, prog, rfl, hc, hx, hd, ?_, ?_⟩
            · exact (success_criterion lang _).mp ⟨c, h⟩
            · exact (judge_cost _ _ _ _ h).symm
          · rintro ⟨lang', script', datum', cm', ctx', prog', h1, h2, h3, h4, h5, h6⟩
            simp only [Except.ok.injEq, Prod.mk.injEq] at h1
            obtain ⟨⟨rfl, rfl⟩, rfl⟩ := h1
            rw [hc] at h2; cases h2
            rw [hx] at h3; cases h3
            rw [hd] at h4; cases h4
            obtain ⟨c', hc'⟩ := (success_criterion lang _).mpr h5
            have := judge_cost _ _ _ _ hc'
            rw [hc', this, h6]

/-- a missing script, datum or resolved input makes the redeemer — hence the simulation — fail -/
theorem missing_fails (cj cb : Criterion) (s : Stages ρ σ δ κ π μ) (r : ρ) (b : ExBudget) (e : TxErr μ)
    (h : s.findScript r = .error e) : evalRedeemer cj cb s r b = .error e := by
  simp [evalRedeemer, h]

end redeemer

/-! ## order independence -/
section order
variable {κ ν : Type} [BEq κ] [LawfulBEq κ]

/-- **lookup_perm**: a hash table built from a permuted list of entries answers every lookup the
same, provided equal keys carry equal values (unique keys, or keys that are collision-free hashes) -/
theorem lookup_perm {es es' : List (κ × ν)} (hp : es.Perm es') (hf : Functional es) (k : κ) :
    tableGet es k = tableGet es' k := by
  apply Option.ext
  intro v
  rw [tableGet_eq_some_iff hf, tableGet_eq_some_iff (hf.perm hp), hp.mem_iff]

/-- the same for the first-match scan over the resolved inputs -/
theorem resolve_perm {es es' : List (κ × ν)} (hp : es.Perm es') (hf : Functional es) (k : κ) :
    firstGet es k = firstGet es' k := by
  apply Option.ext
  intro v
  rw [firstGet_eq_some_iff hf, firstGet_eq_some_iff (hf.perm hp), hp.mem_iff]

/-- unique keys are enough -/
theorem lookup_perm_of_nodup {es es' : List (κ × ν)} (hp : es.Perm es')
    (hn : (es.map (·.1)).Nodup) (k : κ) :
    tableGet es k = tableGet es' k ∧ firstGet es k = firstGet es' k :=
  ⟨lookup_perm hp (functional_of_nodup_keys hn) k, resolve_perm hp (functional_of_nodup_keys hn) k⟩

/-- first-match and last-insert-wins agree on such lists (so `find` vs `HashMap` is immaterial) -/
theorem firstGet_eq_tableGet {es : List (κ × ν)} (hf : Functional es) (k : κ) :
    firstGet es k = tableGet es k := by
  apply Option.ext
  intro v
  rw [firstGet_eq_some_iff hf, tableGet_eq_some_iff hf]

/-- the hypothesis is needed: with two different outputs under one out-ref the FIRST one is used -/
example : firstGet [((1 : Nat), "a"), (1, "b")] 1 ≠ firstGet [((1 : Nat), "b"), (1, "a")] 1 := by decide

/-- the script table does not depend on the order of witness scripts or of the resolved inputs
carrying reference scripts -/
theorem script_table_perm {w1 w1' w2 w2' w3 w3' refs refs' ovr ovr' : List (κ × ν)}
    (h1 : w1.Perm w1') (h2 : w2.Perm w2') (h3 : w3.Perm w3') (hr : refs.Perm refs')
    (ho : ovr.Perm ovr')
    (hf : Functional (scriptEntries w1 w2 w3 refs)) (hfo : Functional ovr) (k : κ) :
    getScript ovr (scriptEntries w1 w2 w3 refs) k = getScript ovr' (scriptEntries w1' w2' w3' refs') k := by
  have hp : (scriptEntries w1 w2 w3 refs).Perm (scriptEntries w1' w2' w3' refs') :=
    ((h1.append h2).append h3).append hr
  unfold getScript
  rw [← lookup_perm ho hfo k, ← lookup_perm hp hf k]

/-- **sorted_inputs_perm**: the sorted input list is a function of the SET of inputs -/
theorem sorted_inputs_perm {l l' : List TxIn} (h : l.Perm l') : sortInputs l = sortInputs l' :=
  mergeSort_eq_of_perm TxIn.le TxIn.le_trans TxIn.le_total TxIn.le_antisymm h

/-- …and it is sorted, and a permutation of the body's inputs -/
theorem sorted_inputs_sorted (l : List TxIn) :
    (sortInputs l).Pairwise (fun a b => TxIn.le a b = true) ∧ (sortInputs l).Perm l :=
  ⟨List.pairwise_mergeSort TxIn.le_trans TxIn.le_total l, List.mergeSort_perm l TxIn.le⟩

/-- the redeemers listed in the context (`get_redeemers_info`) do not depend on their order in
the witness set -/
theorem sorted_redeemers_perm {l l' : List (Tag × Nat)} (h : l.Perm l') :
    sortRedeemerKeys l = sortRedeemerKeys l' :=
  mergeSort_eq_of_perm redeemerKeyLe redeemerKeyLe_trans redeemerKeyLe_total redeemerKeyLe_antisymm h

/-- generic form, used for mint policies / assets / withdrawals / voters (`sort_value_perm`):
any `sorted_by` with a total order on the keys present -/
theorem sort_value_perm {α : Type} (le : α → α → Bool)
    (trans : ∀ a b c, le a b = true → le b c = true → le a c = true)
    (total : ∀ a b, (le a b || le b a) = true)
    (antisymm : ∀ a b, le a b = true → le b a = true → a = b)
    {l l' : List α} (h : l.Perm l') : l.mergeSort le = l'.mergeSort le :=
  mergeSort_eq_of_perm le trans total antisymm h

variable {η σ δ μ : Type} [BEq η] [LawfulBEq η]

/-- **find_script_order_independent**: the script and datum found for a spend redeemer do not
depend on the order of the body inputs, of the resolved inputs, of the witness / reference
scripts, or of the witness datums. -/
theorem find_script_order_independent
    {ovr scripts scripts' : List (η × (Lang × σ))} {datums datums' : List (η × δ)}
    {inputs inputs' : List TxIn} {utxos utxos' : List (TxIn × Out η δ)}
    (hs : scripts.Perm scripts') (hd : datums.Perm datums') (hi : inputs.Perm inputs')
    (hu : utxos.Perm utxos')
    (fs : Functional scripts) (fd : Functional datums) (fu : Functional utxos) (index : Nat) :
    findScriptSpend (μ := μ) ovr scripts datums inputs utxos index =
      findScriptSpend ovr scripts' datums' inputs' utxos' index := by
  have e1 : sortInputs inputs = sortInputs inputs' := sorted_inputs_perm hi
  have e2 : (fun i => firstGet utxos i) = (fun i => firstGet utxos' i) :=
    funext (fun i => resolve_perm hu fu i)
  have e3 : ∀ h, getScript ovr scripts h = getScript ovr scripts' h := by
    intro h; unfold getScript; rw [lookup_perm hs fs h]
  have e4 : ∀ o, lookupDatum (μ := μ) datums o = lookupDatum datums' o := by
    intro o
    cases o with
    | none => rfl
    | some d => cases d <;> simp [lookupDatum, lookup_perm hd fd]
  unfold findScriptSpend
  simp only [e1, e2, e3, e4]

end order

/-! ## non-vacuity -/
section examples

/-- a toy evaluator: redeemer `n` costs `(n, 2n)`; `0` is a failing script; over budget = error -/
def toyEval (r : Nat) (b : ExBudget) : Except Nat ExBudget :=
  if r = 0 then .error 1  -- script failed
  else if (r : Int) ≤ b.cpu ∧ (2 * r : Int) ≤ b.mem then .ok ⟨r, 2 * r⟩ else .error 2  -- over budget

def toyInf (r : Nat) : Option ExBudget := if r = 0 then none else some ⟨r, 2 * r⟩

theorem toy_within : Within toyEval := by
  intro r b c h
  unfold toyEval at h
  split at h
  · cases h
  · split at h
    · cases h; simp [ExBudget.le_def]; omega
    · cases h

theorem toy_independent : BudgetIndependent toyEval toyInf := by
  constructor
  · intro r b c
    unfold toyEval toyInf
    by_cases h0 : r = 0
    · simp [h0]
    · simp only [h0, if_false]
      by_cases hb : (r : Int) ≤ b.cpu ∧ (2 * r : Int) ≤ b.mem
      · simp only [hb, and_self, if_true, Except.ok.injEq, Option.some.injEq]
        constructor
        · rintro rfl; exact ⟨rfl, hb⟩
        · exact fun h => h.1
      · simp only [hb, if_false]
        constructor
        · intro h; cases h
        · rintro ⟨h1, h2⟩
          simp only [Option.some.injEq] at h1
          subst h1
          exact absurd h2 hb
  · intro r c h
    unfold toyInf at h
    split at h
    · cases h
    · cases h; simp [ExBudget.le_def]; omega

/-- success: units are the costs, the second redeemer saw `B − cost₀` -/
example : loop toyEval [3, 4] ⟨10, 14⟩ = .ok [(3, ⟨3, 6⟩), (4, ⟨4, 8⟩)] := rfl
/-- exactly the total fits, one less in either dimension does not, and the LAST redeemer is blamed -/
example : loop toyEval [3, 4] ⟨7, 14⟩ = .ok [(3, ⟨3, 6⟩), (4, ⟨4, 8⟩)] := rfl
example : loop toyEval [3, 4] ⟨6, 14⟩ = .error (1, 2) := rfl
example : loop toyEval [3, 4] ⟨7, 13⟩ = .error (1, 2) := rfl
/-- the first failing redeemer is the one reported -/
example : loop toyEval [3, 0, 4, 0] ⟨100, 100⟩ = .error (1, 1) := rfl
/-- phase one first; no redeemers = empty answer; default budget when none is given -/
example : evalPhaseTwo toyEval ⟨some [3], true, .error 7, none⟩
    = .error (.phaseOne 7) := rfl
example : evalPhaseTwo toyEval ⟨none, false, .error 8, none⟩ = .ok [] := rfl
example : evalPhaseTwo toyEval ⟨some [3, 0], false, .ok (), none⟩
    = .error (.redeemer 1 1) := rfl
example : startBudget none = ⟨10000000000, 16500000⟩ := rfl

/-- the hypotheses of `lookup_perm` / `find_script_order_independent` are satisfiable non-trivially -/
example : Functional [((1 : Nat), "a"), (2, "b"), (1, "a")] := by
  intro a ha b hb; simp at ha hb
  rcases ha with rfl | rfl | rfl <;> rcases hb with rfl | rfl | rfl <;> simp
example : tableGet [((1 : Nat), "a"), (2, "b")] 2 = tableGet [((2 : Nat), "b"), (1, "a")] 2 := by decide
theorem sortInputs_eq_of {l r : List TxIn} (hs : r.Pairwise (fun a b => TxIn.le a b = true))
    (hp : l.Perm r) : sortInputs l = r :=
  List.Perm.eq_of_pairwise (fun a b _ _ => TxIn.le_antisymm a b) (sorted_inputs_sorted l).1 hs
    ((sorted_inputs_sorted l).2.trans hp)
example : sortInputs [(5, 1), (2, 7), (5, 0)] = [(2, 7), (5, 0), (5, 1)] :=
  sortInputs_eq_of (by decide) (by decide)
example : sortInputs [(5, 0), (5, 1), (2, 7)] = sortInputs [(5, 1), (2, 7), (5, 0)] :=
  sorted_inputs_perm (by decide)
example : sortRedeemerKeys [(.reward, 0), (.mint, 1), (.spend, 2), (.cert, 0), (.mint, 0)]
    = [(.spend, 2), (.mint, 0), (.mint, 1), (.cert, 0), (.reward, 0)] :=
  List.Perm.eq_of_pairwise (le := fun a b => redeemerKeyLe a b = true)
    (fun a b _ _ => redeemerKeyLe_antisymm a b)
    (List.pairwise_mergeSort redeemerKeyLe_trans redeemerKeyLe_total _) (by decide)
    ((List.mergeSort_perm _ _).trans (by decide))

/-- `find_script` on a two-input transaction: hashed datum found / missing, script missing
(values are numbers: script 500, datum 600) -/
def exUtxos : List (TxIn × Out Nat Nat) :=
  [((7, 0), ⟨none, none⟩), ((3, 1), ⟨some 42, some (.hash 9)⟩)]
theorem exSorted : sortInputs [(7, 0), (3, 1)] = [(3, 1), (7, 0)] :=
  sortInputs_eq_of (by decide) (by decide)
example : findScriptSpend (μ := Unit) [] [(42, (Lang.v2, 500))] [(9, 600)] [(7, 0), (3, 1)] exUtxos 0
    = .ok ((Lang.v2, 500), some 600) := by
  simp only [findScriptSpend, exSorted]; rfl
example : findScriptSpend (μ := Unit) [] [(42, (Lang.v2, 500))] ([] : List (Nat × Nat))
    [(7, 0), (3, 1)] exUtxos 0 = .error .missingRequiredDatum := by
  simp only [findScriptSpend, exSorted]; rfl
example : findScriptSpend (μ := Unit) [] ([] : List (Nat × (Lang × Nat))) [(9, 600)]
    [(7, 0), (3, 1)] exUtxos 0 = .error .missingRequiredScript := by
  simp only [findScriptSpend, exSorted]; rfl
example : findScriptSpend (μ := Unit) [] [(42, (Lang.v2, 500))] [(9, 600)] [(7, 0), (3, 1)] exUtxos 1
    = .error .nonScript := by
  simp only [findScriptSpend, exSorted]; rfl
example : findScriptSpend (μ := Unit) [] [(42, (Lang.v2, 500))] [(9, 600)] [(7, 0), (3, 2)] exUtxos 0
    = .error .resolvedInputNotFound := by
  have : sortInputs [(7, 0), (3, 2)] = [(3, 2), (7, 0)] := sortInputs_eq_of (by decide) (by decide)
  simp only [findScriptSpend, this]; rfl

end examples

end AikenVerif.C19
